(* Proofs for C11 theorem 3b, part 3: the structural interpreter on the normalised tree of an AST simulates the
   structural semantics [den] - brace sub-patterns and alternatives included, outside the known class F34 - with the
   save-array statement of DESIGN.md: every slot the log writes holds the log's last value. *)
From PV.Model Require Import Machine Pattern Exec.
From PV.Spec Require Import PatSyntax PatSem.
From PV.Proofs Require Import BaseProofs PatSyntaxProofs PatSemProofs PatTree PatTreeComp.
Ltac Zify.zify_post_hook ::= Z.div_mod_to_equations.

(* ================================================================ (D) the bounds of wf, without the compiler state *)
Fixpoint wfi (it : item) {struct it} : Prop :=
  let seq := fix seq (l : list item) {struct l} : Prop := match l with [] => True | x :: t => wfi x /\ seq t end in
  match it with
  | IByte b => b < 256
  | IStr s => Forall (fun ch => ch < 256 /\ ch <> 34) s
  | IRange a b => a < b /\ b < 16384
  | ISub _ sub => seq sub
  | IAlt a more => seq a /\ (fix seqs (ls : list (list item)) : Prop := match ls with [] => True | l :: t => seq l /\ seqs t end) more
  | _ => True
  end.
Definition wfs : list item -> Prop :=
  fix seq (l : list item) {struct l} : Prop := match l with [] => True | x :: t => wfi x /\ seq t end.
Fixpoint wfss (ls : list (list item)) : Prop := match ls with [] => True | l :: t => wfs l /\ wfss t end.

Lemma wfs_Forall l : wfs l -> Forall wfi l.
Proof. induction l as [|x t IH]; intros H; constructor; [exact (proj1 H)|exact (IH (proj2 H))]. Qed.
Lemma wfss_Forall ls : wfss ls -> Forall (fun l => Forall wfi l) ls.
Proof. induction ls as [|l t IH]; intros H; constructor; [exact (wfs_Forall l (proj1 H))|exact (IH (proj2 H))]. Qed.

Definition WfI (it : item) : Prop := forall c, wf_item it c -> wfi it.
Lemma wfS_of l : Forall WfI l -> forall c, wf_seq l c -> wfs l.
Proof. induction 1 as [|x t Hx _ IH]; intros c H; [exact I|]. split; [exact (Hx c (proj1 H))|exact (IH _ (proj2 H))]. Qed.
Lemma wf_item_wfi it : WfI it.
Proof.
  induction it as [it Hf|j sub IH|a more IHa IHm] using item_ind2; intros c Hw.
  - destruct it; try discriminate Hf; cbn [wf_item wfi] in *; try exact I; exact Hw.
  - cbn [wf_item] in Hw. exact (wfS_of sub IH _ Hw).
  - cbn [wf_item] in Hw. destruct Hw as [Ha [Hm _]]. split; [exact (wfS_of a IHa _ Ha)|].
    clear Ha. induction IHm as [|l t Hl _ IHt]; [exact I|]. split; [exact (wfS_of l Hl _ (proj1 Hm))|exact (IHt (proj2 Hm))].
Qed.
Lemma wf_wfs a : wf a -> Forall wfi a.
Proof. intros H. apply wfs_Forall. apply (wfS_of a) with (c := cinit); [|exact H]. clear H. induction a; constructor; [apply wf_item_wfi|assumption]. Qed.

(* ================================================================ logs and save arrays *)
Definition slots_in (lg : wlog) (s e : N) : Prop := Forall (fun p => s <= fst p /\ fst p < e) lg.
(* the array b holds, in every slot the log writes, what the log applied to a holds there *)
Definition wrote (lg : wlog) (a b : list N) : Prop :=
  forall i, In i (map fst lg) -> nth_error b (N.to_nat i) = nth_error (apply_log lg a) (N.to_nat i).
Definition good_out (lg : wlog) (s e : N) (a b : list N) : Prop := outside s e a b /\ slots_in lg s e /\ wrote lg a b.

Lemma apply_log_app l1 l2 a : apply_log (l1 ++ l2) a = apply_log l2 (apply_log l1 a).
Proof. unfold apply_log. apply fold_left_app. Qed.
Lemma apply_log_len lg : forall a, length (apply_log lg a) = length a.
Proof. induction lg as [|[x v] t IH]; intros a; [reflexivity|]. cbn [apply_log fold_left fst snd]. fold (apply_log t (set_slot a x v)). rewrite IH. apply set_slot_len. Qed.
Lemma apply_log_other lg i : forall a, ~ In i (map fst lg) -> nth_error (apply_log lg a) (N.to_nat i) = nth_error a (N.to_nat i).
Proof.
  induction lg as [|[x v] t IH]; intros a H; [reflexivity|]. cbn [apply_log fold_left fst snd]. fold (apply_log t (set_slot a x v)).
  cbn [map fst In] in H. rewrite IH by tauto. apply set_slot_other. intros E. apply H. left. symmetry. exact E.
Qed.
Lemma apply_log_same lg i : forall a b, In i (map fst lg) -> length a = length b ->
  nth_error (apply_log lg a) (N.to_nat i) = nth_error (apply_log lg b) (N.to_nat i).
Proof.
  induction lg as [|[x v] t IH]; intros a b H L; [contradiction|]. cbn [apply_log fold_left fst snd].
  fold (apply_log t (set_slot a x v)). fold (apply_log t (set_slot b x v)).
  destruct (in_dec N.eq_dec i (map fst t)) as [Hin|Hnin].
  - apply IH; [exact Hin|rewrite !set_slot_len; exact L].
  - cbn [map fst In] in H. destruct H as [<-|H]; [|contradiction].
    rewrite !apply_log_other by exact Hnin. apply set_slot_same. exact L.
Qed.

Lemma outside_widen_r s e e' a b : e <= e' -> outside s e a b -> outside s e' a b.
Proof. intros He [L H]. split; [exact L|]. intros i Hi. apply H. lia. Qed.
Lemma outside_len s e a b : outside s e a b -> length a = length b.
Proof. intros [L _]. exact L. Qed.
Lemma slots_in_widen lg s e s' e' : s' <= s -> e <= e' -> slots_in lg s e -> slots_in lg s' e'.
Proof. intros H1 H2 H. unfold slots_in in *. rewrite Forall_forall in *. intros p Hp. specialize (H p Hp). lia. Qed.

Lemma good_nil s e a : good_out [] s e a a.
Proof. split; [apply outside_refl|split; [constructor|intros i H; contradiction]]. Qed.
Lemma good_one s v a : good_out [(s, v)] s (s + 1) a (set_slot a s v).
Proof.
  split; [apply outside_set_slot; lia|split; [constructor; [cbn [fst]; lia|constructor]|]].
  intros i H. reflexivity.
Qed.
Lemma good_pre lg s e a a1 b : outside s e a a1 -> good_out lg s e a1 b -> good_out lg s e a b.
Proof.
  intros Ho [H1 [H2 H3]]. split; [eapply outside_trans; eassumption|split; [exact H2|]].
  intros i Hi. rewrite (H3 i Hi). apply apply_log_same; [exact Hi|]. symmetry. exact (outside_len _ _ _ _ Ho).
Qed.
Lemma good_app lg1 lg2 s m e a a1 b : s <= m -> m <= e -> good_out lg1 s m a a1 -> good_out lg2 m e a1 b -> good_out (lg1 ++ lg2) s e a b.
Proof.
  intros Hsm Hme [O1 [S1 W1]] [O2 [S2 W2]]. split; [|split].
  - eapply outside_trans; [apply (outside_widen_r s m e); [exact Hme|exact O1]|apply (outside_widen s m e); [exact Hsm|exact O2]].
  - unfold slots_in. apply Forall_app. split; [apply (slots_in_widen lg1 s m s e); [lia|exact Hme|exact S1]|apply (slots_in_widen lg2 m e s e); [exact Hsm|lia|exact S2]].
  - intros i Hi. rewrite apply_log_app. rewrite map_app in Hi.
    destruct (in_dec N.eq_dec i (map fst lg2)) as [H2|H2].
    + rewrite (W2 i H2). apply apply_log_same; [exact H2|]. rewrite apply_log_len. symmetry. exact (outside_len _ _ _ _ O1).
    + apply in_app_or in Hi. destruct Hi as [H1|H1]; [|contradiction].
      rewrite apply_log_other by exact H2. rewrite <- (W1 i H1).
      destruct O2 as [_ O2]. symmetry. apply O2. left.
      unfold slots_in in S1. rewrite Forall_forall in S1. apply in_map_iff in H1. destruct H1 as [p [<- Hp]]. specialize (S1 p Hp). lia.
Qed.
Lemma good_widen lg s e s' a b : s' <= s -> good_out lg s e a b -> good_out lg s' e a b.
Proof.
  intros H [O [S W]]. split; [apply (outside_widen s' s e); assumption|split; [|exact W]]. apply (slots_in_widen lg s e s' e); [exact H|lia|exact S].
Qed.

(* ================================================================ the semantics of a group is atomic by definition *)
Definition dbind (r : dres) (D : N -> dres) : dres := match r with Some (lg, c) => dpre lg (D c) | None => None end.
Lemma dpre_nil r : dpre [] r = r.
Proof. destruct r as [[lg c]|]; reflexivity. Qed.
Lemma dpre_dpre l1 l2 r : dpre l1 (dpre l2 r) = dpre (l1 ++ l2) r.
Proof. destruct r as [[lg c]|]; [|reflexivity]. cbn [dpre]. rewrite app_assoc. reflexivity. Qed.
Lemma dbind_dend r : dbind r dend = r.
Proof. destruct r as [[lg c]|]; [|reflexivity]. cbn [dbind dend dpre]. rewrite app_nil_r. reflexivity. Qed.

Section Atomic.
  Variable sc : scan.
  Definition is_range (it : item) : bool := match it with IRange _ _ => true | _ => false end.

  Lemma den_item_atomic it s D cur : is_range it = false -> den_item sc it s D cur = dbind (den_item sc it s dend cur) D.
  Proof.
    intros Hr. destruct it; try discriminate Hr; cbn [den_item].
    - destruct (match_bytes sc [b] cur); [cbn [dbind dend]; rewrite dpre_nil; reflexivity|reflexivity].
    - destruct (match_bytes sc s0 cur); [cbn [dbind dend]; rewrite dpre_nil; reflexivity|reflexivity].
    - cbn [dbind dend]. rewrite dpre_nil. reflexivity.
    - cbn [dbind dend]. rewrite dpre_nil. reflexivity.
    - reflexivity.
    - destruct (sc_read sc (read_size r) cur); reflexivity.
    - reflexivity.
    - destruct (cur mod 2 ^ N.min k 32 =? 0); [cbn [dbind dend]; rewrite dpre_nil; reflexivity|reflexivity].
    - destruct (jump_target sc j cur); [cbn [dbind dend]; rewrite dpre_nil; reflexivity|reflexivity].
    - destruct (jump_target sc j cur); [|reflexivity].
      match goal with |- context [match ?x with Some _ => _ | None => _ end] => destruct x as [[lg1 c1]|] end; [|reflexivity].
      cbn [dend dpre dbind]. rewrite app_nil_r. reflexivity.
    - match goal with |- context [first_alt ?f ?l] => destruct (first_alt f l) as [[lg1 c1]|] end; [|reflexivity].
      cbn [dend dpre dbind]. rewrite app_nil_r. reflexivity.
  Qed.

  Lemma den_cons x t s D : den sc (x :: t) s D = den_item sc x s (den sc t (s + slots_of x) D).
  Proof. reflexivity. Qed.

  Lemma den_atomic l : forall s D cur, direct_range l = false -> den sc l s D cur = dbind (den sc l s dend cur) D.
  Proof.
    induction l as [|x t IH]; intros s D cur Hr.
    - cbn [den dbind dend]. rewrite dpre_nil. reflexivity.
    - unfold direct_range in Hr. cbn [existsb] in Hr. apply orb_false_elim in Hr. destruct Hr as [Hx Ht].
      rewrite !den_cons. rewrite (den_item_atomic x s (den sc t (s + slots_of x) D)) by exact Hx.
      rewrite (den_item_atomic x s (den sc t (s + slots_of x) dend)) by exact Hx.
      destruct (den_item sc x s dend cur) as [[lg c]|]; [|reflexivity]. cbn [dbind].
      rewrite (IH (s + slots_of x) D c Ht).
      destruct (den sc t (s + slots_of x) dend c) as [[lg2 c2]|]; [|reflexivity]. cbn [dbind dpre]. apply dpre_dpre.
  Qed.
End Atomic.

(* ================================================================ the simulation *)
Section Sim.
  Variable sc : scan.
  Hypothesis Hwf : scan_wf sc.

  Definition run_ok (e s : N) (r : ares) (d : dres) (save : list N) : Prop :=
    match d with
    | Some (lg, c') => exists save', r = (true, c', save') /\ good_out lg s e save save' /\ c' < W32
    | None => exists c' save', r = (false, c', save') /\ outside s e save save'
    end.
  Definition sim (e : N) (rest : list atom) (k : cont) (s : N) (D : N -> dres) : Prop :=
    (forall cur save, cur < W32 -> run_ok e s (k cur 255 0 save) (D cur) save) /\
    (forall b, peek_byte rest = Some b -> forall c save, sc_read sc 1 c <> Some b -> a_ok (k c 255 0 save) = false).

  Lemma run_fail e s c save : run_ok e s (false, c, save) None save.
  Proof. exists c, save. split; [reflexivity|apply outside_refl]. Qed.
  Lemma run_ok_pre e s r d a a1 : outside s e a a1 -> run_ok e s r d a1 -> run_ok e s r d a.
  Proof.
    intros Ho H. destruct d as [[lg c']|]; cbn [run_ok] in *.
    - destruct H as [save' [E [G Hc]]]. exists save'. split; [exact E|split; [eapply good_pre; eassumption|exact Hc]].
    - destruct H as [c' [save' [E O]]]. exists c', save'. split; [exact E|eapply outside_trans; eassumption].
  Qed.
  Lemma run_ok_widen e s s' r d a : s' <= s -> run_ok e s r d a -> run_ok e s' r d a.
  Proof.
    intros Hs H. destruct d as [[lg c']|]; cbn [run_ok] in *.
    - destruct H as [save' [E [G Hc]]]. exists save'. split; [exact E|split; [eapply good_widen; eassumption|exact Hc]].
    - destruct H as [c' [save' [E O]]]. exists c', save'. split; [exact E|apply (outside_widen s' s e); assumption].
  Qed.

  Lemma sim_ext e rest k1 k2 s D : keq k1 k2 -> sim e rest k1 s D -> sim e rest k2 s D.
  Proof.
    intros E [H1 H2]. split.
    - intros cur save Hc. rewrite <- E. apply H1. exact Hc.
    - intros b Hp c save Hne. rewrite <- E. exact (H2 b Hp c save Hne).
  Qed.
  Lemma sim_ext_D e rest k s D D' : (forall c, D c = D' c) -> sim e rest k s D -> sim e rest k s D'.
  Proof. intros E [H1 H2]. split; [|exact H2]. intros cur save Hc. rewrite <- E. apply H1. exact Hc. Qed.
  Lemma sim_widen e rest k s s' D : s' <= s -> sim e rest k s D -> sim e rest k s' D.
  Proof. intros Hs [H1 H2]. split; [|exact H2]. intros cur save Hc. eapply run_ok_widen; [exact Hs|]. apply H1. exact Hc. Qed.
  (* the end of an invocation *)
  Lemma sim_ret e rest s : peek_byte rest = None -> sim e rest kret s dend.
  Proof.
    intros Hp. split.
    - intros cur save Hc. exists save. split; [reflexivity|split; [apply good_nil|exact Hc]].
    - intros b H. rewrite Hp in H. discriminate.
  Qed.

  (* an item that captures into slot s *)
  Lemma slot_case e rest k s D cur' v save : sim e rest k (s + 1) D -> s < e -> cur' < W32 ->
    run_ok e s (k cur' 255 0 (set_slot save s v)) (dpre [(s, v)] (D cur')) save.
  Proof.
    intros [H _] Hse Hc. specialize (H cur' (set_slot save s v) Hc). destruct (D cur') as [[lg c']|]; cbn [dpre run_ok] in *.
    - destruct H as [save' [E [G Hc']]]. exists save'. split; [exact E|split; [|exact Hc']].
      apply (good_app [(s, v)] lg s (s + 1) e save (set_slot save s v) save'); [lia|lia|apply good_one|exact G].
    - destruct H as [c' [save' [E O]]]. exists c', save'. split; [exact E|].
      eapply outside_trans; [apply (outside_set_slot s e save s v); lia|]. apply (outside_widen s (s + 1) e); [lia|exact O].
  Qed.

  Lemma sim_byte e rest k s D b : b < 256 -> sim e rest k s D ->
    sim e (Byte b :: rest) (catom sc (Byte b) rest k) s (fun cur => match match_bytes sc [b] cur with Some c => D c | None => None end).
  Proof.
    intros Hb [H1 H2]. destruct Hwf as [Hr _]. split.
    - intros cur save Hc. cbn [catom match_bytes]. unfold catom.
      destruct (sc_read sc 1 cur) as [x|] eqn:Er; [|apply run_fail].
      destruct (Hr cur x Er) as [Hx Hn]. rewrite !land255 by assumption.
      destruct (x =? b); [apply H1; exact Hn|apply run_fail].
    - intros b0 Hp c save Hne. cbn [peek_byte] in Hp. injection Hp as <-. unfold catom.
      destruct (sc_read sc 1 c) as [x|] eqn:Er; [|reflexivity].
      destruct (Hr c x Er) as [Hx _]. rewrite !land255 by assumption.
      destruct (x =? b) eqn:E; [|reflexivity]. exfalso. apply Hne. f_equal. lia.
  Qed.

  Lemma cdens_CA_cons a l rest k : cdens sc (map CA (a :: l)) rest k = catom sc a (l ++ rest) (cdens sc (map CA l) rest k).
  Proof. cbn [map]. rewrite cdens_cons. rewrite flattens_CA. reflexivity. Qed.

  Lemma sim_str e bs : forall rest k s D, Forall (fun ch => ch < 256 /\ ch <> 34) bs -> sim e rest k s D ->
    sim e (map Byte bs ++ rest) (cdens sc (map CA (map Byte bs)) rest k) s (fun cur => match match_bytes sc bs cur with Some c => D c | None => None end).
  Proof.
    induction bs as [|b t IH]; intros rest k s D Hbs H; [exact H|].
    inversion Hbs as [|? ? [Hb _] Ht]; subst.
    pose proof (sim_byte e (map Byte t ++ rest) (cdens sc (map CA (map Byte t)) rest k) s _ b Hb (IH rest k s D Ht H)) as [S1 S2].
    change (map Byte (b :: t)) with (Byte b :: map Byte t). rewrite cdens_CA_cons. split.
    - intros cur save Hc. specialize (S1 cur save Hc). cbn [match_bytes] in *.
      destruct (sc_read sc 1 cur) as [x|]; [|exact S1]. destruct (x =? b); exact S1.
    - exact S2.
  Qed.

  Lemma cdens_skips n : forall rest k cur save,
    cdens sc (map CA (repeat (Skip 1) n)) rest k cur 255 0 save = k (wadd32 cur (N.of_nat n)) 255 0 save \/ n = 0%nat.
  Proof.
    induction n as [|n IH]; intros rest k cur save; [right; reflexivity|left].
    cbn [repeat]. rewrite cdens_CA_cons. unfold catom at 1. unfold skip_amount. change (0 + 1 =? 0) with false. cbv iota. change (0 + 1) with 1.
    destruct (IH rest k (wadd32 cur 1) save) as [E| ->].
    - rewrite E, wadd32_wadd32. f_equal. f_equal. lia.
    - cbn [repeat map cdens]. reflexivity.
  Qed.

  Lemma cdens_skip_atoms n rest k cur save : cur < W32 ->
    cdens sc (map CA (skip_atoms n)) rest k cur 255 0 save = k (wadd32 cur n) 255 0 save.
  Proof.
    intros Hc. unfold skip_atoms. destruct (n =? 0) eqn:E0.
    - replace n with 0 by lia. rewrite wadd32_0 by exact Hc. reflexivity.
    - destruct (256 <=? n) eqn:E1; cbn [app]; rewrite !cdens_CA_cons; unfold catom; cbn [map cdens]; unfold skip_amount.
      + destruct (n / 256 * 256 + n mod 256 =? 0) eqn:E2; [lia|]. f_equal. f_equal. lia.
      + destruct (0 + n mod 256 =? 0) eqn:E2; [lia|]. f_equal. f_equal. lia.
  Qed.

  Lemma cdens_many_atoms m rest k c save : 0 < m -> m < 16384 ->
    cdens sc (map CA (many_atoms m)) rest k c 255 0 save =
    match sc_slice_len sc c with
    | None => (false, c, save)
    | Some slen => cmany (fun i s => k (wadd32 c i) 255 0 s) (peek_byte rest) (sc_slice_byte sc c) (N.to_nat (N.min m slen)) 0 save
    end.
  Proof.
    intros H0 H1. unfold many_atoms. destruct (256 <=? m) eqn:E; cbn [app]; rewrite !cdens_CA_cons; unfold catom; cbn [map cdens app];
    destruct (sc_slice_len sc c) as [slen|]; try reflexivity; cbv zeta.
    - replace (m / 256 * 256 + m mod 256) with m by lia. destruct (m =? 0) eqn:E0; [lia|]. reflexivity.
    - replace (0 + m mod 256) with m by lia. destruct (m =? 0) eqn:E0; [lia|]. reflexivity.
  Qed.

  (* the retry loop of a range skip finds the least offset at which the rest matches *)
  Lemma cmany_first e rest k s D c slen : sim e rest k s D -> sc_slice_len sc c = Some slen ->
    forall cnt i save, i + N.of_nat cnt <= slen ->
    run_ok e s (cmany (fun i s => k (wadd32 c i) 255 0 s) (peek_byte rest) (sc_slice_byte sc c) cnt i save) (first_match D c cnt i) save.
  Proof.
    intros [H1 H2] Hlen. destruct Hwf as [_ [_ Hcoh]].
    induction cnt as [|cnt IH]; intros i save Hi; cbn [first_match cmany].
    - exists 0, save. split; [reflexivity|apply outside_refl].
    - assert (Hc : wadd32 c i < W32) by apply wadd32_lt.
      destruct (match peek_byte rest with Some b => sc_slice_byte sc c i =? b | None => true end) eqn:Etry.
      + pose proof (H1 (wadd32 c i) save Hc) as Hrun. destruct (D (wadd32 c i)) as [[lg c']|]; cbn [run_ok] in Hrun.
        * destruct Hrun as [save' [Hr G]]. rewrite Hr. cbn [a_ok fst]. exists save'. split; [reflexivity|exact G].
        * destruct Hrun as [c' [save1 [Hr Ho]]]. rewrite Hr. cbn [a_ok a_sv fst snd].
          eapply run_ok_pre; [exact Ho|]. apply IH. lia.
      + destruct (peek_byte rest) as [b|] eqn:Ep; [|discriminate].
        assert (Hne : sc_read sc 1 (wadd32 c i) <> Some b).
        { intros Er. pose proof (Hcoh c slen i b Hlen ltac:(lia) Er). lia. }
        pose proof (H2 b eq_refl (wadd32 c i) save Hne) as Hf.
        pose proof (H1 (wadd32 c i) save Hc) as Hrun. destruct (D (wadd32 c i)) as [[lg c']|]; cbn [run_ok] in Hrun.
        * destruct Hrun as [save' [Hr _]]. rewrite Hr in Hf. discriminate.
        * apply IH. lia.
  Qed.

  Lemma sim_flat e it rest k s D : flat_item it = true -> wfi it -> s + slots_of it <= e ->
    sim e rest k (s + slots_of it) D -> sim e (iso it s ++ rest) (cdens sc (map CA (iso it s)) rest k) s (den_item sc it s D).
  Proof.
    intros Hf Hw Hse H. pose proof Hwf as [Hr [Hptr _]].
    destruct it; try discriminate Hf; cbn [slots_of] in *; try rewrite N.add_0_r in H; cbn [wfi] in Hw; cbn [iso den_item].
    - (* byte *) apply (sim_byte e rest k s D b Hw H).
    - (* string *) apply sim_str; assumption.
    - (* wildcards *) destruct H as [H1 H2]. split.
      + intros cur save Hc. destruct (cdens_skips n rest k cur save) as [E| ->].
        * rewrite E. apply H1. apply wadd32_lt.
        * cbn [repeat map cdens]. change (N.of_nat 0) with 0. rewrite wadd32_0 by exact Hc. apply H1. exact Hc.
      + destruct n as [|n]; [exact H2|]. intros b Hp. discriminate.
    - (* [n] *) destruct H as [H1 H2]. split.
      + intros cur save Hc. rewrite cdens_skip_atoms by exact Hc. apply H1. apply wadd32_lt.
      + destruct (N.eq_dec n 0) as [->|Hn]; [exact H2|]. intros b0 Hp. rewrite peek_skip_atoms in Hp by exact Hn. discriminate.
    - (* [a-b] *) destruct Hw as [Hab Hb]. split.
      + intros cur save Hc. rewrite map_app, (cdens_app sc), flattens_CA, cdens_skip_atoms by exact Hc.
        rewrite cdens_many_atoms by lia. cbv zeta.
        destruct (sc_slice_len sc (wadd32 cur a)) as [slen|] eqn:El; [|apply run_fail].
        apply (cmany_first e rest k s D _ slen H El). lia.
      + intros b0 Hp. exfalso. destruct (N.eq_dec a 0) as [->|Hn].
        * cbn [skip_atoms N.eqb app] in Hp. unfold many_atoms in Hp. destruct (256 <=? b - 0); discriminate.
        * rewrite <- app_assoc, peek_skip_atoms in Hp by exact Hn. discriminate.
    - (* ' *) split.
      + intros cur save Hc. cbn [map cdens cden1]. unfold catom. apply (slot_case e rest k s D cur cur save H); [lia|exact Hc].
      + destruct H as [_ H2]. intros b Hp c save Hne. cbn [app peek_byte] in Hp. cbn [map cdens cden1]. unfold catom. exact (H2 b Hp c _ Hne).
    - (* reads *) split; [|intros b Hp; destruct r; discriminate].
      intros cur save Hc.
      destruct r; cbn [ratom map cdens cden1 read_size read_value]; unfold catom;
      match goal with |- context [sc_read sc ?n cur] => destruct (sc_read sc n cur) as [x|] end;
      try apply run_fail;
      apply (slot_case e rest k s D _ _ save H); try lia; apply wadd32_lt.
    - (* z *) split; [|intros b Hp; discriminate].
      intros cur save Hc. cbn [map cdens cden1]. unfold catom. apply (slot_case e rest k s D cur 0 save H); [lia|exact Hc].
    - (* @k *) destruct H as [H1 H2]. split; [|intros b Hp; discriminate].
      intros cur save Hc. cbn [map cdens cden1]. unfold catom. rewrite aligned_eq.
      destruct (cur mod 2 ^ N.min k0 32 =? 0); [apply H1; exact Hc|apply run_fail].
    - (* jumps *) destruct H as [H1 H2]. split; [|intros b Hp; destruct j; discriminate].
      intros cur save Hc. destruct j; cbn [jatom map cdens cden1 jump_target]; unfold catom.
      + destruct (sc_read sc 1 cur); [apply H1; apply wadd32_lt|apply run_fail].
      + destruct (sc_read sc 4 cur); [apply H1; apply wadd32_lt|apply run_fail].
      + destruct (sc_read sc (sc_va_bytes sc) cur) as [va|]; [|apply run_fail].
        destruct (sc_pointer sc va) as [rva|] eqn:Ep; [apply H1; exact (Hptr va rva Ep)|apply run_fail].
  Qed.

  (* ---------------------------------------------------------------- groups *)
  Lemma jump_step j rest K cur save :
    catom sc (jatom j) rest K cur 255 0 save = match jump_target sc j cur with Some t => K t 255 0 save | None => (false, cur, save) end.
  Proof.
    destruct j; cbn [jatom jump_target]; unfold catom.
    - destruct (sc_read sc 1 cur); reflexivity.
    - destruct (sc_read sc 4 cur); reflexivity.
    - destruct (sc_read sc (sc_va_bytes sc) cur) as [va|]; [|reflexivity]. destruct (sc_pointer sc va); reflexivity.
  Qed.
  Lemma jump_target_lt j cur t : jump_target sc j cur = Some t -> t < W32.
  Proof.
    destruct Hwf as [_ [Hptr _]]. destruct j; cbn [jump_target].
    - destruct (sc_read sc 1 cur); [|discriminate]. intros E. injection E as <-. apply wadd32_lt.
    - destruct (sc_read sc 4 cur); [|discriminate]. intros E. injection E as <-. apply wadd32_lt.
    - destruct (sc_read sc (sc_va_bytes sc) cur) as [va|]; [|discriminate]. apply Hptr.
  Qed.
  Lemma skip_amount_jpush j : skip_amount sc 0 (jpush j) = jump_size sc j.
  Proof. destruct j; reflexivity. Qed.

  Definition triv (D : N -> dres) : Prop := forall c, D c = Some ([], c).

  Definition SimItem (it : item) : Prop := forall tl, f34_item tl it = false -> wfi it -> forall s e rest k D,
    s + slots_of it <= e -> (tl = true -> triv D) ->
    sim e rest k (s + slots_of it) D -> sim e (flattens (ciso it s) ++ rest) (cdens sc (ciso it s) rest k) s (den_item sc it s D).
  Definition SimSeq (l : list item) : Prop := forall tl, f34_seq tl l = false -> Forall wfi l -> forall s e rest k D,
    s + nslots l <= e -> (tl = true -> triv D) ->
    sim e rest k (s + nslots l) D -> sim e (flattens (cisos l s) ++ rest) (cdens sc (cisos l s) rest k) s (den sc l s D).

  Lemma f34_seq_cons tl x t : f34_seq tl (x :: t) = f34_item (tl && match t with [] => true | _ :: _ => false end) x || f34_seq tl t.
  Proof. reflexivity. Qed.

  Lemma simS_of l : Forall SimItem l -> SimSeq l.
  Proof.
    induction 1 as [|x t Hx _ IH]; intros tl Hc Hw s e rest k D Hse Ht H.
    - cbn [nslots fold_right] in H. rewrite N.add_0_r in H. exact H.
    - rewrite f34_seq_cons in Hc. apply orb_false_elim in Hc. destruct Hc as [Hcx Hct].
      pose proof (Forall_inv Hw) as Wx. pose proof (Forall_inv_tail Hw) as Wt.
      cbn [nslots fold_right] in Hse, H. fold (nslots t) in Hse, H.
      rewrite cisos_cons, flat_map_app, <- app_assoc, den_cons.
      eapply sim_ext; [intros c m x0 sv; symmetry; apply (cdens_app sc)|].
      apply (Hx _ Hcx Wx); [lia| |].
      + intros E. apply andb_prop in E. destruct E as [E1 E2]. destruct t; [|discriminate]. exact (Ht E1).
      + apply (IH tl Hct Wt); [lia|exact Ht|]. rewrite <- N.add_assoc. exact H.
  Qed.

  Lemma sim_sub j sub : SimSeq sub -> SimItem (ISub j sub).
  Proof.
    intros Hsub tl Hc Hw s e rest k D Hse Ht [H1 H2].
    change (f34_item tl (ISub j sub)) with (f34_seq true sub) in Hc.
    change (wfi (ISub j sub)) with (wfs sub) in Hw. apply wfs_Forall in Hw.
    change (slots_of (ISub j sub)) with (nslots sub) in *.
    change (ciso (ISub j sub) s) with [CSub (jpush j) (CA (jatom j) :: cisos sub s)].
    pose proof (Hsub true Hc Hw s (s + nslots sub) (Pop :: rest) kret dend (N.le_refl _) (fun _ c => eq_refl)
                  (sim_ret (s + nslots sub) (Pop :: rest) (s + nslots sub) eq_refl)) as [S1 _].
    split; [|intros b Hp; discriminate].
    intros cur save Hcur. rewrite cdens_cons. cbn [flat_map app cdens]. rewrite cden1_sub. cbv zeta.
    rewrite cdens_cons. change (cden1 sc (CA (jatom j))) with (catom sc (jatom j)). rewrite jump_step.
    change (den_item sc (ISub j sub) s D cur) with
      (match jump_target sc j cur with
       | Some t => match den sc sub s dend t with Some (lg1, _) => dpre lg1 (D (wadd32 cur (jump_size sc j))) | None => None end
       | None => None end).
    destruct (jump_target sc j cur) as [t|] eqn:Ej; [|cbn [a_ok a_sv fst snd]; apply run_fail].
    pose proof (S1 t save (jump_target_lt j cur t Ej)) as R1.
    destruct (den sc sub s dend t) as [[lg1 c1]|]; cbn [run_ok] in R1.
    - destruct R1 as [save1 [E1 [G1 _]]]. rewrite E1. cbn [a_ok a_sv fst snd]. rewrite skip_amount_jpush.
      pose proof (H1 (wadd32 cur (jump_size sc j)) save1 (wadd32_lt _ _)) as R2.
      destruct (D (wadd32 cur (jump_size sc j))) as [[lg2 c2]|]; cbn [run_ok dpre] in *.
      + destruct R2 as [save2 [E2 [G2 Hc2]]]. exists save2. split; [exact E2|split; [|exact Hc2]].
        apply (good_app lg1 lg2 s (s + nslots sub) e save save1 save2); [lia|exact Hse|exact G1|exact G2].
      + destruct R2 as [c' [save2 [E2 O2]]]. exists c', save2. split; [exact E2|].
        destruct G1 as [O1 _]. eapply outside_trans; [apply (outside_widen_r s (s + nslots sub) e); [exact Hse|exact O1]|apply (outside_widen s (s + nslots sub) e); [lia|exact O2]].
    - destruct R1 as [c' [save1 [E1 O1]]]. rewrite E1. cbn [a_ok a_sv fst snd]. exists cur, save1. split; [reflexivity|].
      apply (outside_widen_r s (s + nslots sub) e); [exact Hse|exact O1].
  Qed.

  (* alternatives: [l0 :: t], tried left to right; [n] = the slots of the group *)
  Lemma sim_alts tl e rest k s n D : sim e rest k (s + n) D -> s + n <= e -> (tl = true -> triv D) ->
    forall t l0, Forall SimSeq (l0 :: t) -> Forall (fun l => Forall wfi l) (l0 :: t) -> Forall (fun l => nslots l <= n) (l0 :: t) ->
    pick_last (f34_seq true l0, f34_seq tl l0 || (negb tl && direct_range l0))
              (map (fun l => (f34_seq true l, f34_seq tl l || (negb tl && direct_range l))) t) = false ->
    forall cur save, cur < W32 ->
    run_ok e s (cden1 sc (CAlt (map (fun l => cisos l s) (l0 :: t))) rest k cur 255 0 save)
           (dbind (first_alt (fun l => den sc l s dend cur) (l0 :: t)) D) save.
  Proof.
    intros Hk Hse Ht. induction t as [|l1 t IH]; intros l0 HS HW HN Hc cur save Hcur.
    - (* the last alternative, inline *)
      cbn [map pick_last snd] in Hc. apply orb_false_elim in Hc. destruct Hc as [Hc1 Hc2].
      pose proof (Forall_inv HS) as S0. pose proof (Forall_inv HW) as W0. pose proof (Forall_inv HN) as N0. cbn beta in N0.
      cbn [map]. rewrite cden1_alt_one. cbn [first_alt].
      replace (match den sc l0 s dend cur with Some r => Some r | None => None end) with (den sc l0 s dend cur) by (destruct (den sc l0 s dend cur); reflexivity).
      destruct tl.
      + (* nothing follows: the continuation is the end of the invocation *)
        specialize (Ht eq_refl).
        assert (Hk' : sim e rest k (s + nslots l0) dend).
        { apply (sim_ext_D e rest k _ D dend); [exact Ht|]. apply (sim_widen e rest k (s + n)); [lia|exact Hk]. }
        pose proof (S0 true Hc1 W0 s e rest k dend ltac:(lia) (fun _ c => eq_refl) Hk') as [R _].
        specialize (R cur save Hcur). destruct (den sc l0 s dend cur) as [[lg c']|]; cbn [dbind]; [|exact R].
        rewrite Ht. cbn [dpre]. rewrite app_nil_r. exact R.
      + cbn [negb andb] in Hc2.
        assert (Hk' : sim e rest k (s + nslots l0) D) by (apply (sim_widen e rest k (s + n)); [lia|exact Hk]).
        pose proof (S0 false Hc1 W0 s e rest k D ltac:(lia) ltac:(intros E; discriminate E) Hk') as [R _].
        specialize (R cur save Hcur). rewrite (den_atomic sc l0 s D cur Hc2) in R. exact R.
    - (* an alternative in an invocation of its own *)
      cbn [map pick_last fst] in Hc. apply orb_false_elim in Hc. destruct Hc as [Hc1 Hc2].
      pose proof (Forall_inv HS) as S0. pose proof (Forall_inv HW) as W0. pose proof (Forall_inv HN) as N0. cbn beta in N0.
      cbn [map]. rewrite cden1_alt_cons. cbv zeta.
      set (rest' := Break _ :: _).
      pose proof (S0 true Hc1 W0 s (s + n) rest' kret dend ltac:(lia) (fun _ c => eq_refl) (sim_ret (s + n) rest' (s + nslots l0) eq_refl)) as [R _].
      specialize (R cur save Hcur).
      change (first_alt (fun l => den sc l s dend cur) (l0 :: l1 :: t)) with
        (match den sc l0 s dend cur with Some r => Some r | None => first_alt (fun l => den sc l s dend cur) (l1 :: t) end).
      destruct (den sc l0 s dend cur) as [[lg1 c1]|]; cbn [run_ok] in R.
      + destruct R as [save1 [E1 [G1 Hc1']]]. rewrite E1. cbn [a_ok a_cur a_sv fst snd dbind].
        destruct Hk as [H1 _]. pose proof (H1 c1 save1 Hc1') as R2.
        destruct (D c1) as [[lg2 c2]|]; cbn [run_ok dpre] in *.
        * destruct R2 as [save2 [E2 [G2 Hc2']]]. exists save2. split; [exact E2|split; [|exact Hc2']].
          apply (good_app lg1 lg2 s (s + n) e save save1 save2); [lia|exact Hse|exact G1|exact G2].
        * destruct R2 as [c' [save2 [E2 O2]]]. exists c', save2. split; [exact E2|].
          destruct G1 as [O1 _]. eapply outside_trans; [apply (outside_widen_r s (s + n) e); [exact Hse|exact O1]|apply (outside_widen s (s + n) e); [lia|exact O2]].
      + destruct R as [c' [save1 [E1 O1]]]. rewrite E1. cbn [a_ok a_sv fst snd].
        eapply run_ok_pre; [apply (outside_widen_r s (s + n) e); [exact Hse|exact O1]|].
        apply (IH l1 (Forall_inv_tail HS) (Forall_inv_tail HW) (Forall_inv_tail HN) Hc2 cur save1 Hcur).
  Qed.

  Lemma max_ge (f : list item -> N) ls : Forall (fun l => f l <= fold_right N.max 0 (map f ls)) ls.
  Proof.
    induction ls as [|l t IH]; constructor; cbn [map fold_right]; [lia|].
    eapply Forall_impl; [|exact IH]. cbn beta. intros x Hx. lia.
  Qed.

  Lemma sim_alt a more : SimSeq a -> Forall SimSeq more -> SimItem (IAlt a more).
  Proof.
    intros Ha Hm tl Hc Hw s e rest k D Hse Ht H.
    change (f34_item tl (IAlt a more)) with
      (pick_last (f34_seq true a, f34_seq tl a || (negb tl && direct_range a))
                 (map (fun l => (f34_seq true l, f34_seq tl l || (negb tl && direct_range l))) more)) in Hc.
    change (wfi (IAlt a more)) with (wfs a /\ wfss more) in Hw.
    change (slots_of (IAlt a more)) with (fold_right N.max 0 (map nslots (a :: more))) in *.
    change (ciso (IAlt a more) s) with [CAlt (map (fun l => cisos l s) (a :: more))].
    split.
    - intros cur save Hcur. rewrite cdens_cons. cbn [flat_map app cdens].
      change (den_item sc (IAlt a more) s D cur) with (dbind (first_alt (fun l => den sc l s dend cur) (a :: more)) D).
      apply (sim_alts tl e rest k s _ D H Hse Ht more a); try assumption.
      + constructor; assumption.
      + constructor; [apply wfs_Forall; exact (proj1 Hw)|apply wfss_Forall; exact (proj2 Hw)].
      + apply max_ge.
    - intros b Hp. exfalso. cbn [flat_map flatten1 map] in Hp. rewrite app_nil_r in Hp.
      destruct (map flattens (map (fun l => cisos l s) more)); cbn [alt_code app peek_byte] in Hp; discriminate.
  Qed.

  Lemma sim_item it : SimItem it.
  Proof.
    induction it as [it Hf|j sub IH|a more IHa IHm] using item_ind2.
    - intros tl _ Hw s e rest k D Hse _ H.
      assert (E : ciso it s = map CA (iso it s)) by (destruct it; try discriminate Hf; reflexivity).
      rewrite E, flattens_CA. apply sim_flat; assumption.
    - apply sim_sub. apply simS_of. exact IH.
    - apply sim_alt; [apply simS_of; exact IHa|]. clear - IHm. induction IHm as [|l t Hl _ IH]; constructor; [apply simS_of; exact Hl|exact IH].
  Qed.
  Lemma sim_seq l : SimSeq l.
  Proof. apply simS_of. induction l; constructor; [apply sim_item|assumption]. Qed.
End Sim.

(* ================================================================ assembling theorem 3b *)
Theorem exec_comp_den sc a cursor save : scan_wf sc -> wf a -> range_skip_in_last_alternative_with_suffix a = false -> cursor < W32 ->
  exists ok save', run_exec sc (c_res (comp_seq a cinit)) cursor save = Ok (ok, save') /\
    match den_top sc a cursor with
    | Some lg => ok = true /\ log_ok lg save save'
    | None => ok = false
    end.
Proof.
  intros Hwf Hw Hc Hcur.
  assert (Hsc : forall rva x, sc_read sc 1 rva = Some x -> rva + 1 < W32).
  { intros rva x H. exact (proj2 (proj1 Hwf rva x H)). }
  destruct (comp_tree a) as [Eflat Hok].
  rewrite (run_exec_cdens sc Hsc _ _ cursor save Hok Eflat).
  destruct (ceq_tcomp_seq sc a tinit) as [Hceq _]. rewrite (Hceq [] kret cursor 255 0 save).
  cbn [tinit t_res t_save app]. rewrite cdens_cons. change (cden1 sc (CA (Save 0))) with (catom sc (Save 0)). unfold catom.
  pose proof (sim_seq sc Hwf a true Hc (wf_wfs a Hw) 1 (1 + nslots a) [] kret dend (N.le_refl _) (fun _ c => eq_refl)
                (sim_ret sc (1 + nslots a) [] (1 + nslots a) eq_refl)) as [S _].
  specialize (S cursor (set_slot save 0 cursor) Hcur). unfold den_top.
  destruct (den sc a 1 dend cursor) as [[lg c']|]; cbn [run_ok] in S.
  - destruct S as [save' [E [G _]]]. rewrite E. cbn [a_ok a_sv fst snd]. eexists. eexists. split; [reflexivity|]. split; [reflexivity|].
    pose proof (good_app [(0, cursor)] lg 0 1 (1 + nslots a) save (set_slot save 0 cursor) save' ltac:(lia) ltac:(lia) (good_one 0 cursor save) G) as [O [_ W]].
    split; [symmetry; exact (outside_len _ _ _ _ O)|exact W].
  - destruct S as [c' [save' [E _]]]. rewrite E. cbn [a_ok a_sv fst snd]. eexists. eexists. split; reflexivity.
Qed.

(* a pattern whose compiled form ends in an atom that constrains something is not trimmed *)
Lemma compile_untrimmed a : untrimmed a = true -> compile a = c_res (comp_seq a cinit).
Proof.
  unfold untrimmed, compile. destruct (last_atom (c_res (comp_seq a cinit))) as [x|] eqn:E; intros H.
  - destruct (last_atom_inv _ _ E) as [r ->]. apply trim_solid. destruct (is_redundant x); [discriminate H|reflexivity].
  - unfold last_atom in E. destruct (rev (c_res (comp_seq a cinit))) eqn:Er; [|discriminate].
    apply (f_equal (@rev atom)) in Er. rewrite rev_involutive in Er. rewrite Er. reflexivity.
Qed.

(* C11 theorem 3b *)
Theorem exec_compile_den sc a cursor save : scan_wf sc -> wf a -> range_skip_in_last_alternative_with_suffix a = false ->
  untrimmed a = true -> cursor < W32 ->
  exists ok save', run_exec sc (compile a) cursor save = Ok (ok, save') /\
    match den_top sc a cursor with
    | Some lg => ok = true /\ log_ok lg save save'
    | None => ok = false
    end.
Proof. intros Hwf Hw Hc Hu Hcur. rewrite (compile_untrimmed a Hu). apply exec_comp_den; assumption. Qed.

(* ---------------------------------------------------------------- the fragment without alternatives is outside the class *)
Lemma noalt_f34_item it : noalt_item it = true -> forall tl, f34_item tl it = false.
Proof.
  induction it as [it Hf|j sub IH|a more _ _] using item_ind2; intros Hn tl.
  - destruct it; try discriminate Hf; reflexivity.
  - change (f34_item tl (ISub j sub)) with (f34_seq true sub). cbn [noalt_item] in Hn.
    assert (H : forall b, f34_seq b sub = false); [|apply H].
    induction IH as [|x t Hx _ IHt]; intros b; [reflexivity|].
    cbn [forallb] in Hn. apply andb_prop in Hn. destruct Hn as [Hnx Hnt].
    change (f34_seq b (x :: t)) with (f34_item (b && match t with [] => true | _ :: _ => false end) x || f34_seq b t).
    rewrite (Hx Hnx), (IHt Hnt). reflexivity.
  - discriminate Hn.
Qed.
Lemma noalt_f34 a : noalt a = true -> range_skip_in_last_alternative_with_suffix a = false.
Proof.
  unfold range_skip_in_last_alternative_with_suffix. intros Hn.
  assert (H : forall b, f34_seq b a = false); [|apply H].
  induction a as [|x t IH]; intros b; [reflexivity|].
  unfold noalt in Hn. cbn [forallb] in Hn. apply andb_prop in Hn. destruct Hn as [Hnx Hnt].
  change (f34_seq b (x :: t)) with (f34_item (b && match t with [] => true | _ :: _ => false end) x || f34_seq b t).
  rewrite (noalt_f34_item x Hnx), (IH Hnt b). reflexivity.
Qed.

(* theorem 3b on the fragment "flat + braces" *)
Theorem exec_compile_den_sub sc a cursor save : scan_wf sc -> noalt a = true -> wf a -> untrimmed a = true -> cursor < W32 ->
  exists ok save', run_exec sc (compile a) cursor save = Ok (ok, save') /\
    match den_top sc a cursor with
    | Some lg => ok = true /\ log_ok lg save save'
    | None => ok = false
    end.
Proof. intros Hwf Hn Hw Hu Hcur. apply exec_compile_den; try assumption. apply noalt_f34. exact Hn. Qed.

(* ---------------------------------------------------------------- F34: the known class is not empty, and inside it the
   implementation does depart from atomic groups: ( 11 | 22 [0-4] 33 ) 44 on the bytes 22 33 33 44 *)
Lemma F34_witness :
  let a := [IAlt [IByte 0x11] [[IByte 0x22; IRange 0 4; IByte 0x33]]; IByte 0x44] in
  let a' := [IAlt [IByte 0x22; IRange 0 4; IByte 0x33] [[IByte 0x11]]; IByte 0x44] in
  let sc := list_scan [0x22; 0x33; 0x33; 0x44] 0x1000 in
  wf a /\ untrimmed a = true /\ range_skip_in_last_alternative_with_suffix a = true /\
  den_top sc a 0x1000 = None /\ run_exec sc (compile a) 0x1000 [0] = Ok (true, [0x1000]) /\
  (* the same alternatives in the other order are outside the class, and there the implementation agrees with [den] *)
  wf a' /\ range_skip_in_last_alternative_with_suffix a' = false /\
  den_top sc a' 0x1000 = None /\ run_exec sc (compile a') 0x1000 [0] = Ok (false, [0x1000]).
Proof. split; [vm_compute; repeat split; lia|]. split; [reflexivity|]. split; [reflexivity|]. split; [reflexivity|]. split; [reflexivity|].
  split; [vm_compute; repeat split; lia|]. vm_compute. repeat split. Qed.

(* e8 ${ ' ( 6a ? | 68 ' [1-3] c3 ) } 90 on a layout where the second alternative matches with two bytes skipped *)
Lemma sem_full_nonvacuous :
  let a := [IByte 0xe8; ISub J4 [ISave; IAlt [IByte 0x6a; IWild 1] [[IByte 0x68; ISave; IRange 1 3; IByte 0xc3]]]; IByte 0x90] in
  let sc := list_scan [0xe8; 0x02; 0; 0; 0; 0x90; 0xcc; 0x68; 0xaa; 0xbb; 0xc3] 0x1000 in
  wf a /\ untrimmed a = true /\ range_skip_in_last_alternative_with_suffix a = false /\
  den_top sc a 0x1000 = Some [(0, 0x1000); (1, 0x1007); (2, 0x1008)] /\
  run_exec sc (compile a) 0x1000 [0; 0; 0; 9] = Ok (true, [0x1000; 0x1007; 0x1008; 9]) /\
  den_top sc a 0x1001 = None /\ (exists s, run_exec sc (compile a) 0x1001 [0; 0; 0; 9] = Ok (false, s)).
Proof. split; [vm_compute; repeat split; lia|]. vm_compute. repeat split. eexists. reflexivity. Qed.

(* theorem 3b for Scanner::exec on a mapped view *)
From PV.Model Require Import Mapping Views ScanView.
From PV.Proofs Require Import ViewsProofs.
Theorem view_exec_compile_den v a cursor save :
  view_ok v -> v_file v = false -> v_len v < W32 -> (forall o, v_get v o < 256) ->
  wf a -> range_skip_in_last_alternative_with_suffix a = false -> untrimmed a = true -> cursor < W32 ->
  exists ok save', view_exec v (compile a) cursor save = Ok (ok, save') /\
    match den_top (scan_of_view v) a cursor with
    | Some lg => ok = true /\ log_ok lg save save'
    | None => ok = false
    end.
Proof.
  intros Hok Hf Hlen Hb Hw Hc Hu Hcur. unfold view_exec.
  apply exec_compile_den; try assumption. apply mapped_view_scan_wf; assumption.
Qed.
