(* src/base_relocs.rs Block::rva_of, Block::type_of, encode_type_offset and the block bounds of build, regenerated
   into gen/Leaf.v, equal their counterparts of Model/Relocs.v (C14). *)
From PV.Model Require Import Machine Relocs.
From PV.gen Require Import Leaf.
From PV.Proofs Require Import BaseProofs LeafBase.
Ltac Zify.zify_post_hook ::= Z.div_mod_to_equations.
(* the source may change under these proofs: a step that does not finish fails instead of hanging the build *)
Set Default Timeout 120.

(* word : u16, self.image.VirtualAddress : u32 *)
Lemma rva_of_agrees : forall va w, L_base_relocs_Block_rva_of_dom va w = true ->
  L_base_relocs_Block_rva_of_ok va w = true /\ L_base_relocs_Block_rva_of va w = rva_of va w.
Proof.
  intros va w H. split; [reflexivity|].
  unfold L_base_relocs_Block_rva_of_dom in H. unfold L_base_relocs_Block_rva_of, rva_of, wadd32, W32.
  change 4095 with (2 ^ 12 - 1). rewrite land_mask. change (2 ^ 12) with 4096.
  rewrite (N.mod_small (w mod 4096)) by lia. reflexivity.
Qed.

(* word : u16: decided for each of the 65536 words *)
Lemma type_of_agrees : forall w, L_base_relocs_Block_type_of_dom w = true ->
  L_base_relocs_Block_type_of_ok w = true /\ L_base_relocs_Block_type_of w = type_of w.
Proof.
  intros w H. assert (Hw : w < 65536) by (unfold L_base_relocs_Block_type_of_dom in H; lia).
  pose proof (sweep65536 (fun w => L_base_relocs_Block_type_of_ok w && (L_base_relocs_Block_type_of w =? type_of w))) as S.
  assert (E : forallb (fun w => L_base_relocs_Block_type_of_ok w && (L_base_relocs_Block_type_of w =? type_of w))
                      words65536 = true) by (vm_compute; reflexivity).
  specialize (S E w Hw). apply andb_prop in S. destruct S as [S1 S2]. split; [exact S1 | apply N.eqb_eq; exact S2].
Qed.

(* base, rva : u32, ty : u8.  The only operation that can panic is rva - base. *)
Lemma encode_type_offset_agrees : forall base rva ty, L_base_relocs_encode_type_offset_dom base rva ty = true ->
  encode_type_offset base rva ty =
    if L_base_relocs_encode_type_offset_ok base rva ty then Ok (L_base_relocs_encode_type_offset base rva ty)
    else Fault POverflow.
Proof.
  intros base rva ty H. unfold L_base_relocs_encode_type_offset_dom in H. apply andb3 in H. destruct H as (Hb & Hr & Ht).
  unfold encode_type_offset, chk_sub, L_base_relocs_encode_type_offset_ok, L_base_relocs_encode_type_offset.
  destruct (base <=? rva) eqn:E; [|reflexivity]. cbn [bind]. f_equal.
  rewrite N.shiftl_mul_pow2. change (2 ^ 12) with 4096.
  rewrite (N.mod_small ty) by lia. rewrite (N.mod_small (ty * 4096)) by lia.
  change 65535 with (2 ^ 16 - 1). rewrite land_mask. change (2 ^ 16) with 65536.
  rewrite N.mod_mod by discriminate. reflexivity.
Qed.

(* build: start = rvas[0] & !0x0fff and end = start + 0x0fff, the two values the model computes inline *)
Lemma build_start_agrees : forall r0, L_base_relocs_build__start_dom r0 = true ->
  L_base_relocs_build__start_ok r0 = true /\ L_base_relocs_build__start r0 = (r0 / 4096) * 4096.
Proof.
  intros r0 H. split; [reflexivity|]. unfold L_base_relocs_build__start_dom in H. unfold L_base_relocs_build__start.
  change 4095 with (2 ^ 12 - 1). rewrite land_lnot_mask; [reflexivity | change (2 ^ 32) with 4294967296; lia | lia].
Qed.

Lemma build_end_agrees : forall r0, L_base_relocs_build__end_dom r0 = true ->
  chk_add W32 (L_base_relocs_build__start r0) 4095 =
    if L_base_relocs_build__end_ok r0 then Ok (L_base_relocs_build__end r0) else Fault POverflow.
Proof. intros r0 H. reflexivity. Qed.

(* one iteration of the model's build loop, written with the generated functions *)
Lemma build_gen_step : forall cnt fuel r0 rs types, L_base_relocs_build__start_dom r0 = true ->
  build_gen cnt (S fuel) (r0 :: rs) types =
    (let start := L_base_relocs_build__start r0 in
     end_ <- (if L_base_relocs_build__end_ok r0 then Ok (L_base_relocs_build__end r0) else Fault POverflow) ;;
     let n := cnt start end_ (r0 :: rs) in
     let size := align_to W64 4 (8 + 2 * N.of_nat n) in
     ws <- encode_all start (firstn n (r0 :: rs)) (firstn n types) ;;
     let pad := if N.odd (N.of_nat n) then [0; 0] else [] in
     rest <- build_gen cnt fuel (skipn n (r0 :: rs)) (skipn n types) ;;
     Ok (le32 start ++ le32 (size mod W32) ++ flat_map le16 ws ++ pad ++ rest)).
Proof.
  intros cnt fuel r0 rs types H.
  rewrite <- (build_end_agrees r0 H).
  destruct (build_start_agrees r0 H) as [_ E]. rewrite E. reflexivity.
Qed.

(* what each binder of the generated definitions stands for in the source (third audit, F2): a function that starts
   reading another field or index changes coq/gen/Leaf.v only in these lists *)
From Coq Require Import List String.
Import ListNotations.
Lemma leaf_reads_relocs :
  L_base_relocs_Block_rva_of_args = ["self.image.VirtualAddress : u32"%string; "arg1 : u16"%string] /\
  L_base_relocs_Block_type_of_args = ["arg1 : u16"%string] /\
  L_base_relocs_encode_type_offset_args = ["arg1 : u32"%string; "arg2 : u32"%string; "arg3 : u8"%string] /\
  L_base_relocs_build__start_args = ["arg1[0] : u32"%string] /\
  L_base_relocs_build__end_args = ["arg1[0] : u32"%string].
Proof. repeat split; reflexivity. Qed.
