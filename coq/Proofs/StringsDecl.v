(* C20, declarative characterisation: [runs bs] lists exactly the maximal printable runs of bs
   (Spec/RunsDecl.v), each once, in ascending order; and the enumerator reports exactly those
   that meet the threshold rule. *)
From Coq Require Import Sorted.
From PV.Model Require Import Machine Strings.
From PV.Spec Require Import Runs RunsDecl.
From PV.Proofs Require Import BaseProofs StringsProofs.
Ltac Zify.zify_post_hook ::= Z.div_mod_to_equations.

(* ---------- facts about the declarative notions alone ---------- *)

Lemma term_at_functional bs e t t' : term_at bs e t -> term_at bs e t' -> t = t'.
Proof. destruct t, t'; cbn [term_at]; intros H H'; try reflexivity; exfalso; lia. Qed.

(* a position followed by a terminator is not printable *)
Lemma term_at_not_printable bs e t : term_at bs e t -> e < lenN bs -> printable (byte_at bs e) = false.
Proof.
  destruct t; cbn [term_at]; intros H Hlt.
  - destruct H as [_ ->]. reflexivity.
  - tauto.
  - lia.
Qed.

Lemma term_at_bound bs e t : term_at bs e t -> e <= lenN bs.
Proof. destruct t; cbn [term_at]; lia. Qed.

(* two maximal runs that share a position are the same run *)
Lemma maximal_run_overlap bs s l t s' l' t' k :
  is_maximal_run bs s l t -> is_maximal_run bs s' l' t' ->
  s <= k -> k < s + l -> s' <= k -> k < s' + l' -> s = s' /\ l = l' /\ t = t'.
Proof.
  intros (Hl & Hp & Hd & Ht) (Hl' & Hp' & Hd' & Ht') H1 H2 H3 H4.
  assert (Hs : s = s').
  { destruct (N.lt_trichotomy s s') as [Hlt|[Heq|Hgt]]; [|exact Heq|]; exfalso.
    - destruct Hd' as [->|[_ Hn]]; [lia|]. rewrite Hp in Hn by lia. discriminate.
    - destruct Hd as [->|[_ Hn]]; [lia|]. rewrite Hp' in Hn by lia. discriminate. }
  subst s'.
  assert (Hll : l = l').
  { pose proof (term_at_bound _ _ _ Ht). pose proof (term_at_bound _ _ _ Ht').
    destruct (N.lt_trichotomy l l') as [Hlt|[Heq|Hgt]]; [|exact Heq|]; exfalso.
    - pose proof (term_at_not_printable _ _ _ Ht ltac:(lia)) as Hn. rewrite Hp' in Hn by lia. discriminate.
    - pose proof (term_at_not_printable _ _ _ Ht' ltac:(lia)) as Hn. rewrite Hp in Hn by lia. discriminate. }
  subst l'. split; [reflexivity|]. split; [reflexivity|]. eapply term_at_functional; eassumption.
Qed.

(* in particular the start determines the run *)
Lemma maximal_run_functional bs s l t l' t' :
  is_maximal_run bs s l t -> is_maximal_run bs s l' t' -> l = l' /\ t = t'.
Proof.
  intros H H'. pose proof H as (Hl & _). pose proof H' as (Hl' & _).
  destruct (maximal_run_overlap bs s l t s l' t' s H H') as (_ & A & B); try lia. tauto.
Qed.

(* ---------- the scanner of Spec/Runs.v against the declarative notions ---------- *)

(* left-maximality: a run of the split starts where the split started, or directly after a non-printable byte *)
Lemma runs_aux_left : forall bs start len r, In r (runs_aux bs start len) ->
  r_start r = start \/
  (start + len < r_start r /\ printable (nth (N.to_nat (r_start r - 1 - (start + len))) bs 0) = false).
Proof.
  induction bs as [|b t IH]; intros start len r Hin; cbn [runs_aux] in Hin.
  - destruct (len =? 0); [contradiction|]. destruct Hin as [<-|[]]. left. reflexivity.
  - destruct (printable b) eqn:Ep.
    + apply IH in Hin. destruct Hin as [H|[H1 H2]]; [left; exact H|right]. split; [lia|].
      replace (N.to_nat (r_start r - 1 - (start + len))) with (S (N.to_nat (r_start r - 1 - (start + (len + 1))))) by lia.
      exact H2.
    + destruct Hin as [<-|Hin]; [left; reflexivity|right].
      apply IH in Hin. destruct Hin as [H|[H1 H2]].
      * split; [lia|]. replace (N.to_nat (r_start r - 1 - (start + len))) with O by lia. exact Ep.
      * split; [lia|].
        replace (N.to_nat (r_start r - 1 - (start + len))) with (S (N.to_nat (r_start r - 1 - (start + len + 1 + 0)))) by lia.
        exact H2.
Qed.

(* coverage: every printable byte lies inside a run of the split *)
Lemma runs_aux_cover : forall bs start len k, start <= k -> k < start + len + lenN bs ->
  (start + len <= k -> printable (nth (N.to_nat (k - (start + len))) bs 0) = true) ->
  exists r, In r (runs_aux bs start len) /\ r_start r <= k /\ k < r_start r + r_len r.
Proof.
  induction bs as [|b t IH]; intros start len k H1 H2 H3; cbn [runs_aux].
  - rewrite lenN_nil in H2. destruct (len =? 0) eqn:E; [lia|].
    eexists. split; [left; reflexivity|]. cbn [r_start r_len]. lia.
  - rewrite lenN_cons in H2. destruct (printable b) eqn:Ep.
    + apply IH; [lia|lia|]. intros Hk. specialize (H3 ltac:(lia)).
      replace (N.to_nat (k - (start + len))) with (S (N.to_nat (k - (start + (len + 1))))) in H3 by lia. exact H3.
    + destruct (N.lt_trichotomy k (start + len)) as [Hlt|[Heq|Hgt]].
      * eexists. split; [left; reflexivity|]. cbn [r_start r_len]. lia.
      * exfalso. specialize (H3 ltac:(lia)). replace (N.to_nat (k - (start + len))) with O in H3 by lia.
        cbn [nth] in H3. congruence.
      * destruct (IH (start + len + 1) 0 k) as [r [Hr Hk]]; [lia|lia| |].
        -- intros _. specialize (H3 ltac:(lia)).
           replace (N.to_nat (k - (start + len))) with (S (N.to_nat (k - (start + len + 1 + 0)))) in H3 by lia. exact H3.
        -- exists r. split; [right; exact Hr|exact Hk].
Qed.

(* and every non-printable byte is the terminator of a run of the split *)
Lemma runs_aux_cover_term : forall bs start len k, start + len <= k -> k < start + len + lenN bs ->
  printable (nth (N.to_nat (k - (start + len))) bs 0) = false ->
  exists r, In r (runs_aux bs start len) /\ r_start r + r_len r = k /\ r_term r <> TEnd.
Proof.
  induction bs as [|b t IH]; intros start len k H1 H2 H3; cbn [runs_aux].
  - rewrite lenN_nil in H2. lia.
  - rewrite lenN_cons in H2. destruct (printable b) eqn:Ep.
    + destruct (N.eq_dec k (start + len)) as [->|Hne].
      * exfalso. replace (N.to_nat (start + len - (start + len))) with O in H3 by lia. cbn [nth] in H3. congruence.
      * apply IH; [lia|lia|].
        replace (N.to_nat (k - (start + len))) with (S (N.to_nat (k - (start + (len + 1))))) in H3 by lia. exact H3.
    + destruct (N.eq_dec k (start + len)) as [->|Hne].
      * eexists. split; [left; reflexivity|]. cbn [r_start r_len r_term]. split; [reflexivity|]. destruct (b =? 0); discriminate.
      * destruct (IH (start + len + 1) 0 k) as [r [Hr Hk]]; [lia|lia| |].
        -- replace (N.to_nat (k - (start + len))) with (S (N.to_nat (k - (start + len + 1 + 0)))) in H3 by lia. exact H3.
        -- exists r. split; [right; exact Hr|exact Hk].
Qed.

(* ascending without overlap, with strict gaps: each run starts after the terminator byte of every earlier one *)
Lemma runs_aux_sorted : forall bs start len, StronglySorted run_lt (runs_aux bs start len).
Proof.
  induction bs as [|b t IH]; intros start len; cbn [runs_aux].
  - destruct (len =? 0); repeat constructor.
  - destruct (printable b); [apply IH|]. constructor; [apply IH|].
    apply Forall_forall. intros r Hr. apply runs_aux_sound in Hr. unfold run_lt. cbn [r_start r_len]. lia.
Qed.

Lemma sorted_irrefl_NoDup {A} (R : A -> A -> Prop) l : (forall x, ~ R x x) -> StronglySorted R l -> NoDup l.
Proof.
  intros Hirr H. induction H as [|x l Hs IH Hall]; constructor; [|exact IH].
  intros Hin. rewrite Forall_forall in Hall. exact (Hirr x (Hall x Hin)).
Qed.

(* a strictly sorted list is determined by its elements *)
Lemma sorted_unique {A} (R : A -> A -> Prop) : (forall x y, R x y -> R y x -> False) ->
  forall l1 l2, StronglySorted R l1 -> StronglySorted R l2 -> (forall x, In x l1 <-> In x l2) -> l1 = l2.
Proof.
  intros Hasym. assert (Hirr : forall x, ~ R x x) by (intros x H; exact (Hasym x x H H)).
  induction l1 as [|x l1 IH]; intros l2 H1 H2 Hiff.
  - destruct l2 as [|y l2]; [reflexivity|]. exfalso. apply (Hiff y). left. reflexivity.
  - destruct l2 as [|y l2]; [exfalso; apply (Hiff x); left; reflexivity|].
    apply StronglySorted_inv in H1. destruct H1 as [H1 A1]. apply StronglySorted_inv in H2. destruct H2 as [H2 A2].
    rewrite Forall_forall in A1, A2.
    assert (Hxy : x = y).
    { destruct (proj1 (Hiff x) (or_introl eq_refl)) as [E|Hx]; [symmetry; exact E|].
      destruct (proj2 (Hiff y) (or_introl eq_refl)) as [E|Hy]; [exact E|].
      exfalso. exact (Hasym _ _ (A1 _ Hy) (A2 _ Hx)). }
    subst y. f_equal. apply IH; [exact H1|exact H2|]. intros z. split; intros Hz.
    + destruct (proj1 (Hiff z) (or_intror Hz)) as [E|Hz']; [|exact Hz']. subst z. exfalso. exact (Hirr _ (A1 _ Hz)).
    + destruct (proj2 (Hiff z) (or_intror Hz)) as [E|Hz']; [|exact Hz']. subst z. exfalso. exact (Hirr _ (A2 _ Hz)).
Qed.

Lemma run_lt_irrefl x : ~ run_lt x x.
Proof. unfold run_lt. lia. Qed.
Lemma found_lt_asym x y : found_lt x y -> found_lt y x -> False.
Proof. unfold found_lt. lia. Qed.

Lemma runs_sorted bs : StronglySorted run_lt (runs bs).
Proof. apply runs_aux_sorted. Qed.
Lemma runs_NoDup bs : NoDup (runs bs).
Proof. eapply sorted_irrefl_NoDup; [exact run_lt_irrefl|apply runs_sorted]. Qed.

(* a default-insensitive reading of nth inside the buffer *)
Lemma nth_byte_at bs k d : k < lenN bs -> nth (N.to_nat k) bs d = byte_at bs k.
Proof. intros H. unfold byte_at. apply nth_indep. unfold lenN in H. lia. Qed.

(* the common part of soundness: printable contents, left delimiter, terminator of the stated kind *)
Lemma runs_delimited bs r : In r (runs bs) ->
  (forall k, r_start r <= k -> k < r_start r + r_len r -> printable (byte_at bs k) = true) /\
  left_delimited bs (r_start r) /\
  term_at bs (r_start r + r_len r) (r_term r) /\
  (r_len r = 0 -> r_term r <> TEnd).
Proof.
  intros Hin. pose proof (runs_aux_sound _ _ _ _ Hin) as (_ & Hb & Hp & Ht).
  pose proof (runs_aux_left _ _ _ _ Hin) as Hl. cbn [N.add] in *.
  split; [|split; [|split]].
  - intros k H1 H2. specialize (Hp k H1 ltac:(lia) H2). rewrite N.sub_0_r in Hp. exact Hp.
  - unfold left_delimited. destruct Hl as [Hl|[H1 H2]]; [left; exact Hl|right]. split; [exact H1|].
    rewrite N.sub_0_r in H2. exact H2.
  - destruct (r_term r); cbn [term_at]; rewrite ?N.sub_0_r in Ht.
    + destruct Ht as [H1 H2]. split; [exact H2|]. rewrite <- (nth_byte_at _ _ 1) by exact H2. exact H1.
    + destruct Ht as [H1 [H2 H3]]. split; [exact H3|]. split; [exact H2|exact H1].
    + lia.
  - intros H0. destruct (r_term r); try discriminate. lia.
Qed.

(* SOUNDNESS: every non-empty element of [runs bs] is a maximal printable run with its terminator kind *)
Theorem runs_sound_maximal bs r : In r (runs bs) -> 0 < r_len r ->
  is_maximal_run bs (r_start r) (r_len r) (r_term r).
Proof.
  intros Hin Hl. destruct (runs_delimited bs r Hin) as (A & B & C & _).
  split; [exact Hl|]. split; [exact A|]. split; [exact B|exact C].
Qed.
(* and every empty element is an empty run: a non-printable byte with nothing printable before it *)
Theorem runs_sound_empty bs r : In r (runs bs) -> r_len r = 0 -> is_empty_run bs (r_start r) (r_term r).
Proof.
  intros Hin Hl. destruct (runs_delimited bs r Hin) as (_ & B & C & D).
  rewrite Hl, N.add_0_r in C. split; [exact B|]. split; [exact C|exact (D Hl)].
Qed.

Lemma run_eta r : r = {| r_start := r_start r; r_len := r_len r; r_term := r_term r |}.
Proof. destruct r; reflexivity. Qed.

(* COMPLETENESS: every maximal printable run of bs is listed *)
Theorem runs_complete_maximal bs s l t : is_maximal_run bs s l t ->
  In {| r_start := s; r_len := l; r_term := t |} (runs bs).
Proof.
  intros H. pose proof H as (Hl & Hp & Hd & Ht).
  pose proof (term_at_bound _ _ _ Ht) as Hb.
  destruct (runs_aux_cover bs 0 0 s) as [r [Hin [H1 H2]]]; [lia|lia| |].
  - intros _. cbn [N.add]. rewrite N.sub_0_r. apply Hp; lia.
  - assert (0 < r_len r) as Hrl by lia.
    pose proof (runs_sound_maximal bs r Hin Hrl) as Hr.
    destruct (maximal_run_overlap _ _ _ _ _ _ _ s H Hr) as (E1 & E2 & E3); try lia.
    rewrite (run_eta r) in Hin. rewrite E1, E2, E3. exact Hin.
Qed.
Theorem runs_complete_empty bs s t : is_empty_run bs s t ->
  In {| r_start := s; r_len := 0; r_term := t |} (runs bs).
Proof.
  intros (Hd & Ht & Hne).
  assert (Hlt : s < lenN bs) by (destruct t; cbn [term_at] in Ht; [lia|lia|congruence]).
  pose proof (term_at_not_printable _ _ _ Ht Hlt) as Hn.
  destruct (runs_aux_cover_term bs 0 0 s) as [r [Hin [H1 H2]]]; [lia|lia| |].
  - cbn [N.add]. rewrite N.sub_0_r. exact Hn.
  - destruct (runs_delimited bs r Hin) as (A & B & C & _).
    assert (Hrl : r_len r = 0).
    { destruct (N.eq_0_gt_0_cases (r_len r)) as [E|Hpos]; [exact E|exfalso].
      destruct Hd as [->|[Hs Hd]]; [lia|]. rewrite A in Hd by lia. discriminate. }
    assert (Hrs : r_start r = s) by lia.
    rewrite H1 in C. pose proof (term_at_functional _ _ _ _ C Ht) as E3.
    rewrite (run_eta r) in Hin. rewrite Hrl, Hrs, E3 in Hin. exact Hin.
Qed.

(* both directions in one statement *)
Theorem runs_exact bs s l t : 0 < l ->
  (In {| r_start := s; r_len := l; r_term := t |} (runs bs) <-> is_maximal_run bs s l t).
Proof.
  intros Hl. split; [|apply runs_complete_maximal].
  intros Hin. exact (runs_sound_maximal bs _ Hin Hl).
Qed.

(* TILING: every position of the buffer is accounted for by exactly one listed run - a printable
   byte lies inside one, a non-printable byte terminates one *)
Theorem runs_tiling bs k : k < lenN bs ->
  if printable (byte_at bs k)
  then exists r, In r (runs bs) /\ r_start r <= k /\ k < r_start r + r_len r /\
         forall r', In r' (runs bs) -> r_start r' <= k -> k < r_start r' + r_len r' -> r' = r
  else exists r, In r (runs bs) /\ r_start r + r_len r = k /\ r_term r <> TEnd /\
         forall r', In r' (runs bs) -> r_start r' + r_len r' = k -> r' = r.
Proof.
  intros Hk. destruct (printable (byte_at bs k)) eqn:Ep.
  - destruct (runs_aux_cover bs 0 0 k) as [r [Hin [H1 H2]]]; [lia|lia| |].
    + intros _. cbn [N.add]. rewrite N.sub_0_r. exact Ep.
    + exists r. split; [exact Hin|]. split; [exact H1|]. split; [exact H2|].
      intros r' Hin' H1' H2'.
      pose proof (runs_sound_maximal bs r Hin ltac:(lia)) as Hr.
      pose proof (runs_sound_maximal bs r' Hin' ltac:(lia)) as Hr'.
      destruct (maximal_run_overlap _ _ _ _ _ _ _ k Hr' Hr) as (E1 & E2 & E3); try lia.
      rewrite (run_eta r), (run_eta r'). congruence.
  - destruct (runs_aux_cover_term bs 0 0 k) as [r [Hin [H1 H2]]]; [lia|lia| |].
    + cbn [N.add]. rewrite N.sub_0_r. exact Ep.
    + exists r. split; [exact Hin|]. split; [exact H1|]. split; [exact H2|].
      intros r' Hin' H1'.
      (* two listed runs ending at the same position: the sorted list separates distinct elements *)
      pose proof (runs_sorted bs) as Hs.
      assert (Hgen : forall l, StronglySorted run_lt l -> In r l -> In r' l -> r' = r).
      { clear - H1 H1'. induction 1 as [|x l Hs IH Hall]; intros Ha Hb; [contradiction|].
        rewrite Forall_forall in Hall.
        destruct Ha as [->|Ha], Hb as [->|Hb]; [reflexivity| | |exact (IH Ha Hb)]; exfalso.
        - specialize (Hall _ Hb). unfold run_lt in Hall. lia.
        - specialize (Hall _ Ha). unfold run_lt in Hall. lia. }
      exact (Hgen _ Hs Hin Hin').
Qed.

(* ---------- the enumerator ---------- *)

Lemma qualifies_meets c r : qualifies c r = true <-> meets c (r_len r) (r_term r).
Proof. unfold qualifies, meets. destruct (r_term r); destruct (strict c); cbn [negb andb]; lia. Qed.

Lemma found_of_item base r : found_of base r = item base (r_start r) (r_len r) (r_term r).
Proof. reflexivity. Qed.

Lemma StronglySorted_filter {A} (R : A -> A -> Prop) p l : StronglySorted R l -> StronglySorted R (filter p l).
Proof.
  induction 1 as [|x l Hs IH Hall]; cbn [filter]; [constructor|].
  destruct (p x); [|exact IH]. constructor; [exact IH|].
  rewrite Forall_forall in *. intros y Hy. apply filter_In in Hy. apply Hall. tauto.
Qed.
Lemma StronglySorted_map {A B} (R : A -> A -> Prop) (S : B -> B -> Prop) (f : A -> B) l :
  (forall x y, R x y -> S (f x) (f y)) -> StronglySorted R l -> StronglySorted S (map f l).
Proof.
  intros Hf. induction 1 as [|x l Hs IH Hall]; cbn [map]; constructor; [exact IH|].
  rewrite Forall_forall in *. intros y Hy. apply in_map_iff in Hy. destruct Hy as [z [<- Hz]]. apply Hf, Hall, Hz.
Qed.

Lemma enumerate_spec_sorted c base bs : StronglySorted found_lt (enumerate_spec c base bs).
Proof.
  unfold enumerate_spec. eapply StronglySorted_map; [|apply StronglySorted_filter, runs_sorted].
  intros x y H. exact H.
Qed.

Lemma enumerate_spec_In c base bs f : In f (enumerate_spec c base bs) <-> reported c base bs f.
Proof.
  unfold enumerate_spec. rewrite in_map_iff. split.
  - intros [r [<- Hr]]. apply filter_In in Hr. destruct Hr as [Hin Hq]. apply qualifies_meets in Hq.
    rewrite found_of_item. destruct (N.eq_0_gt_0_cases (r_len r)) as [E|Hpos].
    + right. exists (r_start r), (r_term r). rewrite E in *.
      split; [exact (runs_sound_empty bs r Hin E)|]. split; [exact Hq|reflexivity].
    + left. exists (r_start r), (r_len r), (r_term r).
      split; [exact (runs_sound_maximal bs r Hin Hpos)|]. split; [exact Hq|reflexivity].
  - intros [(s & l & t & Hm & Hq & ->)|(s & t & Hm & Hq & ->)].
    + exists {| r_start := s; r_len := l; r_term := t |}. split; [reflexivity|]. apply filter_In.
      split; [exact (runs_complete_maximal bs s l t Hm)|]. apply qualifies_meets. exact Hq.
    + exists {| r_start := s; r_len := 0; r_term := t |}. split; [reflexivity|]. apply filter_In.
      split; [exact (runs_complete_empty bs s t Hm)|]. apply qualifies_meets. exact Hq.
Qed.

(* with thresholds of at least 1 (the documented range) empty runs never qualify *)
Lemma reported_positive c base bs f : 1 <= min_len c -> 1 <= min_len_nul c ->
  (reported c base bs f <-> reported_maximal c base bs f).
Proof.
  intros H1 H2. unfold reported. split; [|tauto].
  intros [H|(s & t & _ & Hq & _)]; [exact H|exfalso]. unfold meets in Hq. destruct t; lia.
Qed.

(* THE ENUMERATOR, all thresholds: the reported items are exactly the items of the maximal printable
   runs (and, for a threshold of 0, empty runs) that meet the threshold rule, each once, ascending *)
Theorem enumerate_exact_general c base bs : exists fs,
  enumerate c base bs = Ok fs /\
  (forall f, In f fs <-> reported c base bs f) /\
  StronglySorted found_lt fs /\ NoDup fs.
Proof.
  exists (enumerate_spec c base bs). split; [apply enumerate_correct|].
  split; [apply enumerate_spec_In|]. split; [apply enumerate_spec_sorted|].
  eapply sorted_irrefl_NoDup; [|apply enumerate_spec_sorted]. intros x H. exact (found_lt_asym x x H H).
Qed.

(* THE ENUMERATOR, thresholds >= 1: exactly the maximal printable runs that meet the threshold rule *)
Theorem enumerate_exact c base bs : 1 <= min_len c -> 1 <= min_len_nul c -> exists fs,
  enumerate c base bs = Ok fs /\
  (forall f, In f fs <-> reported_maximal c base bs f) /\
  StronglySorted found_lt fs /\ NoDup fs.
Proof.
  intros H1 H2. destruct (enumerate_exact_general c base bs) as [fs (A & B & C & D)].
  exists fs. split; [exact A|]. split; [|split; [exact C|exact D]].
  intros f. rewrite B. apply reported_positive; assumption.
Qed.

(* and that description leaves no freedom: any ascending list with exactly those elements IS the output *)
Theorem enumerate_determined c base bs fs : StronglySorted found_lt fs ->
  (forall f, In f fs <-> reported c base bs f) -> enumerate c base bs = Ok fs.
Proof.
  intros Hs Hiff. rewrite enumerate_correct. f_equal.
  apply (sorted_unique found_lt found_lt_asym); [apply enumerate_spec_sorted|exact Hs|].
  intros f. rewrite enumerate_spec_In, Hiff. tauto.
Qed.

(* every reported string consists of printable bytes only and is exactly the bytes [start, start+len) *)
Lemma reported_printable c base bs f : reported c base bs f ->
  f_start f + f_len f <= lenN bs /\
  forall k, f_start f <= k -> k < f_start f + f_len f -> printable (byte_at bs k) = true.
Proof.
  intros [(s & l & t & (Hl & Hp & Hd & Ht) & _ & ->)|(s & t & (Hd & Ht & Hne) & _ & ->)]; cbn [item f_start f_len].
  - split; [exact (term_at_bound _ _ _ Ht)|exact Hp].
  - rewrite N.add_0_r. split; [exact (term_at_bound _ _ _ Ht)|]. intros k; lia.
Qed.

(* non-vacuity of the declarative notions on a concrete buffer: "\x1fC-\0A" has exactly the maximal runs
   (1,2,NUL) and (4,1,End) and the empty run (0,Other); (1,1,_) is not maximal (it can be extended to the right)
   and (2,1,NUL) is not maximal (it can be extended to the left) *)
Lemma decl_nonvacuous :
  let bs := [31; 67; 45; 0; 65] in
  is_maximal_run bs 1 2 TNul /\ is_maximal_run bs 4 1 TEnd /\ is_empty_run bs 0 TOther /\
  ~ is_maximal_run bs 1 1 TOther /\ ~ is_maximal_run bs 2 1 TNul /\ ~ is_maximal_run bs 1 2 TOther /\
  (forall s l t, is_maximal_run bs s l t -> (s, l, t) = (1, 2, TNul) \/ (s, l, t) = (4, 1, TEnd)).
Proof.
  intros bs.
  assert (Hruns : runs bs = [ {| r_start := 0; r_len := 0; r_term := TOther |};
                              {| r_start := 1; r_len := 2; r_term := TNul |};
                              {| r_start := 4; r_len := 1; r_term := TEnd |} ]) by (vm_compute; reflexivity).
  split; [apply runs_exact; [lia|rewrite Hruns; cbn [In]; tauto]|].
  split; [apply runs_exact; [lia|rewrite Hruns; cbn [In]; tauto]|].
  split.
  { pose proof (runs_sound_empty bs {| r_start := 0; r_len := 0; r_term := TOther |}) as H. apply H; [|reflexivity].
    rewrite Hruns. left. reflexivity. }
  assert (Hall : forall s l t, is_maximal_run bs s l t -> (s, l, t) = (1, 2, TNul) \/ (s, l, t) = (4, 1, TEnd)).
  { intros s l t H. pose proof H as (Hl & _). apply runs_complete_maximal in H. rewrite Hruns in H. cbn [In] in H.
    destruct H as [H|[H|[H|[]]]]; inversion H; subst; [lia|left; reflexivity|right; reflexivity]. }
  split; [intros H; apply Hall in H; destruct H; discriminate|].
  split; [intros H; apply Hall in H; destruct H; discriminate|].
  split; [intros H; apply Hall in H; destruct H; discriminate|exact Hall].
Qed.
