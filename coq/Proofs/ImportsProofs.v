(* Proofs for C09. *)
From PV.Model Require Import Machine Mapping Views Headers Imports.
From PV.Spec Require Import MappingSpec ViewSpec ImportSpec.
From PV.Proofs Require Import BaseProofs MappingProofs ViewsProofs.
From PV.gen Require Import Layout.
Ltac Zify.zify_post_hook ::= Z.div_mod_to_equations.

(* the buffer holds bytes *)
Definition get_ok (p : pe) : Prop := forall i, p_get p i < 256.
Definition fmt_ok (p : pe) : Prop := p_f p = fmt32 \/ p_f p = fmt64.
Definition pe_ok (p : pe) : Prop := fmt_ok p /\ get_ok p /\ view_ok (p_v p).

(* ------------------------------------------------------------------ little-endian values *)
Section LE.
  Variable get : N -> N.
  Hypothesis Hget : forall i, get i < 256.

  Lemma le_value_lt : forall n off, le_value get off n < 2 ^ (8 * N.of_nat n).
  Proof.
    induction n as [|n IH]; intros off; cbn [le_value].
    - change (2 ^ (8 * N.of_nat 0)) with 1. lia.
    - replace (8 * N.of_nat (S n)) with (8 + 8 * N.of_nat n) by lia.
      rewrite N.pow_add_r. change (2 ^ 8) with 256.
      specialize (IH (off + 1)). specialize (Hget off). nia.
  Qed.

  Lemma le_value_app : forall a b off,
    le_value get off (a + b) = le_value get off a + 2 ^ (8 * N.of_nat a) * le_value get (off + N.of_nat a) b.
  Proof.
    induction a as [|a IH]; intros b off.
    - cbn [plus le_value]. change (2 ^ (8 * N.of_nat 0)) with 1. rewrite N.add_0_r. lia.
    - cbn [plus le_value]. rewrite IH.
      replace (8 * N.of_nat (S a)) with (8 + 8 * N.of_nat a) by lia.
      rewrite N.pow_add_r. change (2 ^ 8) with 256.
      replace (off + 1 + N.of_nat a) with (off + N.of_nat (S a)) by lia. lia.
  Qed.

  (* the high part of a value: the bytes from offset a on *)
  Lemma le_value_high a b off :
    le_value get off (a + b) / 2 ^ (8 * N.of_nat a) = le_value get (off + N.of_nat a) b.
  Proof.
    rewrite le_value_app. pose proof (le_value_lt a off) as Hlt.
    assert (Hp : 2 ^ (8 * N.of_nat a) <> 0) by (apply N.pow_nonzero; lia).
    rewrite N.add_comm, N.mul_comm, N.div_add_l by exact Hp.
    rewrite N.div_small by exact Hlt. lia.
  Qed.

  Lemma le_value_4_lt off : le_value get off 4 < W32.
  Proof. exact (le_value_lt 4 off). Qed.

End LE.

Lemma le_value_zero get : forall n off, (forall o, o < N.of_nat n -> get (off + o) = 0) -> le_value get off n = 0.
Proof.
  induction n as [|n IH]; intros off H; cbn [le_value]; [reflexivity|].
  rewrite (IH (off + 1)).
  - specialize (H 0 ltac:(lia)). rewrite N.add_0_r in H. lia.
  - intros o Ho. replace (off + 1 + o) with (off + (o + 1)) by lia. apply H. lia.
Qed.


(* FirstThunk of the 20-byte element value *)
Lemma desc_is_null_field get off k : (forall i, get i < 256) ->
  desc_is_null (elem get off DESC_SIZE k) = (desc_field get off k OFF_IAT =? 0).
Proof.
  intros Hget. unfold desc_is_null, elem, desc_field, DESC_SIZE, OFF_IAT, IMAGE_IMPORT_DESCRIPTOR_FirstThunk_off.
  change (N.to_nat 20) with (16 + 4)%nat. change (8 * 16) with (8 * N.of_nat 16).
  rewrite le_value_high by exact Hget. change (N.of_nat 16) with 16.
  replace (off + k * 20 + 16) with (off + 20 * k + 16) by lia. reflexivity.
Qed.

Lemma rd32_le m o : rd32 m o = le_value (m_get m) o 4.
Proof.
  unfold rd32, rd16. cbn [le_value].
  replace (o + 2 + 1) with (o + 1 + 1 + 1) by lia. replace (o + 2) with (o + 1 + 1) by lia. lia.
Qed.

(* ------------------------------------------------------------------ the data directory *)
Lemma data_dir_spec p i : fmt_ok p -> data_dir (p_f p) (p_mem p) i = dir_spec p i.
Proof.
  intros [Hf|Hf]; unfold data_dir, dir_spec, nrva_spec, dd_offset, h_nrva, opt_at, e_lfanew, DIR_SLOTS;
    rewrite Hf; cbn [f_64 f_nrva_off f_opt_off f_opt_size fmt32 fmt64];
    rewrite !rd32_le; cbn [p_mem m_get]; fold (p_get p);
    unfold IMAGE_DOS_HEADER_e_lfanew_off, IMAGE_NT_HEADERS32_OptionalHeader_off, IMAGE_NT_HEADERS64_OptionalHeader_off,
      IMAGE_OPTIONAL_HEADER32_NumberOfRvaAndSizes_off, IMAGE_OPTIONAL_HEADER64_NumberOfRvaAndSizes_off,
      IMAGE_OPTIONAL_HEADER32_size, IMAGE_OPTIONAL_HEADER64_size, IMAGE_NUMBEROF_DIRECTORY_ENTRIES, IMAGE_DATA_DIRECTORY_size.
  - replace (le_value (p_get p) 60 4 + 24 + 96 - 4) with (le_value (p_get p) 60 4 + 24 + 92) by lia.
    destruct (i <? N.min (le_value (p_get p) (le_value (p_get p) 60 4 + 24 + 92) 4) 16) eqn:E1;
      destruct ((i <? le_value (p_get p) (le_value (p_get p) 60 4 + 24 + 92) 4) && (i <? 16)) eqn:E2; try lia; [|reflexivity].
    f_equal. f_equal; f_equal; lia.
  - replace (le_value (p_get p) 60 4 + 24 + 112 - 4) with (le_value (p_get p) 60 4 + 24 + 108) by lia.
    destruct (i <? N.min (le_value (p_get p) (le_value (p_get p) 60 4 + 24 + 108) 4) 16) eqn:E1;
      destruct ((i <? le_value (p_get p) (le_value (p_get p) 60 4 + 24 + 108) 4) && (i <? 16)) eqn:E2; try lia; [|reflexivity].
    f_equal. f_equal; f_equal; lia.
Qed.

(* ------------------------------------------------------------------ least index *)
Lemma least_from_ext q q' : (forall k, q k = q' k) -> forall n k, least_from q k n = least_from q' k n.
Proof. intros H. induction n as [|n IH]; intros k; cbn [least_from]; [reflexivity|]. rewrite H, IH. reflexivity. Qed.

Lemma least_from_spec q : forall n k,
  match least_from q k n with
  | Some j => k <= j /\ j < k + N.of_nat n /\ q j = true /\ forall i, k <= i -> i < j -> q i = false
  | None => forall i, k <= i -> i < k + N.of_nat n -> q i = false
  end.
Proof.
  induction n as [|n IH]; intros k; cbn [least_from]; [intros i H1 H2; lia|].
  destruct (q k) eqn:E.
  - split; [lia|]. split; [lia|]. split; [exact E|]. intros i H1 H2. lia.
  - specialize (IH (k + 1)). destruct (least_from q (k + 1) n) as [j|].
    + destruct IH as [H1 [H2 [H3 H4]]]. split; [lia|]. split; [lia|]. split; [exact H3|].
      intros i Hi1 Hi2. destruct (N.eq_dec i k) as [->|Hne]; [exact E|]. apply H4; lia.
    + intros i Hi1 Hi2. destruct (N.eq_dec i k) as [->|Hne]; [exact E|]. apply IH; lia.
Qed.

Lemma div_succ_mul_gt blen size : 0 < size -> blen < blen / size * size + size.
Proof.
  intros Hs. pose proof (N.div_mod blen size ltac:(lia)) as H1. pose proof (N.mod_lt blen size ltac:(lia)) as H2.
  rewrite (N.mul_comm (blen / size) size). lia.
Qed.
Lemma lt_div_mul_le blen size n : 0 < size -> n < blen / size -> (n + 1) * size <= blen.
Proof.
  intros Hs Hn. pose proof (N.div_mod blen size ltac:(lia)) as H1.
  assert (H3 : (n + 1) * size <= blen / size * size) by (apply N.mul_le_mono_r; lia).
  rewrite (N.mul_comm (blen / size) size) in H3. lia.
Qed.
Lemma mul_le_lt_div blen size n : 0 < size -> (n + 1) * size <= blen -> n < blen / size.
Proof.
  intros Hs Hn. assert (n + 1 <= blen / size); [|lia]. apply N.div_le_lower_bound; [lia|]. rewrite N.mul_comm. exact Hn.
Qed.

(* the loop of derva_slice_f is the search for the least index *)
Lemma scan_f_least get p off blen size : 0 < size -> forall m n, n + N.of_nat m = blen / size ->
  scan_f get (S m) p off blen size n =
  match least_from (fun k => p (elem get off size k)) n m with Some k => Ok k | None => Err EBounds end.
Proof.
  intros Hs. induction m as [|m IH]; intros n Hn.
  - cbn [scan_f least_from]. replace n with (blen / size) by lia.
    pose proof (div_succ_mul_gt blen size Hs). destruct (blen <? blen / size * size + size) eqn:E; [reflexivity|lia].
  - remember (S m) as m1. cbn [scan_f]. subst m1. cbn [least_from].
    pose proof (lt_div_mul_le blen size n Hs ltac:(lia)) as Hle.
    destruct (blen <? n * size + size) eqn:E; [lia|].
    fold (elem get off size n). destruct (p (elem get off size n)); [reflexivity|].
    apply IH. lia.
Qed.

Lemma rd_slice_f_least get sl a size align p : 0 < size ->
  rd_slice_f get sl a size align p =
  match sl a 0 align with
  | Ok r => match least (fun k => p (elem get (r_off r) size k)) (r_len r / size) with
            | Some n => Ok {| r_off := r_off r; r_len := n * size |}
            | None => Err EBounds
            end
  | Err e => Err e
  | Fault f => Fault f
  end.
Proof.
  intros Hs. unfold rd_slice_f. destruct (sl a 0 align) as [r|e|f]; cbn [bind]; try reflexivity.
  rewrite scan_f_least by (try exact Hs; lia). unfold least.
  destruct (least_from _ 0 (N.to_nat (r_len r / size))); reflexivity.
Qed.

(* what a terminated read returns, declaratively *)
Lemma rd_slice_f_post get sl a w al p q : 0 < w ->
  (forall off k, p (elem get off w k) = q off k) ->
  terminated_post q w (sl a 0 al) (rd_slice_f get sl a w al p).
Proof.
  intros Hw Hq. rewrite rd_slice_f_least by exact Hw. unfold terminated_post.
  destruct (sl a 0 al) as [r|e|f]; try reflexivity.
  unfold least. rewrite (least_from_ext _ (q (r_off r)) (Hq (r_off r))).
  pose proof (least_from_spec (q (r_off r)) (N.to_nat (r_len r / w)) 0) as H.
  destruct (least_from (q (r_off r)) 0 (N.to_nat (r_len r / w))) as [j|].
  - destruct H as [_ [H2 [H3 H4]]]. exists j. split; [f_equal; lia|].
    unfold first_item. split; [apply lt_div_mul_le; [exact Hw|lia]|]. split; [exact H3|].
    intros k Hk. apply H4; lia.
  - split; [reflexivity|]. intros k Hk. apply H; [lia|].
    pose proof (mul_le_lt_div _ _ _ Hw Hk). lia.
Qed.

(* ... and as the executable spec *)
Lemma rd_slice_f_terminated v rva w al p q : view_ok v -> rva < W32 -> 0 < w ->
  (forall off k, p (elem (v_get v) off w k) = q off k) ->
  rd_slice_f (v_get v) (slice v) rva w al p = terminated_spec v rva w al q.
Proof.
  intros Hv Hr Hw Hq. rewrite rd_slice_f_least by exact Hw. unfold terminated_spec.
  rewrite (slice_correct v rva 0 al Hv Hr).
  destruct (slice_spec v rva 0 al) as [r|e|f]; try reflexivity.
  unfold least. rewrite (least_from_ext _ (q (r_off r)) (Hq (r_off r))).
  destruct (least_from (q (r_off r)) 0 (N.to_nat (r_len r / w))); [|reflexivity].
  f_equal. f_equal. lia.
Qed.

(* ------------------------------------------------------------------ C strings *)
Lemma first_idx_least get p off size : forall n k,
  first_idx get p off size k n = least_from (fun j => p (elem get off size j)) k n.
Proof. induction n as [|n IH]; intros k; cbn [first_idx least_from]; [reflexivity|]. rewrite IH. reflexivity. Qed.

Lemma elem_1 get off k : elem get off 1 k = get (off + k).
Proof. unfold elem. change (N.to_nat 1) with 1%nat. cbn [le_value]. rewrite N.mul_1_r. lia. Qed.

Lemma find_nul_least get off : forall n k,
  option_map (fun i => i + k) (find_nul get (off + k) n) = least_from (fun j => get (off + j) =? 0) k n.
Proof.
  induction n as [|n IH]; intros k; cbn [find_nul least_from option_map]; [reflexivity|].
  destruct (get (off + k) =? 0); [reflexivity|].
  rewrite <- IH. replace (off + k + 1) with (off + (k + 1)) by lia.
  destruct (find_nul get (off + (k + 1)) n); cbn [option_map]; [f_equal; lia|reflexivity].
Qed.

Lemma rd_c_str_spec get sl a : rd_c_str get sl a = c_str_spec get sl a.
Proof.
  unfold rd_c_str, c_str_spec. destruct (sl a 0 1) as [r|e|f]; cbn [bind]; try reflexivity.
  rewrite first_idx_least.
  rewrite (least_from_ext _ (fun j => get (r_off r + j) =? 0)) by (intros k; rewrite elem_1; reflexivity).
  rewrite <- find_nul_least. rewrite N.add_0_r.
  destruct (find_nul get (r_off r) (N.to_nat (r_len r))); cbn [option_map]; [|reflexivity].
  rewrite N.add_0_r. reflexivity.
Qed.

(* ------------------------------------------------------------------ 1. the import directory *)
Lemma dir_spec_lt p i rva sz : get_ok p -> dir_spec p i = Some (rva, sz) -> rva < W32 /\ sz < W32.
Proof.
  intros Hg. unfold dir_spec. destruct ((i <? nrva_spec p) && (i <? DIR_SLOTS)); [|discriminate].
  intros H. injection H as <- <-. split; apply le_value_4_lt; exact Hg.
Qed.

Lemma dir_entry_spec p i : fmt_ok p ->
  dir_entry p i = match dir_spec p i with Some d => Ok d | None => Err EBounds end.
Proof. intros Hf. unfold dir_entry. rewrite data_dir_spec by exact Hf. reflexivity. Qed.

Definition desc_q (p : pe) : N -> N -> bool := fun off k => desc_field (p_get p) off k OFF_IAT =? 0.

Theorem imports_correct p : pe_ok p -> imports p = imports_spec p.
Proof.
  intros [Hf [Hg Hv]]. unfold imports, imports_spec. rewrite dir_entry_spec by exact Hf.
  change IMAGE_DIRECTORY_ENTRY_IMPORT with DIR_IMPORT.
  destruct (dir_spec p DIR_IMPORT) as [[rva sz]|] eqn:E; cbn [bind fst]; [|reflexivity].
  destruct (dir_spec_lt p _ _ _ Hg E) as [Hr _].
  change IMAGE_IMPORT_DESCRIPTOR_size with DESC_SIZE. change IMAGE_IMPORT_DESCRIPTOR_align with 4.
  apply rd_slice_f_terminated; try assumption; try reflexivity.
  intros off k. apply desc_is_null_field. exact Hg.
Qed.

Theorem imports_post p : pe_ok p ->
  match dir_spec p DIR_IMPORT with
  | None => imports p = Err EBounds
  | Some (rva, _) => terminated_post (desc_q p) DESC_SIZE (slice_spec (p_v p) rva 0 4) (imports p)
  end.
Proof.
  intros [Hf [Hg Hv]]. unfold imports. rewrite dir_entry_spec by exact Hf.
  change IMAGE_DIRECTORY_ENTRY_IMPORT with DIR_IMPORT.
  destruct (dir_spec p DIR_IMPORT) as [[rva sz]|] eqn:E; cbn [bind fst]; [|reflexivity].
  destruct (dir_spec_lt p _ _ _ Hg E) as [Hr _].
  rewrite <- (slice_correct (p_v p) rva 0 4 Hv Hr).
  change IMAGE_IMPORT_DESCRIPTOR_size with DESC_SIZE. change IMAGE_IMPORT_DESCRIPTOR_align with 4.
  apply rd_slice_f_post; try reflexivity. intros off k. apply desc_is_null_field. exact Hg.
Qed.

(* an image whose import directory RVA is zero has no imports: the null error *)
Theorem imports_null p sz : pe_ok p -> dir_spec p DIR_IMPORT = Some (0, sz) -> imports p = Err ENull.
Proof.
  intros Hok E. pose proof (imports_post p Hok) as H. rewrite E in H.
  unfold terminated_post, slice_spec, slice_file_spec, slice_section_spec in H.
  change (0 =? 0) with true in H. cbv iota in H. destruct (v_file (p_v p)); exact H.
Qed.

Lemma first_item_unique q w blen n n' : first_item q w blen n -> first_item q w blen n' -> n = n'.
Proof.
  intros [_ [H2 H3]] [_ [H2' H3']]. destruct (N.lt_trichotomy n n') as [H|[H|H]]; [|exact H|].
  - rewrite (H3' n H) in H2. discriminate.
  - rewrite (H3 n' H) in H2'. discriminate.
Qed.

(* under wf_import_dir: exactly the descriptors up to the all-zero terminator *)
Theorem imports_wf p rva sz r n : pe_ok p -> dir_spec p DIR_IMPORT = Some (rva, sz) ->
  slice_spec (p_v p) rva 0 4 = Ok r -> wf_import_dir (p_get p) (r_off r) (r_len r) n ->
  imports p = Ok {| r_off := r_off r; r_len := DESC_SIZE * n |}.
Proof.
  intros Hok E Hs [W1 [W2 W3]]. pose proof (imports_post p Hok) as H. rewrite E, Hs in H.
  unfold terminated_post in H.
  assert (Hn : first_item (desc_q p (r_off r)) DESC_SIZE (r_len r) n).
  { split; [exact W1|]. split.
    - unfold desc_q, desc_field. rewrite le_value_zero; [reflexivity|].
      intros o Ho. rewrite <- N.add_assoc. replace (OFF_IAT + o) with (16 + o) by reflexivity.
      rewrite N.add_assoc. replace (r_off r + DESC_SIZE * n + 16 + o) with (r_off r + DESC_SIZE * n + (16 + o)) by lia.
      apply W2. unfold DESC_SIZE. change (N.of_nat 4) with 4 in Ho. lia.
    - intros k Hk. unfold desc_q. specialize (W3 k Hk). destruct (desc_field (p_get p) (r_off r) k OFF_IAT =? 0) eqn:E0; [lia|reflexivity]. }
  destruct (imports p) as [x|e|f]; [| |contradiction].
  - destruct H as [n' [-> Hn']]. rewrite (first_item_unique _ _ _ _ _ Hn Hn'). reflexivity.
  - destruct H as [_ Hno]. destruct Hn as [N1 [N2 _]]. rewrite (Hno n N1) in N2. discriminate.
Qed.

(* the iterator yields the descriptors of the array, in order *)
Theorem descs_in_order p r :
  length (descs p r) = N.to_nat (r_len r / DESC_SIZE) /\
  forall k, (k < length (descs p r))%nat ->
    nth_error (descs p r) k = Some (desc_at (p_get p) (r_off r) (N.of_nat k)).
Proof.
  unfold descs. change IMAGE_IMPORT_DESCRIPTOR_size with DESC_SIZE. rewrite map_length, seq_length.
  split; [reflexivity|]. intros k Hk.
  rewrite nth_error_map. rewrite nth_error_nth' with (d := 0%nat) by (rewrite seq_length; exact Hk).
  rewrite seq_nth by exact Hk. reflexivity.
Qed.

Lemma desc_at_fields get off k :
  d_oft (desc_at get off k) = desc_field get off k OFF_ILT /\
  d_name (desc_at get off k) = desc_field get off k OFF_NAME /\
  d_ft (desc_at get off k) = desc_field get off k OFF_IAT.
Proof.
  unfold desc_at, desc_field, DESC_SIZE, OFF_ILT, OFF_NAME, OFF_IAT. cbn [d_oft d_name d_ft].
  unfold IMAGE_IMPORT_DESCRIPTOR_size, IMAGE_IMPORT_DESCRIPTOR_OriginalFirstThunk_off, IMAGE_IMPORT_DESCRIPTOR_Name_off, IMAGE_IMPORT_DESCRIPTOR_FirstThunk_off.
  rewrite (N.mul_comm k 20). repeat split; reflexivity.
Qed.

(* ------------------------------------------------------------------ 2. DLL name, name table, address table *)
Lemma c_str_spec_ext get sl sl' a : (forall m al, sl a m al = sl' a m al) -> c_str_spec get sl a = c_str_spec get sl' a.
Proof. intros H. unfold c_str_spec. rewrite H. reflexivity. Qed.

Theorem c_string_correct p rva : pe_ok p -> rva < W32 ->
  rd_c_str (p_get p) (slice (p_v p)) rva = c_string_spec p rva.
Proof.
  intros [_ [_ Hv]] Hr. rewrite rd_c_str_spec. unfold c_string_spec.
  apply c_str_spec_ext. intros m al. apply slice_correct; assumption.
Qed.

Theorem dll_name_correct p d : pe_ok p -> d_name d < W32 -> dll_name p d = c_string_spec p (d_name d).
Proof. intros Hok Hr. apply c_string_correct; assumption. Qed.

(* the bytes up to and including the first NUL of what is available at Name *)
Theorem dll_name_post p d : pe_ok p -> d_name d < W32 ->
  match slice_spec (p_v p) (d_name d) 0 1 with
  | Ok r =>
    match dll_name p d with
    | Ok q => r_off q = r_off r /\ r_len q <= r_len r /\ p_get p (r_off r + r_len q - 1) = 0 /\ 0 < r_len q /\
              forall k, k < r_len q - 1 -> p_get p (r_off r + k) <> 0
    | Err e => e = EEncoding /\ forall k, k < r_len r -> p_get p (r_off r + k) <> 0
    | Fault _ => False
    end
  | Err e => dll_name p d = Err e
  | Fault f => dll_name p d = Fault f
  end.
Proof.
  intros [_ [_ Hv]] Hr. rewrite <- (slice_correct (p_v p) (d_name d) 0 1 Hv Hr).
  exact (rd_c_str_correct (p_get p) (slice (p_v p)) (d_name d)).
Qed.

Definition thunk_q (p : pe) : N -> N -> bool := fun off k => thunk_spec (p_get p) off (thunk_size p) k =? 0.

Lemma va_bytes_pos p : 0 < va_bytes p.
Proof. unfold va_bytes. destruct (f_64 (p_f p)); lia. Qed.

Lemma thunk_elem p off k : (elem (p_get p) off (va_bytes p) k =? 0) = thunk_q p off k.
Proof.
  unfold thunk_q, thunk_spec, elem. change (thunk_size p) with (va_bytes p).
  rewrite (N.mul_comm k (va_bytes p)). reflexivity.
Qed.

Theorem thunks_correct p rva : pe_ok p -> rva < W32 -> thunks p rva = thunks_spec p rva.
Proof.
  intros [_ [_ Hv]] Hr. unfold thunks, thunks_spec, rd_slice_s. change (thunk_size p) with (va_bytes p).
  apply rd_slice_f_terminated; try assumption; [apply va_bytes_pos|].
  intros off k. apply thunk_elem.
Qed.

(* the thunks before the first zero thunk *)
Theorem thunks_post p rva : pe_ok p -> rva < W32 ->
  terminated_post (thunk_q p) (thunk_size p) (slice_spec (p_v p) rva 0 (thunk_size p)) (thunks p rva).
Proof.
  intros [_ [_ Hv]] Hr. rewrite <- (slice_correct (p_v p) rva 0 (thunk_size p) Hv Hr).
  unfold thunks, rd_slice_s. change (thunk_size p) with (va_bytes p).
  apply rd_slice_f_post; [apply va_bytes_pos|]. intros off k. apply thunk_elem.
Qed.

(* a zero Name / FirstThunk / OriginalFirstThunk gives the null error *)
Theorem tables_null p d :
  (d_name d = 0 -> dll_name p d = Err ENull) /\ (d_ft d = 0 -> desc_iat p d = Err ENull) /\
  (d_oft d = 0 -> desc_int p d = Err ENull).
Proof.
  pose proof (fun m a => proj1 (zero_is_null (p_v p) m a)) as Hz.
  pose proof (typed_zero_is_null (p_get p) (slice (p_v p)) (va_bytes p) (va_bytes p) 0 (fun x => x =? 0) Hz) as [_ [_ [_ [H4 H5]]]].
  unfold dll_name, desc_iat, desc_int, thunks, rd_slice_s.
  split; [|split]; intros ->; [exact H5|exact H4|exact H4].
Qed.

(* the values of the array are its thunks *)
Theorem thunk_values_in_order p r :
  length (thunk_values p r) = N.to_nat (r_len r / thunk_size p) /\
  forall k, (k < length (thunk_values p r))%nat ->
    nth_error (thunk_values p r) k = Some (thunk_spec (p_get p) (r_off r) (thunk_size p) (N.of_nat k)).
Proof.
  unfold thunk_values. change (thunk_size p) with (va_bytes p). rewrite map_length, seq_length.
  split; [reflexivity|]. intros k Hk.
  rewrite nth_error_map. rewrite nth_error_nth' with (d := 0%nat) by (rewrite seq_length; exact Hk).
  rewrite seq_nth by exact Hk. cbn [option_map plus]. unfold thunk_at, thunk_spec.
  rewrite (N.mul_comm (N.of_nat k)). reflexivity.
Qed.

(* ------------------------------------------------------------------ 3. thunk decoding *)
Lemma land_pow2_zero t k : (N.land t (2 ^ k) =? 0) = negb (N.testbit t k).
Proof.
  destruct (N.testbit t k) eqn:E; cbn [negb].
  - apply N.eqb_neq. intros H. assert (H1 : N.testbit (N.land t (2 ^ k)) k = true).
    { rewrite N.land_spec, E, N.pow2_bits_true. reflexivity. }
    rewrite H, N.bits_0 in H1. discriminate.
  - apply N.eqb_eq. apply N.bits_inj_0. intros n. rewrite N.land_spec, N.pow2_bits_eqb.
    destruct (N.eqb_spec k n) as [<-|Hne]; [rewrite E; reflexivity|apply andb_false_r].
Qed.

Lemma top_bit_test p t : t < 2 * thunk_top p ->
  (N.land t (ordinal_flag p) =? 0) = negb (thunk_top p <=? t).
Proof.
  unfold ordinal_flag, thunk_top. intros Ht. destruct (f_64 (p_f p)).
  - change 9223372036854775808 with (2 ^ 63). rewrite land_pow2_zero. f_equal.
    pose proof (N.testbit_spec' t 63) as H. change (2 ^ 63) with 9223372036854775808 in *.
    destruct (N.testbit t 63); cbn [N.b2n] in H; destruct (9223372036854775808 <=? t) eqn:E; try reflexivity; lia.
  - change 2147483648 with (2 ^ 31). rewrite land_pow2_zero. f_equal.
    pose proof (N.testbit_spec' t 31) as H. change (2 ^ 31) with 2147483648 in *.
    destruct (N.testbit t 31); cbn [N.b2n] in H; destruct (2147483648 <=? t) eqn:E; try reflexivity; lia.
Qed.

(* a successful 2-byte read at rva leaves room for rva + 2: no wrap *)
Lemma slice_spec_room v rva al r : view_ok v -> (v_file v = false -> v_len v < W32) ->
  slice_spec v rva 2 al = Ok r -> rva + 2 < W32.
Proof.
  intros _ Hlen. unfold slice_spec. destruct (v_file v) eqn:Ef.
  - unfold slice_file_spec. destruct (rva =? 0); [discriminate|].
    destruct (negb _); [discriminate|]. unfold first_v.
    destruct (find (in_virtual rva) (v_secs v)) as [s|] eqn:Efind; [|discriminate].
    apply find_some in Efind. destruct Efind as [_ Hin]. unfold in_virtual, vext in Hin.
    destruct (_ || _); [discriminate|]. cbv zeta.
    destruct ((rva - s_va s <=? s_srd s) && (2 <=? s_srd s - (rva - s_va s))) eqn:E; [|discriminate].
    intros _. unfold W32 in *. lia.
  - specialize (Hlen eq_refl). unfold slice_section_spec. destruct (rva =? 0); [discriminate|].
    destruct (negb _); [discriminate|].
    destruct ((rva <=? v_len v) && (2 <=? v_len v - rva)) eqn:E; [|discriminate].
    intros _. unfold W32 in *. lia.
Qed.

Theorem import_from_va_correct p t : pe_ok p ->
  t < 2 * thunk_top p -> import_from_va p t = import_spec p t.
Proof.
  intros Hok Ht. pose proof Hok as [_ [_ Hv]]. unfold import_from_va, import_spec.
  rewrite top_bit_test by exact Ht. destruct (thunk_top p <=? t); cbn [negb]; [reflexivity|].
  change (2 ^ 32) with W32. assert (Hr : t mod W32 < W32) by (apply N.mod_lt; discriminate).
  unfold rd. rewrite (slice_correct (p_v p) (t mod W32) 2 2 Hv Hr).
  destruct (slice_spec (p_v p) (t mod W32) 2 2) as [h|e|f] eqn:Es; cbn [bind]; try reflexivity.
  unfold checked_add. destruct (t mod W32 + 2 <? W32) eqn:E; destruct (W32 <=? t mod W32 + 2) eqn:E'; try lia; [|reflexivity].
  rewrite (c_string_correct p (t mod W32 + 2) Hok ltac:(lia)).
  cbn [r_off]. destruct (c_string_spec p (t mod W32 + 2)); reflexivity.
Qed.

(* the repair changes nothing on file views and on mapped views below 4 GiB *)
Theorem import_from_va_orig_agrees p t : view_ok (p_v p) -> (v_file (p_v p) = false -> v_len (p_v p) < W32) ->
  import_from_va_orig p t = import_from_va p t.
Proof.
  intros Hv Hlen. unfold import_from_va_orig, import_from_va. destruct (_ =? 0); [|reflexivity].
  assert (Hr : t mod W32 < W32) by (apply N.mod_lt; discriminate).
  unfold rd. destruct (slice (p_v p) (t mod W32) 2 2) as [h|e|f0] eqn:Es; cbn [bind]; try reflexivity.
  rewrite (slice_correct (p_v p) _ 2 2 Hv Hr) in Es.
  pose proof (slice_spec_room _ _ _ _ Hv Hlen Es) as Hroom.
  unfold chk_add, checked_add. destruct (t mod W32 + 2 <? W32) eqn:E; [|lia]. reflexivity.
Qed.

(* F38: the code as it stood overflowed on a mapped view of 4 GiB: the u16 read at rva 0xFFFFFFFE
   succeeds and rva + 2 does not fit *)
Definition view_4g : view :=
  {| v_file := false; v_addr := 4096; v_len := W32; v_get := fun _ => 65;
     v_w := W64; v_base := 0; v_soh := 0; v_soi := 0; v_secs := [] |}.
Lemma import_from_va_orig_refuted :
  import_from_va_orig {| p_f := fmt64; p_v := view_4g |} 4294967294 = Fault POverflow /\
  import_from_va {| p_f := fmt64; p_v := view_4g |} 4294967294 = Err EOverflow.
Proof. split; vm_compute; reflexivity. Qed.

(* every thunk of a table is a machine word of the thunk width, so (3) applies to every entry:
   the name table and the IAT are decoded entry by entry as the spec says *)
Lemma thunk_at_lt p r k : get_ok p -> thunk_at p r k < 2 * thunk_top p.
Proof.
  intros Hg. unfold thunk_at, thunk_top, va_bytes. destruct (f_64 (p_f p)).
  - change (N.to_nat 8) with 8%nat. exact (le_value_lt (p_get p) Hg 8 _).
  - change (N.to_nat 4) with 4%nat. exact (le_value_lt (p_get p) Hg 4 _).
Qed.

Theorem tables_decode p r : pe_ok p ->
  int_imports p r = map (import_spec p) (thunk_values p r) /\
  iat_iter p r = map (fun va => (va, import_spec p va)) (thunk_values p r).
Proof.
  intros Hok. pose proof Hok as [_ [Hg _]].
  assert (H : forall t, In t (thunk_values p r) -> import_from_va p t = import_spec p t).
  { intros t Ht. unfold thunk_values in Ht. apply in_map_iff in Ht. destruct Ht as [k [<- _]].
    apply import_from_va_correct; [exact Hok|apply thunk_at_lt; exact Hg]. }
  unfold int_imports, iat_iter. split; apply map_ext_in; intros t Ht; rewrite (H t Ht); reflexivity.
Qed.

(* ------------------------------------------------------------------ 4. the image-wide IAT *)
Theorem iat_correct p : pe_ok p -> iat p = iat_spec p.
Proof.
  intros [Hf [Hg Hv]]. unfold iat, iat_spec. rewrite dir_entry_spec by exact Hf.
  change IMAGE_DIRECTORY_ENTRY_IAT with DIR_IAT.
  destruct (dir_spec p DIR_IAT) as [[rva sz]|] eqn:E; cbn [bind fst snd]; [|reflexivity].
  destruct (dir_spec_lt p _ _ _ Hg E) as [Hr Hsz]. change (thunk_size p) with (va_bytes p).
  unfold rd_slice, checked_mul. pose proof (va_bytes_pos p) as Hp.
  assert (Hm : va_bytes p * (sz / va_bytes p) <= sz) by (apply N.mul_div_le; lia).
  destruct (va_bytes p * (sz / va_bytes p) <? W64) eqn:E1; [|unfold W32, W64 in *; lia].
  rewrite (slice_correct (p_v p) rva _ (va_bytes p) Hv Hr).
  destruct (slice_spec (p_v p) rva (va_bytes p * (sz / va_bytes p)) (va_bytes p)); reflexivity.
Qed.

(* exactly Size / pointer-size entries *)
Theorem iat_length p rva sz q : pe_ok p -> dir_spec p DIR_IAT = Some (rva, sz) -> iat p = Ok q ->
  r_len q = thunk_size p * (sz / thunk_size p) /\ length (thunk_values p q) = N.to_nat (sz / thunk_size p).
Proof.
  intros Hok E H. rewrite (iat_correct p Hok) in H. unfold iat_spec in H. rewrite E in H.
  destruct (slice_spec (p_v p) rva (thunk_size p * (sz / thunk_size p)) (thunk_size p)) as [r|e|f]; try discriminate.
  injection H as <-. cbn [r_len]. split; [reflexivity|].
  rewrite (proj1 (thunk_values_in_order p _)). cbn [r_len]. f_equal.
  rewrite N.mul_comm. apply N.div_mul. change (thunk_size p) with (va_bytes p). pose proof (va_bytes_pos p). lia.
Qed.

Theorem iat_null p sz : pe_ok p -> dir_spec p DIR_IAT = Some (0, sz) -> iat p = Err ENull.
Proof.
  intros Hok E. rewrite (iat_correct p Hok). unfold iat_spec. rewrite E.
  unfold slice_spec, slice_file_spec, slice_section_spec. change (0 =? 0) with true. cbv iota.
  destruct (v_file (p_v p)); reflexivity.
Qed.

(* the directory index lies beyond NumberOfRvaAndSizes: Bounds *)
Theorem dir_absent p : pe_ok p ->
  (nrva_spec p <= DIR_IMPORT -> imports p = Err EBounds) /\ (nrva_spec p <= DIR_IAT -> iat p = Err EBounds).
Proof.
  intros Hok. split; intros H.
  - rewrite (imports_correct p Hok). unfold imports_spec, dir_spec.
    destruct (DIR_IMPORT <? nrva_spec p) eqn:E; [lia|]. reflexivity.
  - rewrite (iat_correct p Hok). unfold iat_spec, dir_spec.
    destruct (DIR_IAT <? nrva_spec p) eqn:E; [lia|]. reflexivity.
Qed.

(* ------------------------------------------------------------------ 5. no fault *)
Lemma range_file_no_fault len secs rva m : no_fault (range_file len secs rva m).
Proof.
  induction secs as [|s secs IH]; cbn [range_file]; [intros f; discriminate|].
  destruct (_ && _); [|exact IH].
  destruct (get_range _ _ _); [|intros f; discriminate].
  destruct (get_from _ _); [|intros f; discriminate].
  destruct (_ <=? _); intros f; discriminate.
Qed.

Lemma slice_no_fault v rva m al : no_fault (slice v rva m al).
Proof.
  unfold slice, slice_file, slice_section. destruct (v_file v).
  - destruct (rva =? 0); [intros f; discriminate|]. destruct (negb _); [intros f; discriminate|].
    pose proof (range_file_no_fault (v_len v) (v_secs v) rva m) as H.
    destruct (range_file _ _ _ _) as [r|e|f0]; cbn [bind]; [| intros f; discriminate | exfalso; exact (H f0 eq_refl)].
    destruct (negb _); intros f; discriminate.
  - destruct (rva =? 0); [intros f; discriminate|]. destruct (negb _); [intros f; discriminate|].
    destruct (get_from _ _); [|intros f; discriminate]. destruct (_ <=? _); intros f; discriminate.
Qed.

Lemma rd_slice_f_no_fault get sl a w al p : 0 < w -> (forall a m al, no_fault (sl a m al)) ->
  no_fault (rd_slice_f get sl a w al p).
Proof.
  intros Hw Hsl. pose proof (rd_slice_f_correct get sl a w al p Hw) as H. specialize (Hsl a 0 al).
  destruct (sl a 0 al) as [r|e|f0].
  - destruct (rd_slice_f get sl a w al p); [intros f; discriminate|intros f; discriminate|contradiction].
  - rewrite H. intros f; discriminate.
  - exfalso. exact (Hsl f0 eq_refl).
Qed.

Lemma rd_c_str_no_fault get sl a : (forall a m al, no_fault (sl a m al)) -> no_fault (rd_c_str get sl a).
Proof.
  intros Hsl. unfold rd_c_str. specialize (Hsl a 0 1). destruct (sl a 0 1) as [r|e|f0]; cbn [bind].
  - destruct (find_nul _ _ _); intros f; discriminate.
  - intros f; discriminate.
  - exfalso. exact (Hsl f0 eq_refl).
Qed.

(* none of the table reads can panic, read out of bounds or run out of fuel, whatever the image holds *)
Theorem tables_no_fault p d rva :
  no_fault (imports p) /\ no_fault (iat p) /\ no_fault (dll_name p d) /\ no_fault (desc_iat p d) /\
  no_fault (desc_int p d) /\ no_fault (thunks p rva).
Proof.
  pose proof (slice_no_fault (p_v p)) as Hsl. pose proof (va_bytes_pos p) as Hp.
  split; [|split; [|split; [|split; [|split]]]].
  - unfold imports, dir_entry. destruct (data_dir _ _ _); cbn [bind]; [|intros f; discriminate].
    apply rd_slice_f_no_fault; [reflexivity|exact Hsl].
  - unfold iat, dir_entry. destruct (data_dir _ _ _); cbn [bind]; [|intros f; discriminate].
    unfold rd_slice. destruct (checked_mul _ _ _); [|intros f; discriminate].
    specialize (Hsl (fst p0) n (va_bytes p)). destruct (slice _ _ _ _) as [r|e|f0]; cbn [bind]; try (intros f; discriminate).
    exfalso. exact (Hsl f0 eq_refl).
  - apply rd_c_str_no_fault. exact Hsl.
  - apply rd_slice_f_no_fault; assumption.
  - apply rd_slice_f_no_fault; assumption.
  - apply rd_slice_f_no_fault; assumption.
Qed.

(* decoding a thunk cannot fault either, on any view *)
Theorem import_from_va_no_fault p t : no_fault (import_from_va p t).
Proof.
  unfold import_from_va. destruct (_ =? 0); [|intros f; discriminate].
  unfold rd. pose proof (slice_no_fault (p_v p) (t mod W32) 2 2) as Hs.
  destruct (slice (p_v p) (t mod W32) 2 2) as [h|e|f0] eqn:Es; cbn [bind]; [|intros f; discriminate|exfalso; exact (Hs f0 eq_refl)].
  destruct (checked_add W32 (t mod W32) 2) as [a|]; [|intros f; discriminate].
  pose proof (rd_c_str_no_fault (p_get p) (slice (p_v p)) a (slice_no_fault (p_v p))) as Hc.
  destruct (rd_c_str _ _ _) as [nm|e|f0]; cbn [bind]; [intros f; discriminate|intros f; discriminate|exfalso; exact (Hc f0 eq_refl)].
Qed.

(* ------------------------------------------------------------------ a concrete image *)
(* PE32 mapped view: e_lfanew = 64, 16 directories, import directory at rva 320 (one DLL "a.dll"
   importing ordinal 7 and the name "f" with hint 5), IAT directory at rva 384 with 8 bytes *)
Definition ex_bytes : list N :=
  repeat 0 60 ++ le32 64 ++ repeat 0 116 ++ le32 16 ++ repeat 0 8 ++ le32 320 ++ le32 40 ++ repeat 0 80 ++
  le32 384 ++ le32 8 ++ repeat 0 32 ++
  (le32 360 ++ le32 0 ++ le32 0 ++ le32 376 ++ le32 384) ++ repeat 0 20 ++
  (le32 2147483655 ++ le32 400 ++ le32 0) ++ repeat 0 4 ++ [97; 46; 100; 108; 108; 0] ++ repeat 0 2 ++
  (le32 2147483655 ++ le32 400 ++ le32 0) ++ repeat 0 4 ++ le16 5 ++ [102; 0] ++ repeat 0 4.
Definition ex_pe : pe :=
  {| p_f := fmt32;
     p_v := {| v_file := false; v_addr := 4096; v_len := 408; v_get := byte_at ex_bytes; v_w := W32;
               v_base := 4194304; v_soh := 320; v_soi := 408; v_secs := [] |} |}.

Lemma ex_pe_ok : pe_ok ex_pe.
Proof.
  split; [left; reflexivity|]. split.
  - intros i. apply byte_at_lt. unfold bytes_ok. apply Forall_forall. intros x Hx.
    assert (H : forallb (fun b => b <? 256) ex_bytes = true) by (vm_compute; reflexivity).
    rewrite forallb_forall in H. specialize (H x Hx). lia.
  - unfold view_ok, ex_pe. cbn [p_v v_w v_base v_soi v_soh v_secs]. split; [left; reflexivity|].
    split; [reflexivity|]. split; [reflexivity|]. split; [reflexivity|constructor].
Qed.

Lemma nonvacuous_example :
  pe_ok ex_pe /\
  imports ex_pe = Ok {| r_off := 320; r_len := 20 |} /\
  wf_import_dir (p_get ex_pe) 320 88 1 /\
  (exists d, descs ex_pe {| r_off := 320; r_len := 20 |} = [d] /\
     dll_name ex_pe d = Ok {| r_off := 376; r_len := 6 |} /\
     desc_iat ex_pe d = Ok {| r_off := 384; r_len := 8 |} /\
     desc_int ex_pe d = Ok {| r_off := 360; r_len := 8 |} /\
     int_imports ex_pe {| r_off := 360; r_len := 8 |} = [Ok (ByOrdinal 7); Ok (ByName 5 {| r_off := 402; r_len := 2 |})]) /\
  iat ex_pe = Ok {| r_off := 384; r_len := 8 |}.
Proof.
  split; [exact ex_pe_ok|].
  split; [vm_compute; reflexivity|]. split.
  - split; [vm_compute; discriminate|]. split.
    + intros o Ho. unfold DESC_SIZE in *. 
      assert (H : forallb (fun o => p_get ex_pe (320 + 20 * 1 + o) =? 0) (map N.of_nat (seq 0 20)) = true) by (vm_compute; reflexivity).
      rewrite forallb_forall in H. specialize (H o). apply N.eqb_eq. apply H.
      apply in_map_iff. exists (N.to_nat o). split; [lia|]. apply in_seq. lia.
    + intros k Hk. assert (k = 0) as -> by lia. vm_compute. discriminate.
  - split; [|vm_compute; reflexivity].
    eexists. split; [vm_compute; reflexivity|]. repeat split; vm_compute; reflexivity.
Qed.
