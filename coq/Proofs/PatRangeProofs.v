(* The atoms the pattern parser returns fit the field type of the Rust enum: every field is a u8 (needed by the code
   generation step of C17: an integer literal that does not fit its type does not compile).  An invariant of the
   parser loop of Model/Pattern.v over its result vector, its save counter and the saved counters of the open groups. *)
From PV.Model Require Import Machine Pattern Unescape Codegen.
From PV.Proofs Require Import BaseProofs PatternProofs.
Ltac Zify.zify_post_hook ::= Z.div_mod_to_equations.

Definition lt256 (b : N) : Prop := b < 256.
Definition sub_ok (sb : sub) : Prop := sb_save sb <= 255 /\ sb_save_next sb <= 255.
Definition st_ok (st : pstate) : Prop := Forall atom_u8 (p_res st) /\ p_save st <= 255 /\ Forall sub_ok (p_subs st).

Lemma Forall_upd {A} (P : A -> Prop) : forall l i x, Forall P l -> P x -> Forall P (upd l i x).
Proof.
  induction l as [|h t IH]; intros i x Hl Hx; [exact Hl|].
  apply Forall_cons_iff in Hl. destruct Hl as [Hh Ht].
  destruct i; cbn [upd]; constructor; auto.
Qed.
Lemma Forall_snoc {A} (P : A -> Prop) l x : Forall P l -> P x -> Forall P (l ++ [x]).
Proof. intros. apply Forall_app. split; [assumption|constructor; [assumption|constructor]]. Qed.

Lemma fill_breaks_u8 (rs : list atom) : forall brks acc r,
  fold_left (fun acc brk =>
    match acc with
    | inl e => inl e
    | inr r => let off := (length rs - brk - 1)%nat in
               if Nat.leb 256 off then inl SubOverflow else inr (upd r brk (Break (N.of_nat off)))
    end) brks (inr acc) = inr r -> Forall atom_u8 acc -> Forall atom_u8 r.
Proof.
  induction brks as [|b t IH]; intros acc r H Ha; cbn [fold_left] in H.
  - injection H as <-. exact Ha.
  - cbv zeta in H. destruct (Nat.leb 256 (length rs - b - 1)) eqn:E.
    + exfalso. clear -H. induction t as [|b' t' IH']; cbn [fold_left] in H; [discriminate|auto].
    + apply IH in H; [exact H|]. apply Forall_upd; [exact Ha|]. apply Nat.leb_gt in E. unfold atom_u8. cbn [atom_field]. lia.
Qed.

Lemma parse_quote_u8 : forall rest res r1 rest', parse_quote rest res = inr (r1, rest') ->
  Forall lt256 rest -> Forall atom_u8 res -> Forall atom_u8 r1 /\ Forall lt256 rest'.
Proof.
  induction rest as [|c t IH]; intros res r1 rest' H Hr Ha; cbn [parse_quote] in H; [discriminate|].
  apply Forall_cons_iff in Hr. destruct Hr as [Hc Ht].
  destruct (c =? 34); [injection H as <- <-; split; assumption|].
  apply IH in H; [exact H|exact Ht|]. apply Forall_snoc; [exact Ha|exact Hc].
Qed.

Lemma parse_num_u8 : forall rest acc any d v a t r, parse_num rest acc any d = inr (v, a, t, r) ->
  acc < 16384 -> v < 16384 /\ (Forall lt256 rest -> Forall lt256 r).
Proof.
  induction rest as [|c rest IH]; intros acc any d v a t r H Hacc; cbn [parse_num] in H; [discriminate|].
  destruct ((c =? 93) || (d && (c =? 45))).
  - injection H as <- _ _ <-. split; [exact Hacc|]. intros Hr. apply Forall_cons_iff in Hr. apply Hr.
  - destruct (is_digit c); [|discriminate].
    destruct (16384 <=? acc * 10 + (c - 48)) eqn:E; [discriminate|]. apply IH in H; [|lia].
    destruct H as [H1 H2]. split; [exact H1|]. intros Hr. apply Forall_cons_iff in Hr. apply H2, Hr.
Qed.

Lemma hexval_le c lo : hexval c = Some lo -> lo <= 15.
Proof.
  unfold hexval. destruct ((48 <=? c) && (c <=? 57)) eqn:E1; [intros [= <-]; lia|].
  destruct ((65 <=? c) && (c <=? 70)) eqn:E2; [intros [= <-]; lia|].
  destruct ((97 <=? c) && (c <=? 102)) eqn:E3; [intros [= <-]; lia|discriminate].
Qed.

Lemma pstep_u8 st chr rest st' rest' u : st_ok st -> Forall lt256 rest ->
  pstep st chr rest = inr (st', rest', u) -> st_ok st' /\ Forall lt256 rest'.
Proof.
  intros (Hres & Hsave & Hsubs) Hrest H. unfold pstep in H.
  repeat match type of H with
  | (if ?c then _ else _) = _ => destruct c eqn:?
  | match ?x with _ => _ end = _ => destruct x eqn:?
  | inl _ = inr _ => discriminate
  | (let x := _ in _) = _ => cbv zeta in H
  end.
  all: try (injection H as <- <- <-).
  all: unfold st_ok; cbn [p_res p_save p_subs].
  all: repeat match goal with
  | Hs : Forall sub_ok (_ :: _) |- _ => apply Forall_cons_iff in Hs; destruct Hs as [[? ?] ?]
  | Hr : Forall lt256 (_ :: _) |- _ => apply Forall_cons_iff in Hr; destruct Hr as [? ?]
  | E : parse_num _ 0 _ _ = inr _ |- _ => apply parse_num_u8 in E; [destruct E as [? ?]|lia]
  | E : parse_quote _ _ = inr _ |- _ => apply parse_quote_u8 in E; [destruct E as [? ?]|assumption|assumption]
  | E : fill_breaks _ _ = inr _ |- _ => unfold fill_breaks in E; apply fill_breaks_u8 in E; [|apply Forall_upd; [assumption|exact I]]
  | E : hexval _ = Some _ |- _ => apply hexval_le in E
  end.
  all: repeat match goal with
  | |- _ /\ _ => split
  | |- Forall sub_ok (_ :: _) => constructor
  | |- sub_ok _ => unfold sub_ok; cbn [sb_save sb_save_next]
  | |- Forall atom_u8 (if ?c then _ else _) => destruct c eqn:?
  | |- Forall atom_u8 ((if ?c then _ else _) ++ _) => destruct c eqn:?
  | |- Forall atom_u8 (_ ++ [_]) => apply Forall_snoc
  | |- Forall atom_u8 (upd _ _ _) => apply Forall_upd
  | |- Forall atom_u8 (set_last _ _) => apply Forall_upd
  | |- atom_u8 (if ?c then _ else _) => destruct c
  | |- atom_u8 _ => unfold atom_u8; cbn [atom_field]
  | |- context [if ?c then _ else _] => destruct c eqn:?
  end.
  all: try assumption; try exact I; try (unfold is_digit in *; lia); auto.
Qed.

Lemma trim_rev_Forall (P : atom -> Prop) : forall l, Forall P l -> Forall P (trim_rev l).
Proof.
  induction l as [|a t IH]; intros H; [exact H|]. cbn [trim_rev].
  destruct (is_redundant a); [|exact H]. apply IH. apply Forall_cons_iff in H. apply H.
Qed.
Lemma trim_Forall (P : atom -> Prop) l : Forall P l -> Forall P (trim l).
Proof. intros H. unfold trim. apply Forall_rev, trim_rev_Forall, Forall_rev, H. Qed.

Lemma ploop_u8 total : forall fuel st rest atoms, st_ok st -> Forall lt256 rest ->
  ploop fuel total st rest = Ok (inr atoms) -> Forall atom_u8 atoms.
Proof.
  induction fuel as [|fuel IH]; intros st rest atoms Hst Hrest H; cbn [ploop] in H; [discriminate|].
  destruct rest as [|chr rest1].
  - destruct (negb (p_depth st =? 0)); [discriminate|]. destruct (p_subs st); [|discriminate].
    injection H as <-. apply trim_Forall, Hst.
  - apply Forall_cons_iff in Hrest. destruct Hrest as [_ Hrest].
    destruct (pstep st chr rest1) as [e|[[st' rest2] u]] eqn:E; [discriminate|].
    destruct (pstep_u8 _ _ _ _ _ _ Hst Hrest E) as [Hst' Hrest'].
    apply IH in H; [exact H| |exact Hrest'].
    destruct u; [|exact Hst']. exact Hst'.
Qed.

(* every atom of a pattern the parser accepts fits the u8 field of its variant, for any input of bytes *)
Theorem parse_u8 input atoms : Forall lt256 input -> parse input = Ok (inr atoms) -> Forall atom_u8 atoms.
Proof.
  intros Hin H. unfold parse in H. apply ploop_u8 in H; [exact H| |exact Hin].
  unfold st_ok. cbn [p_res p_save p_subs]. split; [|split; [lia|constructor]].
  constructor; [unfold atom_u8; cbn [atom_field]; lia|constructor].
Qed.
