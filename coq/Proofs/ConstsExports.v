(* The constants the model of exports uses equal the named constants of the source, regenerated into gen/Consts.v (and
   gen/Layout.v) on every run.  One file per module, so that a changed constant breaks only the property that depends on it. *)
From PV.Model Require Import Machine.
From PV.gen Require Import Consts.
From PV.gen Require Layout.

Lemma export_layout_matches_format :
  Layout.IMAGE_EXPORT_DIRECTORY_size = 40 /\ Layout.IMAGE_EXPORT_DIRECTORY_align <= 4 /\
  Layout.IMAGE_EXPORT_DIRECTORY_Characteristics_off = 0 /\ Layout.IMAGE_EXPORT_DIRECTORY_TimeDateStamp_off = 4 /\
  Layout.IMAGE_EXPORT_DIRECTORY_Version_off = 8 /\
  Layout.IMAGE_EXPORT_DIRECTORY_Name_off = 12 /\ Layout.IMAGE_EXPORT_DIRECTORY_Base_off = 16 /\
  Layout.IMAGE_EXPORT_DIRECTORY_NumberOfFunctions_off = 20 /\ Layout.IMAGE_EXPORT_DIRECTORY_NumberOfNames_off = 24 /\
  Layout.IMAGE_EXPORT_DIRECTORY_AddressOfFunctions_off = 28 /\ Layout.IMAGE_EXPORT_DIRECTORY_AddressOfNames_off = 32 /\
  Layout.IMAGE_EXPORT_DIRECTORY_AddressOfNameOrdinals_off = 36.
Proof. unfold N.le. repeat split; try reflexivity; discriminate. Qed.
