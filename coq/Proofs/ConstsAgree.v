(* The constants the models use equal the named constants of the source, regenerated into gen/Consts.v on every
   run (tools/gen_consts.py).  A change of one of these constants in /repo breaks the lemma of the module that
   depends on it - and only that one. *)
From PV.Model Require Import Machine.
From PV.gen Require Import Consts.
From PV.Model Require Imports Scanner Dirs.
From PV.Model Require Import Headers.

Lemma imports_consts : forall p,
  Imports.ordinal_flag p = if f_64 (Imports.p_f p) then K_IMAGE_ORDINAL_FLAG64 else K_IMAGE_ORDINAL_FLAG32.
Proof. intros p. reflexivity. Qed.

Lemma scanner_consts : N.of_nat Scanner.QS_BUF_LEN = K_QS_BUF_LEN.
Proof. reflexivity. Qed.

(* the literals 2, 4, 13 of Dirs.dir_entry are the debug entry types of the source *)
Lemma dirs_consts : K_IMAGE_DEBUG_TYPE_CODEVIEW = 2 /\ K_IMAGE_DEBUG_TYPE_MISC = 4 /\ K_IMAGE_DEBUG_TYPE_POGO = 13 /\
  K_IMAGE_DIRECTORY_ENTRY_EXCEPTION = 3 /\ K_IMAGE_DIRECTORY_ENTRY_SECURITY = 4 /\ K_IMAGE_DIRECTORY_ENTRY_DEBUG = 6 /\
  K_IMAGE_DIRECTORY_ENTRY_TLS = 9 /\ K_IMAGE_DIRECTORY_ENTRY_LOAD_CONFIG = 10.
Proof. repeat split; reflexivity. Qed.
