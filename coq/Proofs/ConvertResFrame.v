(* C06, third layer, part (b): the frame lemma of Model/Resources.v.
   Every parser of the resources API reads the section through rs_get below rs_len only (once the
   bounds checks of the code have passed), tests alignments 2 and 4 of rs_addr + offset only, and
   uses rs_va and rs_len; so two sections that are [rsec_same] give EQUAL results for every query. *)
From PV.Model Require Import Machine Mapping Views Resources.
From PV.Spec Require Import ConvertSimSpec.
From PV.Proofs Require Import ResourcesProofs.
Ltac Zify.zify_post_hook ::= Z.div_mod_to_equations.

Lemma map_seq_ext' {A} (f g : nat -> A) n : forall a, (forall k, (a <= k < a + n)%nat -> f k = g k) -> map f (seq a n) = map g (seq a n).
Proof.
  induction n as [|n IH]; intros a H; cbn [seq map]; [reflexivity|]. f_equal; [apply H; lia|]. apply IH. intros k Hk. apply H. lia.
Qed.
Lemma find_ext_in {A} (p q : A -> bool) l : (forall x, In x l -> p x = q x) -> find p l = find q l.
Proof.
  induction l as [|x l IH]; intros H; cbn [find]; [reflexivity|]. rewrite (H x (or_introl eq_refl)).
  destruct (q x); [reflexivity|]. apply IH. intros y Hy. apply H. right. exact Hy.
Qed.
Lemma map_ext_in' {A B} (f g : A -> B) l : (forall x, In x l -> f x = g x) -> map f l = map g l.
Proof. intros H. apply map_ext_in. exact H. Qed.

Section Frame.
  Variables s s' : rsec.
  Hypothesis Hsame : rsec_same s s'.

  Let Hlen : rs_len s' = rs_len s := proj1 Hsame.
  Let Hva : rs_va s' = rs_va s := proj1 (proj2 Hsame).
  Let Hal : rs_addr s' mod 4 = rs_addr s mod 4 := proj1 (proj2 (proj2 Hsame)).
  Let Hget : forall i, i < rs_len s -> rs_get s' i = rs_get s i := proj2 (proj2 (proj2 Hsame)).

  Lemma al4 o : aligned_to 4 (wadd64 (rs_addr s') o) = aligned_to 4 (wadd64 (rs_addr s) o).
  Proof. rewrite !aligned_wadd64_4. pose proof Hal. f_equal. lia. Qed.
  Lemma al2 o : aligned_to 2 (wadd64 (rs_addr s') o) = aligned_to 2 (wadd64 (rs_addr s) o).
  Proof. rewrite !aligned_wadd64_2. pose proof Hal. f_equal. lia. Qed.

  Lemma rd16_fr o : o + 2 <= rs_len s -> rd16 s' o = rd16 s o.
  Proof. intros H. unfold rd16. rewrite !Hget by lia. reflexivity. Qed.
  Lemma rd32_fr o : o + 4 <= rs_len s -> rd32 s' o = rd32 s o.
  Proof. intros H. unfold rd32. rewrite !Hget by lia. reflexivity. Qed.
  Lemma sec_bytes_fr o n : o + n <= rs_len s -> sec_bytes s' o n = sec_bytes s o n.
  Proof. intros H. unfold sec_bytes. apply map_seq_ext'. intros k Hk. apply Hget. lia. Qed.
  Lemma words_fr o n : o + 2 * n <= rs_len s -> words s' o n = words s o n.
  Proof. intros H. unfold words. apply map_seq_ext'. intros k Hk. apply rd16_fr. lia. Qed.

  (* ---- Resources::slice, slice_ws ---- *)
  Lemma rslice_fr off size : rslice s' off size 4 = rslice s off size 4.
  Proof. unfold rslice. rewrite al4, Hlen. reflexivity. Qed.
  Lemma slice_ws_inv off o n : slice_ws s off = Ok (o, n) -> o = off + 2 /\ o + 2 * n <= rs_len s.
  Proof.
    unfold slice_ws. destruct (negb _); [discriminate|]. destruct (off + 2 <=? rs_len s); [|discriminate].
    destruct (off + 2 + rd16 s off * 2 <=? rs_len s) eqn:E; [|discriminate]. intros [= <- <-]. split; lia.
  Qed.
  Lemma slice_ws_fr off : slice_ws s' off = slice_ws s off.
  Proof.
    unfold slice_ws. rewrite al2, Hlen. destruct (negb _); [reflexivity|].
    destruct (off + 2 <=? rs_len s) eqn:E; [|reflexivity]. rewrite rd16_fr by lia. reflexivity.
  Qed.

  (* ---- Directory::try_from ---- *)
  Definition dir_ok (off : N) : Prop := dir_try_from s off = Ok off.
  Lemma dir_try_from_inv off o : dir_try_from s off = Ok o ->
    o = off /\ dir_ok off /\ off + 16 + 8 * (n_named s off + n_ids s off) <= rs_len s.
  Proof.
    intros H. pose proof H as H0. apply dir_try_from_ok in H0. destruct H0 as (-> & H1 & _).
    split; [reflexivity|]. split; [exact H|]. lia.
  Qed.
  Lemma dir_ok_bound off : dir_ok off -> off + 16 + 8 * (n_named s off + n_ids s off) <= rs_len s.
  Proof. intros H. apply dir_try_from_inv in H. tauto. Qed.
  Lemma dir_try_from_fr off : dir_try_from s' off = dir_try_from s off.
  Proof.
    unfold dir_try_from, dir_try_from_g. rewrite rslice_fr. destruct (rslice s off 16 4) as [o|e|f] eqn:E; cbn [bind]; try reflexivity.
    apply rslice_ok in E. destruct E as (-> & E & _). rewrite Hlen. unfold n_named, n_ids. rewrite !rd16_fr by lia. reflexivity.
  Qed.
  Lemma root_fr : root s' = root s.
  Proof. apply dir_try_from_fr. Qed.
  Lemma n_named_fr off : dir_ok off -> n_named s' off = n_named s off.
  Proof. intros H. apply dir_ok_bound in H. unfold n_named. apply rd16_fr. lia. Qed.
  Lemma n_ids_fr off : dir_ok off -> n_ids s' off = n_ids s off.
  Proof. intros H. apply dir_ok_bound in H. unfold n_ids. apply rd16_fr. lia. Qed.
  Lemma entries_fr off : dir_ok off -> entries s' off = entries s off.
  Proof. intros H. unfold entries. rewrite n_named_fr, n_ids_fr by exact H. reflexivity. Qed.
  Definition ent_in (e : N) : Prop := e + 8 <= rs_len s.
  Lemma entries_in off : dir_ok off -> Forall ent_in (entries s off).
  Proof.
    intros H. apply dir_ok_bound in H. apply Forall_forall. intros e He. unfold entries, entry_offs in He.
    apply in_map_iff in He. destruct He as (i & <- & Hi). apply in_seq in Hi. unfold ent_in. lia.
  Qed.

  (* ---- DirectoryEntry::name, entry, is_dir; DataEntry ---- *)
  Lemma e_name_fr e : ent_in e -> e_name s' e = e_name s e.
  Proof.
    unfold ent_in. intros H. unfold e_name, e_name_g. rewrite rd32_fr by lia. destruct (B31 <=? rd32 s e); [|reflexivity].
    rewrite slice_ws_fr. destruct (slice_ws s (rd32 s e - B31)) as [[o n]|x|f] eqn:E; cbn [bind fst snd]; try reflexivity.
    apply slice_ws_inv in E. destruct E as [_ E]. rewrite words_fr by exact E. reflexivity.
  Qed.
  Lemma e_entry_fr e : ent_in e -> e_entry s' e = e_entry s e.
  Proof.
    unfold ent_in. intros H. unfold e_entry, e_entry_g. rewrite rd32_fr by lia. destruct (B31 <=? rd32 s (e + 4)).
    - change (dir_try_from_g rslice) with dir_try_from. rewrite dir_try_from_fr. reflexivity.
    - rewrite rslice_fr. reflexivity.
  Qed.
  Lemma e_is_dir_fr e : ent_in e -> e_is_dir s' e = e_is_dir s e.
  Proof. unfold ent_in. intros H. unfold e_is_dir. rewrite rd32_fr by lia. reflexivity. Qed.
  Definition ent_ok (x : ent) : Prop := match x with EDir o => dir_ok o | EData o => o + 16 <= rs_len s end.
  Lemma e_entry_inv' e x : e_entry s e = Ok x -> ent_ok x.
  Proof.
    unfold e_entry, e_entry_g. destruct (B31 <=? rd32 s (e + 4)).
    - change (dir_try_from_g rslice) with dir_try_from. destruct (dir_try_from s (rd32 s (e + 4) - B31)) as [o|y|f] eqn:E; cbn [bind]; try discriminate.
      intros [= <-]. apply dir_try_from_inv in E. destruct E as (-> & E & _). exact E.
    - destruct (rslice s (rd32 s (e + 4)) 16 4) as [o|y|f] eqn:E; cbn [bind]; try discriminate.
      intros [= <-]. apply rslice_ok in E. destruct E as (-> & E & _). exact E.
  Qed.
  Lemma data_bytes_fr o : o + 16 <= rs_len s -> data_bytes s' o = data_bytes s o.
  Proof. intros H. unfold data_bytes. rewrite !rd32_fr by lia. rewrite Hva, Hlen. reflexivity. Qed.
  Lemma data_bytes_in o rg : data_bytes s o = Ok rg -> r_off rg + r_len rg <= rs_len s.
  Proof.
    unfold data_bytes. destruct (_ <? _); [discriminate|]. destruct (_ <=? _); [discriminate|].
    destruct (_ <=? rs_len s) eqn:E; [|discriminate]. intros [= <-]. cbn [r_off r_len]. lia.
  Qed.
  Lemma data_size_fr o : o + 16 <= rs_len s -> data_size s' o = data_size s o.
  Proof. intros H. unfold data_size. apply rd32_fr. lia. Qed.
  Lemma data_cp_fr o : o + 16 <= rs_len s -> data_cp s' o = data_cp s o.
  Proof. intros H. unfold data_cp. apply rd32_fr. lia. Qed.

  (* ---- the traversal ---- *)
  Lemma item_at_fr lvl named idx e : ent_in e -> item_at s' lvl named idx e = item_at s lvl named idx e.
  Proof.
    intros H. unfold item_at. rewrite e_entry_fr, e_name_fr, e_is_dir_fr by exact H.
    destruct (e_entry s e) as [[o|o]|x|f] eqn:E; try reflexivity.
    apply e_entry_inv' in E. cbn [ent_ok] in E. rewrite data_bytes_fr, data_size_fr, data_cp_fr by exact E. reflexivity.
  Qed.
  Lemma walk_loop_fr below below' lvl named : (forall o l b, dir_ok o -> below' o l b = below o l b) ->
    forall es idx b, Forall ent_in es -> walk_loop s' below' lvl named es idx b = walk_loop s below lvl named es idx b.
  Proof.
    intros Hb. induction es as [|e es IH]; intros idx b Hes; cbn [walk_loop]; [reflexivity|].
    inversion Hes as [|? ? He Hes']; subst. destruct (b =? 0); [reflexivity|].
    rewrite e_entry_fr, item_at_fr by exact He.
    destruct (e_entry s e) as [[o|o]|x|f] eqn:E; try (rewrite IH by exact Hes'; reflexivity).
    apply e_entry_inv' in E. cbn [ent_ok] in E. rewrite Hb by exact E. rewrite IH by exact Hes'. reflexivity.
  Qed.
  Lemma walk_fr d : forall off lvl b, dir_ok off -> walk d s' off lvl b = walk d s off lvl b.
  Proof.
    induction d as [|d IH]; intros off lvl b H; cbn [walk]; [reflexivity|].
    rewrite n_named_fr, entries_fr by exact H. apply walk_loop_fr; [|apply entries_in; exact H].
    intros o l b0 Ho. apply IH. exact Ho.
  Qed.

  (* ---- fsck ---- *)
  Lemma fsck_loop_fr below below' : (forall o b, dir_ok o -> below' o b = below o b) ->
    forall es b, Forall ent_in es -> fsck_loop s' below' es b = fsck_loop s below es b.
  Proof.
    intros Hb. induction es as [|e es IH]; intros b Hes; cbn [fsck_loop]; [reflexivity|].
    inversion Hes as [|? ? He Hes']; subst. destruct (b =? 0); [reflexivity|].
    rewrite e_name_fr, e_entry_fr by exact He.
    destruct (e_name s e) as [n|x|f]; cbn [bind]; try reflexivity.
    destruct (e_entry s e) as [[o|o]|x|f] eqn:E; cbn [bind]; try reflexivity; apply e_entry_inv' in E; cbn [ent_ok] in E.
    - rewrite Hb by exact E. destruct (below o (b - 1)); cbn [bind]; try reflexivity. apply IH. exact Hes'.
    - rewrite data_bytes_fr by exact E. destruct (data_bytes s o); cbn [bind]; try reflexivity. apply IH. exact Hes'.
  Qed.
  Lemma fsck_dir_fr d : forall off b, dir_ok off -> fsck_dir d s' off b = fsck_dir d s off b.
  Proof.
    induction d as [|d IH]; intros off b H; cbn [fsck_dir]; [reflexivity|].
    rewrite entries_fr by exact H. apply fsck_loop_fr; [|apply entries_in; exact H]. intros o b0 Ho. apply IH. exact Ho.
  Qed.
  Lemma fsck_fr : fsck s' = fsck s.
  Proof.
    unfold fsck. rewrite root_fr. unfold root. destruct (dir_try_from s 0) as [r|x|f] eqn:E; cbn [bind]; try reflexivity.
    apply dir_try_from_inv in E. destruct E as (-> & E & _). rewrite fsck_dir_fr by exact E.
    unfold fsck_budget. rewrite Hlen. reflexivity.
  Qed.

  (* ---- the tree printer ---- *)
  Lemma draw_loop_fr below below' : (forall o b, dir_ok o -> below' o b = below o b) ->
    forall es b, Forall ent_in es -> draw_loop s' below' es b = draw_loop s below es b.
  Proof.
    intros Hb. induction es as [|e es IH]; intros b Hes; cbn [draw_loop]; [reflexivity|].
    inversion Hes as [|? ? He Hes']; subst. destruct (b =? 0); [reflexivity|].
    rewrite e_entry_fr by exact He.
    destruct (e_entry s e) as [[o|o]|x|f] eqn:E; try (rewrite IH by exact Hes'; reflexivity).
    apply e_entry_inv' in E. cbn [ent_ok] in E. rewrite Hb by exact E. rewrite IH by exact Hes'. reflexivity.
  Qed.
  Lemma draw_fr d : forall off b, dir_ok off -> draw d s' off b = draw d s off b.
  Proof.
    induction d as [|d IH]; intros off b H; cbn [draw]; [reflexivity|].
    rewrite entries_fr by exact H. apply draw_loop_fr; [|apply entries_in; exact H]. intros o b0 Ho. apply IH. exact Ho.
  Qed.
  Lemma display_lines_fr : display_lines s' = display_lines s.
  Proof.
    unfold display_lines. rewrite root_fr. unfold root. destruct (dir_try_from s 0) as [r|x|f] eqn:E; try reflexivity.
    apply dir_try_from_inv in E. destruct E as (-> & E & _). rewrite draw_fr by exact E. unfold fsck_budget. rewrite Hlen. reflexivity.
  Qed.

  (* ---- find.rs ---- *)
  Lemma matches_fr lo q e : ent_in e -> matches lo s' q e = matches lo s q e.
  Proof. intros H. unfold matches. rewrite e_name_fr by exact H. reflexivity. Qed.
  Lemma find_entry_fr lo off q : dir_ok off -> find_entry lo s' off q = find_entry lo s off q.
  Proof.
    intros H. unfold find_entry. rewrite entries_fr by exact H. apply find_ext_in. intros e He.
    apply matches_fr. pose proof (entries_in off H) as F. rewrite Forall_forall in F. apply F. exact He.
  Qed.
  Lemma find_entry_in lo off q e : dir_ok off -> find_entry lo s off q = Some e -> ent_in e.
  Proof.
    intros H Hf. unfold find_entry in Hf. apply find_some in Hf. destruct Hf as [Hin _].
    pose proof (entries_in off H) as F. rewrite Forall_forall in F. apply F. exact Hin.
  Qed.
  Lemma lift_entry_ok e x : lift (e_entry s e) = FOk x -> ent_ok x.
  Proof. destruct (e_entry s e) as [y|y|f] eqn:E; cbn [lift]; try discriminate. intros [= <-]. exact (e_entry_inv' _ _ E). Qed.

  Lemma dir_get_fr lo off q : dir_ok off -> dir_get lo s' off q = dir_get lo s off q.
  Proof.
    intros H. unfold dir_get. rewrite find_entry_fr by exact H. destruct (find_entry lo s off q) as [e|] eqn:E; [|reflexivity].
    rewrite e_entry_fr by exact (find_entry_in _ _ _ _ H E). reflexivity.
  Qed.
  Lemma dir_get_ok lo off q x : dir_get lo s off q = FOk x -> ent_ok x.
  Proof. unfold dir_get. destruct (find_entry lo s off q); [apply lift_entry_ok|discriminate]. Qed.
  Lemma get_dir_fr lo off q : dir_ok off -> get_dir lo s' off q = get_dir lo s off q.
  Proof. intros H. unfold get_dir. rewrite dir_get_fr by exact H. reflexivity. Qed.
  Lemma get_data_fr lo off q : dir_ok off -> get_data lo s' off q = get_data lo s off q.
  Proof. intros H. unfold get_data. rewrite dir_get_fr by exact H. reflexivity. Qed.
  Lemma as_dir_ok x o : ent_ok x -> as_dir x = FOk o -> dir_ok o.
  Proof. destruct x; cbn [as_dir ent_ok]; [intros H [= <-]; exact H|discriminate]. Qed.
  Lemma as_data_ok x o : ent_ok x -> as_data x = FOk o -> o + 16 <= rs_len s.
  Proof. destruct x; cbn [as_data ent_ok]; [discriminate|intros H [= <-]; exact H]. Qed.
  Lemma get_dir_ok lo off q o : get_dir lo s off q = FOk o -> dir_ok o.
  Proof.
    unfold get_dir. destruct (dir_get lo s off q) as [x|y|f] eqn:E; cbn [fbind]; try discriminate.
    apply as_dir_ok. exact (dir_get_ok _ _ _ _ E).
  Qed.
  Lemma get_data_ok lo off q o : get_data lo s off q = FOk o -> o + 16 <= rs_len s.
  Proof.
    unfold get_data. destruct (dir_get lo s off q) as [x|y|f] eqn:E; cbn [fbind]; try discriminate.
    apply as_data_ok. exact (dir_get_ok _ _ _ _ E).
  Qed.
  Lemma first_fr off : dir_ok off -> first s' off = first s off.
  Proof.
    intros H. unfold first. rewrite entries_fr by exact H. pose proof (entries_in off H) as F.
    destruct (entries s off) as [|e es]; [reflexivity|]. inversion F; subst. rewrite e_entry_fr by assumption. reflexivity.
  Qed.
  Lemma first_ok off x : first s off = FOk x -> ent_ok x.
  Proof. unfold first. destruct (entries s off); [discriminate|apply lift_entry_ok]. Qed.
  Lemma first_data_fr off : dir_ok off -> first_data s' off = first_data s off.
  Proof. intros H. unfold first_data. rewrite first_fr by exact H. reflexivity. Qed.
  Lemma first_dir_fr off : dir_ok off -> first_dir s' off = first_dir s off.
  Proof. intros H. unfold first_dir. rewrite first_fr by exact H. reflexivity. Qed.
  Lemma first_data_ok off o : first_data s off = FOk o -> o + 16 <= rs_len s.
  Proof.
    unfold first_data. destruct (first s off) as [x|y|f] eqn:E; cbn [fbind]; try discriminate.
    apply as_data_ok. exact (first_ok _ _ E).
  Qed.
  Lemma first_dir_ok off o : first_dir s off = FOk o -> dir_ok o.
  Proof.
    unfold first_dir. destruct (first s off) as [x|y|f] eqn:E; cbn [fbind]; try discriminate.
    apply as_dir_ok. exact (first_ok _ _ E).
  Qed.
  Lemma lift_root_ok r : lift (root s) = FOk r -> dir_ok r.
  Proof.
    unfold root. destruct (dir_try_from s 0) as [o|y|f] eqn:E; cbn [lift]; try discriminate. intros [= <-].
    apply dir_try_from_inv in E. destruct E as (-> & E & _). exact E.
  Qed.

  Lemma find_resources_fr lo a b : find_resources lo s' a b = find_resources lo s a b.
  Proof.
    unfold find_resources. rewrite root_fr. destruct (lift (root s)) as [r|y|f] eqn:E; cbn [fbind]; try reflexivity.
    apply lift_root_ok in E. rewrite get_dir_fr by exact E.
    destruct (get_dir lo s r a) as [d1|y|f] eqn:E1; cbn [fbind]; try reflexivity.
    apply get_dir_ok in E1. apply get_dir_fr. exact E1.
  Qed.
  Lemma find_resources_ok lo a b d : find_resources lo s a b = FOk d -> dir_ok d.
  Proof.
    unfold find_resources. destruct (lift (root s)) as [r|y|f]; cbn [fbind]; try discriminate.
    destruct (get_dir lo s r a) as [d1|y|f]; cbn [fbind]; try discriminate. apply get_dir_ok.
  Qed.
  Lemma find_resource_fr lo a b : find_resource lo s' a b = find_resource lo s a b.
  Proof.
    unfold find_resource. rewrite find_resources_fr. destruct (find_resources lo s a b) as [d|y|f] eqn:E; cbn [fbind]; try reflexivity.
    apply find_resources_ok in E. rewrite first_data_fr by exact E.
    destruct (first_data s d) as [x|y|f] eqn:E1; cbn [fbind]; try reflexivity.
    apply first_data_ok in E1. rewrite data_bytes_fr by exact E1. reflexivity.
  Qed.
  Lemma find_resource_in lo a b rg : find_resource lo s a b = FOk rg -> r_off rg + r_len rg <= rs_len s.
  Proof.
    unfold find_resource. destruct (find_resources lo s a b) as [d|y|f]; cbn [fbind]; try discriminate.
    destruct (first_data s d) as [x|y|f]; cbn [fbind]; try discriminate.
    destruct (data_bytes s x) as [r|y|f] eqn:E; cbn [lift]; try discriminate. intros [= <-]. exact (data_bytes_in _ _ E).
  Qed.
  Lemma find_resource_ex_fr lo a b c : find_resource_ex lo s' a b c = find_resource_ex lo s a b c.
  Proof.
    unfold find_resource_ex. rewrite find_resources_fr. destruct (find_resources lo s a b) as [d|y|f] eqn:E; cbn [fbind]; try reflexivity.
    apply find_resources_ok in E. rewrite get_data_fr by exact E.
    destruct (get_data lo s d c) as [x|y|f] eqn:E1; cbn [fbind]; try reflexivity.
    apply get_data_ok in E1. rewrite data_bytes_fr by exact E1. reflexivity.
  Qed.
  Lemma find_parts_fr lo parts : forall cur, ent_ok cur -> find_parts lo s' cur parts = find_parts lo s cur parts.
  Proof.
    induction parts as [|p parts IH]; intros cur Hc; cbn [find_parts]; [reflexivity|].
    destruct cur as [o|o]; [|reflexivity]. cbn [ent_ok] in Hc. rewrite find_entry_fr by exact Hc.
    destruct (find_entry lo s o (NStr p)) as [e|] eqn:E; [|reflexivity].
    rewrite e_entry_fr by exact (find_entry_in _ _ _ _ Hc E).
    destruct (lift (e_entry s e)) as [x|y|f] eqn:E1; cbn [fbind]; try reflexivity. apply IH. exact (lift_entry_ok _ _ E1).
  Qed.
  Lemma find_path_fr lo rooted parts : find_path lo s' rooted parts = find_path lo s rooted parts.
  Proof.
    unfold find_path. destruct rooted; [|reflexivity]. rewrite root_fr.
    destruct (lift (root s)) as [r|y|f] eqn:E; cbn [fbind]; try reflexivity. apply find_parts_fr. exact (lift_root_ok _ E).
  Qed.
  Lemma manifest_fr : manifest s' = manifest s.
  Proof.
    unfold manifest. rewrite root_fr. destruct (lift (root s)) as [r|y|f] eqn:E; cbn [fbind]; try reflexivity.
    apply lift_root_ok in E. rewrite get_dir_fr by exact E.
    destruct (get_dir 48 s r (NId RT_MANIFEST)) as [d|y|f] eqn:E1; cbn [fbind]; try reflexivity.
    apply get_dir_ok in E1. rewrite first_dir_fr by exact E1.
    destruct (first_dir s d) as [d2|y|f] eqn:E2; cbn [fbind]; try reflexivity.
    apply first_dir_ok in E2. rewrite first_data_fr by exact E2.
    destruct (first_data s d2) as [x|y|f] eqn:E3; cbn [fbind]; try reflexivity.
    apply first_data_ok in E3. rewrite data_bytes_fr by exact E3.
    destruct (data_bytes s x) as [rg|y|f] eqn:E4; cbn [lift fbind]; try reflexivity.
    rewrite sec_bytes_fr by exact (data_bytes_in _ _ E4). reflexivity.
  Qed.
  Lemma version_info_fr : version_info s' = version_info s.
  Proof.
    unfold version_info. rewrite find_resource_fr. destruct (find_resource 48 s (NId RT_VERSION) (NId 1)); cbn [fbind]; try reflexivity.
    rewrite al4. reflexivity.
  Qed.

  (* ---- group.rs ---- *)
  Lemma group_new_fr g : r_off g + r_len g <= rs_len s -> group_new s' g = group_new s g.
  Proof.
    intros H. unfold group_new. rewrite al2. destruct (negb _); [reflexivity|].
    destruct (r_len g <? 6) eqn:E; [reflexivity|]. rewrite !rd16_fr by lia. reflexivity.
  Qed.
  Lemma group_new_inv g g' : group_new s g = Ok g' -> g' = g /\ r_len g = 6 + g_count s g * 14.
  Proof.
    unfold group_new, g_count. destruct (negb (aligned_to _ _)); [discriminate|]. destruct (r_len g <? 6); [discriminate|].
    destruct (_ || _); [discriminate|]. destruct (r_len g =? 6 + rd16 s (r_off g + 4) * 14) eqn:E; cbn [negb]; [|discriminate].
    intros [= <-]. split; [reflexivity|lia].
  Qed.
  Lemma g_image_fr g id : r_off g + 6 <= rs_len s -> g_image s' g id = g_image s g id.
  Proof. intros H. unfold g_image, g_type. rewrite rd16_fr by lia. apply find_resource_fr. Qed.

  Lemma group_list_fr ty : group_list s' ty = group_list s ty.
  Proof.
    unfold group_list. rewrite root_fr. destruct (lift (root s)) as [r|y|f] eqn:E; cbn [fbind]; try reflexivity.
    apply lift_root_ok in E. rewrite get_dir_fr by exact E.
    destruct (get_dir 48 s r (NId ty)) as [d|y|f] eqn:E1; try reflexivity.
    apply get_dir_ok in E1. rewrite entries_fr by exact E1. apply map_ext_in'. intros e He.
    pose proof (entries_in d E1) as F. rewrite Forall_forall in F. specialize (F e He).
    rewrite e_name_fr, e_entry_fr by exact F.
    destruct (lift (e_name s e)) as [nm|y|f]; cbn [fbind]; try reflexivity.
    destruct (lift (e_entry s e)) as [x|y|f] eqn:E2; cbn [fbind]; try reflexivity.
    apply lift_entry_ok in E2. destruct (as_dir x) as [d2|y|f] eqn:E3; cbn [fbind]; try reflexivity.
    apply (as_dir_ok _ _ E2) in E3. rewrite first_data_fr by exact E3.
    destruct (first_data s d2) as [de|y|f] eqn:E4; cbn [fbind]; try reflexivity.
    apply first_data_ok in E4. rewrite data_bytes_fr by exact E4.
    destruct (data_bytes s de) as [rg|y|f] eqn:E5; cbn [lift fbind]; try reflexivity.
    rewrite group_new_fr by exact (data_bytes_in _ _ E5). reflexivity.
  Qed.

  (* the writer of a group that GroupResource::new accepted *)
  Section Group.
    Variable g : region.
    Hypothesis Hin : r_off g + r_len g <= rs_len s.
    Hypothesis Hlen6 : r_len g = 6 + g_count s g * 14.

    Lemma g_count_fr : g_count s' g = g_count s g.
    Proof. unfold g_count. apply rd16_fr. lia. Qed.
    Lemma g_type_fr : g_type s' g = g_type s g.
    Proof. unfold g_type. apply rd16_fr. lia. Qed.
    Lemma g_entries_fr : g_entries s' g = g_entries s g.
    Proof. unfold g_entries. rewrite g_count_fr. reflexivity. Qed.
    Definition gent_in (e : N) : Prop := e + 14 <= rs_len s.
    Lemma g_entries_in : Forall gent_in (g_entries s g).
    Proof.
      apply Forall_forall. intros e He. unfold g_entries in He. apply in_map_iff in He. destruct He as (i & <- & Hi).
      apply in_seq in Hi. unfold gent_in. lia.
    Qed.
    Lemma ge_bytes_fr e : gent_in e -> ge_bytes_in_res s' e = ge_bytes_in_res s e.
    Proof. unfold gent_in. intros H. unfold ge_bytes_in_res. rewrite !rd16_fr by lia. reflexivity. Qed.
    Lemma ge_id_fr e : gent_in e -> ge_id s' e = ge_id s e.
    Proof. unfold gent_in. intros H. unfold ge_id. apply rd16_fr. lia. Qed.
    Lemma write_entries_fr : forall es o, Forall gent_in es -> write_entries s' es o = write_entries s es o.
    Proof.
      induction es as [|e es IH]; intros o Hes; cbn [write_entries]; [reflexivity|]. inversion Hes as [|? ? He Hes']; subst.
      rewrite ge_bytes_fr by exact He. destruct (_ <? W32); [|reflexivity]. rewrite IH by exact Hes'.
      unfold gent_in in He. rewrite sec_bytes_fr by lia. reflexivity.
    Qed.
    Lemma image_lookup_fr id : image_lookup s' g id = image_lookup s g id.
    Proof.
      unfold image_lookup. rewrite g_image_fr by lia. destruct (g_image s g id) as [rg|y|f] eqn:E; try reflexivity.
      unfold g_image in E. apply find_resource_in in E. rewrite sec_bytes_fr by exact E. reflexivity.
    Qed.
    Lemma write_images_fr : forall es, Forall gent_in es ->
      write_images s' (image_lookup s' g) es = write_images s (image_lookup s g) es.
    Proof.
      induction es as [|e es IH]; intros Hes; cbn [write_images]; [reflexivity|]. inversion Hes as [|? ? He Hes']; subst.
      rewrite ge_id_fr by exact He. rewrite image_lookup_fr. rewrite IH by exact Hes'. reflexivity.
    Qed.
    (* the cursor branch of write (F43 repair) *)
    Lemma write_cur_entries_fr : forall es o, Forall gent_in es ->
      write_cur_entries s' (image_lookup s' g) es o = write_cur_entries s (image_lookup s g) es o.
    Proof.
      induction es as [|e es IH]; intros o Hes; cbn [write_cur_entries]; [reflexivity|]. inversion Hes as [|? ? He Hes']; subst.
      rewrite ge_id_fr by exact He. rewrite image_lookup_fr. rewrite ge_bytes_fr by exact He.
      destruct (image_lookup s g (ge_id s e)); [|reflexivity]. destruct (_ && _); [|reflexivity]. destruct (_ <? W32); [|reflexivity].
      rewrite IH by exact Hes'. unfold gent_in in He. rewrite rd16_fr by lia. rewrite Hget by lia. reflexivity.
    Qed.
    Lemma write_cur_images_fr : forall es, Forall gent_in es ->
      write_cur_images s' (image_lookup s' g) es = write_cur_images s (image_lookup s g) es.
    Proof.
      induction es as [|e es IH]; intros Hes; cbn [write_cur_images]; [reflexivity|]. inversion Hes as [|? ? He Hes']; subst.
      rewrite ge_id_fr by exact He. rewrite image_lookup_fr. rewrite IH by exact Hes'. reflexivity.
    Qed.
    Lemma group_write_fr : group_write s' g = group_write s g.
    Proof.
      unfold group_write, write_with. rewrite g_entries_fr, g_type_fr. pose proof g_entries_in as F.
      rewrite write_entries_fr by exact F. rewrite write_images_fr by exact F.
      rewrite write_cur_entries_fr by exact F. rewrite write_cur_images_fr by exact F.
      rewrite !(sec_bytes_fr (r_off g) 6) by lia. reflexivity.
    Qed.
  End Group.

  (* ---- the frame lemma: every query ---- *)
  Theorem resources_frame : res_queries_equal s s'.
  Proof.
    unfold res_queries_equal.
    split; [exact root_fr|]. split.
    { intros d r lvl b Hr. apply walk_fr. unfold root in Hr. apply dir_try_from_inv in Hr. destruct Hr as (-> & Hr & _). exact Hr. }
    split; [exact fsck_fr|]. split; [exact display_lines_fr|].
    split; [exact find_resources_fr|]. split; [exact find_resource_fr|]. split; [exact find_resource_ex_fr|].
    split; [exact find_path_fr|]. split; [exact manifest_fr|]. split; [exact version_info_fr|].
    split; [exact group_list_fr|]. split; [|exact sec_bytes_fr].
    intros rg g Hin Hg. rewrite group_new_fr by exact Hin. split; [exact Hg|].
    apply group_new_inv in Hg. destruct Hg as [-> Hl].
    split; [apply g_type_fr; assumption|]. split; [apply g_entries_fr; assumption|].
    split; [intros id; apply g_image_fr; lia|]. apply group_write_fr; assumption.
  Qed.
End Frame.
