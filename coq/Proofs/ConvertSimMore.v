(* Proofs for C06, third layer: the open parts of "every directory query gives equal results on both".
   (b) the resource tree walkers (through the frame lemma of ConvertResFrame.v), (c) the debug entry payloads and the
   entries decoded from them, (d) Exports name_linear / the three iterators / check_sorted, exception unwind_info and
   function_bytes, (a) a converse (view => file) for reads inside the stored-and-mapped part of a section. *)
From PV.Model Require Import Machine Mapping Views Headers Convert.
From PV.Model Require Dirs Exports Resources.
From PV.Spec Require Import MappingSpec ConvertSpec ConvertSimSpec.
From PV.Proofs Require Import BaseProofs MappingProofs ConvertProofs ConvertSimProofs ConvertResFrame.
Ltac Zify.zify_post_hook ::= Z.div_mod_to_equations.

(* ================================================================ (d) exports, abstractly in derva_c_str *)
Section CstrMore.
  Variables cF cV : N -> res (list N).
  Hypothesis Hc : forall a s, cF a = Ok s -> cV a = Ok s.
  Variable t : Exports.tables.

  Lemma name_linear_from_mono nm : forall ns h e,
    forallb (fun rva => match cF rva with Ok _ => true | _ => false end) ns = true ->
    Exports.name_linear_from cF t ns h nm = Ok e -> Exports.name_linear_from cV t ns h nm = Ok e.
  Proof.
    induction ns as [|rva ns IH]; intros h e Hr; cbn [Exports.name_linear_from]; [discriminate|].
    cbn [forallb] in Hr. apply andb_true_iff in Hr. destruct Hr as [Hr Hrs].
    destruct (cF rva) as [s|x|f] eqn:E; try discriminate. rewrite (Hc _ _ E).
    destruct (Exports.bytes_eqb s nm); [apply (hint_mono cF cV Hc)|apply IH; exact Hrs].
  Qed.
  Lemma name_linear_mono nm e : names_readable cF t = true ->
    Exports.name_linear cF t nm = Ok e -> Exports.name_linear cV t nm = Ok e.
  Proof. apply name_linear_from_mono. Qed.

  Lemma import_mono i e : import_readable cF t i = true -> Exports.import_ cF t i = Ok e -> Exports.import_ cV t i = Ok e.
  Proof.
    destruct i as [h n|o]; cbn [import_readable Exports.import_]; [|intros _; apply (ordinal_mono cF cV Hc)].
    unfold Exports.hint_name. destruct (Exports.hint cF t h) as [e0|x|f] eqn:Eh; try discriminate.
    destruct (Exports.name_of_hint cF t h) as [s|x|f] eqn:En; try discriminate. intros _.
    rewrite (hint_mono cF cV Hc t h e0 Eh), (name_of_hint_mono cF cV Hc t h s En).
    destruct (Exports.bytes_eqb s n); [exact (fun H => H)|apply (name_mono cF cV Hc)].
  Qed.

  (* the three iterators: item by item, whatever the file yields the view yields *)
  Lemma iter_mono : Forall2 res_le (Exports.iter cF t) (Exports.iter cV t).
  Proof.
    unfold Exports.iter. induction (Exports.t_funcs t) as [|rva l IH]; cbn [map]; constructor; [|exact IH].
    intros e. apply (symbol_from_rva_mono cF cV Hc).
  Qed.
  Lemma iter_names_mono :
    Forall2 (fun p p' => res_le (fst p) (fst p') /\ res_le (snd p) (snd p')) (Exports.iter_names cF t) (Exports.iter_names cV t).
  Proof.
    unfold Exports.iter_names. generalize 0 as h. induction (Exports.t_names t) as [|rva l IH]; intros h; cbn [Exports.iter_names_from]; constructor; [|apply IH].
    cbn [fst snd]. split; [intros s; apply Hc|intros e; apply (hint_mono cF cV Hc)].
  Qed.
  Lemma iter_name_indices_mono :
    Forall2 (fun p p' => res_le (fst p) (fst p') /\ snd p' = snd p) (Exports.iter_name_indices cF t) (Exports.iter_name_indices cV t).
  Proof.
    unfold Exports.iter_name_indices. generalize (Exports.t_idxs t) as ixs.
    induction (Exports.t_names t) as [|rva l IH]; intros ixs; cbn [Exports.iter_name_indices_from]; [constructor|].
    destruct ixs as [|ix ixs]; constructor; [|apply IH]. cbn [fst snd]. split; [intros s; apply Hc|reflexivity].
  Qed.

  (* check_sorted evaluates the export half of every item as well and only lets a Fault through *)
  Hypothesis HnfV : forall a f, cV a <> Fault f.
  Lemma hint_nf h f : Exports.hint cV t h <> Fault f.
  Proof.
    unfold Exports.hint, Exports.index, Exports.symbol_from_rva. destruct (Exports.nthN (Exports.t_idxs t) h) as [i|]; [|discriminate].
    destruct (Exports.nthN (Exports.t_funcs t) i) as [rva|]; [|discriminate]. destruct (rva =? 0); [discriminate|].
    destruct (Exports.is_forwarded t rva); [|discriminate]. destruct (cV rva) as [s|x|f0] eqn:E; cbn [bind]; try discriminate.
    exfalso. exact (HnfV _ _ E).
  Qed.
  Lemma check_sorted_from_mono : forall ns h last b,
    Exports.check_sorted_from cF t ns h last = Ok b -> Exports.check_sorted_from cV t ns h last = Ok b.
  Proof.
    induction ns as [|rva ns IH]; intros h last b; cbn [Exports.check_sorted_from]; [exact (fun H => H)|].
    intros H.
    assert (H' : (s <- cF rva ;; match Exports.lex_cmp last s with Gt => Ok false | _ => Exports.check_sorted_from cF t ns (h + 1) s end) = Ok b).
    { destruct (Exports.hint cF t h); try exact H. discriminate. }
    clear H. destruct (cF rva) as [s|x|f] eqn:E; cbn [bind] in H'; try discriminate.
    rewrite (Hc _ _ E). cbn [bind].
    assert (G : match Exports.lex_cmp last s with Gt => Ok false | _ => Exports.check_sorted_from cV t ns (h + 1) s end = Ok b).
    { destruct (Exports.lex_cmp last s); [apply IH; exact H'|apply IH; exact H'|exact H']. }
    pose proof (hint_nf h) as Hn. destruct (Exports.hint cV t h) as [e|x|f]; try exact G. exfalso. exact (Hn f eq_refl).
  Qed.
  Lemma check_sorted_mono b : Exports.check_sorted cF t = Ok b -> Exports.check_sorted cV t = Ok b.
  Proof. apply check_sorted_from_mono. Qed.
End CstrMore.

(* name_linear is NOT monotone without the readability hypothesis: it skips a name whose read fails *)
Definition nl_t : Exports.tables :=
  {| Exports.t_funcs := [1000; 2000]; Exports.t_names := [86; 76]; Exports.t_idxs := [0; 1]; Exports.t_base := 1;
     Exports.t_dva := 16; Exports.t_dsize := 40 |}.
Definition nl_cF (a : N) : res (list N) := if a =? 76 then Ok [] else Err EBounds.
Definition nl_cV (a : N) : res (list N) := if (a =? 76) || (a =? 86) then Ok [] else Err EBounds.
Lemma name_linear_not_monotone :
  (forall a s, nl_cF a = Ok s -> nl_cV a = Ok s) /\ names_readable nl_cF nl_t = false /\
  Exports.name_linear nl_cF nl_t [] = Ok (Exports.Symbol 2000) /\ Exports.name_linear nl_cV nl_t [] = Ok (Exports.Symbol 1000).
Proof.
  split; [|vm_compute; repeat split].
  intros a s. unfold nl_cF, nl_cV. destruct (a =? 76); [exact (fun H => H)|discriminate].
Qed.

Lemma find_nul_ext g1 g2 : forall n o1 o2, (forall j, j < N.of_nat n -> g1 (o1 + j) = g2 (o2 + j)) ->
  find_nul g1 o1 n = find_nul g2 o2 n.
Proof.
  induction n as [|n IH]; intros o1 o2 H; cbn [find_nul]; [reflexivity|].
  pose proof (H 0 ltac:(lia)) as H0. rewrite !N.add_0_r in H0. rewrite H0.
  rewrite (IH (o1 + 1) (o2 + 1)); [reflexivity|]. intros j Hj. rewrite <- !N.add_assoc. apply H. lia.
Qed.

Lemma view_cstr_mapped_nf aV w b soh soi secs V a f : Exports.view_cstr (mapped_view aV w b soh soi secs V) a <> Fault f.
Proof.
  unfold Exports.view_cstr, Exports.cstr_of, rd_c_str, slice, slice_section. cbn [mapped_view v_file v_addr v_len v_get].
  destruct (a =? 0); [discriminate|]. destruct (negb _); [discriminate|]. destruct (get_from (lenN V) a) as [r|]; [|discriminate].
  destruct (0 <=? r_len r); [|discriminate]. cbn [bind]. destruct (find_nul _ _ _); discriminate.
Qed.

(* ================================================================ the two views of one image *)
Lemma rva_to_file_offset_secs_lt secs rva p : rva_to_file_offset_secs secs rva = Ok p -> rva < W32.
Proof.
  induction secs as [|s secs IH]; cbn [rva_to_file_offset_secs]; [discriminate|].
  destruct ((s_va s <=? rva) && (rva <? wadd32 (s_va s) (N.max (s_vs s) (s_srd s)))) eqn:E; [|exact IH].
  intros _. unfold wadd32 in E.
  assert (H : (s_va s + N.max (s_vs s) (s_srd s)) mod W32 < W32) by (apply N.mod_upper_bound; discriminate). lia.
Qed.

Lemma get_range_add len a n : a + n <= len -> a + n < W64 -> get_range len a (wadd64 a n) = Some {| r_off := a; r_len := n |}.
Proof.
  intros H1 H2. unfold get_range, wadd64. rewrite N.mod_small by exact H2.
  destruct ((a <=? a + n) && (a + n <=? len)) eqn:E; [|lia]. f_equal. f_equal. lia.
Qed.

Section More.
  Variables (img V : list N) (soh soi : N) (secs : list section).
  Hypothesis Hset : conv_setting img soh soi secs V.
  Variables (addrF addrV w base : N).
  Local Notation vf := (file_view addrF w base soh soi secs img).
  Local Notation vv := (mapped_view addrV w base soh soi secs V).
  Local Notation gF := (byte_at img).
  Local Notation gV := (byte_at V).
  Local Notation alok al := (align_compat al addrF addrV = true).

  (* ---------------------------------------------------------------- (d) exception.rs: Function::bytes, unwind_info *)
  Section OutsideF37.
  Hypothesis Hz : raw_tail_not_mapped gF secs = false.

  Lemma function_bytes_sim f r : Dirs.function_bytes vf f = Ok r ->
    exists r', Dirs.function_bytes vv f = Ok r' /\ r_off r' = Dirs.rf_begin f /\ region_sim gF gV r r'.
  Proof.
    unfold Dirs.function_bytes. destruct (Dirs.rf_end f <? Dirs.rf_begin f); [discriminate|]. intros H.
    exact (v_rd_slice_full img V soh soi secs Hset addrF addrV w base Hz RvaPath _ 1 1 _ r (align_compat_1 _ _) H).
  Qed.

  Lemma unwind_info_sim f r : Dirs.unwind_info vf f = Ok r ->
    exists r', Dirs.unwind_info vv f = Ok r' /\ r_off r' = Dirs.rf_unwind f /\ region_sim gF gV r r' /\
      unwind_vals gF r = unwind_vals gV r'.
  Proof.
    unfold Dirs.unwind_info. destruct (slice vf (Dirs.rf_unwind f) 4 1) as [bf|x|ft] eqn:E; cbn [bind]; try discriminate.
    destruct (sl_sim img V soh soi secs Hset addrF addrV w base RvaPath _ 4 1 bf (align_compat_1 _ _) E) as [bv [A [B [C D]]]].
    pose proof (sl_min img V soh soi secs Hset addrF w base RvaPath _ _ _ _ E) as Hmin.
    pose proof (sl_full img V soh soi secs Hset addrF w base RvaPath _ _ _ _ Hz E) as Hfull.
    cbn [sl_of rva_of] in *. rewrite A. cbn [bind]. cbn [file_view mapped_view v_get]. unfold Dirs.u8at.
    assert (Ec : gV (r_off bv + 2) = gF (r_off bf + 2)) by (rewrite B; symmetry; apply D; lia). rewrite Ec.
    unfold chk_mul. destruct (2 * gF (r_off bf + 2) <? W64); cbn [bind]; [|discriminate].
    unfold chk_add. destruct (4 + 2 * gF (r_off bf + 2) <? W64); cbn [bind]; [|discriminate].
    remember (4 + 2 * gF (r_off bf + 2)) as ms eqn:Ems.
    destruct (r_len bf <? ms) eqn:E1; [discriminate|]. intros [= <-].
    destruct (r_len bv <? ms) eqn:E2; [lia|]. eexists. split; [reflexivity|]. cbn [r_off r_len]. split; [exact B|].
    assert (RS : region_sim gF gV {| r_off := r_off bf; r_len := ms |} {| r_off := r_off bv; r_len := ms |}).
    { split; [reflexivity|]. cbn [r_off r_len]. intros i Hi. rewrite B. apply D. lia. }
    split; [exact RS|]. destruct RS as [_ RB]. cbn [r_off r_len] in RB.
    assert (B0 : gF (r_off bf) = gV (r_off bv)) by (rewrite <- (N.add_0_r (r_off bf)), <- (N.add_0_r (r_off bv)); apply RB; lia).
    assert (B1 : gF (r_off bf + 1) = gV (r_off bv + 1)) by (apply RB; lia).
    assert (B3 : gF (r_off bf + 3) = gV (r_off bv + 3)) by (apply RB; lia).
    unfold unwind_vals, Dirs.uw_version, Dirs.uw_flags, Dirs.uw_size_of_prolog, Dirs.uw_count, Dirs.uw_frame_register,
      Dirs.uw_frame_offset, Dirs.uw_codes, Dirs.u8at. cbn [r_off r_len]. rewrite B0, B1, B3, Ec. apply f_equal2; [reflexivity|].
    assert (Ecnt : forall ln, Dirs.uw_count gV {| r_off := r_off bv; r_len := ln |} = gF (r_off bf + 2)).
    { intros ln. unfold Dirs.uw_count, Dirs.u8at. cbn [r_off]. exact Ec. }
    assert (Ecnt' : forall ln, Dirs.uw_count gF {| r_off := r_off bf; r_len := ln |} = gF (r_off bf + 2)) by reflexivity.
    apply region_bytes_sim. split; cbn [r_off r_len].
    - try rewrite Ecnt; try rewrite Ecnt'; try rewrite Ec; reflexivity.
    - try rewrite Ecnt'. intros i Hi. rewrite <- !N.add_assoc. apply RB. lia.
  Qed.

  (* ---------------------------------------------------------------- (d) exports: name_linear, the iterators, check_sorted *)
  Lemma cstr_sim a s : Exports.view_cstr vf a = Ok s -> Exports.view_cstr vv a = Ok s.
  Proof. exact (view_cstr_sim img V soh soi secs Hset addrF addrV w base Hz a s). Qed.

  Lemma name_linear_sim dd t nm e : alok 4 -> Exports.view_by vf dd = Ok t ->
    names_readable (Exports.view_cstr vf) t = true ->
    Exports.name_linear (Exports.view_cstr vf) t nm = Ok e ->
    Exports.view_by vv dd = Ok t /\ Exports.name_linear (Exports.view_cstr vv) t nm = Ok e.
  Proof.
    intros Hal Ht Hr H. split; [exact (exports_by_sim img V soh soi secs Hset addrF addrV w base Hz dd t Hal Ht)|].
    exact (name_linear_mono _ _ cstr_sim t nm e Hr H).
  Qed.
  Lemma get_export_import_sim dd t i e : alok 4 -> Exports.view_by vf dd = Ok t ->
    import_readable (Exports.view_cstr vf) t i = true ->
    Exports.get_export_import vf dd i = Ok e -> Exports.get_export_import vv dd i = Ok e.
  Proof.
    intros Hal Ht Hr. unfold Exports.get_export_import. rewrite Ht.
    rewrite (exports_by_sim img V soh soi secs Hset addrF addrV w base Hz dd t Hal Ht). cbn [bind].
    exact (import_mono _ _ cstr_sim t i e Hr).
  Qed.
  Lemma export_iters_sim dd t : alok 4 -> Exports.view_by vf dd = Ok t ->
    Exports.view_by vv dd = Ok t /\
    Forall2 res_le (Exports.iter (Exports.view_cstr vf) t) (Exports.iter (Exports.view_cstr vv) t) /\
    Forall2 (fun p p' => res_le (fst p) (fst p') /\ res_le (snd p) (snd p'))
      (Exports.iter_names (Exports.view_cstr vf) t) (Exports.iter_names (Exports.view_cstr vv) t) /\
    Forall2 (fun p p' => res_le (fst p) (fst p') /\ snd p' = snd p)
      (Exports.iter_name_indices (Exports.view_cstr vf) t) (Exports.iter_name_indices (Exports.view_cstr vv) t) /\
    res_le (Exports.check_sorted (Exports.view_cstr vf) t) (Exports.check_sorted (Exports.view_cstr vv) t).
  Proof.
    intros Hal Ht. split; [exact (exports_by_sim img V soh soi secs Hset addrF addrV w base Hz dd t Hal Ht)|].
    split; [exact (iter_mono _ _ cstr_sim t)|]. split; [exact (iter_names_mono _ _ cstr_sim t)|].
    split; [exact (iter_name_indices_mono _ _ cstr_sim t)|].
    intros b. apply (check_sorted_mono _ _ cstr_sim t). intros a f. apply view_cstr_mapped_nf.
  Qed.

  (* ---------------------------------------------------------------- (b) the resource tree walkers *)
  Lemma resources_same va size s : alok 4 -> prd_va_congruent 4 secs va = true ->
    view_resources vf (Some (va, size)) = Ok s -> Resources.rs_len s = size ->
    exists s', view_resources vv (Some (va, size)) = Ok s' /\ rsec_same s s'.
  Proof.
    intros Hal Hcg. unfold view_resources.
    destruct (slice vf va 0 1) as [rf|e|ft] eqn:E; cbn [bind]; try discriminate. intros [= <-]. cbn [Resources.rs_len]. intros Hl.
    destruct (sl_sim img V soh soi secs Hset addrF addrV w base RvaPath va 0 1 rf (align_compat_1 _ _) E) as [rv [A [B [C D]]]].
    pose proof (sl_full img V soh soi secs Hset addrF w base RvaPath _ _ _ _ Hz E) as Hfull.
    destruct (sl_file_inv img V soh soi secs Hset addrF w base RvaPath _ _ _ _ E) as [_ [Hr _]].
    destruct (range_sim img V soh soi secs Hset _ _ _ Hr) as [s0 [Hf [_ [Hva [Ho _]]]]].
    cbn [sl_of rva_of] in *. rewrite A. cbn [bind]. eexists. split; [reflexivity|].
    unfold rsec_same. cbn [Resources.rs_len Resources.rs_va Resources.rs_addr Resources.rs_get file_view mapped_view v_get v_addr].
    split; [lia|]. split; [reflexivity|]. split.
    - unfold prd_va_congruent in Hcg. rewrite Hf in Hcg. apply N.eqb_eq in Hcg.
      unfold align_compat in Hal. apply andb_true_iff in Hal. destruct Hal as [_ Hal]. apply N.eqb_eq in Hal.
      rewrite B, Ho. lia.
    - intros i Hi. rewrite B. symmetry. apply D. lia.
  Qed.

  Theorem resources_queries_sim va size s : alok 4 -> prd_va_congruent 4 secs va = true ->
    view_resources vf (Some (va, size)) = Ok s -> Resources.rs_len s = size ->
    exists s', view_resources vv (Some (va, size)) = Ok s' /\ rsec_same s s' /\ res_queries_equal s s'.
  Proof.
    intros Hal Hcg Hs Hl. destruct (resources_same va size s Hal Hcg Hs Hl) as [s' [A B]].
    exists s'. split; [exact A|]. split; [exact B|]. apply resources_frame. exact B.
  Qed.
  End OutsideF37.

  (* ---------------------------------------------------------------- (c) debug entry payloads (no F37 hypothesis:
     [debug_entry_consistent] measures the payload against agree_len, which already accounts for the raw tail) *)
  Lemma payload_agree d : debug_entry_consistent gF soh secs d = true ->
    Dirs.dd_ptr d + Dirs.dd_size d <= lenN img /\ Dirs.dd_addr d + Dirs.dd_size d <= lenN V /\
    Dirs.dd_ptr d + Dirs.dd_size d < W32 /\ Dirs.dd_addr d + Dirs.dd_size d < W32 /\
    (forall al, prd_va_congruent al secs (Dirs.dd_addr d) = true -> al <> 0 -> Dirs.dd_ptr d mod al = Dirs.dd_addr d mod al) /\
    forall j, j < Dirs.dd_size d -> gF (Dirs.dd_ptr d + j) = gV (Dirs.dd_addr d + j).
  Proof.
    destruct Hset as [Hs [H1 [H2 [Hwf HV]]]]. destruct (wf_inv _ _ _ _ Hwf) as [Hsoi [Hb _]].
    destruct (to_view_wf img soh soi secs V Hs H1 H2 Hwf HV) as [Hl [Hh _]].
    unfold debug_entry_consistent. destruct (rva_to_file_offset soh secs (Dirs.dd_addr d)) as [p|x|ft] eqn:E; try discriminate.
    rewrite andb_true_iff, N.eqb_eq. intros [<- Hc]. unfold rva_to_file_offset in E.
    destruct (Dirs.dd_addr d <? soh) eqn:Eh.
    - injection E as <-. apply N.leb_le in Hc. repeat split; try lia.
      intros j Hj. symmetry. apply Hh. lia.
    - pose proof (rva_to_file_offset_secs_lt _ _ _ E) as Hlt.
      assert (E' : rva_to_file_offset soh secs (Dirs.dd_addr d) = Ok p) by (unfold rva_to_file_offset; rewrite Eh; exact E).
      rewrite (rva_to_file_offset_correct soh secs _ Hs Hlt) in E'. unfold rva_to_file_offset_spec in E'. rewrite Eh in E'.
      destruct (first_v secs (Dirs.dd_addr d)) as [s0|] eqn:Hf; [|discriminate].
      destruct (W32 <=? s_prd s0 + s_srd s0) eqn:E1; [discriminate|].
      destruct (Dirs.dd_addr d - s_va s0 <? s_srd s0) eqn:E2; [|discriminate]. injection E' as <-.
      assert (Hr : range_file (lenN img) secs (Dirs.dd_addr d) 0 =
                   Ok {| r_off := s_prd s0 + (Dirs.dd_addr d - s_va s0); r_len := s_srd s0 - (Dirs.dd_addr d - s_va s0) |}).
      { rewrite (range_file_correct _ _ _ _ Hs Hlt), Hf. pose proof Hf as Hf'. unfold first_v in Hf'. apply find_some in Hf'.
        destruct Hf' as [Hin _]. destruct (Hb s0 Hin) as [_ [_ [S3 S4]]].
        destruct ((W32 <=? s_prd s0 + s_srd s0) || (lenN img <? s_prd s0 + s_srd s0)) eqn:E3; [lia|]. cbv zeta.
        destruct ((Dirs.dd_addr d - s_va s0 <=? s_srd s0) && (0 <=? s_srd s0 - (Dirs.dd_addr d - s_va s0))) eqn:E4; [reflexivity|lia]. }
      destruct (range_sim img V soh soi secs Hset _ _ _ Hr) as [s1 [Hf1 [Hin [Hva [Ho [Hlen [_ [Hend [_ [_ [Hag [_ Hbytes]]]]]]]]]]]].
      rewrite Hf in Hf1. injection Hf1 as <-. cbn [r_off r_len] in *. apply N.leb_le in Hc.
      destruct (Hb s0 Hin) as [_ [_ [S3 S4]]].
      repeat split; try lia.
      + intros al Hcg Hal. unfold prd_va_congruent in Hcg. rewrite Hf in Hcg. apply N.eqb_eq in Hcg.
        replace (Dirs.dd_addr d) with (s_va s0 + (Dirs.dd_addr d - s_va s0)) at 2 by lia.
        rewrite (N.add_mod (s_prd s0)), (N.add_mod (s_va s0)) by exact Hal. rewrite Hcg. reflexivity.
      + intros j Hj. apply Hbytes. lia.
  Qed.

  Theorem debug_payload_sim d d' : ddir_vals d' = ddir_vals d -> debug_entry_consistent gF soh secs d = true ->
    Dirs.dir_data vf d = Some {| r_off := Dirs.dd_ptr d; r_len := Dirs.dd_size d |} /\
    Dirs.dir_data vv d' = Some {| r_off := Dirs.dd_addr d; r_len := Dirs.dd_size d |} /\
    region_sim gF gV {| r_off := Dirs.dd_ptr d; r_len := Dirs.dd_size d |} {| r_off := Dirs.dd_addr d; r_len := Dirs.dd_size d |}.
  Proof.
    intros Hv Hc. destruct (payload_agree d Hc) as [P1 [P2 [P3 [P4 [_ P5]]]]].
    unfold ddir_vals in Hv. injection Hv as _ _ Hsz Had Hpt.
    unfold Dirs.dir_data. cbn [file_view mapped_view v_file v_len]. rewrite Hsz, Had.
    rewrite !get_range_add by (unfold W32, W64 in *; lia). repeat split. exact P5.
  Qed.

  (* the entries decoded from the payloads *)
  Lemma pgo_items_ext : forall fuel o1 o2 n, (forall j, j < 4 * n -> gF (o1 + j) = gV (o2 + j)) ->
    res_map (pgo_vals gF) (Dirs.pgo_items fuel gF o1 n) = res_map (pgo_vals gV) (Dirs.pgo_items fuel gV o2 n).
  Proof.
    induction fuel as [|fuel IH]; intros o1 o2 n H; cbn [Dirs.pgo_items]; [reflexivity|].
    destruct (3 <=? n) eqn:E3; [|reflexivity].
    assert (Ecs : find_nul gF (o1 + 8) (N.to_nat (4 * (n - 2))) = find_nul gV (o2 + 8) (N.to_nat (4 * (n - 2)))).
    { apply find_nul_ext. intros j Hj. rewrite <- !N.add_assoc. apply H. lia. }
    unfold Dirs.cstr_from_bytes. rewrite <- Ecs.
    destruct (find_nul gF (o1 + 8) (N.to_nat (4 * (n - 2)))) as [i|] eqn:En; [|reflexivity]. cbn [r_len].
    apply find_nul_lt in En.
    destruct (n <? 2 + (i + 1 - 1) / 4 + 1) eqn:E4; [reflexivity|].
    specialize (IH (o1 + 4 * (2 + (i + 1 - 1) / 4 + 1)) (o2 + 4 * (2 + (i + 1 - 1) / 4 + 1)) (n - (2 + (i + 1 - 1) / 4 + 1))).
    assert (IH' := IH ltac:(intros j Hj; rewrite <- !N.add_assoc; apply H; lia)). clear IH.
    destruct (Dirs.pgo_items fuel gF _ _) as [l1|x1|f1]; destruct (Dirs.pgo_items fuel gV _ _) as [l2|x2|f2];
      cbn [res_map bind] in *; try discriminate; try exact IH'.
    injection IH' as IH'. f_equal. unfold pgo_vals in *. cbn [map Dirs.pg_rva Dirs.pg_size Dirs.pg_name]. rewrite IH'. f_equal.
    unfold Dirs.u32at. f_equal; [f_equal|].
    - apply le_value_ext. intros j Hj. apply H. lia.
    - apply le_value_ext. intros j Hj. rewrite <- !N.add_assoc. apply H. lia.
    - apply region_bytes_sim. split; [reflexivity|]. cbn [r_off r_len]. intros j Hj. rewrite <- !N.add_assoc. apply H. lia.
  Qed.
  Lemma pgo_iter_ext o1 o2 ln : (forall j, j < ln -> gF (o1 + j) = gV (o2 + j)) ->
    res_map (pgo_vals gF) (Dirs.pgo_iter gF {| r_off := o1; r_len := ln |}) =
    res_map (pgo_vals gV) (Dirs.pgo_iter gV {| r_off := o2; r_len := ln |}).
  Proof.
    intros H. unfold Dirs.pgo_iter. cbn [r_off r_len]. destruct (1 <=? ln / 4) eqn:E.
    - apply pgo_items_ext. intros j Hj. rewrite <- !N.add_assoc. apply H. lia.
    - apply pgo_items_ext. intros j Hj. apply H. lia.
  Qed.
  Lemma cstr_from_bytes_ext o1 o2 ln : (forall j, j < ln -> gF (o1 + j) = gV (o2 + j)) ->
    match Dirs.cstr_from_bytes gF o1 ln, Dirs.cstr_from_bytes gV o2 ln with
    | Some n, Some n' => r_off n = o1 /\ r_off n' = o2 /\ r_len n' = r_len n /\ r_len n <= ln
    | None, None => True
    | _, _ => False
    end.
  Proof.
    intros H. unfold Dirs.cstr_from_bytes. rewrite <- (find_nul_ext gF gV (N.to_nat ln) o1 o2) by (intros j Hj; apply H; lia).
    destruct (find_nul gF o1 (N.to_nat ln)) as [i|] eqn:E; [|exact I]. apply find_nul_lt in E. cbn [r_off r_len]. repeat split; lia.
  Qed.

  Theorem debug_entry_sim d d' : alok 4 -> prd_va_congruent 4 secs (Dirs.dd_addr d) = true ->
    ddir_vals d' = ddir_vals d -> debug_entry_consistent gF soh secs d = true ->
    res_map (entry_vals gF) (Dirs.dir_entry vf d) = res_map (entry_vals gV) (Dirs.dir_entry vv d').
  Proof.
    intros Hal Hcg Hv Hc. destruct (debug_payload_sim d d' Hv Hc) as [DF [DV [_ RB]]]. cbn [r_off r_len] in RB.
    destruct (payload_agree d Hc) as [_ [_ [_ [_ [Pcg _]]]]]. specialize (Pcg 4 Hcg ltac:(discriminate)).
    assert (Hty : Dirs.dd_type d' = Dirs.dd_type d) by (unfold ddir_vals in Hv; congruence).
    assert (Ha : aligned_to 4 (addrV + Dirs.dd_addr d) = aligned_to 4 (addrF + Dirs.dd_ptr d)).
    { unfold align_compat in Hal. apply andb_true_iff in Hal. destruct Hal as [_ Hal]. apply N.eqb_eq in Hal.
      unfold aligned_to. f_equal. lia. }
    assert (Hle : forall o n, o + N.of_nat n <= Dirs.dd_size d ->
              le_value gF (Dirs.dd_ptr d + o) n = le_value gV (Dirs.dd_addr d + o) n).
    { intros o n Ho. apply le_value_ext. intros j Hj. rewrite <- !N.add_assoc. apply RB. lia. }
    assert (Hby : forall o n, o + n <= Dirs.dd_size d -> bytes_at gF (Dirs.dd_ptr d + o) n = bytes_at gV (Dirs.dd_addr d + o) n).
    { intros o n Ho. unfold bytes_at. apply region_bytes_sim. split; [reflexivity|]. cbn [r_off r_len]. intros j Hj.
      rewrite <- !N.add_assoc. apply RB. lia. }
    unfold Dirs.dir_entry. rewrite Hty.
    destruct (Dirs.dd_type d =? 2); [|destruct (Dirs.dd_type d =? 4); [|destruct (Dirs.dd_type d =? 13)]].
    - (* CodeView *)
      unfold Dirs.code_view. rewrite DF, DV. cbn [r_off r_len file_view mapped_view v_addr v_get]. rewrite Ha.
      destruct (Dirs.dd_size d <? 16) eqn:E16; [reflexivity|]. destruct (negb _); [reflexivity|].
      unfold Dirs.u32at. rewrite <- (N.add_0_r (Dirs.dd_ptr d)), <- (N.add_0_r (Dirs.dd_addr d)).
      rewrite (Hle 0 4%nat) by lia. rewrite !N.add_0_r.
      destruct (le_value gV (Dirs.dd_addr d) 4 =? Dirs.SIG_NB10).
      + pose proof (cstr_from_bytes_ext (Dirs.dd_ptr d + 16) (Dirs.dd_addr d + 16) (Dirs.dd_size d - 16)) as X.
        specialize (X ltac:(intros j Hj; rewrite <- !N.add_assoc; apply RB; lia)).
        destruct (Dirs.cstr_from_bytes gF _ _) as [n|]; destruct (Dirs.cstr_from_bytes gV _ _) as [n'|]; try contradiction; [|reflexivity].
        destruct X as [X1 [X2 [X3 X4]]]. cbn [res_map entry_vals]. f_equal. f_equal.
        * rewrite <- (N.add_0_r (Dirs.dd_ptr d)), <- (N.add_0_r (Dirs.dd_addr d)). apply Hby. lia.
        * apply region_bytes_sim. split; [exact X3|]. intros j Hj. rewrite X1, X2, <- !N.add_assoc. apply RB. lia.
      + destruct (le_value gV (Dirs.dd_addr d) 4 =? Dirs.SIG_RSDS); [|reflexivity].
        destruct (Dirs.dd_size d <? 24) eqn:E24; [reflexivity|].
        pose proof (cstr_from_bytes_ext (Dirs.dd_ptr d + 24) (Dirs.dd_addr d + 24) (Dirs.dd_size d - 24)) as X.
        specialize (X ltac:(intros j Hj; rewrite <- !N.add_assoc; apply RB; lia)).
        destruct (Dirs.cstr_from_bytes gF _ _) as [n|]; destruct (Dirs.cstr_from_bytes gV _ _) as [n'|]; try contradiction; [|reflexivity].
        destruct X as [X1 [X2 [X3 X4]]]. cbn [res_map entry_vals]. f_equal. f_equal.
        * rewrite <- (N.add_0_r (Dirs.dd_ptr d)), <- (N.add_0_r (Dirs.dd_addr d)). apply Hby. lia.
        * apply region_bytes_sim. split; [exact X3|]. intros j Hj. rewrite X1, X2, <- !N.add_assoc. apply RB. lia.
    - (* MISC *)
      unfold Dirs.dbg_entry. rewrite DF, DV. cbn [r_off r_len file_view mapped_view v_addr]. rewrite Ha.
      destruct (Dirs.dd_size d <? 12) eqn:E12; [reflexivity|]. destruct (negb _); [reflexivity|].
      cbn [res_map entry_vals]. f_equal. f_equal.
      rewrite <- (N.add_0_r (Dirs.dd_ptr d)), <- (N.add_0_r (Dirs.dd_addr d)). apply Hby. lia.
    - (* POGO *)
      unfold Dirs.pgo_entry. rewrite DF, DV. cbn [r_off r_len file_view mapped_view v_addr]. rewrite Ha.
      destruct (Dirs.dd_size d <? 4) eqn:E4; [reflexivity|]. destruct (negb _); [reflexivity|].
      cbn [res_map entry_vals]. f_equal. f_equal.
      + apply region_bytes_sim. split; [reflexivity|]. cbn [r_off r_len]. intros j Hj. apply RB. lia.
      + apply pgo_iter_ext. intros j Hj. apply RB. lia.
    - rewrite DF, DV. cbn [res_map entry_vals option_map]. f_equal. f_equal. f_equal.
      apply region_bytes_sim. split; [reflexivity|]. exact RB.
  Qed.

  (* the whole directory: Debug::iter().map(Dir::entry), and pdb_file_name *)
  Theorem debug_entries_sim : alok 4 -> forall ds ds', map ddir_vals ds' = map ddir_vals ds ->
    forallb (fun d => debug_entry_consistent gF soh secs d && prd_va_congruent 4 secs (Dirs.dd_addr d)) ds = true ->
    map (fun d => res_map (entry_vals gF) (Dirs.dir_entry vf d)) ds = map (fun d => res_map (entry_vals gV) (Dirs.dir_entry vv d)) ds' /\
    option_map (region_bytes gF) (Dirs.pdb_file_name vf ds) = option_map (region_bytes gV) (Dirs.pdb_file_name vv ds').
  Proof.
    intros Hal. induction ds as [|d ds IH]; intros ds' Hm Hall; destruct ds' as [|d' ds']; try discriminate; [split; reflexivity|].
    cbn [map] in Hm. assert (Hd : ddir_vals d' = ddir_vals d) by congruence.
    assert (Hm' : map ddir_vals ds' = map ddir_vals ds) by congruence. clear Hm. rename Hm' into Hm. cbn [forallb] in Hall. rewrite !andb_true_iff in Hall. destruct Hall as [[Hc Hcg] Hall].
    destruct (IH ds' Hm Hall) as [IH1 IH2]. pose proof (debug_entry_sim d d' Hal Hcg Hd Hc) as He.
    split; [cbn [map]; rewrite He, IH1; reflexivity|].
    cbn [Dirs.pdb_file_name].
    destruct (Dirs.dir_entry vf d) as [e|x|ft]; destruct (Dirs.dir_entry vv d') as [e'|x'|ft']; cbn [res_map] in He; try discriminate; try exact IH2.
    injection He as He. destruct e; destruct e'; cbn [entry_vals] in He; try discriminate; try exact IH2;
      apply (f_equal (fun v => match v with VCv20 _ n | VCv70 _ n => n | _ => [] end)) in He; cbn [option_map]; rewrite He; reflexivity.
  Qed.

  (* ---------------------------------------------------------------- (a) the converse: which view slices a file serves *)
  Lemma align_compat_sym al : alok al -> align_compat al addrV addrF = true.
  Proof. unfold align_compat. rewrite !andb_true_iff, !N.eqb_eq. intros [A B]. split; [exact A|symmetry; exact B]. Qed.

  Theorem slice_iff rva ms al : alok al -> prd_va_congruent al secs rva = true ->
    ((exists rf, slice vf rva ms al = Ok rf) <-> ((exists rv, slice vv rva ms al = Ok rv) /\ stored_at secs rva ms = true)).
  Proof.
    intros Hal Hcg. pose proof Hset as [Hs [H1 [H2 [Hwf HV]]]]. destruct (wf_inv _ _ _ _ Hwf) as [Hsoi [Hb _]].
    destruct (to_view_wf img soh soi secs V Hs H1 H2 Hwf HV) as [Hl _].
    split.
    - intros [rf E]. destruct (sl_sim img V soh soi secs Hset addrF addrV w base RvaPath rva ms al rf Hal E) as [rv [A _]].
      split; [exists rv; exact A|].
      destruct (sl_file_inv img V soh soi secs Hset addrF w base RvaPath _ _ _ _ E) as [_ [Hr _]]. cbn [rva_of] in Hr.
      pose proof (range_file_lt _ _ _ _ _ Hr) as Hlt. rewrite (range_file_correct _ _ _ _ Hs Hlt) in Hr.
      unfold stored_at. destruct (first_v secs rva) as [s0|]; [|discriminate].
      destruct ((W32 <=? s_prd s0 + s_srd s0) || (lenN img <? s_prd s0 + s_srd s0)); [discriminate|]. cbv zeta in Hr.
      destruct ((rva - s_va s0 <=? s_srd s0) && (ms <=? s_srd s0 - (rva - s_va s0))); [reflexivity|discriminate].
    - intros [[rv E] Hst]. unfold stored_at in Hst. destruct (first_v secs rva) as [s0|] eqn:Hf; [|discriminate].
      pose proof Hf as Hf'. unfold first_v in Hf'. apply find_some in Hf'. destruct Hf' as [Hin Hiv]. unfold in_virtual in Hiv.
      destruct (Hb s0 Hin) as [_ [_ [S3 S4]]]. assert (Hlt : rva < W32) by lia.
      unfold slice in *. cbn [file_view mapped_view v_file v_addr v_len v_secs] in *. unfold slice_section in E. unfold slice_file.
      destruct (rva =? 0); [discriminate|].
      destruct (aligned_to al (wadd64 addrV rva)) eqn:Ea; cbn [negb] in E; [|discriminate].
      pose proof (align_compat_transfer al addrV addrF rva (align_compat_sym al Hal) Ea) as EaF. rewrite EaF. cbn [negb].
      rewrite (range_file_correct _ _ _ _ Hs Hlt), Hf.
      destruct ((W32 <=? s_prd s0 + s_srd s0) || (lenN img <? s_prd s0 + s_srd s0)) eqn:E3; [lia|]. cbv zeta. rewrite Hst. cbn [bind r_off].
      assert (Hal2 : aligned_to al (addrF + (s_prd s0 + (rva - s_va s0))) = true).
      { unfold prd_va_congruent in Hcg. rewrite Hf in Hcg. apply N.eqb_eq in Hcg.
        unfold align_compat in Hal. apply andb_true_iff in Hal. destruct Hal as [Hd _]. apply N.eqb_eq in Hd.
        assert (Hal0 : al <> 0). { intros ->. vm_compute in Hd. discriminate. }
        assert (Hq : W64 = al * (W64 / al)) by (apply N.div_exact; assumption).
        assert (Hq0 : W64 / al <> 0). { intros X. rewrite X, N.mul_0_r in Hq. vm_compute in Hq. discriminate. }
        unfold aligned_to, wadd64 in *. apply N.eqb_eq in EaF. apply N.eqb_eq.
        rewrite Hq in EaF. rewrite mod_mod_divide in EaF by assumption.
        rewrite N.add_mod by exact Hal0. rewrite (N.add_mod (s_prd s0)) by exact Hal0. rewrite Hcg.
        rewrite <- (N.add_mod (s_va s0)) by exact Hal0. rewrite <- N.add_mod by exact Hal0.
        replace (s_va s0 + (rva - s_va s0)) with rva by lia. exact EaF. }
      rewrite Hal2. cbn [negb]. eexists. reflexivity.
  Qed.
End More.

(* ================================================================ witnesses and non-vacuity *)
Definition vw_V (img : list N) (soh soi : N) (secs : list section) : list N :=
  match to_view img soh soi secs with Ok v => v | _ => [] end.
Ltac setting_by_compute :=
  unfold conv_setting; split; [repeat constructor; vm_compute; reflexivity|]; repeat split; vm_compute; try reflexivity; discriminate.

(* ---- (b) a resource section with one data entry: root directory, one ID entry (16), a data entry, 4 bytes ---- *)
Definition rx_secs : list section := [ {| s_va := 8; s_vs := 44; s_prd := 4; s_srd := 44 |} ].
Definition rx_img : list N :=
  [77; 90; 0; 0] ++
  [0;0;0;0; 0;0;0;0; 0;0;0;0; 0;0; 1;0] ++            (* IMAGE_RESOURCE_DIRECTORY: 0 named, 1 id entry *)
  [16;0;0;0; 24;0;0;0] ++                             (* entry: id 16 -> data entry at offset 24 *)
  [48;0;0;0; 4;0;0;0; 0;0;0;0; 0;0;0;0] ++            (* data entry: OffsetToData = RVA 48, Size 4 *)
  [1;2;3;4].
Definition rx_V : list N := vw_V rx_img 4 52 rx_secs.
Lemma resources_nonvacuous :
  conv_setting rx_img 4 52 rx_secs rx_V /\ raw_tail_not_mapped (byte_at rx_img) rx_secs = false /\
  align_compat 4 0 0 = true /\ prd_va_congruent 4 rx_secs 8 = true /\
  exists s, view_resources (file_view 0 W32 4194304 4 52 rx_secs rx_img) (Some (8, 44)) = Ok s /\ Resources.rs_len s = 44 /\
    Resources.fsck s = Ok tt /\
    fst (Resources.walk 3 s 0 0 10) =
      [Resources.WItem {| Resources.i_lvl := 0; Resources.i_eoff := 16; Resources.i_named := false; Resources.i_name := Ok (Resources.NId 16);
                          Resources.i_isdir := false;
                          Resources.i_tgt := Resources.TData 24 (Ok {| r_off := 40; r_len := 4 |}) 4 0 |}] /\
    Resources.sec_bytes s 40 4 = [1; 2; 3; 4].
Proof.
  split; [setting_by_compute|]. split; [vm_compute; reflexivity|]. split; [vm_compute; reflexivity|]. split; [vm_compute; reflexivity|].
  eexists. split; [vm_compute; reflexivity|]. repeat split; vm_compute; reflexivity.
Qed.

(* the two hypotheses are necessary.  (1) Size reaches into the virtual-only tail: the file view clamps the section to the
   stored bytes, the mapped view does not - a root directory stored by halves is rejected on the file and accepted on the view *)
Definition rl_secs : list section := [ {| s_va := 8; s_vs := 16; s_prd := 4; s_srd := 8 |} ].
Definition rl_img : list N := [77; 90; 0; 0] ++ zeros 8.
Definition rl_V : list N := vw_V rl_img 4 24 rl_secs.
Lemma resources_len_needed :
  conv_setting rl_img 4 24 rl_secs rl_V /\ raw_tail_not_mapped (byte_at rl_img) rl_secs = false /\
  align_compat 4 0 0 = true /\ prd_va_congruent 4 rl_secs 8 = true /\
  exists s s', view_resources (file_view 0 W32 4194304 4 24 rl_secs rl_img) (Some (8, 16)) = Ok s /\
    view_resources (mapped_view 0 W32 4194304 4 24 rl_secs rl_V) (Some (8, 16)) = Ok s' /\
    Resources.rs_len s = 8 /\ Resources.rs_len s' = 16 /\ Resources.fsck s = Err EBounds /\ Resources.fsck s' = Ok tt.
Proof.
  split; [setting_by_compute|]. split; [vm_compute; reflexivity|]. split; [vm_compute; reflexivity|]. split; [vm_compute; reflexivity|].
  eexists. eexists. split; [vm_compute; reflexivity|]. split; [vm_compute; reflexivity|]. repeat split; vm_compute; reflexivity.
Qed.
(* (2) PointerToRawData not congruent to VirtualAddress modulo 4: the directory is misaligned in the file buffer only *)
Definition rc_secs : list section := [ {| s_va := 8; s_vs := 16; s_prd := 6; s_srd := 16 |} ].
Definition rc_img : list N := [77; 90; 0; 0; 0; 0] ++ zeros 16.
Definition rc_V : list N := vw_V rc_img 6 24 rc_secs.
Lemma resources_congruence_needed :
  conv_setting rc_img 6 24 rc_secs rc_V /\ raw_tail_not_mapped (byte_at rc_img) rc_secs = false /\
  align_compat 4 0 0 = true /\ prd_va_congruent 4 rc_secs 8 = false /\
  exists s s', view_resources (file_view 0 W32 4194304 6 24 rc_secs rc_img) (Some (8, 16)) = Ok s /\
    view_resources (mapped_view 0 W32 4194304 6 24 rc_secs rc_V) (Some (8, 16)) = Ok s' /\
    Resources.rs_len s = 16 /\ Resources.rs_len s' = 16 /\ Resources.fsck s = Err EMisaligned /\ Resources.fsck s' = Ok tt.
Proof.
  split; [setting_by_compute|]. split; [vm_compute; reflexivity|]. split; [vm_compute; reflexivity|]. split; [vm_compute; reflexivity|].
  eexists. eexists. split; [vm_compute; reflexivity|]. split; [vm_compute; reflexivity|]. repeat split; vm_compute; reflexivity.
Qed.

(* ---- (c) debug: a consistent CodeView (RSDS) entry ---- *)
Definition dbx_secs : list section := [ {| s_va := 8; s_vs := 28; s_prd := 4; s_srd := 28 |} ].
Definition dbx_img : list N :=
  [77; 90; 0; 0] ++ [82; 83; 68; 83] ++ [1;2;3;4;5;6;7;8;9;10;11;12;13;14;15;16] ++ [1;0;0;0] ++ [97; 0; 0; 0].
Definition dbx_V : list N := vw_V dbx_img 4 36 dbx_secs.
Definition dbx_d : Dirs.ddir := {| Dirs.dd_off := 0; Dirs.dd_time := 0; Dirs.dd_type := 2; Dirs.dd_size := 28; Dirs.dd_addr := 8; Dirs.dd_ptr := 4 |}.
Lemma debug_nonvacuous :
  conv_setting dbx_img 4 36 dbx_secs dbx_V /\ align_compat 4 0 0 = true /\ prd_va_congruent 4 dbx_secs 8 = true /\
  debug_entry_consistent (byte_at dbx_img) 4 dbx_secs dbx_d = true /\
  res_map (entry_vals (byte_at dbx_img)) (Dirs.dir_entry (file_view 0 W32 4194304 4 36 dbx_secs dbx_img) dbx_d) =
    Ok (VCv70 ([82; 83; 68; 83] ++ [1;2;3;4;5;6;7;8;9;10;11;12;13;14;15;16] ++ [1;0;0;0]) [97; 0]) /\
  res_map (entry_vals (byte_at dbx_V)) (Dirs.dir_entry (mapped_view 0 W32 4194304 4 36 dbx_secs dbx_V) dbx_d) =
    Ok (VCv70 ([82; 83; 68; 83] ++ [1;2;3;4;5;6;7;8;9;10;11;12;13;14;15;16] ++ [1;0;0;0]) [97; 0]).
Proof. split; [setting_by_compute|]. repeat split; vm_compute; reflexivity. Qed.

(* the hypothesis is necessary: a payload in the overlay (behind every section) - the file has it; a mapped view has
   nothing at AddressOfRawData = PointerToRawData (beyond SizeOfImage), and the HEADERS at AddressOfRawData = 0 *)
Definition dbw_secs : list section := [ {| s_va := 8; s_vs := 4; s_prd := 4; s_srd := 4 |} ].
Definition dbw_img : list N := [77; 90; 0; 0] ++ [1; 1; 1; 1] ++ [7; 7; 7; 7].
Definition dbw_V : list N := vw_V dbw_img 4 12 dbw_secs.
Definition dbw_d (addr : N) : Dirs.ddir := {| Dirs.dd_off := 0; Dirs.dd_time := 0; Dirs.dd_type := 0; Dirs.dd_size := 4; Dirs.dd_addr := addr; Dirs.dd_ptr := 8 |}.
Lemma debug_consistent_needed :
  conv_setting dbw_img 4 12 dbw_secs dbw_V /\ raw_tail_not_mapped (byte_at dbw_img) dbw_secs = false /\
  debug_entry_consistent (byte_at dbw_img) 4 dbw_secs (dbw_d 16) = false /\
  debug_entry_consistent (byte_at dbw_img) 4 dbw_secs (dbw_d 0) = false /\
  option_map (region_bytes (byte_at dbw_img)) (Dirs.dir_data (file_view 0 W32 4194304 4 12 dbw_secs dbw_img) (dbw_d 16)) = Some [7; 7; 7; 7] /\
  Dirs.dir_data (mapped_view 0 W32 4194304 4 12 dbw_secs dbw_V) (dbw_d 16) = None /\
  option_map (region_bytes (byte_at dbw_V)) (Dirs.dir_data (mapped_view 0 W32 4194304 4 12 dbw_secs dbw_V) (dbw_d 0)) = Some [77; 90; 0; 0].
Proof. split; [setting_by_compute|]. repeat split; vm_compute; reflexivity. Qed.

(* ---- (d) exports: an image whose first name RVA [r1] lies in the virtual-only zero tail of the section (r1 = 86:
        unreadable on the file, the empty string on the view) or in the stored bytes (r1 = 78) ---- *)
Definition nl_secs : list section := [ {| s_va := 16; s_vs := 80; s_prd := 4; s_srd := 64 |} ].
Definition nl_img (r1 : N) : list N :=
  [77; 90; 0; 0] ++
  [0;0;0;0; 0;0;0;0; 0;0;0;0; 0;0;0;0; 1;0;0;0; 2;0;0;0; 2;0;0;0; 56;0;0;0; 64;0;0;0; 72;0;0;0] ++   (* IMAGE_EXPORT_DIRECTORY *)
  [232;3;0;0; 208;7;0;0] ++          (* functions: 1000, 2000 *)
  [r1;0;0;0; 76;0;0;0] ++            (* names: r1, 76 *)
  [0;0; 1;0] ++                      (* name ordinals: 0, 1 *)
  [0;0;0;0].                         (* RVA 76: the empty string *)
Definition nl_V (r1 : N) : list N := vw_V (nl_img r1) 4 96 nl_secs.
Definition nl_vf (r1 : N) : view := file_view 0 W32 4194304 4 96 nl_secs (nl_img r1).
Definition nl_vv (r1 : N) : view := mapped_view 0 W32 4194304 4 96 nl_secs (nl_V r1).
Lemma name_linear_image_witness :
  conv_setting (nl_img 86) 4 96 nl_secs (nl_V 86) /\ raw_tail_not_mapped (byte_at (nl_img 86)) nl_secs = false /\
  align_compat 4 0 0 = true /\
  Exports.view_by (nl_vf 86) (Some (16, 40)) = Ok nl_t /\ Exports.view_by (nl_vv 86) (Some (16, 40)) = Ok nl_t /\
  names_readable (Exports.view_cstr (nl_vf 86)) nl_t = false /\
  Exports.name_linear (Exports.view_cstr (nl_vf 86)) nl_t [] = Ok (Exports.Symbol 2000) /\
  Exports.name_linear (Exports.view_cstr (nl_vv 86)) nl_t [] = Ok (Exports.Symbol 1000).
Proof. split; [setting_by_compute|]. repeat split; vm_compute; reflexivity. Qed.
Lemma import_nonvacuous :
  exists t, Exports.view_by (nl_vf 78) (Some (16, 40)) = Ok t /\
    import_readable (Exports.view_cstr (nl_vf 78)) t (Exports.ByName 0 []) = true /\
    Exports.get_export_import (nl_vf 78) (Some (16, 40)) (Exports.ByName 0 []) = Ok (Exports.Symbol 1000).
Proof. eexists. repeat split; vm_compute; reflexivity. Qed.
Lemma name_linear_nonvacuous :
  conv_setting (nl_img 78) 4 96 nl_secs (nl_V 78) /\ raw_tail_not_mapped (byte_at (nl_img 78)) nl_secs = false /\
  align_compat 4 0 0 = true /\
  exists t, Exports.view_by (nl_vf 78) (Some (16, 40)) = Ok t /\ names_readable (Exports.view_cstr (nl_vf 78)) t = true /\
    Exports.name_linear (Exports.view_cstr (nl_vf 78)) t [] = Ok (Exports.Symbol 1000) /\
    Exports.iter (Exports.view_cstr (nl_vf 78)) t = [Ok (Exports.Symbol 1000); Ok (Exports.Symbol 2000)] /\
    Exports.check_sorted (Exports.view_cstr (nl_vf 78)) t = Ok true.
Proof. split; [setting_by_compute|]. split; [vm_compute; reflexivity|]. split; [vm_compute; reflexivity|]. eexists. repeat split; vm_compute; reflexivity. Qed.

(* ---- (d) exception: one RUNTIME_FUNCTION whose UNWIND_INFO has one code slot ---- *)
Definition uw_secs : list section := [ {| s_va := 8; s_vs := 8; s_prd := 4; s_srd := 8 |} ].
Definition uw_img : list N := [77; 90; 0; 0] ++ [1; 0; 1; 0; 5; 6; 0; 0].
Definition uw_V : list N := vw_V uw_img 4 16 uw_secs.
Definition uw_f : Dirs.rfun := {| Dirs.rf_begin := 8; Dirs.rf_end := 12; Dirs.rf_unwind := 8 |}.
Lemma unwind_nonvacuous :
  conv_setting uw_img 4 16 uw_secs uw_V /\ raw_tail_not_mapped (byte_at uw_img) uw_secs = false /\
  Dirs.unwind_info (file_view 0 W32 4194304 4 16 uw_secs uw_img) uw_f = Ok {| r_off := 4; r_len := 6 |} /\
  Dirs.function_bytes (file_view 0 W32 4194304 4 16 uw_secs uw_img) uw_f = Ok {| r_off := 4; r_len := 4 |} /\
  Dirs.unwind_info (mapped_view 0 W32 4194304 4 16 uw_secs uw_V) uw_f = Ok {| r_off := 8; r_len := 6 |} /\
  unwind_vals (byte_at uw_img) {| r_off := 4; r_len := 6 |} = (1, 0, 0, 1, 0, 0, [5; 6]).
Proof. split; [setting_by_compute|]. repeat split; vm_compute; reflexivity. Qed.

(* ---- (a) the converse: the view serves an RVA in the virtual-only tail, the file does not - and stored_at says so ---- *)
Lemma slice_converse_nonvacuous :
  stored_at nl_secs 76 4 = true /\ stored_at nl_secs 86 0 = false /\
  slice (nl_vf 86) 76 4 4 = Ok {| r_off := 64; r_len := 4 |} /\ slice (nl_vv 86) 76 4 4 = Ok {| r_off := 76; r_len := 20 |} /\
  slice (nl_vf 86) 86 0 1 = Err EZeroFill /\ slice (nl_vv 86) 86 0 1 = Ok {| r_off := 86; r_len := 10 |}.
Proof. repeat split; vm_compute; reflexivity. Qed.
