(* C13, (3): value(lang, key), strings(lang) and file_info() as functions of the reported events.
   These visitors skip the tables of other languages (and QueryValue every block but StringFileInfo), so each
   needs a pruning argument over [pvisit]: what the pruned walk computes is the fold of the string callback over
   the strings the *complete* report contains for that language. *)
From PV.Model Require Import Machine VersionInfo.
From PV.Spec Require Import TlvEnc.
From PV.Proofs Require Import BaseProofs VersionInfoProofs.
Ltac Zify.zify_post_hook ::= Z.div_mod_to_equations.

(* ------------------------------------------------------------------ the strings of one language, read off the item lists *)
Definition kv (t : tlv) : list N * list N := (t_key t, strip_nul (t_value t)).
Definition tab_sel (lang : N * N) (tb : tlv) : list (list N * list N) :=
  if lang_matches lang (t_key tb) then map kv (items VWords (t_children tb)) else [].
Definition file_sel (lang : N * N) (f : tlv) : list (list N * list N) :=
  if list_eqb (t_key f) StringFileInfo then flat_map (tab_sel lang) (items VZero (t_children f)) else [].
Definition sel_strings (lang : N * N) (ws : list N) : list (list N * list N) :=
  match items VBytes ws with [] => [] | t :: _ => flat_map (file_sel lang) (items VZero (t_children t)) end.

(* [strings_in] over the structure of the report; the [cur] flag is always set by the EvTable that opens a table *)
Fixpoint cur_of (lang : N * N) (cur : bool) (evs : list event) : bool :=
  match evs with
  | [] => cur
  | EvTable l :: r => cur_of lang (lang_matches lang l) r
  | _ :: r => cur_of lang cur r
  end.
Lemma strings_in_app lang a : forall cur b,
  strings_in lang cur (a ++ b) = strings_in lang cur a ++ strings_in lang (cur_of lang cur a) b.
Proof.
  induction a as [|e a IH]; intros cur b; [reflexivity|].
  destruct e; cbn [app strings_in cur_of]; try apply IH. destruct cur; cbn [app]; [f_equal|]; apply IH.
Qed.
Lemma si_strings lang cur l : strings_in lang cur (map ev_string l) = if cur then map kv l else [].
Proof.
  induction l as [|t l IH]; [destruct cur; reflexivity|]. cbn [map ev_string strings_in]. fold (ev_string).
  destruct cur; [cbn [map]; f_equal|]; exact IH.
Qed.
Lemma si_table lang cur t : strings_in lang cur (ev_table t) = tab_sel lang t.
Proof.
  unfold ev_table, tab_sel. cbn [app strings_in]. rewrite strings_in_app, si_strings. cbn [strings_in].
  rewrite app_nil_r. reflexivity.
Qed.
Lemma si_tables lang l : forall cur, strings_in lang cur (flat_map ev_table l) = flat_map (tab_sel lang) l.
Proof.
  induction l as [|t l IH]; intros cur; [reflexivity|]. cbn [flat_map]. rewrite strings_in_app, si_table, IH. reflexivity.
Qed.
Lemma si_vars lang cur l : strings_in lang cur (map ev_var l) = [].
Proof. induction l as [|t l IH]; [reflexivity|]. cbn [map ev_var strings_in]. exact IH. Qed.
Lemma si_file lang cur t : strings_in lang cur (ev_file t) = file_sel lang t.
Proof.
  unfold ev_file, file_sel. cbn [app strings_in]. rewrite strings_in_app.
  replace (strings_in lang _ [EvExit 1]) with (@nil (list N * list N)) by reflexivity. rewrite app_nil_r.
  destruct (list_eqb (t_key t) StringFileInfo); [apply si_tables|].
  destruct (list_eqb (t_key t) VarFileInfo); [apply si_vars|reflexivity].
Qed.
Lemma si_files lang l : forall cur, strings_in lang cur (flat_map ev_file l) = flat_map (file_sel lang) l.
Proof.
  induction l as [|t l IH]; intros cur; [reflexivity|]. cbn [flat_map]. rewrite strings_in_app, si_file, IH. reflexivity.
Qed.
Lemma si_all lang cur ws : strings_in lang cur (all_events ws) = sel_strings lang ws.
Proof.
  unfold all_events, sel_strings. destruct (items VBytes ws) as [|t l]; [reflexivity|].
  unfold ev_version. cbn [app strings_in]. rewrite strings_in_app, si_files. cbn [strings_in]. apply app_nil_r.
Qed.

(* ------------------------------------------------------------------ a visitor that selects the strings of one language *)
Definition SelV {St} (lang : N * N) (fb : list N -> bool) (h : St -> list N -> list N -> St) : visitor St :=
  {| v_version_info := fun s _ _ => (s, true); v_file_info := fun s k => (s, fb k);
     v_string_table := fun s l => (s, lang_matches lang l); v_string := h;
     v_var := fun s _ _ => s; v_enter := fun s _ => s; v_exit := fun s _ => s |}.
Definition hfold {St} (h : St -> list N -> list N -> St) (l : list (list N * list N)) (s : St) : St :=
  fold_left (fun s p => h s (fst p) (snd p)) l s.

Section Sel.
  Context {St : Type} (lang : N * N) (fb : list N -> bool) (h : St -> list N -> list N -> St).
  Hypothesis Hfb : fb StringFileInfo = true.
  Let V := SelV lang fb h.

  Lemma sv_strings l : forall s, fold_until (p_string V) l s = hfold h (map kv l) s.
  Proof. induction l as [|t l IH]; intros s; [reflexivity|]. cbn [fold_until p_string snd fst map]. unfold hfold. cbn [fold_left]. apply IH. Qed.
  Lemma sv_table t s : p_table V s t = (hfold h (tab_sel lang t) s, false).
  Proof.
    unfold p_table, tab_sel. cbn [V SelV v_string_table v_enter v_exit fst snd].
    destruct (lang_matches lang (t_key t)); cbn [negb]; [rewrite sv_strings|]; reflexivity.
  Qed.
  Lemma sv_tables l : forall s, fold_until (p_table V) l s = hfold h (flat_map (tab_sel lang) l) s.
  Proof.
    induction l as [|t l IH]; intros s; [reflexivity|]. cbn [fold_until flat_map]. rewrite sv_table. cbn [fst snd].
    unfold hfold. rewrite fold_left_app. apply IH.
  Qed.
  Lemma sv_vars l : forall s, fold_until (p_var V) l s = s.
  Proof. induction l as [|t l IH]; intros s; [reflexivity|]. cbn [fold_until p_var snd fst]. apply IH. Qed.
  Lemma sv_file t s : p_file V s t = (hfold h (file_sel lang t) s, false).
  Proof.
    unfold p_file, file_sel. cbn [V SelV v_file_info v_enter v_exit fst snd]. fold V.
    destruct (list_eqb (t_key t) StringFileInfo) eqn:E.
    - apply list_eqb_eq in E. rewrite E, Hfb. cbn [negb]. rewrite sv_tables. reflexivity.
    - destruct (fb (t_key t)); cbn [negb]; [|reflexivity].
      destruct (list_eqb (t_key t) VarFileInfo); [rewrite sv_vars|]; reflexivity.
  Qed.
  Lemma sv_files l : forall s, fold_until (p_file V) l s = hfold h (flat_map (file_sel lang) l) s.
  Proof.
    induction l as [|t l IH]; intros s; [reflexivity|]. cbn [fold_until flat_map]. rewrite sv_file. cbn [fst snd].
    unfold hfold. rewrite fold_left_app. apply IH.
  Qed.
  Lemma sv_visit ws s : pvisit V ws s = hfold h (sel_strings lang ws) s.
  Proof.
    unfold pvisit, sel_strings. destruct (items VBytes ws) as [|t l]; [reflexivity|]. cbn [fold_until].
    unfold p_version. cbn [V SelV v_version_info v_enter v_exit fst snd negb]. fold V. apply sv_files.
  Qed.
End Sel.

(* ---- value() ---- *)
Definition hvalue (key : list N) (s : option (list N)) (k v : list N) : option (list N) :=
  if str_eq_utf16 key k then Some (lossy v) else s.
Lemma hvalue_fold key l : forall acc,
  hfold (hvalue key) l (option_map lossy acc) = option_map lossy (last_value str_eq_utf16 key acc l).
Proof.
  induction l as [|[k v] l IH]; intros acc; [reflexivity|]. unfold hfold. cbn [fold_left last_value fst snd].
  unfold hvalue at 2. destruct (str_eq_utf16 key k); [apply (IH (Some v))|apply IH].
Qed.
Lemma value_events lang key ws : pvisit (QueryValue lang key) ws None = spec_value lang key (all_events ws).
Proof.
  change (QueryValue lang key) with (SelV lang (fun k => list_eqb k StringFileInfo) (hvalue key)).
  rewrite sv_visit by reflexivity. unfold spec_value. rewrite si_all. apply (hvalue_fold key _ None).
Qed.

(* ---- strings() ---- *)
Definition lossyp (p : list N * list N) : list N * list N := (lossy (fst p), lossy (snd p)).
Definition hstrings (s : list (list N * list N)) (k v : list N) := s ++ [(lossy k, lossy v)].
Lemma hstrings_fold l : forall s, hfold hstrings l s = s ++ map lossyp l.
Proof.
  unfold hfold. induction l as [|p l IH]; intros s; [rewrite app_nil_r; reflexivity|]. cbn [fold_left map].
  rewrite IH. unfold hstrings. rewrite <- app_assoc. reflexivity.
Qed.
Lemma strings_events lang ws : pvisit (QueryStrings lang) ws [] = spec_strings lang (all_events ws).
Proof.
  change (QueryStrings lang) with (SelV lang (fun _ => true) hstrings).
  rewrite sv_visit by reflexivity. unfold spec_strings. rewrite si_all. apply (hstrings_fold _ []).
Qed.

(* ------------------------------------------------------------------ association lists with a decidable key equality *)
Section AssocFacts.
  Context {K V : Type} (eqb : K -> K -> bool).
  Hypothesis eqb_spec : forall a b, eqb a b = true <-> a = b.

  Lemma eqb_refl a : eqb a a = true.
  Proof. apply eqb_spec. reflexivity. Qed.
  Lemma eqb_sym a b : eqb a b = eqb b a.
  Proof.
    destruct (eqb a b) eqn:E1, (eqb b a) eqn:E2; try reflexivity.
    - apply eqb_spec in E1. subst. rewrite eqb_refl in E2. discriminate.
    - apply eqb_spec in E2. subst. rewrite eqb_refl in E1. discriminate.
  Qed.

  Fixpoint uniq (m : list (K * V)) : Prop :=
    match m with [] => True | (k, _) :: r => hm_get eqb k r = None /\ uniq r end.

  Lemma hm_get_app k (a b : list (K * V)) :
    hm_get eqb k (a ++ b) = match hm_get eqb k a with Some x => Some x | None => hm_get eqb k b end.
  Proof. induction a as [|[k1 v1] a IH]; [reflexivity|]. cbn [app hm_get]. destruct (eqb k k1); [reflexivity|exact IH]. Qed.

  Lemma hm_get_insert k' k v (m : list (K * V)) :
    hm_get eqb k' (hm_insert eqb k v m) = if eqb k' k then Some v else hm_get eqb k' m.
  Proof.
    induction m as [|[k1 v1] m IH]; cbn [hm_insert hm_get]; [reflexivity|].
    destruct (eqb k k1) eqn:E; cbn [hm_get].
    - apply eqb_spec in E. subst k1. destruct (eqb k' k); reflexivity.
    - rewrite IH. destruct (eqb k' k1) eqn:E1; [|reflexivity].
      apply eqb_spec in E1. subst k1. rewrite eqb_sym, E. reflexivity.
  Qed.

  Lemma hm_get_or_default k' d k (m : list (K * V)) :
    hm_get eqb k' (hm_or_default eqb d k m) =
    match hm_get eqb k' m with Some x => Some x | None => if eqb k' k then Some d else None end.
  Proof.
    unfold hm_or_default. destruct (hm_get eqb k m) eqn:E.
    - destruct (hm_get eqb k' m) eqn:E1; [reflexivity|]. destruct (eqb k' k) eqn:E2; [|reflexivity].
      apply eqb_spec in E2. subst. congruence.
    - rewrite hm_get_app. cbn [hm_get]. reflexivity.
  Qed.

  Lemma in_get_some k v (m : list (K * V)) : In (k, v) m -> hm_get eqb k m <> None.
  Proof.
    induction m as [|[k1 v1] m IH]; [intros []|]. intros [H|H]; cbn [hm_get].
    - injection H as -> ->. rewrite eqb_refl. discriminate.
    - destruct (eqb k k1); [discriminate|apply IH; exact H].
  Qed.
  Lemma get_in k v (m : list (K * V)) : hm_get eqb k m = Some v -> In (k, v) m.
  Proof.
    induction m as [|[k1 v1] m IH]; [discriminate|]. cbn [hm_get]. destruct (eqb k k1) eqn:E.
    - apply eqb_spec in E. subst. intros H. injection H as ->. left. reflexivity.
    - intros H. right. apply IH. exact H.
  Qed.
  Lemma uniq_in_get k v (m : list (K * V)) : uniq m -> In (k, v) m -> hm_get eqb k m = Some v.
  Proof.
    induction m as [|[k1 v1] m IH]; [intros _ []|]. intros [Hn Hu] [H|H]; cbn [hm_get].
    - injection H as -> ->. rewrite eqb_refl. reflexivity.
    - destruct (eqb k k1) eqn:E; [|apply IH; assumption].
      apply eqb_spec in E. subst. elim (in_get_some _ _ _ H). exact Hn.
  Qed.
  Lemma uniq_insert k v (m : list (K * V)) : uniq m -> uniq (hm_insert eqb k v m).
  Proof.
    induction m as [|[k1 v1] m IH]; [intros _; cbn; split; [reflexivity|exact I]|]. intros [Hn Hu]. cbn [hm_insert].
    destruct (eqb k k1) eqn:E.
    - apply eqb_spec in E. subst. split; assumption.
    - split; [|apply IH; exact Hu]. rewrite hm_get_insert, eqb_sym, E. exact Hn.
  Qed.
  Lemma uniq_snoc k d (m : list (K * V)) : uniq m -> hm_get eqb k m = None -> uniq (m ++ [(k, d)]).
  Proof.
    induction m as [|[k1 v1] m IH]; [intros _ _; cbn; split; [reflexivity|exact I]|]. intros [Hn Hu]. cbn [hm_get app].
    destruct (eqb k k1) eqn:E; [discriminate|]. intros Hg. split; [|apply IH; assumption].
    rewrite hm_get_app, Hn. cbn [hm_get]. rewrite eqb_sym, E. reflexivity.
  Qed.
  Lemma uniq_or_default d k (m : list (K * V)) : uniq m -> uniq (hm_or_default eqb d k m).
  Proof. intros H. unfold hm_or_default. destruct (hm_get eqb k m) eqn:E; [exact H|apply uniq_snoc; assumption]. Qed.
  Lemma in_insert k v k' v' (m : list (K * V)) : In (k', v') (hm_insert eqb k v m) -> (k', v') = (k, v) \/ In (k', v') m.
  Proof.
    induction m as [|[k1 v1] m IH]; cbn [hm_insert]; [intros [H|[]]; left; symmetry; exact H|].
    destruct (eqb k k1).
    - intros [H|H]; [left; symmetry; exact H|right; right; exact H].
    - intros [H|H]; [right; left; exact H|]. destruct (IH H) as [X|X]; [left; exact X|right; right; exact X].
  Qed.
End AssocFacts.

Lemma list_eqb_spec a b : list_eqb a b = true <-> a = b.
Proof.
  split; [apply list_eqb_eq|]. intros <-. induction a as [|x a IH]; [reflexivity|]. cbn [list_eqb]. rewrite N.eqb_refl, IH. reflexivity.
Qed.
Lemma lang_eqb_spec a b : lang_eqb a b = true <-> a = b.
Proof.
  unfold lang_eqb. destruct a as [a1 a2], b as [b1 b2]. cbn [fst snd]. rewrite andb_true_iff, !N.eqb_eq.
  split; [intros [-> ->]; reflexivity|intros H; injection H as -> ->; split; reflexivity].
Qed.

(* ------------------------------------------------------------------ last_value *)
Lemma last_value_app eq key a : forall acc b,
  last_value eq key acc (a ++ b) = last_value eq key (last_value eq key acc a) b.
Proof. induction a as [|[k v] a IH]; intros acc b; [reflexivity|]. cbn [app last_value]. apply IH. Qed.
Lemma last_value_some eq key l : forall x, last_value eq key (Some x) l <> None.
Proof. induction l as [|[k v] l IH]; intros x; cbn [last_value]; [discriminate|]. destruct (eq key k); apply IH. Qed.
Lemma last_value_in k v l : forall acc, In (k, v) l -> last_value list_eqb k acc l <> None.
Proof.
  induction l as [|[k1 v1] l IH]; intros acc; [intros []|]. intros [H|H]; cbn [last_value].
  - injection H as -> ->. rewrite (proj2 (list_eqb_spec k k) eq_refl). apply last_value_some.
  - apply IH. exact H.
Qed.

(* ------------------------------------------------------------------ file_info(): the map it builds *)
Notation smap := (list ((N * N) * list (list N * list N))).
Definition ins1 (lg : N * N) (m : smap) (p : list N * list N) : smap :=
  match hm_get lang_eqb lg m with
  | Some e => hm_insert lang_eqb lg (hm_insert list_eqb (lossy (fst p)) (lossy (snd p)) e) m
  | None => m
  end.
Definition ins_all (lg : N * N) (strs : list (list N * list N)) (m : smap) : smap := fold_left (ins1 lg) strs m.
Definition fi_table (m : smap) (tb : tlv) : smap :=
  match lang_parse (t_key tb) with
  | Some lg => ins_all lg (map kv (items VWords (t_children tb))) (hm_or_default lang_eqb [] lg m)
  | None => m
  end.
Definition fi_file (m : smap) (f : tlv) : smap :=
  if list_eqb (t_key f) StringFileInfo then fold_left fi_table (items VZero (t_children f)) m else m.
Definition fi_map (ws : list N) : smap :=
  match items VBytes ws with [] => [] | t :: _ => fold_left fi_file (items VZero (t_children t)) [] end.

Definition FI := FileInfoV false.

Lemma fi_strs l : forall s, let s' := fold_until (p_string FI) l s in
  fi_fixed s' = fi_fixed s /\ fi_langs s' = fi_langs s /\ fi_lang s' = fi_lang s /\
  fi_strings s' = ins_all (fi_lang s) (map kv l) (fi_strings s).
Proof.
  induction l as [|t l IH]; intros s; [repeat split; reflexivity|]. cbn [fold_until p_string snd fst map].
  unfold ins_all. cbn [fold_left]. fold (ins_all (fi_lang s) (map kv l)).
  specialize (IH (v_string FI s (t_key t) (strip_nul (t_value t)))). cbn zeta in IH. destruct IH as (H1 & H2 & H3 & H4).
  rewrite H1, H2, H3, H4. clear.
  unfold ins1, kv. cbn [FI FileInfoV v_string fst snd].
  destruct (hm_get lang_eqb (fi_lang s) (fi_strings s)); repeat split; reflexivity.
Qed.
Lemma fi_tab t s : snd (p_table FI s t) = false /\ fi_fixed (fst (p_table FI s t)) = fi_fixed s /\
  fi_langs (fst (p_table FI s t)) = fi_langs s /\ fi_strings (fst (p_table FI s t)) = fi_table (fi_strings s) t.
Proof.
  unfold p_table, fi_table. cbn [FI FileInfoV v_string_table v_enter v_exit]. fold FI.
  destruct (lang_parse (t_key t)) as [lg|]; cbn [fst snd negb]; [|repeat split; reflexivity].
  match goal with |- context [fold_until (p_string FI) ?l ?s0] => destruct (fi_strs l s0) as (H1 & H2 & H3 & H4) end.
  cbn [fi_fixed fi_langs fi_lang fi_strings] in *. rewrite H1, H2, H4. repeat split; reflexivity.
Qed.
Lemma fi_tabs l : forall s, let s' := fold_until (p_table FI) l s in
  fi_fixed s' = fi_fixed s /\ fi_langs s' = fi_langs s /\ fi_strings s' = fold_left fi_table l (fi_strings s).
Proof.
  induction l as [|t l IH]; intros s; [repeat split; reflexivity|]. cbn [fold_until fold_left].
  destruct (fi_tab t s) as (H0 & H1 & H2 & H3). rewrite H0.
  specialize (IH (fst (p_table FI s t))). cbn zeta in IH. destruct IH as (I1 & I2 & I3).
  rewrite I1, I2, I3, H1, H2, H3. repeat split; reflexivity.
Qed.
Lemma fi_vars l : forall s, let s' := fold_until (p_var FI) l s in
  fi_fixed s' = fi_fixed s /\ fi_strings s' = fi_strings s /\ fi_langs s' = translation_of (fi_langs s) (map ev_var l).
Proof.
  induction l as [|t l IH]; intros s; [repeat split; reflexivity|]. cbn [fold_until p_var snd fst map ev_var translation_of].
  specialize (IH (v_var FI s (t_key t) (t_value t))). cbn zeta in IH. destruct IH as (I1 & I2 & I3).
  rewrite I1, I2, I3. cbn [FI FileInfoV v_var]. destruct (list_eqb (t_key t) Translation); repeat split; reflexivity.
Qed.
Lemma fi_fil t s : snd (p_file FI s t) = false /\ fi_fixed (fst (p_file FI s t)) = fi_fixed s /\
  fi_strings (fst (p_file FI s t)) = fi_file (fi_strings s) t /\
  fi_langs (fst (p_file FI s t)) = translation_of (fi_langs s) (ev_file t).
Proof.
  unfold p_file, fi_file, ev_file. cbn [FI FileInfoV v_file_info v_enter v_exit fst snd negb app translation_of]. fold FI.
  rewrite tr_app. cbn [translation_of].
  destruct (list_eqb (t_key t) StringFileInfo).
  - destruct (fi_tabs (items VZero (t_children t)) s) as (H1 & H2 & H3). rewrite tr_tables. repeat split; assumption.
  - destruct (list_eqb (t_key t) VarFileInfo).
    + destruct (fi_vars (items VBytes (t_children t)) s) as (H1 & H2 & H3). repeat split; assumption.
    + repeat split; reflexivity.
Qed.
Lemma fi_fils l : forall s, let s' := fold_until (p_file FI) l s in
  fi_fixed s' = fi_fixed s /\ fi_strings s' = fold_left fi_file l (fi_strings s) /\
  fi_langs s' = translation_of (fi_langs s) (flat_map ev_file l).
Proof.
  induction l as [|t l IH]; intros s; [repeat split; reflexivity|]. cbn [fold_until fold_left flat_map].
  destruct (fi_fil t s) as (H0 & H1 & H2 & H3). rewrite H0.
  specialize (IH (fst (p_file FI s t))). cbn zeta in IH. destruct IH as (I1 & I2 & I3).
  rewrite I1, I2, I3, H1, H2, H3, tr_app. repeat split; reflexivity.
Qed.
Lemma fi_visit ws : let s' := pvisit FI ws fi_default in
  fi_fixed s' = fixed_of (all_events ws) /\ fi_strings s' = fi_map ws /\ fi_langs s' = translation_of [] (all_events ws).
Proof.
  unfold pvisit, all_events, fi_map. destruct (items VBytes ws) as [|t l]; [repeat split; reflexivity|]. cbn [fold_until].
  unfold p_version, ev_version. cbn [FI FileInfoV v_version_info v_enter v_exit fst snd negb app fixed_of translation_of]. fold FI.
  match goal with |- context [fold_until (p_file FI) ?l ?s0] => destruct (fi_fils l s0) as (H1 & H2 & H3) end.
  cbn [fi_fixed fi_langs fi_strings fi_default] in *. rewrite tr_app. cbn [translation_of]. repeat split; assumption.
Qed.

(* ------------------------------------------------------------------ what the map contains *)
Definition has (m : smap) (lg : N * N) : bool := match hm_get lang_eqb lg m with Some _ => true | None => false end.
Definition wfm (m : smap) : Prop := uniq lang_eqb m /\ forall lg e, In (lg, e) m -> uniq list_eqb e.

Lemma ins1_spec lg m p : wfm m ->
  wfm (ins1 lg m p) /\ (forall lg', has (ins1 lg m p) lg' = has m lg') /\
  (forall lg' k, dump_lookup (ins1 lg m p) lg' k =
     if has m lg && lang_eqb lg' lg && list_eqb k (lossy (fst p)) then Some (lossy (snd p)) else dump_lookup m lg' k).
Proof.
  intros [Hu He]. unfold ins1, has, dump_lookup. destruct (hm_get lang_eqb lg m) as [e|] eqn:E.
  - split; [split|split].
    + apply (uniq_insert lang_eqb lang_eqb_spec). exact Hu.
    + intros lg' e' Hin. apply in_insert in Hin. destruct Hin as [H|H].
      * injection H as -> ->. apply (uniq_insert list_eqb list_eqb_spec). apply (He lg). apply (get_in lang_eqb lang_eqb_spec). exact E.
      * apply (He lg'). exact H.
    + intros lg'. rewrite (hm_get_insert lang_eqb lang_eqb_spec). destruct (lang_eqb lg' lg) eqn:E1; [|reflexivity].
      apply lang_eqb_spec in E1. subst. rewrite E. reflexivity.
    + intros lg' k. rewrite (hm_get_insert lang_eqb lang_eqb_spec). cbn [andb]. destruct (lang_eqb lg' lg) eqn:E1.
      * apply lang_eqb_spec in E1. subst. rewrite E. rewrite (hm_get_insert list_eqb list_eqb_spec). reflexivity.
      * reflexivity.
  - split; [split; assumption|]. split; reflexivity.
Qed.

Lemma ins_all_spec lg strs : forall m, wfm m -> has m lg = true ->
  wfm (ins_all lg strs m) /\ (forall lg', has (ins_all lg strs m) lg' = has m lg') /\
  (forall lg' k, dump_lookup (ins_all lg strs m) lg' k =
     if lang_eqb lg' lg then last_value list_eqb k (dump_lookup m lg' k) (map lossyp strs) else dump_lookup m lg' k).
Proof.
  induction strs as [|p strs IH]; intros m Hw Hh.
  - split; [exact Hw|]. split; [reflexivity|]. intros lg' k. cbn [map last_value ins_all fold_left]. destruct (lang_eqb lg' lg); reflexivity.
  - unfold ins_all. cbn [fold_left]. fold (ins_all lg strs (ins1 lg m p)).
    destruct (ins1_spec lg m p Hw) as (W1 & H1 & D1).
    destruct (IH (ins1 lg m p) W1 ltac:(rewrite H1; exact Hh)) as (W2 & H2 & D2).
    split; [exact W2|]. split; [intros lg'; rewrite H2, H1; reflexivity|].
    intros lg' k. rewrite D2, D1, Hh. cbn [map last_value lossyp andb]. unfold lossyp at 2. cbn [fst snd].
    destruct (lang_eqb lg' lg); cbn [andb]; [|reflexivity].
    destruct (list_eqb k (lossy (fst p))); reflexivity.
Qed.

Lemma or_default_spec lg m : wfm m ->
  wfm (hm_or_default lang_eqb [] lg m) /\
  (forall lg', has (hm_or_default lang_eqb [] lg m) lg' = has m lg' || lang_eqb lg' lg) /\
  (forall lg' k, dump_lookup (hm_or_default lang_eqb [] lg m) lg' k = dump_lookup m lg' k).
Proof.
  intros [Hu He]. split; [split|split].
  - apply (uniq_or_default lang_eqb lang_eqb_spec). exact Hu.
  - intros lg' e. unfold hm_or_default. destruct (hm_get lang_eqb lg m); [apply He|].
    intros Hin. apply in_app_or in Hin. destruct Hin as [H|[H|[]]]; [apply (He lg' e H)|]. injection H as _ <-. exact I.
  - intros lg'. unfold has. rewrite (hm_get_or_default lang_eqb lang_eqb_spec).
    destruct (hm_get lang_eqb lg' m); [reflexivity|]. destruct (lang_eqb lg' lg); reflexivity.
  - intros lg' k. unfold dump_lookup. rewrite (hm_get_or_default lang_eqb lang_eqb_spec).
    destruct (hm_get lang_eqb lg' m); [reflexivity|]. destruct (lang_eqb lg' lg); reflexivity.
Qed.

Definition tb_langs (tb : tlv) : list (N * N) := match lang_parse (t_key tb) with Some x => [x] | None => [] end.

Lemma fi_table_spec m tb : wfm m ->
  wfm (fi_table m tb) /\
  (forall lg', has (fi_table m tb) lg' = has m lg' || existsb (lang_eqb lg') (tb_langs tb)) /\
  (forall lg' k, dump_lookup (fi_table m tb) lg' k = last_value list_eqb k (dump_lookup m lg' k) (map lossyp (tab_sel lg' tb))).
Proof.
  intros Hw. unfold fi_table, tb_langs, tab_sel, lang_matches. destruct (lang_parse (t_key tb)) as [lg|].
  - destruct (or_default_spec lg m Hw) as (W1 & H1 & D1).
    destruct (ins_all_spec lg (map kv (items VWords (t_children tb))) _ W1) as (W2 & H2 & D2).
    { rewrite H1, (proj2 (lang_eqb_spec lg lg) eq_refl). apply orb_true_r. }
    split; [exact W2|]. split.
    + intros lg'. rewrite H2, H1. cbn [existsb]. rewrite orb_false_r. reflexivity.
    + intros lg' k. rewrite D2, D1. rewrite (eqb_sym lang_eqb lang_eqb_spec lg lg').
      destruct (lang_eqb lg' lg); reflexivity.
  - split; [exact Hw|]. split; [intros; cbn [existsb]; rewrite orb_false_r; reflexivity|reflexivity].
Qed.

Lemma fi_tables_spec l : forall m, wfm m ->
  wfm (fold_left fi_table l m) /\
  (forall lg', has (fold_left fi_table l m) lg' = has m lg' || existsb (lang_eqb lg') (flat_map tb_langs l)) /\
  (forall lg' k, dump_lookup (fold_left fi_table l m) lg' k =
     last_value list_eqb k (dump_lookup m lg' k) (map lossyp (flat_map (tab_sel lg') l))).
Proof.
  induction l as [|tb l IH]; intros m Hw.
  - split; [exact Hw|]. split; [intros; cbn [flat_map existsb]; rewrite orb_false_r; reflexivity|reflexivity].
  - cbn [fold_left flat_map]. destruct (fi_table_spec m tb Hw) as (W1 & H1 & D1). destruct (IH _ W1) as (W2 & H2 & D2).
    split; [exact W2|]. split.
    + intros lg'. rewrite H2, H1, existsb_app, orb_assoc. reflexivity.
    + intros lg' k. rewrite D2, D1, map_app, last_value_app. reflexivity.
Qed.

Definition file_langs (f : tlv) : list (N * N) :=
  if list_eqb (t_key f) StringFileInfo then flat_map tb_langs (items VZero (t_children f)) else [].
Lemma fi_file_spec m f : wfm m ->
  wfm (fi_file m f) /\
  (forall lg', has (fi_file m f) lg' = has m lg' || existsb (lang_eqb lg') (file_langs f)) /\
  (forall lg' k, dump_lookup (fi_file m f) lg' k = last_value list_eqb k (dump_lookup m lg' k) (map lossyp (file_sel lg' f))).
Proof.
  intros Hw. unfold fi_file, file_langs, file_sel. destruct (list_eqb (t_key f) StringFileInfo); [apply fi_tables_spec; exact Hw|].
  split; [exact Hw|]. split; [intros; cbn [existsb]; rewrite orb_false_r; reflexivity|reflexivity].
Qed.
Lemma fi_files_spec l : forall m, wfm m ->
  wfm (fold_left fi_file l m) /\
  (forall lg', has (fold_left fi_file l m) lg' = has m lg' || existsb (lang_eqb lg') (flat_map file_langs l)) /\
  (forall lg' k, dump_lookup (fold_left fi_file l m) lg' k =
     last_value list_eqb k (dump_lookup m lg' k) (map lossyp (flat_map (file_sel lg') l))).
Proof.
  induction l as [|f l IH]; intros m Hw.
  - split; [exact Hw|]. split; [intros; cbn [flat_map existsb]; rewrite orb_false_r; reflexivity|reflexivity].
  - cbn [fold_left flat_map]. destruct (fi_file_spec m f Hw) as (W1 & H1 & D1). destruct (IH _ W1) as (W2 & H2 & D2).
    split; [exact W2|]. split.
    + intros lg'. rewrite H2, H1, existsb_app, orb_assoc. reflexivity.
    + intros lg' k. rewrite D2, D1, map_app, last_value_app. reflexivity.
Qed.

(* the languages of the reported tables, over the structure of the report *)
Lemma tl_app a : forall b, table_langs (a ++ b) = table_langs a ++ table_langs b.
Proof.
  induction a as [|e a IH]; intros b; [reflexivity|]. destruct e; cbn [app table_langs]; try apply IH.
  destruct (lang_parse key); [cbn [app]; f_equal|]; apply IH.
Qed.
Lemma tl_strings l : table_langs (map ev_string l) = [].
Proof. induction l as [|t l IH]; [reflexivity|]. exact IH. Qed.
Lemma tl_vars l : table_langs (map ev_var l) = [].
Proof. induction l as [|t l IH]; [reflexivity|]. exact IH. Qed.
Lemma tl_table t : table_langs (ev_table t) = tb_langs t.
Proof.
  unfold ev_table, tb_langs. cbn [app table_langs]. rewrite tl_app, tl_strings. cbn [table_langs app].
  destruct (lang_parse (t_key t)); reflexivity.
Qed.
Lemma tl_tables l : table_langs (flat_map ev_table l) = flat_map tb_langs l.
Proof. induction l as [|t l IH]; [reflexivity|]. cbn [flat_map]. rewrite tl_app, tl_table, IH. reflexivity. Qed.
Lemma tl_file t : table_langs (ev_file t) = file_langs t.
Proof.
  unfold ev_file, file_langs. cbn [app table_langs]. rewrite tl_app. cbn [table_langs]. rewrite app_nil_r.
  destruct (list_eqb (t_key t) StringFileInfo); [apply tl_tables|].
  destruct (list_eqb (t_key t) VarFileInfo); [apply tl_vars|reflexivity].
Qed.
Lemma tl_files l : table_langs (flat_map ev_file l) = flat_map file_langs l.
Proof. induction l as [|t l IH]; [reflexivity|]. cbn [flat_map]. rewrite tl_app, tl_file, IH. reflexivity. Qed.

Lemma fi_map_spec ws :
  wfm (fi_map ws) /\
  (forall lg, has (fi_map ws) lg = existsb (lang_eqb lg) (table_langs (all_events ws))) /\
  (forall lg k, dump_lookup (fi_map ws) lg k = last_value list_eqb k None (spec_strings lg (all_events ws))).
Proof.
  assert (W0 : wfm []) by (split; [exact I|intros ? ? []]).
  unfold spec_strings. fold lossyp.
  assert (Hs : forall lg, sel_strings lg ws = strings_in lg false (all_events ws)) by (intros; symmetry; apply si_all).
  unfold fi_map, all_events, sel_strings in *. destruct (items VBytes ws) as [|t l].
  - split; [exact W0|]. split; reflexivity.
  - destruct (fi_files_spec (items VZero (t_children t)) [] W0) as (W & H & D). split; [exact W|]. split.
    + intros lg. rewrite H. unfold ev_version. cbn [app table_langs]. rewrite tl_app, tl_files. cbn [table_langs has hm_get orb].
      rewrite app_nil_r. reflexivity.
    + intros lg k. rewrite D, <- Hs. reflexivity.
Qed.

(* a map with these three properties agrees with the report in the sense of the oracle *)
Lemma list_eqb_refl a : list_eqb a a = true.
Proof. apply list_eqb_spec. reflexivity. Qed.
Lemma dump_agrees_intro evs (m : smap) : wfm m ->
  (forall lg, has m lg = existsb (lang_eqb lg) (table_langs evs)) ->
  (forall lg k, dump_lookup m lg k = last_value list_eqb k None (spec_strings lg evs)) ->
  dump_agrees evs m = true.
Proof.
  intros [Hu He] Hh Hd. unfold dump_agrees. apply andb_true_iff. split.
  - apply forallb_forall. intros [lg e] Hin. cbn [fst snd].
    pose proof (uniq_in_get lang_eqb lang_eqb_spec lg e m Hu Hin) as Hg.
    apply andb_true_iff. split.
    + rewrite <- Hh. unfold has. rewrite Hg. reflexivity.
    + unfold keys_covered. apply andb_true_iff. split.
      * apply forallb_forall. intros [k v] Hkv. cbn [fst snd].
        pose proof (uniq_in_get list_eqb list_eqb_spec k v e (He lg e Hin) Hkv) as Hk.
        rewrite <- Hd. unfold dump_lookup. rewrite Hg, Hk. apply list_eqb_refl.
      * apply forallb_forall. intros [k v] Hkv. cbn [fst].
        pose proof (Hd lg k) as X. unfold dump_lookup in X. rewrite Hg in X. rewrite X.
        pose proof (last_value_in k v _ None Hkv) as Y. destruct (last_value list_eqb k None (spec_strings lg evs)); [reflexivity|congruence].
  - apply forallb_forall. intros l Hin.
    assert (Hx : has m l = true).
    { rewrite Hh. apply existsb_exists. exists l. split; [exact Hin|]. apply lang_eqb_spec. reflexivity. }
    unfold has in Hx. destruct (hm_get lang_eqb l m); [reflexivity|discriminate].
Qed.

(* ------------------------------------------------------------------ (3) through the API *)
Theorem value_strings_file_info_of_events base bytes evs lang key : bytes_len_ok bytes ->
  api_events false 0 base bytes = Ok evs ->
  api_value false lang key base bytes = Ok (spec_value lang key evs) /\
  api_strings false lang base bytes = Ok (spec_strings lang evs) /\
  (exists fi, api_file_info false false base bytes = Ok fi /\ fi_fixed fi = fixed_of evs /\
     fi_langs fi = translation_of [] evs /\ dump_agrees evs (fi_strings fi) = true).
Proof.
  unfold api_events, api_value, api_strings, api_file_info. intros Hok. rewrite !api_total by assumption.
  destruct (base mod 4 =? 0); [|discriminate]. rewrite recorder_events. intros H. injection H as <-.
  rewrite value_events, strings_events. split; [reflexivity|]. split; [reflexivity|].
  eexists. split; [reflexivity|]. destruct (fi_visit (words_of bytes)) as (H1 & H2 & H3). fold FI.
  split; [exact H1|]. split; [exact H3|]. rewrite H2.
  destruct (fi_map_spec (words_of bytes)) as (W & Hh & Hd). apply dump_agrees_intro; assumption.
Qed.

(* ------------------------------------------------------------------ the queries agree with one another *)
(* from_utf16_lossy changes nothing in a well-formed string, and only ill-formed strings acquire a U+FFFD *)
Lemma lossy_facts : forall n k, (length k <= n)%nat ->
  (wf_utf16 k = true -> lossy k = k) /\ (~ In 65533 (lossy k) -> wf_utf16 k = true /\ lossy k = k).
Proof.
  induction n as [|n IH]; intros k Hn.
  - destruct k; [|cbn [length] in Hn; lia]. split; [reflexivity|split; reflexivity].
  - destruct k as [|w r]; [split; [reflexivity|split; reflexivity]|]. cbn [length] in Hn. cbn [lossy wf_utf16].
    destruct (is_high w).
    + destruct r as [|lo r']; [split; [discriminate|intros H; elim H; left; reflexivity]|]. cbn [length] in Hn.
      destruct (IH r' ltac:(lia)) as [I1 I2]. destruct (is_low lo); cbn [andb].
      * split; [intros H; rewrite (I1 H); reflexivity|].
        intros H. destruct I2 as [J1 J2]; [intros X; apply H; right; right; exact X|]. rewrite J1, J2. split; reflexivity.
      * split; [discriminate|intros H; elim H; left; reflexivity].
    + destruct (IH r ltac:(lia)) as [I1 I2]. destruct (is_low w); cbn [negb andb].
      * split; [discriminate|intros H; elim H; left; reflexivity].
      * split; [intros H; rewrite (I1 H); reflexivity|].
        intros H. destruct I2 as [J1 J2]; [intros X; apply H; right; exact X|]. rewrite J1, J2. split; reflexivity.
Qed.
Lemma lossy_wf k : wf_utf16 k = true -> lossy k = k.
Proof. apply (lossy_facts (length k) k (le_n _)). Qed.
Lemma lossy_no_fffd k : ~ In 65533 (lossy k) -> wf_utf16 k = true /\ lossy k = k.
Proof. apply (lossy_facts (length k) k (le_n _)). Qed.

(* a query key without U+FFFD matches a stored key char by char exactly when it equals the lossy conversion *)
Lemma str_eq_lossy key k : ~ In 65533 key -> str_eq_utf16 key k = list_eqb key (lossy k).
Proof.
  intros Hk. unfold str_eq_utf16. destruct (list_eqb key (lossy k)) eqn:E.
  - apply list_eqb_eq in E. subst key. destruct (lossy_no_fffd k Hk) as [H1 H2]. rewrite H1, H2. apply list_eqb_refl.
  - destruct (wf_utf16 k) eqn:Ew; [|reflexivity]. rewrite (lossy_wf k Ew) in E. exact E.
Qed.
Lemma value_is_lookup key l : ~ In 65533 key -> forall acc,
  option_map lossy (last_value str_eq_utf16 key acc l) = last_value list_eqb key (option_map lossy acc) (map lossyp l).
Proof.
  intros Hk. induction l as [|[k v] l IH]; intros acc; [reflexivity|]. cbn [map last_value lossyp fst snd].
  rewrite IH, (str_eq_lossy key k Hk). destruct (list_eqb key (lossy k)); reflexivity.
Qed.

(* The single-value query, the per-language enumeration, the hash-map dump and the source-code rendering are four
   views of one report [evs]: source_code() renders it line by line; strings(lang) lists its strings of that
   language; file_info().strings holds, per language that has a table and per key, the last value strings(lang)
   lists under that key; and value(lang, key) is that entry of the dump (for a key without U+FFFD: a stored key
   with an unpaired surrogate is reported as U+FFFD by strings()/file_info() and never matched by value()). *)
Theorem queries_agree base bytes lang : bytes_len_ok bytes -> base mod 4 = 0 ->
  exists evs strs fi,
    api_events false 0 base bytes = Ok evs /\ api_strings false lang base bytes = Ok strs /\
    api_file_info false false base bytes = Ok fi /\ api_source_code false base bytes = Ok (source_of evs) /\
    strs = spec_strings lang evs /\
    (forall k, dump_lookup (fi_strings fi) lang k = last_value list_eqb k None strs) /\
    (hm_get lang_eqb lang (fi_strings fi) <> None <-> exists l, In (EvTable l) evs /\ lang_matches lang l = true) /\
    (forall key, ~ In 65533 key -> api_value false lang key base bytes = Ok (dump_lookup (fi_strings fi) lang key)).
Proof.
  intros Hok Hb. pose proof (api_events_spec base bytes Hok) as He. rewrite Hb in He. cbn [N.eqb] in He.
  set (ws := words_of bytes) in *. set (evs := all_events ws) in *.
  destruct (queries_of_events base bytes evs Hok He) as [_ Hsrc].
  destruct (fi_visit ws) as (_ & H2 & _). destruct (fi_map_spec ws) as (W & Hh & Hd). fold evs in Hh, Hd.
  exists evs, (spec_strings lang evs), (pvisit FI ws fi_default).
  split; [exact He|].
  destruct (value_strings_file_info_of_events base bytes evs lang [] Hok He) as (_ & Hs & _).
  split; [exact Hs|]. split.
  { unfold api_file_info. rewrite api_total by assumption. rewrite Hb. reflexivity. }
  split; [exact Hsrc|]. split; [reflexivity|]. rewrite H2. split; [apply Hd|]. split.
  - specialize (Hh lang). unfold has in Hh. split.
    + intros Hne. destruct (hm_get lang_eqb lang (fi_map ws)); [|congruence]. symmetry in Hh. apply existsb_exists in Hh.
      destruct Hh as (x & Hin & Hx). apply lang_eqb_spec in Hx. subst x.
      clear - Hin. induction evs as [|e evs IH]; [elim Hin|].
      destruct e; cbn [table_langs] in Hin; try (destruct (IH Hin) as (l & H1 & H2); exists l; split; [right; exact H1|exact H2]).
      destruct (lang_parse key) as [x|] eqn:E.
      * destruct Hin as [->|Hin].
        -- exists key. split; [left; reflexivity|]. unfold lang_matches. rewrite E. apply lang_eqb_spec. reflexivity.
        -- destruct (IH Hin) as (l & H1 & H2). exists l. split; [right; exact H1|exact H2].
      * destruct (IH Hin) as (l & H1 & H2). exists l. split; [right; exact H1|exact H2].
    + intros (l & Hin & Hl). assert (X : existsb (lang_eqb lang) (table_langs evs) = true).
      { clear - Hin Hl. induction evs as [|e evs IH]; [elim Hin|]. destruct Hin as [->|Hin].
        - cbn [table_langs]. unfold lang_matches in Hl. destruct (lang_parse l) as [x|]; [|discriminate].
          cbn [existsb]. rewrite (eqb_sym lang_eqb lang_eqb_spec), Hl. reflexivity.
        - specialize (IH Hin). destruct e; cbn [table_langs]; try exact IH.
          destruct (lang_parse key); [cbn [existsb]; rewrite IH; apply orb_true_r|exact IH]. }
      rewrite X in Hh. destruct (hm_get lang_eqb lang (fi_map ws)); [discriminate|discriminate].
  - intros key Hk. destruct (value_strings_file_info_of_events base bytes evs lang key Hok He) as (Hv & _ & _).
    rewrite Hv, Hd. unfold spec_value, spec_strings. f_equal. apply (value_is_lookup key _ Hk None).
Qed.

(* the restriction to keys without U+FFFD is necessary: a stored key that is an unpaired surrogate is listed by
   file_info() under U+FFFD and not found by value() *)
Definition fffd_vi : vinfo :=
  {| vi_key := [86; 83]; vi_fixed := [];
     vi_blocks := [BStrings [ {| vt_key := f32_lang; vt_strings := [ {| vs_key := [55296]; vs_value := [49; 0] |} ] |} ]] |}.
Lemma fffd_witness :
  let bytes := flat_map le16 (encode true fffd_vi) in
  api_value false (1033, 1200) [65533] 0 bytes = Ok None /\
  match api_file_info false false 0 bytes with
  | Ok fi => dump_lookup (fi_strings fi) (1033, 1200) [65533] = Some [49]
  | _ => False
  end.
Proof. vm_compute. split; reflexivity. Qed.
