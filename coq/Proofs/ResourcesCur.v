(* Proofs for C12, cursor groups (F44): GroupResource::write on a cursor group = the .cur file of Spec/Cur.v.
   See Properties/C12.v for the statements. *)
From PV.Model Require Import Machine Mapping Views Resources.
From PV.Spec Require Import ResTree Ico.
From PV.Spec Require Cur.
From PV.Proofs Require Import BaseProofs ResourcesProofs.
Ltac Zify.zify_post_hook ::= Z.div_mod_to_equations.

(* ------------------------------------------------------------------ bytes of the section as lists *)
Lemma sec_bytes_length s o n : length (sec_bytes s o n) = N.to_nat n.
Proof. unfold sec_bytes. rewrite map_length, seq_length. reflexivity. Qed.
Lemma lenN_sec_bytes s o n : lenN (sec_bytes s o n) = n.
Proof. unfold lenN. rewrite sec_bytes_length. lia. Qed.
Lemma sec_bytes_app s o a b : sec_bytes s o (a + b) = sec_bytes s o a ++ sec_bytes s (o + a) b.
Proof.
  unfold sec_bytes. replace (N.to_nat (a + b)) with (N.to_nat a + N.to_nat b)%nat by lia.
  rewrite seq_app, map_app. f_equal. cbn [plus]. rewrite seq_map_shift. apply map_ext. intros i. f_equal. lia.
Qed.
Lemma byte_at_sec_bytes s o n i : i < n -> byte_at (sec_bytes s o n) i = rs_get s (o + i).
Proof.
  intros H. unfold byte_at, sec_bytes. set (f := fun k => rs_get s (o + N.of_nat k)).
  rewrite (nth_indep _ 0 (f 0%nat)) by (rewrite map_length, seq_length; lia).
  rewrite map_nth, seq_nth by lia. unfold f. f_equal. lia.
Qed.
Lemma u16_at_sec_bytes s o n i : i + 1 < n -> u16_at (sec_bytes s o n) i = rd16 s (o + i).
Proof.
  intros H. unfold u16_at, rd16. rewrite !byte_at_sec_bytes by lia. rewrite N.add_assoc. reflexivity.
Qed.
Lemma sec_bytes_ok s o n : sec_ok s -> bytes_ok (sec_bytes s o n).
Proof. intros H. unfold bytes_ok, sec_bytes. apply Forall_forall. intros x Hx. apply in_map_iff in Hx. destruct Hx as (i & <- & _). apply H. Qed.

(* ------------------------------------------------------------------ the first four bytes of a cursor resource *)
Lemma firstn4_hotspot p : 4 <= lenN p -> bytes_ok (firstn 4 p) ->
  firstn 4 p = le16 (u16_at p 0) ++ le16 (u16_at p 2).
Proof.
  intros Hl Hb. destruct p as [|b0 [|b1 [|b2 [|b3 r]]]]; try (unfold lenN in Hl; cbn [length] in Hl; lia).
  cbn [firstn] in *. unfold bytes_ok in Hb.
  inversion Hb as [|? ? H0 Hb1]; subst. inversion Hb1 as [|? ? H1 Hb2]; subst.
  inversion Hb2 as [|? ? H2 Hb3]; subst. inversion Hb3 as [|? ? H3 _]; subst.
  unfold u16_at, byte_at, le16. change (N.to_nat 0) with 0%nat. change (N.to_nat (0 + 1)) with 1%nat.
  change (N.to_nat 2) with 2%nat. change (N.to_nat (2 + 1)) with 3%nat. cbn [nth app].
  repeat (f_equal; try lia).
Qed.

(* ------------------------------------------------------------------ 1. the written file = the .cur file of the stored pieces *)
Definition entry_bytes (s : rsec) (e : N) : list N := sec_bytes s e 14.
Definition cur_pieces (s : rsec) (es : list N) (ps : list (list N)) : Cur.file :=
  Cur.of_resources (map (entry_bytes s) es) ps.

Lemma cur_pieces_cons s e es p ps :
  cur_pieces s (e :: es) (p :: ps) = Cur.of_entry (entry_bytes s e) p :: cur_pieces s es ps.
Proof. reflexivity. Qed.

Definition piece_ok (s : rsec) (lookup : N -> option (list N)) (e : N) (p : list N) : Prop :=
  lookup (ge_id s e) = Some p /\ bytes_ok (firstn 4 p) /\ 4 <= lenN p /\ lenN p = ge_bytes_in_res s e.

Lemma write_cur_entries_spec s lookup : sec_ok s -> forall es ps off,
  Forall2 (piece_ok s lookup) es ps ->
  off + lenN (Cur.file_data (cur_pieces s es ps)) < W32 ->
  write_cur_entries s lookup es off = (Cur.file_entries (cur_pieces s es ps) off, true) /\
  write_cur_images s lookup es = Cur.file_data (cur_pieces s es ps).
Proof.
  intros Hs. induction es as [|e r IH]; intros ps off HF HT; inversion HF as [|x p l pl (Hl & Hb & H4 & Hn) HF']; subst.
  - split; reflexivity.
  - rewrite cur_pieces_cons in *. cbn [Cur.file_data map concat] in HT. fold (Cur.file_data (cur_pieces s r pl)) in HT.
    cbn [Cur.cur_dib Cur.of_entry] in HT. rewrite lenN_app, lenN_skipn in HT. change (N.of_nat 4) with 4 in HT.
    cbn [write_cur_entries write_cur_images Cur.file_entries Cur.file_data map concat].
    fold (Cur.file_data (cur_pieces s r pl)). rewrite Hl, <- Hn.
    replace (4 <=? lenN p) with true by lia. cbn [andb].
    destruct (off + (lenN p - 4) <? W32) eqn:B; [|lia].
    destruct (IH pl (off + (lenN p - 4)) HF') as [E1 E2]; [lia|].
    rewrite E1, E2. cbn [fst snd]. split; [|reflexivity]. f_equal.
    unfold Cur.file_entry. cbn [Cur.cur_w Cur.cur_h Cur.cur_hx Cur.cur_hy Cur.cur_dib Cur.of_entry].
    rewrite lenN_skipn. change (N.of_nat 4) with 4.
    unfold entry_bytes. rewrite (u16_at_sec_bytes s e 14 0), (u16_at_sec_bytes s e 14 2) by lia.
    rewrite (firstn4_hotspot p H4 Hb). rewrite N.add_0_r.
    replace (rd16 s e mod 256) with (rs_get s e) by (unfold rd16; pose proof (Hs e); lia).
    cbn [app]. rewrite <- !app_assoc. reflexivity.
Qed.

Lemma lenN_cur_pieces s es ps : length es = length ps -> lenN (cur_pieces s es ps) = lenN es.
Proof. intros H. unfold lenN, cur_pieces, Cur.of_resources. rewrite map_length, combine_length, map_length. lia. Qed.

(* for a CURSOR group (idType = 2) accepted by GroupResource::new whose every RT_CURSOR resource is found, holds at least
   the hotspot and has the size its entry states, and a file below 4 GiB: write produces exactly the .cur file of the
   cursor images that the group entries and the resources denote *)
Theorem group_write_cur_pieces s lookup g ps :
  sec_ok s -> group_new s g = Ok g -> g_type s g = 2 ->
  Forall2 (piece_ok s lookup) (g_entries s g) ps ->
  Cur.file_size (cur_pieces s (g_entries s g) ps) < W32 ->
  write_with s lookup g = (Cur.encode_file (cur_pieces s (g_entries s g) ps), true).
Proof.
  intros Hs HG HTy HF HT.
  assert (Hlen : lenN (g_entries s g) = g_count s g).
  { unfold g_entries, lenN. rewrite map_length, seq_length. lia. }
  assert (H0 : rd16 s (r_off g) = 0).
  { unfold group_new in HG. destruct (negb (aligned_to 2 _)); [discriminate|]. destruct (r_len g <? 6); [discriminate|].
    destruct (rd16 s (r_off g) =? 0) eqn:Z; [lia|]. cbn [negb orb] in HG. discriminate. }
  pose proof (lenN_cur_pieces s _ _ (forall2_length _ _ _ HF)) as HL.
  unfold Cur.file_size in HT. rewrite HL, Hlen in HT.
  unfold write_with. rewrite HTy. change (2 =? 2) with true. cbv iota. rewrite Hlen.
  destruct (write_cur_entries_spec s lookup Hs (g_entries s g) ps (6 + g_count s g * 16) HF) as [E1 E2]; [lia|].
  rewrite E1. cbn [fst snd]. rewrite E2. unfold Cur.encode_file. rewrite HL, Hlen.
  rewrite (header_bytes s (r_off g) Hs H0). unfold ico_header. unfold g_type in HTy. rewrite HTy. unfold g_count.
  replace (6 + 16 * rd16 s (r_off g + 4)) with (6 + rd16 s (r_off g + 4) * 16) by lia.
  rewrite <- !app_assoc. reflexivity.
Qed.

(* ------------------------------------------------------------------ 2. Spec: compiling a .cur and reading the pieces back *)
Lemma u16_at_2 a r : u16_at (le16 a ++ r) 2 = u16_at r 0.
Proof. change (u16_at (le16 a ++ r) 2) with (u16_at (le16 a ++ r) (2 + 0)). rewrite <- (u16_at_skipn (le16 a ++ r) 2 0). reflexivity. Qed.

Lemma of_entry_group_entry i id : Cur.image_ok i -> Cur.of_entry (Cur.group_entry i id) (Cur.payload i) = i.
Proof.
  destruct i as [w h hx hy dib]. unfold Cur.image_ok. cbn [Cur.cur_w Cur.cur_h Cur.cur_hx Cur.cur_hy]. intros (Hw & Hh & Hx & Hy).
  unfold Cur.of_entry, Cur.group_entry, Cur.payload. cbn [Cur.cur_w Cur.cur_h Cur.cur_hx Cur.cur_hy Cur.cur_dib].
  rewrite !u16_at_2, !u16_at_le16 by assumption.
  replace (2 * h / 2) with h by lia. reflexivity.
Qed.

Lemma of_resources_compiled : forall c ids, Forall Cur.image_ok c -> length ids = length c ->
  Cur.of_resources (Cur.group_entries c ids) (Cur.payloads c) = c.
Proof.
  induction c as [|i c IH]; intros ids HO HL; [destruct ids; reflexivity|].
  destruct ids as [|id ids]; [discriminate|]. inversion HO as [|? ? Hi HO']; subst.
  unfold Cur.of_resources, Cur.group_entries, Cur.payloads in *. cbn [combine map fst snd].
  rewrite (of_entry_group_entry i id Hi). f_equal. apply IH; [exact HO'|]. cbn [length] in HL. lia.
Qed.

Lemma lenN_group_entry i id : lenN (Cur.group_entry i id) = 14.
Proof. reflexivity. Qed.
Lemma lenN_group_entries : forall c ids, length ids = length c -> lenN (concat (Cur.group_entries c ids)) = 14 * lenN c.
Proof.
  induction c as [|i c IH]; intros ids HL; [destruct ids; reflexivity|]. destruct ids as [|id ids]; [discriminate|].
  unfold Cur.group_entries in *. cbn [combine map concat fst snd]. rewrite lenN_app, lenN_group_entry, lenN_cons.
  rewrite IH by (cbn [length] in HL; lia). lia.
Qed.
Lemma dib_le_file_data i c : In i c -> lenN (Cur.cur_dib i) <= lenN (Cur.file_data c).
Proof.
  induction c as [|j c IH]; intros H; [destruct H|]. unfold Cur.file_data in *. cbn [map concat]. rewrite lenN_app.
  destruct H as [->|H]; [lia|]. specialize (IH H). lia.
Qed.

(* ------------------------------------------------------------------ 3. the group region holds what the compiler wrote *)
Lemma app_inj_len {A} (a b c d : list A) : length a = length c -> a ++ b = c ++ d -> a = c /\ b = d.
Proof.
  revert c. induction a as [|x a IH]; intros [|y c] HL H; try discriminate; [split; [reflexivity|exact H]|].
  cbn [app] in H. injection H as -> H. cbn [length] in HL. destruct (IH c) as [-> ->]; [lia|exact H|]. split; reflexivity.
Qed.

Definition offs14 (o : N) (n : nat) : list N := map (fun i => o + 14 * N.of_nat i) (seq 0 n).
Lemma offs14_S o n : offs14 o (S n) = o :: offs14 (o + 14) n.
Proof.
  unfold offs14. cbn [seq map]. f_equal; [lia|]. rewrite <- seq_shift, map_map. apply map_ext. intros i. lia.
Qed.

Lemma sec_concat14 s : forall ess o, Forall (fun e => lenN e = 14) ess ->
  sec_bytes s o (14 * lenN ess) = concat ess -> map (entry_bytes s) (offs14 o (length ess)) = ess.
Proof.
  induction ess as [|e ess IH]; intros o HL H; [reflexivity|]. inversion HL as [|? ? He HL']; subst.
  rewrite lenN_cons in H. replace (14 * (1 + lenN ess)) with (14 + 14 * lenN ess) in H by lia.
  rewrite sec_bytes_app in H. cbn [concat] in H. apply app_inj_len in H.
  - destruct H as [H1 H2]. cbn [length]. rewrite offs14_S. cbn [map]. f_equal; [exact H1|]. apply IH; assumption.
  - rewrite sec_bytes_length. unfold lenN in He. lia.
Qed.

Lemma cons_eq_inv {A} (x y : A) l l' : x :: l = y :: l' -> x = y /\ l = l'.
Proof. intros H. injection H. auto. Qed.

Lemma compiled_pieces_ok s lookup : forall c ids es,
  Forall Cur.image_ok c -> length ids = length c -> Forall (fun id => id < 65536) ids ->
  Forall (fun i => 4 + lenN (Cur.cur_dib i) < W32) c ->
  map (entry_bytes s) es = Cur.group_entries c ids ->
  Forall (fun x => lookup (fst x) = Some (snd x)) (combine ids (Cur.payloads c)) ->
  Forall2 (piece_ok s lookup) es (Cur.payloads c).
Proof.
  induction c as [|i c IH]; intros ids es HO HL HI HS HE HK.
  - destruct ids; [|discriminate]. destruct es; [constructor|discriminate].
  - destruct ids as [|id ids]; [discriminate|]. unfold Cur.group_entries, Cur.payloads in *. cbn [combine map fst snd] in *.
    destruct es as [|e es]; [discriminate|]. cbn [map] in HE. apply cons_eq_inv in HE. destruct HE as [HE1 HE2].
    inversion HO as [|? ? Hi HO']; subst. inversion HI as [|? ? Hid HI']; subst. inversion HS as [|? ? Hsz HS']; subst.
    inversion HK as [|? ? Hk HK']; subst. cbn [fst snd] in Hk.
    cbn [length] in HL. apply eq_add_S in HL.
    constructor; [|exact (IH ids es HO' HL HI' HS' HE2 HK')].
    assert (Hge : ge_id s e = id).
    { unfold ge_id. rewrite <- (u16_at_sec_bytes s e 14 12) by lia. fold (entry_bytes s e). rewrite HE1.
      unfold Cur.group_entry. rewrite <- (u16_at_skipn _ 12 0). change (N.to_nat 12) with 12%nat.
      unfold le16 at 1 2 3 4, le32. cbn [app skipn]. apply u16_at_le16. exact Hid. }
    assert (Hsize : ge_bytes_in_res s e = 4 + lenN (Cur.cur_dib i)).
    { unfold ge_bytes_in_res. rewrite <- (u16_at_sec_bytes s e 14 10), <- (u16_at_sec_bytes s e 14 8) by lia.
      fold (entry_bytes s e). rewrite HE1. unfold Cur.group_entry.
      rewrite <- (u16_at_skipn _ 10 0), <- (u16_at_skipn _ 8 0). change (N.to_nat 10) with 10%nat. change (N.to_nat 8) with 8%nat.
      unfold le16 at 1 2 3 4 6 7 8 9, le32. cbn [app skipn].
      set (x := 4 + lenN (Cur.cur_dib i)) in *. unfold u16_at, byte_at.
      change (N.to_nat 0) with 0%nat. change (N.to_nat (0 + 1)) with 1%nat. cbn [nth]. unfold W32 in Hsz. lia. }
    unfold piece_ok. rewrite Hge, Hsize. split; [exact Hk|]. unfold Cur.payload.
    split; [|split].
    + unfold le16. cbn [app firstn]. unfold bytes_ok. repeat constructor; lia.
    + rewrite !lenN_app, !lenN_le16. lia.
    + rewrite !lenN_app, !lenN_le16. lia.
Qed.

(* the round trip: a .cur file compiled into an RT_GROUP_CURSOR resource and RT_CURSOR resources (Cur.to_resources), the group
   accepted by GroupResource::new on the region holding the group bytes, every RT_CURSOR resource found under its id:
   write reproduces the .cur file *)
Theorem group_write_cur s lookup g c ids :
  sec_ok s -> group_new s g = Ok g ->
  Forall Cur.image_ok c -> length ids = length c -> Forall (fun id => id < 65536) ids ->
  sec_bytes s (r_off g) (r_len g) = fst (Cur.to_resources c ids) ->
  Forall (fun x => lookup (fst x) = Some (snd x)) (snd (Cur.to_resources c ids)) ->
  Cur.file_size c < W32 ->
  write_with s lookup g = (Cur.encode_file c, true).
Proof.
  intros Hs HG HO HL HI HB HK HT. cbn [Cur.to_resources fst snd] in HB, HK.
  pose proof (lenN_group_entries c ids HL) as HLE.
  assert (Hrl : r_len g = 6 + 14 * lenN c).
  { rewrite <- (lenN_sec_bytes s (r_off g) (r_len g)), HB. unfold Cur.group_bytes. rewrite !lenN_app, !lenN_le16, HLE. lia. }
  assert (Hcnt : g_count s g = lenN c).
  { unfold group_new in HG. destruct (negb (aligned_to 2 _)); [discriminate|]. destruct (r_len g <? 6); [discriminate|].
    destruct (_ || _); [discriminate|]. fold (g_count s g) in HG.
    destruct (r_len g =? 6 + g_count s g * 14) eqn:E; cbn [negb] in HG; [|discriminate]. lia. }
  rewrite Hrl, sec_bytes_app in HB. unfold Cur.group_bytes in HB. rewrite !app_assoc in HB. apply app_inj_len in HB; [|rewrite sec_bytes_length; reflexivity].
  destruct HB as [HB1 HB2].
  assert (HTy : g_type s g = 2).
  { unfold g_type. rewrite <- (u16_at_sec_bytes s (r_off g) 6 2) by lia. rewrite HB1, <- !app_assoc, u16_at_2. apply u16_at_le16. lia. }
  assert (Hes : g_entries s g = offs14 (r_off g + 6) (length c)).
  { unfold g_entries, offs14. rewrite Hcnt. unfold lenN. rewrite Nat2N.id. reflexivity. }
  assert (HGE : length (Cur.group_entries c ids) = length c).
  { unfold Cur.group_entries. rewrite map_length, combine_length. lia. }
  assert (HE : map (entry_bytes s) (g_entries s g) = Cur.group_entries c ids).
  { rewrite Hes, <- HGE. apply sec_concat14.
    - unfold Cur.group_entries. apply Forall_forall. intros e He. apply in_map_iff in He. destruct He as (x & <- & _). apply lenN_group_entry.
    - unfold lenN at 1. rewrite HGE. exact HB2. }
  assert (HS : Forall (fun i => 4 + lenN (Cur.cur_dib i) < W32) c).
  { apply Forall_forall. intros i Hi. pose proof (dib_le_file_data i c Hi). unfold Cur.file_size in HT.
    assert (1 <= lenN c) by (destruct c; [destruct Hi|rewrite lenN_cons; lia]). lia. }
  pose proof (compiled_pieces_ok s lookup c ids (g_entries s g) HO HL HI HS HE HK) as HP.
  assert (HC : cur_pieces s (g_entries s g) (Cur.payloads c) = c).
  { unfold cur_pieces. rewrite HE. apply of_resources_compiled; assumption. }
  rewrite <- HC at 1. apply group_write_cur_pieces; try assumption. rewrite HC. exact HT.
Qed.

(* the same for the model of GroupResource::write itself: the resources are looked up through image() *)
Corollary group_write_cur_image s g c ids :
  sec_ok s -> group_new s g = Ok g ->
  Forall Cur.image_ok c -> length ids = length c -> Forall (fun id => id < 65536) ids ->
  sec_bytes s (r_off g) (r_len g) = fst (Cur.to_resources c ids) ->
  Forall (fun x => exists rg, g_image s g (fst x) = FOk rg /\ sec_bytes s (r_off rg) (r_len rg) = snd x) (snd (Cur.to_resources c ids)) ->
  Cur.file_size c < W32 ->
  group_write s g = (Cur.encode_file c, true).
Proof.
  intros Hs HG HO HL HI HB HK HT. unfold group_write. apply (group_write_cur s _ g c ids); try assumption.
  eapply Forall_impl; [|exact HK]. intros x (rg & E1 & E2). unfold image_lookup. rewrite E1, E2. reflexivity.
Qed.

(* ------------------------------------------------------------------ F44: the code as it stood, and non-vacuity
   The section of corpus/C12/f44-cursor-group-written-as-icon.case (case 0, shrunk by the check): RT_CURSOR / 2 / 0 -> the
   11-byte cursor resource at 160, RT_GROUP_CURSOR / 177 / 1033 -> the group at 172.  The cursor file: one 255 x 255 image,
   hotspot (127, 205), a 7-byte image. *)
Definition f43_witness : rsec := sec_of 4096 16384
  [0; 0; 0; 0; 0; 0; 0; 0; 0; 0; 0; 0; 0; 0; 2; 0;  1; 0; 0; 0; 32; 0; 0; 128;  12; 0; 0; 0; 80; 0; 0; 128;
   0; 0; 0; 0; 0; 0; 0; 0; 0; 0; 0; 0; 0; 0; 1; 0;  2; 0; 0; 0; 56; 0; 0; 128;
   0; 0; 0; 0; 0; 0; 0; 0; 0; 0; 0; 0; 0; 0; 1; 0;  0; 0; 0; 0; 128; 0; 0; 0;
   0; 0; 0; 0; 0; 0; 0; 0; 0; 0; 0; 0; 0; 0; 1; 0;  177; 0; 0; 0; 104; 0; 0; 128;
   0; 0; 0; 0; 0; 0; 0; 0; 0; 0; 0; 0; 0; 0; 1; 0;  9; 4; 0; 0; 144; 0; 0; 0;
   160; 64; 0; 0; 11; 0; 0; 0; 228; 4; 0; 0; 0; 0; 0; 0;   172; 64; 0; 0; 20; 0; 0; 0; 228; 4; 0; 0; 0; 0; 0; 0;
   127; 0; 205; 0; 88; 219; 255; 117; 197; 159; 166; 0;
   0; 0; 2; 0; 1; 0;  255; 0; 254; 1; 0; 0; 0; 0; 11; 0; 0; 0; 2; 0].
Definition f43_group : region := {| r_off := 172; r_len := 20 |}.
Definition f43_file : Cur.file := [{| Cur.cur_w := 255; Cur.cur_h := 255; Cur.cur_hx := 127; Cur.cur_hy := 205; Cur.cur_dib := [88; 219; 255; 117; 197; 159; 166] |}].

Lemma cursor_group_orig_refuted :
  (* the section holds what a resource compiler makes of the file, and the group is accepted and listed by cursors() *)
  sec_bytes f43_witness 172 20 = fst (Cur.to_resources f43_file [2]) /\
  image_lookup f43_witness f43_group 2 = Some (Cur.payload (hd {| Cur.cur_w := 0; Cur.cur_h := 0; Cur.cur_hx := 0; Cur.cur_hy := 0; Cur.cur_dib := [] |} f43_file)) /\
  group_list f43_witness RT_GROUP_CURSOR = [FOk (NId 177, f43_group)] /\
  (* the file *)
  Cur.encode_file f43_file = [0;0; 2;0; 1;0;  255; 255; 0; 0; 127;0; 205;0; 7;0;0;0; 22;0;0;0;  88; 219; 255; 117; 197; 159; 166] /\
  (* as it stood: the group entry copied (bWidth 255, bHeight 0, bColorCount 254, bReserved 1, planes and bit count in the place
     of the hotspot, the size with the hotspot), the hotspot left in front of the image *)
  group_write_orig f43_witness f43_group =
    Ok [0;0; 2;0; 1;0;  255; 0; 254; 1; 0;0; 0;0; 11;0;0;0; 22;0;0;0;  127;0; 205;0; 88; 219; 255; 117; 197; 159; 166] /\
  group_write_orig f43_witness f43_group <> Ok (Cur.encode_file f43_file) /\
  (* repaired *)
  group_write f43_witness f43_group = (Cur.encode_file f43_file, true).
Proof. vm_compute. repeat split; try reflexivity. discriminate. Qed.

(* the hypotheses of group_write_cur_image hold for the witness (non-vacuity of the theorem) *)
Lemma cur_nonvacuous :
  group_new f43_witness f43_group = Ok f43_group /\ Forall Cur.image_ok f43_file /\
  Forall (fun x => exists rg, g_image f43_witness f43_group (fst x) = FOk rg /\ sec_bytes f43_witness (r_off rg) (r_len rg) = snd x)
         (snd (Cur.to_resources f43_file [2])) /\
  Cur.file_size f43_file = 29 /\
  (* reading the compiled pieces back gives the file; a 256 x 256 image is stored as 0 0 in the file and 256 / 512 in the group *)
  Cur.of_resources (Cur.group_entries f43_file [2]) (Cur.payloads f43_file) = f43_file /\
  Cur.file_entry {| Cur.cur_w := 256; Cur.cur_h := 256; Cur.cur_hx := 0; Cur.cur_hy := 65535; Cur.cur_dib := [] |} 22 =
    [0; 0; 0; 0; 0;0; 255;255; 0;0;0;0; 22;0;0;0] /\
  Cur.group_entry {| Cur.cur_w := 256; Cur.cur_h := 256; Cur.cur_hx := 0; Cur.cur_hy := 65535; Cur.cur_dib := [] |} 7 =
    [0;1; 0;2; 0;0; 0;0; 4;0;0;0; 7;0] /\
  (* the group entry of a 32 x 32 monochrome cursor found in user32.dll: 20 00 40 00 01 00 01 00 34 01 00 00 01 00 *)
  Cur.cur_w (Cur.of_entry [32;0; 64;0; 1;0; 1;0; 52;1;0;0; 1;0] [6;0; 3;0; 40]) = 32 /\
  Cur.cur_h (Cur.of_entry [32;0; 64;0; 1;0; 1;0; 52;1;0;0; 1;0] [6;0; 3;0; 40]) = 32 /\
  (* a cursor entry without its resource, or with a resource shorter than the hotspot, is an error; nothing of it is written *)
  write_with f43_witness (fun _ => None) f43_group = ([0;0; 2;0; 1;0], false) /\
  write_with f43_witness (fun _ => Some [1; 2; 3]) f43_group = ([0;0; 2;0; 1;0], false).
Proof.
  split; [vm_compute; reflexivity|]. split; [repeat constructor; vm_compute; reflexivity|].
  split; [constructor; [|constructor]; exists {| r_off := 160; r_len := 11 |}; vm_compute; split; reflexivity|].
  vm_compute. repeat split; reflexivity.
Qed.
