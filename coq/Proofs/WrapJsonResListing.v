(* The `resources` member as a function of the depth-first LISTING (what traversal, C12, reports):
   [listing_json] of the listing of a tree is [tree_json] of the tree, for every tree; hence on a section that denotes
   a tree within the limits the serializer writes [listing_json] of what [Resources.walk] lists. *)
From PV.Model Require Import Machine Mapping Json.
From PV.Model Require Resources WrapJsonRes.
From PV.Spec Require Import WrapResSpec.
From PV.Spec Require ResTree.
From PV.Proofs Require Import BaseProofs.
From PV.Proofs Require ResourcesProofs ResourcesDeep WrapJsonResProofs.
Ltac Zify.zify_post_hook ::= Z.div_mod_to_equations.

Module R := Resources.
Module T := ResTree.
Module RP := ResourcesProofs.
Module RD := ResourcesDeep.

Lemma flatten_kids_ge s lvl named :
  forall kids e idx,
  Forall (fun nk => forall L, RD.lvl_ge L (T.flatten s L (snd nk)) = true) kids ->
  RD.lvl_ge lvl (T.flatten_kids (fun k => T.flatten s (lvl + 1) k) lvl named e idx kids) = true.
Proof.
  induction kids as [|[n k] r IH]; intros e idx HF; [reflexivity|].
  inversion HF as [|x l Hk Hr]; subst x l. cbn [snd] in Hk.
  cbn [T.flatten_kids fst snd]. rewrite RD.lvl_ge_item, RD.lvl_ge_app. unfold T.item_of at 1. cbn [R.i_lvl].
  replace (lvl <=? lvl) with true by lia. rewrite (RD.lvl_ge_weaken _ _ (Hk (lvl + 1))), (IH _ _ Hr). reflexivity.
Qed.
Lemma flatten_ge s t : forall L, RD.lvl_ge L (T.flatten s L t) = true.
Proof.
  induction t as [o st sz cp|o kids IHk] using RP.rtree_ind'; intros L; cbn [T.flatten]; [reflexivity|].
  apply flatten_kids_ge. exact IHk.
Qed.

Lemma take_sub_flatten_kids s lvl named kids e idx :
  T.take_sub lvl (T.flatten_kids (fun k => T.flatten s (lvl + 1) k) lvl named e idx kids) = [].
Proof.
  destruct kids as [|[n k] r]; [reflexivity|]. cbn [T.flatten_kids T.take_sub fst snd]. unfold T.item_of at 1. cbn [R.i_lvl].
  replace (lvl <? lvl) with false by lia. reflexivity.
Qed.

Definition listing_spec (s : R.rsec) (va : N) (t : T.rtree) : Prop :=
  forall fuel lvl, (T.height t <= fuel)%nat ->
  match t with
  | T.RDir o kids => listing_json fuel va lvl (T.flatten s lvl t) = kids_json (fun x => tree_json va false x) (lvl =? 0) kids
  | T.RData _ _ _ _ => True
  end.

Lemma listing_kids_json s va fuel lvl named :
  forall kids e idx,
  Forall (fun nk => listing_spec s va (snd nk)) kids ->
  (forall nk, In nk kids -> (T.height (snd nk) <= fuel)%nat) ->
  listing_json (S fuel) va lvl (T.flatten_kids (fun k => T.flatten s (lvl + 1) k) lvl named e idx kids)
  = kids_json (fun x => tree_json va false x) (lvl =? 0) kids.
Proof.
  induction kids as [|[n k] r IH]; intros e idx HF HH; [reflexivity|].
  inversion HF as [|x l Hk Hr]; subst x l. cbn [snd] in Hk.
  assert (Hh : (T.height k <= fuel)%nat) by (apply (HH (n, k)); left; reflexivity).
  assert (IHr := IH (e + 8) (idx + 1) Hr (fun nk Hin => HH nk (or_intror Hin))).
  cbn [listing_json] in IHr |- *. cbn [T.flatten_kids fst snd T.kids_of].
  unfold T.item_of at 1. cbn [R.i_lvl]. rewrite N.eqb_refl.
  rewrite (RD.kids_of_app_ge _ _ _ (flatten_ge s k (lvl + 1))).
  rewrite (RD.take_sub_app _ _ _ (flatten_ge s k (lvl + 1))), take_sub_flatten_kids, app_nil_r.
  cbn [map kids_json fst snd]. rewrite IHr. f_equal.
  unfold item_name_json, T.item_of. cbn [R.i_name R.i_tgt R.i_isdir].
  destruct k as [o st sz cp|o kk]; cbn [T.rt_isdir tree_json r_off]; [reflexivity|].
  f_equal. f_equal. f_equal. f_equal.
  pose proof (Hk fuel (lvl + 1) Hh) as H. cbn beta iota in H. rewrite H.
  replace (lvl + 1 =? 0) with false by lia. reflexivity.
Qed.

Lemma listing_spec_all s va t : listing_spec s va t.
Proof.
  induction t as [o st sz cp|o kids IHk] using RP.rtree_ind'; unfold listing_spec; intros fuel lvl HH; [exact I|].
  destruct fuel as [|fuel]; [cbn [T.height] in HH; lia|].
  cbn [T.flatten]. apply listing_kids_json; [exact IHk|].
  intros nk Hin. apply (RP.height_kid o kids nk fuel Hin HH).
Qed.

(* for EVERY tree: the value read off its depth-first listing is the value read off the tree *)
Theorem listing_json_flatten s va o kids fuel lvl :
  (T.height (T.RDir o kids) <= fuel)%nat ->
  JArr (listing_json fuel va lvl (T.flatten s lvl (T.RDir o kids))) = tree_json va (lvl =? 0) (T.RDir o kids).
Proof. intros HH. cbn [tree_json]. f_equal. exact (listing_spec_all s va (T.RDir o kids) fuel lvl HH). Qed.

(* the serializer mirrors traversal: on a section that denotes a tree within the two limits, the member is the value read
   off the listing that Resources.walk (the traversal of C12, C12_walk_repr) produces with the limits of fsck *)
Theorem json_resources_mirror_listing s kids :
  T.repr s (T.RDir 0 kids) = true -> (T.height (T.RDir 0 kids) <= R.FSCK_DEPTH)%nat -> T.size (T.RDir 0 kids) <= R.rs_len s / 8 ->
  WrapJsonRes.json_resources s =
  Ok (JArr (listing_json R.FSCK_DEPTH (R.rs_va s) 0 (fst (R.walk R.FSCK_DEPTH s 0 0 (R.fsck_budget s))))).
Proof.
  intros HR HH HS. rewrite (WrapJsonResProofs.json_resources_repr s kids HR HH HS).
  rewrite (RP.walk_repr s 0 kids R.FSCK_DEPTH 0 (R.fsck_budget s) HR HH HS). cbn [fst].
  rewrite (listing_json_flatten s (R.rs_va s) 0 kids R.FSCK_DEPTH 0 HH). reflexivity.
Qed.
