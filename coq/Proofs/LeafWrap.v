(* src/pe64/headers.rs Headers::{code_range, image_range}, compiled for pe32 and for pe64 and regenerated into
   gen/Leaf.v, equal Model/Wrap.v op_code_range / op_image_range on the optional-header fields they read (C19, C10). *)
From PV.Model Require Import Machine Mapping Views Headers Wrap.
From PV.gen Require Import Leaf.
From PV.Proofs Require Import BaseProofs LeafBase.
Ltac Zify.zify_post_hook ::= Z.div_mod_to_equations.
(* the source may change under these proofs: a step that does not finish fails instead of hanging the build *)
Set Default Timeout 120.

(* arguments in the declaration order of IMAGE_OPTIONAL_HEADER{32,64}: SizeOfCode, BaseOfCode / SizeOfImage, SizeOfHeaders *)
Lemma code_range_agrees : forall f m,
  (if f_64 f then L_pe64_headers_Headers_code_range else L_pe32_headers_Headers_code_range) (h_soc f m) (h_boc f m) = op_code_range f m /\
  (if f_64 f then L_pe64_headers_Headers_code_range_ok else L_pe32_headers_Headers_code_range_ok) (h_soc f m) (h_boc f m) = true.
Proof. intros f m. destruct (f_64 f); split; reflexivity. Qed.

Lemma image_range_agrees : forall f m,
  (if f_64 f then L_pe64_headers_Headers_image_range else L_pe32_headers_Headers_image_range) (h_soi f m) (h_soh f m) = op_image_range f m /\
  (if f_64 f then L_pe64_headers_Headers_image_range_ok else L_pe32_headers_Headers_image_range_ok) (h_soi f m) (h_soh f m) = true.
Proof. intros f m. destruct (f_64 f); split; reflexivity. Qed.

(* what each binder of the generated definitions stands for in the source (third audit, F2): a function that starts
   reading another field or index changes coq/gen/Leaf.v only in these lists *)
From Coq Require Import List String.
Import ListNotations.
Lemma leaf_reads_wrap :
  L_pe32_headers_Headers_code_range_args = ["optional_header.SizeOfCode : u32"%string; "optional_header.BaseOfCode : u32"%string] /\
  L_pe32_headers_Headers_image_range_args = ["optional_header.SizeOfImage : u32"%string; "optional_header.SizeOfHeaders : u32"%string] /\
  L_pe64_headers_Headers_code_range_args = ["optional_header.SizeOfCode : u32"%string; "optional_header.BaseOfCode : u32"%string] /\
  L_pe64_headers_Headers_image_range_args = ["optional_header.SizeOfImage : u32"%string; "optional_header.SizeOfHeaders : u32"%string].
Proof. repeat split; reflexivity. Qed.
