(* Proofs for C06, second layer: every typed read that succeeds on the file view of F succeeds on the
   mapped view of to_view(F) and returns the same bytes; from that, the directory parsers.
   Part 1 is abstract in the two slicing functions; part 2 instantiates it with slice (RVA path) and read
   (VA path) of the two views; part 3 are the directory parsers. *)
From PV.Model Require Import Machine Mapping Views Headers Convert.
From PV.Model Require Dirs Relocs Rich Exports Imports Resources.
From PV.gen Require Import Layout.
From PV.Spec Require Import MappingSpec ConvertSpec ConvertSimSpec.
From PV.Spec Require RichSpec.
From PV.Proofs Require Import BaseProofs MappingProofs ConvertProofs.
From PV.Proofs Require RichProofs.
Ltac Zify.zify_post_hook ::= Z.div_mod_to_equations.

(* ================================================================ 0. little things *)
Lemma le_value_ext g1 g2 : forall n o1 o2,
  (forall j, j < N.of_nat n -> g1 (o1 + j) = g2 (o2 + j)) -> le_value g1 o1 n = le_value g2 o2 n.
Proof.
  induction n as [|n IH]; intros o1 o2 H; cbn [le_value]; [reflexivity|].
  pose proof (H 0 ltac:(lia)) as H0. rewrite !N.add_0_r in H0. rewrite H0. f_equal. f_equal.
  apply IH. intros j Hj. replace (o1 + 1 + j) with (o1 + (j + 1)) by lia. replace (o2 + 1 + j) with (o2 + (j + 1)) by lia.
  apply H. lia.
Qed.

Lemma map_seq_ext {A} (f g : nat -> A) n : forall s, (forall k, (s <= k < s + n)%nat -> f k = g k) -> map f (seq s n) = map g (seq s n).
Proof.
  induction n as [|n IH]; intros s H; cbn [seq map]; [reflexivity|]. f_equal; [apply H; lia|]. apply IH. intros k Hk. apply H. lia.
Qed.

Lemma region_bytes_sim gF gV r r' : region_sim gF gV r r' -> region_bytes gF r = region_bytes gV r'.
Proof.
  intros [Hl Hb]. unfold region_bytes. rewrite Hl. apply map_seq_ext. intros k Hk. apply Hb. lia.
Qed.

Lemma region_sim_le_value gF gV r r' o n : region_sim gF gV r r' -> o + N.of_nat n <= r_len r ->
  le_value gF (r_off r + o) n = le_value gV (r_off r' + o) n.
Proof.
  intros [_ Hb] Hn. apply le_value_ext. intros j Hj. rewrite <- !N.add_assoc. apply Hb. lia.
Qed.

(* alignment carries over between two buffers whose addresses are congruent *)
Lemma mod_mod_divide x a q : a <> 0 -> q <> 0 -> (x mod (a * q)) mod a = x mod a.
Proof.
  intros Ha Hq. rewrite N.mod_mul_r by assumption. rewrite (N.mul_comm a). rewrite N.mod_add by assumption.
  apply N.mod_mod. exact Ha.
Qed.
Lemma align_compat_transfer al aF aV x : align_compat al aF aV = true ->
  aligned_to al (wadd64 aF x) = true -> aligned_to al (wadd64 aV x) = true.
Proof.
  unfold align_compat, aligned_to, wadd64. rewrite andb_true_iff, !N.eqb_eq. intros [Hd Hc] H.
  assert (Hal : al <> 0). { intros ->. vm_compute in Hd. discriminate. }
  assert (Hq : W64 = al * (W64 / al)). { apply N.div_exact; assumption. }
  assert (Hq0 : W64 / al <> 0). { intros E. rewrite E, N.mul_0_r in Hq. vm_compute in Hq. discriminate. }
  remember (W64 / al) as q eqn:Eq. clear Eq Hd. revert H. generalize W64 Hq. intros W ->.
  rewrite !mod_mod_divide by assumption. intros H.
  rewrite N.add_mod by exact Hal. rewrite Hc. rewrite <- N.add_mod by exact Hal. exact H.
Qed.
Lemma align_compat_1 aF aV : align_compat 1 aF aV = true.
Proof. unfold align_compat. rewrite !N.mod_1_r. reflexivity. Qed.

(* the loop of the sentinel readers *)
Lemma scan_f_ge get p off blen size : forall fuel n m, scan_f get fuel p off blen size n = Ok m -> n <= m.
Proof.
  induction fuel as [|fuel IH]; intros n m H; cbn [scan_f] in H; [discriminate|].
  destruct (blen <? n * size + size); [discriminate|].
  destruct (p (le_value get (off + n * size) (N.to_nat size))); [injection H as <-; lia|].
  apply IH in H. lia.
Qed.
Lemma scan_f_bound get p off blen size : forall fuel n m, scan_f get fuel p off blen size n = Ok m -> (m + 1) * size <= blen.
Proof.
  induction fuel as [|fuel IH]; intros n m H; cbn [scan_f] in H; [discriminate|].
  destruct (blen <? n * size + size) eqn:E; [discriminate|].
  destruct (p (le_value get (off + n * size) (N.to_nat size))); [injection H as <-; lia|].
  apply IH in H. exact H.
Qed.
Lemma scan_f_mono gF gV p oF oV bF bV size : 0 < size -> forall fF n m fV,
  scan_f gF fF p oF bF size n = Ok m ->
  (forall j, j < (m + 1) * size -> gF (oF + j) = gV (oV + j)) -> (m + 1) * size <= bV ->
  (N.to_nat (m - n) < fV)%nat ->
  scan_f gV fV p oV bV size n = Ok m.
Proof.
  intros Hsz. induction fF as [|fF IH]; intros n m fV H Heq Hb Hf; cbn [scan_f] in H; [discriminate|].
  pose proof (scan_f_ge gF p oF bF size (S fF) n m) as Hge. cbn [scan_f] in Hge. specialize (Hge H).
  destruct fV as [|fV]; [lia|]. cbn [scan_f].
  assert (Hn : n * size + size <= (m + 1) * size) by nia.
  destruct (bV <? n * size + size) eqn:E; [lia|].
  assert (Hv : le_value gV (oV + n * size) (N.to_nat size) = le_value gF (oF + n * size) (N.to_nat size)).
  { symmetry. apply le_value_ext. intros j Hj. rewrite <- !N.add_assoc. apply Heq. lia. }
  rewrite Hv. destruct (bF <? n * size + size); [discriminate|].
  destruct (p (le_value gF (oF + n * size) (N.to_nat size))); [exact H|].
  pose proof (scan_f_ge _ _ _ _ _ _ _ _ H) as Hge2.
  apply (IH (n + 1) m fV H Heq Hb). lia.
Qed.

Lemma find_nul_lt get : forall n off i, find_nul get off n = Some i -> i < N.of_nat n.
Proof.
  induction n as [|n IH]; intros off i H; cbn [find_nul] in H; [discriminate|].
  destruct (get off =? 0); [injection H as <-; lia|].
  destruct (find_nul get (off + 1) n) as [i0|] eqn:E; [|discriminate]. injection H as <-. apply IH in E. lia.
Qed.

(* ================================================================ 1. the typed reads, abstractly *)
Section Sim.
  Variables (getF getV : N -> N) (slF slV : N -> N -> N -> res region).
  Variable alok : N -> Prop.            (* the alignments for which the two buffers are compatible *)
  Variables (K offV : N -> N).          (* per address: number of agreeing bytes; where the V region starts *)
  Hypothesis Hsim : forall a ms al rf, alok al -> slF a ms al = Ok rf ->
    exists rv, slV a ms al = Ok rv /\ r_off rv = offV a /\ r_len rf <= r_len rv /\
      forall j, j < K a -> getF (r_off rf + j) = getV (offV a + j).

  (* derva / deref: succeeds with the same length; the first min(size, K a) bytes are equal *)
  Lemma rd_sim a size al r : alok al -> rd slF a size al = Ok r ->
    exists r', rd slV a size al = Ok r' /\ r_off r' = offV a /\ r_len r' = r_len r /\
      forall j, j < N.min (r_len r) (K a) -> getF (r_off r + j) = getV (r_off r' + j).
  Proof.
    intros Hal H. unfold rd in *. destruct (slF a size al) as [rf|e|ft] eqn:E; try discriminate.
    cbn [bind] in H. injection H as <-. destruct (Hsim a size al rf Hal E) as [rv [Hv [Ho [Hl Hb]]]].
    rewrite Hv. cbn [bind]. eexists. split; [reflexivity|]. cbn [r_off r_len]. split; [exact Ho|]. split; [reflexivity|].
    intros j Hj. rewrite Ho. apply Hb. lia.
  Qed.
  Lemma rd_copy_sim a size r : alok 1 -> rd_copy slF a size = Ok r ->
    exists r', rd_copy slV a size = Ok r' /\ r_off r' = offV a /\ r_len r' = r_len r /\
      forall j, j < N.min (r_len r) (K a) -> getF (r_off r + j) = getV (r_off r' + j).
  Proof. exact (rd_sim a size 1 r). Qed.
  (* derva_slice *)
  Lemma rd_slice_sim a size al len r : alok al -> rd_slice slF a size al len = Ok r ->
    exists r', rd_slice slV a size al len = Ok r' /\ r_off r' = offV a /\ r_len r' = r_len r /\
      forall j, j < N.min (r_len r) (K a) -> getF (r_off r + j) = getV (r_off r' + j).
  Proof.
    intros Hal H. unfold rd_slice in *. destruct (checked_mul W64 size len) as [m|]; [|discriminate].
    exact (rd_sim a m al r Hal H).
  Qed.
  (* derva_slice_f / _s: the elements up to and including the terminating one lie in the agreeing part *)
  Lemma rd_slice_f_sim a size al p r : alok al -> 0 < size -> rd_slice_f getF slF a size al p = Ok r ->
    r_len r + size <= K a ->
    exists r', rd_slice_f getV slV a size al p = Ok r' /\ r_off r' = offV a /\ r_len r' = r_len r /\
      forall j, j < r_len r + size -> getF (r_off r + j) = getV (r_off r' + j).
  Proof.
    intros Hal Hsz H HK. unfold rd_slice_f in *. destruct (slF a 0 al) as [rf|e|ft] eqn:E; try discriminate.
    cbn [bind] in H. destruct (Hsim a 0 al rf Hal E) as [rv [Hv [Ho [Hl Hb]]]]. rewrite Hv. cbn [bind].
    destruct (scan_f getF (S (N.to_nat (r_len rf / size))) p (r_off rf) (r_len rf) size 0) as [n|e|ft] eqn:Es; try discriminate.
    cbn [bind] in H. injection H as <-. cbn [r_off r_len] in *.
    pose proof (scan_f_bound _ _ _ _ _ _ _ _ Es) as Hbd.
    assert (Hnn : (n + 1) * size = n * size + size) by lia.
    rewrite (scan_f_mono getF getV p (r_off rf) (r_off rv) (r_len rf) (r_len rv) size Hsz _ 0 n _ Es).
    - cbn [bind]. eexists. split; [reflexivity|]. cbn [r_off r_len]. split; [exact Ho|]. split; [reflexivity|].
      intros j Hj. rewrite Ho. apply Hb. lia.
    - intros j Hj. rewrite Ho. apply Hb. lia.
    - lia.
    - assert (n <= r_len rv / size). { apply N.div_le_lower_bound; lia. } lia.
  Qed.
  Lemma rd_slice_s_sim a size al s r : alok al -> 0 < size -> rd_slice_s getF slF a size al s = Ok r ->
    r_len r + size <= K a ->
    exists r', rd_slice_s getV slV a size al s = Ok r' /\ r_off r' = offV a /\ r_len r' = r_len r /\
      forall j, j < r_len r + size -> getF (r_off r + j) = getV (r_off r' + j).
  Proof. exact (rd_slice_f_sim a size al (fun x => x =? s) r). Qed.
  (* derva_c_str: the string and its NUL lie in the agreeing part *)
  Lemma rd_c_str_sim a r : alok 1 -> rd_c_str getF slF a = Ok r -> r_len r <= K a ->
    exists r', rd_c_str getV slV a = Ok r' /\ r_off r' = offV a /\ r_len r' = r_len r /\
      forall j, j < r_len r -> getF (r_off r + j) = getV (r_off r' + j).
  Proof.
    intros Hal H HK. pose proof H as H'. unfold rd_c_str in H'. destruct (slF a 0 1) as [rf|e|ft] eqn:E; try discriminate.
    cbn [bind] in H'. destruct (find_nul getF (r_off rf) (N.to_nat (r_len rf))) as [i|] eqn:En; [|discriminate].
    injection H' as <-. cbn [r_off r_len] in *. apply find_nul_lt in En.
    destruct (Hsim a 0 1 rf Hal E) as [rv [Hv [Ho [Hl Hb]]]].
    pose proof (c_str_monotone getF getV slF slV a {| r_off := r_off rf; r_len := i + 1 |} rf rv (i + 1) E Hv) as M.
    cbn [r_len] in M. rewrite M; try lia; try exact H.
    - eexists. split; [reflexivity|]. cbn [r_off r_len]. split; [exact Ho|]. split; [reflexivity|].
      intros j Hj. rewrite Ho. apply Hb. lia.
    - intros j Hj. rewrite Ho. apply Hb. lia.
  Qed.

  (* ---- when the whole file slice agrees (no stored byte beyond the mapped part is non-zero):
          no proviso is left, every successful typed read is simulated with equal bytes ---- *)
  Section Full.
    Hypothesis Hmin : forall a ms al rf, slF a ms al = Ok rf -> ms <= r_len rf.
    Hypothesis Hfull : forall a ms al rf, slF a ms al = Ok rf -> r_len rf <= K a.

    Lemma rd_full a size al r : alok al -> rd slF a size al = Ok r ->
      exists r', rd slV a size al = Ok r' /\ r_off r' = offV a /\ region_sim getF getV r r'.
    Proof.
      intros Hal H. destruct (rd_sim a size al r Hal H) as [r' [A [B [C D]]]].
      exists r'. split; [exact A|]. split; [exact B|]. split; [exact C|]. intros j Hj. apply D.
      unfold rd in H. destruct (slF a size al) as [rf|e|ft] eqn:E; try discriminate. cbn [bind] in H. injection H as <-.
      cbn [r_len] in *. pose proof (Hmin _ _ _ _ E). pose proof (Hfull _ _ _ _ E). lia.
    Qed.
    Lemma rd_copy_full a size r : alok 1 -> rd_copy slF a size = Ok r ->
      exists r', rd_copy slV a size = Ok r' /\ r_off r' = offV a /\ region_sim getF getV r r'.
    Proof. exact (rd_full a size 1 r). Qed.
    Lemma rd_slice_full a size al len r : alok al -> rd_slice slF a size al len = Ok r ->
      exists r', rd_slice slV a size al len = Ok r' /\ r_off r' = offV a /\ region_sim getF getV r r'.
    Proof.
      intros Hal H. unfold rd_slice in *. destruct (checked_mul W64 size len) as [m|]; [|discriminate].
      exact (rd_full a m al r Hal H).
    Qed.
    Lemma rd_slice_f_full a size al p r : alok al -> 0 < size -> rd_slice_f getF slF a size al p = Ok r ->
      exists r', rd_slice_f getV slV a size al p = Ok r' /\ r_off r' = offV a /\ region_sim getF getV r r' /\
        forall j, j < r_len r + size -> getF (r_off r + j) = getV (r_off r' + j).
    Proof.
      intros Hal Hsz H. destruct (rd_slice_f_sim a size al p r Hal Hsz H) as [r' [A [B [C D]]]].
      - unfold rd_slice_f in H. destruct (slF a 0 al) as [rf|e|ft] eqn:E; try discriminate. cbn [bind] in H.
        destruct (scan_f getF (S (N.to_nat (r_len rf / size))) p (r_off rf) (r_len rf) size 0) as [n|e|ft] eqn:Es; try discriminate.
        cbn [bind] in H. injection H as <-. cbn [r_len]. pose proof (scan_f_bound _ _ _ _ _ _ _ _ Es). pose proof (Hfull _ _ _ _ E). lia.
      - exists r'. split; [exact A|]. split; [exact B|]. split; [|exact D]. split; [exact C|]. intros j Hj. apply D. lia.
    Qed.
    Lemma rd_slice_s_full a size al s r : alok al -> 0 < size -> rd_slice_s getF slF a size al s = Ok r ->
      exists r', rd_slice_s getV slV a size al s = Ok r' /\ r_off r' = offV a /\ region_sim getF getV r r' /\
        forall j, j < r_len r + size -> getF (r_off r + j) = getV (r_off r' + j).
    Proof. exact (rd_slice_f_full a size al (fun x => x =? s) r). Qed.
    Lemma rd_c_str_full a r : alok 1 -> rd_c_str getF slF a = Ok r ->
      exists r', rd_c_str getV slV a = Ok r' /\ r_off r' = offV a /\ region_sim getF getV r r'.
    Proof.
      intros Hal H. destruct (rd_c_str_sim a r Hal H) as [r' [A [B [C D]]]].
      - unfold rd_c_str in H. destruct (slF a 0 1) as [rf|e|ft] eqn:E; try discriminate. cbn [bind] in H.
        destruct (find_nul getF (r_off rf) (N.to_nat (r_len rf))) as [i|] eqn:En; [|discriminate].
        injection H as <-. cbn [r_len]. apply find_nul_lt in En. pose proof (Hfull _ _ _ _ E). lia.
      - exists r'. split; [exact A|]. split; [exact B|]. split; [exact C|exact D].
    Qed.
  End Full.
End Sim.

Lemma rd_len sl a size al r : rd sl a size al = Ok r -> r_len r = size.
Proof. unfold rd. destruct (sl a size al); cbn [bind]; try discriminate. intros H. injection H as <-. reflexivity. Qed.
Lemma rd_slice_len sl a size al n r : rd_slice sl a size al n = Ok r -> r_len r = size * n.
Proof.
  unfold rd_slice, checked_mul. destruct (size * n <? W64); [|discriminate].
  destruct (sl a (size * n) al); cbn [bind]; try discriminate. intros H. injection H as <-. reflexivity.
Qed.

Lemma rf_table_ext g1 g2 : forall n o1 o2, (forall j, j < 12 * N.of_nat n -> g1 (o1 + j) = g2 (o2 + j)) ->
  Dirs.rf_table g1 o1 n = Dirs.rf_table g2 o2 n.
Proof.
  induction n as [|n IH]; intros o1 o2 H; cbn [Dirs.rf_table]; [reflexivity|]. unfold Dirs.u32at. f_equal.
  - f_equal; [apply le_value_ext; intros j Hj; apply H; lia| |];
      apply le_value_ext; intros j Hj; rewrite <- !N.add_assoc; apply H; lia.
  - apply IH. intros j Hj. rewrite <- !N.add_assoc. apply H. lia.
Qed.
Lemma ddir_table_ext g1 g2 : forall n o1 o2, (forall j, j < 28 * N.of_nat n -> g1 (o1 + j) = g2 (o2 + j)) ->
  map ddir_vals (Dirs.ddir_table g1 o1 n) = map ddir_vals (Dirs.ddir_table g2 o2 n).
Proof.
  induction n as [|n IH]; intros o1 o2 H; cbn [Dirs.ddir_table map]; [reflexivity|]. f_equal.
  - unfold ddir_vals, Dirs.ddir_at, Dirs.u32at.
    cbn [Dirs.dd_time Dirs.dd_type Dirs.dd_size Dirs.dd_addr Dirs.dd_ptr].
    assert (E : forall o, o + 4 <= 28 -> le_value g1 (o1 + o) 4 = le_value g2 (o2 + o) 4).
    { intros o Ho. apply le_value_ext. intros j Hj. rewrite <- !N.add_assoc. apply H. lia. }
    rewrite !E by lia. reflexivity.
  - apply IH. intros j Hj. rewrite <- !N.add_assoc. apply H. lia.
Qed.

Lemma range_file_not_null len secs rva ms : range_file len secs rva ms <> Err ENull.
Proof.
  induction secs as [|s secs IH]; cbn [range_file]; [discriminate|].
  destruct ((s_va s <=? rva) && (rva <? wadd32 (s_va s) (N.max (s_vs s) (s_srd s)))); [|exact IH].
  destruct (get_range len (s_prd s) (wadd32 (s_prd s) (s_srd s))) as [sb|]; [|discriminate].
  destruct (get_from (r_len sb) (rva - s_va s)) as [b|].
  - destruct (ms <=? r_len b); [discriminate|]. destruct (_ <? ms); discriminate.
  - destruct (_ <? ms); discriminate.
Qed.

Lemma align_compat_half al aF aV : align_compat (2 * al) aF aV = true -> al <> 0 -> align_compat al aF aV = true.
Proof.
  unfold align_compat. rewrite !andb_true_iff, !N.eqb_eq. intros [Hd Hc] Hal.
  assert (E : forall x, x mod al = (x mod (2 * al)) mod al).
  { intros x. rewrite (N.mul_comm 2 al). symmetry. apply mod_mod_divide; [exact Hal|discriminate]. }
  split.
  - rewrite (E W64), Hd. apply N.mod_0_l. exact Hal.
  - rewrite (E aV), (E aF), Hc. reflexivity.
Qed.

(* the export lookups are monotone in derva_c_str: if every string the file view reads is read identically
   by the other view, every lookup that succeeds gives the same answer *)
Section CstrMono.
  Variables cF cV : N -> res (list N).
  Hypothesis Hc : forall a s, cF a = Ok s -> cV a = Ok s.
  Variable t : Exports.tables.

  Lemma symbol_from_rva_mono rva e : Exports.symbol_from_rva cF t rva = Ok e -> Exports.symbol_from_rva cV t rva = Ok e.
  Proof.
    unfold Exports.symbol_from_rva. destruct (rva =? 0); [discriminate|]. destruct (Exports.is_forwarded t rva); [|exact (fun H => H)].
    destruct (cF rva) as [s|x|ft] eqn:E; cbn [bind]; try discriminate. rewrite (Hc _ _ E). exact (fun H => H).
  Qed.
  Lemma index_mono i e : Exports.index cF t i = Ok e -> Exports.index cV t i = Ok e.
  Proof. unfold Exports.index. destruct (Exports.nthN (Exports.t_funcs t) i); [apply symbol_from_rva_mono|discriminate]. Qed.
  Lemma hint_mono h e : Exports.hint cF t h = Ok e -> Exports.hint cV t h = Ok e.
  Proof. unfold Exports.hint. destruct (Exports.nthN (Exports.t_idxs t) h); [apply index_mono|discriminate]. Qed.
  Lemma ordinal_mono o e : Exports.ordinal cF t o = Ok e -> Exports.ordinal cV t o = Ok e.
  Proof. unfold Exports.ordinal. destruct (o <? Exports.t_base t); [discriminate|apply index_mono]. Qed.
  Lemma name_of_hint_mono h s : Exports.name_of_hint cF t h = Ok s -> Exports.name_of_hint cV t h = Ok s.
  Proof. unfold Exports.name_of_hint. destruct (Exports.nthN (Exports.t_names t) h); [apply Hc|discriminate]. Qed.
  Lemma bsearch_mono nm : forall fuel lo hi e,
    Exports.bsearch cF t fuel lo hi nm = Ok e -> Exports.bsearch cV t fuel lo hi nm = Ok e.
  Proof.
    induction fuel as [|fuel IH]; intros lo hi e; cbn [Exports.bsearch]; [discriminate|].
    destruct (lo =? hi); [discriminate|]. destruct (chk_sub hi lo) as [d|x|ft]; cbn [bind]; try discriminate.
    destruct (chk_add W64 lo (d / 2)) as [i|x|ft]; cbn [bind]; try discriminate.
    destruct (Exports.nthN (Exports.t_names t) i) as [rva|]; [|discriminate].
    destruct (cF rva) as [s|x|ft] eqn:E; cbn [bind]; try discriminate. rewrite (Hc _ _ E). cbn [bind].
    destruct (Exports.lex_cmp nm s).
    - destruct (Exports.nthN (Exports.t_idxs t) i); [apply index_mono|discriminate].
    - apply IH.
    - destruct (chk_add W64 i 1) as [i1|x|ft]; cbn [bind]; try discriminate. apply IH.
  Qed.
  Lemma name_mono nm e : Exports.name cF t nm = Ok e -> Exports.name cV t nm = Ok e.
  Proof. apply bsearch_mono. Qed.
End CstrMono.

(* ================================================================ 2. the two views of one image *)
Lemma range_file_lt len secs rva ms r : range_file len secs rva ms = Ok r -> rva < W32.
Proof.
  induction secs as [|s secs IH]; cbn [range_file]; [discriminate|].
  destruct ((s_va s <=? rva) && (rva <? wadd32 (s_va s) (N.max (s_vs s) (s_srd s)))) eqn:E; [|exact IH].
  intros _. unfold wadd32 in E.
  assert (H : (s_va s + N.max (s_vs s) (s_srd s)) mod W32 < W32) by (apply N.mod_upper_bound; discriminate). lia.
Qed.

Lemma slice_file_inv base len secs a ms al rf : slice_file base len secs a ms al = Ok rf ->
  a <> 0 /\ aligned_to al (wadd64 base a) = true /\ range_file len secs a ms = Ok rf.
Proof.
  unfold slice_file. destruct (a =? 0) eqn:E0; [discriminate|].
  destruct (aligned_to al (wadd64 base a)); cbn [negb]; [|discriminate].
  destruct (range_file len secs a ms) as [r|e|ft]; cbn [bind]; try discriminate.
  destruct (aligned_to al (base + r_off r)); cbn [negb]; [|discriminate]. intros H. injection H as <-.
  repeat split. lia.
Qed.
Lemma read_file_inv v va ms al rf : read_file v va ms al = Ok rf ->
  va <> 0 /\ v_base v <= va /\ va - v_base v <= v_soi v /\
  aligned_to al (wadd64 (v_addr v) ((va - v_base v) mod W32)) = true /\
  range_file (v_len v) (v_secs v) ((va - v_base v) mod W32) ms = Ok rf.
Proof.
  unfold read_file. destruct (va =? 0) eqn:E0; [discriminate|].
  destruct ((va <? v_base v) || (v_soi v <? va - v_base v)) eqn:E1; [discriminate|].
  destruct (aligned_to al (wadd64 (v_addr v) ((va - v_base v) mod W32))); cbn [negb]; [|discriminate].
  destruct (range_file (v_len v) (v_secs v) ((va - v_base v) mod W32) ms) as [r|e|ft]; cbn [bind]; try discriminate.
  destruct (aligned_to al (v_addr v + r_off r)); cbn [negb]; [|discriminate]. intros H. injection H as <-.
  repeat split; lia.
Qed.

Lemma not_class_all F secs s : raw_tail_not_mapped F secs = false -> In s secs -> raw_tail_zero F s = true.
Proof.
  unfold raw_tail_not_mapped. intros H Hin. destruct (raw_tail_zero F s) eqn:E; [reflexivity|exfalso].
  assert (X : existsb (fun s => negb (raw_tail_zero F s)) secs = true) by (apply existsb_exists; exists s; rewrite E; auto).
  congruence.
Qed.

Section Setting.
  Variables (img V : list N) (soh soi : N) (secs : list section).
  Hypothesis Hset : conv_setting img soh soi secs V.

  (* the core: one successful range_file lookup, seen in the converted buffer *)
  Lemma range_sim rva ms r : range_file (lenN img) secs rva ms = Ok r ->
    exists s, first_v secs rva = Some s /\ In s secs /\ s_va s <= rva /\
      r_off r = s_prd s + (rva - s_va s) /\ r_len r = s_srd s - (rva - s_va s) /\
      ms <= r_len r /\ rva + r_len r <= soi /\ lenN V = soi /\ soi < W32 /\
      agree_len (byte_at img) secs rva <= r_len r /\
      (raw_tail_zero (byte_at img) s = true -> agree_len (byte_at img) secs rva = r_len r) /\
      (forall k, k < agree_len (byte_at img) secs rva -> byte_at img (r_off r + k) = byte_at V (rva + k)).
  Proof.
    intros H. destruct Hset as [Hs [H1 [H2 [Hwf HV]]]].
    pose proof (range_file_lt _ _ _ _ _ H) as Hr.
    rewrite (range_file_correct _ _ _ _ Hs Hr) in H.
    destruct (first_v secs rva) as [s|] eqn:Hf; [|discriminate].
    destruct ((W32 <=? s_prd s + s_srd s) || (lenN img <? s_prd s + s_srd s)) eqn:E1; [discriminate|]. cbv zeta in H.
    destruct ((rva - s_va s <=? s_srd s) && (ms <=? s_srd s - (rva - s_va s))) eqn:E2; [|discriminate].
    injection H as <-. cbn [r_off r_len]. exists s. split; [reflexivity|].
    pose proof Hf as Hf'. unfold first_v in Hf'. apply find_some in Hf'. destruct Hf' as [Hin Hiv]. unfold in_virtual in Hiv.
    destruct (to_view_wf img soh soi secs V Hs H1 H2 Hwf HV) as [Hl [_ [Hsec Hzero]]].
    destruct (wf_inv _ _ _ _ Hwf) as [Hsoi [Hb Hdis]]. destruct (Hb s Hin) as [S1 [S2 [S3 S4]]].
    unfold agree_len. rewrite Hf.
    assert (Hm : mapped_len s <= s_srd s /\ mapped_len s <= s_vs s) by (unfold mapped_len; lia).
    split; [exact Hin|]. split; [lia|]. split; [reflexivity|]. split; [reflexivity|]. split; [lia|].
    split; [unfold vext in *; lia|]. split; [exact Hl|]. split; [exact Hsoi|].
    split; [destruct (raw_tail_zero (byte_at img) s); lia|].
    split; [intros ->; reflexivity|].
    intros k Hk. destruct (N.lt_ge_cases (rva - s_va s + k) (mapped_len s)) as [Hk'|Hk'].
    - replace (rva + k) with (s_va s + (rva - s_va s + k)) by lia.
      rewrite Hsec by (assumption || lia). f_equal. lia.
    - destruct (raw_tail_zero (byte_at img) s) eqn:Hz; [|lia].
      assert (Hvs : s_vs s <= rva - s_va s + k) by (unfold mapped_len in Hk'; lia).
      replace (s_prd s + (rva - s_va s) + k) with (s_prd s + (rva - s_va s + k)) by lia.
      rewrite (raw_tail_zero_inv _ s Hz) by lia. symmetry. apply Hzero; [lia|].
      intros t Ht [A B]. destruct (Hdis s t Hin Ht) as [<-|Hd]; [lia|].
      unfold disjoint_v, vext, mapped_len in *. lia.
  Qed.

  Variables (addrF addrV w base : N).
  Local Notation vf := (file_view addrF w base soh soi secs img).
  Local Notation vv := (mapped_view addrV w base soh soi secs V).
  Local Notation gF := (byte_at img).
  Local Notation gV := (byte_at V).
  Local Notation KK p := (fun a => agree_len (byte_at img) secs (rva_of p base a)).
  Definition alokC (al : N) : Prop := align_compat al addrF addrV = true.

  (* what a successful slice / read of the file view is *)
  Lemma sl_file_inv p a ms al rf : sl_of p vf a ms al = Ok rf ->
    aligned_to al (wadd64 addrF (rva_of p base a)) = true /\ range_file (lenN img) secs (rva_of p base a) ms = Ok rf /\
    match p with RvaPath => a <> 0 | VaPath => a <> 0 /\ base <= a /\ a - base <= soi end.
  Proof.
    destruct Hset as [_ [_ [_ [Hwf _]]]]. destruct (wf_inv _ _ _ _ Hwf) as [Hsoi _].
    destruct p; cbn [sl_of rva_of]; unfold slice, read; cbn [file_view v_file v_addr v_len v_secs]; intros H.
    - apply slice_file_inv in H. tauto.
    - apply read_file_inv in H. cbn [file_view v_base v_soi v_addr v_len v_secs] in H.
      destruct H as [A [B [C [D E]]]]. rewrite N.mod_small in D, E by lia. tauto.
  Qed.

  (* the simulation of the slicing functions, both families at once *)
  Lemma sl_sim p a ms al rf : alokC al -> sl_of p vf a ms al = Ok rf ->
    exists rv, sl_of p vv a ms al = Ok rv /\ r_off rv = rva_of p base a /\ r_len rf <= r_len rv /\
      forall j, j < KK p a -> gF (r_off rf + j) = gV (rva_of p base a + j).
  Proof.
    intros Hal H. destruct (sl_file_inv p a ms al rf H) as [Ha [Hr Hp]].
    destruct (range_sim _ _ _ Hr) as [s [Hf [Hin [Hva [Ho [Hlen [Hms [Hend [Hl [Hsoi [Hag [_ Hb]]]]]]]]]]]].
    pose proof (align_compat_transfer al addrF addrV _ Hal Ha) as HaV.
    exists {| r_off := rva_of p base a; r_len := soi - rva_of p base a |}. cbn [r_off r_len].
    split; [|split; [reflexivity|split; [lia|exact Hb]]].
    destruct p; cbn [sl_of rva_of] in *; unfold slice, read; cbn [mapped_view v_file v_addr v_len v_secs].
    - unfold slice_section. destruct (a =? 0) eqn:E0; [lia|]. rewrite HaV. cbn [negb].
      unfold get_from. rewrite Hl. destruct (a <=? soi) eqn:E1; [|lia]. cbn [r_len].
      destruct (ms <=? soi - a) eqn:E2; [reflexivity|lia].
    - unfold read_section. cbn [mapped_view v_base v_soi v_addr v_len]. destruct Hp as [P1 [P2 P3]].
      destruct (a =? 0) eqn:E0; [lia|]. destruct ((a <? base) || (soi <? a - base)) eqn:E3; [lia|].
      rewrite HaV. cbn [negb]. unfold get_from. rewrite Hl. destruct (a - base <=? soi) eqn:E1; [|lia]. cbn [r_len].
      destruct (ms <=? soi - (a - base)) eqn:E2; [reflexivity|lia].
  Qed.
  Lemma sl_min p a ms al rf : sl_of p vf a ms al = Ok rf -> ms <= r_len rf.
  Proof.
    intros H. destruct (sl_file_inv p a ms al rf H) as [_ [Hr _]].
    destruct (range_sim _ _ _ Hr) as [s [_ [_ [_ [_ [_ [Hms _]]]]]]]. exact Hms.
  Qed.
  Lemma sl_full p a ms al rf : raw_tail_not_mapped gF secs = false -> sl_of p vf a ms al = Ok rf -> r_len rf <= KK p a.
  Proof.
    intros Hz H. destruct (sl_file_inv p a ms al rf H) as [_ [Hr _]].
    destruct (range_sim _ _ _ Hr) as [s [_ [Hin [_ [_ [_ [_ [_ [_ [_ [_ [Hfull _]]]]]]]]]]]].
    rewrite (Hfull (not_class_all _ _ _ Hz Hin)). lia.
  Qed.

  (* ---- the typed reads of the two views: general form with the proviso ---- *)
  Lemma v_rd_sim p a size al r : alokC al -> rd (sl_of p vf) a size al = Ok r ->
    exists r', rd (sl_of p vv) a size al = Ok r' /\ r_off r' = rva_of p base a /\ r_len r' = r_len r /\
      forall j, j < N.min (r_len r) (agree_len gF secs (rva_of p base a)) -> gF (r_off r + j) = gV (r_off r' + j).
  Proof. exact (rd_sim gF gV (sl_of p vf) (sl_of p vv) alokC (KK p) (rva_of p base) (sl_sim p) a size al r). Qed.
  Lemma v_rd_copy_sim p a size r : rd_copy (sl_of p vf) a size = Ok r ->
    exists r', rd_copy (sl_of p vv) a size = Ok r' /\ r_off r' = rva_of p base a /\ r_len r' = r_len r /\
      forall j, j < N.min (r_len r) (agree_len gF secs (rva_of p base a)) -> gF (r_off r + j) = gV (r_off r' + j).
  Proof. exact (rd_copy_sim gF gV (sl_of p vf) (sl_of p vv) alokC (KK p) (rva_of p base) (sl_sim p) a size r (align_compat_1 _ _)). Qed.
  Lemma v_rd_slice_sim p a size al len r : alokC al -> rd_slice (sl_of p vf) a size al len = Ok r ->
    exists r', rd_slice (sl_of p vv) a size al len = Ok r' /\ r_off r' = rva_of p base a /\ r_len r' = r_len r /\
      forall j, j < N.min (r_len r) (agree_len gF secs (rva_of p base a)) -> gF (r_off r + j) = gV (r_off r' + j).
  Proof. exact (rd_slice_sim gF gV (sl_of p vf) (sl_of p vv) alokC (KK p) (rva_of p base) (sl_sim p) a size al len r). Qed.
  Lemma v_rd_slice_f_sim p a size al q r : alokC al -> 0 < size -> rd_slice_f gF (sl_of p vf) a size al q = Ok r ->
    inside_agree gF secs (rva_of p base a) (r_len r + size) = true ->
    exists r', rd_slice_f gV (sl_of p vv) a size al q = Ok r' /\ r_off r' = rva_of p base a /\ r_len r' = r_len r /\
      forall j, j < r_len r + size -> gF (r_off r + j) = gV (r_off r' + j).
  Proof.
    intros A B C D. apply (rd_slice_f_sim gF gV (sl_of p vf) (sl_of p vv) alokC (KK p) (rva_of p base) (sl_sim p) a size al q r A B C).
    unfold inside_agree in D. lia.
  Qed.
  Lemma v_rd_slice_s_sim p a size al s r : alokC al -> 0 < size -> rd_slice_s gF (sl_of p vf) a size al s = Ok r ->
    inside_agree gF secs (rva_of p base a) (r_len r + size) = true ->
    exists r', rd_slice_s gV (sl_of p vv) a size al s = Ok r' /\ r_off r' = rva_of p base a /\ r_len r' = r_len r /\
      forall j, j < r_len r + size -> gF (r_off r + j) = gV (r_off r' + j).
  Proof. exact (v_rd_slice_f_sim p a size al (fun x => x =? s) r). Qed.
  Lemma v_rd_c_str_sim p a r : rd_c_str gF (sl_of p vf) a = Ok r ->
    inside_agree gF secs (rva_of p base a) (r_len r) = true ->
    exists r', rd_c_str gV (sl_of p vv) a = Ok r' /\ r_off r' = rva_of p base a /\ r_len r' = r_len r /\
      forall j, j < r_len r -> gF (r_off r + j) = gV (r_off r' + j).
  Proof.
    intros C D. apply (rd_c_str_sim gF gV (sl_of p vf) (sl_of p vv) alokC (KK p) (rva_of p base) (sl_sim p) a r (align_compat_1 _ _) C).
    unfold inside_agree in D. lia.
  Qed.

  (* ---- outside the class raw_tail_not_mapped: no proviso ---- *)
  Hypothesis Hz : raw_tail_not_mapped gF secs = false.

  Lemma v_rd_full p a size al r : alokC al -> rd (sl_of p vf) a size al = Ok r ->
    exists r', rd (sl_of p vv) a size al = Ok r' /\ r_off r' = rva_of p base a /\ region_sim gF gV r r'.
  Proof.
    exact (rd_full gF gV (sl_of p vf) (sl_of p vv) alokC (KK p) (rva_of p base) (sl_sim p) (sl_min p)
             (fun a ms al rf => sl_full p a ms al rf Hz) a size al r).
  Qed.
  Lemma v_rd_slice_full p a size al len r : alokC al -> rd_slice (sl_of p vf) a size al len = Ok r ->
    exists r', rd_slice (sl_of p vv) a size al len = Ok r' /\ r_off r' = rva_of p base a /\ region_sim gF gV r r'.
  Proof.
    exact (rd_slice_full gF gV (sl_of p vf) (sl_of p vv) alokC (KK p) (rva_of p base) (sl_sim p) (sl_min p)
             (fun a ms al rf => sl_full p a ms al rf Hz) a size al len r).
  Qed.
  Lemma v_rd_slice_f_full p a size al q r : alokC al -> 0 < size -> rd_slice_f gF (sl_of p vf) a size al q = Ok r ->
    exists r', rd_slice_f gV (sl_of p vv) a size al q = Ok r' /\ r_off r' = rva_of p base a /\ region_sim gF gV r r' /\
      forall j, j < r_len r + size -> gF (r_off r + j) = gV (r_off r' + j).
  Proof.
    exact (rd_slice_f_full gF gV (sl_of p vf) (sl_of p vv) alokC (KK p) (rva_of p base) (sl_sim p) (sl_min p)
             (fun a ms al rf => sl_full p a ms al rf Hz) a size al q r).
  Qed.
  Lemma v_rd_slice_s_full p a size al s r : alokC al -> 0 < size -> rd_slice_s gF (sl_of p vf) a size al s = Ok r ->
    exists r', rd_slice_s gV (sl_of p vv) a size al s = Ok r' /\ r_off r' = rva_of p base a /\ region_sim gF gV r r' /\
      forall j, j < r_len r + size -> gF (r_off r + j) = gV (r_off r' + j).
  Proof. exact (v_rd_slice_f_full p a size al (fun x => x =? s) r). Qed.
  Lemma v_rd_c_str_full p a r : rd_c_str gF (sl_of p vf) a = Ok r ->
    exists r', rd_c_str gV (sl_of p vv) a = Ok r' /\ r_off r' = rva_of p base a /\ region_sim gF gV r r'.
  Proof.
    exact (rd_c_str_full gF gV (sl_of p vf) (sl_of p vv) alokC (KK p) (rva_of p base) (sl_sim p) (sl_min p)
             (fun a ms al rf => sl_full p a ms al rf Hz) a r (align_compat_1 _ _)).
  Qed.

  (* ================================================================ 3. the directory parsers
     (outside the class raw_tail_not_mapped; [alokC al]: the two buffers are congruent modulo al) *)
  Lemma slice_null a ms al : slice vf a ms al = Err ENull -> slice vv a ms al = Err ENull.
  Proof.
    unfold slice; cbn [file_view mapped_view v_file v_addr v_len v_secs]. unfold slice_file, slice_section.
    destruct (a =? 0); [reflexivity|]. destruct (negb (aligned_to al (wadd64 addrF a))); [discriminate|].
    pose proof (range_file_not_null (lenN img) secs a ms) as Hn.
    destruct (range_file (lenN img) secs a ms) as [r|e|ft]; cbn [bind].
    - destruct (negb (aligned_to al (addrF + r_off r))); discriminate.
    - intros H. injection H as ->. exfalso. apply Hn. reflexivity.
    - discriminate.
  Qed.
  Lemma rd_slice_null a size al n : rd_slice (slice vf) a size al n = Err ENull -> rd_slice (slice vv) a size al n = Err ENull.
  Proof.
    unfold rd_slice. destruct (checked_mul W64 size n) as [m|]; [|discriminate].
    destruct (slice vf a m al) as [r|e|ft] eqn:E; cbn [bind]; try discriminate.
    intros H. injection H as ->. rewrite (slice_null _ _ _ E). reflexivity.
  Qed.

  (* ---- exception.rs ---- *)
  Lemma exception_sim dd r : alokC 4 -> Dirs.exception_try_from vf dd = Ok r ->
    exists r', Dirs.exception_try_from vv dd = Ok r' /\ r_off r' = fst (match dd with Some d => d | None => (0, 0) end) /\
      region_sim gF gV r r' /\ Dirs.exception_functions vf r = Dirs.exception_functions vv r'.
  Proof.
    intros Hal. unfold Dirs.exception_try_from. destruct dd as [[va size]|]; [|discriminate].
    destruct (negb (size mod 12 =? 0)); [discriminate|]. intros H.
    destruct (v_rd_slice_full RvaPath va 12 4 (size / 12) r Hal H) as [r' [A [B C]]].
    exists r'. split; [exact A|]. split; [exact B|]. split; [exact C|].
    unfold Dirs.exception_functions. cbn [file_view mapped_view v_get]. destruct C as [Cl Cb]. rewrite Cl.
    apply rf_table_ext. intros j Hj. apply Cb. lia.
  Qed.

  (* ---- debug.rs: the directory table (the payloads are addressed differently on the two kinds of view:
          PointerToRawData on a file, AddressOfRawData on a mapped image) ---- *)
  Lemma debug_sim dd r : alokC 4 -> Dirs.debug_try_from vf dd = Ok r ->
    exists r', Dirs.debug_try_from vv dd = Ok r' /\ region_sim gF gV r r' /\
      map ddir_vals (Dirs.debug_dirs vf r) = map ddir_vals (Dirs.debug_dirs vv r').
  Proof.
    intros Hal. unfold Dirs.debug_try_from. destruct dd as [[va size]|]; [|discriminate].
    destruct (negb (size mod 28 =? 0)); [discriminate|]. intros H.
    destruct (v_rd_slice_full RvaPath va 28 4 (size / 28) r Hal H) as [r' [A [B C]]].
    exists r'. split; [exact A|]. split; [exact C|].
    unfold Dirs.debug_dirs. cbn [file_view mapped_view v_get]. destruct C as [Cl Cb]. rewrite Cl.
    apply ddir_table_ext. intros j Hj. apply Cb. lia.
  Qed.

  (* ---- security.rs: only a file has a security directory ---- *)
  Lemma security_view dd : Dirs.security_try_from vv dd = Err EUnmapped.
  Proof. reflexivity. Qed.

  (* ---- tls.rs ---- *)
  Lemma va_size_eq : Dirs.va_size vv = Dirs.va_size vf.
  Proof. reflexivity. Qed.
  Lemma vaat_sim t t' o : region_sim gF gV t t' -> o + Dirs.va_size vf <= r_len t ->
    Dirs.vaat vf (r_off t + o) = Dirs.vaat vv (r_off t' + o).
  Proof.
    intros C Ho. unfold Dirs.vaat. rewrite va_size_eq. cbn [file_view mapped_view v_get].
    apply (region_sim_le_value gF gV t t' o _ C). lia.
  Qed.
  Lemma va_size_cases : (Dirs.va_size vf = 4 /\ Dirs.tls_dir_size vf = 24 /\ Dirs.lc_dir_size vf = 72 /\
                           Dirs.lc_cookie_off vf = 60 /\ Dirs.lc_table_off vf = 64 /\ Dirs.lc_count_off vf = 68) \/
                        (Dirs.va_size vf = 8 /\ Dirs.tls_dir_size vf = 40 /\ Dirs.lc_dir_size vf = 112 /\
                           Dirs.lc_cookie_off vf = 88 /\ Dirs.lc_table_off vf = 96 /\ Dirs.lc_count_off vf = 104).
  Proof.
    unfold Dirs.va_size, Dirs.tls_dir_size, Dirs.lc_dir_size, Dirs.lc_cookie_off, Dirs.lc_table_off, Dirs.lc_count_off.
    cbn [file_view v_w]. destruct (w =? W32); [left|right]; repeat split.
  Qed.

  Lemma tls_sim dd t : alokC (Dirs.va_size vf) -> Dirs.tls_try_from vf dd = Ok t ->
    exists t', Dirs.tls_try_from vv dd = Ok t' /\ region_sim gF gV t t' /\
      Dirs.tls_start vf t = Dirs.tls_start vv t' /\ Dirs.tls_end vf t = Dirs.tls_end vv t' /\
      Dirs.tls_index vf t = Dirs.tls_index vv t' /\ Dirs.tls_cb vf t = Dirs.tls_cb vv t' /\
      (forall r, Dirs.tls_raw_data vf t = Ok r -> exists r', Dirs.tls_raw_data vv t' = Ok r' /\ region_sim gF gV r r') /\
      (forall r, alokC 4 -> Dirs.tls_slot vf t = Ok r -> exists r', Dirs.tls_slot vv t' = Ok r' /\ region_sim gF gV r r') /\
      (forall r, Dirs.tls_callbacks vf t = Ok r -> exists r', Dirs.tls_callbacks vv t' = Ok r' /\ region_sim gF gV r r').
  Proof.
    intros Hal. unfold Dirs.tls_try_from. destruct dd as [[va size]|]; [|discriminate]. intros H.
    destruct (v_rd_full RvaPath va _ _ t Hal H) as [t' [A [B C]]]. pose proof (rd_len _ _ _ _ _ H) as Hlen.
    exists t'. split; [exact A|]. split; [exact C|].
    assert (F0 : Dirs.tls_start vf t = Dirs.tls_start vv t').
    { unfold Dirs.tls_start. rewrite <- (N.add_0_r (r_off t)), <- (N.add_0_r (r_off t')). apply vaat_sim; [exact C|].
      destruct va_size_cases as [[-> [E _]]|[-> [E _]]]; rewrite E in Hlen; lia. }
    assert (F1 : Dirs.tls_end vf t = Dirs.tls_end vv t').
    { unfold Dirs.tls_end. rewrite va_size_eq. apply vaat_sim; [exact C|].
      destruct va_size_cases as [[-> [E _]]|[-> [E _]]]; rewrite E in Hlen; lia. }
    assert (F2 : Dirs.tls_index vf t = Dirs.tls_index vv t').
    { unfold Dirs.tls_index. rewrite va_size_eq. apply vaat_sim; [exact C|].
      destruct va_size_cases as [[-> [E _]]|[-> [E _]]]; rewrite E in Hlen; lia. }
    assert (F3 : Dirs.tls_cb vf t = Dirs.tls_cb vv t').
    { unfold Dirs.tls_cb. rewrite va_size_eq. apply vaat_sim; [exact C|].
      destruct va_size_cases as [[-> [E _]]|[-> [E _]]]; rewrite E in Hlen; lia. }
    repeat (split; [assumption|]). split; [|split].
    - intros r. unfold Dirs.tls_raw_data. rewrite <- F0, <- F1. destruct (Dirs.tls_end vf t <? Dirs.tls_start vf t); [discriminate|].
      intros Hr. destruct (v_rd_slice_full VaPath _ 1 1 _ r (align_compat_1 _ _) Hr) as [r' [X [_ Z]]]. exists r'. split; [exact X|exact Z].
    - intros r Hal4. unfold Dirs.tls_slot. rewrite <- F2. intros Hr.
      destruct (v_rd_full VaPath _ 4 4 r Hal4 Hr) as [r' [X [_ Z]]]. exists r'. split; [exact X|exact Z].
    - intros r. unfold Dirs.tls_callbacks. rewrite <- F3, va_size_eq. intros Hr.
      assert (Hsz : 0 < Dirs.va_size vf) by (destruct va_size_cases as [[-> _]|[-> _]]; lia).
      destruct (v_rd_slice_s_full VaPath _ _ _ 0 r Hal Hsz Hr) as [r' [X [_ [Z _]]]]. exists r'. split; [exact X|exact Z].
  Qed.

  (* ---- load_config.rs ---- *)
  Lemma load_config_sim dd t : alokC (Dirs.va_size vf) -> Dirs.load_config_try_from vf dd = Ok t ->
    exists t', Dirs.load_config_try_from vv dd = Ok t' /\ region_sim gF gV t t' /\
      Dirs.lc_cookie_ptr vf t = Dirs.lc_cookie_ptr vv t' /\ Dirs.lc_table_ptr vf t = Dirs.lc_table_ptr vv t' /\
      Dirs.lc_count vf t = Dirs.lc_count vv t' /\
      (forall r, alokC 4 -> Dirs.lc_security_cookie vf t = Ok r -> exists r', Dirs.lc_security_cookie vv t' = Ok r' /\ region_sim gF gV r r') /\
      (forall r, Dirs.lc_se_handler_table vf t = Ok r -> exists r', Dirs.lc_se_handler_table vv t' = Ok r' /\ region_sim gF gV r r').
  Proof.
    intros Hal. unfold Dirs.load_config_try_from. destruct dd as [[va size]|]; [|discriminate]. intros H.
    destruct (v_rd_full RvaPath va _ _ t Hal H) as [t' [A [B C]]]. pose proof (rd_len _ _ _ _ _ H) as Hlen.
    exists t'. split; [exact A|]. split; [exact C|].
    assert (F0 : Dirs.lc_cookie_ptr vf t = Dirs.lc_cookie_ptr vv t').
    { unfold Dirs.lc_cookie_ptr. change (Dirs.lc_cookie_off vv) with (Dirs.lc_cookie_off vf). apply vaat_sim; [exact C|].
      destruct va_size_cases as [[-> [_ [E [-> _]]]]|[-> [_ [E [-> _]]]]]; rewrite E in Hlen; lia. }
    assert (F1 : Dirs.lc_table_ptr vf t = Dirs.lc_table_ptr vv t').
    { unfold Dirs.lc_table_ptr. change (Dirs.lc_table_off vv) with (Dirs.lc_table_off vf). apply vaat_sim; [exact C|].
      destruct va_size_cases as [[-> [_ [E [_ [-> _]]]]]|[-> [_ [E [_ [-> _]]]]]]; rewrite E in Hlen; lia. }
    assert (F2 : Dirs.lc_count vf t = Dirs.lc_count vv t').
    { unfold Dirs.lc_count. change (Dirs.lc_count_off vv) with (Dirs.lc_count_off vf). apply vaat_sim; [exact C|].
      destruct va_size_cases as [[-> [_ [E [_ [_ ->]]]]]|[-> [_ [E [_ [_ ->]]]]]]; rewrite E in Hlen; lia. }
    repeat (split; [assumption|]). split.
    - intros r Hal4. unfold Dirs.lc_security_cookie. rewrite <- F0. intros Hr.
      destruct (v_rd_full VaPath _ 4 4 r Hal4 Hr) as [r' [X [_ Z]]]. exists r'. split; [exact X|exact Z].
    - intros r. unfold Dirs.lc_se_handler_table. rewrite <- F1, <- F2, va_size_eq. intros Hr.
      destruct (v_rd_slice_full VaPath _ _ _ _ r Hal Hr) as [r' [X [_ Z]]]. exists r'. split; [exact X|exact Z].
  Qed.

  (* ---- base relocations: the directory bytes, hence everything Model/Relocs.v computes from them ---- *)
  Lemma relocs_sim dd r : alokC 4 -> relocs_try_from vf dd = Ok r ->
    exists r', relocs_try_from vv dd = Ok r' /\ region_sim gF gV r r' /\ relocs_data vf r = relocs_data vv r' /\
      Relocs.blocks (relocs_data vf r) = Relocs.blocks (relocs_data vv r') /\
      Relocs.fold_pairs (relocs_data vf r) = Relocs.fold_pairs (relocs_data vv r').
  Proof.
    intros Hal. unfold relocs_try_from. destruct dd as [[va size]|]; [|discriminate]. intros H.
    destruct (v_rd_full RvaPath va size 4 r Hal H) as [r' [A [B C]]].
    exists r'. split; [exact A|]. split; [exact C|].
    assert (E : relocs_data vf r = relocs_data vv r') by (apply region_bytes_sim; exact C).
    rewrite E. repeat split.
  Qed.

  (* ---- resources: the resource section both views hand to the parsers ---- *)
  Lemma resources_sim dd s : view_resources vf dd = Ok s ->
    exists s', view_resources vv dd = Ok s' /\ Resources.rs_va s' = Resources.rs_va s /\
      Resources.rs_len s <= Resources.rs_len s' /\
      (forall i, i < Resources.rs_len s -> Resources.rs_get s i = Resources.rs_get s' i) /\
      (forall va size, dd = Some (va, size) -> Resources.rs_len s = size -> Resources.rs_len s' = size).
  Proof.
    unfold view_resources. destruct dd as [[va size]|]; [|discriminate].
    destruct (slice vf va 0 1) as [rf|e|ft] eqn:E; cbn [bind]; try discriminate. intros H. injection H as <-.
    destruct (sl_sim RvaPath va 0 1 rf (align_compat_1 _ _) E) as [rv [A [B [C D]]]]. cbn [sl_of rva_of] in *.
    rewrite A. cbn [bind]. eexists. split; [reflexivity|]. cbn [Resources.rs_va Resources.rs_len Resources.rs_get file_view mapped_view v_get].
    split; [reflexivity|]. split; [lia|]. split.
    - intros i Hi. rewrite B. apply D. pose proof (sl_full RvaPath va 0 1 rf Hz E). cbn [rva_of] in *. lia.
    - intros va' size' Hd Hl. injection Hd as <- <-. lia.
  Qed.

  (* ---- exports.rs: the three tables and image.Base (values only - equal, not merely similar), the names,
          and the lookups by ordinal / index / hint / name ---- *)
  Lemma elems_sim size off off' n : (forall j, j < size * n -> gF (off + j) = gV (off' + j)) ->
    Exports.elems gF size off n = Exports.elems gV size off' n.
  Proof.
    intros H. unfold Exports.elems. apply map_seq_ext. intros k Hk. apply le_value_ext. intros j Hj.
    rewrite <- !N.add_assoc. apply H. nia.
  Qed.
  Lemma arr_sim a size n (l : list N) : alokC size ->
    Exports.null_as_empty (r <- rd_slice (slice vf) a size size n ;; Ok (Exports.elems gF size (r_off r) n)) = Ok l ->
    Exports.null_as_empty (r <- rd_slice (slice vv) a size size n ;; Ok (Exports.elems gV size (r_off r) n)) = Ok l.
  Proof.
    intros Hal H. destruct (rd_slice (slice vf) a size size n) as [r|e|ft] eqn:E; cbn [bind] in H.
    - destruct (v_rd_slice_full RvaPath a size size n r Hal E) as [r' [A [_ [Cl Cb]]]]. cbn [sl_of] in A. rewrite A.
      cbn [bind Exports.null_as_empty] in *. injection H as <-. f_equal. symmetry. apply elems_sim.
      intros j Hj. apply Cb. rewrite (rd_slice_len _ _ _ _ _ _ E). exact Hj.
    - destruct e; cbn [Exports.null_as_empty] in H; try discriminate.
      rewrite (rd_slice_null _ _ _ _ E). exact H.
    - discriminate.
  Qed.

  Lemma exports_by_sim dd t : alokC 4 -> Exports.view_by vf dd = Ok t -> Exports.view_by vv dd = Ok t.
  Proof.
    intros Hal H. assert (Hal2 : alokC 2) by (apply (align_compat_half 2); [exact Hal|discriminate]).
    unfold Exports.view_by, Exports.exports_by in *. cbn [file_view mapped_view v_get] in *.
    destruct (Exports.try_from (slice vf) dd) as [x|e|ft] eqn:Ex; cbn [bind] in H; try discriminate.
    unfold Exports.try_from in *. destruct dd as [[va sz]|]; [|discriminate].
    destruct (rd (slice vf) va IMAGE_EXPORT_DIRECTORY_size IMAGE_EXPORT_DIRECTORY_align) as [r|e|ft] eqn:Er; cbn [bind] in Ex; try discriminate.
    injection Ex as <-. destruct (v_rd_full RvaPath va IMAGE_EXPORT_DIRECTORY_size IMAGE_EXPORT_DIRECTORY_align r Hal Er) as [r' [A [_ C]]]. cbn [sl_of] in A. rewrite A. cbn [bind].
    pose proof (rd_len _ _ _ _ _ Er) as Hlen.
    assert (Hfld : forall fo, fo + 4 <= 40 -> Exports.x_field gV (r_off r') fo = Exports.x_field gF (r_off r) fo).
    { intros fo Hfo. unfold Exports.x_field, Exports.rd_u32. symmetry. apply (region_sim_le_value gF gV r r' fo 4 C).
      rewrite Hlen. unfold IMAGE_EXPORT_DIRECTORY_size. lia. }
    unfold Exports.by_, Exports.functions, Exports.names, Exports.name_indices in *. cbv zeta in *.
    rewrite !Hfld by (cbv; discriminate).
    match type of H with bind ?X _ = _ => destruct X as [fl|e|ft] eqn:Ef; cbn [bind] in H; try discriminate end.
    rewrite (arr_sim _ 4 _ fl Hal Ef). cbn [bind].
    match type of H with bind ?X _ = _ => destruct X as [nl|e|ft] eqn:En; cbn [bind] in H; try discriminate end.
    rewrite (arr_sim _ 4 _ nl Hal En). cbn [bind].
    match type of H with bind ?X _ = _ => destruct X as [il|e|ft] eqn:Ei; cbn [bind] in H; try discriminate end.
    rewrite (arr_sim _ 2 _ il Hal2 Ei). cbn [bind]. exact H.
  Qed.

  Lemma view_cstr_sim a s : Exports.view_cstr vf a = Ok s -> Exports.view_cstr vv a = Ok s.
  Proof.
    unfold Exports.view_cstr, Exports.cstr_of. cbn [file_view mapped_view v_get].
    destruct (rd_c_str gF (slice vf) a) as [r|e|ft] eqn:E; cbn [bind]; try discriminate. intros H. injection H as <-.
    destruct (v_rd_c_str_full RvaPath a r E) as [r' [A [_ [Cl Cb]]]]. cbn [sl_of] in A. rewrite A. cbn [bind]. f_equal.
    unfold Exports.bytes_of. rewrite Cl. symmetry. apply map_seq_ext. intros k Hk. apply Cb. lia.
  Qed.

  Lemma get_export_ordinal_sim dd o e : alokC 4 ->
    Exports.get_export_ordinal vf dd o = Ok e -> Exports.get_export_ordinal vv dd o = Ok e.
  Proof.
    intros Hal. unfold Exports.get_export_ordinal. destruct (Exports.view_by vf dd) as [t|x|ft] eqn:E; cbn [bind]; try discriminate.
    rewrite (exports_by_sim dd t Hal E). cbn [bind]. apply ordinal_mono. exact view_cstr_sim.
  Qed.
  Lemma get_export_name_sim dd nm e : alokC 4 ->
    Exports.get_export_name vf dd nm = Ok e -> Exports.get_export_name vv dd nm = Ok e.
  Proof.
    intros Hal. unfold Exports.get_export_name. destruct (Exports.view_by vf dd) as [t|x|ft] eqn:E; cbn [bind]; try discriminate.
    rewrite (exports_by_sim dd t Hal E). cbn [bind]. apply name_mono. exact view_cstr_sim.
  Qed.

  (* ---- imports.rs ---- *)
  Variable f : fmt.
  Local Notation pF := {| Imports.p_f := f; Imports.p_v := vf |}.
  Local Notation pV := {| Imports.p_f := f; Imports.p_v := vv |}.

  Lemma imports_sim r : alokC 4 ->
    Imports.dir_entry pV IMAGE_DIRECTORY_ENTRY_IMPORT = Imports.dir_entry pF IMAGE_DIRECTORY_ENTRY_IMPORT ->
    Imports.imports pF = Ok r ->
    exists r', Imports.imports pV = Ok r' /\ region_sim gF gV r r' /\ Imports.descs pF r = Imports.descs pV r'.
  Proof.
    intros Hal Hd. unfold Imports.imports. rewrite Hd.
    destruct (Imports.dir_entry pF IMAGE_DIRECTORY_ENTRY_IMPORT) as [d|e|ft]; cbn [bind]; try discriminate.
    unfold Imports.p_get. cbn [Imports.p_v file_view mapped_view v_get]. intros H.
    destruct (v_rd_slice_f_full RvaPath (fst d) IMAGE_IMPORT_DESCRIPTOR_size IMAGE_IMPORT_DESCRIPTOR_align Imports.desc_is_null r Hal eq_refl H) as [r' [A [_ [[Cl Cb] _]]]].
    exists r'. split; [exact A|]. split; [split; assumption|].
    unfold Imports.descs, Imports.p_get. cbn [Imports.p_v file_view mapped_view v_get]. rewrite Cl.
    apply map_seq_ext. intros k Hk. unfold Imports.desc_at.
    assert (E : forall o, o + 4 <= 20 -> le_value gF (r_off r + N.of_nat k * IMAGE_IMPORT_DESCRIPTOR_size + o) 4 =
                                        le_value gV (r_off r' + N.of_nat k * IMAGE_IMPORT_DESCRIPTOR_size + o) 4).
    { intros o Ho. apply le_value_ext. intros j Hj. rewrite <- !N.add_assoc. apply Cb.
      unfold IMAGE_IMPORT_DESCRIPTOR_size in *. lia. }
    rewrite !E by (cbv; discriminate). reflexivity.
  Qed.
  Lemma dll_name_sim d r : Imports.dll_name pF d = Ok r ->
    exists r', Imports.dll_name pV d = Ok r' /\ region_sim gF gV r r'.
  Proof.
    unfold Imports.dll_name, Imports.p_get. cbn [Imports.p_v file_view mapped_view v_get]. intros H.
    destruct (v_rd_c_str_full RvaPath _ r H) as [r' [A [_ C]]]. exists r'. split; [exact A|exact C].
  Qed.
  Lemma va_bytes_pos : 0 < Imports.va_bytes pF.
  Proof. unfold Imports.va_bytes. cbn [Imports.p_f]. destruct (f_64 f); lia. Qed.
  Lemma thunk_values_sim r r' : region_sim gF gV r r' -> Imports.thunk_values pF r = Imports.thunk_values pV r'.
  Proof.
    intros [Cl Cb]. unfold Imports.thunk_values. change (Imports.va_bytes pV) with (Imports.va_bytes pF). rewrite Cl.
    apply map_seq_ext. intros k Hk. unfold Imports.thunk_at, Imports.p_get. cbn [Imports.p_v file_view mapped_view v_get].
    change (Imports.va_bytes pV) with (Imports.va_bytes pF). pose proof va_bytes_pos as Hp.
    apply le_value_ext. intros j Hj. rewrite <- !N.add_assoc. apply Cb.
    assert (N.of_nat k < r_len r / Imports.va_bytes pF) by lia.
    assert ((N.of_nat k + 1) * Imports.va_bytes pF <= r_len r).
    { transitivity (r_len r / Imports.va_bytes pF * Imports.va_bytes pF); [apply N.mul_le_mono_r; lia|].
      rewrite N.mul_comm. apply N.mul_div_le. lia. }
    lia.
  Qed.
  Lemma thunks_sim rva r : alokC (Imports.va_bytes pF) -> Imports.thunks pF rva = Ok r ->
    exists r', Imports.thunks pV rva = Ok r' /\ region_sim gF gV r r' /\ Imports.thunk_values pF r = Imports.thunk_values pV r'.
  Proof.
    intros Hal. unfold Imports.thunks, Imports.p_get. cbn [Imports.p_v file_view mapped_view v_get].
    change (Imports.va_bytes pV) with (Imports.va_bytes pF). intros H.
    destruct (v_rd_slice_s_full RvaPath rva _ _ 0 r Hal va_bytes_pos H) as [r' [A [_ [C _]]]].
    exists r'. split; [exact A|]. split; [exact C|]. apply thunk_values_sim. exact C.
  Qed.
  Lemma import_from_va_sim va i : alokC 2 -> Imports.import_from_va pF va = Ok i ->
    exists i', Imports.import_from_va pV va = Ok i' /\ import_vals gF i = import_vals gV i'.
  Proof.
    intros Hal. unfold Imports.import_from_va. change (Imports.ordinal_flag pV) with (Imports.ordinal_flag pF).
    destruct (N.land va (Imports.ordinal_flag pF) =? 0).
    2:{ intros H. injection H as <-. eexists. split; reflexivity. }
    unfold Imports.p_get. cbn [Imports.p_v file_view mapped_view v_get].
    destruct (rd (slice vf) (va mod W32) 2 2) as [h|e|ft] eqn:Eh; cbn [bind]; try discriminate.
    destruct (v_rd_full RvaPath _ 2 2 h Hal Eh) as [h' [A [_ C]]]. cbn [sl_of] in A. rewrite A. cbn [bind].
    destruct (checked_add W32 (va mod W32) 2) as [a|]; [|discriminate].
    destruct (rd_c_str gF (slice vf) a) as [nm|e|ft] eqn:En; cbn [bind]; try discriminate.
    destruct (v_rd_c_str_full RvaPath a nm En) as [nm' [A2 [_ C2]]]. cbn [sl_of] in A2. rewrite A2. cbn [bind].
    intros H. injection H as <-. eexists. split; [reflexivity|]. cbn [import_vals]. f_equal.
    - rewrite <- (N.add_0_r (r_off h)), <- (N.add_0_r (r_off h')). apply (region_sim_le_value gF gV h h' 0 2 C).
      rewrite (rd_len _ _ _ _ _ Eh). lia.
    - apply region_bytes_sim. exact C2.
  Qed.
  Lemma iat_sim r : alokC (Imports.va_bytes pF) ->
    Imports.dir_entry pV IMAGE_DIRECTORY_ENTRY_IAT = Imports.dir_entry pF IMAGE_DIRECTORY_ENTRY_IAT ->
    Imports.iat pF = Ok r ->
    exists r', Imports.iat pV = Ok r' /\ region_sim gF gV r r' /\ Imports.thunk_values pF r = Imports.thunk_values pV r'.
  Proof.
    intros Hal Hd. unfold Imports.iat. rewrite Hd.
    destruct (Imports.dir_entry pF IMAGE_DIRECTORY_ENTRY_IAT) as [d|e|ft]; cbn [bind]; try discriminate.
    cbn [Imports.p_v]. change (Imports.va_bytes pV) with (Imports.va_bytes pF). intros H.
    destruct (v_rd_slice_full RvaPath _ _ _ _ r Hal H) as [r' [A [_ C]]].
    exists r'. split; [exact A|]. split; [exact C|]. apply thunk_values_sim. exact C.
  Qed.
End Setting.

(* ================================================================ 4. the headers, the Rich structure, check_sum *)
Definition agree (m1 m2 : mem) (n : N) : Prop := forall i, i < n -> m_get m1 i = m_get m2 i.
Lemma rd16_agree m1 m2 n o : agree m1 m2 n -> o + 2 <= n -> rd16 m1 o = rd16 m2 o.
Proof. intros H Ho. unfold rd16. rewrite !H by lia. reflexivity. Qed.
Lemma rd32_agree m1 m2 n o : agree m1 m2 n -> o + 4 <= n -> rd32 m1 o = rd32 m2 o.
Proof. intros H Ho. unfold rd32. rewrite (rd16_agree m1 m2 n o H), (rd16_agree m1 m2 n (o + 2) H) by lia. reflexivity. Qed.
Lemma rd64_agree m1 m2 n o : agree m1 m2 n -> o + 8 <= n -> rd64 m1 o = rd64 m2 o.
Proof. intros H Ho. unfold rd64. rewrite (rd32_agree m1 m2 n o H), (rd32_agree m1 m2 n (o + 4) H) by lia. reflexivity. Qed.

Ltac unfold_lay :=
  unfold IMAGE_DOS_HEADER_size, IMAGE_DOS_HEADER_e_magic_off, IMAGE_DOS_SIGNATURE, IMAGE_DOS_HEADER_e_lfanew_off,
         IMAGE_NT_HEADERS_SIGNATURE, IMAGE_NT_OPTIONAL_HDR32_MAGIC, IMAGE_NT_OPTIONAL_HDR64_MAGIC,
         IMAGE_NT_HEADERS32_size, IMAGE_NT_HEADERS64_size, IMAGE_OPTIONAL_HEADER32_size, IMAGE_OPTIONAL_HEADER64_size,
         IMAGE_NT_HEADERS32_OptionalHeader_off, IMAGE_NT_HEADERS64_OptionalHeader_off,
         IMAGE_OPTIONAL_HEADER32_Magic_off, IMAGE_OPTIONAL_HEADER32_SizeOfImage_off, IMAGE_OPTIONAL_HEADER64_SizeOfImage_off,
         IMAGE_OPTIONAL_HEADER32_SizeOfHeaders_off, IMAGE_OPTIONAL_HEADER64_SizeOfHeaders_off,
         IMAGE_OPTIONAL_HEADER32_NumberOfRvaAndSizes_off, IMAGE_OPTIONAL_HEADER64_NumberOfRvaAndSizes_off,
         IMAGE_OPTIONAL_HEADER32_ImageBase_off, IMAGE_OPTIONAL_HEADER64_ImageBase_off,
         IMAGE_OPTIONAL_HEADER32_CheckSum_off, IMAGE_OPTIONAL_HEADER64_CheckSum_off,
         IMAGE_NT_HEADERS32_FileHeader_off, IMAGE_FILE_HEADER_NumberOfSections_off, IMAGE_FILE_HEADER_SizeOfOptionalHeader_off,
         IMAGE_NUMBEROF_DIRECTORY_ENTRIES, IMAGE_DATA_DIRECTORY_size, IMAGE_SECTION_HEADER_size,
         IMAGE_SECTION_HEADER_VirtualAddress_off, IMAGE_SECTION_HEADER_VirtualSize_off,
         IMAGE_SECTION_HEADER_PointerToRawData_off, IMAGE_SECTION_HEADER_SizeOfRawData_off in *.
Ltac fmt_proj :=
  cbn [f_64 f_magic f_nt_size f_nt_align f_opt_size f_opt_off f_soi_off f_soh_off f_csum_off f_nrva_off f_base_off fmt32 fmt64] in *.

Lemma sections_from_agree m1 m2 n : agree m1 m2 n -> forall k o, o + 40 * N.of_nat k <= n ->
  sections_from m1 o k = sections_from m2 o k.
Proof.
  intros H. induction k as [|k IH]; intros o Ho; cbn [sections_from]; [reflexivity|]. f_equal.
  - unfold section_at. f_equal; apply (rd32_agree _ _ _ _ H); unfold_lay; lia.
  - apply IH. unfold_lay. lia.
Qed.

(* the decoded header fields of a buffer that agrees with an accepted file on its first SizeOfHeaders bytes,
   has SizeOfImage bytes and is dword aligned - when the file's headers lie inside SizeOfHeaders *)
Theorem headers_transfer f mF mV x : (f = fmt32 \/ f = fmt64) ->
  validate f mF = Ok x -> headers_within f mF = true ->
  agree mV mF (h_soh f mF) -> m_len mV = h_soi f mF -> aligned_to 4 (m_addr mV) = true ->
  validate f mV = Ok x /\ e_lfanew mV = e_lfanew mF /\ h_soh f mV = h_soh f mF /\ h_soi f mV = h_soi f mF /\
  h_base f mV = h_base f mF /\ sections f mV = sections f mF /\
  (forall i, Headers.data_dir f mV i = Headers.data_dir f mF i).
Proof.
  intros Hf Hv Hw Hag Hlen Hal.
  unfold headers_within in Hw. rewrite !andb_true_iff in Hw. destruct Hw as [[W1 W2] W3]. apply N.leb_le in W1, W2, W3.
  assert (E0 : e_lfanew mV = e_lfanew mF). { unfold e_lfanew. apply (rd32_agree _ _ _ _ Hag). unfold_lay. lia. }
  unfold sec_table_off in W3.
  assert (Fmz : rd16 mV IMAGE_DOS_HEADER_e_magic_off = rd16 mF IMAGE_DOS_HEADER_e_magic_off).
  { apply (rd16_agree _ _ _ _ Hag). unfold_lay. lia. }
  assert (Fsig : rd32 mV (e_lfanew mF) = rd32 mF (e_lfanew mF)).
  { apply (rd32_agree _ _ _ _ Hag). destruct Hf as [-> | ->]; fmt_proj; unfold_lay; lia. }
  assert (Fmagic : h_magic f mV = h_magic f mF).
  { unfold h_magic, opt_at in *. rewrite E0. apply (rd16_agree _ _ _ _ Hag). destruct Hf as [-> | ->]; fmt_proj; unfold_lay; lia. }
  assert (Fsoi : h_soi f mV = h_soi f mF).
  { unfold h_soi, opt_at in *. rewrite E0. apply (rd32_agree _ _ _ _ Hag). destruct Hf as [-> | ->]; fmt_proj; unfold_lay; lia. }
  assert (Fsoh : h_soh f mV = h_soh f mF).
  { unfold h_soh at 1 2. unfold opt_at. rewrite E0. apply (rd32_agree _ _ _ _ Hag). unfold opt_at in *. destruct Hf as [-> | ->]; fmt_proj; unfold_lay; lia. }
  assert (Fnrva : h_nrva f mV = h_nrva f mF).
  { unfold h_nrva at 1 2. unfold opt_at. rewrite E0. apply (rd32_agree _ _ _ _ Hag). unfold opt_at in *. destruct Hf as [-> | ->]; fmt_proj; unfold_lay; lia. }
  assert (Fnsec : h_nsec f mV = h_nsec f mF).
  { unfold h_nsec at 1 2. rewrite E0. apply (rd16_agree _ _ _ _ Hag). unfold opt_at in *. destruct Hf as [-> | ->]; fmt_proj; unfold_lay; lia. }
  assert (Foptsz : h_optsz f mV = h_optsz f mF).
  { unfold h_optsz at 1 2. rewrite E0. apply (rd16_agree _ _ _ _ Hag). unfold opt_at in *. destruct Hf as [-> | ->]; fmt_proj; unfold_lay; lia. }
  assert (Fbase : h_base f mV = h_base f mF).
  { unfold h_base, opt_at. rewrite E0. unfold opt_at in *.
    destruct Hf as [-> | ->]; fmt_proj; [apply (rd32_agree _ _ _ _ Hag)|apply (rd64_agree _ _ _ _ Hag)]; unfold_lay; lia. }
  assert (Fopt : opt_at f mV = opt_at f mF) by (unfold opt_at; rewrite E0; reflexivity).
  split.
  { pose proof Hv as Hv'. unfold validate in Hv' |- *. cbv zeta in *.
    rewrite E0, Fmz, Fsig, Fmagic, Fsoi, Fsoh, Fnrva, Fnsec, Foptsz. rewrite Hlen. unfold aligned_to in *.
    repeat match type of Hv' with context [if ?c then _ else _] => destruct c eqn:?; [discriminate Hv'|] end.
    unfold opt_at in *.
    destruct Hf as [-> | ->]; fmt_proj; unfold_lay;
    repeat match goal with |- context [if ?c then _ else _] => destruct c eqn:?; [exfalso; lia|] end; exact Hv'. }
  split; [exact E0|]. split; [exact Fsoh|]. split; [exact Fsoi|]. split; [exact Fbase|]. split.
  - unfold sections, sec_table_off. rewrite Fopt, Foptsz, Fnsec. apply (sections_from_agree _ _ _ Hag).
    unfold_lay. lia.
  - intros i. unfold Headers.data_dir. rewrite Fnrva, Fopt. destruct (i <? N.min (h_nrva f mF) IMAGE_NUMBEROF_DIRECTORY_ENTRIES) eqn:Ei; [|reflexivity].
    unfold opt_at in *. f_equal. f_equal; apply (rd32_agree _ _ _ _ Hag); destruct Hf as [-> | ->]; fmt_proj; unfold_lay; lia.
Qed.

(* ---- the Rich structure is read from the dwords below e_lfanew only ---- *)
Lemma firstn_seq_le : forall n s len, (n <= len)%nat -> firstn n (seq s len) = seq s n.
Proof. induction n as [|n IH]; intros s len H; [reflexivity|]. destruct len; [lia|]. cbn [seq firstn]. f_equal. apply IH. lia. Qed.
Lemma firstn_le_eq {A} (l1 l2 : list A) n k : firstn n l1 = firstn n l2 -> (k <= n)%nat -> firstn k l1 = firstn k l2.
Proof. intros H Hk. rewrite <- (Nat.min_l k n Hk), <- !firstn_firstn, H. reflexivity. Qed.
Lemma nth_firstn_eq {A} (l1 l2 : list A) n i d : firstn n l1 = firstn n l2 -> (i < n)%nat -> nth i l1 d = nth i l2 d.
Proof. intros H Hi. rewrite <- (nth_firstn_lt n i l1 d Hi), <- (nth_firstn_lt n i l2 d Hi), H. reflexivity. Qed.
Lemma dwords_length g len : length (dwords_of g len) = N.to_nat (len / 4).
Proof. unfold dwords_of. rewrite map_length, seq_length. reflexivity. Qed.
Lemma dwords_prefix g len n : (n <= N.to_nat (len / 4))%nat ->
  firstn n (dwords_of g len) = map (fun k => le_value g (4 * N.of_nat k) 4) (seq 0 n).
Proof. intros H. unfold dwords_of. rewrite firstn_map, firstn_seq_le by exact H. reflexivity. Qed.
Lemma dwords_15 g len : 64 <= len -> nth_error (dwords_of g len) 15 = Some (le_value g 60 4).
Proof.
  intros H. unfold dwords_of. rewrite (map_nth_error _ 15 _ (d := 15%nat)); [reflexivity|].
  rewrite (nth_error_nth' _ 0%nat); [rewrite seq_nth; [reflexivity|lia]|rewrite seq_length; lia].
Qed.

Theorem rich_sim gF gV lenF lenV n :
  (forall i, i < n -> gV i = gF i) -> 64 <= n -> n <= lenF -> n <= lenV -> le_value gF 60 4 <= n ->
  view_rich gV lenV = view_rich gF lenF /\
  forall se, view_rich gF lenF = Ok se ->
    Rich.xor_key (dwords_of gV lenV) se = Rich.xor_key (dwords_of gF lenF) se /\
    Rich.records (dwords_of gV lenV) se = Rich.records (dwords_of gF lenF) se /\
    Rich.checksum (dwords_of gV lenV) se = Rich.checksum (dwords_of gF lenF) se.
Proof.
  intros Hag H64 HlF HlV He.
  assert (EV : le_value gV 60 4 = le_value gF 60 4) by (apply le_value_ext; intros j Hj; apply Hag; lia).
  remember (le_value gF 60 4) as e eqn:Ee. remember (N.to_nat (e / 4)) as nn eqn:En.
  assert (LF : (nn <= N.to_nat (lenF / 4))%nat) by lia.
  assert (LV : (nn <= N.to_nat (lenV / 4))%nat) by lia.
  assert (Pre : firstn nn (dwords_of gV lenV) = firstn nn (dwords_of gF lenF)).
  { rewrite !dwords_prefix by assumption. apply map_seq_ext. intros k Hk. apply le_value_ext. intros j Hj. apply Hag. lia. }
  assert (TF : forall g len, 64 <= len -> le_value g 60 4 = e -> (nn <= N.to_nat (len / 4))%nat ->
            Rich.try_from (dwords_of g len) =
            (e0 <- Rich.skip_zeros (firstn nn (dwords_of g len)) nn ;;
             if negb (Rich.dw (firstn nn (dwords_of g len)) (e0 - 2) =? Rich.RICH) then Err EBadMagic
             else s <- Rich.find_start e0 (firstn nn (dwords_of g len)) (Rich.dw (firstn nn (dwords_of g len)) (e0 - 1)) (e0 - 6) ;; Ok (s, e0))).
  { intros g len Hl Hv Hn. unfold Rich.try_from. rewrite (dwords_15 g len Hl), Hv, <- En. cbv zeta.
    assert (X : Nat.ltb (length (dwords_of g len)) nn = false) by (apply Nat.ltb_ge; rewrite dwords_length; exact Hn).
    rewrite X. reflexivity. }
  assert (TV := TF gV lenV ltac:(lia) EV LV). assert (TFF := TF gF lenF ltac:(lia) (eq_sym Ee) LF).
  split.
  - unfold view_rich. rewrite TV, TFF, Pre. reflexivity.
  - intros [s e'] Hse. unfold view_rich in Hse. apply RichProofs.try_from_well_formed in Hse.
    destruct Hse as [el [Hn15 [Hle Hwf]]]. rewrite dwords_15 in Hn15 by lia. assert (Hel : el = e) by (rewrite Ee; congruence). subst el. rewrite <- En in Hwf.
    destruct Hwf as [W1 [W2 [W3 _]]]. rewrite firstn_length, dwords_length in W3.
    assert (XK : Rich.xor_key (dwords_of gV lenV) (s, e') = Rich.xor_key (dwords_of gF lenF) (s, e')).
    { unfold Rich.xor_key, Rich.dw. cbn [fst]. apply (nth_firstn_eq _ _ nn); [exact Pre|lia]. }
    assert (RC : Rich.records (dwords_of gV lenV) (s, e') = Rich.records (dwords_of gF lenF) (s, e')).
    { unfold Rich.records. rewrite XK. f_equal. f_equal. unfold Rich.body. cbn [fst snd]. rewrite !firstn_skipn_comm. f_equal.
      apply (firstn_le_eq _ _ nn); [exact Pre|lia]. }
    split; [exact XK|]. split; [exact RC|].
    unfold Rich.checksum. rewrite RC. cbn [fst]. f_equal. apply (firstn_le_eq _ _ nn); [exact Pre|lia].
Qed.

(* ---- the public entry points: PeFile::from_bytes(F) and PeView::from_bytes(to_view F) ---- *)
Lemma rd32_le m o : rd32 m o = le_value (m_get m) o 4.
Proof.
  unfold rd32, rd16. cbn [le_value].
  replace (o + 2 + 1) with (o + 1 + 1 + 1) by lia. replace (o + 2) with (o + 1 + 1) by lia. lia.
Qed.

Section Pe.
  Variables (f : fmt) (addrF addrV : N) (img V : list N) (x : N).
  Local Notation mF := (mem_of addrF img).
  Local Notation mV := (mem_of addrV V).
  Hypothesis Hf : f = fmt32 \/ f = fmt64.
  Hypothesis Hv : validate f mF = Ok x.
  Hypothesis Hw : headers_within f mF = true.
  Hypothesis Hset : conv_setting img (h_soh f mF) (h_soi f mF) (sections f mF) V.

  Lemma pe_agree : agree mV mF (h_soh f mF) /\ m_len mV = h_soi f mF.
  Proof.
    destruct Hset as [Hs [H1 [H2 [Hwf HV]]]].
    destruct (to_view_wf _ _ _ _ _ Hs H1 H2 Hwf HV) as [Hl [Hh _]]. split; [|exact Hl].
    intros i Hi. cbn [mem_of m_get]. apply Hh. exact Hi.
  Qed.

  (* the view over the converted buffer is accepted and decodes the same header fields, section table and
     data directory: the two views of the simulation theorems really are what the two constructors hold *)
  Theorem pe_headers_sim : aligned_to 4 addrV = true ->
    validate f mV = Ok x /\ e_lfanew mV = e_lfanew mF /\ h_soh f mV = h_soh f mF /\ h_soi f mV = h_soi f mF /\
    h_base f mV = h_base f mF /\ sections f mV = sections f mF /\
    (forall i, Headers.data_dir f mV i = Headers.data_dir f mF i).
  Proof. intros Hal. destruct pe_agree as [A B]. exact (headers_transfer f mF mV x Hf Hv Hw A B Hal). Qed.

  Lemma validate_aligned : aligned_to 4 addrF = true.
  Proof.
    pose proof Hv as Hv'. unfold validate in Hv'. cbv zeta in Hv'.
    destruct (m_len mF <? IMAGE_DOS_HEADER_size); [discriminate|].
    cbn [mem_of m_addr] in Hv'. destruct (aligned_to 4 addrF); [reflexivity|discriminate].
  Qed.
  Lemma pe_align_compat : aligned_to 4 addrV = true -> align_compat 4 addrF addrV = true.
  Proof.
    intros Hal. pose proof validate_aligned as HF. unfold aligned_to, align_compat in *.
    apply N.eqb_eq in Hal, HF. rewrite Hal, HF. reflexivity.
  Qed.

  (* hence data_directory().get(i) is the same on both: the directory parsers below are handed the same entry *)
  Lemma pe_dir_entry_sim w base i : aligned_to 4 addrV = true ->
    Imports.dir_entry {| Imports.p_f := f; Imports.p_v := mapped_view addrV w base (h_soh f mF) (h_soi f mF) (sections f mF) V |} i =
    Imports.dir_entry {| Imports.p_f := f; Imports.p_v := file_view addrF w base (h_soh f mF) (h_soi f mF) (sections f mF) img |} i.
  Proof.
    intros Hal. destruct (pe_headers_sim Hal) as [_ [_ [_ [_ [_ [_ D]]]]]]. pose proof (D i) as Di. unfold mem_of in Di.
    unfold Imports.dir_entry, Imports.p_mem. cbn [Imports.p_f Imports.p_v mapped_view file_view v_addr v_len v_get].
    rewrite Di. reflexivity.
  Qed.

  (* imports() and iat() of the two constructors *)
  Theorem pe_imports_sim w base r : aligned_to 4 addrV = true ->
    raw_tail_not_mapped (byte_at img) (sections f mF) = false ->
    Imports.imports {| Imports.p_f := f; Imports.p_v := file_view addrF w base (h_soh f mF) (h_soi f mF) (sections f mF) img |} = Ok r ->
    exists r', Imports.imports {| Imports.p_f := f; Imports.p_v := mapped_view addrV w base (h_soh f mF) (h_soi f mF) (sections f mF) V |} = Ok r' /\
      region_sim (byte_at img) (byte_at V) r r' /\
      Imports.descs {| Imports.p_f := f; Imports.p_v := file_view addrF w base (h_soh f mF) (h_soi f mF) (sections f mF) img |} r =
      Imports.descs {| Imports.p_f := f; Imports.p_v := mapped_view addrV w base (h_soh f mF) (h_soi f mF) (sections f mF) V |} r'.
  Proof.
    intros Hal Hz. apply (imports_sim _ _ _ _ _ Hset addrF addrV w base Hz f r (pe_align_compat Hal)).
    apply pe_dir_entry_sim. exact Hal.
  Qed.
End Pe.

(* the Rich structure: identical *)
Theorem pe_rich_sim f addrF img V :
  headers_within f (mem_of addrF img) = true ->
  conv_setting img (h_soh f (mem_of addrF img)) (h_soi f (mem_of addrF img)) (sections f (mem_of addrF img)) V ->
  view_rich (byte_at V) (lenN V) = view_rich (byte_at img) (lenN img) /\
  forall se, view_rich (byte_at img) (lenN img) = Ok se ->
    Rich.xor_key (dwords_of (byte_at V) (lenN V)) se = Rich.xor_key (dwords_of (byte_at img) (lenN img)) se /\
    Rich.records (dwords_of (byte_at V) (lenN V)) se = Rich.records (dwords_of (byte_at img) (lenN img)) se /\
    Rich.checksum (dwords_of (byte_at V) (lenN V)) se = Rich.checksum (dwords_of (byte_at img) (lenN img)) se.
Proof.
  intros Hw Hset. destruct (pe_agree f addrF 0 img V Hset) as [A B]. destruct Hset as [_ [H1 [H2 _]]]. cbn [mem_of m_len] in B.
  unfold headers_within in Hw. rewrite !andb_true_iff in Hw. destruct Hw as [[W1 W2] W3]. apply N.leb_le in W1, W2.
  apply (rich_sim (byte_at img) (byte_at V) (lenN img) (lenN V) (h_soh f (mem_of addrF img))); try lia.
  - exact A.
  - pose proof (rd32_le (mem_of addrF img) 60) as E. cbn [mem_of m_get] in E. rewrite <- E.
    change (rd32 (mem_of addrF img) 60) with (e_lfanew (mem_of addrF img)). lia.
Qed.

(* ---- Headers::check_sum is NOT preserved: it sums the whole buffer and adds its length.  A two-section
        image outside both known classes whose mapped form has a different sum ---- *)
Definition cs_img : list N := [1; 2; 3; 4; 5; 6; 0; 0].
Definition cs_secs : list section :=
  [ {| s_va := 4; s_vs := 3; s_prd := 2; s_srd := 2 |}; {| s_va := 8; s_vs := 2; s_prd := 4; s_srd := 4 |} ].
Definition cs_V : list N := [1; 2; 0; 0; 3; 4; 0; 0; 5; 6; 0; 0].
Lemma check_sum_not_preserved :
  conv_setting cs_img 2 12 cs_secs cs_V /\ raw_tail_not_mapped (byte_at cs_img) cs_secs = false /\
  check_sum fmt32 (mem_of 0 cs_V) <> check_sum fmt32 (mem_of 0 cs_img) /\
  check_sum fmt64 (mem_of 0 cs_V) <> check_sum fmt64 (mem_of 0 cs_img).
Proof.
  split; [|split; [vm_compute; reflexivity|split; vm_compute; discriminate]].
  unfold conv_setting. split; [repeat constructor; vm_compute; reflexivity|].
  repeat split; vm_compute; try reflexivity; discriminate.
Qed.
