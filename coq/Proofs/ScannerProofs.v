(* Proofs for C10: the pattern scanner. *)
From PV.Model Require Import Machine Mapping Views Pattern Exec ScanView Scanner.
From PV.Spec Require Import MappingSpec ViewSpec ScanSpec.
From PV.Proofs Require Import BaseProofs MappingProofs ViewsProofs ExecProofs.
Ltac Zify.zify_post_hook ::= Z.div_mod_to_equations.

(* ------------------------------------------------------------------ the jump table (theorem 3) *)

Lemma jumps_loop_spec m c : forall n qs i t, (n <= length qs)%nat ->
  ((forall k, (k < n)%nat -> nth k qs 0 <> c) /\ jumps_loop m qs i n t c = t c) \/
  (exists k, (k < n)%nat /\ nth k qs 0 = c /\ (forall k', (k < k')%nat -> (k' < n)%nat -> nth k' qs 0 <> c) /\
             jumps_loop m qs i n t c = m - (i + N.of_nat k) - 1).
Proof.
  induction n as [|n IH]; intros qs i t Hn.
  - left. split; [intros k Hk; lia|]. destruct qs; reflexivity.
  - destruct qs as [|b rest]; [cbn [length] in Hn; lia|]. cbn [jumps_loop]. cbn [length] in Hn.
    destruct (IH rest (i + 1) (jset t b (m - i - 1)) ltac:(lia)) as [[Hno Hr]|[k [Hk [Hc [Hlast Hr]]]]].
    + assert (Hj : jset t b (m - i - 1) c = if c =? b then m - i - 1 else t c) by reflexivity. rewrite Hj in Hr. clear Hj.
      destruct (c =? b) eqn:E.
      * right. exists O. split; [lia|]. split; [cbn [nth]; lia|]. split.
        { intros k' H0 Hk'. destruct k' as [|k']; [lia|]. cbn [nth]. apply Hno. lia. }
        rewrite Hr. lia.
      * left. split; [|exact Hr]. intros k Hk. destruct k as [|k]; [cbn [nth]; lia|]. cbn [nth]. apply Hno. lia.
    + right. exists (S k). split; [lia|]. split; [exact Hc|]. split.
      { intros k' H0 Hk'. destruct k' as [|k']; [lia|]. cbn [nth]. apply Hlast; lia. }
      rewrite Hr. lia.
Qed.

(* the table built at scanner.rs:525: qslen - 1 - (last index < qslen - 1 holding that byte), or qslen if there is none *)
Theorem jumps_characterised qs c :
  ((forall k, (k < length qs - 1)%nat -> nth k qs 0 <> c) /\ jumps qs c = lenN qs) \/
  (exists k, (k < length qs - 1)%nat /\ nth k qs 0 = c /\
             (forall k', (k < k')%nat -> (k' < length qs - 1)%nat -> nth k' qs 0 <> c) /\
             jumps qs c = lenN qs - N.of_nat k - 1).
Proof.
  unfold jumps. destruct (jumps_loop_spec (lenN qs) c (length qs - 1) qs 0 (fun _ => lenN qs) ltac:(lia)) as [[Hno Hr]|[k [Hk [Hc [Hl Hr]]]]].
  - left. split; assumption.
  - right. exists k. split; [exact Hk|]. split; [exact Hc|]. split; [exact Hl|]. rewrite Hr. lia.
Qed.

Lemma jumps_bounds qs c : qs <> [] -> 1 <= jumps qs c /\ jumps qs c <= lenN qs.
Proof.
  intros Hne. assert (Hl : (0 < length qs)%nat) by (destruct qs; [congruence|cbn [length]; lia]).
  unfold lenN. destruct (jumps_characterised qs c) as [[_ Hr]|[k [Hk [_ [_ Hr]]]]]; rewrite Hr; unfold lenN; lia.
Qed.

Lemma slice_eq_spec get : forall qs off, slice_eq get off qs = true <-> forall k, (k < length qs)%nat -> get (off + N.of_nat k) = nth k qs 0.
Proof.
  induction qs as [|b t IH]; intros off; cbn [slice_eq length].
  - split; [intros _ k Hk; lia|reflexivity].
  - rewrite andb_true_iff, IH. split.
    + intros [H0 Ht] k Hk. destruct k as [|k]; cbn [nth].
      * replace (off + N.of_nat 0) with off by lia. lia.
      * replace (off + N.of_nat (S k)) with (off + 1 + N.of_nat k) by lia. apply Ht. lia.
    + intros H. split.
      * specialize (H O ltac:(lia)). cbn [nth] in H. replace (off + N.of_nat 0) with off in H by lia. lia.
      * intros k Hk. specialize (H (S k) ltac:(lia)). cbn [nth] in H. replace (off + 1 + N.of_nat k) with (off + N.of_nat (S k)) by lia. exact H.
Qed.

(* Horspool shift safety: with the window at i and jump = jumps[last byte of the window], the prefix does not occur
   at any j strictly between i and i + jump *)
Theorem shift_safe get qs off i j : qs <> [] ->
  i < j -> j < i + jumps qs (get (off + i + (lenN qs - 1))) -> slice_eq get (off + j) qs = false.
Proof.
  intros Hne Hij Hj. destruct (slice_eq get (off + j) qs) eqn:Hs; [|reflexivity]. exfalso.
  rewrite slice_eq_spec in Hs.
  assert (Hl : (0 < length qs)%nat) by (destruct qs; [congruence|cbn [length]; lia]).
  set (c := get (off + i + (lenN qs - 1))) in *.
  pose proof (jumps_bounds qs c Hne) as [_ Hub]. unfold lenN in *.
  (* the last byte of the window sits at index i + m - 1 - j of an occurrence at j *)
  set (k := N.to_nat (i + N.of_nat (length qs) - 1 - j)).
  assert (Hk : (k < length qs - 1)%nat) by (unfold k; lia).
  assert (Hc : nth k qs 0 = c).
  { rewrite <- (Hs k ltac:(lia)). unfold c, k. f_equal. lia. }
  destruct (jumps_characterised qs c) as [[Hno _]|[k0 [Hk0 [_ [Hlast Hr]]]]].
  - exact (Hno k Hk Hc).
  - destruct (Nat.lt_ge_cases k0 k) as [Hlt|Hge]; [exact (Hlast k Hlt Hk Hc)|].
    unfold lenN in Hr. unfold k in Hge. lia.
Qed.

(* ------------------------------------------------------------------ setup (theorem 2, model side) *)
Lemma setup_aux_eq pat : forall room, setup_aux pat room = literal_prefix pat room.
Proof.
  induction pat as [|a t IH]; intros room; [destruct room; reflexivity|].
  destruct a; cbn [setup_aux literal_prefix]; try (destruct room; reflexivity); try apply IH.
Qed.
Lemma setup_aux_len pat : forall room, (length (setup_aux pat room) <= room)%nat.
Proof.
  induction pat as [|a t IH]; intros room; [cbn [setup_aux length]; lia|].
  destruct a; cbn [setup_aux length]; try lia; try apply IH.
  destruct room; cbn [length]; [lia|]. specialize (IH room). lia.
Qed.
Theorem setup_spec pat : setup pat = literal_prefix pat 16 /\ lenN (setup pat) <= 16.
Proof.
  split; [apply setup_aux_eq|]. unfold setup, lenN, QS_BUF_LEN. pose proof (setup_aux_len pat 16). lia.
Qed.

(* ------------------------------------------------------------------ the three searches *)
Section Abstract.
  Variable ex : N -> list N -> res (bool * list N).
  Variable get : N -> N.
  Hypothesis Hex : forall c s, exists ok s', ex c s = Ok (ok, s').

  Definition Eany (p : N) : Prop := exists s s', ex p s = Ok (true, s').      (* succeeds for some incoming save array *)
  Definition Eall (p : N) : Prop := forall s, exists s', ex p s = Ok (true, s'). (* succeeds whatever the save array holds *)

  Lemma false_not_Eall p s s' : ex p s = Ok (false, s') -> ~ Eall p.
  Proof. intros H HE. destruct (HE s) as [s2 H2]. rewrite H in H2. discriminate. Qed.
  Lemma not_Eany_not_Eall p : ~ Eany p -> ~ Eall p.
  Proof. intros H HE. apply H. destruct (HE []) as [s' Hs]. exists [], s'. exact Hs. Qed.

  (* outcome of a search over the positions [lo, hi): the state afterwards, the reported position, and that no
     position satisfying P (the obligation) that the search has moved past can match *)
  Definition found (P : N -> Prop) (lo hi : N) (st st' : mstate) (save' : list N) (ok : bool) : Prop :=
    m_end st' = m_end st /\ m_hits st' <= m_start st' /\ lo <= m_start st' /\ m_start st' <= hi /\
    if ok then exists c s_in, lo <= c /\ c < m_start st' /\ ex c s_in = Ok (true, save') /\
                 forall p, lo <= p -> p < m_start st' -> p <> c -> P p -> ~ Eall p
    else m_start st' = hi /\ forall p, lo <= p -> p < hi -> P p -> ~ Eall p.
  Definition finds_in (P : N -> Prop) (lo hi : N) (st : mstate) (r : res sres) : Prop :=
    exists ok st' save', r = Ok (ok, st', save') /\ found P lo hi st st' save' ok.

  (* ---- strategy0 ---- *)
  Lemma strategy0_loop_spec (P : N -> Prop) : forall fuel endp st save,
    m_start st <= endp -> endp <= m_end st -> m_end st < W32 -> m_hits st <= m_start st ->
    (N.to_nat (endp - m_start st) < fuel)%nat ->
    finds_in P (m_start st) endp st (strategy0_loop ex fuel endp st save).
  Proof.
    induction fuel as [|fuel IH]; intros endp st save H1 H2 H3 H4 Hf; [lia|]. cbn [strategy0_loop].
    destruct (m_start st <? endp) eqn:E.
    - unfold chk_add. destruct (m_hits st + 1 <? W32) eqn:E1; [|lia]. cbn [bind].
      destruct (m_start st + 1 <? W32) eqn:E2; [|lia]. cbn [bind].
      destruct (Hex (m_start st) save) as [ok [s' Hx]]. rewrite Hx. cbn [bind]. destruct ok.
      + exists true. eexists. exists s'. split; [reflexivity|]. unfold found. cbn [m_start m_end m_hits].
        split; [reflexivity|]. split; [lia|]. split; [lia|]. split; [lia|].
        exists (m_start st), save. split; [lia|]. split; [lia|]. split; [exact Hx|]. intros p Ha Hb Hc. lia.
      + set (st1 := {| m_start := m_start st + 1; m_end := m_end st; m_hits := m_hits st + 1 |}).
        destruct (IH endp st1 s') as [ok [st' [sv [Hr Hfd]]]]; try (unfold st1; cbn [m_start m_end m_hits]; lia).
        exists ok, st', sv. split; [exact Hr|]. unfold found in *. unfold st1 in Hfd. cbn [m_start m_end m_hits] in Hfd.
        destruct Hfd as (He & Hh & Hlo & Hhi & Hc). split; [exact He|]. split; [exact Hh|]. split; [lia|]. split; [exact Hhi|].
        destruct ok.
        * destruct Hc as [c [s_in (Hc1 & Hc2 & Hc3 & Hc4)]]. exists c, s_in. split; [lia|]. split; [exact Hc2|]. split; [exact Hc3|].
          intros p Ha Hb Hne HP. destruct (N.eq_dec p (m_start st)) as [->|Hn]; [exact (false_not_Eall _ _ _ Hx)|].
          apply Hc4; try assumption; lia.
        * destruct Hc as [Hc1 Hc2]. split; [exact Hc1|]. intros p Ha Hb HP.
          destruct (N.eq_dec p (m_start st)) as [->|Hn]; [exact (false_not_Eall _ _ _ Hx)|]. apply Hc2; try assumption; lia.
    - exists false, st, save. split; [reflexivity|]. unfold found. split; [reflexivity|]. split; [exact H4|]. split; [lia|]. split; [lia|].
      split; [lia|]. intros p Ha Hb. lia.
  Qed.

  Lemma strategy0_spec (P : N -> Prop) slen st save :
    m_start st + slen <= m_end st -> m_end st < W32 -> m_hits st <= m_start st ->
    finds_in P (m_start st) (m_start st + slen) st (strategy0 ex slen st save).
  Proof.
    intros H1 H2 H3. unfold strategy0. rewrite N.mod_small by lia. unfold chk_add.
    destruct (m_start st + slen <? W32) eqn:E; [|lia]. cbn [bind]. apply strategy0_loop_spec; lia.
  Qed.

  (* ---- strategy1 ---- *)
  Lemma strategy1_loop_spec (P : N -> Prop) byte off slen s0 : forall n i st save,
    N.of_nat n + i = slen -> m_start st = s0 -> s0 + slen <= m_end st -> m_end st < W32 -> m_hits st <= s0 + i ->
    (forall p, P p -> s0 <= p -> p < s0 + slen -> Eany p -> get (off + (p - s0)) = byte) ->
    finds_in P (s0 + i) (s0 + slen) st (strategy1_loop ex get n byte off slen i st save).
  Proof.
    induction n as [|n IH]; intros i st save Hn Hs H1 H2 H3 HP; cbn [strategy1_loop].
    - rewrite N.mod_small by lia. unfold chk_add. destruct (m_start st + slen <? W32) eqn:E; [|lia]. cbn [bind].
      exists false. eexists. exists save. split; [reflexivity|]. unfold found, with_start. cbn [m_start m_end m_hits].
      split; [reflexivity|]. split; [lia|]. split; [lia|]. split; [lia|]. split; [lia|]. intros p Ha Hb. lia.
    - destruct (get (off + i) =? byte) eqn:Eb.
      + unfold chk_add. destruct (m_hits st + 1 <? W32) eqn:E1; [|lia]. cbn [bind]. unfold with_hits. cbn [m_start m_end m_hits].
        rewrite N.mod_small by lia. destruct (m_start st + i <? W32) eqn:E2; [|lia]. cbn [bind].
        destruct (Hex (m_start st + i) save) as [ok [s' Hx]]. rewrite Hx. cbn [bind]. destruct ok.
        * destruct (m_start st + i + 1 <? W32) eqn:E3; [|lia]. cbn [bind].
          exists true. eexists. exists s'. split; [reflexivity|]. unfold found, with_start. cbn [m_start m_end m_hits].
          split; [reflexivity|]. split; [lia|]. split; [lia|]. split; [lia|].
          exists (m_start st + i), save. split; [lia|]. split; [lia|]. split; [exact Hx|]. intros p Ha Hb Hc. lia.
        * set (st1 := {| m_start := m_start st; m_end := m_end st; m_hits := m_hits st + 1 |}).
          destruct (IH (i + 1) st1 s') as [ok [st' [sv [Hr Hfd]]]]; try (unfold st1; cbn [m_start m_end m_hits]; lia); [exact HP|].
          exists ok, st', sv. split; [exact Hr|]. unfold found in *. unfold st1 in Hfd. cbn [m_start m_end m_hits] in Hfd.
          destruct Hfd as (He & Hh & Hlo & Hhi & Hc). split; [exact He|]. split; [exact Hh|]. split; [lia|]. split; [exact Hhi|].
          destruct ok.
          -- destruct Hc as [c [s_in (Hc1 & Hc2 & Hc3 & Hc4)]]. exists c, s_in. split; [lia|]. split; [exact Hc2|]. split; [exact Hc3|].
             intros p Ha Hb Hne HPp. destruct (N.eq_dec p (s0 + i)) as [->|Hn']; [rewrite <- Hs; exact (false_not_Eall _ _ _ Hx)|].
             apply Hc4; try assumption; lia.
          -- destruct Hc as [Hc1 Hc2]. split; [exact Hc1|]. intros p Ha Hb HPp.
             destruct (N.eq_dec p (s0 + i)) as [->|Hn']; [rewrite <- Hs; exact (false_not_Eall _ _ _ Hx)|]. apply Hc2; try assumption; lia.
      + destruct (IH (i + 1) st save) as [ok [st' [sv [Hr Hfd]]]]; try lia; [exact HP|].
        exists ok, st', sv. split; [exact Hr|]. unfold found in *.
        destruct Hfd as (He & Hh & Hlo & Hhi & Hc). split; [exact He|]. split; [exact Hh|]. split; [lia|]. split; [exact Hhi|].
        assert (Hskip : forall p, p = s0 + i -> P p -> ~ Eall p).
        { intros p -> HPp. apply not_Eany_not_Eall. intros HE. specialize (HP _ HPp ltac:(lia) ltac:(lia) HE).
          replace (off + (s0 + i - s0)) with (off + i) in HP by lia. lia. }
        destruct ok.
        * destruct Hc as [c [s_in (Hc1 & Hc2 & Hc3 & Hc4)]]. exists c, s_in. split; [lia|]. split; [exact Hc2|]. split; [exact Hc3|].
          intros p Ha Hb Hne HPp. destruct (N.eq_dec p (s0 + i)) as [Hp|Hn']; [exact (Hskip p Hp HPp)|]. apply Hc4; try assumption; lia.
        * destruct Hc as [Hc1 Hc2]. split; [exact Hc1|]. intros p Ha Hb HPp.
          destruct (N.eq_dec p (s0 + i)) as [Hp|Hn']; [exact (Hskip p Hp HPp)|]. apply Hc2; try assumption; lia.
  Qed.

  (* ---- strategy2 ---- *)
  Lemma strategy2_loop_spec (P : N -> Prop) qs off slen s0 : qs <> [] ->
    (forall p, P p -> p + lenN qs <= s0 + slen) ->
    (forall p, P p -> s0 <= p -> Eany p -> slice_eq get (off + (p - s0)) qs = true) ->
    forall fuel i st save,
    (N.to_nat (slen - i) < fuel)%nat -> i <= slen -> m_start st = s0 -> s0 + slen <= m_end st -> m_end st < W32 ->
    m_hits st <= s0 + i ->
    finds_in P (s0 + i) (s0 + slen) st
      (strategy2_loop ex get fuel qs (lenN qs) (nth (N.to_nat (lenN qs - 1)) qs 0) (jumps qs) off slen i st save).
  Proof.
    intros Hne HPw HPe. induction fuel as [|fuel IH]; intros i st save Hf Hi Hs H1 H2 H3; [lia|]. cbn [strategy2_loop].
    assert (Hl : 0 < lenN qs) by (unfold lenN; destruct qs; [congruence|cbn [length]; lia]).
    destruct (i + lenN qs <=? slen) eqn:Eg.
    2: { rewrite N.mod_small by lia. unfold chk_add. destruct (m_start st + slen <? W32) eqn:E; [|lia]. cbn [bind].
         exists false. eexists. exists save. split; [reflexivity|]. unfold found, with_start. cbn [m_start m_end m_hits].
         split; [reflexivity|]. split; [lia|]. split; [lia|]. split; [lia|]. split; [lia|].
         intros p Ha Hb HPp. specialize (HPw p HPp). lia. }
    set (last := get (off + i + (lenN qs - 1))).
    pose proof (jumps_bounds qs last Hne) as [Hj1 Hj2].
    (* positions strictly inside the shift cannot match *)
    assert (Hshift : forall p, s0 + i < p -> p < s0 + i + jumps qs last -> P p -> ~ Eall p).
    { intros p Ha Hb HPp. apply not_Eany_not_Eall. intros HE. specialize (HPe p HPp ltac:(lia) HE).
      rewrite (shift_safe get qs off i (p - s0) Hne) in HPe; [discriminate|lia|fold last; lia]. }
    destruct ((nth (N.to_nat (lenN qs - 1)) qs 0 =? last) && slice_eq get (off + i) qs) eqn:Ec.
    - unfold chk_add. destruct (m_hits st + 1 <? W32) eqn:E1; [|lia]. cbn [bind]. unfold with_hits. cbn [m_start m_end m_hits].
      rewrite N.mod_small by lia. destruct (m_start st + i <? W32) eqn:E2; [|lia]. cbn [bind].
      destruct (Hex (m_start st + i) save) as [ok [s' Hx]]. rewrite Hx. cbn [bind]. destruct ok.
      + destruct (m_start st + i + jumps qs last <? W32) eqn:E3; [|lia]. cbn [bind].
        exists true. eexists. exists s'. split; [reflexivity|]. unfold found, with_start. cbn [m_start m_end m_hits].
        split; [reflexivity|]. split; [lia|]. split; [lia|]. split; [lia|].
        exists (m_start st + i), save. split; [lia|]. split; [lia|]. split; [exact Hx|].
        intros p Ha Hb Hc HPp. apply Hshift; try assumption; lia.
      + set (st1 := {| m_start := m_start st; m_end := m_end st; m_hits := m_hits st + 1 |}).
        destruct (IH (i + jumps qs last) st1 s') as [ok [st' [sv [Hr Hfd]]]]; try (unfold st1; cbn [m_start m_end m_hits]; lia).
        exists ok, st', sv. split; [exact Hr|]. unfold found in *. unfold st1 in Hfd. cbn [m_start m_end m_hits] in Hfd.
        destruct Hfd as (He & Hh & Hlo & Hhi & Hc). split; [exact He|]. split; [exact Hh|]. split; [lia|]. split; [exact Hhi|].
        assert (Hat : forall p, p = s0 + i -> ~ Eall p) by (intros p ->; rewrite <- Hs; exact (false_not_Eall _ _ _ Hx)).
        destruct ok.
        * destruct Hc as [c [s_in (Hc1 & Hc2 & Hc3 & Hc4)]]. exists c, s_in. split; [lia|]. split; [exact Hc2|]. split; [exact Hc3|].
          intros p Ha Hb Hne' HPp. destruct (N.eq_dec p (s0 + i)) as [Hp|Hn']; [exact (Hat p Hp)|].
          destruct (N.lt_ge_cases p (s0 + i + jumps qs last)) as [Hlt|Hge]; [apply Hshift; try assumption; lia|].
          apply Hc4; try assumption; lia.
        * destruct Hc as [Hc1 Hc2]. split; [exact Hc1|]. intros p Ha Hb HPp.
          destruct (N.eq_dec p (s0 + i)) as [Hp|Hn']; [exact (Hat p Hp)|].
          destruct (N.lt_ge_cases p (s0 + i + jumps qs last)) as [Hlt|Hge]; [apply Hshift; try assumption; lia|].
          apply Hc2; try assumption; lia.
    - destruct (IH (i + jumps qs last) st save) as [ok [st' [sv [Hr Hfd]]]]; try lia.
      exists ok, st', sv. split; [exact Hr|]. unfold found in *.
      destruct Hfd as (He & Hh & Hlo & Hhi & Hc). split; [exact He|]. split; [exact Hh|]. split; [lia|]. split; [exact Hhi|].
      assert (Hat : forall p, p = s0 + i -> P p -> ~ Eall p).
      { intros p -> HPp. apply not_Eany_not_Eall. intros HE. specialize (HPe _ HPp ltac:(lia) HE).
        replace (off + (s0 + i - s0)) with (off + i) in HPe by lia. rewrite HPe, andb_true_r in Ec.
        rewrite slice_eq_spec in HPe. specialize (HPe (N.to_nat (lenN qs - 1)) ltac:(unfold lenN in *; lia)).
        replace (off + i + N.of_nat (N.to_nat (lenN qs - 1))) with (off + i + (lenN qs - 1)) in HPe by lia.
        fold last in HPe. lia. }
      destruct ok.
      + destruct Hc as [c [s_in (Hc1 & Hc2 & Hc3 & Hc4)]]. exists c, s_in. split; [lia|]. split; [exact Hc2|]. split; [exact Hc3|].
        intros p Ha Hb Hne' HPp. destruct (N.eq_dec p (s0 + i)) as [Hp|Hn']; [exact (Hat p Hp HPp)|].
        destruct (N.lt_ge_cases p (s0 + i + jumps qs last)) as [Hlt|Hge]; [apply Hshift; try assumption; lia|].
        apply Hc4; try assumption; lia.
      + destruct Hc as [Hc1 Hc2]. split; [exact Hc1|]. intros p Ha Hb HPp.
        destruct (N.eq_dec p (s0 + i)) as [Hp|Hn']; [exact (Hat p Hp HPp)|].
        destruct (N.lt_ge_cases p (s0 + i + jumps qs last)) as [Hlt|Hge]; [apply Hshift; try assumption; lia|].
        apply Hc2; try assumption; lia.
  Qed.

  (* ---- the dispatcher and next_section ---- *)
  (* the prefix matches the slice at position p as far as the slice extends *)
  Definition pre_ok (qs : list N) (off s0 hi p : N) : Prop :=
    forall k, (k < length qs)%nat -> p + N.of_nat k < hi -> get (off + (p - s0) + N.of_nat k) = nth k qs 0.

  Lemma strategy_spec (P : N -> Prop) qs off slen st save :
    m_start st + slen <= m_end st -> m_end st < W32 -> m_hits st <= m_start st ->
    (forall p, P p -> m_start st <= p -> p < m_start st + slen -> Eany p -> pre_ok qs off (m_start st) (m_start st + slen) p) ->
    (4 <= lenN qs -> forall p, P p -> p + lenN qs <= m_start st + slen) ->
    finds_in P (m_start st) (m_start st + slen) st (strategy ex get qs off slen st save).
  Proof.
    intros H1 H2 H3 HP HW. unfold strategy. destruct (lenN qs =? 0) eqn:E0; [apply strategy0_spec; assumption|].
    destruct (lenN qs <? 4) eqn:E4.
    - unfold strategy1. destruct qs as [|byte rest]; [unfold lenN in E0; cbn [length] in E0; lia|].
      replace (m_start st) with (m_start st + 0) at 1 by lia.
      apply strategy1_loop_spec; try lia. intros p HPp Ha Hb HE.
      specialize (HP p HPp Ha Hb HE O ltac:(cbn [length]; lia) ltac:(lia)). cbn [nth] in HP.
      replace (off + (p - m_start st) + N.of_nat 0) with (off + (p - m_start st)) in HP by lia. exact HP.
    - unfold strategy2, chk_sub. destruct (1 <=? lenN qs) eqn:E1; [|lia]. cbn [bind].
      replace (m_start st) with (m_start st + 0) at 1 by lia.
      assert (Hne : qs <> []) by (intros ->; unfold lenN in E0; cbn [length] in E0; lia).
      apply strategy2_loop_spec; try lia; try assumption.
      + apply HW. lia.
      + intros p HPp Ha HE. specialize (HW ltac:(lia) p HPp). apply slice_eq_spec. intros k Hk.
        apply (HP p HPp Ha ltac:(unfold lenN in *; lia) HE k Hk). unfold lenN in *. lia.
  Qed.

  Lemma next_section_spec (P : N -> Prop) qs base sl st save :
    base <= m_end st -> m_end st < W32 -> m_hits st <= m_start st ->
    let s1 := N.max base (m_start st) in
    let eo := N.min (r_len sl) (m_end st - base) in
    (forall p, P p -> s1 <= p -> p < base + eo -> Eany p -> pre_ok qs (r_off sl) base (base + eo) p) ->
    (4 <= lenN qs -> forall p, P p -> p + lenN qs <= base + eo) ->
    finds_in P s1 (N.max s1 (base + eo)) st (next_section ex get qs base sl st save).
  Proof.
    intros H1 H2 H3 s1 eo HP HW. unfold next_section, with_start. cbn [m_start m_end m_hits].
    unfold chk_sub. destruct (base <=? N.max base (m_start st)) eqn:E1; [|lia]. cbn [bind].
    destruct (base <=? m_end st) eqn:E2; [|lia]. cbn [bind]. fold eo. fold s1.
    destruct (eo <=? s1 - base) eqn:E3.
    - exists false. eexists. exists save. split; [reflexivity|]. unfold found. cbn [m_start m_end m_hits].
      split; [reflexivity|]. split; [lia|]. split; [lia|]. split; [lia|]. split; [lia|]. intros p Ha Hb. lia.
    - set (st1 := {| m_start := s1; m_end := m_end st; m_hits := m_hits st |}).
      assert (Hhi : N.max s1 (base + eo) = m_start st1 + (eo - (s1 - base))) by (unfold st1; cbn [m_start]; lia).
      rewrite Hhi. replace s1 with (m_start st1) at 1 by reflexivity.
      destruct (strategy_spec P qs (r_off sl + (s1 - base)) (eo - (s1 - base)) st1 save) as [ok [st' [sv [Hr Hfd]]]];
        try (unfold st1; cbn [m_start m_end m_hits]; lia).
      + unfold st1. cbn [m_start]. intros p HPp Ha Hb HE k Hk Hk2.
        replace (r_off sl + (s1 - base) + (p - s1)) with (r_off sl + (p - base)) by lia.
        apply (HP p HPp Ha ltac:(lia) HE k Hk). lia.
      + unfold st1. cbn [m_start]. intros H4 p HPp. specialize (HW H4 p HPp). lia.
      + exists ok, st', sv. split; [exact Hr|]. unfold found in *. unfold st1 in Hfd. cbn [m_start m_end m_hits] in Hfd. exact Hfd.
  Qed.
End Abstract.

(* ------------------------------------------------------------------ Matches::next on a view: totality, invariant, soundness *)
Section ViewLevel.
  Variable v : view.
  Variable pat : list atom.
  Hypothesis Hok : view_ok v.
  Hypothesis Hlen : v_len v < W32.

  Lemma view_ex_total : forall c s, exists ok s', view_exec v pat c s = Ok (ok, s').
  Proof. intros c s. apply view_exec_total; assumption. Qed.

  (* what every call guarantees: a verdict (no fault), range.end untouched, hits <= range.start kept, range.start
     monotone and bounded, and on success a position inside the range where the interpreter succeeds with exactly
     the returned captures, strictly below the new range.start *)
  Definition next_post (st : mstate) (r : res sres) : Prop :=
    exists ok st' save', r = Ok (ok, st', save') /\
      m_end st' = m_end st /\ m_hits st' <= m_start st' /\ m_start st <= m_start st' /\
      m_start st' <= N.max (m_start st) (m_end st) /\
      (ok = true -> exists c s_in, m_start st <= c /\ c < m_end st /\ c < m_start st' /\
                                   view_exec v pat c s_in = Ok (true, save')).

  Lemma next_section_post qs base sl st save :
    base <= m_end st -> m_end st < W32 -> m_hits st <= m_start st ->
    next_post st (next_section (view_exec v pat) (v_get v) qs base sl st save).
  Proof.
    intros H1 H2 H3.
    destruct (next_section_spec (view_exec v pat) (v_get v) view_ex_total (fun _ => False) qs base sl st save H1 H2 H3)
      as [ok [st' [sv [Hr Hfd]]]]; [intros p []|intros _ p []|].
    exists ok, st', sv. split; [exact Hr|]. unfold found in Hfd. destruct Hfd as (He & Hh & Hlo & Hhi & Hc).
    split; [exact He|]. split; [exact Hh|]. split; [lia|]. split; [lia|].
    intros ->. destruct Hc as [c [s_in (Hc1 & Hc2 & Hc3 & _)]]. exists c, s_in. split; [lia|]. split; [lia|]. split; [exact Hc2|exact Hc3].
  Qed.

  Lemma next_file_post qs : forall secs st save, m_end st < W32 -> m_hits st <= m_start st ->
    next_post st (next_file (next_section (view_exec v pat) (v_get v)) (v_len v) qs secs st save).
  Proof.
    induction secs as [|s rest IH]; intros st save H2 H3; cbn [next_file].
    - exists false, st, save. split; [reflexivity|]. split; [reflexivity|]. split; [exact H3|]. split; [lia|]. split; [lia|]. discriminate.
    - destruct ((s_va s <? m_end st) && (m_start st <? wadd32 (s_va s) (s_vs s))) eqn:Eg; [|apply IH; assumption].
      destruct (get_range (v_len v) (s_prd s) (wadd32 (s_prd s) (s_srd s))) as [sl|]; [|apply IH; assumption].
      destruct (next_section_post qs (s_va s) sl st save ltac:(lia) H2 H3) as [ok [st' [sv [Hr (He & Hh & Hlo & Hhi & Hc)]]]].
      rewrite Hr. cbn [bind]. destruct ok.
      + exists true, st', sv. split; [reflexivity|]. split; [exact He|]. split; [exact Hh|]. split; [exact Hlo|]. split; [exact Hhi|]. exact Hc.
      + destruct (IH st' sv ltac:(lia) Hh) as [ok2 [st2 [sv2 [Hr2 (He2 & Hh2 & Hlo2 & Hhi2 & Hc2)]]]].
        exists ok2, st2, sv2. split; [exact Hr2|]. split; [lia|]. split; [exact Hh2|]. split; [lia|]. split; [lia|].
        intros Ht. destruct (Hc2 Ht) as [c [s_in (A & B & C & D)]]. exists c, s_in. split; [lia|]. split; [lia|]. split; [exact C|exact D].
  Qed.

  (* theorems 1 and 6: for every view, pattern, range (also reversed or outside the image) and save array *)
  Theorem next_total_sound st save : m_end st < W32 -> m_hits st <= m_start st -> next_post st (next v pat st save).
  Proof.
    intros H2 H3. unfold next, next_with. destruct (v_file v).
    - apply next_file_post; assumption.
    - apply next_section_post; try assumption. lia.
  Qed.
End ViewLevel.

(* ------------------------------------------------------------------ the prefix lemma (theorem 2, interpreter side) *)
Lemma skipn_nth_error {A} (l : list A) : forall pc, 
  match nth_error l pc with Some a => skipn pc l = a :: skipn (S pc) l | None => skipn pc l = [] end.
Proof.
  induction l as [|h t IH]; intros pc; [destruct pc; reflexivity|].
  destruct pc as [|pc]; [reflexivity|]. cbn [nth_error]. specialize (IH pc). destruct (nth_error t pc); cbn [skipn] in *; exact IH.
Qed.

Definition ok_of (r : xres) : bool := fst (fst (fst r)).

(* theorem 2, interpreter side: a successful execution has read the literal prefix, byte by byte, at the cursor *)
Lemma exec_reads_prefix sc pat : forall fuel pc cur ext save r room,
  exec sc pat fuel pc cur 255 ext save = Ok r -> ok_of r = true ->
  forall k, (k < length (setup_aux (skipn pc pat) room))%nat ->
  exists x, sc_read sc 1 (cur + N.of_nat k) = Some x /\ N.land x 255 = N.land (nth k (setup_aux (skipn pc pat) room) 0) 255.
Proof.
  induction fuel as [|fuel IH]; intros pc cur ext save r room Hr Hok k Hk; [discriminate|].
  cbn [exec] in Hr. pose proof (skipn_nth_error pat pc) as Hsk.
  destruct (nth_error pat pc) as [a|]; [|rewrite Hsk in Hk; cbn [setup_aux length] in Hk; lia].
  rewrite Hsk in *. clear Hsk.
  destruct a; cbn [setup_aux] in *; try (cbn [length] in Hk; lia).
  - (* Byte *) destruct room as [|room]; [cbn [length] in Hk; lia|].
    destruct (sc_read sc 1 cur) as [x|] eqn:Erd; [|inversion Hr; subst r; discriminate].
    destruct (N.land x 255 =? N.land b 255) eqn:El; [|inversion Hr; subst r; discriminate].
    unfold chk_add in Hr. destruct (cur + 1 <? W32); [|discriminate]. cbn [bind] in Hr.
    destruct k as [|k].
    + exists x. replace (cur + N.of_nat 0) with cur by lia. split; [exact Erd|]. cbn [nth]. lia.
    + cbn [length] in Hk. destruct (IH _ _ _ _ _ room Hr Hok k ltac:(lia)) as [y [Hy1 Hy2]].
      exists y. replace (cur + N.of_nat (S k)) with (cur + 1 + N.of_nat k) by lia. split; [exact Hy1|]. cbn [nth]. exact Hy2.
  - (* Save *) exact (IH _ _ _ _ _ room Hr Hok k Hk).
  - (* Aligned *) destruct (N.land cur (if k0 <? 32 then 2 ^ k0 - 1 else W32 - 1) =? 0); [|inversion Hr; subst r; discriminate].
    exact (IH _ _ _ _ _ room Hr Hok k Hk).
  - (* Nop *) exact (IH _ _ _ _ _ room Hr Hok k Hk).
Qed.

Lemma view_exec_reads_prefix v pat c s s' : view_exec v pat c s = Ok (true, s') ->
  forall k, (k < length (setup pat))%nat ->
  exists x, sc_read (scan_of_view v) 1 (c + N.of_nat k) = Some x /\ N.land x 255 = N.land (nth k (setup pat) 0) 255.
Proof.
  unfold view_exec, run_exec. intros H k Hk.
  destruct (exec (scan_of_view v) pat (S (length pat)) 0 c 255 0 s) as [r| |] eqn:Er; cbn [bind] in H; try discriminate.
  destruct r as [[[ok pc'] cur'] sv]. inversion H; subst ok sv.
  exact (exec_reads_prefix (scan_of_view v) pat _ 0%nat c 0 s _ 16%nat Er eq_refl k Hk).
Qed.

Lemma land255 x : x < 256 -> N.land x 255 = x.
Proof. intros H. change 255 with (N.ones 8). rewrite N.land_ones. apply N.mod_small. exact H. Qed.

(* what a successful one-byte read of the interpreter returns on a mapped view: the byte at offset rva of the image *)
Lemma mapped_read_byte v rva x : v_file v = false -> sc_read (scan_of_view v) 1 rva = Some x ->
  x = v_get v rva /\ rva < v_len v.
Proof.
  intros Hf H. unfold scan_of_view in H. cbn [sc_read] in H. unfold slice in H. rewrite Hf in H.
  unfold slice_section in H. destruct (rva =? 0); [discriminate|].
  destruct (negb (aligned_to 1 (wadd64 (v_addr v) rva))); [discriminate|].
  unfold get_from in H. destruct (rva <=? v_len v) eqn:E1; [|discriminate]. cbn [r_len r_off] in H.
  destruct (1 <=? v_len v - rva) eqn:E2; [|discriminate]. cbn [r_off] in H. inversion H. cbn [le_value N.to_nat]. 
  change (N.to_nat 1) with 1%nat. cbn [le_value]. split; lia.
Qed.

(* ------------------------------------------------------------------ completeness on a mapped view (theorem 4) *)
Definition win (qs : list N) : N := if lenN qs <? 4 then 1 else lenN qs.

Theorem next_complete_mapped v pat : view_ok v -> v_len v < W32 -> v_file v = false ->
  (forall i, v_get v i < 256) -> bytes_ok (setup pat) ->
  forall st save, m_end st < W32 -> m_hits st <= m_start st ->
  exists ok st' save', next v pat st save = Ok (ok, st', save') /\
    if ok then exists c s_in, m_start st <= c /\ c < m_start st' /\ view_exec v pat c s_in = Ok (true, save') /\
        forall p, m_start st <= p -> p < m_start st' -> p <> c -> p + win (setup pat) <= N.min (m_end st) (v_len v) ->
                  ~ Eall (view_exec v pat) p
    else forall p, m_start st <= p -> p + win (setup pat) <= N.min (m_end st) (v_len v) -> ~ Eall (view_exec v pat) p.
Proof.
  intros Hok Hlen Hf Hget Hqs st save H2 H3. unfold next, next_with. rewrite Hf.
  set (P := fun p => p + win (setup pat) <= N.min (m_end st) (v_len v)).
  assert (Hw : 1 <= win (setup pat)) by (unfold win; destruct (lenN (setup pat) <? 4) eqn:E; lia).
  destruct (next_section_spec (view_exec v pat) (v_get v) (view_ex_total v pat Hok Hlen) P (setup pat) 0
              {| r_off := 0; r_len := v_len v |} st save ltac:(lia) H2 H3) as [ok [st' [sv [Hr Hfd]]]].
  - cbn [r_off r_len]. intros p HPp Ha Hb [s [s' HE]] k Hk Hk2.
    destruct (view_exec_reads_prefix v pat p s s' HE k Hk) as [x [Hx1 Hx2]].
    destruct (mapped_read_byte v _ x Hf Hx1) as [-> _].
    rewrite land255 in Hx2 by apply Hget. rewrite land255 in Hx2.
    + replace (0 + (p - 0) + N.of_nat k) with (p + N.of_nat k) by lia. exact Hx2.
    + unfold bytes_ok in Hqs. rewrite Forall_forall in Hqs. apply Hqs. apply nth_In. exact Hk.
  - cbn [r_len]. intros H4 p HPp. unfold P, win in HPp. destruct (lenN (setup pat) <? 4) eqn:E; lia.
  - exists ok, st', sv. split; [exact Hr|]. unfold found in Hfd. cbn [r_len] in Hfd. destruct Hfd as (He & Hh & Hlo & Hhi & Hc).
    destruct ok.
    + destruct Hc as [c [s_in (A & B & C & D)]]. exists c, s_in. split; [lia|]. split; [exact B|]. split; [exact C|].
      intros p Ha Hb Hne Hp. apply D; try assumption. lia.
    + destruct Hc as [A B]. intros p Ha Hp. apply B; try assumption; [lia|]. unfold P in *. lia.
Qed.

(* ------------------------------------------------------------------ finds (theorem 5, structural part) *)
Theorem finds_spec v pat rs re save : view_ok v -> v_len v < W32 -> re < W32 ->
  exists b ok1 st1 save1, finds v pat rs re save = Ok (b, save1) /\
    next v pat (matches rs re) save = Ok (ok1, st1, save1) /\
    (b = true <-> ok1 = true /\ exists st2 sv2, next v pat st1 [] = Ok (false, st2, sv2)).
Proof.
  intros Hok Hlen Hre. unfold finds.
  destruct (next_total_sound v pat Hok Hlen (matches rs re) save) as [ok1 [st1 [sv1 [Hr (He & Hh & _)]]]];
    [cbn [matches m_end]; exact Hre|cbn [matches m_hits m_start]; lia|].
  rewrite Hr. cbn [bind]. destruct ok1; cbn [negb].
  - destruct (next_total_sound v pat Hok Hlen st1 []) as [ok2 [st2 [sv2 [Hr2 _]]]]; [cbn [matches m_end] in He; lia|exact Hh|].
    rewrite Hr2. cbn [bind]. exists (negb ok2), true, st1, sv1. split; [reflexivity|]. split; [reflexivity|].
    destruct ok2; cbn [negb]; split.
    + discriminate.
    + intros [_ [a [b H]]]. rewrite Hr2 in H. discriminate.
    + intros _. split; [reflexivity|]. exists st2, sv2. exact Hr2.
    + reflexivity.
  - exists false, false, st1, sv1. split; [reflexivity|]. split; [reflexivity|]. split; [discriminate|]. intros [H _]. discriminate.
Qed.

(* ------------------------------------------------------------------ witnesses *)
Definition wit_pat : list atom := [Save 0; Byte 65; Byte 66].
Definition wit_get (i : N) : N :=
  if (i =? 1040) || (i =? 1296) then 65 else if (i =? 1041) || (i =? 1297) then 66 else 0.
Definition wit_view (file : bool) (len : N) (secs : list section) : view :=
  {| v_file := file; v_addr := 4096; v_len := len; v_get := wit_get; v_w := W32; v_base := 4194304;
     v_soh := 1024; v_soi := 12288; v_secs := secs |}.

(* F9, the code as it stood: a range starting in the virtual-only tail of a section, a range beyond a mapped image,
   a reversed range, and a section whose raw data ends beyond 2^32 *)
Lemma next_orig_refuted :
  let tail := wit_view true 1536 [{| s_va := 4096; s_vs := 1024; s_prd := 1024; s_srd := 512 |}] in
  let mapped := wit_view false 4608 [{| s_va := 4096; s_vs := 256; s_prd := 4096; s_srd := 256 |}] in
  let high := wit_view true 9216 [{| s_va := 4294963200; s_vs := 2048; s_prd := 1024; s_srd := 8192 |}] in
  next_orig tail wit_pat (matches 4864 5120) [0] = Fault PSliceOrder /\
  next tail wit_pat (matches 4864 5120) [0] = Ok (false, {| m_start := 4864; m_end := 5120; m_hits := 0 |}, [0]) /\
  next_orig mapped wit_pat (matches 4700 4800) [0] = Fault PSliceOrder /\
  next mapped wit_pat (matches 4700 4800) [0] = Ok (false, {| m_start := 4700; m_end := 4800; m_hits := 0 |}, [0]) /\
  next_orig tail wit_pat (matches 4200 4150) [0] = Fault PSliceOrder /\
  next tail wit_pat (matches 4200 4150) [0] = Ok (false, {| m_start := 4200; m_end := 4150; m_hits := 0 |}, [0]) /\
  next_orig high wit_pat (matches 4294963200 4294967295) [0] = Fault POverflow /\
  next high wit_pat (matches 4294963200 4294967295) [0] = Ok (false, {| m_start := 4294967295; m_end := 4294967295; m_hits := 2 |}, [4294963472]).
Proof. vm_compute. repeat split; reflexivity. Qed.

(* F28, the known class: the table lists the section at 0x2000 before the one at 0x1000; 0x1010 is an obliged
   matching position that the iteration never reports *)
Lemma sections_not_sorted_witness :
  let v := wit_view true 1536 [{| s_va := 8192; s_vs := 256; s_prd := 1280; s_srd := 256 |};
                               {| s_va := 4096; s_vs := 256; s_prd := 1024; s_srd := 256 |}] in
  sections_not_sorted v = true /\
  must_report v (window wit_pat) 0 12288 4112 = true /\
  view_exec v wit_pat 4112 [0] = Ok (true, [4112]) /\
  iterate 3 v wit_pat (matches 0 12288) [0]
  = Ok [(true, {| m_start := 8209; m_end := 12288; m_hits := 1 |}, [8208]);
        (false, {| m_start := 8448; m_end := 12288; m_hits := 1 |}, [8208])].
Proof. vm_compute. repeat split; reflexivity. Qed.

(* the same two sections in address order: both positions are reported *)
Lemma nonvacuous_example :
  let v := wit_view true 1536 [{| s_va := 4096; s_vs := 256; s_prd := 1024; s_srd := 256 |};
                               {| s_va := 8192; s_vs := 256; s_prd := 1280; s_srd := 256 |}] in
  sections_not_sorted v = false /\
  iterate 3 v wit_pat (matches 0 12288) [0]
  = Ok [(true, {| m_start := 4113; m_end := 12288; m_hits := 1 |}, [4112]);
        (true, {| m_start := 8209; m_end := 12288; m_hits := 2 |}, [8208]);
        (false, {| m_start := 8448; m_end := 12288; m_hits := 2 |}, [8208])] /\
  finds v wit_pat 0 8192 [0] = Ok (true, [4112]) /\ finds v wit_pat 0 12288 [0] = Ok (false, [4112]).
Proof. vm_compute. repeat split; reflexivity. Qed.

(* ------------------------------------------------------------------ completeness on a file view (theorem 4) *)
Lemma get_range_section len s sl : section_ok s ->
  get_range len (s_prd s) (wadd32 (s_prd s) (s_srd s)) = Some sl ->
  sl = {| r_off := s_prd s; r_len := s_srd s |} /\ s_prd s + s_srd s <= len /\ s_prd s + s_srd s < W32.
Proof.
  intros (_ & _ & Hp & Hs) H. unfold get_range, wadd32 in H.
  destruct ((s_prd s <=? (s_prd s + s_srd s) mod W32) && ((s_prd s + s_srd s) mod W32 <=? len)) eqn:E; [|discriminate].
  inversion H. unfold W32 in *. assert (s_prd s + s_srd s < 4294967296) by lia.
  rewrite N.mod_small in * by lia. split; [f_equal; lia|]. lia.
Qed.

Lemma sorted_head h t : sorted_by_va (h :: t) = true -> (forall s, In s t -> s_va h <= s_va s) /\ sorted_by_va t = true.
Proof.
  revert h. induction t as [|a t IH]; intros h H; [split; [intros s []|reflexivity]|].
  cbn [sorted_by_va] in H. apply andb_true_iff in H. destruct H as [H1 H2]. destruct (IH a H2) as [Ha _].
  split; [|exact H2]. intros s [<-|Hin]; [lia|]. specialize (Ha s Hin). lia.
Qed.

Section FileLevel.
  Variable v : view.
  Variable pat : list atom.
  Hypothesis Hok : view_ok v.
  Hypothesis Hlen : v_len v < W32.
  Variable rend : N.
  Hypothesis Hrend : rend < W32.
  Let qs := setup pat.
  Let ex := view_exec v pat.

  Definition owner_ok (s : section) (p : N) : Prop :=
    s_prd s + s_srd s <= v_len v /\ p - s_va s < s_vs s /\ p + win qs <= N.min rend (s_va s + s_srd s).
  Definition obl (secs : list section) (p : N) : Prop :=
    exists s, find (in_virtual p) secs = Some s /\ owner_ok s p.

  Lemma next_file_complete : forall secs (Q : N -> Prop) st save,
    Forall section_ok secs -> sorted_by_va secs = true -> sections_sane secs = true ->
    m_end st = rend -> m_hits st <= m_start st ->
    (forall p s, Q p -> find (in_virtual p) secs = Some s -> Eany ex p -> forall k, (k < length qs)%nat ->
        p + N.of_nat k < s_va s + s_srd s -> v_get v (s_prd s + (p - s_va s) + N.of_nat k) = nth k qs 0) ->
    exists ok st' save', next_file (next_section ex (v_get v)) (v_len v) qs secs st save = Ok (ok, st', save') /\
      m_end st' = rend /\ m_hits st' <= m_start st' /\ m_start st <= m_start st' /\
      if ok then exists c s_in, m_start st <= c /\ c < m_start st' /\ ex c s_in = Ok (true, save') /\
           forall p, m_start st <= p -> p < m_start st' -> p <> c -> Q p -> obl secs p -> ~ Eall ex p
      else forall p, m_start st <= p -> Q p -> obl secs p -> ~ Eall ex p.
  Proof.
    assert (Hw : 1 <= win qs) by (unfold win; destruct (lenN qs <? 4) eqn:E; lia).
    induction secs as [|h tail IH]; intros Q st save Hsok Hsort Hsane He Hh Hbytes; cbn [next_file].
    - exists false, st, save. split; [reflexivity|]. split; [exact He|]. split; [exact Hh|]. split; [lia|].
      intros p _ _ [s [Hf _]]. discriminate.
    - inversion Hsok as [|? ? Hhok Htok]; subst.
      destruct (sorted_head h tail Hsort) as [Hle Hsort'].
      cbn [sections_sane forallb] in Hsane. apply andb_true_iff in Hsane. destruct Hsane as [Hsh Hsane'].
      assert (Hvs : wadd32 (s_va h) (s_vs h) = s_va h + s_vs h).
      { unfold wadd32. apply N.mod_small. unfold vext in Hsh. lia. }
      (* positions whose owner is in the tail lie at or above the head's base *)
      assert (Htail : forall p, in_virtual p h = false -> obl tail p -> s_va h <= p /\ s_va h + vext h <= p).
      { intros p Hnv [s [Hf _]]. apply find_some in Hf. destruct Hf as [Hin Hiv]. specialize (Hle s Hin).
        unfold in_virtual in *. lia. }
      set (Q' := fun p => Q p /\ in_virtual p h = false).
      assert (Hbytes' : forall p s, Q' p -> find (in_virtual p) tail = Some s -> Eany ex p -> forall k, (k < length qs)%nat ->
        p + N.of_nat k < s_va s + s_srd s -> v_get v (s_prd s + (p - s_va s) + N.of_nat k) = nth k qs 0).
      { intros p s [HQ Hnv] Hf. apply Hbytes; [exact HQ|]. cbn [find]. rewrite Hnv. exact Hf. }
      (* an obliged position owned by the head forces the head to be scanned *)
      assert (Hown : forall p, m_start st <= p -> in_virtual p h = true -> owner_ok h p ->
                ((s_va h <? m_end st) && (m_start st <? wadd32 (s_va h) (s_vs h))) = true /\
                get_range (v_len v) (s_prd h) (wadd32 (s_prd h) (s_srd h)) = Some {| r_off := s_prd h; r_len := s_srd h |}).
      { intros p Ha Hiv (O1 & O2 & O3). rewrite Hvs. unfold in_virtual in Hiv. split; [lia|].
        unfold get_range, wadd32. destruct Hhok as (_ & _ & Hp & Hs). rewrite N.mod_small by (unfold W32 in *; lia).
        destruct ((s_prd h <=? s_prd h + s_srd h) && (s_prd h + s_srd h <=? v_len v)) eqn:E; [|lia]. f_equal. f_equal. lia. }
      (* the obligation at the head of the list *)
      assert (Hsplit : forall p, obl (h :: tail) p -> (in_virtual p h = true /\ owner_ok h p) \/ (in_virtual p h = false /\ obl tail p)).
      { intros p [s [Hf Ho]]. cbn [find] in Hf. destruct (in_virtual p h) eqn:Eiv.
        - left. inversion Hf; subst s. split; [reflexivity|exact Ho].
        - right. split; [reflexivity|]. exists s. split; assumption. }
      assert (Hskipcase : forall st0 save0, st0 = st -> save0 = save ->
        (forall p, m_start st <= p -> in_virtual p h = true -> owner_ok h p -> False) ->
        exists ok st' save', next_file (next_section ex (v_get v)) (v_len v) qs tail st save = Ok (ok, st', save') /\
        m_end st' = rend /\ m_hits st' <= m_start st' /\ m_start st <= m_start st' /\
        if ok then exists c s_in, m_start st <= c /\ c < m_start st' /\ ex c s_in = Ok (true, save') /\
             forall p, m_start st <= p -> p < m_start st' -> p <> c -> Q p -> obl (h :: tail) p -> ~ Eall ex p
        else forall p, m_start st <= p -> Q p -> obl (h :: tail) p -> ~ Eall ex p).
      { intros _ _ _ _ Hno. destruct (IH Q' st save Htok Hsort' Hsane' He Hh Hbytes') as [ok [st' [sv (Hr & A & B & C & D)]]].
        exists ok, st', sv. split; [exact Hr|]. split; [exact A|]. split; [exact B|]. split; [exact C|]. destruct ok.
        - destruct D as [c [s_in (D1 & D2 & D3 & D4)]]. exists c, s_in. split; [exact D1|]. split; [exact D2|]. split; [exact D3|].
          intros p Ha Hb Hne HQ Ho. destruct (Hsplit p Ho) as [[Hiv Hoo]|[Hnv Hot]]; [exfalso; exact (Hno p Ha Hiv Hoo)|].
          apply D4; try assumption. split; assumption.
        - intros p Ha HQ Ho. destruct (Hsplit p Ho) as [[Hiv Hoo]|[Hnv Hot]]; [exfalso; exact (Hno p Ha Hiv Hoo)|].
          apply D; try assumption. split; assumption. }
      destruct ((s_va h <? m_end st) && (m_start st <? wadd32 (s_va h) (s_vs h))) eqn:Eg.
      2: { apply (Hskipcase st save eq_refl eq_refl). intros p Ha Hiv Ho. destruct (Hown p Ha Hiv Ho) as [G _]. discriminate. }
      destruct (get_range (v_len v) (s_prd h) (wadd32 (s_prd h) (s_srd h))) as [sl|] eqn:Egr.
      2: { apply (Hskipcase st save eq_refl eq_refl). intros p Ha Hiv Ho. destruct (Hown p Ha Hiv Ho) as [_ G]. discriminate. }
      destruct (get_range_section _ _ _ Hhok Egr) as [-> [Hraw Hraw2]].
      set (P := fun p => Q p /\ in_virtual p h = true /\ owner_ok h p).
      destruct (next_section_spec ex (v_get v) (view_ex_total v pat Hok Hlen) P qs (s_va h) {| r_off := s_prd h; r_len := s_srd h |} st save
                  ltac:(lia) ltac:(lia) Hh) as [ok [st' [sv [Hr Hfd]]]].
      + cbn [r_off r_len]. intros p (HQ & Hiv & Ho) Ha Hb HE k Hk Hk2.
        apply (Hbytes p h HQ); try assumption; [cbn [find]; rewrite Hiv; reflexivity|]. lia.
      + cbn [r_len]. intros H4 p (HQ & Hiv & (O1 & O2 & O3)). unfold win in O3. destruct (lenN qs <? 4) eqn:E; lia.
      + rewrite Hr. cbn [bind]. unfold found in Hfd. cbn [r_len] in Hfd. destruct Hfd as (F1 & F2 & F3 & F4 & F5).
        set (s1 := N.max (s_va h) (m_start st)) in *. set (eo := N.min (s_srd h) (m_end st - s_va h)) in *.
        (* positions before this pass's end that are not the head's own are impossible *)
        assert (Hbefore : forall p, m_start st <= p -> p < N.max s1 (s_va h + eo) -> in_virtual p h = false -> obl tail p -> False).
        { intros p Ha Hb Hnv Hot. destruct (Htail p Hnv Hot) as [T1 T2]. unfold vext in T2. lia. }
        assert (Hmine : forall p, m_start st <= p -> Q p -> in_virtual p h = true -> owner_ok h p -> s1 <= p /\ p < s_va h + eo /\ P p).
        { intros p Ha HQ Hiv Ho. split; [unfold in_virtual in Hiv; lia|]. split; [destruct Ho as (O1 & O2 & O3); lia|]. split; [exact HQ|]. split; assumption. }
        destruct ok.
        * destruct F5 as [c [s_in (G1 & G2 & G3 & G4)]].
          exists true, st', sv. split; [reflexivity|]. split; [lia|]. split; [exact F2|]. split; [lia|].
          exists c, s_in. split; [lia|]. split; [exact G2|]. split; [exact G3|].
          intros p Ha Hb Hne HQ Ho. destruct (Hsplit p Ho) as [[Hiv Hoo]|[Hnv Hot]].
          -- destruct (Hmine p Ha HQ Hiv Hoo) as (M1 & M2 & M3). apply G4; assumption.
          -- exfalso. apply (Hbefore p Ha ltac:(lia) Hnv Hot).
        * destruct F5 as [G1 G2].
          destruct (IH Q' st' sv Htok Hsort' Hsane' ltac:(lia) F2 Hbytes') as [ok2 [st2 [sv2 (Hr2 & A & B & C & D)]]].
          exists ok2, st2, sv2. split; [exact Hr2|]. split; [exact A|]. split; [exact B|]. split; [lia|].
          assert (Hcover : forall p, m_start st <= p -> Q p -> obl (h :: tail) p -> p < m_start st' -> ~ Eall ex p).
          { intros p Ha HQ Ho Hb. destruct (Hsplit p Ho) as [[Hiv Hoo]|[Hnv Hot]].
            - destruct (Hmine p Ha HQ Hiv Hoo) as (M1 & M2 & M3). apply G2; try assumption. lia.
            - exfalso. apply (Hbefore p Ha ltac:(lia) Hnv Hot). }
          assert (Hlater : forall p, m_start st' <= p -> Q p -> obl (h :: tail) p -> Q' p /\ obl tail p).
          { intros p Ha HQ Ho. destruct (Hsplit p Ho) as [[Hiv Hoo]|[Hnv Hot]].
            - exfalso. destruct (Hmine p ltac:(lia) HQ Hiv Hoo) as (M1 & M2 & M3). lia.
            - split; [split; assumption|exact Hot]. }
          destruct ok2.
          -- destruct D as [c [s_in (D1 & D2 & D3 & D4)]]. exists c, s_in. split; [lia|]. split; [exact D2|]. split; [exact D3|].
             intros p Ha Hb Hne HQ Ho. destruct (N.lt_ge_cases p (m_start st')) as [Hlt|Hge]; [exact (Hcover p Ha HQ Ho Hlt)|].
             destruct (Hlater p Hge HQ Ho) as [HQ' Hot]. apply D4; assumption.
          -- intros p Ha HQ Ho. destruct (N.lt_ge_cases p (m_start st')) as [Hlt|Hge]; [exact (Hcover p Ha HQ Ho Hlt)|].
             destruct (Hlater p Hge HQ Ho) as [HQ' Hot]. apply D; assumption.
  Qed.
End FileLevel.

Lemma first_v_stable : forall secs p q s, sorted_by_va secs = true -> sections_sane secs = true ->
  find (in_virtual p) secs = Some s -> p <= q -> q < s_va s + vext s -> find (in_virtual q) secs = Some s.
Proof.
  induction secs as [|h t IH]; intros p q s Hsort Hsane Hf Hpq Hq; [discriminate|].
  destruct (sorted_head h t Hsort) as [Hle Hsort'].
  cbn [sections_sane forallb] in Hsane. apply andb_true_iff in Hsane. destruct Hsane as [Hsh Hsane'].
  cbn [find] in *. destruct (in_virtual p h) eqn:Ep.
  - inversion Hf; subst s. assert (in_virtual q h = true) as ->; [|reflexivity].
    unfold in_virtual in *. apply andb_true_iff in Ep. destruct Ep as [Ep1 Ep3]. apply andb_true_iff in Ep1. destruct Ep1 as [Ep1 Ep2].
    rewrite Ep3. apply N.leb_le in Ep1. apply N.ltb_lt in Ep2.
    assert ((s_va h <=? q) = true) as -> by (apply N.leb_le; lia). assert ((q <? s_va h + vext h) = true) as -> by (apply N.ltb_lt; lia). reflexivity.
  - pose proof Hf as Hf'. apply find_some in Hf'. destruct Hf' as [Hin Hiv]. specialize (Hle s Hin).
    assert (in_virtual q h = false) as ->.
    { unfold in_virtual in *. destruct (s_va h <=? q) eqn:E1; [|reflexivity]. destruct (q <? s_va h + vext h) eqn:E2; [|reflexivity]. exfalso.
      rewrite Hsh, andb_true_r in Ep. apply andb_true_iff in Hiv. destruct Hiv as [Hiv _]. apply andb_true_iff in Hiv. destruct Hiv as [Hiv _].
      apply N.leb_le in Hiv. apply N.leb_le in E1. apply N.ltb_lt in E2.
      destruct (s_va h <=? p) eqn:F1; [|apply N.leb_gt in F1; lia]. destruct (p <? s_va h + vext h) eqn:F2; [discriminate|].
      apply N.ltb_ge in F2. lia. }
    apply (IH p q s); assumption.
Qed.

(* what a successful one-byte read of the interpreter returns on a file view: the byte of the first containing
   section's raw data *)
Lemma file_read_byte v rva x : view_ok v -> v_file v = true -> rva < W32 -> sc_read (scan_of_view v) 1 rva = Some x ->
  exists s, first_v (v_secs v) rva = Some s /\ x = v_get v (s_prd s + (rva - s_va s)).
Proof.
  intros Hok Hf Hr H. unfold scan_of_view in H. cbn [sc_read] in H. rewrite slice_correct in H by assumption.
  unfold slice_spec in H. rewrite Hf in H. unfold slice_file_spec in H.
  destruct (rva =? 0); [discriminate|]. destruct (negb (((v_addr v + rva) mod W64) mod 1 =? 0)); [discriminate|].
  destruct (first_v (v_secs v) rva) as [s|]; [|discriminate]. exists s. split; [reflexivity|].
  destruct ((W32 <=? s_prd s + s_srd s) || (v_len v <? s_prd s + s_srd s)); [discriminate|].
  destruct ((rva - s_va s <=? s_srd s) && (1 <=? s_srd s - (rva - s_va s))); [|discriminate].
  destruct ((v_addr v + s_prd s + (rva - s_va s)) mod 1 =? 0); [|discriminate].
  cbn [r_off] in H. inversion H. change (N.to_nat 1) with 1%nat. cbn [le_value]. lia.
Qed.

Theorem next_complete_file v pat : view_ok v -> v_len v < W32 -> v_file v = true ->
  (forall i, v_get v i < 256) -> bytes_ok (setup pat) ->
  sorted_by_va (v_secs v) = true -> sections_sane (v_secs v) = true ->
  forall st save, m_end st < W32 -> m_hits st <= m_start st ->
  exists ok st' save', next v pat st save = Ok (ok, st', save') /\
    if ok then exists c s_in, m_start st <= c /\ c < m_start st' /\ view_exec v pat c s_in = Ok (true, save') /\
        forall p, m_start st <= p -> p < m_start st' -> p <> c -> obl v pat (m_end st) (v_secs v) p -> ~ Eall (view_exec v pat) p
    else forall p, m_start st <= p -> obl v pat (m_end st) (v_secs v) p -> ~ Eall (view_exec v pat) p.
Proof.
  intros Hok Hlen Hf Hget Hqs Hsort Hsane st save H2 H3. unfold next, next_with. rewrite Hf.
  destruct (next_file_complete v pat Hok Hlen (m_end st) H2 (v_secs v) (fun _ => True) st save) as [ok [st' [sv (Hr & A & B & C & D)]]];
    try assumption; try reflexivity.
  - destruct Hok as (_ & _ & _ & _ & Hs). exact Hs.
  - intros p s _ Hfind [sv [sv' HE]] k Hk Hk2.
    destruct (view_exec_reads_prefix v pat p sv sv' HE k Hk) as [x [Hx1 Hx2]].
    assert (Hsv : s_va s + vext s < W32).
    { pose proof Hfind as Hf'. apply find_some in Hf'. destruct Hf' as [_ Hiv]. unfold in_virtual in Hiv. lia. }
    assert (Hq : p + N.of_nat k < s_va s + vext s) by (unfold vext; lia).
    assert (Hlt : p + N.of_nat k < W32) by lia.
    destruct (file_read_byte v (p + N.of_nat k) x Hok Hf Hlt Hx1) as [s' [Hs' ->]].
    unfold first_v in Hs'. rewrite (first_v_stable (v_secs v) p (p + N.of_nat k) s Hsort Hsane Hfind ltac:(lia) Hq) in Hs'.
    inversion Hs'; subst s'.
    rewrite land255 in Hx2 by apply Hget. rewrite land255 in Hx2.
    + pose proof Hfind as Hf'. apply find_some in Hf'. destruct Hf' as [_ Hiv]. unfold in_virtual in Hiv.
      replace (s_prd s + (p - s_va s) + N.of_nat k) with (s_prd s + (p + N.of_nat k - s_va s)) by lia. exact Hx2.
    + unfold bytes_ok in Hqs. rewrite Forall_forall in Hqs. apply Hqs. apply nth_In. exact Hk.
  - exists ok, st', sv. split; [exact Hr|]. destruct ok.
    + destruct D as [c [s_in (D1 & D2 & D3 & D4)]]. exists c, s_in. split; [exact D1|]. split; [exact D2|]. split; [exact D3|].
      intros p Ha Hb Hne Ho. apply D4; try assumption. exact I.
    + intros p Ha Ho. apply D; try assumption. exact I.
Qed.
