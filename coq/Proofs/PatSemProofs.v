(* Proofs for C11 theorem 3a: the interpreter on the compiled pattern computes the structural semantics [den]
   (fragment without braces and alternatives).
   Route: (i) on atom lists without Push/Pop/Case/Break the interpreter is a structural fold [aden] over the list;
   (ii) under [aden] the compiler's output equals the plain concatenation of the items' atoms (a merged skip is two skips);
   (iii) [aden] of the concatenation simulates [den]. *)
From PV.Model Require Import Machine Pattern Exec.
From PV.Spec Require Import PatSyntax PatSem.
From PV.Proofs Require Import BaseProofs PatSyntaxProofs.
Ltac Zify.zify_post_hook ::= Z.div_mod_to_equations.

(* ================================================================ the semantics of the flat fragment, without continuations
   (the definition theorem 3a was first proved against); [den_flat_eq] below: it is [den] of Spec/PatSem.v on flat lists *)
Section FDen.
  Variable sc : scan.
  Definition fden_step (it : item) (s : N) (D : N -> option wlog) (cur : N) : option wlog :=
    match it with
    | IByte b => match match_bytes sc [b] cur with Some c => D c | None => None end
    | IStr bs => match match_bytes sc bs cur with Some c => D c | None => None end
    | IWild n => D (wadd32 cur (N.of_nat n))
    | ISkip n => D (wadd32 cur n)
    | IRange a b =>
      let c := wadd32 cur a in
      match sc_slice_len sc c with
      | None => None
      | Some slen => first_match D c (N.to_nat (N.min (b - a) slen)) 0
      end
    | ISave => option_map (cons (s, cur)) (D cur)
    | IRead r =>
      match sc_read sc (read_size r) cur with
      | Some x => option_map (cons (s, read_value r x)) (D (wadd32 cur (read_size r)))
      | None => None
      end
    | IZero => option_map (cons (s, 0)) (D cur)
    | IAlign k => if cur mod 2 ^ (N.min k 32) =? 0 then D cur else None
    | IJump j => match jump_target sc j cur with Some c => D c | None => None end
    | ISub _ _ | IAlt _ _ => None
    end.
  Fixpoint fden (l : list item) (s : N) : N -> option wlog :=
    match l with
    | [] => fun _ => Some []
    | it :: t => fden_step it s (fden t (s + slots_of it))
    end.
  Definition fden_top (l : list item) (cur : N) : option wlog := option_map (cons (0, cur)) (fden l 1 cur).

  Lemma first_match_fst (D : N -> dres) (D' : N -> option wlog) base : (forall c, option_map fst (D c) = D' c) ->
    forall n k, option_map fst (first_match D base n k) = first_match D' base n k.
  Proof.
    intros H. induction n as [|n IH]; intros k; cbn [first_match]; [reflexivity|].
    rewrite <- H. destruct (D (wadd32 base k)) as [r|]; cbn [option_map]; [reflexivity|apply IH].
  Qed.
  Lemma dpre_fst p r : option_map fst (dpre [p] r) = option_map (cons p) (option_map fst r).
  Proof. destruct r as [[lg c]|]; reflexivity. Qed.

  Lemma den_item_flat it s (D : N -> dres) D' : flat_item it = true -> (forall c, option_map fst (D c) = D' c) ->
    forall c, option_map fst (den_item sc it s D c) = fden_step it s D' c.
  Proof.
    intros Hf H c. destruct it; try discriminate Hf; cbn [den_item fden_step]; try apply H.
    - destruct (match_bytes sc [b] c); [apply H|reflexivity].
    - destruct (match_bytes sc s0 c); [apply H|reflexivity].
    - cbv zeta. destruct (sc_slice_len sc (wadd32 c a)); [|reflexivity]. apply first_match_fst. exact H.
    - rewrite dpre_fst, H. reflexivity.
    - destruct (sc_read sc (read_size r) c); [|reflexivity]. rewrite dpre_fst, H. reflexivity.
    - rewrite dpre_fst, H. reflexivity.
    - destruct (c mod 2 ^ N.min k 32 =? 0); [apply H|reflexivity].
    - destruct (jump_target sc j c); [apply H|reflexivity].
  Qed.
  Lemma den_flat_eq l : forall s c, flat l = true -> option_map fst (den sc l s dend c) = fden l s c.
  Proof.
    induction l as [|x t IH]; intros s c Hf; [reflexivity|].
    cbn [flat forallb] in Hf. apply andb_prop in Hf. destruct Hf as [Hx Ht].
    change (den sc (x :: t) s dend c) with (den_item sc x s (den sc t (s + slots_of x) dend) c). cbn [fden].
    apply den_item_flat; [exact Hx|]. intros c'. apply IH. exact Ht.
  Qed.
  Lemma den_top_flat l c : flat l = true -> den_top sc l c = fden_top l c.
  Proof.
    intros Hf. unfold den_top, fden_top. rewrite <- (den_flat_eq l 1 c Hf).
    destruct (den sc l 1 dend c) as [[lg c']|]; reflexivity.
  Qed.
End FDen.

(* ================================================================ (i) the interpreter as a fold over the atom list *)
Definition kont := N -> N -> N -> list N -> bool * list N.      (* cursor mask ext save -> verdict, save *)
Definition ktop : kont := fun _ _ _ save => (true, save).

Fixpoint amany (run : N -> list N -> bool * list N) (peek : option N) (byte_at : N -> N)
         (cnt : nat) (i : N) (save : list N) : bool * list N :=
  match cnt with
  | O => (false, save)
  | S cnt' =>
    if match peek with Some b => byte_at i =? b | None => true end
    then let r := run i save in if fst r then r else amany run peek byte_at cnt' (i + 1) (snd r)
    else amany run peek byte_at cnt' (i + 1) save
  end.

Section ADen.
  Variable sc : scan.

  (* [rest] = the atoms the continuation [k] stands for (the interpreter peeks at them) *)
  Fixpoint aden (l rest : list atom) (k : kont) (cur mask ext : N) (save : list N) {struct l} : bool * list N :=
    match l with
    | [] => k cur mask ext save
    | a :: t =>
      match a with
      | Byte b =>
        match sc_read sc 1 cur with
        | Some x => if N.land x mask =? N.land b mask then aden t rest k (cur + 1) 255 ext save else (false, save)
        | None => (false, save)
        end
      | Save s => aden t rest k cur mask ext (set_slot save s cur)
      | Skip n => aden t rest k (wadd32 cur (skip_amount sc ext n)) mask 0 save
      | Rangext e => aden t rest k cur mask (e * 256) save
      | Many lim =>
        match sc_slice_len sc cur with
        | None => (false, save)
        | Some slen =>
          let limit := ext + lim in
          let n := if limit =? 0 then slen else N.min limit slen in
          amany (fun i s => aden t rest k (wadd32 cur i) 255 0 s) (peek_byte (t ++ rest)) (sc_slice_byte sc cur) (N.to_nat n) 0 save
        end
      | Jump1 => match sc_read sc 1 cur with Some x => aden t rest k (wadd32 (wadd32 cur (sext 8 x)) 1) mask ext save | None => (false, save) end
      | Jump4 => match sc_read sc 4 cur with Some x => aden t rest k (wadd32 (wadd32 cur x) 4) mask ext save | None => (false, save) end
      | Ptr =>
        match sc_read sc (sc_va_bytes sc) cur with
        | Some va => match sc_pointer sc va with Some rva => aden t rest k rva mask ext save | None => (false, save) end
        | None => (false, save)
        end
      | Aligned n => if N.land cur (if n <? 32 then 2 ^ n - 1 else W32 - 1) =? 0 then aden t rest k cur mask ext save else (false, save)
      | ReadU8 s => match sc_read sc 1 cur with Some x => aden t rest k (wadd32 cur 1) mask ext (set_slot save s x) | None => (false, save) end
      | ReadI8 s => match sc_read sc 1 cur with Some x => aden t rest k (wadd32 cur 1) mask ext (set_slot save s (sext 8 x)) | None => (false, save) end
      | ReadU16 s => match sc_read sc 2 cur with Some x => aden t rest k (wadd32 cur 2) mask ext (set_slot save s x) | None => (false, save) end
      | ReadI16 s => match sc_read sc 2 cur with Some x => aden t rest k (wadd32 cur 2) mask ext (set_slot save s (sext 16 x)) | None => (false, save) end
      | ReadU32 s | ReadI32 s => match sc_read sc 4 cur with Some x => aden t rest k (wadd32 cur 4) mask ext (set_slot save s x) | None => (false, save) end
      | Zero s => aden t rest k cur mask ext (set_slot save s 0)
      | _ => (false, save)
      end
    end.

  Definition atom_flat (a : atom) : bool :=
    match a with
    | Byte _ | Save _ | Skip _ | Rangext _ | Many _ | Jump1 | Jump4 | Ptr | Aligned _
    | ReadI8 _ | ReadU8 _ | ReadI16 _ | ReadU16 _ | ReadI32 _ | ReadU32 _ | Zero _ => true
    | _ => false
    end.

  Lemma amany_ext run1 run2 peek ba : (forall i s, run1 i s = run2 i s) ->
    forall cnt i save, amany run1 peek ba cnt i save = amany run2 peek ba cnt i save.
  Proof.
    intros H. induction cnt as [|cnt IH]; intros i save; cbn [amany]; [reflexivity|].
    rewrite H. destruct (match peek with Some b => ba i =? b | None => true end); [|apply IH].
    destruct (fst (run2 i save)); [reflexivity|apply IH].
  Qed.

  Lemma aden_app l1 : forall l2 rest k cur mask ext save,
    aden (l1 ++ l2) rest k cur mask ext save = aden l1 (l2 ++ rest) (aden l2 rest k) cur mask ext save.
  Proof.
    induction l1 as [|a t IH]; intros l2 rest k cur mask ext save; [reflexivity|].
    cbn [app aden]. destruct a; try reflexivity; try apply IH;
    try solve [repeat (match goal with |- context [match ?x with _ => _ end] => destruct x end; try reflexivity; try apply IH)].
    (* Many *)
    destruct (sc_slice_len sc cur); [|reflexivity]. rewrite <- app_assoc. cbv zeta. apply amany_ext. intros i s. apply IH.
  Qed.
End ADen.

Lemma skipn_nth {A} (l : list A) : forall n a, nth_error l n = Some a -> skipn n l = a :: skipn (S n) l.
Proof.
  induction l as [|h t IH]; intros [|n] a H; cbn [nth_error] in H; try discriminate.
  - injection H as ->. reflexivity.
  - cbn [skipn]. rewrite (IH n a H). reflexivity.
Qed.

(* the interpreter's result, without the program counter and the cursor it hands back *)
Definition agrees (r : res xres) (a : bool * list N) : Prop := exists pc' cur', r = Ok (fst a, pc', cur', snd a).

Section ExecADen.
  Variable sc : scan.
  Hypothesis Hsc : forall rva x, sc_read sc 1 rva = Some x -> rva + 1 < W32.
  Variable pat : list atom.
  Hypothesis Hflat : forallb atom_flat pat = true.

  Lemma many_loop_amany run arun peek ba : (forall i s, agrees (run i s) (arun i s)) ->
    forall cnt i save last, agrees (many_loop run peek ba cnt i save last) (amany arun peek ba cnt i save).
  Proof.
    intros H. induction cnt as [|cnt IH]; intros i save last; cbn [many_loop amany].
    - exists (fst last), (snd last). reflexivity.
    - destruct (match peek with Some b => ba i =? b | None => true end); [|apply IH].
      destruct (H i save) as [pc' [cur' E]]. rewrite E. cbn [bind].
      destruct (fst (arun i save)) eqn:Eok; [|apply IH].
      exists pc', cur'. rewrite Eok. reflexivity.
  Qed.

  Lemma exec_aden : forall fuel pc cur mask ext save, (S (length pat - pc) <= fuel)%nat ->
    agrees (exec sc pat fuel pc cur mask ext save) (aden sc (skipn pc pat) [] ktop cur mask ext save).
  Proof.
    induction fuel as [|fuel IH]; intros pc cur mask ext save Hf; [lia|]. cbn [exec].
    destruct (nth_error pat pc) as [a|] eqn:Ea.
    2: { apply nth_error_None in Ea. rewrite skipn_all2 by exact Ea. exists pc, cur. reflexivity. }
    assert (Hpc : (pc < length pat)%nat) by (apply nth_error_Some; rewrite Ea; discriminate).
    assert (Ha : atom_flat a = true).
    { rewrite forallb_forall in Hflat. apply Hflat. eapply nth_error_In. exact Ea. }
    rewrite (skipn_nth _ _ _ Ea).
    assert (IH' : forall cur mask ext save, agrees (exec sc pat fuel (S pc) cur mask ext save) (aden sc (skipn (S pc) pat) [] ktop cur mask ext save)).
    { intros. apply IH. lia. }
    assert (Hfail : forall pc' c s, agrees (Ok (false, pc', c, s)) (false, s)).
    { intros. exists pc', c. reflexivity. }
    destruct a; try discriminate Ha; cbn [aden].
    - destruct (sc_read sc 1 cur) as [x|] eqn:Er; [|apply Hfail].
      destruct (N.land x mask =? N.land b mask); [|apply Hfail].
      unfold chk_add. pose proof (Hsc cur x Er). destruct (cur + 1 <? W32) eqn:E; [|lia]. cbn [bind]. apply IH'.
    - apply IH'.
    - apply IH'.
    - apply IH'.
    - destruct (sc_slice_len sc cur) as [slen|]; [|apply Hfail]. cbv zeta. rewrite app_nil_r.
      apply many_loop_amany. intros i s. apply IH'.
    - destruct (sc_read sc 1 cur); [apply IH'|apply Hfail].
    - destruct (sc_read sc 4 cur); [apply IH'|apply Hfail].
    - destruct (sc_read sc (sc_va_bytes sc) cur); [|apply Hfail]. destruct (sc_pointer sc n); [apply IH'|apply Hfail].
    - destruct (N.land cur (if k <? 32 then 2 ^ k - 1 else W32 - 1) =? 0); [apply IH'|apply Hfail].
    - destruct (sc_read sc 1 cur); [apply IH'|apply Hfail].
    - destruct (sc_read sc 1 cur); [apply IH'|apply Hfail].
    - destruct (sc_read sc 2 cur); [apply IH'|apply Hfail].
    - destruct (sc_read sc 2 cur); [apply IH'|apply Hfail].
    - destruct (sc_read sc 4 cur); [apply IH'|apply Hfail].
    - destruct (sc_read sc 4 cur); [apply IH'|apply Hfail].
    - apply IH'.
  Qed.

  (* Scanner::exec on an atom list without sub-patterns and alternatives is the fold *)
  Lemma run_exec_aden cursor save :
    run_exec sc pat cursor save = Ok (aden sc pat [] ktop cursor 255 0 save).
  Proof.
    unfold run_exec. destruct (exec_aden (S (length pat)) 0 cursor 255 0 save ltac:(lia)) as [pc' [cur' E]].
    rewrite E. cbn [bind skipn]. destruct (aden sc pat [] ktop cursor 255 0 save). reflexivity.
  Qed.
End ExecADen.

(* ================================================================ (ii) merged skips are two skips *)
Definition iso (it : item) (s : N) : list atom :=
  match it with
  | IByte b => [Byte b]
  | IStr bs => map Byte bs
  | IWild n => repeat (Skip 1) n
  | ISkip n => skip_atoms n
  | IRange a b => skip_atoms a ++ many_atoms (b - a)
  | ISave => [Save s]
  | IRead r => [ratom r s]
  | IZero => [Zero s]
  | IAlign k => [Aligned k]
  | IJump j => [jatom j]
  | ISub _ _ | IAlt _ _ => []
  end.
Fixpoint isos (l : list item) (s : N) : list atom :=
  match l with [] => [] | it :: t => iso it s ++ isos t (s + slots_of it) end.

Section Merge.
  Variable sc : scan.
  Definition aeq (A B : list atom) : Prop :=
    forall rest k cur mask ext save, aden sc A rest k cur mask ext save = aden sc B rest k cur mask ext save.

  Lemma aeq_refl A : aeq A A.
  Proof. intros rest k cur mask ext save. reflexivity. Qed.
  Lemma aeq_trans A B C : aeq A B -> aeq B C -> aeq A C.
  Proof. intros H1 H2 rest k cur mask ext save. rewrite H1. apply H2. Qed.
  Lemma aeq_app_r A B S : aeq A B -> aeq (A ++ S) (B ++ S).
  Proof. intros H rest k cur mask ext save. rewrite !aden_app. apply H. Qed.

  (* the fold does not depend on what the continuation is called, only on what it does and on what can be peeked *)
  Lemma aden_cong r : forall rest1 rest2 k1 k2,
    (forall t, peek_byte (t ++ rest1) = peek_byte (t ++ rest2)) ->
    (forall cur mask ext save, k1 cur mask ext save = k2 cur mask ext save) ->
    forall cur mask ext save, aden sc r rest1 k1 cur mask ext save = aden sc r rest2 k2 cur mask ext save.
  Proof.
    induction r as [|a t IH]; intros rest1 rest2 k1 k2 Hp Hk cur mask ext save; [apply Hk|].
    cbn [aden]. destruct a; try reflexivity; try (apply IH; assumption);
    try solve [repeat (match goal with |- context [match ?x with _ => _ end] => destruct x end; try reflexivity; try (apply IH; assumption))].
    (* Many *)
    destruct (sc_slice_len sc cur); [|reflexivity]. cbv zeta. rewrite (Hp t). apply amany_ext. intros i s. apply IH; assumption.
  Qed.

  Lemma peek_byte_skip t : forall a r1 b r2, peek_byte (t ++ Skip a :: r1) = peek_byte (t ++ Skip b :: r2).
  Proof. induction t as [|x t IH]; intros a r1 b r2; [reflexivity|]. cbn [app peek_byte]. destruct x; try reflexivity. apply IH. Qed.

  Lemma wadd32_wadd32 c a b : wadd32 (wadd32 c a) b = wadd32 c (a + b).
  Proof. unfold wadd32, W32. lia. Qed.

  Lemma aeq_merge r k : 0 < k -> aeq (r ++ [Skip (k + 1)]) (r ++ [Skip k; Skip 1]).
  Proof.
    intros Hk rest K cur mask ext save. rewrite !aden_app. apply aden_cong.
    - intros t. cbn [app]. apply peek_byte_skip.
    - intros c m e s. cbn [aden]. unfold skip_amount.
      destruct (e + (k + 1) =? 0) eqn:E1; [lia|]. destruct (e + k =? 0) eqn:E2; [lia|]. cbn [N.add N.eqb Pos.eqb].
      change (0 + 1 =? 0) with false. cbv iota. rewrite wadd32_wadd32. replace (e + k + (0 + 1)) with (e + (k + 1)) by lia. reflexivity.
  Qed.

  Lemma aeq_wild1 c : aeq (c_res (wild1 c)) (c_res c ++ [Skip 1]).
  Proof.
    unfold wild1. destruct (last_atom (c_res c)) as [a|] eqn:E; [|apply aeq_refl].
    destruct a; try apply aeq_refl.
    destruct (negb (c_closed c) && negb (k =? 0) && (k <? 255)) eqn:Ec; [|apply aeq_refl].
    destruct (last_atom_inv _ _ E) as [r ->]. cbn [c_res]. rewrite set_last_snoc.
    eapply aeq_trans; [apply aeq_merge; lia|]. rewrite <- app_assoc. apply aeq_refl.
  Qed.
  Lemma wild1_save c : c_save (wild1 c) = c_save c.
  Proof. unfold wild1. destruct (last_atom (c_res c)) as [[]|]; try reflexivity. destruct (negb (c_closed c) && negb (k =? 0) && (k <? 255)); reflexivity. Qed.

  Lemma aeq_wild n : forall c, aeq (c_res (Nat.iter n wild1 c)) (c_res c ++ repeat (Skip 1) n) /\ c_save (Nat.iter n wild1 c) = c_save c.
  Proof.
    induction n as [|n IH]; intros c.
    - cbn [Nat.iter nat_rect repeat]. rewrite app_nil_r. split; [apply aeq_refl|reflexivity].
    - rewrite iter_succ_r. destruct (IH (wild1 c)) as [H1 H2]. split; [|rewrite H2; apply wild1_save].
      eapply aeq_trans; [exact H1|]. cbn [repeat]. change (Skip 1 :: repeat (Skip 1) n) with ([Skip 1] ++ repeat (Skip 1) n).
      rewrite app_assoc. apply aeq_app_r. apply aeq_wild1.
  Qed.

  Lemma aeq_item it c : flat_item it = true ->
    aeq (c_res (comp_item it c)) (c_res c ++ iso it (c_save c)) /\ c_save (comp_item it c) = c_save c + slots_of it.
  Proof.
    destruct it; intros Hf; try discriminate Hf; cbn [comp_item iso slots_of emit emit_slot c_res c_save];
    try (split; [apply aeq_refl|lia]).
    destruct (aeq_wild n c) as [H1 H2]. split; [exact H1|rewrite H2; lia].
  Qed.

  Lemma aeq_seq l : forall c, flat l = true ->
    aeq (c_res (comp_seq l c)) (c_res c ++ isos l (c_save c)).
  Proof.
    induction l as [|x t IH]; intros c Hf.
    - cbn [isos]. rewrite app_nil_r. apply aeq_refl.
    - cbn [flat forallb] in Hf. apply andb_prop in Hf. destruct Hf as [Hx Ht].
      change (comp_seq (x :: t) c) with (comp_seq t (comp_item x c)).
      destruct (aeq_item x c Hx) as [H1 H2].
      eapply aeq_trans; [apply IH; exact Ht|]. rewrite H2. cbn [isos]. rewrite app_assoc. apply aeq_app_r. exact H1.
  Qed.
End Merge.

(* ================================================================ (iii) the fold simulates the structural semantics *)
(* save arrays that differ at most in the slots s <= i < e *)
Definition outside (s e : N) (a b : list N) : Prop :=
  length a = length b /\ forall i, (i < s \/ e <= i) -> nth_error a (N.to_nat i) = nth_error b (N.to_nat i).
(* a log that writes exactly the slots s, s+1, ..., e-1 in this order *)
Fixpoint covers (lg : wlog) (s e : N) : Prop :=
  match lg with [] => s = e | p :: t => fst p = s /\ s < e /\ covers t (s + 1) e end.

Lemma outside_refl s e a : outside s e a a.
Proof. split; [reflexivity|intros; reflexivity]. Qed.
Lemma outside_trans s e a b c : outside s e a b -> outside s e b c -> outside s e a c.
Proof. intros [L1 H1] [L2 H2]. split; [congruence|]. intros i Hi. rewrite H1 by exact Hi. apply H2. exact Hi. Qed.
Lemma outside_widen s s' e a b : s <= s' -> outside s' e a b -> outside s e a b.
Proof. intros Hs [L H]. split; [exact L|]. intros i Hi. apply H. lia. Qed.

Lemma nth_error_upd_ne {A} (l : list A) : forall i j x, i <> j -> nth_error (upd l i x) j = nth_error l j.
Proof.
  induction l as [|h t IH]; intros [|i] [|j] x H; cbn [upd nth_error]; try reflexivity; try contradiction.
  apply IH. intros E. apply H. rewrite E. reflexivity.
Qed.
Lemma nth_error_upd_eq {A} (l : list A) : forall i x, (i < length l)%nat -> nth_error (upd l i x) i = Some x.
Proof.
  induction l as [|h t IH]; intros [|i] x H; cbn [length] in H; cbn [upd nth_error]; try lia; [reflexivity|].
  apply IH. lia.
Qed.
Lemma set_slot_other save s v i : i <> s -> nth_error (set_slot save s v) (N.to_nat i) = nth_error save (N.to_nat i).
Proof. intros H. unfold set_slot. destruct (s <? lenN save); [|reflexivity]. apply nth_error_upd_ne. lia. Qed.
Lemma set_slot_len save s v : length (set_slot save s v) = length save.
Proof. unfold set_slot. destruct (s <? lenN save); [|reflexivity]. apply upd_length. Qed.
Lemma set_slot_same a b s v : length a = length b ->
  nth_error (set_slot a s v) (N.to_nat s) = nth_error (set_slot b s v) (N.to_nat s).
Proof.
  intros L. unfold set_slot, lenN. rewrite L. destruct (s <? N.of_nat (length b)) eqn:E.
  - rewrite !nth_error_upd_eq by lia. reflexivity.
  - assert (H : (length b <= N.to_nat s)%nat) by lia.
    pose proof (proj2 (nth_error_None b (N.to_nat s)) H) as E1. rewrite <- L in H.
    pose proof (proj2 (nth_error_None a (N.to_nat s)) H) as E2. congruence.
Qed.
Lemma outside_set_slot s e save x v : s <= x -> x < e -> outside s e save (set_slot save x v).
Proof. intros H1 H2. split; [symmetry; apply set_slot_len|]. intros i Hi. symmetry. apply set_slot_other. lia. Qed.

Lemma nth_error_ext {A} (a : list A) : forall b, (forall n, nth_error a n = nth_error b n) -> a = b.
Proof.
  induction a as [|x a IH]; intros [|y b] H.
  - reflexivity.
  - specialize (H 0%nat). discriminate.
  - specialize (H 0%nat). discriminate.
  - pose proof (H 0%nat) as H0. cbn [nth_error] in H0. injection H0 as ->. f_equal. apply IH. intros n. exact (H (S n)).
Qed.

(* a successful log does not see the difference between two arrays that differ only where it writes *)
Lemma apply_log_outside lg : forall s e a b, covers lg s e -> outside s e a b -> apply_log lg a = apply_log lg b.
Proof.
  induction lg as [|[x v] t IH]; intros s e a b Hc [L H]; cbn [covers fst] in Hc.
  - subst e. cbn [apply_log fold_left]. apply nth_error_ext. intros n. specialize (H (N.of_nat n)).
    rewrite Nat2N.id in H. apply H. lia.
  - destruct Hc as [-> [Hse Hc]]. cbn [apply_log fold_left fst snd]. apply (IH (s + 1) e); [exact Hc|].
    split; [rewrite !set_slot_len; exact L|]. intros i Hi.
    destruct (N.eq_dec i s) as [->|Hne]; [apply set_slot_same; exact L|].
    rewrite !set_slot_other by exact Hne. apply H. lia.
Qed.

Lemma land255 x : x < 256 -> N.land x 255 = x.
Proof. intros H. change 255 with (N.ones 8). rewrite N.land_ones. apply N.mod_small. exact H. Qed.
Lemma aligned_eq cur k : (N.land cur (if k <? 32 then 2 ^ k - 1 else W32 - 1) =? 0) = (cur mod 2 ^ (N.min k 32) =? 0).
Proof.
  destruct (k <? 32) eqn:E.
  - replace (N.min k 32) with k by lia. replace (2 ^ k - 1) with (N.ones k) by (rewrite N.ones_equiv, N.sub_1_r; reflexivity).
    rewrite N.land_ones. reflexivity.
  - replace (N.min k 32) with 32 by lia. change (W32 - 1) with (N.ones 32). rewrite N.land_ones. reflexivity.
Qed.
Lemma wadd32_lt a b : wadd32 a b < W32.
Proof. unfold wadd32. apply N.mod_lt. unfold W32. lia. Qed.
Lemma wadd32_0 a : a < W32 -> wadd32 a 0 = a.
Proof. intros H. unfold wadd32. rewrite N.add_0_r. apply N.mod_small. exact H. Qed.

Section Sim.
  Variable sc : scan.
  Hypothesis Hwf : scan_wf sc.
  Variable e : N.        (* the number of slots of the whole pattern *)

  Definition sim (rest : list atom) (k : kont) (s : N) (D : N -> option wlog) : Prop :=
    (forall cur save, cur < W32 ->
       match D cur with
       | Some lg => k cur 255 0 save = (true, apply_log lg save) /\ covers lg s e
       | None => exists save', k cur 255 0 save = (false, save') /\ outside s e save save'
       end) /\
    (forall b, peek_byte rest = Some b -> forall c save, sc_read sc 1 c <> Some b -> fst (k c 255 0 save) = false).

  Lemma sim_top : sim [] ktop e (fun _ => Some []).
  Proof. split; [intros cur save _; split; reflexivity|intros b H; discriminate]. Qed.

  (* an item that captures into slot s *)
  Lemma slot_case rest k s D cur' v save : sim rest k (s + 1) D -> s < e -> cur' < W32 ->
    match option_map (cons (s, v)) (D cur') with
    | Some lg => k cur' 255 0 (set_slot save s v) = (true, apply_log lg save) /\ covers lg s e
    | None => exists save', k cur' 255 0 (set_slot save s v) = (false, save') /\ outside s e save save'
    end.
  Proof.
    intros [H _] Hse Hc. specialize (H cur' (set_slot save s v) Hc). destruct (D cur') as [lg|]; cbn [option_map].
    - destruct H as [H1 H2]. split; [exact H1|]. cbn [covers fst]. split; [reflexivity|split; [exact Hse|exact H2]].
    - destruct H as [save' [H1 H2]]. exists save'. split; [exact H1|].
      eapply outside_trans; [apply (outside_set_slot s e save s v); lia|]. eapply outside_widen; [|exact H2]. lia.
  Qed.

  Lemma sim_byte rest k s D b : b < 256 -> sim rest k s D ->
    sim (Byte b :: rest) (aden sc [Byte b] rest k) s (fun cur => match match_bytes sc [b] cur with Some c => D c | None => None end).
  Proof.
    intros Hb [H1 H2]. destruct Hwf as [Hr _]. split.
    - intros cur save Hc. cbn [aden match_bytes].
      destruct (sc_read sc 1 cur) as [x|] eqn:Er; [|exists save; split; [reflexivity|apply outside_refl]].
      destruct (Hr cur x Er) as [Hx Hn]. rewrite !land255 by assumption.
      destruct (x =? b); [apply H1; exact Hn|exists save; split; [reflexivity|apply outside_refl]].
    - intros b0 Hp c save Hne. cbn [peek_byte] in Hp. injection Hp as <-. cbn [aden].
      destruct (sc_read sc 1 c) as [x|] eqn:Er; [|reflexivity].
      destruct (Hr c x Er) as [Hx _]. rewrite !land255 by assumption.
      destruct (x =? b) eqn:E; [|reflexivity]. exfalso. apply Hne. f_equal. lia.
  Qed.

  Lemma sim_str bs : forall rest k s D, Forall (fun ch => ch < 256 /\ ch <> 34) bs -> sim rest k s D ->
    sim (map Byte bs ++ rest) (aden sc (map Byte bs) rest k) s (fun cur => match match_bytes sc bs cur with Some c => D c | None => None end).
  Proof.
    induction bs as [|b t IH]; intros rest k s D Hbs H; [exact H|].
    inversion Hbs as [|? ? [Hb _] Ht]; subst.
    pose proof (sim_byte (map Byte t ++ rest) (aden sc (map Byte t) rest k) s _ b Hb (IH rest k s D Ht H)) as [S1 S2].
    split.
    - intros cur save Hc. specialize (S1 cur save Hc). cbn [match_bytes map aden] in *.
      destruct (sc_read sc 1 cur) as [x|]; [|exact S1]. destruct (x =? b); exact S1.
    - exact S2.
  Qed.

  Lemma aden_skips n : forall rest k cur save,
    aden sc (repeat (Skip 1) n) rest k cur 255 0 save = k (wadd32 cur (N.of_nat n)) 255 0 save \/ n = 0%nat.
  Proof.
    induction n as [|n IH]; intros rest k cur save; [right; reflexivity|left].
    cbn [repeat aden]. unfold skip_amount. change (0 + 1 =? 0) with false. cbv iota. change (0 + 1) with 1.
    destruct (IH rest k (wadd32 cur 1) save) as [E| ->].
    - rewrite E, wadd32_wadd32. f_equal. f_equal. lia.
    - cbn [repeat aden]. reflexivity.
  Qed.

  Lemma aden_skip_atoms n rest k cur save : cur < W32 ->
    aden sc (skip_atoms n) rest k cur 255 0 save = k (wadd32 cur n) 255 0 save.
  Proof.
    intros Hc. unfold skip_atoms. destruct (n =? 0) eqn:E0.
    - replace n with 0 by lia. rewrite wadd32_0 by exact Hc. reflexivity.
    - destruct (256 <=? n) eqn:E1; cbn [app aden]; unfold skip_amount.
      + destruct (n / 256 * 256 + n mod 256 =? 0) eqn:E2; [lia|]. f_equal. f_equal. lia.
      + destruct (0 + n mod 256 =? 0) eqn:E2; [lia|]. f_equal. f_equal. lia.
  Qed.
  Lemma peek_skip_atoms n rest : n <> 0 -> peek_byte (skip_atoms n ++ rest) = None.
  Proof. intros H. unfold skip_atoms. destruct (n =? 0) eqn:E; [lia|]. destruct (256 <=? n); reflexivity. Qed.
End Sim.

Section Sim2.
  Variable sc : scan.
  Hypothesis Hwf : scan_wf sc.
  Variable e : N.
  Notation sim := (sim sc e).

  Lemma sim_ext rest k1 k2 s D : (forall c m x sv, k1 c m x sv = k2 c m x sv) -> sim rest k1 s D -> sim rest k2 s D.
  Proof.
    intros E [H1 H2]. split.
    - intros cur save Hc. specialize (H1 cur save Hc). rewrite <- E. exact H1.
    - intros b Hp c save Hne. rewrite <- E. exact (H2 b Hp c save Hne).
  Qed.

  Lemma outside_sym s a b : outside s e a b -> outside s e b a.
  Proof. intros [L H]. split; [symmetry; exact L|]. intros i Hi. symmetry. apply H. exact Hi. Qed.

  (* the retry loop of a range skip finds the least offset at which the rest matches *)
  Lemma amany_first rest k s D c slen : sim rest k s D -> sc_slice_len sc c = Some slen ->
    forall cnt i save, i + N.of_nat cnt <= slen ->
    match first_match D c cnt i with
    | Some lg => amany (fun i s => k (wadd32 c i) 255 0 s) (peek_byte rest) (sc_slice_byte sc c) cnt i save = (true, apply_log lg save) /\ covers lg s e
    | None => exists save', amany (fun i s => k (wadd32 c i) 255 0 s) (peek_byte rest) (sc_slice_byte sc c) cnt i save = (false, save') /\ outside s e save save'
    end.
  Proof.
    intros [H1 H2] Hlen. destruct Hwf as [_ [_ Hcoh]].
    induction cnt as [|cnt IH]; intros i save Hi; cbn [first_match amany].
    - exists save. split; [reflexivity|apply outside_refl].
    - assert (Hc : wadd32 c i < W32) by apply wadd32_lt.
      destruct (match peek_byte rest with Some b => sc_slice_byte sc c i =? b | None => true end) eqn:Etry.
      + pose proof (H1 (wadd32 c i) save Hc) as Hrun. destruct (D (wadd32 c i)) as [lg|].
        * destruct Hrun as [Hr Hcov]. rewrite Hr. cbn [fst]. split; [reflexivity|exact Hcov].
        * destruct Hrun as [save1 [Hr Ho]]. rewrite Hr. cbn [fst snd].
          specialize (IH (i + 1) save1 ltac:(lia)). destruct (first_match D c cnt (i + 1)) as [lg|].
          -- destruct IH as [Hr2 Hcov]. split; [|exact Hcov]. rewrite Hr2. f_equal.
             apply (apply_log_outside lg s e); [exact Hcov|apply outside_sym; exact Ho].
          -- destruct IH as [save2 [Hr2 Ho2]]. exists save2. split; [exact Hr2|eapply outside_trans; eassumption].
      + (* the candidate is skipped because its first byte differs from the byte the rest starts with *)
        destruct (peek_byte rest) as [b|] eqn:Ep; [|discriminate].
        assert (Hne : sc_read sc 1 (wadd32 c i) <> Some b).
        { intros Er. pose proof (Hcoh c slen i b Hlen ltac:(lia) Er). lia. }
        pose proof (H2 b eq_refl (wadd32 c i) save Hne) as Hf.
        pose proof (H1 (wadd32 c i) save Hc) as Hrun. destruct (D (wadd32 c i)) as [lg|].
        * destruct Hrun as [Hr _]. rewrite Hr in Hf. discriminate.
        * apply IH. lia.
  Qed.

  Lemma aden_many_atoms m rest k c save : 0 < m -> m < 16384 ->
    aden sc (many_atoms m) rest k c 255 0 save =
    match sc_slice_len sc c with
    | None => (false, save)
    | Some slen => amany (fun i s => k (wadd32 c i) 255 0 s) (peek_byte rest) (sc_slice_byte sc c) (N.to_nat (N.min m slen)) 0 save
    end.
  Proof.
    intros H0 H1. unfold many_atoms. destruct (256 <=? m) eqn:E; cbn [app aden]; destruct (sc_slice_len sc c) as [slen|]; try reflexivity; cbv zeta.
    - replace (m / 256 * 256 + m mod 256) with m by lia. destruct (m =? 0) eqn:E0; [lia|]. reflexivity.
    - replace (0 + m mod 256) with m by lia. destruct (m =? 0) eqn:E0; [lia|]. reflexivity.
  Qed.

  Lemma sim_item it c0 rest k s D : flat_item it = true -> wf_item it c0 -> s + slots_of it <= e ->
    sim rest k (s + slots_of it) D -> sim (iso it s ++ rest) (aden sc (iso it s) rest k) s (fden_step sc it s D).
  Proof.
    intros Hf Hw Hse H. pose proof Hwf as [Hr [Hptr _]].
    destruct it; try discriminate Hf; cbn [slots_of] in *; try rewrite N.add_0_r in H; cbn [wf_item] in Hw; cbn [iso fden_step].
    - (* byte *) apply sim_byte; assumption.
    - (* string *) apply sim_str; assumption.
    - (* wildcards *) destruct H as [H1 H2]. split.
      + intros cur save Hc. destruct (aden_skips sc n rest k cur save) as [E| ->].
        * rewrite E. apply H1. apply wadd32_lt.
        * cbn [repeat aden fden_step]. change (N.of_nat 0) with 0. rewrite wadd32_0 by exact Hc. apply H1. exact Hc.
      + destruct n as [|n]; [exact H2|]. intros b Hp. discriminate.
    - (* [n] *) destruct H as [H1 H2]. split.
      + intros cur save Hc. rewrite aden_skip_atoms by exact Hc. apply H1. apply wadd32_lt.
      + destruct (N.eq_dec n 0) as [->|Hn]; [exact H2|]. intros b0 Hp. rewrite peek_skip_atoms in Hp by exact Hn. discriminate.
    - (* [a-b] *) destruct Hw as [Hab Hb]. split.
      + intros cur save Hc. rewrite aden_app, aden_skip_atoms by exact Hc.
        rewrite aden_many_atoms by lia. cbn [fden_step]. cbv zeta.
        destruct (sc_slice_len sc (wadd32 cur a)) as [slen|] eqn:El; [|exists save; split; [reflexivity|apply outside_refl]].
        apply (amany_first rest k s D _ slen H El). lia.
      + intros b0 Hp. exfalso. destruct (N.eq_dec a 0) as [->|Hn].
        * cbn [skip_atoms N.eqb app] in Hp. unfold many_atoms in Hp. destruct (256 <=? b - 0); discriminate.
        * rewrite <- app_assoc, peek_skip_atoms in Hp by exact Hn. discriminate.
    - (* ' *) split.
      + intros cur save Hc. unfold fden_step. cbn [aden]. apply (slot_case sc e rest k s D cur cur save H); [lia|exact Hc].
      + destruct H as [_ H2]. intros b Hp c save Hne. cbn [app peek_byte] in Hp. cbn [aden]. exact (H2 b Hp c _ Hne).
    - (* reads *) split; [|intros b Hp; destruct r; discriminate].
      intros cur save Hc.
      destruct r; unfold fden_step; cbn [ratom aden read_size read_value];
      match goal with |- context [sc_read sc ?n cur] => destruct (sc_read sc n cur) as [x|] end;
      try (exists save; split; [reflexivity|apply outside_refl]);
      apply (slot_case sc e rest k s D _ _ save H); try lia; apply wadd32_lt.
    - (* z *) split; [|intros b Hp; discriminate].
      intros cur save Hc. unfold fden_step. cbn [aden]. apply (slot_case sc e rest k s D cur 0 save H); [lia|exact Hc].
    - (* @k *) destruct H as [H1 H2]. split; [|intros b Hp; discriminate].
      intros cur save Hc. unfold fden_step. cbn [aden]. rewrite aligned_eq.
      destruct (cur mod 2 ^ N.min k0 32 =? 0); [apply H1; exact Hc|exists save; split; [reflexivity|apply outside_refl]].
    - (* jumps *) destruct H as [H1 H2]. split; [|intros b Hp; destruct j; discriminate].
      intros cur save Hc. unfold fden_step. destruct j; cbn [jatom aden jump_target].
      + destruct (sc_read sc 1 cur); [apply H1; apply wadd32_lt|exists save; split; [reflexivity|apply outside_refl]].
      + destruct (sc_read sc 4 cur); [apply H1; apply wadd32_lt|exists save; split; [reflexivity|apply outside_refl]].
      + destruct (sc_read sc (sc_va_bytes sc) cur) as [va|]; [|exists save; split; [reflexivity|apply outside_refl]].
        destruct (sc_pointer sc va) as [rva|] eqn:Ep; [apply H1; exact (Hptr va rva Ep)|exists save; split; [reflexivity|apply outside_refl]].
  Qed.
End Sim2.

(* ================================================================ (iv) assembling theorem 3a *)

Lemma wf_seq_items l : forall c, wf_seq l c -> Forall (fun it => exists c', wf_item it c') l.
Proof.
  induction l as [|x t IH]; intros c H; constructor.
  - exists c. exact (proj1 H).
  - exact (IH _ (proj2 H)).
Qed.

Lemma sim_items sc e : scan_wf sc -> forall l s, flat l = true -> Forall (fun it => exists c', wf_item it c') l ->
  s + nslots l = e -> sim sc e (isos l s) (aden sc (isos l s) [] ktop) s (fden sc l s).
Proof.
  intros Hwf. induction l as [|it t IH]; intros s Hf Hw Hs.
  - cbn [nslots fold_right] in Hs. rewrite N.add_0_r in Hs. subst s. apply sim_top.
  - cbn [flat forallb] in Hf. apply andb_prop in Hf. destruct Hf as [Hx Ht].
    pose proof (Forall_inv Hw) as [c' Wx]. pose proof (Forall_inv_tail Hw) as Wt. cbn [nslots fold_right] in Hs. fold (nslots t) in Hs.
    specialize (IH (s + slots_of it) Ht Wt ltac:(lia)).
    pose proof (sim_item sc Hwf e it c' (isos t (s + slots_of it)) _ s _ Hx Wx ltac:(lia) IH) as S.
    cbn [isos fden]. eapply sim_ext; [|exact S].
    intros c m x sv. rewrite aden_app, app_nil_r. reflexivity.
Qed.

(* the compiled atoms of the flat fragment contain no sub-pattern or alternative atoms *)
Lemma forallb_flat_skip n : forallb atom_flat (skip_atoms n) = true.
Proof. unfold skip_atoms. destruct (n =? 0); [reflexivity|]. destruct (256 <=? n); reflexivity. Qed.
Lemma forallb_flat_many n : forallb atom_flat (many_atoms n) = true.
Proof. unfold many_atoms. destruct (256 <=? n); reflexivity. Qed.
Lemma forallb_flat_bytes bs : forallb atom_flat (map Byte bs) = true.
Proof. induction bs as [|b t IH]; [reflexivity|exact IH]. Qed.
Lemma forallb_flat_iso it s : forallb atom_flat (iso it s) = true.
Proof.
  destruct it; cbn [iso]; try reflexivity.
  - apply forallb_flat_bytes.
  - induction n as [|n IH]; [reflexivity|exact IH].
  - apply forallb_flat_skip.
  - rewrite forallb_app, forallb_flat_skip, forallb_flat_many. reflexivity.
  - destruct r; reflexivity.
  - destruct j; reflexivity.
Qed.
Lemma wild1_flat c : forallb atom_flat (c_res c) = true -> forallb atom_flat (c_res (wild1 c)) = true.
Proof.
  intros H. unfold wild1.
  assert (He : forallb atom_flat (c_res (emit c [Skip 1])) = true) by (cbn [emit c_res]; rewrite forallb_app, H; reflexivity).
  destruct (last_atom (c_res c)) as [a|] eqn:E; [|exact He]. destruct a; try exact He.
  destruct (negb (c_closed c) && negb (k =? 0) && (k <? 255)); [|exact He].
  destruct (last_atom_inv _ _ E) as [r Er]. cbn [c_res]. rewrite Er, set_last_snoc. rewrite Er in H.
  rewrite forallb_app in *. apply andb_prop in H. rewrite (proj1 H). reflexivity.
Qed.
Lemma comp_item_flat it c : flat_item it = true -> forallb atom_flat (c_res c) = true -> forallb atom_flat (c_res (comp_item it c)) = true.
Proof.
  intros Hf H. destruct it; try discriminate Hf; cbn [comp_item emit emit_slot c_res];
  try (rewrite forallb_app, H; cbn [andb]; first [apply forallb_flat_bytes|apply forallb_flat_skip|reflexivity]).
  - clear Hf. induction n as [|n IH]; [exact H|]. cbn [Nat.iter nat_rect]. apply wild1_flat. exact IH.
  - rewrite !forallb_app, H, forallb_flat_skip, forallb_flat_many. reflexivity.
  - rewrite forallb_app, H. destruct r; reflexivity.
  - rewrite forallb_app, H. destruct j; reflexivity.
Qed.
Lemma comp_seq_flat l : forall c, flat l = true -> forallb atom_flat (c_res c) = true -> forallb atom_flat (c_res (comp_seq l c)) = true.
Proof.
  induction l as [|x t IH]; intros c Hf H; [exact H|].
  cbn [flat forallb] in Hf. apply andb_prop in Hf. destruct Hf as [Hx Ht].
  change (comp_seq (x :: t) c) with (comp_seq t (comp_item x c)). apply IH; [exact Ht|]. apply comp_item_flat; assumption.
Qed.

(* theorem 3a on the untrimmed compiler output *)
Theorem exec_comp_den_flat sc a cursor save : scan_wf sc -> flat a = true -> wf a -> cursor < W32 ->
  exists ok save', run_exec sc (c_res (comp_seq a cinit)) cursor save = Ok (ok, save') /\
    match den_top sc a cursor with
    | Some lg => ok = true /\ save' = apply_log lg save
    | None => ok = false
    end.
Proof.
  intros Hwf Hf Hw Hc. rewrite (den_top_flat sc a cursor Hf).
  assert (Hsc : forall rva x, sc_read sc 1 rva = Some x -> rva + 1 < W32).
  { intros rva x H. exact (proj2 (proj1 Hwf rva x H)). }
  rewrite (run_exec_aden sc Hsc) by (apply comp_seq_flat; [exact Hf|reflexivity]).
  rewrite (aeq_seq sc a cinit Hf). cbn [cinit c_res c_save app aden].
  pose proof (sim_items sc (1 + nslots a) Hwf a 1 Hf (wf_seq_items _ _ Hw) eq_refl) as [S _].
  specialize (S cursor (set_slot save 0 cursor) Hc). unfold fden_top.
  destruct (fden sc a 1 cursor) as [lg|]; cbn [option_map].
  - destruct S as [S _]. eexists. eexists. split; [rewrite S; reflexivity|]. split; reflexivity.
  - destruct S as [save' [S _]]. eexists. eexists. split; [rewrite S; reflexivity|reflexivity].
Qed.

(* a pattern whose last item constrains something is not trimmed *)
Lemma trim_solid r x : is_redundant x = false -> trim (r ++ [x]) = r ++ [x].
Proof. intros H. unfold trim. rewrite rev_app_distr. cbn [rev app trim_rev]. rewrite H. cbn [rev]. rewrite rev_involutive. reflexivity. Qed.

Lemma solid_item_last it c : solid_item it = true -> exists r x, c_res (comp_item it c) = r ++ [x] /\ is_redundant x = false.
Proof.
  destruct it; intros H; try discriminate H; cbn [comp_item emit emit_slot c_res].
  - eexists. eexists. split; reflexivity.
  - destruct s as [|b t]; [discriminate|].
    assert (Hne : b :: t <> []) by discriminate. destruct (exists_last Hne) as [l' [z E]]. rewrite E, map_app, app_assoc.
    eexists. eexists. split; reflexivity.
  - eexists. eexists. split; reflexivity.
  - eexists. exists (ratom r (c_save c)). split; [reflexivity|destruct r; reflexivity].
  - eexists. eexists. split; reflexivity.
  - eexists. eexists. split; reflexivity.
  - eexists. exists (jatom j). split; [reflexivity|destruct j; reflexivity].
Qed.

Lemma compile_solid a : ends_solid a = true -> compile a = c_res (comp_seq a cinit).
Proof.
  unfold ends_solid, compile. intros H. destruct (rev a) as [|it r] eqn:E.
  - apply (f_equal (@rev item)) in E. rewrite rev_involutive in E. subst a. reflexivity.
  - apply (f_equal (@rev item)) in E. rewrite rev_involutive in E. cbn [rev] in E. subst a.
    unfold comp_seq. rewrite fold_left_app. cbn [fold_left].
    destruct (solid_item_last it (fold_left (fun c x => comp_item x c) (rev r) cinit) H) as [r' [x [E1 E2]]].
    rewrite E1. apply trim_solid. exact E2.
Qed.

(* C11 theorem 3a: on the fragment without braces and alternatives, Scanner::exec on the compiled pattern accepts exactly
   the layouts the structural semantics accepts, and stores exactly the captures of its log *)
Theorem exec_compile_den_flat sc a cursor save : scan_wf sc -> flat a = true -> wf a -> ends_solid a = true -> cursor < W32 ->
  exists ok save', run_exec sc (compile a) cursor save = Ok (ok, save') /\
    match den_top sc a cursor with
    | Some lg => ok = true /\ save' = apply_log lg save
    | None => ok = false
    end.
Proof. intros Hwf Hf Hw Hs Hc. rewrite (compile_solid a Hs). apply exec_comp_den_flat; assumption. Qed.

(* ---------------------------------------------------------------- the hypotheses on Scan are satisfiable: one flat section *)
Definition list_scan (mem : list N) (base : N) : scan := {|
  sc_read := fun n rva =>
    if (base <=? rva) && (rva + n <=? base + lenN mem)
    then Some (fold_right (fun b acc => b + 256 * acc) 0 (firstn (N.to_nat n) (skipn (N.to_nat (rva - base)) mem)))
    else None;
  sc_pointer := fun va => if 4194304 <=? va then Some ((va - 4194304) mod W32) else None;
  sc_slice_len := fun rva => if (base <=? rva) && (rva <=? base + lenN mem) then Some (base + lenN mem - rva) else None;
  sc_slice_byte := fun rva i => nth (N.to_nat (rva - base + i)) mem 0;
  sc_va_bytes := 4
|}.

Lemma list_scan_wf mem base : Forall (fun b => b < 256) mem -> base + lenN mem < W32 -> scan_wf (list_scan mem base).
Proof.
  intros Hb Hl.
  assert (Hrd : forall rva x, sc_read (list_scan mem base) 1 rva = Some x ->
            base <= rva /\ rva + 1 <= base + lenN mem /\ x = nth (N.to_nat (rva - base)) mem 0).
  { intros rva x H. cbn [list_scan sc_read] in H.
    destruct ((base <=? rva) && (rva + 1 <=? base + lenN mem)) eqn:E; [|discriminate]. injection H as <-.
    split; [lia|split; [lia|]]. change (N.to_nat 1) with 1%nat.
    assert (Hn : (N.to_nat (rva - base) < length mem)%nat) by (unfold lenN in E; lia).
    rewrite <- (firstn_skipn (N.to_nat (rva - base)) mem) at 2.
    rewrite app_nth2 by (rewrite firstn_length; lia). rewrite firstn_length, Nat.min_l, Nat.sub_diag by lia.
    destruct (skipn (N.to_nat (rva - base)) mem) as [|y t] eqn:Es.
    - apply (f_equal (@length N)) in Es. rewrite skipn_length in Es. cbn [length] in Es. lia.
    - cbn [firstn fold_right nth]. lia. }
  split; [|split].
  - intros rva x H. destruct (Hrd rva x H) as [H1 [H2 ->]]. split; [|lia].
    rewrite Forall_forall in Hb. apply Hb. apply nth_In. unfold lenN in H2. lia.
  - intros va rva H. cbn [list_scan sc_pointer] in H. destruct (4194304 <=? va); [|discriminate]. injection H as <-.
    apply N.mod_lt. unfold W32. lia.
  - intros c slen i x Hs Hi Hr. cbn [list_scan sc_slice_len] in Hs.
    destruct ((base <=? c) && (c <=? base + lenN mem)) eqn:E; [|discriminate]. injection Hs as <-.
    assert (Ew : wadd32 c i = c + i) by (unfold wadd32; apply N.mod_small; lia).
    rewrite Ew in Hr. destruct (Hrd _ _ Hr) as [_ [_ ->]]. cbn [list_scan sc_slice_byte]. f_equal. lia.
Qed.

(* 50 [1-3] ' ff u1 on the bytes 50 aa bb ff 07: one byte is not enough (aa), two are; slot 1 = rva of ff, slot 2 = 7 *)
Lemma sem_nonvacuous :
  let a := [IByte 0x50; IRange 1 3; ISave; IByte 0xff; IRead RU8] in
  let sc := list_scan [0x50; 0xaa; 0xbb; 0xff; 0x07] 0x1000 in
  wf a /\ flat a = true /\ ends_solid a = true /\
  den_top sc a 0x1000 = Some [(0, 0x1000); (1, 0x1003); (2, 7)] /\
  run_exec sc (compile a) 0x1000 [0; 0; 0; 9] = Ok (true, [0x1000; 0x1003; 7; 9]) /\
  den_top sc a 0x1001 = None /\ run_exec sc (compile a) 0x1001 [0; 0; 0; 9] = Ok (false, [0x1001; 0; 0; 9]).
Proof. split; [vm_compute; repeat split; lia|]. vm_compute. repeat split. Qed.

(* ---------------------------------------------------------------- the hypotheses hold for every mapped view (PeView) *)
From PV.Model Require Import Mapping Views ScanView.
From PV.Spec Require Import MappingSpec ViewSpec.
From PV.Proofs Require Import MappingProofs ViewsProofs ExecProofs.

Lemma section_slice v rva ms r : view_ok v -> v_file v = false -> slice v rva ms 1 = Ok r ->
  r_off r = rva /\ r_len r = v_len v - rva /\ rva <= v_len v /\ ms <= v_len v - rva.
Proof.
  intros Hok Hf H. unfold slice in H. rewrite Hf in H. unfold slice_section in H.
  destruct (rva =? 0); [discriminate|]. destruct (negb (aligned_to 1 (wadd64 (v_addr v) rva))); [discriminate|].
  unfold get_from in H. destruct (rva <=? v_len v) eqn:E; [|discriminate].
  cbn [r_len] in H. destruct (ms <=? v_len v - rva) eqn:E2; [|discriminate]. injection H as <-. cbn [r_off r_len]. lia.
Qed.

Lemma mapped_view_scan_wf v : view_ok v -> v_file v = false -> v_len v < W32 -> (forall o, v_get v o < 256) ->
  scan_wf (scan_of_view v).
Proof.
  intros Hok Hf Hlen Hb. split; [|split].
  - intros rva x H. split; [|exact (scan_of_view_ok v Hok Hlen rva x H)].
    cbn [scan_of_view sc_read] in H. destruct (slice v rva 1 1) as [r| |]; try discriminate. injection H as <-.
    change (N.to_nat 1) with 1%nat. cbn [le_value]. pose proof (Hb (r_off r)). lia.
  - intros va rva H. cbn [scan_of_view sc_pointer] in H. unfold va_to_rva in H.
    destruct (va =? 0); [discriminate|]. destruct ((va <? v_base v) || (v_soi v <? va - v_base v)); [discriminate|].
    injection H as <-. apply N.mod_lt. unfold W32. lia.
  - intros c slen i x Hs Hi Hr. cbn [scan_of_view sc_slice_len sc_slice_byte sc_read] in *.
    destruct (slice v c 0 1) as [r| |] eqn:E1; try discriminate. injection Hs as <-.
    destruct (slice v (wadd32 c i) 1 1) as [r'| |] eqn:E2; try discriminate. injection Hr as <-.
    destruct (section_slice v c 0 r Hok Hf E1) as [O1 [L1 [B1 _]]].
    destruct (section_slice v _ 1 r' Hok Hf E2) as [O2 _].
    change (N.to_nat 1) with 1%nat. cbn [le_value]. rewrite O1, O2.
    assert (Ew : wadd32 c i = c + i) by (unfold wadd32; apply N.mod_small; lia). rewrite Ew, N.mul_0_r, N.add_0_r. reflexivity.
Qed.

(* theorem 3a for Scanner::exec on a mapped view *)
Theorem view_exec_compile_den_flat v a cursor save :
  view_ok v -> v_file v = false -> v_len v < W32 -> (forall o, v_get v o < 256) ->
  flat a = true -> wf a -> ends_solid a = true -> cursor < W32 ->
  exists ok save', view_exec v (compile a) cursor save = Ok (ok, save') /\
    match den_top (scan_of_view v) a cursor with
    | Some lg => ok = true /\ save' = apply_log lg save
    | None => ok = false
    end.
Proof.
  intros Hok Hf Hlen Hb Hfl Hw Hs Hc. unfold view_exec.
  apply exec_compile_den_flat; try assumption. apply mapped_view_scan_wf; assumption.
Qed.
