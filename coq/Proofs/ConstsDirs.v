(* The constants the model of the directories uses equal the named constants of the source, regenerated into gen/Consts.v (and
   gen/Layout.v) on every run.  One file per module, so that a changed constant breaks only the property that depends on it. *)
From PV.Model Require Import Machine.
From PV.gen Require Import Consts.

(* the literals 2, 4, 13 of Dirs.dir_entry are the debug entry types of the source *)
Lemma dirs_consts : K_IMAGE_DEBUG_TYPE_CODEVIEW = 2 /\ K_IMAGE_DEBUG_TYPE_MISC = 4 /\ K_IMAGE_DEBUG_TYPE_POGO = 13 /\
  K_IMAGE_DIRECTORY_ENTRY_EXCEPTION = 3 /\ K_IMAGE_DIRECTORY_ENTRY_SECURITY = 4 /\ K_IMAGE_DIRECTORY_ENTRY_DEBUG = 6 /\
  K_IMAGE_DIRECTORY_ENTRY_TLS = 9 /\ K_IMAGE_DIRECTORY_ENTRY_LOAD_CONFIG = 10.
Proof. repeat split; reflexivity. Qed.
