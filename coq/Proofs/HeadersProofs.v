(* Proofs for C07 (acceptance, accessors, wrapper) and the header part of C01. *)
From PV.Model Require Import Machine Mapping Headers.
From PV.gen Require Import Layout.
From PV.Spec Require Import HeaderSpec.
From PV.Proofs Require Import BaseProofs.
Ltac Zify.zify_post_hook ::= Z.div_mod_to_equations.

(* the regenerated layout agrees with the PE/COFF specification constants *)
Theorem layout_matches_format :
  IMAGE_DOS_HEADER_size = DOS_SIZE /\ IMAGE_DOS_HEADER_e_lfanew_off = E_LFANEW_OFF /\ IMAGE_DOS_HEADER_e_magic_off = 0 /\
  IMAGE_NT_HEADERS32_FileHeader_off = FILE_HEADER_OFF /\ IMAGE_NT_HEADERS64_FileHeader_off = FILE_HEADER_OFF /\
  IMAGE_FILE_HEADER_size = FILE_HEADER_SIZE /\ IMAGE_FILE_HEADER_NumberOfSections_off = NSEC_OFF /\
  IMAGE_FILE_HEADER_SizeOfOptionalHeader_off = OPTSZ_OFF /\
  IMAGE_NT_HEADERS32_OptionalHeader_off = OPT_OFF /\ IMAGE_NT_HEADERS64_OptionalHeader_off = OPT_OFF /\
  IMAGE_OPTIONAL_HEADER32_size = OPT_FIXED_SIZE false /\ IMAGE_OPTIONAL_HEADER64_size = OPT_FIXED_SIZE true /\
  IMAGE_NT_HEADERS32_size = OPT_OFF + OPT_FIXED_SIZE false /\ IMAGE_NT_HEADERS64_size = OPT_OFF + OPT_FIXED_SIZE true /\
  IMAGE_OPTIONAL_HEADER32_Magic_off = 0 /\ IMAGE_OPTIONAL_HEADER64_Magic_off = 0 /\
  IMAGE_OPTIONAL_HEADER32_SizeOfImage_off = SOI_OFF /\ IMAGE_OPTIONAL_HEADER64_SizeOfImage_off = SOI_OFF /\
  IMAGE_OPTIONAL_HEADER32_SizeOfHeaders_off = SOH_OFF /\ IMAGE_OPTIONAL_HEADER64_SizeOfHeaders_off = SOH_OFF /\
  IMAGE_OPTIONAL_HEADER32_CheckSum_off = CSUM_OFF /\ IMAGE_OPTIONAL_HEADER64_CheckSum_off = CSUM_OFF /\
  IMAGE_OPTIONAL_HEADER32_NumberOfRvaAndSizes_off = NRVA_OFF false /\ IMAGE_OPTIONAL_HEADER64_NumberOfRvaAndSizes_off = NRVA_OFF true /\
  IMAGE_OPTIONAL_HEADER32_ImageBase_off = BASE_OFF false /\ IMAGE_OPTIONAL_HEADER64_ImageBase_off = BASE_OFF true /\
  IMAGE_OPTIONAL_HEADER32_DataDirectory_off = OPT_FIXED_SIZE false /\ IMAGE_OPTIONAL_HEADER64_DataDirectory_off = OPT_FIXED_SIZE true /\
  IMAGE_SECTION_HEADER_size = SEC_SIZE /\ IMAGE_DATA_DIRECTORY_size = DIR_SIZE /\ IMAGE_NUMBEROF_DIRECTORY_ENTRIES = MAX_DIRS /\
  IMAGE_NT_OPTIONAL_HDR32_MAGIC = MAGIC false /\ IMAGE_NT_OPTIONAL_HDR64_MAGIC = MAGIC true /\
  IMAGE_DOS_SIGNATURE = 23117 /\ IMAGE_NT_HEADERS_SIGNATURE = 17744 /\
  IMAGE_SECTION_HEADER_VirtualSize_off = 8 /\ IMAGE_SECTION_HEADER_VirtualAddress_off = 12 /\
  IMAGE_SECTION_HEADER_SizeOfRawData_off = 16 /\ IMAGE_SECTION_HEADER_PointerToRawData_off = 20 /\
  (* alignment the accessors rely on: nothing needs more than the 4 that validation checks *)
  IMAGE_NT_HEADERS32_align <= 4 /\ IMAGE_NT_HEADERS64_align <= 4 /\ IMAGE_SECTION_HEADER_align <= 4 /\
  IMAGE_DATA_DIRECTORY_align <= 4 /\ IMAGE_DOS_HEADER_align <= 4 /\ IMAGE_FILE_HEADER_align <= 4.
Proof. vm_compute. repeat split; try reflexivity; discriminate. Qed.

Ltac unfold_hdr :=
  unfold validate, accept, aligned_to, h_magic, h_soi, h_soh, h_nrva, h_nsec, h_optsz, opt_at, e_lfanew,
         s_magic, s_soi, s_soh, s_nrva, s_nsec, s_optsz, s_e_lfanew in *;
  cbn [f_64 f_magic f_nt_size f_nt_align f_opt_size f_opt_off f_soi_off f_soh_off f_csum_off f_nrva_off f_base_off fmt32 fmt64] in *;
  unfold IMAGE_DOS_HEADER_size, IMAGE_DOS_HEADER_e_magic_off, IMAGE_DOS_SIGNATURE, IMAGE_DOS_HEADER_e_lfanew_off,
         IMAGE_NT_HEADERS_SIGNATURE, IMAGE_NT_OPTIONAL_HDR32_MAGIC, IMAGE_NT_OPTIONAL_HDR64_MAGIC,
         IMAGE_NT_HEADERS32_size, IMAGE_NT_HEADERS64_size, IMAGE_OPTIONAL_HEADER32_size, IMAGE_OPTIONAL_HEADER64_size,
         IMAGE_NT_HEADERS32_OptionalHeader_off, IMAGE_NT_HEADERS64_OptionalHeader_off,
         IMAGE_OPTIONAL_HEADER32_Magic_off, IMAGE_OPTIONAL_HEADER32_SizeOfImage_off, IMAGE_OPTIONAL_HEADER64_SizeOfImage_off,
         IMAGE_OPTIONAL_HEADER32_SizeOfHeaders_off, IMAGE_OPTIONAL_HEADER64_SizeOfHeaders_off,
         IMAGE_OPTIONAL_HEADER32_NumberOfRvaAndSizes_off, IMAGE_OPTIONAL_HEADER64_NumberOfRvaAndSizes_off,
         IMAGE_NT_HEADERS32_FileHeader_off, IMAGE_FILE_HEADER_NumberOfSections_off, IMAGE_FILE_HEADER_SizeOfOptionalHeader_off,
         IMAGE_NUMBEROF_DIRECTORY_ENTRIES, IMAGE_DATA_DIRECTORY_size, IMAGE_SECTION_HEADER_size,
         DOS_SIZE, E_LFANEW_OFF, FILE_HEADER_OFF, NSEC_OFF, OPTSZ_OFF, OPT_OFF, SOI_OFF, SOH_OFF, NRVA_OFF, OPT_FIXED_SIZE, MAGIC,
         SEC_SIZE, DIR_SIZE, MAX_DIRS in *.

Ltac name_atoms m :=
  set (e := rd32 m 60) in *;
  rewrite ?N.add_0_r in *;
  set (magic := rd16 m (e + 24)) in *;
  set (soi := rd32 m (e + 24 + 56)) in *; set (soh := rd32 m (e + 24 + 60)) in *;
  set (nsec := rd16 m (e + 4 + 2)) in *; set (optsz := rd16 m (e + 4 + 16)) in *;
  set (sig := rd32 m e) in *; set (mz := rd16 m 0) in *.

Ltac chain :=
  repeat match goal with
  | |- context [if ?c then _ else _] => destruct c eqn:?
  end.

Lemma validate_accept64 m soi0 : validate fmt64 m = Ok soi0 <-> accept true m /\ soi0 = s_soi m.
Proof.
  unfold_hdr. name_atoms m. set (nrva := rd32 m (e + 24 + 108)) in *.
  chain; (split; [intros H; try discriminate; injection H as <-; repeat split; lia
                 | intros [H ->]; try reflexivity; exfalso; lia]).
Qed.

Lemma validate_accept32 m soi0 : validate fmt32 m = Ok soi0 <-> accept false m /\ soi0 = s_soi m.
Proof.
  unfold_hdr. name_atoms m. set (nrva := rd32 m (e + 24 + 92)) in *.
  chain; (split; [intros H; try discriminate; injection H as <-; repeat split; lia
                 | intros [H ->]; try reflexivity; exfalso; lia]).
Qed.

(* A structurally valid image of the other bitness gets the dedicated wrong-format error. *)
Lemma wrong_format_32 m : accept true m -> validate fmt32 m = Err EPeMagic.
Proof.
  unfold_hdr. name_atoms m. set (nrva := rd32 m (e + 24 + 108)) in *. set (nrva' := rd32 m (e + 24 + 92)) in *.
  intros H. chain; try reflexivity; exfalso; lia.
Qed.
(* ... for the 64-bit parser only when the buffer is long enough for the larger PE32+ headers:
   the NT-header bounds test precedes the magic test.  The wrapper covers the short case (F22). *)
Lemma wrong_format_64 m : accept false m -> e_lfanew m + f_nt_size fmt64 <= m_len m -> validate fmt64 m = Err EPeMagic.
Proof.
  unfold_hdr. name_atoms m. set (nrva := rd32 m (e + 24 + 108)) in *. set (nrva' := rd32 m (e + 24 + 92)) in *.
  intros H Hl. chain; try reflexivity; exfalso; lia.
Qed.
Lemma short_pe32_is_bounds_64 m : accept false m -> validate fmt64 m = Err EPeMagic \/ validate fmt64 m = Err EBounds.
Proof.
  unfold_hdr. name_atoms m. set (nrva := rd32 m (e + 24 + 108)) in *. set (nrva' := rd32 m (e + 24 + 92)) in *.
  intros H. chain; try (left; reflexivity); try (right; reflexivity); exfalso; lia.
Qed.

(* the format-agnostic constructor ends up with the parser matching the magic, and accepts everything either accepts *)
Theorem wrap_correct m :
  (wrap_from_bytes m = Ok T64 <-> accept true m) /\ (wrap_from_bytes m = Ok T32 <-> accept false m).
Proof.
  unfold wrap_from_bytes. split; split.
  - destruct (validate fmt64 m) as [soi| [] |x] eqn:E64; try discriminate.
    + intros _. apply (validate_accept64 m soi) in E64. tauto.
    + destruct (validate fmt32 m) as [?|?|?]; discriminate.
    + destruct (validate fmt32 m) as [?|?|?]; discriminate.
  - intros H. rewrite (proj2 (validate_accept64 m (s_soi m)) (conj H eq_refl)). reflexivity.
  - destruct (validate fmt64 m) as [soi| [] |x] eqn:E64; try discriminate.
    + destruct (validate fmt32 m) as [soi|?|?] eqn:E32; try discriminate. intros _. apply (validate_accept32 m soi) in E32. tauto.
    + destruct (validate fmt32 m) as [soi|?|?] eqn:E32; try discriminate. intros _. apply (validate_accept32 m soi) in E32. tauto.
  - intros H. pose proof (proj2 (validate_accept32 m (s_soi m)) (conj H eq_refl)) as E32.
    destruct (short_pe32_is_bounds_64 m H) as [E|E]; rewrite E, E32; reflexivity.
Qed.

Corollary wrap_magic m :
  (wrap_from_bytes m = Ok T64 -> s_magic m = 523) /\ (wrap_from_bytes m = Ok T32 -> s_magic m = 267).
Proof.
  destruct (wrap_correct m) as [[A _] [B _]]. split; intros H.
  - apply A in H. unfold accept, MAGIC in H. tauto.
  - apply B in H. unfold accept, MAGIC in H. tauto.
Qed.

(* After acceptance every header accessor returns a borrow inside the buffer, aligned for its type. *)
Definition aregion_ok (m : mem) (a : aregion) : Prop :=
  a_off a + a_len a <= m_len m /\ (m_addr m + a_off a) mod a_align a = 0.

Lemma accessors_ok64 m soi0 : validate fmt64 m = Ok soi0 -> Forall (aregion_ok m) (accessors fmt64 m).
Proof.
  intros H. apply validate_accept64 in H. destruct H as [H _]. revert H.
  unfold accessors, aregion_ok, acc_dos_header, acc_dos_image, acc_nt_headers, acc_file_header, acc_optional_header,
         acc_data_directory, acc_section_headers, acc_headers_image, sec_table_off.
  cbn [a_off a_len a_align]. unfold_hdr.
  unfold IMAGE_DOS_HEADER_align, IMAGE_NT_HEADERS64_align, IMAGE_FILE_HEADER_size, IMAGE_FILE_HEADER_align,
         IMAGE_DATA_DIRECTORY_align, IMAGE_SECTION_HEADER_align.
  name_atoms m. set (nrva := rd32 m (e + 24 + 108)) in *.
  intros H. repeat (constructor; [cbn [a_off a_len a_align]; split; lia|]). constructor.
Qed.
Lemma accessors_ok32 m soi0 : validate fmt32 m = Ok soi0 -> Forall (aregion_ok m) (accessors fmt32 m).
Proof.
  intros H. apply validate_accept32 in H. destruct H as [H _]. revert H.
  unfold accessors, aregion_ok, acc_dos_header, acc_dos_image, acc_nt_headers, acc_file_header, acc_optional_header,
         acc_data_directory, acc_section_headers, acc_headers_image, sec_table_off.
  cbn [a_off a_len a_align]. unfold_hdr.
  unfold IMAGE_DOS_HEADER_align, IMAGE_NT_HEADERS32_align, IMAGE_FILE_HEADER_size, IMAGE_FILE_HEADER_align,
         IMAGE_DATA_DIRECTORY_align, IMAGE_SECTION_HEADER_align.
  name_atoms m. set (nrva := rd32 m (e + 24 + 92)) in *.
  intros H. repeat (constructor; [cbn [a_off a_len a_align]; split; lia|]). constructor.
Qed.

(* ... and they are where the format prescribes *)
Lemma accessor_positions f m : f = fmt32 \/ f = fmt64 ->
  a_off (acc_nt_headers f m) = s_e_lfanew m /\ a_off (acc_file_header f m) = s_e_lfanew m + FILE_HEADER_OFF /\
  a_off (acc_optional_header f m) = s_e_lfanew m + OPT_OFF /\
  a_off (acc_data_directory f m) = s_e_lfanew m + OPT_OFF + OPT_FIXED_SIZE (f_64 f) /\
  a_len (acc_data_directory f m) = DIR_SIZE * N.min (s_nrva (f_64 f) m) MAX_DIRS /\
  a_off (acc_section_headers f m) = s_e_lfanew m + OPT_OFF + s_optsz m /\
  a_len (acc_section_headers f m) = SEC_SIZE * s_nsec m /\
  a_len (acc_headers_image f m) = s_soh m /\ a_len (acc_dos_image f m) = s_e_lfanew m.
Proof.
  intros [-> | ->]; unfold acc_nt_headers, acc_file_header, acc_optional_header, acc_data_directory, acc_section_headers,
    acc_headers_image, acc_dos_image, sec_table_off; cbn [a_off a_len]; unfold_hdr; rewrite ?N.add_0_r; repeat split; lia.
Qed.

(* by_rva: the first section whose [VA, VA+VS) contains the rva (no wrap) *)
Definition in_vs (rva : N) (s : section) : bool := (s_va s <=? rva) && (rva <? s_va s + s_vs s) && (s_va s + s_vs s <? W32).
Fixpoint find_index {A} (p : A -> bool) (l : list A) (i : N) : option N :=
  match l with [] => None | x :: t => if p x then Some i else find_index p t (i + 1) end.
Lemma by_rva_correct secs rva : Forall section_ok secs -> rva < W32 -> forall i,
  by_rva_secs secs i rva = find_index (in_vs rva) secs i.
Proof.
  intros Hs Hr. induction Hs as [|s secs [Hva [Hvs _]] _ IH]; intros i; cbn [by_rva_secs find_index]; [reflexivity|].
  rewrite IH. unfold in_vs, wadd32, W32 in *.
  destruct (s_va s + s_vs s <? 4294967296) eqn:E.
  - rewrite N.mod_small by lia. rewrite andb_true_r. reflexivity.
  - rewrite andb_false_r. assert (H : (s_va s + s_vs s) mod 4294967296 = s_va s + s_vs s - 4294967296) by lia. rewrite H.
    destruct ((s_va s <=? rva) && (rva <? s_va s + s_vs s - 4294967296)) eqn:E2; [lia|reflexivity].
Qed.

(* F2, before the repair: an odd SizeOfOptionalHeader was accepted although the section table is then misaligned.
   F22, before the repair: a valid PE32 shorter than e_lfanew+136 was refused by the wrapper. *)
Definition bytes_mem (addr : N) (l : list N) : mem := {| m_addr := addr; m_len := lenN l; m_get := fun i => nth (N.to_nat i) l 0 |}.
Definition tiny_pe32 (optsz : N) : list N :=
  [77;90] ++ repeat 0 58 ++ [64;0;0;0] ++ [80;69;0;0] ++ [76;1; 0;0] ++ repeat 0 12 ++ [optsz;0; 2;1]
  ++ [11;1] ++ repeat 0 54 ++ [0;16;0;0; 184;0;0;0] ++ repeat 0 32.
Lemma f22_wrapper_orig_refuted :
  validate fmt32 (bytes_mem 0 (tiny_pe32 96)) = Ok 4096 /\ wrap_from_bytes_orig (bytes_mem 0 (tiny_pe32 96)) = Err EBounds
  /\ wrap_from_bytes (bytes_mem 0 (tiny_pe32 96)) = Ok T32.
Proof. vm_compute. repeat split; reflexivity. Qed.
Lemma f2_validate_orig_refuted :
  exists soi, validate_orig fmt32 (bytes_mem 0 (tiny_pe32 2)) = Ok soi /\
    (m_addr (bytes_mem 0 (tiny_pe32 2)) + a_off (acc_section_headers fmt32 (bytes_mem 0 (tiny_pe32 2)))) mod 4 <> 0.
Proof. eexists. split; [vm_compute; reflexivity|vm_compute; discriminate]. Qed.
