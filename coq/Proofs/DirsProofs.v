(* Proofs for C15. *)
From PV.Model Require Import Machine Mapping Views Dirs.
From PV.Spec Require Import MappingSpec ViewSpec DirSpec.
From PV.Proofs Require Import BaseProofs MappingProofs ViewsProofs.
Ltac Zify.zify_post_hook ::= Z.div_mod_to_equations.

(* ================================================================ the view layer never faults *)

Lemma range_file_no_fault len secs rva m f : range_file len secs rva m <> Fault f.
Proof.
  induction secs as [|s secs IH]; cbn [range_file]; [discriminate|].
  destruct ((s_va s <=? rva) && (rva <? wadd32 (s_va s) (N.max (s_vs s) (s_srd s)))); [|exact IH].
  destruct (get_range len (s_prd s) (wadd32 (s_prd s) (s_srd s))) as [sb|]; [|discriminate].
  destruct (get_from (r_len sb) (rva - s_va s)) as [b|]; [|discriminate].
  destruct (m <=? r_len b); discriminate.
Qed.

Lemma slice_no_fault v a m al f : slice v a m al <> Fault f.
Proof.
  unfold slice, slice_file, slice_section. destruct (v_file v).
  - destruct (a =? 0); [discriminate|]. destruct (negb (aligned_to al (wadd64 (v_addr v) a))); [discriminate|].
    pose proof (range_file_no_fault (v_len v) (v_secs v) a m) as H.
    destruct (range_file (v_len v) (v_secs v) a m) as [r|e|g]; cbn [bind]; [|discriminate|exfalso; exact (H g eq_refl)].
    destruct (negb (aligned_to al (v_addr v + r_off r))); discriminate.
  - destruct (a =? 0); [discriminate|]. destruct (negb (aligned_to al (wadd64 (v_addr v) a))); [discriminate|].
    destruct (get_from (v_len v) a) as [b|]; [|discriminate]. destruct (m <=? r_len b); discriminate.
Qed.

Lemma read_no_fault v a m al f : read v a m al <> Fault f.
Proof.
  unfold read, read_file, read_section. destruct (v_file v).
  - destruct (a =? 0); [discriminate|]. destruct ((a <? v_base v) || (v_soi v <? a - v_base v)); [discriminate|].
    destruct (negb (aligned_to al (wadd64 (v_addr v) ((a - v_base v) mod W32)))); [discriminate|].
    pose proof (range_file_no_fault (v_len v) (v_secs v) ((a - v_base v) mod W32) m) as H.
    destruct (range_file (v_len v) (v_secs v) ((a - v_base v) mod W32) m) as [r|e|g]; cbn [bind]; [|discriminate|exfalso; exact (H g eq_refl)].
    destruct (negb (aligned_to al (v_addr v + r_off r))); discriminate.
  - destruct (a =? 0); [discriminate|]. destruct ((a <? v_base v) || (v_soi v <? a - v_base v)); [discriminate|].
    destruct (negb (aligned_to al (wadd64 (v_addr v) (a - v_base v)))); [discriminate|].
    destruct (get_from (v_len v) (a - v_base v)) as [b|]; [|discriminate]. destruct (m <=? r_len b); discriminate.
Qed.

Definition sl_total (sl : N -> N -> N -> res region) : Prop := forall a m al f, sl a m al <> Fault f.

Lemma rd_no_fault sl a size align : sl_total sl -> no_fault (rd sl a size align).
Proof.
  intros H f. unfold rd. pose proof (H a size align) as Hs.
  destruct (sl a size align) as [r|e|g]; cbn [bind]; [discriminate|discriminate|]. exfalso. exact (Hs g eq_refl).
Qed.

Lemma rd_slice_no_fault sl a size align len : sl_total sl -> no_fault (rd_slice sl a size align len).
Proof.
  intros H f. unfold rd_slice. destruct (checked_mul W64 size len) as [m|]; [|discriminate].
  pose proof (H a m align) as Hs.
  destruct (sl a m align) as [r|e|g]; cbn [bind]; [discriminate|discriminate|]. exfalso. exact (Hs g eq_refl).
Qed.

Lemma rd_slice_s_no_fault get sl a size align s : sl_total sl -> 0 < size -> no_fault (rd_slice_s get sl a size align s).
Proof.
  intros H Hs f. unfold rd_slice_s.
  pose proof (rd_slice_f_correct get sl a size align (fun x => x =? s) Hs) as C.
  pose proof (H a 0 align) as H0.
  destruct (sl a 0 align) as [r|e|g].
  - destruct (rd_slice_f get sl a size align (fun x => x =? s)) as [q|e|g]; [discriminate|discriminate|contradiction].
  - rewrite C. discriminate.
  - exfalso. exact (H0 g eq_refl).
Qed.

(* the data directory value pairs are u32 *)
Definition dd_ok (dd : option (N * N)) : Prop :=
  match dd with Some (va, size) => va < W32 /\ size < W32 | None => True end.

(* ================================================================ record tables (exception, debug) *)

Lemma table_correct rec v dd : view_ok v -> dd_ok dd -> 0 < rec ->
  match dd with
  | None => Err EBounds
  | Some (va, size) => if negb (size mod rec =? 0) then Err EInvalid else rd_slice (slice v) va rec 4 (size / rec)
  end = table_spec rec v dd.
Proof.
  intros Hv Hd Hr. unfold table_spec. destruct dd as [[va size]|]; [|reflexivity]. cbn [dd_ok] in Hd.
  destruct (size mod rec =? 0) eqn:E; cbn [negb]; [|reflexivity].
  unfold rd_slice, checked_mul.
  assert (Hm : rec * (size / rec) = size).
  { pose proof (N.div_mod size rec ltac:(lia)) as Hdm. apply N.eqb_eq in E. rewrite E in Hdm. lia. }
  rewrite Hm. destruct (size <? W64) eqn:E2; [|unfold W32, W64 in *; lia].
  rewrite slice_correct by (try assumption; lia).
  destruct (slice_spec v va size 4); reflexivity.
Qed.

Theorem exception_try_from_correct v dd : view_ok v -> dd_ok dd ->
  exception_try_from v dd = exception_spec v dd.
Proof.
  intros Hv Hd. unfold exception_try_from, exception_spec. rewrite <- (table_correct 12 v dd Hv Hd ltac:(lia)).
  destruct dd as [[va size]|]; reflexivity.
Qed.

Theorem debug_try_from_correct v dd : view_ok v -> dd_ok dd ->
  debug_try_from v dd = debug_spec v dd.
Proof.
  intros Hv Hd. unfold debug_try_from, debug_spec. rewrite <- (table_correct 28 v dd Hv Hd ltac:(lia)).
  destruct dd as [[va size]|]; reflexivity.
Qed.

(* the shape of a record-table constructor, without any hypothesis on the view *)
Lemma table_shape rec sl va size r : 0 < rec ->
  (if negb (size mod rec =? 0) then Err EInvalid else rd_slice sl va rec 4 (size / rec)) = Ok r ->
  size mod rec = 0 /\ r_len r = size /\ r_len r / rec = size / rec.
Proof.
  intros Hr H. destruct (size mod rec =? 0) eqn:E; cbn [negb] in H; [|discriminate].
  apply N.eqb_eq in E. unfold rd_slice in H.
  destruct (checked_mul W64 rec (size / rec)) as [m|] eqn:Em; [|discriminate].
  unfold checked_mul in Em. destruct (rec * (size / rec) <? W64); [|discriminate]. injection Em as <-.
  destruct (sl va (rec * (size / rec)) 4) as [q|e|f]; cbn [bind] in H; try discriminate. injection H as <-.
  cbn [r_len]. pose proof (N.div_mod size rec ltac:(lia)) as Hdm. rewrite E in Hdm.
  split; [exact E|]. assert (Hm : rec * (size / rec) = size) by lia. rewrite Hm. split; reflexivity.
Qed.

Lemma rf_table_length g off n : length (rf_table g off n) = n.
Proof. revert off; induction n as [|n IH]; intros off; cbn [rf_table length]; [reflexivity|]. rewrite IH. reflexivity. Qed.

Lemma rf_table_nth g n : forall off i, (i < n)%nat ->
  nth_error (rf_table g off n) i =
  Some {| rf_begin := u32at g (off + 12 * N.of_nat i); rf_end := u32at g (off + 12 * N.of_nat i + 4);
          rf_unwind := u32at g (off + 12 * N.of_nat i + 8) |}.
Proof.
  induction n as [|n IH]; intros off i Hi; [lia|]. cbn [rf_table]. destruct i as [|i]; cbn [nth_error].
  - replace (off + 12 * N.of_nat 0) with off by lia. reflexivity.
  - rewrite IH by lia. replace (off + 12 + 12 * N.of_nat i) with (off + 12 * N.of_nat (S i)) by lia. reflexivity.
Qed.

(* Size mod 12 <> 0 -> Invalid; otherwise Size/12 records, record i at offset 12*i of the slice; absent -> Null *)
Theorem exception_shape v va size :
  (size mod 12 <> 0 -> exception_try_from v (Some (va, size)) = Err EInvalid) /\
  (size mod 12 = 0 -> size < W32 -> va = 0 -> exception_try_from v (Some (va, size)) = Err ENull) /\
  exception_try_from v None = Err EBounds /\
  forall r, exception_try_from v (Some (va, size)) = Ok r ->
    size mod 12 = 0 /\ r_len r = size /\ length (exception_functions v r) = N.to_nat (size / 12) /\
    forall i, i < size / 12 ->
      nth_error (exception_functions v r) (N.to_nat i) =
      Some {| rf_begin := u32at (v_get v) (r_off r + 12 * i); rf_end := u32at (v_get v) (r_off r + 12 * i + 4);
              rf_unwind := u32at (v_get v) (r_off r + 12 * i + 8) |}.
Proof.
  unfold exception_try_from. split; [|split; [|split]].
  - intros H. destruct (size mod 12 =? 0) eqn:E; [lia|reflexivity].
  - intros H Hs ->. destruct (size mod 12 =? 0) eqn:E; [|lia]. cbn [negb].
    unfold rd_slice, checked_mul. destruct (12 * (size / 12) <? W64) eqn:E2; [|unfold W32, W64 in *; lia].
    destruct (zero_is_null v (12 * (size / 12)) 4) as [Hz _]. rewrite Hz. reflexivity.
  - reflexivity.
  - intros r H. apply (table_shape 12 (slice v) va size r ltac:(lia)) in H. destruct H as [H1 [H2 H3]].
    split; [exact H1|]. split; [exact H2|]. unfold exception_functions. rewrite H3, rf_table_length. split; [reflexivity|].
    intros i Hi. rewrite rf_table_nth by lia. rewrite N2Nat.id. reflexivity.
Qed.

(* ================================================================ exception: sortedness and lookup *)

Theorem check_sorted_spec t : check_sorted t = true <-> sorted_table t.
Proof.
  induction t as [|a rest IH]; [split; [intros _ i f g H; destruct i; discriminate|reflexivity]|].
  destruct rest as [|b r].
  - split; [|reflexivity]. intros _ i f g H1 H2. destruct i as [|i]; cbn [nth_error] in H2; [discriminate|destruct i; discriminate].
  - change (check_sorted (a :: b :: r)) with
      ((rf_begin a <=? rf_end a) && (rf_end a <=? rf_begin b) && (rf_begin b <=? rf_end b) && check_sorted (b :: r)).
    split.
    + intros H. apply andb_prop in H as [H Hr]. apply andb_prop in H as [H H3]. apply andb_prop in H as [H1 H2].
      apply IH in Hr. intros i f g Hf Hg. destruct i as [|i].
      * cbn [nth_error] in Hf, Hg. injection Hf as <-. injection Hg as <-. lia.
      * apply (Hr i f g); assumption.
    + intros H. pose proof (H 0%nat a b eq_refl eq_refl) as [H1 [H2 H3]].
      assert (Hr : sorted_table (b :: r)) by (intros i f g Hf Hg; apply (H (S i) f g); assumption).
      apply IH in Hr. rewrite Hr. repeat (apply andb_true_intro; split); first [lia|reflexivity].
Qed.

Lemma sorted_pairs t : sorted_table t -> forall j i f g, (i < j)%nat ->
  nth_error t i = Some f -> nth_error t j = Some g ->
  rf_begin f <= rf_end f /\ rf_end f <= rf_begin g /\ rf_begin g <= rf_end g.
Proof.
  intros Hs. induction j as [|j IH]; intros i f g Hij Hf Hg; [lia|].
  destruct (Nat.eq_dec i j) as [->|Hne]; [apply (Hs j f g); assumption|].
  assert (Hj : (j < length t)%nat).
  { assert (S j < length t)%nat by (apply nth_error_Some; rewrite Hg; discriminate). lia. }
  destruct (nth_error t j) as [h|] eqn:Eh; [|apply nth_error_None in Eh; lia].
  destruct (IH i f h ltac:(lia) Hf eq_refl) as [A1 [A2 A3]].
  destruct (Hs j h g Eh Hg) as [B1 [B2 B3]]. lia.
Qed.

(* on a table that passes check_sorted the closure orders the records as binary_search_by requires *)
Theorem cmp_rf_sorted t pc : check_sorted t = true -> cmp_sorted (cmp_rf pc) t.
Proof.
  intros H. apply check_sorted_spec in H. intros i j f g Hij Hf Hg.
  destruct (sorted_pairs t H j i f g Hij Hf Hg) as [A1 [A2 A3]].
  unfold cmp_rf. destruct (pc <? rf_begin f) eqn:E1; destruct (rf_end f <=? pc) eqn:E2;
    destruct (pc <? rf_begin g) eqn:E3; destruct (rf_end g <=? pc) eqn:E4; cbn [ord_rank]; lia.
Qed.

Lemma ord_rank_less o : ord_rank o <= 0 -> o = Less.
Proof. destruct o; cbn [ord_rank]; [reflexivity|lia|lia]. Qed.
Lemma ord_rank_greater o : 2 <= ord_rank o -> o = Greater.
Proof. destruct o; cbn [ord_rank]; [lia|lia|reflexivity]. Qed.

Lemma nth_error_lt {A} (t : list A) (i : N) : i < lenN t -> exists f, nth_error t (N.to_nat i) = Some f.
Proof.
  unfold lenN. intros H. destruct (nth_error t (N.to_nat i)) as [f|] eqn:E; [exists f; reflexivity|].
  apply nth_error_None in E. lia.
Qed.

(* the model's search meets the contract of binary_search_by on every slice ordered by the closure *)
Lemma bsearch_meets_contract c t : cmp_sorted c t -> forall fuel lo hi,
  lo <= hi -> hi <= lenN t -> hi - lo < N.of_nat fuel ->
  (forall i f, nth_error t i = Some f -> N.of_nat i < lo -> c f = Less) ->
  (forall i f, nth_error t i = Some f -> hi <= N.of_nat i -> c f = Greater) ->
  exists r, bsearch fuel c t lo hi = Ok r /\ bsearch_contract c t r.
Proof.
  intros Hs. induction fuel as [|fuel IH]; intros lo hi Hlh Hhl Hf HL HG; [lia|].
  cbn [bsearch]. destruct (hi <=? lo) eqn:E.
  - exists (Insert lo). split; [reflexivity|]. cbn [bsearch_contract]. split; [lia|].
    intros i f Hi. split; [apply HL; exact Hi|intros Hk; apply (HG i f Hi); lia].
  - set (mid := lo + (hi - lo) / 2). assert (Hm : lo <= mid /\ mid < hi) by (unfold mid; lia).
    destruct (nth_error_lt t mid ltac:(lia)) as [f Ef]. rewrite Ef.
    destruct (c f) eqn:Ec.
    + apply IH; try lia.
      * intros i g Hg Hi. destruct (N.eq_dec (N.of_nat i) mid) as [Heq|Hne].
        { assert (i = N.to_nat mid) by lia. subst i. rewrite Ef in Hg. injection Hg as <-. exact Ec. }
        destruct (N.lt_ge_cases (N.of_nat i) lo) as [Hlo|Hlo]; [apply (HL i g Hg Hlo)|].
        apply ord_rank_less. pose proof (Hs i (N.to_nat mid) g f ltac:(lia) Hg Ef) as Hr. rewrite Ec in Hr. exact Hr.
      * exact HG.
    + exists (Found mid). split; [reflexivity|]. exists f. split; assumption.
    + apply IH; try lia.
      * exact HL.
      * intros i g Hg Hi. destruct (N.eq_dec (N.of_nat i) mid) as [Heq|Hne].
        { assert (i = N.to_nat mid) by lia. subst i. rewrite Ef in Hg. injection Hg as <-. exact Ec. }
        apply ord_rank_greater. pose proof (Hs (N.to_nat mid) i f g ltac:(lia) Ef Hg) as Hr. rewrite Ec in Hr. exact Hr.
Qed.

(* on ANY table and for any closure: the search terminates within its fuel, never indexes outside the
   slice, and answers Found only for an index inside the slice whose record compares Equal *)
Lemma bsearch_total c t : forall fuel lo hi,
  lo <= hi -> hi <= lenN t -> hi - lo < N.of_nat fuel ->
  exists r, bsearch fuel c t lo hi = Ok r /\
    match r with
    | Found i => lo <= i /\ i < hi /\ exists f, nth_error t (N.to_nat i) = Some f /\ c f = Equal
    | Insert k => lo <= k /\ k <= hi
    end.
Proof.
  induction fuel as [|fuel IH]; intros lo hi Hlh Hhl Hf; [lia|].
  cbn [bsearch]. destruct (hi <=? lo) eqn:E.
  - exists (Insert lo). split; [reflexivity|lia].
  - set (mid := lo + (hi - lo) / 2). assert (Hm : lo <= mid /\ mid < hi) by (unfold mid; lia).
    destruct (nth_error_lt t mid ltac:(lia)) as [f Ef]. rewrite Ef.
    destruct (c f) eqn:Ec.
    + destruct (IH (mid + 1) hi ltac:(lia) Hhl ltac:(lia)) as [r [Hr Hp]]. exists r. split; [exact Hr|].
      destruct r as [i|k]; [destruct Hp as [P1 [P2 P3]]; split; [lia|split; [lia|exact P3]]|lia].
    + exists (Found mid). split; [reflexivity|]. split; [lia|split; [lia|exists f; split; assumption]].
    + destruct (IH lo mid ltac:(lia) ltac:(lia) ltac:(lia)) as [r [Hr Hp]]. exists r. split; [exact Hr|].
      destruct r as [i|k]; [destruct Hp as [P1 [P2 P3]]; split; [lia|split; [lia|exact P3]]|lia].
Qed.

Lemma lenN_length {A} (t : list A) : lenN t - 0 < N.of_nat (S (length t)).
Proof. unfold lenN. lia. Qed.

Theorem index_of_total t pc :
  exists r, index_of t pc = Ok r /\
    match r with
    | Found i => i < lenN t /\ exists f, nth_error t (N.to_nat i) = Some f /\ contains f pc = true
    | Insert k => k <= lenN t
    end.
Proof.
  unfold index_of. destruct (bsearch_total (cmp_rf pc) t (S (length t)) 0 (lenN t) ltac:(lia) ltac:(lia) (lenN_length t)) as [r [Hr Hp]].
  exists r. split; [exact Hr|]. destruct r as [i|k]; [|lia].
  destruct Hp as [_ [P2 [f [P3 P4]]]]. split; [exact P2|]. exists f. split; [exact P3|].
  unfold cmp_rf in P4. unfold contains. destruct (pc <? rf_begin f) eqn:E1; [discriminate|].
  destruct (rf_end f <=? pc) eqn:E2; [discriminate|]. apply andb_true_intro. split; lia.
Qed.

Theorem lookup_no_fault t pc : no_fault (lookup_function_entry t pc).
Proof.
  intros f. unfold lookup_function_entry. destruct (index_of_total t pc) as [r [Hr Hp]]. rewrite Hr. cbn [bind].
  destruct r as [i|k]; [|discriminate]. destruct Hp as [_ [g [Hg _]]]. rewrite Hg. discriminate.
Qed.

(* ---- the contract implies the lookup relation, for every table ---- *)
Lemma split_at_intro pc k : forall t i0,
  (forall j f, nth_error t j = Some f -> if i0 + N.of_nat j <? k then rf_end f <= pc else pc < rf_begin f) ->
  split_at t pc i0 k = true.
Proof.
  induction t as [|a t IH]; intros i0 H; cbn [split_at]; [reflexivity|].
  apply andb_true_intro. split.
  - specialize (H 0%nat a eq_refl). replace (i0 + N.of_nat 0) with i0 in H by lia. destruct (i0 <? k); lia.
  - apply IH. intros j f Hj. specialize (H (S j) f Hj). replace (i0 + N.of_nat (S j)) with (i0 + 1 + N.of_nat j) in H by lia. exact H.
Qed.

Lemma find_fn_none pc : forall t i0,
  find_fn t pc i0 = None <-> (forall j f, nth_error t j = Some f -> contains f pc = false).
Proof.
  induction t as [|a t IH]; intros i0; cbn [find_fn].
  - split; [intros _ j f H; destruct j; discriminate|reflexivity].
  - destruct (contains a pc) eqn:E.
    + split; [discriminate|]. intros H. specialize (H 0%nat a eq_refl). congruence.
    + rewrite IH. split.
      * intros H j f Hj. destruct j as [|j]; [cbn [nth_error] in Hj; injection Hj as <-; exact E|apply (H j f Hj)].
      * intros H j f Hj. apply (H (S j) f Hj).
Qed.

Lemma find_fn_some pc : forall t i0 i, find_fn t pc i0 = Some i ->
  exists j f, i = i0 + N.of_nat j /\ nth_error t j = Some f /\ contains f pc = true /\
    forall j' f', (j' < j)%nat -> nth_error t j' = Some f' -> contains f' pc = false.
Proof.
  induction t as [|a t IH]; intros i0 i H; cbn [find_fn] in H; [discriminate|].
  destruct (contains a pc) eqn:E.
  - injection H as <-. exists 0%nat, a. split; [lia|]. split; [reflexivity|]. split; [exact E|]. intros j' f' Hj; lia.
  - destruct (IH (i0 + 1) i H) as [j [f [H1 [H2 [H3 H4]]]]]. exists (S j), f. split; [lia|]. split; [exact H2|]. split; [exact H3|].
    intros j' f' Hj Hf. destruct j' as [|j']; [cbn [nth_error] in Hf; injection Hf as <-; exact E|apply (H4 j' f'); [lia|exact Hf]].
Qed.

Lemma cmp_rf_less pc f : cmp_rf pc f = Less -> rf_end f <= pc /\ contains f pc = false.
Proof.
  unfold cmp_rf, contains. destruct (pc <? rf_begin f) eqn:E1; [discriminate|]. destruct (rf_end f <=? pc) eqn:E2; [|discriminate].
  intros _. split; [lia|]. apply andb_false_iff. right. lia.
Qed.
Lemma cmp_rf_greater pc f : cmp_rf pc f = Greater -> pc < rf_begin f /\ contains f pc = false.
Proof.
  unfold cmp_rf, contains. destruct (pc <? rf_begin f) eqn:E1; [|destruct (rf_end f <=? pc); discriminate].
  intros _. split; [lia|]. apply andb_false_iff. left. lia.
Qed.
Lemma cmp_rf_equal pc f : cmp_rf pc f = Equal <-> contains f pc = true.
Proof.
  unfold cmp_rf, contains. destruct (pc <? rf_begin f) eqn:E1; destruct (rf_end f <=? pc) eqn:E2; split; intros H; try discriminate; try reflexivity;
    try (apply andb_prop in H; lia); apply andb_true_intro; lia.
Qed.

(* ANY search result that satisfies the contract of binary_search_by for the repaired closure is a
   correct lookup: Found only for the record that contains pc, Insert only when none does *)
Theorem contract_gives_lookup t pc r : bsearch_contract (cmp_rf pc) t r -> index_rel t pc r = true.
Proof.
  destruct r as [i|k]; cbn [bsearch_contract index_rel].
  - intros [f [Hf Hc]]. rewrite Hf. apply cmp_rf_equal. exact Hc.
  - intros [Hk H]. apply andb_true_intro. split; [apply andb_true_intro; split; [lia|]|].
    + apply split_at_intro. intros j f Hj. destruct (H j f Hj) as [H1 H2]. replace (0 + N.of_nat j) with (N.of_nat j) by lia.
      destruct (N.of_nat j <? k) eqn:E.
      * apply cmp_rf_less. apply H1. lia.
      * apply cmp_rf_greater. apply H2. lia.
    + assert (Hn : find_fn t pc 0 = None).
      { apply find_fn_none. intros j f Hj. destruct (H j f Hj) as [H1 H2].
        destruct (N.lt_ge_cases (N.of_nat j) k) as [Hlt|Hge]; [apply (cmp_rf_less pc f (H1 Hlt))|apply (cmp_rf_greater pc f (H2 Hge))]. }
      rewrite Hn. reflexivity.
Qed.

(* index_of on a sorted table *)
Theorem index_of_sorted t pc : check_sorted t = true ->
  exists r, index_of t pc = Ok r /\ bsearch_contract (cmp_rf pc) t r /\ index_rel t pc r = true.
Proof.
  intros Hs. unfold index_of.
  destruct (bsearch_meets_contract (cmp_rf pc) t (cmp_rf_sorted t pc Hs) (S (length t)) 0 (lenN t) ltac:(lia) ltac:(lia) (lenN_length t)) as [r [Hr Hc]].
  - intros i f _ Hi. lia.
  - intros i f Hf Hi. exfalso. assert (i < length t)%nat by (apply nth_error_Some; rewrite Hf; discriminate). unfold lenN in Hi. lia.
  - exists r. split; [exact Hr|]. split; [exact Hc|]. apply contract_gives_lookup. exact Hc.
Qed.

(* records of a sorted table are pairwise disjoint: at most one contains pc *)
Lemma sorted_unique t pc : check_sorted t = true -> forall i j f g,
  nth_error t i = Some f -> nth_error t j = Some g -> contains f pc = true -> contains g pc = true -> i = j.
Proof.
  intros Hs i j f g Hf Hg Cf Cg. apply check_sorted_spec in Hs. unfold contains in *.
  apply andb_prop in Cf as [F1 F2]. apply andb_prop in Cg as [G1 G2].
  destruct (Nat.lt_trichotomy i j) as [Hlt|[Heq|Hgt]]; [|exact Heq|].
  - destruct (sorted_pairs t Hs j i f g Hlt Hf Hg) as [A1 [A2 A3]]. lia.
  - destruct (sorted_pairs t Hs i j g f Hgt Hg Hf) as [A1 [A2 A3]]. lia.
Qed.

(* the property: on sorted tables  index_of pc = Ok i  <->  Begin_i <= pc < End_i *)
Theorem index_of_found_iff t pc i : check_sorted t = true ->
  (index_of t pc = Ok (Found i) <->
   exists f, nth_error t (N.to_nat i) = Some f /\ rf_begin f <= pc /\ pc < rf_end f).
Proof.
  intros Hs. destruct (index_of_sorted t pc Hs) as [r [Hr [Hc Hrel]]]. split.
  - intros H. rewrite H in Hr. injection Hr as <-. cbn [index_rel] in Hrel.
    destruct (nth_error t (N.to_nat i)) as [f|]; [|discriminate]. exists f. split; [reflexivity|].
    unfold contains in Hrel. apply andb_prop in Hrel. lia.
  - intros [f [Hf [H1 H2]]]. assert (Cf : contains f pc = true) by (unfold contains; apply andb_true_intro; lia).
    rewrite Hr. destruct r as [j|k].
    + cbn [index_rel] in Hrel. destruct (nth_error t (N.to_nat j)) as [g|] eqn:Eg; [|discriminate].
      pose proof (sorted_unique t pc Hs _ _ g f Eg Hf Hrel Cf) as He. f_equal. f_equal. lia.
    + exfalso. cbn [index_rel] in Hrel. apply andb_prop in Hrel as [_ Hn].
      destruct (find_fn t pc 0) eqn:En; [discriminate|]. rewrite find_fn_none in En. rewrite (En _ f Hf) in Cf. discriminate.
Qed.

(* ... and Err (nothing) exactly when no record contains pc *)
Theorem index_of_none_iff t pc : check_sorted t = true ->
  ((exists k, index_of t pc = Ok (Insert k)) <-> forall f, In f t -> contains f pc = false).
Proof.
  intros Hs. destruct (index_of_sorted t pc Hs) as [r [Hr [Hc Hrel]]]. split.
  - intros [k Hk]. rewrite Hk in Hr. injection Hr as <-. cbn [index_rel] in Hrel. apply andb_prop in Hrel as [_ Hn].
    destruct (find_fn t pc 0) eqn:En; [discriminate|]. rewrite find_fn_none in En.
    intros f Hin. apply In_nth_error in Hin as [j Hj]. apply (En j f Hj).
  - intros H. rewrite Hr. destruct r as [j|k]; [|exists k; reflexivity]. exfalso.
    cbn [index_rel] in Hrel. destruct (nth_error t (N.to_nat j)) as [g|] eqn:Eg; [|discriminate].
    rewrite (H g (nth_error_In _ _ Eg)) in Hrel. discriminate.
Qed.

(* the three situations named in the property text *)
Theorem index_of_before_first t pc f0 : check_sorted t = true ->
  nth_error t 0 = Some f0 -> pc < rf_begin f0 -> index_of t pc = Ok (Insert 0).
Proof.
  intros Hs H0 Hpc. destruct (index_of_sorted t pc Hs) as [r [Hr [Hc _]]]. rewrite Hr.
  assert (C0 : cmp_rf pc f0 = Greater) by (unfold cmp_rf; destruct (pc <? rf_begin f0) eqn:E; [reflexivity|lia]).
  destruct r as [j|k]; cbn [bsearch_contract] in Hc.
  - exfalso. destruct Hc as [g [Hg Cg]]. apply cmp_rf_equal in Cg. unfold contains in Cg. apply andb_prop in Cg as [G1 G2].
    destruct (N.to_nat j) as [|j'] eqn:Ej; [rewrite H0 in Hg; injection Hg as <-; lia|].
    apply check_sorted_spec in Hs. destruct (sorted_pairs t Hs (S j') 0%nat f0 g ltac:(lia) H0 Hg) as [A1 [A2 A3]]. lia.
  - destruct Hc as [Hk H]. destruct (H 0%nat f0 H0) as [H1 _]. destruct (N.eq_dec k 0) as [->|Hne]; [reflexivity|].
    rewrite H1 in C0 by lia. discriminate.
Qed.

Theorem index_of_after_last t pc fl : check_sorted t = true ->
  nth_error t (length t - 1) = Some fl -> rf_begin fl <= pc -> rf_end fl <= pc -> index_of t pc = Ok (Insert (lenN t)).
Proof.
  intros Hs Hl Hb Hpc. destruct (index_of_sorted t pc Hs) as [r [Hr [Hc _]]]. rewrite Hr.
  assert (Cl : cmp_rf pc fl = Less).
  { unfold cmp_rf. destruct (pc <? rf_begin fl) eqn:E; [lia|]. destruct (rf_end fl <=? pc) eqn:E2; [reflexivity|lia]. }
  assert (Hlen : (0 < length t)%nat) by (destruct t; [discriminate|cbn [length]; lia]).
  destruct r as [j|k]; cbn [bsearch_contract] in Hc.
  - exfalso. destruct Hc as [g [Hg Cg]]. apply cmp_rf_equal in Cg. unfold contains in Cg. apply andb_prop in Cg as [G1 G2].
    assert (Hj : (N.to_nat j < length t)%nat) by (apply nth_error_Some; rewrite Hg; discriminate).
    destruct (Nat.eq_dec (N.to_nat j) (length t - 1)) as [He|Hne]; [rewrite He, Hl in Hg; injection Hg as <-; lia|].
    apply check_sorted_spec in Hs. destruct (sorted_pairs t Hs (length t - 1)%nat (N.to_nat j) g fl ltac:(lia) Hg Hl) as [A1 [A2 A3]]. lia.
  - destruct Hc as [Hk H]. destruct (H (length t - 1)%nat fl Hl) as [_ H2]. unfold lenN in *.
    destruct (N.eq_dec k (N.of_nat (length t))) as [->|Hne]; [reflexivity|]. rewrite H2 in Cl by lia. discriminate.
Qed.

Theorem index_of_in_gap t pc i f g : check_sorted t = true ->
  nth_error t i = Some f -> nth_error t (S i) = Some g -> rf_end f <= pc -> pc < rf_begin g ->
  index_of t pc = Ok (Insert (N.of_nat (S i))).
Proof.
  intros Hs Hf Hg Hpc1 Hpc2. destruct (index_of_sorted t pc Hs) as [r [Hr [Hc _]]]. rewrite Hr.
  pose proof Hs as Hs'. apply check_sorted_spec in Hs'. destruct (Hs' i f g Hf Hg) as [S1 [S2 S3]].
  assert (Cf : cmp_rf pc f = Less).
  { unfold cmp_rf. destruct (pc <? rf_begin f) eqn:E; [lia|]. destruct (rf_end f <=? pc) eqn:E2; [reflexivity|lia]. }
  assert (Cg : cmp_rf pc g = Greater) by (unfold cmp_rf; destruct (pc <? rf_begin g) eqn:E; [reflexivity|lia]).
  destruct r as [j|k]; cbn [bsearch_contract] in Hc.
  - exfalso. destruct Hc as [h [Hh Ch]]. apply cmp_rf_equal in Ch. unfold contains in Ch. apply andb_prop in Ch as [G1 G2].
    destruct (Nat.lt_trichotomy (N.to_nat j) i) as [Hlt|[Heq|Hgt]].
    + destruct (sorted_pairs t Hs' i (N.to_nat j) h f Hlt Hh Hf) as [A1 [A2 A3]]. lia.
    + rewrite Heq, Hf in Hh. injection Hh as <-. lia.
    + destruct (Nat.eq_dec (N.to_nat j) (S i)) as [He|Hne]; [rewrite He, Hg in Hh; injection Hh as <-; lia|].
      destruct (sorted_pairs t Hs' (N.to_nat j) (S i) g h ltac:(lia) Hg Hh) as [A1 [A2 A3]]. lia.
  - destruct Hc as [Hk H]. destruct (H i f Hf) as [_ F2]. destruct (H (S i) g Hg) as [G1 _].
    destruct (N.lt_trichotomy k (N.of_nat (S i))) as [Hlt|[Heq|Hgt]]; [|rewrite Heq; reflexivity|].
    + rewrite F2 in Cf by lia. discriminate.
    + rewrite G1 in Cg by lia. discriminate.
Qed.

(* lookup_function_entry returns exactly the record found *)
Theorem lookup_sorted t pc : check_sorted t = true ->
  (forall i f, lookup_function_entry t pc = Ok (Some (i, f)) <->
     nth_error t (N.to_nat i) = Some f /\ rf_begin f <= pc /\ pc < rf_end f) /\
  (lookup_function_entry t pc = Ok None <-> forall f, In f t -> contains f pc = false).
Proof.
  intros Hs. unfold lookup_function_entry. split.
  - intros i f. split.
    + intros H. destruct (index_of t pc) as [r|e|x] eqn:Er; cbn [bind] in H; try discriminate.
      destruct r as [j|k]; [|discriminate]. destruct (nth_error t (N.to_nat j)) as [g|] eqn:Eg; [|discriminate].
      injection H as <- <-. apply (index_of_found_iff t pc j Hs) in Er as [g' [Hg' Hc]]. rewrite Eg in Hg'. injection Hg' as <-.
      split; [exact Eg|exact Hc].
    + intros [Hf Hc]. assert (Hi : index_of t pc = Ok (Found i)) by (apply index_of_found_iff; [exact Hs|exists f; split; assumption]).
      rewrite Hi. cbn [bind]. rewrite Hf. reflexivity.
  - rewrite <- (index_of_none_iff t pc Hs). split.
    + intros H. destruct (index_of t pc) as [r|e|x] eqn:Er; cbn [bind] in H; try discriminate.
      destruct r as [j|k]; [|exists k; reflexivity]. destruct (nth_error t (N.to_nat j)); discriminate.
    + intros [k Hk]. rewrite Hk. reflexivity.
Qed.

(* F17: the closure as it stood answers nothing for a pc inside a function of a sorted table,
   and counts pc = EndAddress as inside *)
Lemma index_of_orig_refuted :
  let t := [ {| rf_begin := 4096; rf_end := 4112; rf_unwind := 0 |};
             {| rf_begin := 4112; rf_end := 4128; rf_unwind := 0 |};
             {| rf_begin := 4144; rf_end := 4160; rf_unwind := 0 |} ] in
  check_sorted t = true /\
  index_of_orig t 4100 = Ok (Insert 3) /\ index_of t 4100 = Ok (Found 0) /\
  index_of_orig t 4150 = Ok (Insert 0) /\ index_of t 4150 = Ok (Found 2) /\
  index_of_orig t 4128 = Ok (Found 1) /\ index_of t 4128 = Ok (Insert 2).
Proof. vm_compute. repeat split; reflexivity. Qed.

(* ================================================================ exception: function bytes, unwind info *)

Definition bytes_lt (g : N -> N) : Prop := forall i, g i < 256.

Lemma u32at_lt g o : bytes_lt g -> u32at g o < W32.
Proof.
  intros H. unfold u32at, W32. cbn [le_value].
  pose proof (H o). pose proof (H (o + 1)). pose proof (H (o + 1 + 1)). pose proof (H (o + 1 + 1 + 1)). lia.
Qed.
Lemma u16at_lt g o : bytes_lt g -> u16at g o < W16.
Proof. intros H. unfold u16at, W16. cbn [le_value]. pose proof (H o). pose proof (H (o + 1)). lia. Qed.
Lemma u64at_lt g o : bytes_lt g -> u64at g o < W64.
Proof.
  intros H. unfold u64at, W64. cbn [le_value].
  pose proof (H o). pose proof (H (o + 1)). pose proof (H (o + 1 + 1)). pose proof (H (o + 1 + 1 + 1)).
  pose proof (H (o + 1 + 1 + 1 + 1)). pose proof (H (o + 1 + 1 + 1 + 1 + 1)). pose proof (H (o + 1 + 1 + 1 + 1 + 1 + 1)).
  pose proof (H (o + 1 + 1 + 1 + 1 + 1 + 1 + 1)). lia.
Qed.

Theorem function_bytes_correct v f : view_ok v -> rf_begin f < W32 -> rf_end f < W32 ->
  function_bytes v f = function_bytes_spec v f.
Proof.
  intros Hv Hb He. unfold function_bytes, function_bytes_spec. destruct (rf_end f <? rf_begin f); [reflexivity|].
  unfold rd_slice, checked_mul. rewrite N.mul_1_l. destruct (rf_end f - rf_begin f <? W64) eqn:E; [|unfold W32, W64 in *; lia].
  rewrite slice_correct by assumption. destruct (slice_spec v (rf_begin f) (rf_end f - rf_begin f) 1); reflexivity.
Qed.

Theorem unwind_info_correct v f : view_ok v -> bytes_lt (v_get v) -> rf_unwind f < W32 ->
  unwind_info v f = unwind_info_spec v f.
Proof.
  intros Hv Hg Hu. unfold unwind_info, unwind_info_spec. rewrite slice_correct by assumption.
  destruct (slice_spec v (rf_unwind f) 4 1) as [b|e|x]; cbn [bind]; try reflexivity.
  unfold u8at, chk_mul, chk_add. pose proof (Hg (r_off b + 2)) as Hc.
  destruct (2 * v_get v (r_off b + 2) <? W64) eqn:E1; [|unfold W64 in *; lia]. cbn [bind].
  destruct (4 + 2 * v_get v (r_off b + 2) <? W64) eqn:E2; [|unfold W64 in *; lia]. cbn [bind]. reflexivity.
Qed.

(* unwind info occupies 4 + 2*CountOfCodes bytes of the slice at UnwindData; the codes follow the 4-byte header *)
Theorem unwind_info_shape v f u : unwind_info v f = Ok u ->
  exists b, slice v (rf_unwind f) 4 1 = Ok b /\ r_off u = r_off b /\
    r_len u = 4 + 2 * v_get v (r_off b + 2) /\ r_len u <= r_len b /\
    uw_count (v_get v) u = v_get v (r_off b + 2) /\
    uw_codes (v_get v) u = {| r_off := r_off b + 4; r_len := 2 * v_get v (r_off b + 2) |}.
Proof.
  unfold unwind_info. destruct (slice v (rf_unwind f) 4 1) as [b|e|x]; cbn [bind]; try discriminate.
  unfold u8at, chk_mul, chk_add. destruct (2 * v_get v (r_off b + 2) <? W64); cbn [bind]; [|discriminate].
  destruct (4 + 2 * v_get v (r_off b + 2) <? W64); cbn [bind]; [|discriminate].
  destruct (r_len b <? 4 + 2 * v_get v (r_off b + 2)) eqn:E; [discriminate|]. intros H. injection H as <-.
  exists b. cbn [r_off r_len]. unfold uw_codes, uw_count, u8at. cbn [r_off r_len]. repeat split; try reflexivity. lia.
Qed.

Theorem function_bytes_no_fault v f : no_fault (function_bytes v f).
Proof.
  intros x. unfold function_bytes. destruct (rf_end f <? rf_begin f); [discriminate|].
  apply rd_slice_no_fault. intros a m al y. apply slice_no_fault.
Qed.

Theorem unwind_info_no_fault v f : bytes_lt (v_get v) -> no_fault (unwind_info v f).
Proof.
  intros Hg x. unfold unwind_info. pose proof (slice_no_fault v (rf_unwind f) 4 1) as Hs.
  destruct (slice v (rf_unwind f) 4 1) as [b|e|y]; cbn [bind]; [|discriminate|exfalso; exact (Hs y eq_refl)].
  unfold u8at, chk_mul, chk_add. pose proof (Hg (r_off b + 2)) as Hc.
  destruct (2 * v_get v (r_off b + 2) <? W64) eqn:E1; [|unfold W64 in *; lia]. cbn [bind].
  destruct (4 + 2 * v_get v (r_off b + 2) <? W64) eqn:E2; [|unfold W64 in *; lia]. cbn [bind].
  destruct (r_len b <? 4 + 2 * v_get v (r_off b + 2)); discriminate.
Qed.

Theorem exception_try_from_no_fault v dd : no_fault (exception_try_from v dd).
Proof.
  intros x. unfold exception_try_from. destruct dd as [[va size]|]; [|discriminate].
  destruct (negb (size mod 12 =? 0)); [discriminate|]. apply rd_slice_no_fault. intros a m al y. apply slice_no_fault.
Qed.

Theorem index_of_no_fault t pc : no_fault (index_of t pc).
Proof. intros x. destruct (index_of_total t pc) as [r [Hr _]]. rewrite Hr. discriminate. Qed.

(* ================================================================ security *)

Theorem security_correct v dd : dd_ok dd -> v_addr v mod 4 = 0 ->
  security_try_from v dd = security_spec v dd.
Proof.
  intros Hd Ha. unfold security_try_from, security_spec. destruct (v_file v); cbn [negb]; [|reflexivity].
  destruct dd as [[va size]|]; [|reflexivity]. cbn [dd_ok] in Hd. destruct (va =? 0) eqn:E0; [reflexivity|].
  unfold aligned_to. destruct (va mod 8 =? 0) eqn:E1; destruct (size mod 8 =? 0) eqn:E2; cbn [negb orb andb]; try reflexivity.
  destruct (size =? 0) eqn:E3; cbn [orb]; [reflexivity|].
  unfold checked_add. destruct (va + size <? W64) eqn:E4; [|unfold W32, W64 in *; lia].
  unfold get_range. destruct (va <=? va + size) eqn:E5; [|lia]. cbn [andb].
  destruct (va + size <=? v_len v) eqn:E6; destruct (v_len v <? va + size) eqn:E7; try lia; [|reflexivity].
  unfold security_new, aligned_to. cbn [r_off r_len].
  destruct ((v_addr v + va) mod 4 =? 0) eqn:E8; [|lia]. cbn [negb].
  destruct (va + size - va <? 8) eqn:E9; [lia|]. f_equal. f_equal. lia.
Qed.

(* mapped view -> Unmapped; null -> Null; misaligned -> Misaligned; else the type and Size-8 bytes at file offset VirtualAddress+8 *)
Theorem security_shape v va size : va < W32 -> size < W32 -> v_addr v mod 4 = 0 ->
  (v_file v = false -> security_try_from v (Some (va, size)) = Err EUnmapped) /\
  (v_file v = true -> va = 0 -> security_try_from v (Some (va, size)) = Err ENull) /\
  (v_file v = true -> va <> 0 -> (va mod 8 <> 0 \/ size mod 8 <> 0) -> security_try_from v (Some (va, size)) = Err EMisaligned) /\
  (forall r, security_try_from v (Some (va, size)) = Ok r ->
     v_file v = true /\ r = {| r_off := va; r_len := size |} /\ va + size <= v_len v /\ 8 <= size /\
     certificate_data r = Ok {| r_off := va + 8; r_len := size - 8 |} /\
     certificate_data_spec (Some (va, size)) = Some {| r_off := va + 8; r_len := size - 8 |}).
Proof.
  intros Hva Hsz Ha. rewrite (security_correct v (Some (va, size)) (conj Hva Hsz) Ha). unfold security_spec.
  split; [intros ->; reflexivity|]. split; [intros -> ->; reflexivity|]. split.
  - intros -> H0 Hm. cbn [negb]. destruct (va =? 0) eqn:E0; [lia|].
    destruct (va mod 8 =? 0) eqn:E1; destruct (size mod 8 =? 0) eqn:E2; cbn [negb andb]; try reflexivity. lia.
  - intros r. destruct (v_file v); cbn [negb]; [|discriminate]. destruct (va =? 0); [discriminate|].
    destruct (negb ((va mod 8 =? 0) && (size mod 8 =? 0))) eqn:E1; [discriminate|].
    destruct ((size =? 0) || (v_len v <? va + size)) eqn:E2; [discriminate|]. intros H. injection H as <-.
    split; [reflexivity|]. split; [reflexivity|]. split; [lia|]. split; [lia|]. unfold certificate_data. cbn [r_len r_off].
    destruct (size <? 8) eqn:E3; [lia|]. split; reflexivity.
Qed.

Theorem security_no_fault v dd : v_addr v mod 4 = 0 -> no_fault (security_try_from v dd).
Proof.
  intros Ha x. unfold security_try_from. destruct (v_file v); cbn [negb]; [|discriminate].
  destruct dd as [[va size]|]; [|discriminate]. destruct (va =? 0); [discriminate|].
  unfold aligned_to. destruct (va mod 8 =? 0) eqn:E1; destruct (size mod 8 =? 0) eqn:E2; cbn [negb orb]; try discriminate.
  destruct (size =? 0) eqn:E3; [discriminate|]. destruct (checked_add W64 va size) as [e|] eqn:Ec; [|discriminate].
  unfold checked_add in Ec. destruct (va + size <? W64); [|discriminate]. injection Ec as <-.
  unfold get_range. destruct ((va <=? va + size) && (va + size <=? v_len v)); [|discriminate].
  unfold security_new, aligned_to. cbn [r_off r_len]. destruct ((v_addr v + va) mod 4 =? 0) eqn:E8; [|lia]. cbn [negb].
  destruct (va + size - va <? 8) eqn:E9; [lia|discriminate].
Qed.

(* F8: the code as it stood panics on VirtualAddress + Size >= 2^32; the repaired code reports an error *)
Lemma security_orig_refuted :
  let v := {| v_file := true; v_addr := 4096; v_len := 7168; v_get := fun _ => 0; v_w := W64;
              v_base := 5368709120; v_soh := 1024; v_soi := 16384; v_secs := [] |} in
  security_try_from_orig v (Some (4294967288, 8)) = Fault POverflow /\
  security_try_from v (Some (4294967288, 8)) = Err EBounds.
Proof. vm_compute. repeat split; reflexivity. Qed.

(* ================================================================ debug *)

Definition ddir_ok (d : ddir) : Prop := dd_size d < W32 /\ dd_addr d < W32 /\ dd_ptr d < W32 /\ dd_type d < W32.

Lemma ddir_at_ok g o : bytes_lt g -> ddir_ok (ddir_at g o).
Proof. intros H. unfold ddir_ok, ddir_at. cbn [dd_size dd_addr dd_ptr dd_type]. repeat split; apply u32at_lt; exact H. Qed.

Lemma ddir_table_length g n : forall off, length (ddir_table g off n) = n.
Proof. induction n as [|n IH]; intros off; cbn [ddir_table length]; [reflexivity|]. rewrite IH. reflexivity. Qed.

Lemma ddir_table_nth g n : forall off i, (i < n)%nat -> nth_error (ddir_table g off n) i = Some (ddir_at g (off + 28 * N.of_nat i)).
Proof.
  induction n as [|n IH]; intros off i Hi; [lia|]. cbn [ddir_table]. destruct i as [|i]; cbn [nth_error].
  - replace (off + 28 * N.of_nat 0) with off by lia. reflexivity.
  - rewrite IH by lia. replace (off + 28 + 28 * N.of_nat i) with (off + 28 * N.of_nat (S i)) by lia. reflexivity.
Qed.

(* Size mod 28 <> 0 -> Invalid; otherwise Size/28 entries, entry i at offset 28*i of the slice; absent -> Null *)
Theorem debug_shape v va size :
  (size mod 28 <> 0 -> debug_try_from v (Some (va, size)) = Err EInvalid) /\
  (size mod 28 = 0 -> size < W32 -> va = 0 -> debug_try_from v (Some (va, size)) = Err ENull) /\
  debug_try_from v None = Err EBounds /\
  forall r, debug_try_from v (Some (va, size)) = Ok r ->
    size mod 28 = 0 /\ r_len r = size /\ length (debug_dirs v r) = N.to_nat (size / 28) /\
    forall i, i < size / 28 -> nth_error (debug_dirs v r) (N.to_nat i) = Some (ddir_at (v_get v) (r_off r + 28 * i)).
Proof.
  unfold debug_try_from. split; [|split; [|split]].
  - intros H. destruct (size mod 28 =? 0) eqn:E; [lia|reflexivity].
  - intros H Hs ->. destruct (size mod 28 =? 0) eqn:E; [|lia]. cbn [negb].
    unfold rd_slice, checked_mul. destruct (28 * (size / 28) <? W64) eqn:E2; [|unfold W32, W64 in *; lia].
    destruct (zero_is_null v (28 * (size / 28)) 4) as [Hz _]. rewrite Hz. reflexivity.
  - reflexivity.
  - intros r H. apply (table_shape 28 (slice v) va size r ltac:(lia)) in H. destruct H as [H1 [H2 H3]].
    split; [exact H1|]. split; [exact H2|]. unfold debug_dirs. rewrite H3, ddir_table_length. split; [reflexivity|].
    intros i Hi. rewrite ddir_table_nth by lia. rewrite N2Nat.id. reflexivity.
Qed.

(* data = SizeOfData bytes at PointerToRawData (file) / AddressOfRawData (mapped) *)
Theorem dir_data_correct v d : ddir_ok d -> dir_data v d = dir_data_spec v d.
Proof.
  intros [H1 [H2 [H3 _]]]. unfold dir_data, dir_data_spec, get_range, wadd64.
  set (o := if v_file v then dd_ptr d else dd_addr d). assert (Ho : o < W32) by (unfold o; destruct (v_file v); assumption).
  rewrite (N.mod_small (o + dd_size d) W64) by (unfold W32, W64 in *; lia).
  destruct (o <=? o + dd_size d) eqn:E; [|lia]. cbn [andb]. destruct (o + dd_size d <=? v_len v); [|reflexivity].
  f_equal. f_equal. lia.
Qed.

Lemma first_idx_find_nul g off : forall n k,
  first_idx g (fun b => b =? 0) off 1 k n =
  match find_nul g (off + k) n with Some i => Some (k + i) | None => None end.
Proof.
  induction n as [|n IH]; intros k; cbn [first_idx find_nul]; [reflexivity|].
  unfold elem. change (N.to_nat 1) with 1%nat. cbn [le_value]. replace (off + k * 1) with (off + k) by lia.
  replace (g (off + k) + 256 * 0) with (g (off + k)) by lia.
  destruct (g (off + k) =? 0); [f_equal; lia|].
  rewrite IH. replace (off + (k + 1)) with (off + k + 1) by lia.
  destruct (find_nul g (off + k + 1) n); [f_equal; lia|reflexivity].
Qed.

(* CStr::from_bytes finds the FIRST NUL *)
Theorem cstr_correct g off len : cstr_from_bytes g off len = cstr_spec g off len.
Proof.
  unfold cstr_from_bytes, cstr_spec, first_nul. rewrite first_idx_find_nul. replace (off + 0) with off by lia.
  destruct (find_nul g off (N.to_nat len)); [f_equal; f_equal; lia|reflexivity].
Qed.

Theorem cstr_from_bytes_spec g off len :
  match cstr_from_bytes g off len with
  | Some r => r_off r = off /\ 0 < r_len r /\ r_len r <= len /\ g (off + r_len r - 1) = 0 /\
              forall k, k < r_len r - 1 -> g (off + k) <> 0
  | None => forall k, k < len -> g (off + k) <> 0
  end.
Proof.
  unfold cstr_from_bytes. pose proof (find_nul_spec g (fun _ _ _ => Err ENull) (N.to_nat len) off) as H.
  destruct (find_nul g off (N.to_nat len)) as [i|].
  - destruct H as [H1 [H2 H3]]. cbn [r_off r_len]. split; [reflexivity|]. split; [lia|]. split; [lia|]. split.
    + replace (off + (i + 1) - 1) with (off + i) by lia. exact H2.
    + intros k Hk. apply H3. lia.
  - intros k Hk. apply H. lia.
Qed.

Lemma sig_nb10 g o : bytes_lt g -> (u32at g o =? SIG_NB10) = sig_is g o 78 66 49 48.
Proof.
  intros H. unfold u32at, SIG_NB10, sig_is. cbn [le_value].
  replace (o + 1 + 1) with (o + 2) by lia. replace (o + 2 + 1) with (o + 3) by lia.
  pose proof (H o). pose proof (H (o + 1)). pose proof (H (o + 2)). pose proof (H (o + 3)).
  destruct (g o =? 78) eqn:E0; destruct (g (o + 1) =? 66) eqn:E1; destruct (g (o + 2) =? 49) eqn:E2; destruct (g (o + 3) =? 48) eqn:E3;
    cbn [andb]; lia.
Qed.
Lemma sig_rsds g o : bytes_lt g -> (u32at g o =? SIG_RSDS) = sig_is g o 82 83 68 83.
Proof.
  intros H. unfold u32at, SIG_RSDS, sig_is. cbn [le_value].
  replace (o + 1 + 1) with (o + 2) by lia. replace (o + 2 + 1) with (o + 3) by lia.
  pose proof (H o). pose proof (H (o + 1)). pose proof (H (o + 2)). pose proof (H (o + 3)).
  destruct (g o =? 82) eqn:E0; destruct (g (o + 1) =? 83) eqn:E1; destruct (g (o + 2) =? 68) eqn:E2; destruct (g (o + 3) =? 83) eqn:E3;
    cbn [andb]; lia.
Qed.

(* entries are decoded by type: CodeView NB10 / RSDS, MISC, POGO, anything else as raw data *)
Theorem dir_entry_correct v d : bytes_lt (v_get v) -> ddir_ok d -> dir_entry v d = entry_spec v d.
Proof.
  intros Hg Hd. unfold dir_entry, entry_spec, code_view, dbg_entry, pgo_entry. rewrite !dir_data_correct by exact Hd.
  destruct (dd_type d =? 2).
  { destruct (dir_data_spec v d) as [b|]; [|reflexivity]. destruct (r_len b <? 16) eqn:E16; [reflexivity|].
    unfold aligned_to. destruct (negb ((v_addr v + r_off b) mod 4 =? 0)); [reflexivity|].
    rewrite sig_nb10, sig_rsds by exact Hg. rewrite !cstr_correct.
    destruct (sig_is (v_get v) (r_off b) 78 66 49 48); [reflexivity|].
    destruct (sig_is (v_get v) (r_off b) 82 83 68 83); reflexivity. }
  destruct (dd_type d =? 4).
  { destruct (dir_data_spec v d) as [b|]; [|reflexivity]. destruct (r_len b <? 12); [reflexivity|].
    unfold aligned_to. destruct (negb ((v_addr v + r_off b) mod 4 =? 0)); reflexivity. }
  destruct (dd_type d =? 13).
  { destruct (dir_data_spec v d) as [b|]; [|reflexivity]. destruct (r_len b <? 4); [reflexivity|].
    unfold aligned_to. destruct (negb ((v_addr v + r_off b) mod 4 =? 0)); [reflexivity|].
    f_equal. f_equal. f_equal. lia. }
  reflexivity.
Qed.

Theorem dir_entry_no_fault v d : no_fault (dir_entry v d).
Proof.
  intros x. unfold dir_entry, code_view, dbg_entry, pgo_entry.
  destruct (dd_type d =? 2).
  { destruct (dir_data v d) as [b|]; [|discriminate]. destruct (r_len b <? 16); [discriminate|].
    destruct (negb (aligned_to 4 (v_addr v + r_off b))); [discriminate|].
    destruct (u32at (v_get v) (r_off b) =? SIG_NB10).
    { destruct (cstr_from_bytes (v_get v) (r_off b + 16) (r_len b - 16)); discriminate. }
    destruct (u32at (v_get v) (r_off b) =? SIG_RSDS); [|discriminate].
    destruct (r_len b <? 24); [discriminate|]. destruct (cstr_from_bytes (v_get v) (r_off b + 24) (r_len b - 24)); discriminate. }
  destruct (dd_type d =? 4).
  { destruct (dir_data v d) as [b|]; [|discriminate]. destruct (r_len b <? 12); [discriminate|].
    destruct (negb (aligned_to 4 (v_addr v + r_off b))); discriminate. }
  destruct (dd_type d =? 13).
  { destruct (dir_data v d) as [b|]; [|discriminate]. destruct (r_len b <? 4); [discriminate|].
    destruct (negb (aligned_to 4 (v_addr v + r_off b))); discriminate. }
  discriminate.
Qed.

Theorem debug_try_from_no_fault v dd : no_fault (debug_try_from v dd).
Proof.
  intros x. unfold debug_try_from. destruct dd as [[va size]|]; [|discriminate].
  destruct (negb (size mod 28 =? 0)); [discriminate|]. apply rd_slice_no_fault. intros a m al y. apply slice_no_fault.
Qed.

(* a CodeView entry: where the record, the signature, and the path are *)
Theorem code_view_shape v d e : bytes_lt (v_get v) -> ddir_ok d -> dd_type d = 2 -> dir_entry v d = Ok e ->
  exists b, dir_data_spec v d = Some b /\ 16 <= r_len b /\ (v_addr v + r_off b) mod 4 = 0 /\
    ((e = ECv20 (r_off b) {| r_off := r_off b + 16; r_len := match first_nul (v_get v) (r_off b + 16) (r_len b - 16) with Some n => n + 1 | None => 0 end |}
      /\ sig_is (v_get v) (r_off b) 78 66 49 48 = true /\ first_nul (v_get v) (r_off b + 16) (r_len b - 16) <> None) \/
     (e = ECv70 (r_off b) {| r_off := r_off b + 24; r_len := match first_nul (v_get v) (r_off b + 24) (r_len b - 24) with Some n => n + 1 | None => 0 end |}
      /\ sig_is (v_get v) (r_off b) 82 83 68 83 = true /\ 24 <= r_len b /\ first_nul (v_get v) (r_off b + 24) (r_len b - 24) <> None)).
Proof.
  intros Hg Hd Ht. rewrite (dir_entry_correct v d Hg Hd). unfold entry_spec. rewrite Ht. change (2 =? 2) with true. cbv iota.
  destruct (dir_data_spec v d) as [b|]; [|discriminate]. destruct (r_len b <? 16) eqn:E16; [discriminate|].
  destruct ((v_addr v + r_off b) mod 4 =? 0) eqn:Ea; cbn [negb]; [|discriminate].
  intros H. exists b. split; [reflexivity|]. split; [lia|]. split; [lia|].
  destruct (sig_is (v_get v) (r_off b) 78 66 49 48) eqn:S1.
  - left. unfold cstr_spec in H. destruct (first_nul (v_get v) (r_off b + 16) (r_len b - 16)) as [n|]; [|discriminate].
    injection H as <-. split; [reflexivity|]. split; [reflexivity|discriminate].
  - destruct (sig_is (v_get v) (r_off b) 82 83 68 83) eqn:S2; [|discriminate]. right.
    destruct (r_len b <? 24) eqn:E24; [discriminate|]. unfold cstr_spec in H.
    destruct (first_nul (v_get v) (r_off b + 24) (r_len b - 24)) as [n|]; [|discriminate].
    injection H as <-. split; [reflexivity|]. split; [reflexivity|]. split; [lia|discriminate].
Qed.

(* ---- POGO ---- *)
Lemma pgo_items_ok g : forall fuel off n, n < N.of_nat fuel ->
  exists items, pgo_items fuel g off n = Ok items /\ pgo_check g items off n = true.
Proof.
  induction fuel as [|fuel IH]; intros off n Hf; [lia|]. cbn [pgo_items].
  destruct (3 <=? n) eqn:E3.
  - pose proof (cstr_from_bytes_spec g (off + 8) (4 * (n - 2))) as Hc. pose proof (cstr_correct g (off + 8) (4 * (n - 2))) as Hcs.
    destruct (cstr_from_bytes g (off + 8) (4 * (n - 2))) as [name|] eqn:En.
    + destruct Hc as [C1 [C2 [C3 _]]].
      destruct (n <? 2 + (r_len name - 1) / 4 + 1) eqn:E4; [lia|].
      destruct (IH (off + 4 * (2 + (r_len name - 1) / 4 + 1)) (n - (2 + (r_len name - 1) / 4 + 1)) ltac:(lia)) as [rest [Hr Hk]].
      rewrite Hr. cbn [bind]. eexists. split; [reflexivity|]. cbn [pgo_check pg_rva pg_size pg_name].
      rewrite E3, !N.eqb_refl, <- Hcs. cbn [optR_eqb]. unfold region_eqb. rewrite !N.eqb_refl. cbn [andb].
      destruct (2 + (r_len name - 1) / 4 + 1 <=? n) eqn:E5; [|lia]. cbn [andb]. exact Hk.
    + exists []. split; [reflexivity|]. cbn [pgo_check]. unfold cstr_spec in Hcs.
      destruct (first_nul g (off + 8) (4 * (n - 2))); [discriminate|]. apply orb_true_r.
  - exists []. split; [reflexivity|]. cbn [pgo_check]. destruct (n <? 3) eqn:E; [reflexivity|lia].
Qed.

(* the PGO iterator terminates without a panic on any dword slice and yields records that pass the checker:
   (rva, size, NUL-terminated name), the next record 2 + len(name)/4 + 1 dwords further *)
Theorem pgo_iter_correct g image :
  exists items, pgo_iter g image = Ok items /\ pgo_iter_check g image items = true.
Proof.
  unfold pgo_iter, pgo_iter_check. destruct (1 <=? r_len image / 4) eqn:E; apply pgo_items_ok; lia.
Qed.

(* the CodeView PDB path of the directory: the path of the FIRST entry that decodes as CodeView *)
Definition is_cv (v : view) (d : ddir) : Prop :=
  exists img n, dir_entry v d = Ok (ECv20 img n) \/ dir_entry v d = Ok (ECv70 img n).
Theorem pdb_file_name_spec v ds :
  match pdb_file_name v ds with
  | Some n => exists pre d post img, ds = pre ++ d :: post /\
                (dir_entry v d = Ok (ECv20 img n) \/ dir_entry v d = Ok (ECv70 img n)) /\
                forall d', In d' pre -> ~ is_cv v d'
  | None => forall d, In d ds -> ~ is_cv v d
  end.
Proof.
  induction ds as [|d ds IH]; cbn [pdb_file_name]; [intros d []|].
  assert (Hn : (forall img n, dir_entry v d <> Ok (ECv20 img n)) -> (forall img n, dir_entry v d <> Ok (ECv70 img n)) ->
               match pdb_file_name v ds with
               | Some n => exists pre d0 post img, d :: ds = pre ++ d0 :: post /\
                             (dir_entry v d0 = Ok (ECv20 img n) \/ dir_entry v d0 = Ok (ECv70 img n)) /\
                             forall d', In d' pre -> ~ is_cv v d'
               | None => forall d0, In d0 (d :: ds) -> ~ is_cv v d0
               end).
  { intros N1 N2. assert (Nd : ~ is_cv v d) by (intros [img [n [H|H]]]; [exact (N1 _ _ H)|exact (N2 _ _ H)]).
    destruct (pdb_file_name v ds) as [n|].
    - destruct IH as [pre [d0 [post [img [H1 [H2 H3]]]]]]. exists (d :: pre), d0, post, img. split; [rewrite H1; reflexivity|].
      split; [exact H2|]. intros d' [<-|Hin]; [exact Nd|apply H3; exact Hin].
    - intros d0 [<-|Hin]; [exact Nd|apply IH; exact Hin]. }
  destruct (dir_entry v d) as [e|e|x] eqn:Ee; [|apply Hn; discriminate|apply Hn; discriminate].
  destruct e as [img n|img n|img|r|o]; try (apply Hn; discriminate).
  - exists [], d, ds, img. split; [reflexivity|]. split; [left; exact Ee|intros d' []].
  - exists [], d, ds, img. split; [reflexivity|]. split; [right; exact Ee|intros d' []].
Qed.

(* ================================================================ TLS and load config *)

Lemma view_w v : view_ok v -> v_w v = W32 \/ v_w v = W64.
Proof. intros [H _]. exact H. Qed.

Lemma va_size_pos v : 0 < va_size v.
Proof. unfold va_size. destruct (v_w v =? W32); lia. Qed.

Lemma vaat_lt v o : view_ok v -> bytes_lt (v_get v) -> vaat v o < v_w v.
Proof.
  intros Hv Hg. unfold vaat, va_size. destruct (view_w v Hv) as [Hw|Hw]; rewrite Hw.
  - change (W32 =? W32) with true. cbv iota. change (N.to_nat 4) with 4%nat. apply (u32at_lt (v_get v) o Hg).
  - change (W64 =? W32) with false. cbv iota. change (N.to_nat 8) with 8%nat. apply (u64at_lt (v_get v) o Hg).
Qed.

Definition lift_region (size : N) (r : res region) : res region :=
  match r with Ok q => Ok {| r_off := r_off q; r_len := size |} | Err e => Err e | Fault f => Fault f end.

Lemma struct_correct size align v dd : view_ok v -> dd_ok dd ->
  match dd with None => Err EBounds | Some (va, _) => rd (slice v) va size align end = struct_spec size align v dd.
Proof.
  intros Hv Hd. unfold struct_spec. destruct dd as [[va sz]|]; [|reflexivity]. cbn [dd_ok] in Hd.
  unfold rd. rewrite slice_correct by (try assumption; lia). destruct (slice_spec v va size align); reflexivity.
Qed.

Theorem tls_try_from_correct v dd : view_ok v -> dd_ok dd ->
  tls_try_from v dd = struct_spec (tls_dir_size v) (va_size v) v dd.
Proof. intros Hv Hd. unfold tls_try_from. apply struct_correct; assumption. Qed.

Theorem load_config_try_from_correct v dd : view_ok v -> dd_ok dd ->
  load_config_try_from v dd = struct_spec (lc_dir_size v) (va_size v) v dd.
Proof. intros Hv Hd. unfold load_config_try_from. apply struct_correct; assumption. Qed.

(* absent directories: a zero VirtualAddress is Null, an index beyond NumberOfRvaAndSizes is Bounds *)
Theorem absent_is_null v size :
  tls_try_from v (Some (0, size)) = Err ENull /\ load_config_try_from v (Some (0, size)) = Err ENull /\
  tls_try_from v None = Err EBounds /\ load_config_try_from v None = Err EBounds.
Proof.
  unfold tls_try_from, load_config_try_from, rd.
  destruct (zero_is_null v (tls_dir_size v) (va_size v)) as [H1 _]. destruct (zero_is_null v (lc_dir_size v) (va_size v)) as [H2 _].
  rewrite H1, H2. repeat split; reflexivity.
Qed.

(* reading through a virtual address inside the image is slicing at va - base *)
Lemma rd_read_correct v a size align : view_ok v -> v_base v < a -> a - v_base v <= v_soi v ->
  rd (read v) a size align = lift_region size (slice_spec v (a - v_base v) size align).
Proof.
  intros Hv H1 H2. pose proof Hv as [_ [_ [Hsoi _]]]. unfold rd, lift_region.
  rewrite read_is_slice by (try assumption; lia). rewrite slice_correct by (try assumption; unfold W32 in *; lia).
  destruct (slice_spec v (a - v_base v) size align); reflexivity.
Qed.
Lemma rd_slice_read_correct v a size align len : view_ok v -> v_base v < a -> a - v_base v <= v_soi v ->
  rd_slice (read v) a size align len =
  if size * len <? W64 then lift_region (size * len) (slice_spec v (a - v_base v) (size * len) align) else Err EOverflow.
Proof.
  intros Hv H1 H2. pose proof Hv as [_ [_ [Hsoi _]]]. unfold rd_slice, checked_mul, lift_region.
  destruct (size * len <? W64); [|reflexivity].
  rewrite read_is_slice by (try assumption; lia). rewrite slice_correct by (try assumption; unfold W32 in *; lia).
  destruct (slice_spec v (a - v_base v) (size * len) align); reflexivity.
Qed.

(* TLS template data: End - Start bytes at Start through the VA path; Invalid if reversed *)
Theorem tls_raw_data_correct v t : view_ok v -> bytes_lt (v_get v) ->
  (tls_end v t < tls_start v t -> tls_raw_data v t = Err EInvalid) /\
  (tls_start v t <= tls_end v t -> v_base v < tls_start v t -> tls_start v t - v_base v <= v_soi v ->
   tls_raw_data v t = lift_region (tls_end v t - tls_start v t)
                        (slice_spec v (tls_start v t - v_base v) (tls_end v t - tls_start v t) 1)).
Proof.
  intros Hv Hg. unfold tls_raw_data. split.
  - intros H. destruct (tls_end v t <? tls_start v t) eqn:E; [reflexivity|lia].
  - intros H1 H2 H3. destruct (tls_end v t <? tls_start v t) eqn:E; [lia|].
    rewrite rd_slice_read_correct by assumption. rewrite N.mul_1_l.
    pose proof (vaat_lt v (r_off t + va_size v) Hv Hg) as He. fold (tls_end v t) in He.
    destruct (view_w v Hv) as [Hw|Hw]; rewrite Hw in He;
      (destruct (tls_end v t - tls_start v t <? W64) eqn:E2; [reflexivity|unfold W32, W64 in *; lia]).
Qed.

Theorem tls_slot_correct v t : view_ok v -> v_base v < tls_index v t -> tls_index v t - v_base v <= v_soi v ->
  tls_slot v t = lift_region 4 (slice_spec v (tls_index v t - v_base v) 4 4).
Proof. intros Hv H1 H2. unfold tls_slot. apply rd_read_correct; assumption. Qed.

(* callbacks: the Va-sized elements at AddressOfCallBacks up to the first zero *)
Theorem tls_callbacks_correct v t :
  match read v (tls_cb v t) 0 (va_size v) with
  | Ok r =>
    match tls_callbacks v t with
    | Ok q => exists n, q = {| r_off := r_off r; r_len := n * va_size v |} /\
                is_first (v_get v) (fun x => x =? 0) (r_off r) (r_len r) (va_size v) n
    | Err e => e = EBounds /\ none_in (v_get v) (fun x => x =? 0) (r_off r) (r_len r) (va_size v)
    | Fault _ => False
    end
  | Err e => tls_callbacks v t = Err e
  | Fault f => tls_callbacks v t = Fault f
  end.
Proof. unfold tls_callbacks, rd_slice_s. apply rd_slice_f_correct. apply va_size_pos. Qed.

Theorem lc_security_cookie_correct v t : view_ok v -> v_base v < lc_cookie_ptr v t -> lc_cookie_ptr v t - v_base v <= v_soi v ->
  lc_security_cookie v t = lift_region 4 (slice_spec v (lc_cookie_ptr v t - v_base v) 4 4).
Proof. intros Hv H1 H2. unfold lc_security_cookie. apply rd_read_correct; assumption. Qed.

(* the handler table: SEHandlerCount Va-sized entries at SEHandlerTable *)
Theorem lc_se_handler_table_correct v t : view_ok v -> v_base v < lc_table_ptr v t -> lc_table_ptr v t - v_base v <= v_soi v ->
  lc_se_handler_table v t =
  if va_size v * lc_count v t <? W64
  then lift_region (va_size v * lc_count v t) (slice_spec v (lc_table_ptr v t - v_base v) (va_size v * lc_count v t) (va_size v))
  else Err EOverflow.
Proof. intros Hv H1 H2. unfold lc_se_handler_table. apply rd_slice_read_correct; assumption. Qed.

Lemma read_total v : sl_total (read v).
Proof. intros a m al f. apply read_no_fault. Qed.
Lemma slice_total v : sl_total (slice v).
Proof. intros a m al f. apply slice_no_fault. Qed.

Theorem tls_lc_no_fault v dd t :
  no_fault (tls_try_from v dd) /\ no_fault (tls_raw_data v t) /\ no_fault (tls_slot v t) /\ no_fault (tls_callbacks v t) /\
  no_fault (load_config_try_from v dd) /\ no_fault (lc_security_cookie v t) /\ no_fault (lc_se_handler_table v t).
Proof.
  split; [|split; [|split; [|split; [|split; [|split]]]]].
  - unfold tls_try_from. destruct dd as [[va sz]|]; [apply rd_no_fault, slice_total|intros f; discriminate].
  - unfold tls_raw_data. destruct (tls_end v t <? tls_start v t); [intros f; discriminate|apply rd_slice_no_fault, read_total].
  - apply rd_no_fault, read_total.
  - apply rd_slice_s_no_fault; [apply read_total|apply va_size_pos].
  - unfold load_config_try_from. destruct dd as [[va sz]|]; [apply rd_no_fault, slice_total|intros f; discriminate].
  - apply rd_no_fault, read_total.
  - apply rd_slice_no_fault, read_total.
Qed.

(* ================================================================ round trips against independent writers *)

Lemma written_app g off a b : written g off (a ++ b) <-> written g off a /\ written g (off + lenN a) b.
Proof.
  unfold written. split.
  - intros H. split.
    + intros k Hk. rewrite H by (rewrite lenN_app; lia). apply app_nth1. unfold lenN in Hk. lia.
    + intros k Hk. replace (off + lenN a + k) with (off + (lenN a + k)) by lia. rewrite H by (rewrite lenN_app; lia).
      rewrite app_nth2 by (unfold lenN; lia). f_equal. unfold lenN. lia.
  - intros [Ha Hb] k Hk. rewrite lenN_app in Hk. destruct (N.lt_ge_cases k (lenN a)) as [Hl|Hl].
    + rewrite Ha by exact Hl. symmetry. apply app_nth1. unfold lenN in Hl. lia.
    + replace (off + k) with (off + lenN a + (k - lenN a)) by lia. rewrite Hb by lia.
      rewrite app_nth2 by (unfold lenN in *; lia). f_equal. unfold lenN in *. lia.
Qed.

Lemma written_le32 g off x : x < W32 -> written g off (le32 x) -> u32at g off = x.
Proof.
  intros Hx H. unfold u32at. cbn [le_value]. unfold written, le32, lenN in H. cbn [length] in H.
  pose proof (H 0 ltac:(lia)) as H0. pose proof (H 1 ltac:(lia)) as H1. pose proof (H 2 ltac:(lia)) as H2. pose proof (H 3 ltac:(lia)) as H3.
  change (N.to_nat 0) with 0%nat in H0. change (N.to_nat 1) with 1%nat in H1. change (N.to_nat 2) with 2%nat in H2.
  change (N.to_nat 3) with 3%nat in H3. cbn [nth] in H0, H1, H2, H3.
  replace (off + 0) with off in H0 by lia. replace (off + 1 + 1) with (off + 2) by lia. replace (off + 2 + 1) with (off + 3) by lia.
  rewrite H0, H1, H2, H3. unfold W32 in Hx. lia.
Qed.

Lemma written_nonzero g off bs : Forall (fun b => 0 < b < 256) bs -> written g off bs -> forall k, k < lenN bs -> g (off + k) <> 0.
Proof.
  intros Hf H k Hk. rewrite H by exact Hk. rewrite Forall_forall in Hf.
  assert (Hin : In (nth (N.to_nat k) bs 0) bs) by (apply nth_In; unfold lenN in Hk; lia). apply Hf in Hin. lia.
Qed.

Lemma find_nul_at g off n m : m < N.of_nat n -> g (off + m) = 0 -> (forall k, k < m -> g (off + k) <> 0) ->
  find_nul g off n = Some m.
Proof.
  intros Hm Hz Hnz. pose proof (find_nul_spec g (fun _ _ _ => Err ENull) n off) as H.
  destruct (find_nul g off n) as [i|].
  - destruct H as [H1 [H2 H3]]. f_equal. destruct (N.lt_trichotomy i m) as [Hl|[He|Hg]]; [|exact He|].
    + exfalso. exact (Hnz i Hl H2).
    + exfalso. exact (H3 m Hg Hz).
  - exfalso. exact (H m Hm Hz).
Qed.

Lemma cstr_written g off len path rest : path_ok path -> written g off (path ++ [0] ++ rest) -> lenN path < len ->
  cstr_from_bytes g off len = Some {| r_off := off; r_len := lenN path + 1 |}.
Proof.
  intros Hp Hw Hl. apply written_app in Hw as [Hw1 Hw2]. apply written_app in Hw2 as [Hw2 _].
  unfold cstr_from_bytes. rewrite (find_nul_at g off (N.to_nat len) (lenN path)); [reflexivity|lia| |].
  - pose proof (Hw2 0 ltac:(unfold lenN; cbn [length]; lia)) as H0. change (N.to_nat 0) with 0%nat in H0. cbn [nth] in H0.
    replace (off + lenN path + 0) with (off + lenN path) in H0 by lia. exact H0.
  - apply (written_nonzero g off path Hp Hw1).
Qed.

Lemma lenN_repeat (x : N) n : lenN (repeat x n) = N.of_nat n.
Proof. unfold lenN. rewrite repeat_length. reflexivity. Qed.

Lemma pgo_rec_len r : lenN (pgo_write_rec r) = 4 * (2 + lenN (pr_name r) / 4 + 1).
Proof.
  unfold pgo_write_rec. rewrite !lenN_app, lenN_repeat. unfold le32, pad_len. unfold lenN at 1 2 4. cbn [length].
  generalize (lenN (pr_name r)). intros m. lia.
Qed.

Lemma pgo_write_len4 rs : lenN (pgo_write rs) mod 4 = 0.
Proof.
  induction rs as [|r rs IH]; [reflexivity|]. unfold pgo_write in *. cbn [flat_map]. rewrite lenN_app, pgo_rec_len.
  generalize dependent (lenN (flat_map pgo_write_rec rs)). intros t Ht. generalize (lenN (pr_name r)). intros m. lia.
Qed.

(* POGO: decoding what the writer wrote yields exactly the records written (for every record list, names of any
   length without NUL), when the stream ends with the last record *)
Theorem pgo_roundtrip g : forall rs fuel off, Forall pgo_rec_ok rs ->
  written g off (pgo_write rs) -> lenN (pgo_write rs) / 4 < N.of_nat fuel ->
  pgo_items fuel g off (lenN (pgo_write rs) / 4) = Ok (pgo_expect rs off).
Proof.
  induction rs as [|r rs IH]; intros fuel off Hok Hw Hf.
  - destruct fuel as [|fuel]; [lia|]. reflexivity.
  - destruct fuel as [|fuel]; [lia|]. inversion Hok as [|? ? [Hr1 [Hr2 Hr3]] Hok']; subst.
    change (pgo_write (r :: rs)) with (pgo_write_rec r ++ pgo_write rs) in *.
    pose proof (pgo_rec_len r) as HL. pose proof (pgo_write_len4 rs) as H4. rewrite lenN_app in *.
    set (m := lenN (pr_name r)) in *. set (T := lenN (pgo_write rs)) in *.
    assert (Hn : (lenN (pgo_write_rec r) + T) / 4 = (2 + m / 4 + 1) + T / 4) by (rewrite HL; lia).
    rewrite Hn in *. cbn [pgo_items]. destruct (3 <=? 2 + m / 4 + 1 + T / 4) eqn:E3; [|lia].
    apply written_app in Hw as [Hw1 Hw2]. unfold pgo_write_rec in Hw1.
    apply written_app in Hw1 as [Wa Hw1]. apply written_app in Hw1 as [Wb Wc].
    assert (L4 : forall x, lenN (le32 x) = 4) by (intros x; reflexivity). rewrite !L4 in *.
    rewrite (written_le32 g off (pr_rva r) Hr1 Wa). rewrite (written_le32 g (off + 4) (pr_size r) Hr2 Wb).
    replace (off + 4 + 4) with (off + 8) in Wc by lia.
    rewrite (cstr_written g (off + 8) (4 * (2 + m / 4 + 1 + T / 4 - 2)) (pr_name r) _ Hr3 Wc) by (fold m; lia).
    fold m. cbn [r_len]. replace ((m + 1 - 1) / 4) with (m / 4) by (f_equal; lia).
    destruct (2 + m / 4 + 1 + T / 4 <? 2 + m / 4 + 1) eqn:E4; [lia|].
    replace (2 + m / 4 + 1 + T / 4 - (2 + m / 4 + 1)) with (T / 4) by lia.
    rewrite <- HL. rewrite (IH fuel (off + lenN (pgo_write_rec r)) Hok' Hw2) by lia. cbn [bind pgo_expect]. reflexivity.
Qed.

(* CodeView RSDS / NB10: decoding what the writer wrote yields the record offset and the path (bytes up to the NUL) *)
Theorem cv70_roundtrip v d b guid age path : bytes_lt (v_get v) -> ddir_ok d -> dd_type d = 2 ->
  dir_data_spec v d = Some b -> (v_addr v + r_off b) mod 4 = 0 ->
  lenN guid = 16 -> age < W32 -> path_ok path -> r_len b = lenN (cv70_write guid age path) ->
  written (v_get v) (r_off b) (cv70_write guid age path) ->
  dir_entry v d = Ok (ECv70 (r_off b) {| r_off := r_off b + 24; r_len := lenN path + 1 |}) /\
  u32at (v_get v) (r_off b + 20) = age /\ written (v_get v) (r_off b + 4) guid.
Proof.
  intros Hg Hd Ht Hb Ha Hgl Hage Hp Hlen Hw. rewrite (dir_entry_correct v d Hg Hd). unfold entry_spec. rewrite Ht, Hb.
  change (2 =? 2) with true. cbv iota. unfold cv70_write in *. rewrite !lenN_app in Hlen.
  assert (L4 : lenN (le32 age) = 4) by reflexivity. change (lenN [82; 83; 68; 83]) with 4 in *. change (lenN [0]) with 1 in *.
  rewrite L4, Hgl in Hlen. destruct (r_len b <? 16) eqn:E16; [lia|].
  destruct ((v_addr v + r_off b) mod 4 =? 0) eqn:Ea; [|lia]. cbn [negb].
  apply written_app in Hw as [Ws Hw]. apply written_app in Hw as [Wg Hw]. apply written_app in Hw as [Wage Wp].
  change (lenN [82; 83; 68; 83]) with 4 in *. rewrite Hgl, L4 in *.
  assert (S : forall k x, k < 4 -> nth (N.to_nat k) [82; 83; 68; 83] 0 = x -> v_get v (r_off b + k) = x).
  { intros k x Hk Hx. rewrite (Ws k) by exact Hk. exact Hx. }
  pose proof (S 0 82 ltac:(lia) eq_refl) as S0. pose proof (S 1 83 ltac:(lia) eq_refl) as S1.
  pose proof (S 2 68 ltac:(lia) eq_refl) as S2. pose proof (S 3 83 ltac:(lia) eq_refl) as S3.
  replace (r_off b + 0) with (r_off b) in S0 by lia.
  unfold sig_is. rewrite S0, S1, S2, S3. cbn [N.eqb Pos.eqb andb].
  change ((82 =? 78)) with false. cbn [andb]. change (82 =? 82) with true. change (83 =? 83) with true. change (68 =? 68) with true. cbn [andb].
  destruct (r_len b <? 24) eqn:E24; [lia|].
  replace (r_off b + 4 + 16 + 4) with (r_off b + 24) in Wp by lia. replace (r_off b + 4 + 16) with (r_off b + 20) in Wage by lia.
  rewrite <- cstr_correct. replace (path ++ [0]) with (path ++ [0] ++ []) in Wp by reflexivity.
  rewrite (cstr_written (v_get v) (r_off b + 24) (r_len b - 24) path [] Hp Wp) by lia.
  split; [reflexivity|]. split; [apply written_le32; assumption|exact Wg].
Qed.

Theorem cv20_roundtrip v d b offset stamp age path : bytes_lt (v_get v) -> ddir_ok d -> dd_type d = 2 ->
  dir_data_spec v d = Some b -> (v_addr v + r_off b) mod 4 = 0 ->
  offset < W32 -> stamp < W32 -> age < W32 -> path_ok path -> r_len b = lenN (cv20_write offset stamp age path) ->
  written (v_get v) (r_off b) (cv20_write offset stamp age path) ->
  dir_entry v d = Ok (ECv20 (r_off b) {| r_off := r_off b + 16; r_len := lenN path + 1 |}) /\
  u32at (v_get v) (r_off b + 8) = stamp /\ u32at (v_get v) (r_off b + 12) = age.
Proof.
  intros Hg Hd Ht Hb Ha Ho Hs Hage Hp Hlen Hw. rewrite (dir_entry_correct v d Hg Hd). unfold entry_spec. rewrite Ht, Hb.
  change (2 =? 2) with true. cbv iota. unfold cv20_write in *. rewrite !lenN_app in Hlen.
  assert (L4 : forall x, lenN (le32 x) = 4) by (intros x; reflexivity). change (lenN [78; 66; 49; 48]) with 4 in *. change (lenN [0]) with 1 in *.
  rewrite !L4 in Hlen. destruct (r_len b <? 16) eqn:E16; [lia|].
  destruct ((v_addr v + r_off b) mod 4 =? 0) eqn:Ea; [|lia]. cbn [negb].
  apply written_app in Hw as [Ws Hw]. apply written_app in Hw as [Wo Hw]. apply written_app in Hw as [Wst Hw]. apply written_app in Hw as [Wage Wp].
  change (lenN [78; 66; 49; 48]) with 4 in *. rewrite !L4 in *.
  assert (S : forall k x, k < 4 -> nth (N.to_nat k) [78; 66; 49; 48] 0 = x -> v_get v (r_off b + k) = x).
  { intros k x Hk Hx. rewrite (Ws k) by exact Hk. exact Hx. }
  pose proof (S 0 78 ltac:(lia) eq_refl) as S0. pose proof (S 1 66 ltac:(lia) eq_refl) as S1.
  pose proof (S 2 49 ltac:(lia) eq_refl) as S2. pose proof (S 3 48 ltac:(lia) eq_refl) as S3.
  replace (r_off b + 0) with (r_off b) in S0 by lia.
  unfold sig_is. rewrite S0, S1, S2, S3. change (78 =? 78) with true. change (66 =? 66) with true. change (49 =? 49) with true.
  change (48 =? 48) with true. cbn [andb].
  replace (r_off b + 4 + 4 + 4 + 4) with (r_off b + 16) in Wp by lia. replace (r_off b + 4 + 4 + 4) with (r_off b + 12) in Wage by lia.
  replace (r_off b + 4 + 4) with (r_off b + 8) in Wst by lia.
  rewrite <- cstr_correct. replace (path ++ [0]) with (path ++ [0] ++ []) in Wp by reflexivity.
  rewrite (cstr_written (v_get v) (r_off b + 16) (r_len b - 16) path [] Hp Wp) by lia.
  split; [reflexivity|]. split; apply written_le32; assumption.
Qed.

(* the PGO checker is exact: it accepts no record list other than the one the iterator yields *)
Lemma pgo_check_exact g : forall fuel items off n, n < N.of_nat fuel ->
  pgo_check g items off n = true -> pgo_items fuel g off n = Ok items.
Proof.
  induction fuel as [|fuel IH]; intros items off n Hf Hc; [lia|]. cbn [pgo_items]. rewrite cstr_correct.
  destruct items as [|it rest]; cbn [pgo_check] in Hc.
  - destruct (3 <=? n) eqn:E3; [|reflexivity]. unfold cstr_spec.
    destruct (n <? 3) eqn:E; [lia|]. cbn [orb] in Hc. destruct (first_nul g (off + 8) (4 * (n - 2))); [discriminate|reflexivity].
  - apply andb_prop in Hc as [Hc Hrest]. apply andb_prop in Hc as [Hc Hstep]. apply andb_prop in Hc as [Hc Hname].
    apply andb_prop in Hc as [Hc Hsize]. apply andb_prop in Hc as [H3 Hrva]. rewrite H3.
    destruct (cstr_spec g (off + 8) (4 * (n - 2))) as [name|]; cbn [optR_eqb] in Hname; [|discriminate].
    unfold region_eqb in Hname. apply andb_prop in Hname as [N1 N2]. apply N.eqb_eq in N1, N2, Hrva, Hsize.
    assert (Hn : name = pg_name it) by (destruct name as [a b], (pg_name it) as [c e]; cbn [r_off r_len] in *; subst; reflexivity).
    rewrite Hn. destruct (n <? 2 + (r_len (pg_name it) - 1) / 4 + 1) eqn:E4; [lia|].
    rewrite (IH rest (off + 4 * (2 + (r_len (pg_name it) - 1) / 4 + 1)) (n - (2 + (r_len (pg_name it) - 1) / 4 + 1)) ltac:(lia) Hrest).
    cbn [bind]. rewrite <- Hrva, <- Hsize. destruct it; reflexivity.
Qed.

Theorem pgo_iter_check_exact g image items : pgo_iter_check g image items = true <-> pgo_iter g image = Ok items.
Proof.
  split.
  - unfold pgo_iter, pgo_iter_check. destruct (1 <=? r_len image / 4) eqn:E; intros H; apply pgo_check_exact; try exact H; lia.
  - intros H. destruct (pgo_iter_correct g image) as [items' [H1 H2]]. rewrite H in H1. injection H1 as <-. exact H2.
Qed.

(* ================================================================ no modelled function faults *)
Theorem all_no_fault v dd t pc f d r image :
  bytes_lt (v_get v) -> v_addr v mod 4 = 0 ->
  no_fault (exception_try_from v dd) /\ no_fault (index_of t pc) /\ no_fault (lookup_function_entry t pc) /\
  no_fault (function_bytes v f) /\ no_fault (unwind_info v f) /\
  no_fault (security_try_from v dd) /\ (forall s, security_try_from v dd = Ok s -> no_fault (certificate_data s)) /\
  no_fault (debug_try_from v dd) /\ no_fault (dir_entry v d) /\ no_fault (pgo_iter (v_get v) image) /\
  no_fault (tls_try_from v dd) /\ no_fault (tls_raw_data v r) /\ no_fault (tls_slot v r) /\ no_fault (tls_callbacks v r) /\
  no_fault (load_config_try_from v dd) /\ no_fault (lc_security_cookie v r) /\ no_fault (lc_se_handler_table v r).
Proof.
  intros Hg Ha. destruct (tls_lc_no_fault v dd r) as [T1 [T2 [T3 [T4 [T5 [T6 T7]]]]]].
  split; [apply exception_try_from_no_fault|]. split; [apply index_of_no_fault|]. split; [apply lookup_no_fault|].
  split; [apply function_bytes_no_fault|]. split; [apply unwind_info_no_fault; exact Hg|].
  split; [apply security_no_fault; exact Ha|]. split.
  { intros s Hs x. unfold security_try_from in Hs. destruct (v_file v); cbn [negb] in Hs; [|discriminate].
    destruct dd as [[va size]|]; [|discriminate]. destruct (va =? 0); [discriminate|].
    destruct (negb (aligned_to 8 va) || negb (aligned_to 8 size)); [discriminate|]. destruct (size =? 0); [discriminate|].
    destruct (checked_add W64 va size) as [e|]; [|discriminate]. destruct (get_range (v_len v) va e) as [q|]; [|discriminate].
    unfold security_new in Hs. destruct (negb (aligned_to 4 (v_addr v + r_off q))); [discriminate|].
    destruct (r_len q <? 8) eqn:E; [discriminate|]. injection Hs as <-. unfold certificate_data. rewrite E. discriminate. }
  split; [apply debug_try_from_no_fault|]. split; [apply dir_entry_no_fault|]. split.
  { intros x. destruct (pgo_iter_correct (v_get v) image) as [items [H _]]. rewrite H. discriminate. }
  repeat split; assumption.
Qed.

Lemma nonvacuous_example :
  let t := [ {| rf_begin := 4096; rf_end := 4112; rf_unwind := 8192 |};
             {| rf_begin := 4112; rf_end := 4128; rf_unwind := 8196 |};
             {| rf_begin := 4144; rf_end := 4160; rf_unwind := 8200 |} ] in
  (* a mapped PE32+ view of 0x3000 bytes: three RUNTIME_FUNCTIONs at 0x2100, a certificate table nowhere *)
  let bytes := [0;16;0;0; 16;16;0;0; 0;32;0;0;   16;16;0;0; 32;16;0;0; 4;32;0;0;   48;16;0;0; 64;16;0;0; 8;32;0;0] in
  let v := {| v_file := false; v_addr := 4096; v_len := 12288;
              v_get := fun i => if (8448 <=? i) && (i <? 8484) then nth (N.to_nat (i - 8448)) bytes 0 else if i =? 8194 then 2 else 0;
              v_w := W64; v_base := 5368709120; v_soh := 1024; v_soi := 12288; v_secs := [] |} in
  let vf := {| v_file := true; v_addr := 4096; v_len := 2048; v_get := fun i => if i =? 1030 then 2 else 0;
               v_w := W32; v_base := 4194304; v_soh := 1024; v_soi := 12288; v_secs := [] |} in
  check_sorted t = true /\
  exception_try_from v (Some (8448, 36)) = Ok {| r_off := 8448; r_len := 36 |} /\
  exception_functions v {| r_off := 8448; r_len := 36 |} = t /\
  exception_try_from v (Some (8448, 35)) = Err EInvalid /\ exception_try_from v (Some (0, 0)) = Err ENull /\
  index_of t 4100 = Ok (Found 0) /\ index_of t 4112 = Ok (Found 1) /\ index_of t 4130 = Ok (Insert 2) /\
  index_of t 4000 = Ok (Insert 0) /\ index_of t 4160 = Ok (Insert 3) /\
  unwind_info v {| rf_begin := 4096; rf_end := 4112; rf_unwind := 8192 |} = Ok {| r_off := 8192; r_len := 8 |} /\
  security_try_from vf (Some (1024, 16)) = Ok {| r_off := 1024; r_len := 16 |} /\ certificate_type (v_get vf) {| r_off := 1024; r_len := 16 |} = 2 /\
  security_try_from v (Some (1024, 16)) = Err EUnmapped /\ security_try_from vf (Some (1028, 16)) = Err EMisaligned.
Proof. vm_compute. repeat split; reflexivity. Qed.
