(* Checked.v - checked twins of the first-phase models.

   DESIGN.md section 4 fixes how a Rust operation is modelled: a plain [+ - *] on machine integers is
   [chk_add / chk_sub / chk_mul] (overflow = [Fault POverflow], the debug-build semantics), an index [a[i]] out of
   range is [Fault PIndex], [&a[i..j]] with bad bounds is [Fault PSliceOrder]/[PIndex], and a raw pointer cast or
   [from_raw_parts] / [get_unchecked] outside the buffer or misaligned for its type is [Fault UBOob]/[UBAlign].
   Several first-phase models (Mapping.v, Views.v, Headers.v, Rich.v, Relocs.v, the C string length of Exports.v)
   wrote such operations with unbounded [N] arithmetic, total [nth] and no reference check, so a theorem "no Fault"
   over them never had to show that the operator cannot overflow or that the index is in range.

   This file restates each of those functions with the convention applied at EVERY operator, index and raw
   reference of the Rust function it mirrors (the line numbers are those of repo/src).  The existing models are
   left untouched; Proofs/CheckedProofs.v proves, for every twin, [f_chk = f] under the machine ranges - the proof
   obligation that had been missing - or exhibits the input on which the obligation fails.
   No proofs live in this file. *)
From PV.Model Require Export Machine Mapping Views Headers Rich Relocs.
From PV.gen Require Import Layout.

(* ---- the two primitives ---- *)
(* &*(p.add(off) as *const T) with size = size_of::<T>(), from_raw_parts(p.add(off) as *const T, n) with
   size = n * size_of::<T>(), get_unchecked(off..off+size): the reference must lie inside the [len] bytes at
   machine address [addr] and its address must be a multiple of align_of::<T>() *)
Definition ref_chk (addr len off size align : N) : res unit :=
  if len <? off + size then Fault UBOob
  else if negb (aligned_to align (addr + off)) then Fault UBAlign
  else Ok tt.
(* a[i] on a slice *)
Definition idx_chk {A} (l : list A) (i : N) : res A :=
  match nth_error l (N.to_nat i) with Some x => Ok x | None => Fault PIndex end.
(* &a[i..j] : the half-open range must be ordered and end inside the slice *)
Definition range_chk (len i j : N) : res unit :=
  if j <? i then Fault PSliceOrder else if len <? j then Fault PIndex else Ok tt.

(* =====================================================================================================
   src/pe64/pe.rs - address translation (Model/Mapping.v)
   ===================================================================================================== *)

(* pe.rs:85 rva_to_file_offset.  :104 [rva - it.VirtualAddress], :108 [section_offset + it.PointerToRawData] *)
Fixpoint rva_to_file_offset_secs_chk (secs : list section) (rva : N) : res N :=
  match secs with
  | [] => Err EBounds
  | it :: rest =>
    let vend := wadd32 (s_va it) (N.max (s_vs it) (s_srd it)) in
    if (s_va it <=? rva) && (rva <? vend) then
      match checked_add W32 (s_prd it) (s_srd it) with
      | None => Err EOverflow
      | Some _ =>
        so <- chk_sub rva (s_va it) ;;
        if so <? s_srd it then chk_add W32 so (s_prd it)
        else if so <? s_vs it then Err EZeroFill
        else Err EBounds
      end
    else rva_to_file_offset_secs_chk rest rva
  end.
Definition rva_to_file_offset_chk (soh : N) (secs : list section) (rva : N) : res N :=
  if rva <? soh then Ok rva else rva_to_file_offset_secs_chk secs rva.

(* pe.rs:133 file_offset_to_rva.  :152 [file_offset as Rva - it.PointerToRawData], :156 [section_offset + it.VirtualAddress] *)
Fixpoint file_offset_to_rva_secs_chk (secs : list section) (fo : N) : res N :=
  match secs with
  | [] => Err EBounds
  | it :: rest =>
    let eord := wadd32 (s_prd it) (s_srd it) in
    if (s_prd it <=? fo) && (fo <? eord) then
      match checked_add W32 (s_va it) (s_vs it) with
      | None => Err EOverflow
      | Some _ =>
        so <- chk_sub (fo mod W32) (s_prd it) ;;
        if so <? s_vs it then chk_add W32 so (s_va it)
        else if so <? s_srd it then Err EUnmapped
        else Err EBounds
      end
    else file_offset_to_rva_secs_chk rest fo
  end.
Definition file_offset_to_rva_chk (soh : N) (secs : list section) (fo : N) : res N :=
  if fo <? soh then Ok (fo mod W32) else file_offset_to_rva_secs_chk secs fo.

(* pe.rs:693 range_file.  :705 image.get(range) and :708 section_bytes.get(offset..) are checked gets (option);
   :707 [rva - it.VirtualAddress] and :711 [VirtualEnd - rva] are plain subtractions *)
Fixpoint range_file_chk (len : N) (secs : list section) (rva min_size : N) : res region :=
  match secs with
  | [] => Err EBounds
  | it :: rest =>
    let vend := wadd32 (s_va it) (N.max (s_vs it) (s_srd it)) in
    if (s_va it <=? rva) && (rva <? vend) then
      match get_range len (s_prd it) (wadd32 (s_prd it) (s_srd it)) with
      | None => Err EInvalid
      | Some sb =>
        so <- chk_sub rva (s_va it) ;;
        let fail : res region := d <- chk_sub vend rva ;; Err (if d <? min_size then EBounds else EZeroFill) in
        match get_from (r_len sb) so with
        | Some b =>
          if min_size <=? r_len b then Ok {| r_off := r_off sb + r_off b; r_len := r_len b |}
          else fail
        | None => fail
        end
      end
    else range_file_chk len rest rva min_size
  end.

(* pe.rs:718 slice_file, :735 read_file, :655 slice_section, :670 read_section over the checked range_file.
   :676/:741 [va - image_base] stands behind [va < image_base ||] *)
Definition slice_file_chk (base len : N) (secs : list section) (rva min_size align : N) : res region :=
  if rva =? 0 then Err ENull
  else if negb (aligned_to align (wadd64 base rva)) then Err EMisaligned
  else
    r <- range_file_chk len secs rva min_size ;;
    if negb (aligned_to align (base + r_off r)) then Err EMisaligned else Ok r.
Definition read_file_chk (v : view) (va min_size align : N) : res region :=
  if va =? 0 then Err ENull
  else if va <? v_base v then Err EBounds
  else
    d <- chk_sub va (v_base v) ;;
    if v_soi v <? d then Err EBounds
    else
      let rva := d mod W32 in
      if negb (aligned_to align (wadd64 (v_addr v) rva)) then Err EMisaligned
      else
        r <- range_file_chk (v_len v) (v_secs v) rva min_size ;;
        if negb (aligned_to align (v_addr v + r_off r)) then Err EMisaligned else Ok r.
Definition read_section_chk (v : view) (va min_size align : N) : res region :=
  if va =? 0 then Err ENull
  else if va <? v_base v then Err EBounds
  else
    d <- chk_sub va (v_base v) ;;
    if v_soi v <? d then Err EBounds
    else
      if negb (aligned_to align (wadd64 (v_addr v) d)) then Err EMisaligned
      else match get_from (v_len v) d with
           | Some b => if min_size <=? r_len b then Ok b else Err EBounds
           | None => Err EBounds
           end.
Definition slice_chk (v : view) (rva min_size align : N) : res region :=
  if v_file v then slice_file_chk (v_addr v) (v_len v) (v_secs v) rva min_size align
  else slice_section (v_addr v) (v_len v) rva min_size align.
Definition read_chk (v : view) (va min_size align : N) : res region :=
  if v_file v then read_file_chk v va min_size align else read_section_chk v va min_size align.
(* pe.rs:204 va_to_rva: [va - image_base] twice behind [va < image_base ||] *)
Definition va_to_rva_chk (v : view) (va : N) : res N :=
  if va =? 0 then Err ENull
  else if va <? v_base v then Err EBounds
  else
    d <- chk_sub va (v_base v) ;;
    if v_soi v <? d then Err EBounds else Ok (d mod W32).

(* =====================================================================================================
   src/pe64/pe.rs - the typed read family (Model/Views.v).  [addr] is the machine address of image[0];
   [sl] returns where in the image the byte slice lies.  Every cast of [bytes.as_ptr()] to [*const T] that is
   dereferenced or handed to from_raw_parts is a [ref_chk] relative to the byte slice it was derived from.
   ===================================================================================================== *)
Section TypedChk.
  Variable get : N -> N.
  Variable sl : N -> N -> N -> res region.
  Variable addr : N.

  (* :302 derva / :387 deref : &*(bytes.as_ptr() as *const T) *)
  Definition rd_chk (a size align : N) : res region :=
    r <- sl a size align ;;
    _ <- ref_chk (addr + r_off r) (r_len r) 0 size align ;;
    Ok {| r_off := r_off r; r_len := size |}.
  (* :312 derva_copy / :397 deref_copy : ptr::read_unaligned(bytes.as_ptr() as *const T) *)
  Definition rd_copy_chk (a size : N) : res region :=
    r <- sl a size 1 ;;
    _ <- ref_chk (addr + r_off r) (r_len r) 0 size 1 ;;
    Ok {| r_off := r_off r; r_len := size |}.
  (* :323 derva_into / :408 deref_into : bytes_mut(dest).copy_from_slice(&bytes[..len]) *)
  Definition rd_into_chk (a size : N) : res region :=
    r <- sl a size 1 ;;
    _ <- range_chk (r_len r) 0 size ;;
    Ok {| r_off := r_off r; r_len := size |}.
  (* :330 derva_slice / :415 deref_slice : from_raw_parts(bytes.as_ptr() as *const T, len) *)
  Definition rd_slice_chk (a size align len : N) : res region :=
    match checked_mul W64 size len with
    | None => Err EOverflow
    | Some m =>
      r <- sl a m align ;;
      _ <- ref_chk (addr + r_off r) (r_len r) 0 m align ;;
      Ok {| r_off := r_off r; r_len := m |}
    end.

  (* :343 derva_slice_f / :428 deref_slice_f.  :350 [len * size_of::<T>()], :351 [offset + size_of::<T>()] (the
     source comment admits the overflow), :356 f(&*s) with s = bytes.as_ptr().offset(offset) as *const T, :361 [len += 1] *)
  Fixpoint scan_f_chk (fuel : nat) (p : N -> bool) (off blen size align n : N) : res N :=
    match fuel with
    | O => Fault OutOfFuel
    | S fuel' =>
      o <- chk_mul W64 n size ;;
      e <- chk_add W64 o size ;;
      if blen <? e then Err EBounds
      else
        _ <- ref_chk (addr + off) blen o size align ;;
        if p (le_value get (off + o) (N.to_nat size)) then Ok n
        else (n1 <- chk_add W64 n 1 ;; scan_f_chk fuel' p off blen size align n1)
    end.
  Definition rd_slice_f_chk (a size align : N) (p : N -> bool) : res region :=
    r <- sl a 0 align ;;
    n <- scan_f_chk (S (N.to_nat (r_len r / size))) p (r_off r) (r_len r) size align 0 ;;
    _ <- ref_chk (addr + r_off r) (r_len r) 0 (n * size) align ;;      (* :358 from_raw_parts(.., len) *)
    Ok {| r_off := r_off r; r_len := n * size |}.

  (* :374 derva_c_str -> c_str.rs:39 CStr::from_bytes: [len + 1], bytes.get_unchecked(..len + 1) *)
  Definition rd_c_str_chk (a : N) : res region :=
    r <- sl a 0 1 ;;
    match find_nul get (r_off r) (N.to_nat (r_len r)) with
    | Some i =>
      l <- chk_add W64 i 1 ;;
      _ <- ref_chk (addr + r_off r) (r_len r) 0 l 1 ;;
      Ok {| r_off := r_off r; r_len := l |}
    | None => Err EEncoding
    end.
  (* c_str.rs:93 AsRef<[u8]> for CStr: [self.bytes.len() - 1], get_unchecked(..len) - the length of the string
     without its NUL, as used by Exports.cstr_of and every name comparison *)
  Definition cstr_len_chk (r : region) : res N :=
    l <- chk_sub (r_len r) 1 ;;
    _ <- ref_chk (addr + r_off r) (r_len r) 0 l 1 ;;
    Ok l.
End TypedChk.

(* =====================================================================================================
   src/pe64/pe.rs:764 validate_headers (Model/Headers.v), src/wrap/file.rs:12
   ===================================================================================================== *)
Definition validate_chk (f : fmt) (m : mem) : res N :=
  if m_len m <? IMAGE_DOS_HEADER_size then Err EBounds
  else if negb (aligned_to 4 (m_addr m)) then Err EMisaligned
  else
    (* :773 &*(image.as_ptr() as *const IMAGE_DOS_HEADER) *)
    _ <- ref_chk (m_addr m) (m_len m) 0 IMAGE_DOS_HEADER_size IMAGE_DOS_HEADER_align ;;
    if negb (rd16 m IMAGE_DOS_HEADER_e_magic_off =? IMAGE_DOS_SIGNATURE) then Err EBadMagic
    else if negb (aligned_to 4 (e_lfanew m)) then Err EMisaligned
    else if 16777216 <? e_lfanew m then Err EInsanity
    else
      (* :789 dos.e_lfanew as usize + size_of::<IMAGE_NT_HEADERS>() *)
      nt_end <- chk_add W64 (e_lfanew m) (f_nt_size f) ;;
      if m_len m <? nt_end then Err EBounds
      else
        (* :793 &*(image.as_ptr().offset(e_lfanew) as *const IMAGE_NT_HEADERS) *)
        _ <- ref_chk (m_addr m) (m_len m) (e_lfanew m) (f_nt_size f) (f_nt_align f) ;;
        if negb (rd32 m (e_lfanew m) =? IMAGE_NT_HEADERS_SIGNATURE)
           || negb ((h_magic f m =? IMAGE_NT_OPTIONAL_HDR32_MAGIC) || (h_magic f m =? IMAGE_NT_OPTIONAL_HDR64_MAGIC))
        then Err EBadMagic
        else if m_len m <? h_soh f m then Err EBounds
        else if h_soi f m <? h_soh f m then Err EInsanity
        else if negb (h_magic f m =? f_magic f) then Err EPeMagic
        else
          let ndir := N.min (h_nrva f m) IMAGE_NUMBEROF_DIRECTORY_ENTRIES in
          (* :811 num_rva_sizes * size_of::<IMAGE_DATA_DIRECTORY>(), :812 nt_end + size_of_data_dir *)
          sdd <- chk_mul W64 ndir IMAGE_DATA_DIRECTORY_size ;;
          dd_end <- chk_add W64 nt_end sdd ;;
          if m_len m <? dd_end then Err EBounds
          else if 96 <? h_nsec f m then Err EInsanity
          else
            (* :821 NumberOfSections as usize * size_of::<IMAGE_SECTION_HEADER>() *)
            size_of_sections <- chk_mul W64 (h_nsec f m) IMAGE_SECTION_HEADER_size ;;
            (* :824-826 e_lfanew + (size_of NT - size_of OPT) + SizeOfOptionalHeader *)
            d <- chk_sub (f_nt_size f) (f_opt_size f) ;;
            s1 <- chk_add W64 (e_lfanew m) d ;;
            start_of_sections <- chk_add W64 s1 (h_optsz f m) ;;
            (* :828 size_of_sections + start_of_sections *)
            tot <- chk_add W64 size_of_sections start_of_sections ;;
            if m_len m <? tot then Err EBounds
            else if negb (aligned_to 4 start_of_sections) then Err EMisaligned
            else Ok (h_soi f m).

(* wrap/file.rs:12: [.map_err(|_| Error::Bounds)] maps every ERROR of the PE32 retry to Bounds; a panic inside the
   retry is still a panic (Headers.v:157 has [| _ => Err EBounds], which would swallow a Fault) *)
Definition wrap_from_bytes_chk (m : mem) : res wrapped :=
  match validate_chk fmt64 m with
  | Ok _ => Ok T64
  | Err EPeMagic => match validate_chk fmt32 m with Ok _ => Ok T32 | Err e => Err e | Fault x => Fault x end
  | Err EBounds => match validate_chk fmt32 m with Ok _ => Ok T32 | Err _ => Err EBounds | Fault x => Fault x end
  | Err e => Err e
  | Fault x => Fault x
  end.

(* =====================================================================================================
   src/rich_structure.rs (Model/Rich.v).  Positions are usize; the models count them in [nat].
   ===================================================================================================== *)
Definition nsub (a b : nat) : res nat := if Nat.leb b a then Ok (a - b)%nat else Fault POverflow.
Definition nadd (a b : nat) : res nat := if N.of_nat (a + b) <? W64 then Ok (a + b)%nat else Fault POverflow.
Definition nidx (l : list N) (i : nat) : res N :=
  match nth_error l i with Some x => Ok x | None => Fault PIndex end.

(* :42-51 the padding loop: [image[end - 1]], [end -= 1] *)
Fixpoint skip_zeros_chk (img : list N) (e : nat) : res nat :=
  if Nat.ltb e 16 then Err EInvalid
  else match e with
       | O => Fault POverflow                                  (* end - 1 *)
       | S e' => x <- nidx img e' ;; if x =? 0 then skip_zeros_chk img e' else Ok e
       end.

(* :67 image[start] == dx && image[start + 1] == x && image[start + 2] == x && image[start + 3] == x, left to right *)
Definition header_at_chk (img : list N) (x : N) (s : nat) : res bool :=
  a0 <- nidx img s ;;
  if negb (a0 =? N.lxor DANS x) then Ok false else
  s1 <- nadd s 1 ;; a1 <- nidx img s1 ;;
  if negb (a1 =? x) then Ok false else
  s2 <- nadd s 2 ;; a2 <- nidx img s2 ;;
  if negb (a2 =? x) then Ok false else
  s3 <- nadd s 3 ;; a3 <- nidx img s3 ;;
  Ok (a3 =? x).

(* :62-71 the header scan: [start -= 2] *)
Fixpoint find_start_chk (fuel : nat) (img : list N) (x : N) (s : nat) : res nat :=
  match fuel with
  | O => Fault OutOfFuel
  | S f =>
    if Nat.ltb s 16 then Err EInvalid
    else
      h <- header_at_chk img x s ;;
      if h then Ok s else (s' <- nsub s 2 ;; find_start_chk f img x s')
  end.

(* :36 try_from: [image[end - 2]], [image[end - 1]], [end - 6], [&image[..start]], [&image[start..end]] *)
Definition try_from_chk (image : list N) : res (nat * nat) :=
  match nth_error image 15 with
  | None => Err EInvalid
  | Some e_lfanew =>
    let n := N.to_nat (e_lfanew / 4) in
    if Nat.ltb (length image) n then Err EInvalid
    else
      let img := firstn n image in
      e <- skip_zeros_chk img (length img) ;;
      e2 <- nsub e 2 ;; r <- nidx img e2 ;;
      if negb (r =? RICH) then Err EBadMagic
      else
        e1 <- nsub e 1 ;; x <- nidx img e1 ;;
        s0 <- nsub e 6 ;;
        s <- find_start_chk e img x s0 ;;
        _ <- range_chk (lenN img) 0 (N.of_nat s) ;;
        _ <- range_chk (lenN img) (N.of_nat s) (N.of_nat e) ;;
        Ok (s, e)
  end.

(* :113 xor_key: self.image[1] where self.image = image[start..end] *)
Definition xor_key_chk (image : list N) (se : nat * nat) : res N :=
  nidx (firstn (snd se - fst se) (skipn (fst se) image)) 1.
(* :117 records: &self.image[4..self.image.len() - 2] *)
Definition body_chk (image : list N) (se : nat * nat) : res (list N) :=
  let im := firstn (snd se - fst se) (skipn (fst se) image) in
  hi <- nsub (length im) 2 ;;
  _ <- range_chk (lenN im) 4 (N.of_nat hi) ;;
  Ok (firstn (hi - 4) (skipn 4 im)).
Definition records_chk (image : list N) (se : nat * nat) : res (list rec) :=
  k <- xor_key_chk image se ;; b <- body_chk image se ;;
  Ok (map (fun p => rdecode k (fst p) (snd p)) (pairs b)).

(* :90 _checksum: the rotate amounts [i + 0 .. i + 3] and [i += 4] are plain u32 additions *)
Definition stub_step_chk (acc : res (N * N)) (dword : N) : res (N * N) :=
  a <- acc ;;
  let '(csum, i) := a in
  let d := if i =? 60 then 0 else dword in
  let b0 := d mod 256 in let b1 := (d / 256) mod 256 in let b2 := (d / 65536) mod 256 in let b3 := (d / 16777216) mod 256 in
  i0 <- chk_add W32 i 0 ;; let csum := wadd32 csum (rotl32 b0 i0) in
  i1 <- chk_add W32 i 1 ;; let csum := wadd32 csum (rotl32 b1 i1) in
  i2 <- chk_add W32 i 2 ;; let csum := wadd32 csum (rotl32 b2 i2) in
  i3 <- chk_add W32 i 3 ;; let csum := wadd32 csum (rotl32 b3 i3) in
  i' <- chk_add W32 i 4 ;;
  Ok (csum, i').
Definition checksum_of_chk (stub : list N) (recs : list rec) : res N :=
  let csum0 := (4 * lenN stub) mod W32 in
  a <- fold_left stub_step_chk stub (Ok (csum0, 0)) ;;
  Ok (fold_left rec_step recs (fst a)).
Definition checksum_chk (image : list N) (se : nat * nat) : res N :=
  _ <- range_chk (lenN image) 0 (N.of_nat (fst se)) ;;
  recs <- records_chk image se ;;
  checksum_of_chk (firstn (fst se) image) recs.

(* :131 total_size = ((xor_key / 32) % 3 + n as u32) * 8 + 0x20 in u32 - the code as it stood *)
Definition total_size_orig_chk (key n : N) : res N :=
  a <- chk_add W32 ((key / 32) mod 3) (n mod W32) ;;
  b <- chk_mul W32 a 8 ;;
  chk_add W32 b 32.
(* after the repair: the same sum in usize *)
Definition total_size_chk (key n : N) : res N :=
  a <- chk_add W64 ((key / 32) mod 3) n ;;
  b <- chk_mul W64 a 8 ;;
  chk_add W64 b 32.
(* :143-147 dest[i * 2 + 4], dest[i * 2 + 5] for the records, in order *)
Fixpoint enc_writes_chk (dest_len i : N) (recs : list rec) : res unit :=
  match recs with
  | [] => Ok tt
  | _ :: t =>
    a <- chk_mul W64 i 2 ;;
    b <- chk_add W64 a 4 ;; _ <- (if b <? dest_len then Ok tt else Fault PIndex) ;;
    c <- chk_add W64 a 5 ;; _ <- (if c <? dest_len then Ok tt else Fault PIndex) ;;
    enc_writes_chk dest_len (i + 1) t
  end.
Section EncodeChk.
  Variable total_size : N -> N -> res N.
  (* :128 encode.  Result: inl (words written to dest, total_len) | inr total_len *)
  Definition encode_gen_chk (stub : list N) (recs : list rec) (dest_len : nat) : res ((list N * N) + N) :=
    key <- checksum_of_chk stub recs ;;
    let n := N.of_nat (length recs) in
    ts <- total_size key n ;;
    let total_len := ts / 4 in
    m <- chk_mul W64 n 2 ;; m6 <- chk_add W64 m 6 ;;
    if N.of_nat dest_len <? m6 then Ok (inr total_len)
    else
      _ <- (if 3 <? N.of_nat dest_len then Ok tt else Fault PIndex) ;;          (* dest[0] .. dest[3] *)
      _ <- enc_writes_chk (N.of_nat dest_len) 0 recs ;;
      m4 <- chk_add W64 m 4 ;; _ <- (if m4 <? N.of_nat dest_len then Ok tt else Fault PIndex) ;;
      m5 <- chk_add W64 m 5 ;; _ <- (if m5 <? N.of_nat dest_len then Ok tt else Fault PIndex) ;;
      (* for i in n * 2 + 6..dest.len() { dest[i] = 0 } *)
      Ok (inl (write_words key recs ++ repeat 0 (dest_len - (length recs * 2 + 6)), total_len)).
End EncodeChk.
Definition encode_chk := encode_gen_chk total_size_chk.
Definition encode_orig_chk := encode_gen_chk total_size_orig_chk.

(* RichIter (:246-295) is modelled operation by operation, with checked arithmetic and indices, in Model/Iters.v
   (rich_next, rich_nth, rich_next_back) - nothing to add here. *)

(* =====================================================================================================
   src/base_relocs.rs (Model/Relocs.v).  [base] is the machine address of the directory's first byte.
   ===================================================================================================== *)
(* :103 peek: &*(self.data.as_ptr() as *const IMAGE_BASE_RELOCATION), from_raw_parts(image_p.offset(1) as *const u16, len).
   [addr] is the address of the iterator's current slice *)
Definition peek_chk (addr off : N) (data : list N) : res (option block) :=
  let rem := lenN data in
  if 8 <=? rem then
    _ <- ref_chk addr rem 0 IMAGE_BASE_RELOCATION_size IMAGE_BASE_RELOCATION_align ;;
    let sob := u32_at data 4 in
    let n := (N.min sob rem - 8) / 2 in
    _ <- ref_chk addr rem IMAGE_BASE_RELOCATION_size (2 * n) 2 ;;
    Ok (Some {| b_off := off; b_va := u32_at data 0; b_sob := sob; b_words := words_from data 8 (N.to_nat n) |})
  else Ok None.
(* :123 next: self.data = &self.data[block_size..] *)
Fixpoint iter_blocks_chk (fuel : nat) (base off : N) (data : list N) : res (list block) :=
  pk <- peek_chk (base + off) off data ;;
  match pk with
  | None => Ok []
  | Some b =>
    match fuel with
    | O => Fault OutOfFuel
    | S fuel' =>
      let a := advance (b_sob b) (lenN data) in
      _ <- range_chk (lenN data) a (lenN data) ;;
      rest <- iter_blocks_chk fuel' base (off + a) (skipn (N.to_nat a) data) ;;
      Ok (b :: rest)
    end
  end.
Definition blocks_chk (base : N) (data : list N) : res (list block) := iter_blocks_chk (length data) base 0 data.
(* :55 BaseRelocs::parse followed by iter_blocks: the alignment test that Model/Relocs.v leaves out *)
Definition reloc_parse_chk (base : N) (data : list N) : res (list block) :=
  if negb (aligned_to 4 base) then Err EMisaligned else blocks_chk base data.
(* what the iterator would do on a misaligned directory if parse did not refuse it (BaseRelocs::new, pub(crate) unsafe) *)
Definition fold_pairs_chk (base : N) (data : list N) : res (list (N * N)) :=
  bs <- reloc_parse_chk base data ;; Ok (fold_left fold_block bs []).

(* :219 build: [start + 0x0fff], [n += 1], [8 + 2 * n], [rva - base], [size as u32] (a cast: lossy, never a panic),
   rvas[0], rvas[n], words[i], words[n], &rvas[n..], &types[n..] *)
Definition build_size_chk (n : N) : res N :=
  a <- chk_mul W64 2 n ;; b <- chk_add W64 8 a ;; Ok (align_to W64 4 b).

(* =====================================================================================================
   src/strings.rs:81 Enumerator::next (Model/Strings.v walks the list structurally; the code indexes [bytes[i]] and
   computes [i += 1], [i - start], [i + 1], [&bytes[start..i]] on usize)
   ===================================================================================================== *)
From PV.Model Require Import Strings.
Definition str_found_chk (base len start i : N) (nul : bool) : res found :=
  _ <- range_chk len start i ;; Ok (mk base start i nul).
Fixpoint str_scan_chk (fuel : nat) (c : cfg) (base : N) (bytes : list N) (start i : N) : res (option (found * N)) :=
  if i <? lenN bytes then
    match fuel with
    | O => Fault OutOfFuel
    | S k =>
      b <- idx_chk bytes i ;;
      if is_printable b then (i1 <- chk_add W64 i 1 ;; str_scan_chk k c base bytes start i1)
      else
        let cont := (i1 <- chk_add W64 i 1 ;; str_scan_chk k c base bytes i1 i1) in
        if b =? 0 then
          d <- chk_sub i start ;;
          if min_len_nul c <=? d then
            (o <- chk_add W64 i 1 ;; f <- str_found_chk base (lenN bytes) start i true ;; Ok (Some (f, o)))
          else cont
        else if negb (strict c) then
          d <- chk_sub i start ;;
          if min_len c <=? d then
            (o <- chk_add W64 i 1 ;; f <- str_found_chk base (lenN bytes) start i false ;; Ok (Some (f, o)))
          else cont
        else cont
    end
  else if negb (start =? i) then
    if negb (strict c) then
      d <- chk_sub i start ;;
      if min_len c <=? d then (f <- str_found_chk base (lenN bytes) start i false ;; Ok (Some (f, i))) else Ok None
    else Ok None
  else Ok None.
Definition str_next_chk (c : cfg) (base : N) (bytes : list N) (offset : N) : res (option (found * N)) :=
  str_scan_chk (length (skipn (N.to_nat offset) bytes)) c base bytes offset offset.

(* pe.rs:473 rich_structure() and headers.rs check_sum: from_raw_parts(image.as_ptr() as *const u32, image.len() / 4) *)
Definition dword_view_chk (m : mem) : res unit := ref_chk (m_addr m) (m_len m) 0 (4 * (m_len m / 4)) 4.

(* =====================================================================================================
   src/pe64/headers.rs:32 check_sum (Model/Headers.v): [e_lfanew + offset_of + offset_of], [dwords[i]], the u64 sums
   of the fold, [&image[dwords.len() * 4..]], [dw[..tail.len()]], [check_sum += image.len() as u64]
   ===================================================================================================== *)
Definition step32_chk (acc dw : N) : res N :=
  a <- chk_add W64 (acc mod 4294967296) dw ;;
  c <- chk_add W64 a (acc / 4294967296) ;;
  if 4294967295 <? c then chk_add W64 (c mod 4294967296) (c / 4294967296) else Ok c.
Fixpoint sum_dwords_chk (m : mem) (skip : N) (i : N) (n : nat) (acc : N) : res N :=
  match n with
  | O => Ok acc
  | S k =>
    acc' <- (if i =? skip then Ok acc
             else (_ <- (if i <? m_len m / 4 then Ok tt else Fault PIndex) ;; step32_chk acc (rd32 m (4 * i)))) ;;
    sum_dwords_chk m skip (i + 1) k acc'
  end.
Definition check_sum_chk (f : fmt) (m : mem) : res N :=
  p1 <- chk_add W64 (e_lfanew m) (f_opt_off f) ;;
  p2 <- chk_add W64 p1 (f_csum_off f) ;;
  _ <- dword_view_chk m ;;
  acc <- sum_dwords_chk m (p2 / 4) 0 (N.to_nat (m_len m / 4)) 0 ;;
  o <- chk_mul W64 (m_len m / 4) 4 ;;
  _ <- range_chk (m_len m) o (m_len m) ;;                     (* &image[dwords.len() * 4..] *)
  acc <- (if m_len m mod 4 =? 0 then Ok acc
          else (_ <- range_chk 4 0 (m_len m - o) ;; step32_chk acc (tail_dword m))) ;;
  c1 <- chk_add W64 (acc mod 65536) (acc / 65536) ;;
  c2 <- chk_add W64 c1 (c1 / 65536) ;;
  c3 <- chk_add W64 (c2 mod 65536) (m_len m) ;;
  Ok (c3 mod W32).
