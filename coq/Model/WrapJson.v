(* Model of what `serialize_pe` (src/pe64/pe.rs:608) and the nested Serialize impls produce,
   as an abstract JSON value built from the MODEL's accessors:

     headers         src/pe64/headers.rs:104 (Headers, Details), the derived impls of src/image.rs
                     (IMAGE_DOS_HEADER, IMAGE_NT_HEADERS, IMAGE_FILE_HEADER, IMAGE_OPTIONAL_HEADER,
                     IMAGE_DATA_DIRECTORY, IMAGE_SECTION_HEADER, IMAGE_VERSION), wrap/sections.rs
                     serialize_name, stringify.rs to_str / to_strs
     rich_structure  src/rich_structure.rs:320
     exports         src/pe64/exports.rs:420 (Exports -> by().ok(), By)
     imports         src/pe64/imports.rs:263 (Imports, Desc), wrap/imports.rs Import (derived)
     base_relocs     src/base_relocs.rs:188
     debug           src/pe64/debug.rs:246 (Debug, Dir), wrap/debug.rs Entry (untagged), CodeView, Dbg,
                     Pgo, PgoItem, util/guid.rs
     tls             src/pe64/tls.rs:89        (data-encoding enabled: raw_data is base64)
     load_config     src/pe64/load_config.rs:71
     security        src/security.rs:84        (certificate_data is base64)
   The tenth member, "resources" (src/resources/mod.rs serde module), is modelled in
   Model/WrapJsonRes.v (third round): [json_of_image_full] there is the object of all ten members,
   [json_of_image] below the object of the first nine.

   serde / serde_json themselves are outside the model: a `serialize_struct` + `serialize_field`*
   + `end` is the object of its fields in order, `collect_seq` the array of its items,
   `collect_map` the object of its entries in order, `Option` is null or the value, integers are
   numbers, `collect_str(x)` is the string `x` displays as, `serialize_bytes` is the array of the
   byte values (serde_json), `#[serde(untagged)]` serializes the content, a derived enum variant
   with named fields is `{"Variant":{fields}}`.

   A member whose accessor returns an error is null (`.ok()`); a panic inside an accessor or an
   iterator aborts the whole serialization: [Fault].  [json_of_image] never returns [Err]. *)
From Coq Require Import Strings.String.
From PV.Model Require Import JsonStr.
From PV.Model Require Export Machine Mapping Views Headers Wrap WrapDirs Json WrapStrTab.
From PV.Model Require Exports Imports Dirs Relocs Rich CStrFmt.
From PV.gen Require Import Layout.

(* Result::ok() *)
Definition ok_ {A} (r : res A) : res (option A) :=
  match r with Ok a => Ok (Some a) | Err _ => Ok None | Fault f => Fault f end.
(* a member built from an `.ok()` value *)
Definition jopt_res {A} (to : A -> res json) (o : option A) : res json :=
  match o with Some x => to x | None => Ok JNull end.

Definition jn8 (m : mem) (o : N) : json := JNum (rd8 m o).
Definition jn16 (m : mem) (o : N) : json := JNum (rd16 m o).
Definition jn32 (m : mem) (o : N) : json := JNum (rd32 m o).
Definition jn64 (m : mem) (o : N) : json := JNum (rd64 m o).
(* IMAGE_VERSION<T>: Display "{Major}.{Minor}" *)
Definition jver (a b : N) : json := JStr (print_num a ++ 46 :: print_num b).
(* the bytes of a region; of a CStr region without its NUL *)
Definition rbytes (get : N -> N) (r : region) : list N := Exports.bytes_of get (r_off r) (r_len r).
Definition cbytes (get : N -> N) (r : region) : list N := Exports.bytes_of get (r_off r) (r_len r - 1).
(* Serialize for CStr: collect_str(Display) *)
Definition jcstr (bytes : list N) : res json := s <- CStrFmt.cstr_display bytes ;; Ok (JStr s).

(* stringify.rs enum1!::to_str and flags!::to_strs *)
Fixpoint tab_find (tab : list (N * list N)) (x : N) : option (list N) :=
  match tab with [] => None | (k, s) :: t => if k =? x then Some s else tab_find t x end.
Definition flag_strs (tab : list (list N)) (x : N) : list (list N) :=
  flat_map (fun i => if N.testbit x (N.of_nat i) then match nth_error tab i with Some s => [s] | None => [] end else [])
           (seq 0 (length tab)).
Definition jenum (tab : list (N * list N)) (x : N) : json := jopt JStr (tab_find tab x).
Definition jflags (tab : list (list N)) (x : N) : json := JArr (map JStr (flag_strs tab x)).

(* ================================================================ headers *)
Definition json_dos (m : mem) : json :=
  JObj [ (S_"e_magic", jn16 m IMAGE_DOS_HEADER_e_magic_off); (S_"e_cblp", jn16 m IMAGE_DOS_HEADER_e_cblp_off);
         (S_"e_cp", jn16 m IMAGE_DOS_HEADER_e_cp_off); (S_"e_crlc", jn16 m IMAGE_DOS_HEADER_e_crlc_off);
         (S_"e_cparhdr", jn16 m IMAGE_DOS_HEADER_e_cparhdr_off); (S_"e_minalloc", jn16 m IMAGE_DOS_HEADER_e_minalloc_off);
         (S_"e_maxalloc", jn16 m IMAGE_DOS_HEADER_e_maxalloc_off); (S_"e_ss", jn16 m IMAGE_DOS_HEADER_e_ss_off);
         (S_"e_sp", jn16 m IMAGE_DOS_HEADER_e_sp_off); (S_"e_csum", jn16 m IMAGE_DOS_HEADER_e_csum_off);
         (S_"e_ip", jn16 m IMAGE_DOS_HEADER_e_ip_off); (S_"e_cs", jn16 m IMAGE_DOS_HEADER_e_cs_off);
         (S_"e_lfarlc", jn16 m IMAGE_DOS_HEADER_e_lfarlc_off); (S_"e_ovno", jn16 m IMAGE_DOS_HEADER_e_ovno_off);
         (S_"e_res", JArr (map (fun i => jn16 m (IMAGE_DOS_HEADER_e_res_off + 2 * i)) (range 4)));
         (S_"e_oemid", jn16 m IMAGE_DOS_HEADER_e_oemid_off); (S_"e_oeminfo", jn16 m IMAGE_DOS_HEADER_e_oeminfo_off);
         (S_"e_res2", JArr (map (fun i => jn16 m (IMAGE_DOS_HEADER_e_res2_off + 2 * i)) (range 10)));
         (S_"e_lfanew", JNum (e_lfanew m)) ].

Definition fh_at (m : mem) : N := e_lfanew m + IMAGE_NT_HEADERS32_FileHeader_off.
Definition json_file_header (f : fmt) (m : mem) : json :=
  let o := fh_at m in
  JObj [ (S_"Machine", jn16 m (o + IMAGE_FILE_HEADER_Machine_off)); (S_"NumberOfSections", JNum (h_nsec f m));
         (S_"TimeDateStamp", jn32 m (o + IMAGE_FILE_HEADER_TimeDateStamp_off));
         (S_"PointerToSymbolTable", jn32 m (o + IMAGE_FILE_HEADER_PointerToSymbolTable_off));
         (S_"NumberOfSymbols", jn32 m (o + IMAGE_FILE_HEADER_NumberOfSymbols_off));
         (S_"SizeOfOptionalHeader", JNum (h_optsz f m));
         (S_"Characteristics", jn16 m (o + IMAGE_FILE_HEADER_Characteristics_off)) ].

Definition jver8_at (m : mem) (o : N) : json := jver (rd8 m o) (rd8 m (o + 1)).
Definition jver16_at (m : mem) (o : N) : json := jver (rd16 m o) (rd16 m (o + 2)).
Definition json_optional_header (f : fmt) (m : mem) : json :=
  let o := opt_at f m in
  if f_64 f then
    JObj [ (S_"Magic", JNum (h_magic f m)); (S_"LinkerVersion", jver8_at m (o + IMAGE_OPTIONAL_HEADER64_LinkerVersion_off));
           (S_"SizeOfCode", JNum (h_soc f m)); (S_"SizeOfInitializedData", jn32 m (o + IMAGE_OPTIONAL_HEADER64_SizeOfInitializedData_off));
           (S_"SizeOfUninitializedData", jn32 m (o + IMAGE_OPTIONAL_HEADER64_SizeOfUninitializedData_off));
           (S_"AddressOfEntryPoint", jn32 m (o + IMAGE_OPTIONAL_HEADER64_AddressOfEntryPoint_off));
           (S_"BaseOfCode", JNum (h_boc f m)); (S_"ImageBase", JNum (h_base f m));
           (S_"SectionAlignment", jn32 m (o + IMAGE_OPTIONAL_HEADER64_SectionAlignment_off));
           (S_"FileAlignment", jn32 m (o + IMAGE_OPTIONAL_HEADER64_FileAlignment_off));
           (S_"OperatingSystemVersion", jver16_at m (o + IMAGE_OPTIONAL_HEADER64_OperatingSystemVersion_off));
           (S_"ImageVersion", jver16_at m (o + IMAGE_OPTIONAL_HEADER64_ImageVersion_off));
           (S_"SubsystemVersion", jver16_at m (o + IMAGE_OPTIONAL_HEADER64_SubsystemVersion_off));
           (S_"Win32VersionValue", jn32 m (o + IMAGE_OPTIONAL_HEADER64_Win32VersionValue_off));
           (S_"SizeOfImage", JNum (h_soi f m)); (S_"SizeOfHeaders", JNum (h_soh f m));
           (S_"CheckSum", jn32 m (o + IMAGE_OPTIONAL_HEADER64_CheckSum_off));
           (S_"Subsystem", jn16 m (o + IMAGE_OPTIONAL_HEADER64_Subsystem_off));
           (S_"DllCharacteristics", jn16 m (o + IMAGE_OPTIONAL_HEADER64_DllCharacteristics_off));
           (S_"SizeOfStackReserve", jn64 m (o + IMAGE_OPTIONAL_HEADER64_SizeOfStackReserve_off));
           (S_"SizeOfStackCommit", jn64 m (o + IMAGE_OPTIONAL_HEADER64_SizeOfStackCommit_off));
           (S_"SizeOfHeapReserve", jn64 m (o + IMAGE_OPTIONAL_HEADER64_SizeOfHeapReserve_off));
           (S_"SizeOfHeapCommit", jn64 m (o + IMAGE_OPTIONAL_HEADER64_SizeOfHeapCommit_off));
           (S_"LoaderFlags", jn32 m (o + IMAGE_OPTIONAL_HEADER64_LoaderFlags_off));
           (S_"NumberOfRvaAndSizes", JNum (h_nrva f m)) ]
  else
    JObj [ (S_"Magic", JNum (h_magic f m)); (S_"LinkerVersion", jver8_at m (o + IMAGE_OPTIONAL_HEADER32_LinkerVersion_off));
           (S_"SizeOfCode", JNum (h_soc f m)); (S_"SizeOfInitializedData", jn32 m (o + IMAGE_OPTIONAL_HEADER32_SizeOfInitializedData_off));
           (S_"SizeOfUninitializedData", jn32 m (o + IMAGE_OPTIONAL_HEADER32_SizeOfUninitializedData_off));
           (S_"AddressOfEntryPoint", jn32 m (o + IMAGE_OPTIONAL_HEADER32_AddressOfEntryPoint_off));
           (S_"BaseOfCode", JNum (h_boc f m)); (S_"BaseOfData", jn32 m (o + IMAGE_OPTIONAL_HEADER32_BaseOfData_off));
           (S_"ImageBase", JNum (h_base f m));
           (S_"SectionAlignment", jn32 m (o + IMAGE_OPTIONAL_HEADER32_SectionAlignment_off));
           (S_"FileAlignment", jn32 m (o + IMAGE_OPTIONAL_HEADER32_FileAlignment_off));
           (S_"OperatingSystemVersion", jver16_at m (o + IMAGE_OPTIONAL_HEADER32_OperatingSystemVersion_off));
           (S_"ImageVersion", jver16_at m (o + IMAGE_OPTIONAL_HEADER32_ImageVersion_off));
           (S_"SubsystemVersion", jver16_at m (o + IMAGE_OPTIONAL_HEADER32_SubsystemVersion_off));
           (S_"Win32VersionValue", jn32 m (o + IMAGE_OPTIONAL_HEADER32_Win32VersionValue_off));
           (S_"SizeOfImage", JNum (h_soi f m)); (S_"SizeOfHeaders", JNum (h_soh f m));
           (S_"CheckSum", jn32 m (o + IMAGE_OPTIONAL_HEADER32_CheckSum_off));
           (S_"Subsystem", jn16 m (o + IMAGE_OPTIONAL_HEADER32_Subsystem_off));
           (S_"DllCharacteristics", jn16 m (o + IMAGE_OPTIONAL_HEADER32_DllCharacteristics_off));
           (S_"SizeOfStackReserve", jn32 m (o + IMAGE_OPTIONAL_HEADER32_SizeOfStackReserve_off));
           (S_"SizeOfStackCommit", jn32 m (o + IMAGE_OPTIONAL_HEADER32_SizeOfStackCommit_off));
           (S_"SizeOfHeapReserve", jn32 m (o + IMAGE_OPTIONAL_HEADER32_SizeOfHeapReserve_off));
           (S_"SizeOfHeapCommit", jn32 m (o + IMAGE_OPTIONAL_HEADER32_SizeOfHeapCommit_off));
           (S_"LoaderFlags", jn32 m (o + IMAGE_OPTIONAL_HEADER32_LoaderFlags_off));
           (S_"NumberOfRvaAndSizes", JNum (h_nrva f m)) ].

Definition json_nt_headers (f : fmt) (m : mem) : json :=
  JObj [ (S_"Signature", jn32 m (e_lfanew m)); (S_"FileHeader", json_file_header f m);
         (S_"OptionalHeader", json_optional_header f m) ].

Definition json_data_dir (d : N * N) : json := JObj [ (S_"VirtualAddress", JNum (fst d)); (S_"Size", JNum (snd d)) ].
Definition json_data_directory (f : fmt) (m : mem) : json := JArr (map json_data_dir (op_data_directory f m)).

(* wrap/sections.rs:145 serialize_name: parsen(name) -> str, else the 8 bytes *)
Definition json_sec_name (name : list N) : json :=
  if utf8_valid (trimn name) then JStr (trimn name) else JArr (map JNum name).
Definition sec_off (f : fmt) (m : mem) (i : N) : N := sec_table_off f m + i * IMAGE_SECTION_HEADER_size.
Definition json_section (m : mem) (o : N) : json :=
  JObj [ (S_"Name", json_sec_name (bytes_from m (o + IMAGE_SECTION_HEADER_Name_off) 8));
         (S_"VirtualSize", jn32 m (o + IMAGE_SECTION_HEADER_VirtualSize_off));
         (S_"VirtualAddress", jn32 m (o + IMAGE_SECTION_HEADER_VirtualAddress_off));
         (S_"SizeOfRawData", jn32 m (o + IMAGE_SECTION_HEADER_SizeOfRawData_off));
         (S_"PointerToRawData", jn32 m (o + IMAGE_SECTION_HEADER_PointerToRawData_off));
         (S_"PointerToRelocations", jn32 m (o + IMAGE_SECTION_HEADER_PointerToRelocations_off));
         (S_"PointerToLinenumbers", jn32 m (o + IMAGE_SECTION_HEADER_PointerToLinenumbers_off));
         (S_"NumberOfRelocations", jn16 m (o + IMAGE_SECTION_HEADER_NumberOfRelocations_off));
         (S_"NumberOfLinenumbers", jn16 m (o + IMAGE_SECTION_HEADER_NumberOfLinenumbers_off));
         (S_"Characteristics", jn32 m (o + IMAGE_SECTION_HEADER_Characteristics_off)) ].
Definition json_section_headers (f : fmt) (m : mem) : json :=
  JArr (map (fun i => json_section m (sec_off f m i)) (range (h_nsec f m))).

(* headers.rs:121 Details *)
Definition json_details (f : fmt) (m : mem) : res json :=
  let o := opt_at f m in
  let sub := rd16 m (o + (if f_64 f then IMAGE_OPTIONAL_HEADER64_Subsystem_off else IMAGE_OPTIONAL_HEADER32_Subsystem_off)) in
  let dllc := rd16 m (o + (if f_64 f then IMAGE_OPTIONAL_HEADER64_DllCharacteristics_off else IMAGE_OPTIONAL_HEADER32_DllCharacteristics_off)) in
  dds <- details_dd_sections f m ;;
  Ok (JObj [ (S_"DosHeader.e_magic", JStr (S_"MZ")); (S_"NtHeaders.Signature", JStr (S_"PE"));
             (S_"FileHeader.Machine", jenum tab_Machine (rd16 m (fh_at m + IMAGE_FILE_HEADER_Machine_off)));
             (S_"FileHeader.Characteristics", jflags tab_FileChars (rd16 m (fh_at m + IMAGE_FILE_HEADER_Characteristics_off)));
             (S_"OptionalHeader.Magic", jenum tab_OptionalMagic (h_magic f m));
             (S_"OptionalHeader.CheckSum", JNum (check_sum f m));
             (S_"OptionalHeader.Subsystem", jenum tab_Subsystem sub);
             (S_"OptionalHeader.DllCharacteristics", jflags tab_DllChars dllc);
             (S_"DataDirectory.Names", JArr (map (jenum tab_DirectoryEntry) (range (lenN (op_data_directory f m)))));
             (S_"DataDirectory.Sections", JArr (map (jopt JNum) dds));
             (S_"SectionHeaders.Characteristics",
                JArr (map (fun i => jflags tab_SectionChars (rd32 m (sec_off f m i + IMAGE_SECTION_HEADER_Characteristics_off)))
                          (range (h_nsec f m)))) ]).

Definition json_headers (f : fmt) (m : mem) : res json :=
  det <- json_details f m ;;
  Ok (JObj [ (S_"DosHeader", json_dos m); (S_"NtHeaders", json_nt_headers f m);
             (S_"DataDirectory", json_data_directory f m); (S_"SectionHeaders", json_section_headers f m);
             (S_"details", det) ]).

(* ================================================================ rich structure *)
(* pe.rs:471 the image reinterpreted as image.len() / 4 dwords *)
Definition mem_dwords (m : mem) : list N := map (fun i => rd32 m (4 * i)) (range (m_len m / 4)).
Definition json_rich_record (r : Rich.rec) : json :=
  JObj [ (S_"product", JNum (Rich.r_product r)); (S_"build", JNum (Rich.r_build r)); (S_"count", JNum (Rich.r_count r)) ].
Definition acc_rich (m : mem) : res (nat * nat) := Rich.try_from (mem_dwords m).
Definition json_rich (m : mem) : res json :=
  let img := mem_dwords m in
  ose <- ok_ (Rich.try_from img) ;;
  Ok (jopt (fun se => JObj [ (S_"xor_key", JNum (Rich.xor_key img se)); (S_"checksum", JNum (Rich.checksum img se));
                             (S_"records", JArr (map json_rich_record (Rich.records img se))) ]) ose).

(* ================================================================ exports *)
(* the filter_map of Serialize for By: names that are present and valid UTF-8, with their index *)
Fixpoint json_export_names (l : list (res (list N) * N)) : res (list (list N * json)) :=
  match l with
  | [] => Ok []
  | (Fault x, _) :: _ => Fault x
  | (Err _, _) :: t => json_export_names t
  | (Ok s, ix) :: t =>
    if utf8_valid s then rest <- json_export_names t ;; Ok ((s, JNum ix) :: rest) else json_export_names t
  end.
Definition json_by (v : view) (x : N) (t : Exports.tables) : res json :=
  let get := v_get v in
  let cstr := Exports.view_cstr v in
  dll <- ok_ (cstr (Exports.x_field get x IMAGE_EXPORT_DIRECTORY_Name_off)) ;;
  jdll <- jopt_res jcstr dll ;;
  names <- json_export_names (Exports.iter_name_indices cstr t) ;;
  Ok (JObj [ (S_"dll_name", jdll);
             (S_"time_date_stamp", JNum (Exports.x_field get x IMAGE_EXPORT_DIRECTORY_TimeDateStamp_off));
             (S_"version", jver (Exports.rd_u16 get (x + IMAGE_EXPORT_DIRECTORY_Version_off))
                                (Exports.rd_u16 get (x + IMAGE_EXPORT_DIRECTORY_Version_off + 2)));
             (S_"ordinal_base", JNum (Exports.t_base t mod W16));
             (S_"functions", JArr (map JNum (Exports.t_funcs t)));
             (S_"names", JObj names) ]).
(* pe.exports().ok() then Serialize for Exports = self.by().ok() *)
Definition acc_exports_x (f : fmt) (file : bool) (m : mem) : res N :=
  Exports.try_from (slice (pe_view f file m)) (dd_of f m IMAGE_DIRECTORY_ENTRY_EXPORT).
Definition acc_exports_by (f : fmt) (file : bool) (m : mem) (x : N) : res Exports.tables :=
  Exports.by_ (slice (pe_view f file m)) (m_get m) (dd_of f m IMAGE_DIRECTORY_ENTRY_EXPORT) x.
Definition json_exports (f : fmt) (file : bool) (m : mem) : res json :=
  ox <- ok_ (acc_exports_x f file m) ;;
  jopt_res (fun x => ot <- ok_ (acc_exports_by f file m x) ;; jopt_res (json_by (pe_view f file m) x) ot) ox.

(* ================================================================ imports *)
Definition json_import (get : N -> N) (i : Imports.import) : res json :=
  match i with
  | Imports.ByName h name =>
    s <- jcstr (cbytes get name) ;; Ok (JObj [ (S_"ByName", JObj [ (S_"hint", JNum h); (S_"name", s) ]) ])
  | Imports.ByOrdinal o => Ok (JObj [ (S_"ByOrdinal", JObj [ (S_"ord", JNum o) ]) ])
  end.
(* int.filter_map(|import| import.ok()) *)
Fixpoint json_int (get : N -> N) (l : list (res Imports.import)) : res (list json) :=
  match l with
  | [] => Ok []
  | Fault x :: _ => Fault x
  | Err _ :: t => json_int get t
  | Ok i :: t => j <- json_import get i ;; rest <- json_int get t ;; Ok (j :: rest)
  end.
Definition json_desc (p : Imports.pe) (d : Imports.desc) : res json :=
  let get := Imports.p_get p in
  dn <- ok_ (Imports.dll_name p d) ;;
  jdn <- jopt_res (fun r => jcstr (cbytes get r)) dn ;;
  oi <- ok_ (Imports.desc_int p d) ;;
  ji <- jopt_res (fun r => l <- json_int get (Imports.int_imports p r) ;; Ok (JArr l)) oi ;;
  Ok (JObj [ (S_"dll_name", jdn); (S_"int", ji) ]).
Definition json_imports (f : fmt) (file : bool) (m : mem) : res json :=
  let p := pe_of f file m in
  oi <- ok_ (Imports.imports p) ;;
  jopt_res (fun r => l <- map_res (json_desc p) (Imports.descs p r) ;; Ok (JArr l)) oi.

(* ================================================================ base relocs *)
(* BaseRelocs::for_each pushing into the two vectors *)
Definition reloc_pairs (bs : list Relocs.block) : list (N * N) :=
  flat_map (fun b => flat_map (fun w => if Relocs.type_of w =? 0 then [] else [(Relocs.rva_of (Relocs.b_va b) w, Relocs.type_of w)])
                              (Relocs.b_words b)) bs.
Definition json_base_relocs (f : fmt) (file : bool) (m : mem) : res json :=
  orr <- ok_ (acc_base_relocs f file m) ;;
  jopt_res (fun r => bs <- Relocs.blocks (rbytes (m_get m) r) ;;
                     let ps := reloc_pairs bs in
                     Ok (JObj [ (S_"rvas", JArr (map (fun p => JNum (fst p)) ps));
                                (S_"types", JArr (map (fun p => JNum (snd p)) ps)) ])) orr.

(* ================================================================ debug *)
(* {:0nx}: n lower-case hex digits, most significant first *)
Fixpoint hexn (n : nat) (x : N) : list N :=
  match n with O => [] | S k => hexn k (x / 16) ++ [hexd (x mod 16)] end.
(* util/guid.rs lower_dashed *)
Definition guid_str (get : N -> N) (o : N) : list N :=
  [123] ++ hexn 8 (Dirs.u32at get (o + GUID_Data1_off)) ++ [45] ++ hexn 4 (Dirs.u16at get (o + GUID_Data2_off)) ++ [45]
  ++ hexn 4 (Dirs.u16at get (o + GUID_Data3_off)) ++ [45]
  ++ hexn 2 (get (o + GUID_Data4_off)) ++ hexn 2 (get (o + GUID_Data4_off + 1)) ++ [45]
  ++ flat_map (fun k => hexn 2 (get (o + GUID_Data4_off + 2 + k))) (range 6) ++ [125].
Definition json_pgo_item (get : N -> N) (it : Dirs.pgo_item) : res json :=
  n <- jcstr (cbytes get (Dirs.pg_name it)) ;;
  Ok (JObj [ (S_"rva", JNum (Dirs.pg_rva it)); (S_"size", JNum (Dirs.pg_size it)); (S_"name", n) ]).
Definition json_entry (get : N -> N) (e : Dirs.entry) : res json :=
  match e with
  | Dirs.ECv20 img name =>
    n <- jcstr (cbytes get name) ;;
    Ok (JObj [ (S_"format", JStr (Exports.bytes_of get img 4)); (S_"pdb_file_name", n);
               (S_"time_date_stamp", JNum (Dirs.u32at get (img + IMAGE_DEBUG_CV_INFO_PDB20_TimeDateStamp_off)));
               (S_"age", JNum (Dirs.u32at get (img + IMAGE_DEBUG_CV_INFO_PDB20_Age_off))) ])
  | Dirs.ECv70 img name =>
    n <- jcstr (cbytes get name) ;;
    Ok (JObj [ (S_"format", JStr (Exports.bytes_of get img 4)); (S_"pdb_file_name", n);
               (S_"signature", JStr (guid_str get (img + IMAGE_DEBUG_CV_INFO_PDB70_Signature_off)));
               (S_"age", JNum (Dirs.u32at get (img + IMAGE_DEBUG_CV_INFO_PDB70_Age_off))) ])
  | Dirs.EDbg _ => Ok (JObj [])
  | Dirs.EPgo image => items <- Dirs.pgo_iter get image ;; l <- map_res (json_pgo_item get) items ;; Ok (JArr l)
  | Dirs.EUnknown None => Ok JNull
  | Dirs.EUnknown (Some r) => Ok (JArr (map JNum (rbytes get r)))
  end.
Definition json_dir (v : view) (d : Dirs.ddir) : res json :=
  let get := v_get v in
  oe <- ok_ (Dirs.dir_entry v d) ;;
  je <- jopt_res (json_entry get) oe ;;
  Ok (JObj [ (S_"type", jenum tab_DebugType (Dirs.dd_type d)); (S_"time_date_stamp", JNum (Dirs.dd_time d));
             (S_"version", jver (Dirs.u16at get (Dirs.dd_off d + IMAGE_DEBUG_DIRECTORY_Version_off))
                                (Dirs.u16at get (Dirs.dd_off d + IMAGE_DEBUG_DIRECTORY_Version_off + 2)));
             (S_"entry", je) ]).
Definition json_debug (f : fmt) (file : bool) (m : mem) : res json :=
  let v := pe_view f file m in
  od <- ok_ (op_debug f file m) ;;
  jopt_res (fun r => l <- map_res (json_dir v) (Dirs.debug_dirs v r) ;; Ok (JArr l)) od.

(* ================================================================ tls, load config, security *)
(* data_encoding::BASE64: the standard alphabet with padding *)
Definition b64c (x : N) : N :=
  if x <? 26 then 65 + x else if x <? 52 then 71 + x else if x <? 62 then x - 4 else if x =? 62 then 43 else 47.
Fixpoint base64 (l : list N) : list N :=
  match l with
  | a :: b :: c :: t =>
    b64c (a / 4) :: b64c ((a mod 4) * 16 + b / 16) :: b64c ((b mod 16) * 4 + c / 64) :: b64c (c mod 64) :: base64 t
  | [a; b] => [b64c (a / 4); b64c ((a mod 4) * 16 + b / 16); b64c ((b mod 16) * 4); 61]
  | [a] => [b64c (a / 4); b64c ((a mod 4) * 16); 61; 61]
  | [] => []
  end.
(* a &[Va] region: its elements *)
Definition va_values (v : view) (r : region) : list N :=
  map (fun k => Dirs.vaat v (r_off r + k * Dirs.va_size v)) (range (r_len r / Dirs.va_size v)).

Definition json_tls (f : fmt) (file : bool) (m : mem) : res json :=
  let v := pe_view f file m in
  ot <- ok_ (op_tls f file m) ;;
  jopt_res (fun t =>
    ord <- ok_ (Dirs.tls_raw_data v t) ;;
    ocb <- ok_ (Dirs.tls_callbacks v t) ;;
    Ok (JObj [ (S_"raw_data", jopt (fun r => JStr (base64 (rbytes (v_get v) r))) ord);
               (S_"callbacks", jopt (fun r => JArr (map JNum (va_values v r))) ocb) ])) ot.

Definition json_load_config (f : fmt) (file : bool) (m : mem) : res json :=
  let v := pe_view f file m in
  ol <- ok_ (op_load_config f file m) ;;
  jopt_res (fun t =>
    oc <- ok_ (Dirs.lc_security_cookie v t) ;;
    os <- ok_ (Dirs.lc_se_handler_table v t) ;;
    Ok (JObj [ (S_"security_cookie", jopt (fun r => JNum (Dirs.u32at (v_get v) (r_off r))) oc);
               (S_"se_handler_table", jopt (fun r => JArr (map JNum (va_values v r))) os) ])) ol.

Definition json_security (f : fmt) (file : bool) (m : mem) : res json :=
  let v := pe_view f file m in
  os <- ok_ (op_security f file m) ;;
  jopt_res (fun r =>
    data <- Dirs.certificate_data r ;;
    Ok (JObj [ (S_"certificate_type", JNum (Dirs.certificate_type (v_get v) r));
               (S_"certificate_data", JStr (base64 (rbytes (v_get v) data))) ])) os.

(* ================================================================ serialize_pe *)
Definition k_headers : list N := S_"headers".
Definition k_rich_structure : list N := S_"rich_structure".
Definition k_exports : list N := S_"exports".
Definition k_imports : list N := S_"imports".
Definition k_base_relocs : list N := S_"base_relocs".
Definition k_debug : list N := S_"debug".
Definition k_tls : list N := S_"tls".
Definition k_load_config : list N := S_"load_config".
Definition k_security : list N := S_"security".

Definition json_of_image (f : fmt) (file : bool) (m : mem) : res json :=
  jh <- json_headers f m ;;
  jr <- json_rich m ;;
  je <- json_exports f file m ;;
  ji <- json_imports f file m ;;
  jb <- json_base_relocs f file m ;;
  jd <- json_debug f file m ;;
  jt <- json_tls f file m ;;
  jl <- json_load_config f file m ;;
  js <- json_security f file m ;;
  Ok (JObj [ (k_headers, jh); (k_rich_structure, jr); (k_exports, je); (k_imports, ji); (k_base_relocs, jb);
             (k_debug, jd); (k_tls, jt); (k_load_config, jl); (k_security, js) ]).

(* Serialize for Wrap<T32, T64> is #[serde(untagged)]: the content of the variant *)
Definition wrap_json (w : wrapped) (file : bool) (m : mem) : res json := dispatch w (fun f => json_of_image f file m).
(* serde_json::to_string *)
Definition wrap_json_text (w : wrapped) (file : bool) (m : mem) : res (list N) :=
  j <- wrap_json w file m ;; Ok (print_json j).
