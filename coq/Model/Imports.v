(* Model of src/pe64/imports.rs (shared by pe32 through #[path]): Imports::try_from,
   Desc::dll_name / iat / int, import_from_va, IAT::try_from and the two iterators.
   A [pe] is a validated PeFile / PeView: the format (thunks are 32 bits wide in PE32,
   64 bits in PE32+) and the view of Model/Views.v.  The data directory is read from the
   header bytes by Model/Headers.v [data_dir] (pe.rs:643: the first
   min(NumberOfRvaAndSizes, 16) entries).  Results are regions of the buffer, as for
   every typed read; the decoded values are little-endian reads of those regions. *)
From PV.Model Require Export Machine Mapping Views Headers.
From PV.gen Require Import Layout.

Record pe := { p_f : fmt; p_v : view }.
Definition p_mem (p : pe) : mem :=
  {| m_addr := v_addr (p_v p); m_len := v_len (p_v p); m_get := v_get (p_v p) |}.
Definition p_get (p : pe) : N -> N := v_get (p_v p).

(* size_of::<Va>() = align_of::<Va>(), IMAGE_ORDINAL_FLAG *)
Definition va_bytes (p : pe) : N := if f_64 (p_f p) then 8 else 4.
Definition ordinal_flag (p : pe) : N := if f_64 (p_f p) then 9223372036854775808 else 2147483648.

(* pe.data_directory().get(i).ok_or(Error::Bounds) *)
Definition dir_entry (p : pe) (i : N) : res (N * N) :=
  match data_dir (p_f p) (p_mem p) i with Some d => Ok d | None => Err EBounds end.

(* image.rs:411 IMAGE_IMPORT_DESCRIPTOR::is_null on the little-endian value of the 20 bytes:
   FirstThunk, the dword at offset 16, is zero *)
Definition desc_is_null (x : N) : bool := x / 2 ^ (8 * IMAGE_IMPORT_DESCRIPTOR_FirstThunk_off) =? 0.

(* imports.rs:84 Imports::try_from *)
Definition imports (p : pe) : res region :=
  d <- dir_entry p IMAGE_DIRECTORY_ENTRY_IMPORT ;;
  rd_slice_f (p_get p) (slice (p_v p)) (fst d) IMAGE_IMPORT_DESCRIPTOR_size IMAGE_IMPORT_DESCRIPTOR_align desc_is_null.

(* imports.rs:172 Iter: the descriptors of the array, in order *)
Record desc := { d_oft : N; d_tds : N; d_fwd : N; d_name : N; d_ft : N }.
Definition desc_at (get : N -> N) (off i : N) : desc :=
  let o := off + i * IMAGE_IMPORT_DESCRIPTOR_size in
  {| d_oft := le_value get (o + IMAGE_IMPORT_DESCRIPTOR_OriginalFirstThunk_off) 4;
     d_tds := le_value get (o + IMAGE_IMPORT_DESCRIPTOR_TimeDateStamp_off) 4;
     d_fwd := le_value get (o + IMAGE_IMPORT_DESCRIPTOR_ForwarderChain_off) 4;
     d_name := le_value get (o + IMAGE_IMPORT_DESCRIPTOR_Name_off) 4;
     d_ft := le_value get (o + IMAGE_IMPORT_DESCRIPTOR_FirstThunk_off) 4 |}.
Definition descs (p : pe) (r : region) : list desc :=
  map (fun k => desc_at (p_get p) (r_off r) (N.of_nat k))
      (seq 0 (N.to_nat (r_len r / IMAGE_IMPORT_DESCRIPTOR_size))).

(* imports.rs:213 dll_name, :222 iat, :227 int *)
Definition dll_name (p : pe) (d : desc) : res region := rd_c_str (p_get p) (slice (p_v p)) (d_name d).
Definition thunks (p : pe) (rva : N) : res region :=
  rd_slice_s (p_get p) (slice (p_v p)) rva (va_bytes p) (va_bytes p) 0.
Definition desc_iat (p : pe) (d : desc) : res region := thunks p (d_ft d).
Definition desc_int (p : pe) (d : desc) : res region := thunks p (d_oft d).

(* the Va values of a thunk array *)
Definition thunk_at (p : pe) (r : region) (k : N) : N :=
  le_value (p_get p) (r_off r + k * va_bytes p) (N.to_nat (va_bytes p)).
Definition thunk_values (p : pe) (r : region) : list N :=
  map (fun k => thunk_at p r (N.of_nat k)) (seq 0 (N.to_nat (r_len r / va_bytes p))).

(* imports.rs:60 import_from_va (after the F38 repair: the name rva is a checked add) *)
Inductive import :=
| ByName (hint : N) (name : region)
| ByOrdinal (ord : N).
Definition import_from_va (p : pe) (va : N) : res import :=
  if N.land va (ordinal_flag p) =? 0 then
    let rva := va mod W32 in                                        (* va as Rva *)
    h <- rd (slice (p_v p)) rva 2 2 ;;                              (* pe.derva::<u16>(rva)? *)
    match checked_add W32 rva 2 with                                (* rva.checked_add(2).ok_or(Overflow)? *)
    | None => Err EOverflow
    | Some a =>
      name <- rd_c_str (p_get p) (slice (p_v p)) a ;;               (* pe.derva_c_str(..)? *)
      Ok (ByName (le_value (p_get p) (r_off h) 2) name)
    end
  else Ok (ByOrdinal (va mod W16)).                                 (* va as Ordinal *)

(* the code as it stood before the repair (F38): a plain  rva + 2 *)
Definition import_from_va_orig (p : pe) (va : N) : res import :=
  if N.land va (ordinal_flag p) =? 0 then
    let rva := va mod W32 in
    h <- rd (slice (p_v p)) rva 2 2 ;;
    a <- chk_add W32 rva 2 ;;
    name <- rd_c_str (p_get p) (slice (p_v p)) a ;;
    Ok (ByName (le_value (p_get p) (r_off h) 2) name)
  else Ok (ByOrdinal (va mod W16)).

(* imports.rs:227 int(): the name table decoded entry by entry *)
Definition int_imports (p : pe) (r : region) : list (res import) :=
  map (import_from_va p) (thunk_values p r).

(* imports.rs:129 IAT::try_from and :146 IAT::iter *)
Definition iat (p : pe) : res region :=
  d <- dir_entry p IMAGE_DIRECTORY_ENTRY_IAT ;;
  rd_slice (slice (p_v p)) (fst d) (va_bytes p) (va_bytes p) (snd d / va_bytes p).
Definition iat_iter (p : pe) (r : region) : list (N * res import) :=
  map (fun va => (va, import_from_va p va)) (thunk_values p r).
