(* Model of src/base_relocs.rs: IterBlocks::{peek,next}, Block::{rva_of,type_of},
   BaseRelocs::fold, encode_type_offset, build.  Mirrors the code operation by
   operation; [data] is the directory's bytes (the slice held by BaseRelocs). *)
From PV.Model Require Export Machine.

Record block := { b_off : N; b_va : N; b_sob : N; b_words : list N }.

(* Block::words(): n little-endian u16 starting at byte [off] of the slice *)
Fixpoint words_from (data : list N) (off : N) (n : nat) : list N :=
  match n with O => [] | S n' => u16_at data off :: words_from data (off + 2) n' end.

(* IterBlocks::peek; [data] is the iterator's current slice and [off] its distance
   from the start of the directory (kept only so that positions can be reported) *)
Definition peek (off : N) (data : list N) : option block :=
  let rem := lenN data in
  if 8 <=? rem then
    let sob := u32_at data 4 in
    Some {| b_off := off; b_va := u32_at data 0; b_sob := sob;
            b_words := words_from data 8 (N.to_nat ((N.min sob rem - 8) / 2)) |}
  else None.

(* The three lets of IterBlocks::next (after the F13 repair: clamp, align in usize, clamp) *)
Definition advance (sob rem : N) : N :=
  let bs := N.max sob 8 in
  let bs := N.min bs rem in
  N.min (align_to W64 4 bs) rem.

(* The code as it was before the repair: align_to(4) on the u32 wraps to 0 *)
Definition advance_orig (sob rem : N) : N :=
  let bs := N.max sob 8 in
  let bs := align_to W32 4 bs in
  N.min bs rem.

Section Iter.
  Variable adv : N -> N -> N.
  Fixpoint iter_blocks_gen (fuel : nat) (off : N) (data : list N) : res (list block) :=
    match peek off data with
    | None => Ok []
    | Some b =>
      match fuel with
      | O => Fault OutOfFuel
      | S fuel' =>
        let a := adv (b_sob b) (lenN data) in                   (* self.data = &self.data[a..] *)
        rest <- iter_blocks_gen fuel' (off + a) (skipn (N.to_nat a) data) ;;
        Ok (b :: rest)
      end
    end.
End Iter.

Definition iter_blocks := iter_blocks_gen advance.
Definition blocks (data : list N) : res (list block) := iter_blocks (length data) 0 data.

Definition type_of (w : N) : N := w / 4096.                     (* (word >> 12) as u8 *)
Definition rva_of (va w : N) : N := wadd32 va (w mod 4096).     (* va.wrapping_add(word & 0xfff) *)

(* BaseRelocs::fold with f = push, written as the two nested loops it is *)
Definition fold_block (acc : list (N * N)) (b : block) : list (N * N) :=
  fold_left (fun acc w => if type_of w =? 0 then acc else acc ++ [(rva_of (b_va b) w, type_of w)])
            (b_words b) acc.
Definition fold_pairs (data : list N) : res (list (N * N)) :=
  bs <- blocks data ;; Ok (fold_left fold_block bs []).

(* ---- build ---- *)
Definition encode_type_offset (base rva ty : N) : res N :=
  d <- chk_sub rva base ;; Ok ((N.lor d (ty * 4096)) mod 65536).

Fixpoint count_page (start end_ : N) (rvas : list N) : nat :=
  match rvas with
  | r :: rs => if (start <=? r) && (r <=? end_) then S (count_page start end_ rs) else O
  | [] => O
  end.
(* before the F14 repair the test was  rvas[n] < end *)
Fixpoint count_page_orig (start end_ : N) (rvas : list N) : nat :=
  match rvas with
  | r :: rs => if (start <=? r) && (r <? end_) then S (count_page_orig start end_ rs) else O
  | [] => O
  end.

Fixpoint encode_all (start : N) (rvas types : list N) : res (list N) :=
  match rvas, types with
  | r :: rs, t :: ts => w <- encode_type_offset start r t ;; ws <- encode_all start rs ts ;; Ok (w :: ws)
  | _, _ => Ok []
  end.

Section Build.
  Variable cnt : N -> N -> list N -> nat.
  Fixpoint build_gen (fuel : nat) (rvas types : list N) : res (list N) :=
    match rvas with
    | [] => Ok []
    | r0 :: _ =>
      match fuel with
      | O => Fault OutOfFuel
      | S fuel' =>
        let start := (r0 / 4096) * 4096 in                     (* rvas[0] & !0xfff *)
        end_ <- chk_add W32 start 4095 ;;
        let n := cnt start end_ rvas in
        let size := align_to W64 4 (8 + 2 * N.of_nat n) in
        ws <- encode_all start (firstn n rvas) (firstn n types) ;;
        let pad := if N.odd (N.of_nat n) then [0; 0] else [] in
        rest <- build_gen fuel' (skipn n rvas) (skipn n types) ;;
        Ok (le32 start ++ le32 (size mod W32) ++ flat_map le16 ws ++ pad ++ rest)
      end
    end.
End Build.

Definition build (rvas types : list N) : res (list N) :=
  if Nat.eqb (length rvas) (length types) then build_gen count_page (length rvas) rvas types
  else Fault PAssert.
