(* Model of src/rich_structure.rs: RichStructure::try_from, checksum, xor_key, records,
   encode, RichRecord::{decode,encode}, and RichIter (the hand-written double-ended
   iterator).  The image is the list of dwords handed over by Pe::rich_structure(). *)
From PV.Model Require Export Machine.

Definition DANS : N := 1399742788.   (* 0x536e6144 "DanS" *)
Definition RICH : N := 1751345490.   (* 0x68636952 "Rich" *)

Definition dw (l : list N) (i : nat) : N := nth i l 0.

Record rec := { r_build : N; r_product : N; r_count : N }.

(* RichRecord::decode / encode *)
Definition rdecode (key v0 v1 : N) : rec :=
  let field := N.lxor v0 key in
  {| r_build := N.land field 65535; r_product := N.land (N.shiftr field 16) 65535; r_count := N.lxor v1 key |}.
Definition rvalue (r : rec) : N := N.lor (N.shiftl (r_product r) 16) (r_build r).
Definition rencode (r : rec) (key : N) : N * N := (N.lxor (rvalue r) key, N.lxor (r_count r) key).

(* ---- try_from ---- *)
Fixpoint skip_zeros (img : list N) (e : nat) : res nat :=
  if Nat.ltb e 16 then Err EInvalid
  else match e with
       | O => Err EInvalid
       | S e' => if dw img e' =? 0 then skip_zeros img e' else Ok e
       end.

Definition header_at (img : list N) (x : N) (s : nat) : bool :=
  (dw img s =? N.lxor DANS x) && (dw img (s + 1) =? x) && (dw img (s + 2) =? x) && (dw img (s + 3) =? x).

Fixpoint find_start (fuel : nat) (img : list N) (x : N) (s : nat) : res nat :=
  match fuel with
  | O => Fault OutOfFuel
  | S f =>
    if Nat.ltb s 16 then Err EInvalid
    else if header_at img x s then Ok s
    else find_start f img x (s - 2)
  end.

(* returns (start, end): dos_stub = img[..start], image = img[start..end] *)
Definition try_from (image : list N) : res (nat * nat) :=
  match nth_error image 15 with
  | None => Err EInvalid
  | Some e_lfanew =>
    let n := N.to_nat (e_lfanew / 4) in
    if Nat.ltb (length image) n then Err EInvalid
    else
      let img := firstn n image in
      e <- skip_zeros img n ;;
      if negb (dw img (e - 2) =? RICH) then Err EBadMagic
      else
        let x := dw img (e - 1) in
        s <- find_start e img x (e - 6) ;;
        Ok (s, e)
  end.

Definition xor_key (image : list N) (se : nat * nat) : N := dw image (fst se + 1).

(* records(): RichIter over image[start+4 .. end-2] *)
Fixpoint pairs (l : list N) : list (N * N) :=
  match l with a :: b :: t => (a, b) :: pairs t | _ => [] end.
Definition body (image : list N) (se : nat * nat) : list N :=
  firstn (snd se - fst se - 6) (skipn (fst se + 4) image).
Definition records (image : list N) (se : nat * nat) : list rec :=
  map (fun p => rdecode (xor_key image se) (fst p) (snd p)) (pairs (body image se)).

(* ---- checksum ---- *)
Definition rotl32 (v n : N) : N :=
  let k := n mod 32 in (v * 2 ^ k) mod W32 + v / 2 ^ (32 - k).
Definition stub_step (acc : N * N) (dword : N) : N * N :=      (* (csum, i) *)
  let '(csum, i) := acc in
  let d := if i =? 60 then 0 else dword in
  let b0 := d mod 256 in let b1 := (d / 256) mod 256 in let b2 := (d / 65536) mod 256 in let b3 := (d / 16777216) mod 256 in
  let csum := wadd32 csum (rotl32 b0 (i + 0)) in
  let csum := wadd32 csum (rotl32 b1 (i + 1)) in
  let csum := wadd32 csum (rotl32 b2 (i + 2)) in
  let csum := wadd32 csum (rotl32 b3 (i + 3)) in
  (csum, i + 4).
Definition rec_step (csum : N) (r : rec) : N := wadd32 csum (rotl32 (rvalue r) (r_count r)).
Definition checksum_of (stub : list N) (recs : list rec) : N :=
  let csum0 := (4 * lenN stub) mod W32 in
  fold_left rec_step recs (fst (fold_left stub_step stub (csum0, 0))).
Definition checksum (image : list N) (se : nat * nat) : N :=
  checksum_of (firstn (fst se) image) (records image se).

(* ---- encode: the words written to dest[..2n+6] and the returned total_len ---- *)
Definition write_words (key : N) (recs : list rec) : list N :=
  [N.lxor DANS key; key; key; key]
  ++ flat_map (fun r => [fst (rencode r key); snd (rencode r key)]) recs
  ++ [RICH; key].
Definition encode (stub : list N) (recs : list rec) (dest_len : nat) : res (list N * N) + N :=
  let key := checksum_of stub recs in
  let n := length recs in
  let total_len := ((((key / 32) mod 3 + N.of_nat n) * 8 + 32) mod W32) / 4 in
  if Nat.ltb dest_len (n * 2 + 6) then inr total_len
  else inl (Ok (write_words key recs ++ repeat 0 (dest_len - (n * 2 + 6)), total_len)).

(* ---- RichIter: state = remaining dwords ---- *)
Definition it_next (key : N) (l : list N) : option rec * list N :=
  match l with a :: b :: t => (Some (rdecode key a b), t) | _ => (None, l) end.
Definition it_size_hint (l : list N) : nat := length l / 2.
(* nth after the F23 repair: n*2+2 computed without overflow *)
Definition it_nth (key : N) (l : list N) (n : N) : option rec * list N :=
  if (n * 2 + 2 <? W64) && (n * 2 + 2 <=? lenN l) then
    let k := N.to_nat (n * 2) in
    (Some (rdecode key (dw l k) (dw l (k + 1))), skipn (k + 2) l)
  else (None, []).
Definition it_nth_orig (key : N) (l : list N) (n : N) : res (option rec * list N) :=
  m <- chk_mul W64 n 2 ;; m2 <- chk_add W64 m 2 ;;
  if m2 <=? lenN l then Ok (Some (rdecode key (dw l (N.to_nat m)) (dw l (N.to_nat m + 1))), skipn (N.to_nat m + 2) l)
  else Ok (None, []).
Definition it_next_back (key : N) (l : list N) : option rec * list N :=
  let len := length l in
  if Nat.leb 2 len then (Some (rdecode key (dw l (len - 2)) (dw l (len - 1))), firstn (len - 2) l)
  else (None, l).
