(* Model of the utility / formatting layer that every view hands out or uses when formatting and serializing:

     src/util/wide_str.rs   WideStr (from_words, from_bytes, from_str, Deref/as_ref, to_string, PartialEq<str>)
                            and the two formatters of FmtUtf16 (Display, Debug)
     src/util/mod.rs        split_f, strn, wstrn, trimn, parsen
     src/util/guid.rs       group and the formatters lower_dashed / lower_hex / upper_hex
     src/pe64/ptr.rs        Ptr::{member, offset, at, fmt} and the four formatting traits   (pe32/ptr.rs is the same
     src/pir.rs             Pir::{offset, at, fmt}                                           file compiled with Va = u32)
     src/stringify.rs       the flags! macro (flag_str, parse_flag, to_strs) and the enum1! macro (to_str, from_str)

   Operation by operation.  Plain + - * and << are checked operations; the functions that contain one take
   [checks : bool] = "this build checks integer overflow" (true: Fault POverflow; false: the release-build
   semantics, two's complement wrap / masked shift amount).  Unchecked accesses fault with UBOob / UBAlign.
   Pieces of the Rust standard library the code calls are modelled from their documentation:
   char::decode_utf16 (the iterator's next()), char::encode_utf8 / encode_utf16, and the integer formatting
   {:x} {:X} {:#x} {:0Nx} (minimal digits, "0x" prefix, zero padding to the width).
   Output of a formatter = the list of bytes written. *)
From PV.Model Require Export Machine.

(* ------------------------------------------------------------------------------------------------ arithmetic *)

Definition arith_add (checks : bool) (w a b : N) : res N := if checks then chk_add w a b else Ok ((a + b) mod w).
Definition arith_mul (checks : bool) (w a b : N) : res N := if checks then chk_mul w a b else Ok ((a * b) mod w).
(* x << s on a [bits]-wide unsigned: the shift amount must be below the width *)
Definition arith_shl (checks : bool) (bits x s : N) : res N :=
  if s <? bits then Ok (N.shiftl x s mod 2 ^ bits)
  else if checks then Fault POverflow else Ok (N.shiftl x (s mod bits) mod 2 ^ bits).

(* a[i], &a[..n], &a[n..] *)
Definition index (l : list N) (i : N) : res N := if i <? lenN l then Ok (nth (N.to_nat i) l 0) else Fault PIndex.
Definition slice_to (l : list N) (n : N) : res (list N) := if n <=? lenN l then Ok (firstn (N.to_nat n) l) else Fault PIndex.
Definition slice_from (l : list N) (n : N) : res (list N) := if n <=? lenN l then Ok (skipn (N.to_nat n) l) else Fault PIndex.
(* a.get(s..e) *)
Definition get_range (l : list N) (s e : N) : option (list N) :=
  if (s <=? e) && (e <=? lenN l) then Some (firstn (N.to_nat (e - s)) (skipn (N.to_nat s) l)) else None.

(* ------------------------------------------------------------------------------------------------ std: chars *)

(* what char::decode_utf16 yields: Ok(char) or Err(DecodeUtf16Error { code }) *)
Inductive item := IChar (c : N) | IBad (u : N).

Definition is_utf16_surrogate (u : N) : bool := (55296 <=? u) && (u <=? 57343).      (* 0xD800..=0xDFFF *)

(* <DecodeUtf16<I> as Iterator>::next on the state (buf, rest of the underlying iterator) *)
Definition decode_next (buf : option N) (rest : list N) : option (item * option N * list N) :=
  let first := match buf with
               | Some u => Some (u, rest)
               | None => match rest with [] => None | u :: t => Some (u, t) end
               end in
  match first with
  | None => None
  | Some (u, rest) =>
    if negb (is_utf16_surrogate u) then Some (IChar u, None, rest)
    else if 56320 <=? u then Some (IBad u, None, rest)                                   (* a trailing surrogate *)
    else match rest with
         | [] => Some (IBad u, None, [])                                                 (* eof *)
         | u2 :: rest2 =>
           if (u2 <? 56320) || (57343 <? u2) then Some (IBad u, Some u2, rest2)           (* rewind: u2 is decoded next *)
           else Some (IChar (N.lor (N.shiftl (N.land u 1023) 10) (N.land u2 1023) + 65536), None, rest2)
         end
  end.

(* `for x in decode_utf16(..)` / collect: next() until None *)
Fixpoint decode_iter (fuel : nat) (buf : option N) (rest : list N) : res (list item) :=
  match fuel with
  | O => Fault OutOfFuel
  | S k =>
    match decode_next buf rest with
    | None => Ok []
    | Some (it, buf', rest') => r <- decode_iter k buf' rest' ;; Ok (it :: r)
    end
  end.
Definition decode_all (ws : list N) : res (list item) := decode_iter (S (length ws)) None ws.

(* char::encode_utf8 *)
Definition utf8_encode (c : N) : list N :=
  if c <? 128 then [c]
  else if c <? 2048 then [N.lor (N.land (N.shiftr c 6) 31) 192; N.lor (N.land c 63) 128]
  else if c <? 65536 then [N.lor (N.land (N.shiftr c 12) 15) 224; N.lor (N.land (N.shiftr c 6) 63) 128; N.lor (N.land c 63) 128]
  else [N.lor (N.land (N.shiftr c 18) 7) 240; N.lor (N.land (N.shiftr c 12) 63) 128; N.lor (N.land (N.shiftr c 6) 63) 128; N.lor (N.land c 63) 128].

(* char::encode_utf16, str::encode_utf16 *)
Definition utf16_encode (c : N) : list N :=
  if N.land c 65535 =? c then [c]
  else let c' := c - 65536 in [N.lor 55296 (N.shiftr c' 10); N.lor 56320 (N.land c' 1023)].
Definition str_encode_utf16 (cs : list N) : list N := flat_map utf16_encode cs.

(* ------------------------------------------------------------------------------------------------ std: integer formatting *)

Definition hexdigit (upper : bool) (d : N) : N := if d <? 10 then 48 + d else (if upper then 55 else 87) + d.

(* the digit loop of fmt::LowerHex / UpperHex: least significant digit first into the end of a buffer, until the
   value is zero (at least one digit) *)
Fixpoint hex_min (fuel : nat) (upper : bool) (x : N) (acc : list N) : res (list N) :=
  match fuel with
  | O => Fault OutOfFuel
  | S k =>
    let acc' := hexdigit upper (x mod 16) :: acc in
    let x' := x / 16 in
    if x' =? 0 then Ok acc' else hex_min k upper x' acc'
  end.

(* Formatter::pad_integral for a non-negative number: optional "0x"/"0X"... (the prefix of {:#x} and {:#X} is "0x"),
   and the `0` flag with a width: zeros between prefix and digits up to the width.  [width = 0]: no width given. *)
Definition fmt_hex (upper alt : bool) (width : N) (x : N) : res (list N) :=
  ds <- hex_min 32 upper x [] ;;
  let prefix := if alt then [48; 120] else [] in
  let have := lenN prefix + lenN ds in
  Ok (prefix ++ repeat 48 (N.to_nat (width - have)) ++ ds).

(* ------------------------------------------------------------------------------------------------ wide_str.rs *)

(* wide_str.rs:32 WideStr::from_words: (start of the result inside [words], the words of the result) *)
Definition from_words (words : list N) : res (option (N * list N)) :=
  match get_range words 0 1 with            (* words.get(0)? *)
  | None => Ok None
  | Some w0s =>
    w0 <- index w0s 0 ;;
    len <- chk_add W64 w0 1 ;;
    match get_range words 0 len with
    | None => Ok None
    | Some r => Ok (Some (0, r))
    end
  end.

(* `*(p as *const u16)` and slice::from_raw_parts(p, len) on the byte slice [bytes] that lives at address [addr] *)
Definition raw_read_u16 (addr : N) (bytes : list N) (off : N) : res N :=
  if negb (aligned_to 2 (addr + off)) then Fault UBAlign
  else if off + 2 <=? lenN bytes then Ok (u16_at bytes off) else Fault UBOob.
Definition raw_words (addr : N) (bytes : list N) (off len : N) : res (list N) :=
  if negb (aligned_to 2 (addr + off)) then Fault UBAlign
  else if off + 2 * len <=? lenN bytes
       then Ok (map (fun i => u16_at bytes (off + 2 * N.of_nat i)) (seq 0 (N.to_nat len)))
       else Fault UBOob.

(* wide_str.rs:54 <WideStr as FromBytes>::from_bytes: (byte offset of the result inside [bytes], its words) *)
Definition from_bytes (addr : N) (bytes : list N) : res (option (N * list N)) :=
  w0 <- raw_read_u16 addr bytes 0 ;;
  len <- chk_add W64 w0 1 ;;
  l2 <- chk_mul W64 len 2 ;;
  if lenN bytes <? l2 then Ok None
  else ws <- raw_words addr bytes 0 len ;; Ok (Some (0, ws)).

(* wide_str.rs:76 / :83 Deref and AsRef: self.words.get_unchecked(1..) *)
Definition as_ref (words : list N) : res (list N) :=
  if 1 <=? lenN words then Ok (skipn 1 words) else Fault UBOob.

(* wide_str.rs:21 WideStr::from_str; [units] = s.encode_utf16().  The result is the whole buffer. *)
Fixpoint from_str_loop (checks : bool) (tail units : list N) (n : N) : res (list N * N) :=
  match tail, units with
  | _ :: t, wc :: us =>
    n' <- arith_add checks W16 n 1 ;;
    r <- from_str_loop checks t us n' ;;
    Ok (wc :: fst r, snd r)
  | _, _ => Ok (tail, n)
  end.
Definition from_str (checks : bool) (s : list N) (buffer : list N) : res (list N) :=
  _ <- index buffer 0 ;;                              (* buffer[0] = n *)
  tail <- slice_from buffer 1 ;;                      (* buffer[1..] *)
  r <- from_str_loop checks tail (str_encode_utf16 s) 0 ;;
  Ok (snd r :: fst r).                                (* buffer[0] = n *)

(* wide_str.rs:43 to_string: collect::<Result<String, DecodeUtf16Error>>() - the UTF-8 bytes, or the first error *)
Fixpoint collect_items (its : list item) : list N + N :=
  match its with
  | [] => inl []
  | IBad u :: _ => inr u
  | IChar c :: t => match collect_items t with inl b => inl (utf8_encode c ++ b) | inr u => inr u end
  end.
Definition to_string (words : list N) : res (list N + N) :=
  r <- as_ref words ;; its <- decode_all r ;; Ok (collect_items its).

(* wide_str.rs:65 PartialEq<str>: Iterator::eq of the decoder with rhs.chars().map(Ok) *)
Fixpoint items_eq (its : list item) (cs : list N) : bool :=
  match its, cs with
  | [], [] => true
  | IChar c :: t, c' :: t' => (c =? c') && items_eq t t'
  | _, _ => false
  end.
Definition eq_str (words : list N) (cs : list N) : res bool :=
  r <- as_ref words ;; its <- decode_all r ;; Ok (items_eq its cs).

(* wide_str.rs:105 <FmtUtf16 as Display>::fmt *)
Definition display_item (it : item) : list N :=
  utf8_encode (match it with IChar c => c | IBad _ => 65533 end).       (* unwrap_or(REPLACEMENT_CHARACTER) *)
Definition fmt_display (ws : list N) : res (list N) :=
  its <- decode_all ws ;; Ok (flat_map display_item its).

(* wide_str.rs:114 <FmtUtf16 as Debug>::fmt *)
Definition debug_item (it : item) : res (list N) :=
  match it with
  | IChar c =>
    Ok (if c =? 0 then [92; 48] else if c =? 10 then [92; 110] else if c =? 13 then [92; 114]
        else if c =? 9 then [92; 116] else if c =? 34 then [92; 34] else if c =? 92 then [92; 92]
        else utf8_encode c)
  | IBad u => h <- fmt_hex false false 4 u ;; Ok ([92; 117] ++ h)          (* "\\u{:04x}" *)
  end.
Fixpoint debug_items (its : list item) : res (list N) :=
  match its with
  | [] => Ok []
  | it :: t => a <- debug_item it ;; b <- debug_items t ;; Ok (a ++ b)
  end.
Definition fmt_debug (ws : list N) : res (list N) :=
  its <- decode_all ws ;; body <- debug_items its ;; Ok ([76; 34] ++ body ++ [34]).

(* ------------------------------------------------------------------------------------------------ util/mod.rs *)

(* slice.iter().position(f) *)
Fixpoint position (p : N -> bool) (l : list N) : option N :=
  match l with
  | [] => None
  | b :: t => if p b then Some 0 else match position p t with Some i => Some (i + 1) | None => None end
  end.
(* util/mod.rs:37 split_f *)
Definition split_f (p : N -> bool) (l : list N) : res (list N * list N) :=
  let i := match position p l with Some i => i | None => lenN l end in
  a <- slice_to l i ;; b <- slice_from l i ;; Ok (a, b).
(* util/mod.rs:60 strn and :99 wstrn (the same code on bytes and on words) *)
Definition strn (buf : list N) : res (list N) := r <- split_f (fun b => b =? 0) buf ;; Ok (fst r).
Definition wstrn (buf : list N) : res (list N) := r <- split_f (fun w => w =? 0) buf ;; Ok (fst r).

(* util/mod.rs:65 trimn *)
Fixpoint trimn_loop (fuel : nat) (buf : list N) (len : N) : res N :=
  match fuel with
  | O => Fault OutOfFuel
  | S k =>
    if 0 <? len then
      i <- chk_sub len 1 ;;
      b <- index buf i ;;
      if negb (b =? 0) then Ok len
      else len' <- chk_sub len 1 ;; trimn_loop k buf len'
    else Ok len
  end.
Definition trimn (buf : list N) : res (list N) :=
  len <- trimn_loop (S (length buf)) buf (lenN buf) ;; slice_to buf len.

(* util/mod.rs:77 parsen; [valid] stands for str::from_utf8(..).is_ok() *)
Definition parsen (valid : list N -> bool) (buf : list N) : res (list N + list N) :=
  t <- trimn buf ;; Ok (if valid t then inl t else inr buf).

(* ------------------------------------------------------------------------------------------------ util/guid.rs *)

Record guid := { Data1 : N; Data2 : N; Data3 : N; Data4 : list N }.
(* the #[repr(C)] struct as it lies in an image *)
Definition guid_of_bytes (b : list N) : guid :=
  {| Data1 := u32_at b 0; Data2 := u16_at b 4; Data3 := u16_at b 6; Data4 := firstn 8 (skipn 8 b) |}.

(* guid.rs:9 group *)
Definition guid_group (g : guid) : res (N * N * N * N * N) :=
  d0 <- index (Data4 g) 0 ;; d1 <- index (Data4 g) 1 ;; d2 <- index (Data4 g) 2 ;; d3 <- index (Data4 g) 3 ;;
  d4 <- index (Data4 g) 4 ;; d5 <- index (Data4 g) 5 ;; d6 <- index (Data4 g) 6 ;; d7 <- index (Data4 g) 7 ;;
  let g4 := N.lor (N.shiftl d0 8 mod W16) d1 in
  let g5 := N.lor (N.lor (N.lor (N.lor (N.lor (N.shiftl d2 40 mod W64) (N.shiftl d3 32 mod W64)) (N.shiftl d4 24 mod W64))
                                (N.shiftl d5 16 mod W64)) (N.shiftl d6 8 mod W64)) (N.shiftl d7 0 mod W64) in
  Ok (Data1 g, Data2 g, Data3 g, g4, g5).

Definition guid_fmt (upper dashed : bool) (g : guid) : res (list N) :=
  gr <- guid_group g ;;
  let '(g1, g2, g3, g4, g5) := gr in
  a <- fmt_hex upper false 8 g1 ;; b <- fmt_hex upper false 4 g2 ;; c <- fmt_hex upper false 4 g3 ;;
  d <- fmt_hex upper false 4 g4 ;; e <- fmt_hex upper false 12 g5 ;;
  Ok (if dashed then [123] ++ a ++ [45] ++ b ++ [45] ++ c ++ [45] ++ d ++ [45] ++ e ++ [125]
      else a ++ b ++ c ++ d ++ e).
Definition guid_lower_dashed := guid_fmt false true.       (* Display and Debug *)
Definition guid_lower_hex := guid_fmt false false.         (* LowerHex *)
Definition guid_upper_hex := guid_fmt true false.          (* UpperHex *)

(* ------------------------------------------------------------------------------------------------ ptr.rs, pir.rs *)

(* [bits] = 8 * size_of::<Va>() : 32 for pe32::Ptr and Pir, 64 for pe64::Ptr *)
(* ptr.rs:35 Ptr::member(va, offset: u32) *)
Definition ptr_member (checks : bool) (bits va offset : N) : res N := arith_add checks (2 ^ bits) va offset.
(* ptr.rs:66 Ptr::offset and pir.rs:32 Pir::offset; [so] = `offset as Va`, the two's complement image of the signed offset *)
Definition ptr_offset (bits va so : N) : N := (va + so) mod 2 ^ bits.
(* ptr.rs:98 Ptr::at and pir.rs:62 Pir::at: self.va + (i * size_of::<T>()) as Va *)
Definition ptr_at (checks : bool) (bits va i size : N) : res N :=
  p <- arith_mul checks W64 i size ;;
  arith_add checks (2 ^ bits) va (p mod 2 ^ bits).

Definition rotl4 (bits x : N) : N := N.lor (N.shiftl x 4 mod 2 ^ bits) (N.shiftr x (bits - 4)).
Definition set_nth (l : list N) (i v : N) : res (list N) :=
  if i <? lenN l then Ok (firstn (N.to_nat i) l ++ v :: skipn (N.to_nat (i + 1)) l) else Fault PIndex.

(* ptr.rs:76 / pir.rs:41 fmt(): the loop `for i in 0..size_of::<Va>() * 2` *)
Fixpoint ptr_fmt_loop (bits : N) (k : nat) (i : N) (va : N) (s : list N) : res (list N) :=
  match k with
  | O => Ok s
  | S k' =>
    let va := rotl4 bits va in
    let digit := N.land va 15 in
    chr <- (if digit <? 10 then chk_add W8 48 digit else d <- chk_sub digit 10 ;; chk_add W8 97 d) ;;
    idx <- chk_add W64 i 2 ;;
    s' <- set_nth s idx chr ;;
    ptr_fmt_loop bits k' (i + 1) va s'
  end.
Definition ptr_fmt (bits : N) (va : N) : res (list N) :=
  n <- chk_mul W64 (bits / 8) 2 ;;
  len <- chk_add W64 n 2 ;;
  let s := repeat 0 (N.to_nat len) in
  s <- set_nth s 0 48 ;;
  s <- set_nth s 1 120 ;;
  ptr_fmt_loop bits (N.to_nat n) 0 va s.
(* Display and Debug write fmt(); LowerHex / UpperHex forward the formatter to the integer *)
Definition ptr_display := ptr_fmt.
Definition ptr_hex (upper alt : bool) (width : N) (va : N) : res (list N) := fmt_hex upper alt width va.

(* ------------------------------------------------------------------------------------------------ stringify.rs *)

Definition name := list N.
Fixpoint name_eqb (a b : name) : bool :=
  match a, b with
  | [], [] => true
  | x :: a', y :: b' => (x =? y) && name_eqb a' b'
  | _, _ => false
  end.

(* flags!: rows (bit index, name = stringify!(constant), value of the constant) *)
Definition flag_table := list (N * name * N).
(* stringify.rs:60 flag_str: the first arm that matches *)
Fixpoint flag_str (t : flag_table) (index : N) : option name :=
  match t with
  | [] => None
  | (i, nm, _) :: r => if i =? index then Some nm else flag_str r index
  end.
(* stringify.rs:74 parse_flag *)
Fixpoint parse_flag (t : flag_table) (s : name) : option N :=
  match t with
  | [] => None
  | (_, nm, v) :: r => if name_eqb nm s then Some v else parse_flag r s
  end.
(* stringify.rs:81 to_strs, collected: (0..size_of::<ty>() as u32 * 8).filter_map(..) *)
Fixpoint to_strs_loop (checks : bool) (bits : N) (t : flag_table) (x : N) (k : nat) (i : N) : res (list name) :=
  match k with
  | O => Ok []
  | S k' =>
    m <- arith_shl checks bits 1 i ;;
    rest <- to_strs_loop checks bits t x k' (i + 1) ;;
    Ok (if negb (N.land x m =? 0)
        then match flag_str t i with Some s => s :: rest | None => rest end
        else rest)
  end.
Definition to_strs (checks : bool) (size : N) (t : flag_table) (x : N) : res (list name) :=
  n <- arith_mul checks W32 size 8 ;;
  to_strs_loop checks n t x (N.to_nat n) 0.

(* enum1!: rows (value of the constant, name = stringify!(constant)) *)
Definition enum_table := list (N * name).
(* stringify.rs:24 to_str and :41 from_str: the first arm that matches *)
Fixpoint enum_to_str (t : enum_table) (v : N) : option name :=
  match t with
  | [] => None
  | (k, nm) :: r => if k =? v then Some nm else enum_to_str r v
  end.
Fixpoint enum_from_str (t : enum_table) (s : name) : option N :=
  match t with
  | [] => None
  | (k, nm) :: r => if name_eqb nm s then Some k else enum_from_str r s
  end.

(* ---- the tables of stringify.rs, transcribed (values from src/image.rs).  The correspondence check compares every
   row with the real flag_str / parse_flag / to_str / from_str; Proofs/UtilProofs.v compares the values with the
   constants generated from src/image.rs (coq/gen/Consts.v). *)
From Coq Require Import String Ascii.
Fixpoint bytes_of_string (s : string) : list N :=
  match s with EmptyString => [] | String a r => N_of_ascii a :: bytes_of_string r end.
Definition mk_flags (l : list (N * string * N)) : flag_table := map (fun r => (fst (fst r), bytes_of_string (snd (fst r)), snd r)) l.
Definition mk_enum (l : list (N * string)) : enum_table := map (fun r => (fst r, bytes_of_string (snd r))) l.

Section Tables.
Local Open Scope string_scope.

Definition file_chars_table : flag_table := Eval vm_compute in mk_flags
  [ (0, "IMAGE_FILE_RELOCS_STRIPPED", 1); (1, "IMAGE_FILE_EXECUTABLE_IMAGE", 2); (2, "IMAGE_FILE_LINE_NUMS_STRIPPED", 4);
    (3, "IMAGE_FILE_LOCAL_SYMS_STRIPPED", 8); (4, "IMAGE_FILE_AGGRESIVE_WS_TRIM", 16); (5, "IMAGE_FILE_LARGE_ADDRESS_AWARE", 32);
    (6, "IMAGE_FILE_6", 64); (7, "IMAGE_FILE_BYTES_REVERSED_LO", 128); (8, "IMAGE_FILE_32BIT_MACHINE", 256);
    (9, "IMAGE_FILE_DEBUG_STRIPPED", 512); (10, "IMAGE_FILE_REMOVABLE_RUN_FROM_SWAP", 1024); (11, "IMAGE_FILE_NET_RUN_FROM_SWAP", 2048);
    (12, "IMAGE_FILE_SYSTEM", 4096); (13, "IMAGE_FILE_DLL", 8192); (14, "IMAGE_FILE_UP_SYSTEM_ONLY", 16384);
    (15, "IMAGE_FILE_BYTES_REVERSED_HI", 32768) ]%N.

Definition dll_chars_table : flag_table := Eval vm_compute in mk_flags
  [ (0, "IMAGE_DLLCHARACTERISTICS_0", 1); (1, "IMAGE_DLLCHARACTERISTICS_1", 2); (2, "IMAGE_DLLCHARACTERISTICS_2", 4);
    (3, "IMAGE_DLLCHARACTERISTICS_3", 8); (4, "IMAGE_DLLCHARACTERISTICS_4", 16); (5, "IMAGE_DLLCHARACTERISTICS_HIGH_ENTROPY_VA", 32);
    (6, "IMAGE_DLLCHARACTERISTICS_DYNAMIC_BASE", 64); (7, "IMAGE_DLLCHARACTERISTICS_FORCE_INTEGRITY", 128);
    (8, "IMAGE_DLLCHARACTERISTICS_NX_COMPAT", 256); (9, "IMAGE_DLLCHARACTERISTICS_NO_ISOLATION", 512);
    (10, "IMAGE_DLLCHARACTERISTICS_NO_SEH", 1024); (11, "IMAGE_DLLCHARACTERISTICS_NO_BIND", 2048);
    (12, "IMAGE_DLLCHARACTERISTICS_APPCONTAINER", 4096); (13, "IMAGE_DLLCHARACTERISTICS_WDM_DRIVER", 8192);
    (14, "IMAGE_DLLCHARACTERISTICS_GUARD_CF", 16384); (15, "IMAGE_DLLCHARACTERISTICS_TERMINAL_SERVER_AWARE", 32768) ]%N.

Definition section_chars_table : flag_table := Eval vm_compute in mk_flags
  [ (0, "IMAGE_SCN_0", 1); (1, "IMAGE_SCN_1", 2); (2, "IMAGE_SCN_2", 4); (3, "IMAGE_SCN_TYPE_NO_PAD", 8); (4, "IMAGE_SCN_4", 16);
    (5, "IMAGE_SCN_CNT_CODE", 32); (6, "IMAGE_SCN_CNT_INITIALIZED_DATA", 64); (7, "IMAGE_SCN_CNT_UNINITIALIZED_DATA", 128);
    (8, "IMAGE_SCN_LNK_OTHER", 256); (9, "IMAGE_SCN_LNK_INFO", 512); (10, "IMAGE_SCN_10", 1024); (11, "IMAGE_SCN_LNK_REMOVE", 2048);
    (12, "IMAGE_SCN_LNK_COMDAT", 4096); (13, "IMAGE_SCN_13", 8192); (14, "IMAGE_SCN_NO_DEFER_SPEC_EXC", 16384);
    (15, "IMAGE_SCN_GPREL", 32768); (16, "IMAGE_SCN_16", 65536); (17, "IMAGE_SCN_MEM_PURGEABLE", 131072);
    (18, "IMAGE_SCN_MEM_LOCKED", 262144); (19, "IMAGE_SCN_MEM_PRELOAD", 524288); (20, "IMAGE_SCN_ALIGN_1", 1048576);
    (21, "IMAGE_SCN_ALIGN_2", 2097152); (22, "IMAGE_SCN_ALIGN_4", 4194304); (23, "IMAGE_SCN_ALIGN_8", 8388608);
    (24, "IMAGE_SCN_LNK_NRELOC_OVFL", 16777216); (25, "IMAGE_SCN_MEM_DISCARDABLE", 33554432); (26, "IMAGE_SCN_MEM_NOT_CACHED", 67108864);
    (27, "IMAGE_SCN_MEM_NOT_PAGED", 134217728); (28, "IMAGE_SCN_MEM_SHARED", 268435456); (29, "IMAGE_SCN_MEM_EXECUTE", 536870912);
    (30, "IMAGE_SCN_MEM_READ", 1073741824); (31, "IMAGE_SCN_MEM_WRITE", 2147483648) ]%N.

Definition machine_table : enum_table := Eval vm_compute in mk_enum
  [ (332, "IMAGE_FILE_MACHINE_I386"); (34404, "IMAGE_FILE_MACHINE_AMD64"); (512, "IMAGE_FILE_MACHINE_IA64") ]%N.
Definition optional_magic_table : enum_table := Eval vm_compute in mk_enum
  [ (267, "IMAGE_NT_OPTIONAL_HDR32_MAGIC"); (523, "IMAGE_NT_OPTIONAL_HDR64_MAGIC"); (263, "IMAGE_ROM_OPTIONAL_HDR_MAGIC") ]%N.
Definition subsystem_table : enum_table := Eval vm_compute in mk_enum
  [ (0, "IMAGE_SUBSYSTEM_UNKNOWN"); (1, "IMAGE_SUBSYSTEM_NATIVE"); (2, "IMAGE_SUBSYSTEM_WINDOWS_GUI"); (3, "IMAGE_SUBSYSTEM_WINDOWS_CUI");
    (5, "IMAGE_SUBSYSTEM_OS2_CUI"); (7, "IMAGE_SUBSYSTEM_POSIX_CUI"); (8, "IMAGE_SUBSYSTEM_NATIVE_WINDOWS");
    (9, "IMAGE_SUBSYSTEM_WINDOWS_CE_GUI"); (10, "IMAGE_SUBSYSTEM_EFI_APPLICATION"); (11, "IMAGE_SUBSYSTEM_EFI_BOOT_SERVICE_DRIVER");
    (12, "IMAGE_SUBSYSTEM_EFI_RUNTIME_DRIVER"); (13, "IMAGE_SUBSYSTEM_EFI_ROM"); (14, "IMAGE_SUBSYSTEM_XBOX");
    (16, "IMAGE_SUBSYSTEM_WINDOWS_BOOT_APPLICATION") ]%N.
Definition directory_entry_table : enum_table := Eval vm_compute in mk_enum
  [ (0, "IMAGE_DIRECTORY_ENTRY_EXPORT"); (1, "IMAGE_DIRECTORY_ENTRY_IMPORT"); (2, "IMAGE_DIRECTORY_ENTRY_RESOURCE");
    (3, "IMAGE_DIRECTORY_ENTRY_EXCEPTION"); (4, "IMAGE_DIRECTORY_ENTRY_SECURITY"); (5, "IMAGE_DIRECTORY_ENTRY_BASERELOC");
    (6, "IMAGE_DIRECTORY_ENTRY_DEBUG"); (7, "IMAGE_DIRECTORY_ENTRY_ARCHITECTURE"); (8, "IMAGE_DIRECTORY_ENTRY_GLOBALPTR");
    (9, "IMAGE_DIRECTORY_ENTRY_TLS"); (10, "IMAGE_DIRECTORY_ENTRY_LOAD_CONFIG"); (11, "IMAGE_DIRECTORY_ENTRY_BOUND_IMPORT");
    (12, "IMAGE_DIRECTORY_ENTRY_IAT"); (13, "IMAGE_DIRECTORY_ENTRY_DELAY_IMPORT"); (14, "IMAGE_DIRECTORY_ENTRY_COM_DESCRIPTOR") ]%N.
Definition resource_name_table : enum_table := Eval vm_compute in mk_enum
  [ (1, "RT_CURSOR"); (2, "RT_BITMAP"); (3, "RT_ICON"); (4, "RT_MENU"); (5, "RT_DIALOG"); (6, "RT_STRING"); (7, "RT_FONTDIR");
    (8, "RT_FONT"); (9, "RT_ACCELERATOR"); (10, "RT_RCDATA"); (11, "RT_MESSAGETABLE"); (12, "RT_GROUP_CURSOR"); (14, "RT_GROUP_ICON");
    (16, "RT_VERSION"); (17, "RT_DLGINCLUDE"); (19, "RT_PLUGPLAY"); (20, "RT_VXD"); (21, "RT_ANICURSOR"); (22, "RT_ANIICON");
    (23, "RT_HTML"); (24, "RT_MANIFEST") ]%N.
Definition reloc_type_table : enum_table := Eval vm_compute in mk_enum
  [ (0, "IMAGE_REL_BASED_ABSOLUTE"); (1, "IMAGE_REL_BASED_HIGH"); (2, "IMAGE_REL_BASED_LOW"); (3, "IMAGE_REL_BASED_HIGHLOW");
    (4, "IMAGE_REL_BASED_HIGHADJ"); (5, "IMAGE_REL_BASED_MACHINE_SPECIFIC_5"); (7, "IMAGE_REL_BASED_MACHINE_SPECIFIC_7");
    (9, "IMAGE_REL_BASED_MACHINE_SPECIFIC_9"); (10, "IMAGE_REL_BASED_DIR64") ]%N.
Definition unwind_op_table : enum_table := Eval vm_compute in mk_enum
  [ (0, "UWOP_PUSH_NONVOL"); (1, "UWOP_ALLOC_LARGE"); (2, "UWOP_ALLOC_SMALL"); (3, "UWOP_SET_FPREG"); (4, "UWOP_SAVE_NONVOL");
    (5, "UWOP_SAVE_NONVOL_FAR"); (8, "UWOP_SAVE_XMM128"); (9, "UWOP_SAVE_XMM128_FAR"); (10, "UWOP_PUSH_MACHFRAME") ]%N.
Definition unwind_flag_table : enum_table := Eval vm_compute in mk_enum
  [ (0, "UNW_FLAG_NHANDLER"); (1, "UNW_FLAG_EHANDLER"); (2, "UNW_FLAG_UHANDLER"); (3, "UNW_FLAG_FHANDLER"); (4, "UNW_FLAG_CHAININFO") ]%N.
Definition debug_type_table : enum_table := Eval vm_compute in mk_enum
  [ (0, "IMAGE_DEBUG_TYPE_UNKNOWN"); (1, "IMAGE_DEBUG_TYPE_COFF"); (2, "IMAGE_DEBUG_TYPE_CODEVIEW"); (3, "IMAGE_DEBUG_TYPE_FPO");
    (4, "IMAGE_DEBUG_TYPE_MISC"); (5, "IMAGE_DEBUG_TYPE_EXCEPTION"); (6, "IMAGE_DEBUG_TYPE_FIXUP"); (7, "IMAGE_DEBUG_TYPE_OMAP_TO_SRC");
    (8, "IMAGE_DEBUG_TYPE_OMAP_FROM_SRC"); (9, "IMAGE_DEBUG_TYPE_BORLAND"); (10, "IMAGE_DEBUG_TYPE_RESERVED10"); (11, "IMAGE_DEBUG_TYPE_CLSID");
    (12, "IMAGE_DEBUG_TYPE_VC_FEATURE"); (13, "IMAGE_DEBUG_TYPE_POGO"); (14, "IMAGE_DEBUG_TYPE_ILTCG"); (15, "IMAGE_DEBUG_TYPE_MPX");
    (16, "IMAGE_DEBUG_TYPE_REPRO") ]%N.
End Tables.
