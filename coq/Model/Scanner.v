(* Model of the pattern scanner of src/pe64/scanner.rs (shared by pe32):
   Matches::{setup, strategy, strategy0, strategy1, strategy2, next, next_section} and Scanner::finds,
   on top of the interpreter model of Model/Exec.v (Scanner::exec on a view = ScanView.view_exec).

   The state of a [Matches] value is [mstate]: the remaining range and the performance counter.
   The strategies are written over an abstract interpreter [ex cursor save] and the image bytes [get];
   a slice handed to a strategy is (off, slen): the bytes image[off .. off+slen].
   Every plain u32 [+ -] is a checked operation (debug semantics): overflow is [Fault POverflow]. *)
From PV.Model Require Export Machine Mapping Views Pattern Exec ScanView.

Definition QS_BUF_LEN : nat := 16.

(* scanner.rs:446 setup: the literal prefix; [room] = QS_BUF_LEN - qslen *)
Fixpoint setup_aux (pat : list atom) (room : nat) : list N :=
  match pat with
  | Byte b :: t => match room with O => [] | S r => b :: setup_aux t r end
  | Save _ :: t => setup_aux t room
  | Aligned _ :: t => setup_aux t room
  | Nop :: t => setup_aux t room
  | _ => []
  end.
Definition setup (pat : list atom) : list N := setup_aux pat QS_BUF_LEN.

Record mstate := { m_start : N; m_end : N; m_hits : N }.       (* range.start, range.end, hits *)
Definition with_start (st : mstate) (s : N) : mstate := {| m_start := s; m_end := m_end st; m_hits := m_hits st |}.
Definition with_hits (st : mstate) (h : N) : mstate := {| m_start := m_start st; m_end := m_end st; m_hits := h |}.

(* (returned bool, the Matches value after the call, the caller's save array after the call) *)
Definition sres := (bool * mstate * list N)%type.

(* tbuf == qsbuf, for tbuf = image[off .. off + |qs|] *)
Fixpoint slice_eq (get : N -> N) (off : N) (qs : list N) : bool :=
  match qs with
  | [] => true
  | b :: t => (get off =? b) && slice_eq get (off + 1) t
  end.

(* scanner.rs:525 the jump table of strategy2: [qslen as u8; 256], then for i in 0..qslen-1: jumps[qsbuf[i]] = qslen - i - 1
   (u8 arithmetic; exact because i < qslen - 1 <= 15).  [i] counts the entries already processed, [n] those left. *)
Definition jset (t : N -> N) (k v : N) : N -> N := fun x => if x =? k then v else t x.
Fixpoint jumps_loop (qslen : N) (qs : list N) (i : N) (n : nat) (t : N -> N) : N -> N :=
  match n, qs with
  | S n', b :: rest => jumps_loop qslen rest (i + 1) n' (jset t b (qslen - i - 1))
  | _, _ => t
  end.
Definition jumps (qs : list N) : N -> N :=
  jumps_loop (lenN qs) qs 0 (length qs - 1) (fun _ => lenN qs).

Section Strategies.
  Variable ex : N -> list N -> res (bool * list N).     (* self.scanner.exec(cursor, self.pat, save) *)
  Variable get : N -> N.                                (* image[i] *)

  (* ---- strategy0: brute force.  [endp] is the local `end`. ---- *)
  Fixpoint strategy0_loop (fuel : nat) (endp : N) (st : mstate) (save : list N) : res sres :=
    match fuel with
    | O => Fault OutOfFuel
    | S f =>
      if m_start st <? endp then
        let cursor := m_start st in
        h <- chk_add W32 (m_hits st) 1 ;;
        s <- chk_add W32 (m_start st) 1 ;;
        let st' := {| m_start := s; m_end := m_end st; m_hits := h |} in
        r <- ex cursor save ;;
        let '(ok, save') := r in
        if ok then Ok (true, st', save') else strategy0_loop f endp st' save'
      else Ok (false, st, save)
    end.
  Definition strategy0 (slen : N) (st : mstate) (save : list N) : res sres :=
    endp <- chk_add W32 (m_start st) (slen mod W32) ;;               (* slice.len() as u32 *)
    strategy0_loop (S (N.to_nat slen)) endp st save.

  (* ---- strategy1: candidates are the positions of the first prefix byte; walks the slice ---- *)
  Fixpoint strategy1_loop (n : nat) (byte off slen i : N) (st : mstate) (save : list N) : res sres :=
    match n with
    | O => s <- chk_add W32 (m_start st) (slen mod W32) ;; Ok (false, with_start st s, save)
    | S n' =>
      if get (off + i) =? byte then
        h <- chk_add W32 (m_hits st) 1 ;;
        let st1 := with_hits st h in
        cursor <- chk_add W32 (m_start st1) (i mod W32) ;;          (* i as u32 *)
        r <- ex cursor save ;;
        let '(ok, save') := r in
        if ok then s <- chk_add W32 cursor 1 ;; Ok (true, with_start st1 s, save')
        else strategy1_loop n' byte off slen (i + 1) st1 save'
      else strategy1_loop n' byte off slen (i + 1) st save
    end.
  Definition strategy1 (qs : list N) (off slen : N) (st : mstate) (save : list N) : res sres :=
    match qs with
    | [] => Fault PIndex                                              (* qsbuf[0] *)
    | byte :: _ => strategy1_loop (N.to_nat slen) byte off slen 0 st save
    end.

  (* ---- strategy2: quick search on the prefix ---- *)
  Fixpoint strategy2_loop (fuel : nat) (qs : list N) (qslen lastb : N) (jmp : N -> N) (off slen i : N)
           (st : mstate) (save : list N) : res sres :=
    match fuel with
    | O => Fault OutOfFuel
    | S f =>
      if i + qslen <=? slen then
        (* tbuf = &slice[i..i + qslen] is in bounds by the loop condition *)
        let last := get (off + i + (qslen - 1)) in
        let jump := jmp last in
        if (lastb =? last) && slice_eq get (off + i) qs then
          h <- chk_add W32 (m_hits st) 1 ;;
          let st1 := with_hits st h in
          cursor <- chk_add W32 (m_start st1) (i mod W32) ;;
          r <- ex cursor save ;;
          let '(ok, save') := r in
          if ok then s <- chk_add W32 cursor jump ;; Ok (true, with_start st1 s, save')
          else strategy2_loop f qs qslen lastb jmp off slen (i + jump) st1 save'
        else strategy2_loop f qs qslen lastb jmp off slen (i + jump) st save
      else s <- chk_add W32 (m_start st) (slen mod W32) ;; Ok (false, with_start st s, save)
    end.
  Definition strategy2 (qs : list N) (off slen : N) (st : mstate) (save : list N) : res sres :=
    let qslen := lenN qs in
    m1 <- chk_sub qslen 1 ;;                                          (* 0..qslen - 1 *)
    let jmp := jumps qs in
    strategy2_loop (S (N.to_nat slen)) qs qslen (nth (N.to_nat m1) qs 0) jmp off slen 0 st save.

  (* scanner.rs:468 strategy *)
  Definition strategy (qs : list N) (off slen : N) (st : mstate) (save : list N) : res sres :=
    if lenN qs =? 0 then strategy0 slen st save
    else if lenN qs <? 4 then strategy1 qs off slen st save
    else strategy2 qs off slen st save.

  (* scanner.rs:577 next_section, after the F9 repair: the offsets are computed in usize relative to the slice and an
     empty or inverted window returns false instead of indexing.  [sl] is where the slice lies in the image. *)
  Definition next_section (qs : list N) (base : N) (sl : region) (st : mstate) (save : list N) : res sres :=
    let st := with_start st (N.max base (m_start st)) in
    so <- chk_sub (m_start st) base ;;
    e <- chk_sub (m_end st) base ;;
    let eo := N.min (r_len sl) e in
    if eo <=? so then Ok (false, st, save)
    else strategy qs (r_off sl + so) (eo - so) st save.

  (* the code as it stood (F9): `base + slice.len() as u32` may overflow and &slice[start..end] may be out of order *)
  Definition next_section_orig (qs : list N) (base : N) (sl : region) (st : mstate) (save : list N) : res sres :=
    let st := with_start st (N.max base (m_start st)) in
    so <- chk_sub (m_start st) base ;;
    bl <- chk_add W32 base (r_len sl mod W32) ;;
    eo <- chk_sub (N.min bl (m_end st)) base ;;
    if eo <? so then Fault PSliceOrder
    else if r_len sl <? eo then Fault PIndex
    else strategy qs (r_off sl + so) (eo - so) st save.

  (* scanner.rs:561 the loop over the section headers of a file view; [nsec] is next_section or next_section_orig *)
  Fixpoint next_file (nsec : list N -> N -> region -> mstate -> list N -> res sres)
           (len : N) (qs : list N) (secs : list section) (st : mstate) (save : list N) : res sres :=
    match secs with
    | [] => Ok (false, st, save)
    | s :: rest =>
      if (s_va s <? m_end st) && (m_start st <? wadd32 (s_va s) (s_vs s)) then
        match get_range len (s_prd s) (wadd32 (s_prd s) (s_srd s)) with
        | Some sl =>
          r <- nsec qs (s_va s) sl st save ;;
          let '(ok, st', save') := r in
          if ok then Ok r else next_file nsec len qs rest st' save'
        | None => next_file nsec len qs rest st save
        end
      else next_file nsec len qs rest st save
    end.
End Strategies.

(* scanner.rs:553 Matches::next on a view *)
Definition next_with (orig : bool) (v : view) (pat : list atom) (st : mstate) (save : list N) : res sres :=
  let qs := setup pat in
  let ex := view_exec v pat in
  let nsec := if orig then next_section_orig ex (v_get v) else next_section ex (v_get v) in
  if v_file v then next_file nsec (v_len v) qs (v_secs v) st save
  else nsec qs 0 {| r_off := 0; r_len := v_len v |} st save.
Definition next := next_with false.
Definition next_orig := next_with true.

(* scanner.rs:90 matches *)
Definition matches (rstart rend : N) : mstate := {| m_start := rstart; m_end := rend; m_hits := 0 |}.

(* scanner.rs:70 finds: the second probe runs on the empty slice save[..0] and leaves the caller's array alone *)
Definition finds (v : view) (pat : list atom) (rstart rend : N) (save : list N) : res (bool * list N) :=
  r <- next v pat (matches rstart rend) save ;;
  let '(ok, st, save1) := r in
  if negb ok then Ok (false, save1)
  else
    r2 <- next v pat st [] ;;
    let '(ok2, _, _) := r2 in
    Ok (negb ok2, save1).

(* `while matches.next(&mut save) { record }`: every call's outcome until the first false, at most [n] calls *)
Fixpoint iterate (n : nat) (v : view) (pat : list atom) (st : mstate) (save : list N) : res (list sres) :=
  match n with
  | O => Ok []
  | S n' =>
    r <- next v pat st save ;;
    let '(ok, st', save') := r in
    if ok then t <- iterate n' v pat st' save' ;; Ok (r :: t) else Ok [r]
  end.
