(* Model of src/resources/{mod.rs,find.rs,group.rs,art.rs} and of Pe::resources() (src/pe64/pe.rs).

   A resource section is what a [Resources] value holds: the bytes (machine address of byte 0,
   length, contents) and the VirtualAddress of the resource data directory.  Borrowed structures
   are represented by their offset inside the section (a Directory, a DirectoryEntry, a DataEntry
   are offsets; a byte slice is a [region]), which is also what the harness prints (pointer minus
   section base).  Bit tests on u32 fields are written arithmetically:
     x & 0x80000000 != 0   is   2^31 <=? x        x & !0x80000000   is   x - 2^31   (in that case). *)
From PV.Model Require Export Machine Mapping Views.

Record rsec := { rs_addr : N; rs_len : N; rs_get : N -> N; rs_va : N }.

Definition rd16 (s : rsec) (o : N) : N := rs_get s o + 256 * rs_get s (o + 1).
Definition rd32 (s : rsec) (o : N) : N :=
  rs_get s o + 256 * rs_get s (o + 1) + 65536 * rs_get s (o + 2) + 16777216 * rs_get s (o + 3).
Definition B31 : N := 2147483648.

(* ------------------------------------------------------------------ Resources::slice* *)

(* mod.rs:51 slice<T>, after the F4 repair: the alignment test is on the address *)
Definition rslice (s : rsec) (off size align : N) : res N :=
  if negb (aligned_to align (wadd64 (rs_addr s) off)) then Err EMisaligned
  else if off + size <=? rs_len s then Ok off else Err EBounds.
(* as it stood: the test is on the offset, the dereference is of the address *)
Definition rslice_orig (s : rsec) (off size align : N) : res N :=
  if negb (aligned_to align off) then Err EMisaligned
  else if off + size <=? rs_len s then
    (if aligned_to align (rs_addr s + off) then Ok off else Fault UBAlign)
  else Err EBounds.

(* mod.rs:78 slice_ws: (offset of the first word, number of words) *)
Definition slice_ws (s : rsec) (off : N) : res (N * N) :=
  if negb (aligned_to 2 (wadd64 (rs_addr s) off)) then Err EMisaligned
  else if off + 2 <=? rs_len s then
    let n := rd16 s off in
    if off + 2 + n * 2 <=? rs_len s then Ok (off + 2, n) else Err EBounds
  else Err EBounds.
Definition slice_ws_orig (s : rsec) (off : N) : res (N * N) :=
  if negb (aligned_to 2 off) then Err EMisaligned
  else if off + 2 <=? rs_len s then
    if negb (aligned_to 2 (rs_addr s + off)) then Fault UBAlign else
    let n := rd16 s off in
    if off + 2 + n * 2 <=? rs_len s then Ok (off + 2, n) else Err EBounds
  else Err EBounds.

Definition words (s : rsec) (o n : N) : list N :=
  map (fun i => rd16 s (o + 2 * N.of_nat i)) (seq 0 (N.to_nat n)).
Definition sec_bytes (s : rsec) (o n : N) : list N :=
  map (fun i => rs_get s (o + N.of_nat i)) (seq 0 (N.to_nat n)).

(* ------------------------------------------------------------------ Directory *)

Definition n_named (s : rsec) (off : N) : N := rd16 s (off + 12).
Definition n_ids (s : rsec) (off : N) : N := rd16 s (off + 14).

Inductive name := NId (id : N) | NWide (ws : list N) | NStr (cs : list N).
Inductive ent := EDir (o : N) | EData (o : N).

Section WithSlice.
  (* the two versions of the code differ only in slice / slice_ws *)
  Variable sl : rsec -> N -> N -> N -> res N.
  Variable slws : rsec -> N -> res (N * N).

  (* mod.rs:108 Directory::try_from *)
  Definition dir_try_from_g (s : rsec) (off : N) : res N :=
    _ <- sl s off 16 4 ;;
    let entries_size := (n_named s off + n_ids s off) * 8 in
    let entries_offset := off + 16 in
    room <- chk_sub (rs_len s) entries_offset ;;
    if room <? entries_size then Err EBounds else Ok off.

  (* mod.rs:355 DirectoryEntry::name *)
  Definition e_name_g (s : rsec) (e : N) : res name :=
    let v := rd32 s e in
    if B31 <=? v then r <- slws s (v - B31) ;; Ok (NWide (words s (fst r) (snd r)))
    else Ok (NId v).
  (* mod.rs:371 DirectoryEntry::entry *)
  Definition e_entry_g (s : rsec) (e : N) : res ent :=
    let v := rd32 s (e + 4) in
    if B31 <=? v then o <- dir_try_from_g s (v - B31) ;; Ok (EDir o)
    else o <- sl s v 16 4 ;; Ok (EData o).
End WithSlice.

Definition dir_try_from := dir_try_from_g rslice.
Definition e_name := e_name_g slice_ws.
Definition e_entry := e_entry_g rslice.
Definition dir_try_from_orig := dir_try_from_g rslice_orig.
Definition e_name_orig := e_name_g slice_ws_orig.
Definition e_entry_orig := e_entry_g rslice_orig.

Definition root (s : rsec) : res N := dir_try_from s 0.
Definition root_orig (s : rsec) : res N := dir_try_from_orig s 0.

(* mod.rs:129-166: the three entry ranges; an entry is the offset of its 8-byte record *)
Definition entry_offs (first n : N) : list N := map (fun i => first + 8 * N.of_nat i) (seq 0 (N.to_nat n)).
Definition entries (s : rsec) (off : N) : list N := entry_offs (off + 16) (n_named s off + n_ids s off).
Definition named_entries (s : rsec) (off : N) : list N := entry_offs (off + 16) (n_named s off).
Definition id_entries (s : rsec) (off : N) : list N := entry_offs (off + 16 + 8 * n_named s off) (n_ids s off).
(* the precondition of the unsafe from_raw_parts in entries(): established by Directory::try_from *)
Definition entries_safe (s : rsec) (off : N) : bool :=
  (off + 16 + 8 * (n_named s off + n_ids s off) <=? rs_len s) && aligned_to 4 (rs_addr s + off + 16).

Definition e_is_dir (s : rsec) (e : N) : bool := B31 <=? rd32 s (e + 4).

(* mod.rs:423 DataEntry::bytes, size, code_page *)
Definition data_bytes (s : rsec) (o : N) : res region :=
  let otd := rd32 s o in
  let size := rd32 s (o + 4) in
  if otd <? rs_va s then Err EOverflow else
  let start := otd - rs_va s in
  if W32 <=? start + size then Err EOverflow else
  if start + size <=? rs_len s then Ok {| r_off := start; r_len := size |} else Err EBounds.
Definition data_size (s : rsec) (o : N) : N := rd32 s (o + 4).
Definition data_cp (s : rsec) (o : N) : N := rd32 s (o + 8).

(* ------------------------------------------------------------------ names *)

(* mod.rs:455 RSRC_TYPES (hand-copied; the harness queries every one of them) *)
Definition rsrc_type (id : N) : option (list N) :=
  match id with
  | 1 => Some ((* #CURSOR *) [35; 67; 85; 82; 83; 79; 82]) | 2 => Some ((* #BITMAP *) [35; 66; 73; 84; 77; 65; 80]) | 3 => Some ((* #ICON *) [35; 73; 67; 79; 78]) | 4 => Some ((* #MENU *) [35; 77; 69; 78; 85])
  | 5 => Some ((* #DIALOG *) [35; 68; 73; 65; 76; 79; 71]) | 6 => Some ((* #STRING *) [35; 83; 84; 82; 73; 78; 71]) | 7 => Some ((* #FONTDIR *) [35; 70; 79; 78; 84; 68; 73; 82]) | 8 => Some ((* #FONT *) [35; 70; 79; 78; 84])
  | 9 => Some ((* #ACCELERATOR *) [35; 65; 67; 67; 69; 76; 69; 82; 65; 84; 79; 82]) | 10 => Some ((* #RCDATA *) [35; 82; 67; 68; 65; 84; 65]) | 11 => Some ((* #MESSAGETABLE *) [35; 77; 69; 83; 83; 65; 71; 69; 84; 65; 66; 76; 69])
  | 12 => Some ((* #GROUP_CURSOR *) [35; 71; 82; 79; 85; 80; 95; 67; 85; 82; 83; 79; 82]) | 14 => Some ((* #GROUP_ICON *) [35; 71; 82; 79; 85; 80; 95; 73; 67; 79; 78]) | 16 => Some ((* #VERSION *) [35; 86; 69; 82; 83; 73; 79; 78])
  | 17 => Some ((* #DLGINCLUDE *) [35; 68; 76; 71; 73; 78; 67; 76; 85; 68; 69]) | 19 => Some ((* #PLUGPLAY *) [35; 80; 76; 85; 71; 80; 76; 65; 89]) | 20 => Some ((* #VXD *) [35; 86; 88; 68])
  | 21 => Some ((* #ANICURSOR *) [35; 65; 78; 73; 67; 85; 82; 83; 79; 82]) | 22 => Some ((* #ANIICON *) [35; 65; 78; 73; 73; 67; 79; 78]) | 23 => Some ((* #HTML *) [35; 72; 84; 77; 76]) | 24 => Some ((* #MANIFEST *) [35; 77; 65; 78; 73; 70; 69; 83; 84])
  | _ => None
  end.

Fixpoint list_eqb (a b : list N) : bool :=
  match a, b with
  | [], [] => true
  | x :: a', y :: b' => (x =? y) && list_eqb a' b'
  | _, _ => false
  end.

Definition is_digit (c : N) : bool := (48 <=? c) && (c <=? 57).
(* <u32 as FromStr>::from_str on a string of code points that starts with a digit:
   every character a decimal digit, the value representable *)
Fixpoint parse_u32 (cs : list N) (acc : N) : option N :=
  match cs with
  | [] => Some acc
  | c :: r => if is_digit c then
                let a := acc * 10 + (c - 48) in
                if a <? W32 then parse_u32 r a else None
              else None
  end.

(* char::decode_utf16: [Some scalar] or [None] for an unpaired surrogate *)
Fixpoint decode_utf16 (ws : list N) : list (option N) :=
  match ws with
  | [] => []
  | u :: rest =>
    if (u <? 55296) || (57343 <? u) then Some u :: decode_utf16 rest
    else if 56320 <=? u then None :: decode_utf16 rest
    else match rest with
         | [] => [None]
         | u2 :: rest' =>
           if (u2 <? 56320) || (57343 <? u2) then None :: decode_utf16 rest
           else Some (65536 + (u - 55296) * 1024 + (u2 - 56320)) :: decode_utf16 rest'
         end
  end.
Fixpoint opt_list_eqb (a : list (option N)) (b : list N) : bool :=
  match a, b with
  | [], [] => true
  | Some x :: a', y :: b' => (x =? y) && opt_list_eqb a' b'
  | _, _ => false
  end.

(* mod.rs:215 Name::eq_string; a Rust &str is modelled as its list of code points.
   [lo] is the smallest second character that selects the integer reading: '0' after the F29 repair, '1' before *)
Definition eq_string_g (lo : N) (n : name) (cs : list N) : bool :=
  match n with
  | NId id =>
    match cs with
    | h :: c :: rest =>
      if negb (h =? 35) then false       (* '#' *)
      else if (lo <=? c) && (c <=? 57) then
        match parse_u32 (c :: rest) 0 with Some v => id =? v | None => false end
      else match rsrc_type id with Some nm => list_eqb cs nm | None => false end
    | _ => false
    end
  | NWide ws => opt_list_eqb (decode_utf16 ws) cs
  | NStr t => list_eqb cs t
  end.
Definition eq_string := eq_string_g 48.
Definition eq_string_orig := eq_string_g 49.

(* mod.rs:265 PartialEq for Name *)
Definition name_eq_g (lo : N) (a b : name) : bool :=
  match a, b with
  | NId x, NId y => x =? y
  | NId _, NWide _ => false
  | NWide x, NWide y => list_eqb x y
  | NWide _, NId _ => false
  | NStr l, r => eq_string_g lo r l
  | l, NStr r => eq_string_g lo l r
  end.
Definition name_eq := name_eq_g 48.
Definition name_eq_orig := name_eq_g 49.

(* Display for Name::Id *)
Fixpoint digits_fuel (fuel : nat) (x : N) (acc : list N) : list N :=
  match fuel with
  | O => acc
  | S f => if x <? 10 then (48 + x) :: acc else digits_fuel f (x / 10) ((48 + x mod 10) :: acc)
  end.
Definition display_id (id : N) : list N := 35 :: digits_fuel 20 id [].

(* ------------------------------------------------------------------ full traversal (as composed by the harness)
   depth-first, [d] levels deep, at most [b] entries in total *)
Inductive target :=
| TDir (o : N)
| TData (o : N) (bytes : res region) (size cp : N)
| TBad (r : res ent).
Record item := { i_lvl : N; i_eoff : N; i_named : bool; i_name : res name; i_isdir : bool; i_tgt : target }.
Inductive witem := WItem (i : item) | WCut | WStop.

Definition item_at (s : rsec) (lvl named idx e : N) : item :=
  let en := e_entry s e in
  {| i_lvl := lvl; i_eoff := e; i_named := idx <? named; i_name := e_name s e; i_isdir := e_is_dir s e;
     i_tgt := match en with
              | Ok (EDir o) => TDir o
              | Ok (EData o) => TData o (data_bytes s o) (data_size s o) (data_cp s o)
              | _ => TBad en
              end |}.
Section WalkLoop.
  Variable s : rsec.
  Variable below : N -> N -> N -> list witem * N.     (* the listing of a sub-directory: off, level, budget *)
  Variable lvl named : N.
  Fixpoint walk_loop (es : list N) (idx b : N) {struct es} : list witem * N :=
    match es with
    | [] => ([], b)
    | e :: r =>
      if b =? 0 then ([WStop], 0) else
      let sub := match e_entry s e with Ok (EDir o) => below o (lvl + 1) (b - 1) | _ => ([], b - 1) end in
      let rest := walk_loop r (idx + 1) (snd sub) in
      (WItem (item_at s lvl named idx e) :: fst sub ++ fst rest, snd rest)
    end.
End WalkLoop.
Fixpoint walk (d : nat) (s : rsec) (off lvl b : N) {struct d} : list witem * N :=
  match d with
  | O => ([WCut], b)
  | S d' => walk_loop s (walk d' s) lvl (n_named s off) (entries s off) 0 b
  end.

(* ------------------------------------------------------------------ fsck
   after the F16 repair: at most FSCK_DEPTH nested directories and at most len/8 entries *)
Definition FSCK_DEPTH : nat := 32.

Section FsckLoop.
  Variable s : rsec.
  Variable below : N -> N -> res N.      (* the check of a sub-directory: off, budget -> remaining budget *)
  Fixpoint fsck_loop (es : list N) (b : N) {struct es} : res N :=
    match es with
    | [] => Ok b
    | e :: r =>
      if b =? 0 then Err EInsanity else
      _ <- e_name s e ;;
      en <- e_entry s e ;;
      b1 <- match en with
            | EDir o => below o (b - 1)
            | EData o => _ <- data_bytes s o ;; Ok (b - 1)
            end ;;
      fsck_loop r b1
    end.
End FsckLoop.
Fixpoint fsck_dir (d : nat) (s : rsec) (off b : N) {struct d} : res N :=
  match d with
  | O => Err EInsanity
  | S d' => fsck_loop s (fsck_dir d' s) (entries s off) b
  end.
Definition fsck_budget (s : rsec) : N := rs_len s / 8.
Definition fsck (s : rsec) : res unit :=
  r <- root s ;; _ <- fsck_dir FSCK_DEPTH s r (fsck_budget s) ;; Ok tt.

(* Ghost-instrumented fsck: the same computation, which also returns the number of directory entries visited and the
   deepest nesting of directories entered.  Not part of the code; C12_fsck_counted proves the first component equal to
   [fsck_dir] / [fsck], so a bound on the counters is a bound on the work of the function itself. *)
Record cnt := { c_steps : N; c_depth : nat }.
Definition cnt0 : cnt := {| c_steps := 0; c_depth := 0 |}.
Section FsckLoopC.
  Variable s : rsec.
  Variable below : N -> N -> res N * cnt.
  Fixpoint fsck_loop_c (es : list N) (b : N) {struct es} : res N * cnt :=
    match es with
    | [] => (Ok b, cnt0)
    | e :: r =>
      if b =? 0 then (Err EInsanity, cnt0) else
      match e_name s e with
      | Ok _ =>
        match e_entry s e with
        | Ok en =>
          let sub := match en with
                     | EDir o => below o (b - 1)
                     | EData o => (_ <- data_bytes s o ;; Ok (b - 1), cnt0)
                     end in
          match fst sub with
          | Ok b1 =>
            let rest := fsck_loop_c r b1 in
            (fst rest, {| c_steps := 1 + c_steps (snd sub) + c_steps (snd rest);
                          c_depth := Nat.max (c_depth (snd sub)) (c_depth (snd rest)) |})
          | Err x => (Err x, {| c_steps := 1 + c_steps (snd sub); c_depth := c_depth (snd sub) |})
          | Fault f => (Fault f, {| c_steps := 1 + c_steps (snd sub); c_depth := c_depth (snd sub) |})
          end
        | Err x => (Err x, {| c_steps := 1; c_depth := 0 |})
        | Fault f => (Fault f, {| c_steps := 1; c_depth := 0 |})
        end
      | Err x => (Err x, {| c_steps := 1; c_depth := 0 |})
      | Fault f => (Fault f, {| c_steps := 1; c_depth := 0 |})
      end
    end.
End FsckLoopC.
Fixpoint fsck_dir_c (d : nat) (s : rsec) (off b : N) {struct d} : res N * cnt :=
  match d with
  | O => (Err EInsanity, cnt0)
  | S d' =>
    let r := fsck_loop_c s (fsck_dir_c d' s) (entries s off) b in
    (fst r, {| c_steps := c_steps (snd r); c_depth := S (c_depth (snd r)) |})
  end.
Definition fsck_c (s : rsec) : res unit * cnt :=
  match root s with
  | Ok r => (_ <- fst (fsck_dir_c FSCK_DEPTH s r (fsck_budget s)) ;; Ok tt, snd (fsck_dir_c FSCK_DEPTH s r (fsck_budget s)))
  | Err e => (Err e, cnt0)
  | Fault f => (Fault f, cnt0)
  end.

(* as it stood: plain recursion; the fuel stands for the machine stack *)
Fixpoint fsck_dir_orig (fuel : nat) (s : rsec) (off : N) {struct fuel} : res unit :=
  match fuel with
  | O => Fault OutOfFuel
  | S f =>
    (fix loop (es : list N) {struct es} : res unit :=
       match es with
       | [] => Ok tt
       | e :: r =>
         _ <- e_name_orig s e ;;
         en <- e_entry_orig s e ;;
         _ <- match en with
              | EDir o => fsck_dir_orig f s o
              | EData o => _ <- data_bytes s o ;; Ok tt
              end ;;
         loop r
       end) (entries s off)
  end.
Definition fsck_orig (fuel : nat) (s : rsec) : res unit :=
  r <- root_orig s ;; fsck_dir_orig fuel s r.

(* art.rs: recursion skeleton of the tree printer = number of lines written.
   After the repair the printer stops quietly at 32 levels or after len/8 entries. *)
Section DrawLoop.
  Variable s : rsec.
  Variable below : N -> N -> N * N.
  Fixpoint draw_loop (es : list N) (b : N) {struct es} : N * N :=
    match es with
    | [] => (0, b)
    | e :: r =>
      if b =? 0 then (0, 0) else
      let sub := match e_entry s e with Ok (EDir o) => below o (b - 1) | _ => (0, b - 1) end in
      let rest := draw_loop r (snd sub) in
      (1 + fst sub + fst rest, snd rest)
    end.
End DrawLoop.
Fixpoint draw (d : nat) (s : rsec) (off b : N) {struct d} : N * N :=     (* (lines, remaining budget) *)
  match d with
  | O => (0, b)
  | S d' => draw_loop s (draw d' s) (entries s off) b
  end.
Definition display_lines (s : rsec) : N :=
  match root s with
  | Ok r => 1 + fst (draw 32 s r (fsck_budget s))
  | _ => 1
  end.

(* ------------------------------------------------------------------ find.rs *)
Inductive ferr := FPe (e : error) | FBad8Path | FNotFound | FNoRootPath | FUnDataEntry | FUnDirectory.
Inductive fres (A : Type) := FOk (a : A) | FErr (e : ferr) | FFault (f : fault).
Arguments FOk {A} a.
Arguments FErr {A} e.
Arguments FFault {A} f.
Definition fbind {A B} (r : fres A) (k : A -> fres B) : fres B :=
  match r with FOk a => k a | FErr e => FErr e | FFault f => FFault f end.
Notation "x <-- r ;; k" := (fbind r (fun x => k)) (at level 61, r at next level, right associativity).
Definition lift {A} (r : res A) : fres A :=
  match r with Ok a => FOk a | Err e => FErr (FPe e) | Fault f => FFault f end.

Section Find.
  Variable lo : N.     (* 48 after the F29 repair, 49 before *)

  Definition matches (s : rsec) (q : name) (e : N) : bool :=
    match e_name s e with Ok n => name_eq_g lo n q | _ => false end.
  Definition find_entry (s : rsec) (off : N) (q : name) : option N := find (matches s q) (entries s off).

  Definition as_dir (x : ent) : fres N := match x with EDir o => FOk o | EData _ => FErr FUnDataEntry end.
  Definition as_data (x : ent) : fres N := match x with EData o => FOk o | EDir _ => FErr FUnDirectory end.

  (* find.rs:143 get, get_data, get_dir, first, first_data, first_dir *)
  Definition dir_get (s : rsec) (off : N) (q : name) : fres ent :=
    match find_entry s off q with None => FErr FNotFound | Some e => lift (e_entry s e) end.
  Definition get_data (s : rsec) (off : N) (q : name) : fres N := x <-- dir_get s off q ;; as_data x.
  Definition get_dir (s : rsec) (off : N) (q : name) : fres N := x <-- dir_get s off q ;; as_dir x.
  Definition first (s : rsec) (off : N) : fres ent :=
    match entries s off with [] => FErr FNotFound | e :: _ => lift (e_entry s e) end.
  Definition first_data (s : rsec) (off : N) : fres N := x <-- first s off ;; as_data x.
  Definition first_dir (s : rsec) (off : N) : fres N := x <-- first s off ;; as_dir x.

  (* find.rs:86-96 *)
  Definition find_resources (s : rsec) (a b : name) : fres N :=
    r <-- lift (root s) ;; d1 <-- get_dir s r a ;; get_dir s d1 b.
  Definition find_resource (s : rsec) (a b : name) : fres region :=
    d2 <-- find_resources s a b ;; x <-- first_data s d2 ;; lift (data_bytes s x).
  Definition find_resource_ex (s : rsec) (a b c : name) : fres region :=
    d2 <-- find_resources s a b ;; x <-- get_data s d2 c ;; lift (data_bytes s x).

  (* find.rs:189-243: the path is given as its components (std::path splits it; see notes-C12):
     [rooted] = the first component is "/" *)
  Fixpoint find_parts (s : rsec) (cur : ent) (parts : list (list N)) : fres ent :=
    match parts with
    | [] => FOk cur
    | p :: r =>
      match cur with
      | EData _ => FErr FUnDataEntry
      | EDir o =>
        match find_entry s o (NStr p) with
        | None => FErr FNotFound
        | Some e => x <-- lift (e_entry s e) ;; find_parts s x r
        end
      end
    end.
  Definition find_path (s : rsec) (rooted : bool) (parts : list (list N)) : fres ent :=
    if rooted then r <-- lift (root s) ;; find_parts s (EDir r) parts
    else match parts with [] => FErr FNotFound | _ => FErr FNoRootPath end.
End Find.

(* std::str::from_utf8 as a validity test (Unicode table 3-7) *)
Definition cont (b : N) : bool := (128 <=? b) && (b <=? 191).
Fixpoint utf8_valid (l : list N) : bool :=
  match l with
  | [] => true
  | b0 :: r =>
    if b0 <? 128 then utf8_valid r
    else if (194 <=? b0) && (b0 <=? 223) then
      match r with b1 :: r1 => cont b1 && utf8_valid r1 | _ => false end
    else if (224 <=? b0) && (b0 <=? 239) then
      match r with
      | b1 :: b2 :: r2 =>
        (if b0 =? 224 then (160 <=? b1) && (b1 <=? 191)
         else if b0 =? 237 then (128 <=? b1) && (b1 <=? 159)
         else cont b1) && cont b2 && utf8_valid r2
      | _ => false
      end
    else if (240 <=? b0) && (b0 <=? 244) then
      match r with
      | b1 :: b2 :: b3 :: r3 =>
        (if b0 =? 240 then (144 <=? b1) && (b1 <=? 191)
         else if b0 =? 244 then (128 <=? b1) && (b1 <=? 143)
         else cont b1) && cont b2 && cont b3 && utf8_valid r3
      | _ => false
      end
    else false
  end.

Definition RT_CURSOR : N := 1.
Definition RT_ICON : N := 3.
Definition RT_GROUP_CURSOR : N := 12.
Definition RT_GROUP_ICON : N := 14.
Definition RT_VERSION : N := 16.
Definition RT_MANIFEST : N := 24.

(* find.rs:104 manifest, :98 version_info (up to VersionInfo::try_from, which only tests the alignment) *)
Definition manifest (s : rsec) : fres region :=
  r <-- lift (root s) ;; d <-- get_dir 48 s r (NId RT_MANIFEST) ;; d2 <-- first_dir s d ;; x <-- first_data s d2 ;;
  rg <-- lift (data_bytes s x) ;;
  if utf8_valid (sec_bytes s (r_off rg) (r_len rg)) then FOk rg else FErr (FPe EEncoding).
Definition version_info (s : rsec) : fres region :=
  rg <-- find_resource 48 s (NId RT_VERSION) (NId 1) ;;
  if aligned_to 4 (wadd64 (rs_addr s) (r_off rg)) then FOk rg else FErr (FPe EMisaligned).

(* ------------------------------------------------------------------ group.rs *)
(* group.rs:88 GroupResource::new on a byte slice of the section *)
Definition group_new (s : rsec) (g : region) : res region :=
  if negb (aligned_to 2 (wadd64 (rs_addr s) (r_off g))) then Err EMisaligned
  else if r_len g <? 6 then Err EBounds
  else
    let ty := rd16 s (r_off g + 2) in
    if negb (rd16 s (r_off g) =? 0) || negb ((ty =? 1) || (ty =? 2)) then Err EBadMagic
    else if negb (r_len g =? 6 + rd16 s (r_off g + 4) * 14) then Err EBounds
    else Ok g.
Definition g_type (s : rsec) (g : region) : N := rd16 s (r_off g + 2).
Definition g_count (s : rsec) (g : region) : N := rd16 s (r_off g + 4).
Definition g_entries (s : rsec) (g : region) : list N :=
  map (fun i => r_off g + 6 + 14 * N.of_nat i) (seq 0 (N.to_nat (g_count s g))).
Definition ge_bytes_in_res (s : rsec) (e : N) : N := rd16 s (e + 10) * 65536 + rd16 s (e + 8).
Definition ge_id (s : rsec) (e : N) : N := rd16 s (e + 12).

(* group.rs:127 image *)
Definition g_image (s : rsec) (g : region) (id : N) : fres region :=
  find_resource 48 s (NId (if g_type s g =? 1 then RT_ICON else RT_CURSOR)) (NId id).

(* find.rs:111 icons / :126 cursors *)
Definition group_list (s : rsec) (ty : N) : list (fres (name * region)) :=
  match (r <-- lift (root s) ;; get_dir 48 s r (NId ty)) with
  | FOk d =>
    map (fun e =>
           nm <-- lift (e_name s e) ;; x <-- lift (e_entry s e) ;; d2 <-- as_dir x ;;
           de <-- first_data s d2 ;; rg <-- lift (data_bytes s de) ;; g <-- lift (group_new s rg) ;; FOk (nm, g))
        (entries s d)
  | _ => []
  end.

(* group.rs:132 write into an append-all sink.  [lookup id] = the image bytes if image(id) is Ok.
   Result: the bytes written and whether Ok(()) was returned (after the F26 repair an offset beyond
   u32 is an InvalidData error; before it was an arithmetic overflow panic).
   After the F44 repair a cursor group (idType = 2) is translated instead of copied: its entries are
   { wWidth, wHeight (twice the height), wPlanes, wBitCount, dwBytesInRes, nId } and every RT_CURSOR resource starts
   with the 4-byte hotspot, while the entry of a .cur file is { bWidth, bHeight, bColorCount, bReserved, wXHotspot,
   wYHotspot, dwBytesInRes, dwImageOffset } and its image data does not contain the hotspot.  A cursor entry whose
   resource is missing or shorter than 4 bytes, or whose dwBytesInRes is below 4, is an InvalidData error.
   [write_with_orig] is the code as it stood before both repairs: the icon layout for both types. *)
Section Write.
  Variable s : rsec.
  Variable lookup : N -> option (list N).
  Fixpoint write_entries (es : list N) (image_offset : N) : list N * bool :=
    match es with
    | [] => ([], true)
    | e :: r =>
      let next := image_offset + ge_bytes_in_res s e in
      if next <? W32 then
        let rest := write_entries r next in
        (sec_bytes s e 12 ++ le32 image_offset ++ fst rest, snd rest)
      else ([], false)
    end.
  Fixpoint write_entries_orig (es : list N) (image_offset : N) : res (list N) :=
    match es with
    | [] => Ok []
    | e :: r =>
      next <- chk_add W32 image_offset (ge_bytes_in_res s e) ;;
      rest <- write_entries_orig r next ;;
      Ok (sec_bytes s e 12 ++ le32 image_offset ++ rest)
    end.
  Fixpoint write_images (es : list N) : list N :=
    match es with
    | [] => []
    | e :: r => match lookup (ge_id s e) with Some bs => bs ++ write_images r | None => write_images r end
    end.
  (* the cursor branch of the first loop: bWidth is the low byte of wWidth (left in place), bHeight = (wHeight / 2) as u8,
     bColorCount = bReserved = 0, the hotspot = the first 4 bytes of the resource, dwBytesInRes - 4 *)
  Fixpoint write_cur_entries (es : list N) (image_offset : N) : list N * bool :=
    match es with
    | [] => ([], true)
    | e :: r =>
      match lookup (ge_id s e) with
      | Some bs =>
        if (4 <=? lenN bs) && (4 <=? ge_bytes_in_res s e) then
          let size := ge_bytes_in_res s e - 4 in
          let next := image_offset + size in
          if next <? W32 then
            let rest := write_cur_entries r next in
            ([rs_get s e; (rd16 s (e + 2) / 2) mod 256; 0; 0] ++ firstn 4 bs ++ le32 size ++ le32 image_offset ++ fst rest, snd rest)
          else ([], false)
        else ([], false)
      | None => ([], false)
      end
    end.
  (* the cursor branch of the second loop: bytes.get(4..).unwrap_or(&[]) *)
  Fixpoint write_cur_images (es : list N) : list N :=
    match es with
    | [] => []
    | e :: r => match lookup (ge_id s e) with Some bs => skipn 4 bs ++ write_cur_images r | None => write_cur_images r end
    end.
  Definition write_with (g : region) : list N * bool :=
    let es := g_entries s g in
    let cursor := g_type s g =? 2 in
    let ent := if cursor then write_cur_entries es (6 + lenN es * 16) else write_entries es (6 + lenN es * 16) in
    if snd ent then (sec_bytes s (r_off g) 6 ++ fst ent ++ (if cursor then write_cur_images es else write_images es), true)
    else (sec_bytes s (r_off g) 6 ++ fst ent, false).
  Definition write_with_orig (g : region) : res (list N) :=
    let es := g_entries s g in
    ent <- write_entries_orig es (6 + lenN es * 16) ;;
    Ok (sec_bytes s (r_off g) 6 ++ ent ++ write_images es).
End Write.
Definition image_lookup (s : rsec) (g : region) (id : N) : option (list N) :=
  match g_image s g id with FOk rg => Some (sec_bytes s (r_off rg) (r_len rg)) | _ => None end.
Definition group_write (s : rsec) (g : region) : list N * bool := write_with s (image_lookup s g) g.
Definition group_write_orig (s : rsec) (g : region) : res (list N) := write_with_orig s (image_lookup s g) g.

(* ------------------------------------------------------------------ Pe::resources() on a mapped view *)
(* pe.rs:564: slice_bytes(VirtualAddress), clamp to Size *)
Definition pe_resources (img_addr img_len : N) (get : N -> N) (rva size : N) : res rsec :=
  r <- slice_section img_addr img_len rva 0 1 ;;
  Ok {| rs_addr := img_addr + r_off r; rs_len := N.min size (r_len r);
        rs_get := fun i => get (r_off r + i); rs_va := rva |}.
