(* Model of the format-agnostic wrapper layer (src/wrap/*.rs) and of the computed
   parts of the JSON serialization (src/pe64/headers.rs `Details`, src/pe64/pe.rs
   serialize_pe).

   A wrapper value is [Wrap::T32 pe32 | Wrap::T64 pe64]; every wrapper method is the
   two-armed [match] of src/wrap/pe.rs, modelled by [dispatch].  The format-specific
   operations are the existing model functions of Mapping.v / Views.v / Headers.v
   applied to the [view] the constructor builds from the headers ([pe_view]).

   serde and serde_json are outside the model: what is modelled of the
   serialization is (a) the one computed table of the header details,
   "DataDirectory.Sections" (F24), (b) for every `.ok()`-wrapped field of
   serialize_pe whose accessor is modelled here, whether it is `null`. *)
From PV.Model Require Export Machine Mapping Views Headers.
From PV.gen Require Import Layout.

(* ---- src/wrap/mod.rs: the variant and the match every method is ---- *)
Definition fmt_of (w : wrapped) : fmt := match w with T32 => fmt32 | T64 => fmt64 end.
Definition dispatch {A : Type} (w : wrapped) (op : fmt -> A) : A :=
  match w with T32 => op fmt32 | T64 => op fmt64 end.

(* ---- what a pe32::/pe64:: PeFile (file = true) or PeView value is after from_bytes ---- *)
Definition pe_view (f : fmt) (file : bool) (m : mem) : view :=
  {| v_file := file; v_addr := m_addr m; v_len := m_len m; v_get := m_get m;
     v_w := if f_64 f then W64 else W32; v_base := h_base f m;
     v_soh := h_soh f m; v_soi := h_soi f m; v_secs := sections f m |}.

(* ---- the format-specific operations the wrapper offers (src/wrap/pe.rs:30-200, wrap/headers.rs) ---- *)
Fixpoint dirs_from (f : fmt) (m : mem) (i : N) (n : nat) : list (N * N) :=
  match n with
  | O => []
  | S k => match data_dir f m i with Some d => d :: dirs_from f m (i + 1) k | None => [] end
  end.
Definition op_data_directory (f : fmt) (m : mem) : list (N * N) :=
  dirs_from f m 0 (N.to_nat (N.min (h_nrva f m) IMAGE_NUMBEROF_DIRECTORY_ENTRIES)).
Definition op_accessors (f : fmt) (m : mem) : list aregion := accessors f m.
Definition op_section_headers (f : fmt) (m : mem) : list section := sections f m.
Definition op_by_rva (f : fmt) (m : mem) (rva : N) : option N := by_rva f m rva.

Definition op_slice (f : fmt) (file : bool) (m : mem) (rva min_size align : N) : res region :=
  slice (pe_view f file m) rva min_size align.
Definition op_slice_bytes (f : fmt) (file : bool) (m : mem) (rva : N) : res region :=
  slice (pe_view f file m) rva 0 1.
(* wrap/pe.rs:17 get_section_bytes, called with the i-th section header *)
Definition op_get_section_bytes (f : fmt) (file : bool) (m : mem) (i : N) : option (res region) :=
  match nth_error (sections f m) (N.to_nat i) with
  | Some s => Some (if file then get_section_bytes (m_len m) (s_prd s) (s_srd s)
                    else get_section_bytes (m_len m) (s_va s) (s_vs s))
  | None => None
  end.
Definition op_derva (f : fmt) (file : bool) (m : mem) (rva size align : N) : res region :=
  rd (slice (pe_view f file m)) rva size align.
Definition op_derva_copy (f : fmt) (file : bool) (m : mem) (rva size : N) : res region :=
  rd_copy (slice (pe_view f file m)) rva size.
Definition op_derva_slice (f : fmt) (file : bool) (m : mem) (rva size align len : N) : res region :=
  rd_slice (slice (pe_view f file m)) rva size align len.
Definition op_derva_slice_s (f : fmt) (file : bool) (m : mem) (rva size align sentinel : N) : res region :=
  rd_slice_s (m_get m) (slice (pe_view f file m)) rva size align sentinel.
Definition op_derva_slice_f (f : fmt) (file : bool) (m : mem) (rva size align : N) (p : N -> bool) : res region :=
  rd_slice_f (m_get m) (slice (pe_view f file m)) rva size align p.
Definition op_derva_c_str (f : fmt) (file : bool) (m : mem) (rva : N) : res region :=
  rd_c_str (m_get m) (slice (pe_view f file m)) rva.

(* headers.rs: Headers::{image, check_sum, code_range, image_range} *)
Definition h_boc (f : fmt) (m : mem) : N :=
  rd32 m (opt_at f m + (if f_64 f then IMAGE_OPTIONAL_HEADER64_BaseOfCode_off else IMAGE_OPTIONAL_HEADER32_BaseOfCode_off)).
Definition h_soc (f : fmt) (m : mem) : N :=
  rd32 m (opt_at f m + (if f_64 f then IMAGE_OPTIONAL_HEADER64_SizeOfCode_off else IMAGE_OPTIONAL_HEADER32_SizeOfCode_off)).
Definition op_check_sum (f : fmt) (m : mem) : N := check_sum f m.
Definition op_code_range (f : fmt) (m : mem) : N * N := (h_boc f m, wadd32 (h_boc f m) (h_soc f m)).
Definition op_image_range (f : fmt) (m : mem) : N * N := (h_soh f m, h_soi f m).

(* ---- the wrapper methods: each is the match on the variant ---- *)
Definition wrap_accessors (w : wrapped) (m : mem) := dispatch w (fun f => op_accessors f m).
Definition wrap_data_directory (w : wrapped) (m : mem) := dispatch w (fun f => op_data_directory f m).
Definition wrap_section_headers (w : wrapped) (m : mem) := dispatch w (fun f => op_section_headers f m).
Definition wrap_by_rva (w : wrapped) (m : mem) rva := dispatch w (fun f => op_by_rva f m rva).
Definition wrap_slice (w : wrapped) file (m : mem) rva min_size align := dispatch w (fun f => op_slice f file m rva min_size align).
Definition wrap_slice_bytes (w : wrapped) file (m : mem) rva := dispatch w (fun f => op_slice_bytes f file m rva).
Definition wrap_get_section_bytes (w : wrapped) file (m : mem) i := dispatch w (fun f => op_get_section_bytes f file m i).
Definition wrap_derva (w : wrapped) file (m : mem) rva size align := dispatch w (fun f => op_derva f file m rva size align).
Definition wrap_derva_copy (w : wrapped) file (m : mem) rva size := dispatch w (fun f => op_derva_copy f file m rva size).
Definition wrap_derva_slice (w : wrapped) file (m : mem) rva size align len := dispatch w (fun f => op_derva_slice f file m rva size align len).
Definition wrap_derva_slice_s (w : wrapped) file (m : mem) rva size align s := dispatch w (fun f => op_derva_slice_s f file m rva size align s).
Definition wrap_derva_slice_f (w : wrapped) file (m : mem) rva size align p := dispatch w (fun f => op_derva_slice_f f file m rva size align p).
Definition wrap_derva_c_str (w : wrapped) file (m : mem) rva := dispatch w (fun f => op_derva_c_str f file m rva).
Definition wrap_check_sum (w : wrapped) (m : mem) := dispatch w (fun f => op_check_sum f m).
Definition wrap_code_range (w : wrapped) (m : mem) := dispatch w (fun f => op_code_range f m).
Definition wrap_image_range (w : wrapped) (m : mem) := dispatch w (fun f => op_image_range f m).

(* ---- headers.rs:136 the JSON detail "DataDirectory.Sections" ----
   for every data directory: position of the first section with
   VirtualAddress <= dd.VirtualAddress < VirtualAddress + VirtualSize.
   As the code stood the sum was a plain `+` (F24); after the repair it is the
   wrapping sum SectionHeaders::by_rva uses. `&&` is short-circuit: the sum is only
   evaluated when the first comparison holds. *)
Fixpoint dd_pos_orig (secs : list section) (idx rva : N) : res (option N) :=
  match secs with
  | [] => Ok None
  | s :: rest =>
    if s_va s <=? rva then
      e <- chk_add W32 (s_va s) (s_vs s) ;;
      if rva <? e then Ok (Some idx) else dd_pos_orig rest (idx + 1) rva
    else dd_pos_orig rest (idx + 1) rva
  end.
Fixpoint dd_pos (secs : list section) (idx rva : N) : res (option N) :=
  match secs with
  | [] => Ok None
  | s :: rest =>
    if s_va s <=? rva then
      if rva <? wadd32 (s_va s) (s_vs s) then Ok (Some idx) else dd_pos rest (idx + 1) rva
    else dd_pos rest (idx + 1) rva
  end.
(* collect_seq over the data directories: the first panic aborts the serialization *)
Fixpoint map_res {A B} (g : A -> res B) (l : list A) : res (list B) :=
  match l with
  | [] => Ok []
  | x :: t => y <- g x ;; ys <- map_res g t ;; Ok (y :: ys)
  end.
Definition details_dd_sections_orig (f : fmt) (m : mem) : res (list (option N)) :=
  map_res (fun d => dd_pos_orig (sections f m) 0 (fst d)) (op_data_directory f m).
Definition details_dd_sections (f : fmt) (m : mem) : res (list (option N)) :=
  map_res (fun d => dd_pos (sections f m) 0 (fst d)) (op_data_directory f m).

(* ---- the directory accessors behind the `.ok()` fields of serialize_pe (pe.rs:608),
        up to the point where they decide between Ok and Err ---- *)
Definition dir_entry (f : fmt) (m : mem) (i : N) : res (N * N) :=
  match data_dir f m i with Some d => Ok d | None => Err EBounds end.
(* exports.rs:81, tls.rs:47, load_config.rs:40 : derva::<T>(VirtualAddress) *)
Definition acc_exports (f : fmt) (file : bool) (m : mem) : res region :=
  d <- dir_entry f m IMAGE_DIRECTORY_ENTRY_EXPORT ;;
  op_derva f file m (fst d) IMAGE_EXPORT_DIRECTORY_size IMAGE_EXPORT_DIRECTORY_align.
Definition acc_tls (f : fmt) (file : bool) (m : mem) : res region :=
  d <- dir_entry f m IMAGE_DIRECTORY_ENTRY_TLS ;;
  if f_64 f then op_derva f file m (fst d) IMAGE_TLS_DIRECTORY64_size IMAGE_TLS_DIRECTORY64_align
  else op_derva f file m (fst d) IMAGE_TLS_DIRECTORY32_size IMAGE_TLS_DIRECTORY32_align.
Definition acc_load_config (f : fmt) (file : bool) (m : mem) : res region :=
  d <- dir_entry f m IMAGE_DIRECTORY_ENTRY_LOAD_CONFIG ;;
  if f_64 f then op_derva f file m (fst d) IMAGE_LOAD_CONFIG_DIRECTORY64_size IMAGE_LOAD_CONFIG_DIRECTORY64_align
  else op_derva f file m (fst d) IMAGE_LOAD_CONFIG_DIRECTORY32_size IMAGE_LOAD_CONFIG_DIRECTORY32_align.
(* debug.rs:44 *)
Definition acc_debug (f : fmt) (file : bool) (m : mem) : res region :=
  d <- dir_entry f m IMAGE_DIRECTORY_ENTRY_DEBUG ;;
  if negb (snd d mod IMAGE_DEBUG_DIRECTORY_size =? 0) then Err EInvalid
  else op_derva_slice f file m (fst d) IMAGE_DEBUG_DIRECTORY_size IMAGE_DEBUG_DIRECTORY_align (snd d / IMAGE_DEBUG_DIRECTORY_size).
(* pe64/base_relocs.rs:7 *)
Definition acc_base_relocs (f : fmt) (file : bool) (m : mem) : res region :=
  d <- dir_entry f m IMAGE_DIRECTORY_ENTRY_BASERELOC ;;
  r <- op_slice f file m (fst d) (snd d) 4 ;;
  Ok {| r_off := r_off r; r_len := snd d |}.
(* pe64/security.rs:8 ; the plain `VirtualAddress + Size` of the code as it stood is F8 *)
Definition acc_security_gen (add : N -> N -> res N) (f : fmt) (file : bool) (m : mem) : res region :=
  if negb file then Err EUnmapped else
  d <- dir_entry f m IMAGE_DIRECTORY_ENTRY_SECURITY ;;
  if fst d =? 0 then Err ENull
  else if negb (aligned_to 8 (fst d)) || negb (aligned_to 8 (snd d)) then Err EMisaligned
  else if snd d =? 0 then Err EBounds
  else
    e <- add (fst d) (snd d) ;;
    match get_range (m_len m) (fst d) e with Some r => Ok r | None => Err EBounds end.
Definition acc_security_orig := acc_security_gen (chk_add W32).
(* after the F8 repair: the end offset is a usize checked_add *)
Definition acc_security := acc_security_gen (fun a b => match checked_add W64 a b with Some e => Ok e | None => Err EOverflow end).

(* `.ok()` then Serialize for Option: null exactly for None *)
Definition json_is_null {A} (r : res A) : bool := match r with Ok _ => false | _ => true end.
