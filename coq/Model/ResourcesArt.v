(* Model of src/resources/art.rs: the TEXT that Display for Resources writes (the ASCII tree art), as a list of lines
   of Unicode scalar values; Model/Resources.v [draw] / [display_lines] is its recursion skeleton (number of lines).

     Resources/
     +-- #ICON/
     |   `-- #1/
     |       `-- #1033
     `-- NAME/

   One line per directory entry: the margin (one cell of four characters per enclosing level: blank when the enclosing
   entry was the last of its directory, "|   " otherwise), the prefix ("`-- " for the last entry of a directory, "+-- "
   otherwise), the name (ids of the ROOT directory are replaced by their predefined '#TYPE' name; UTF-16 names are decoded
   with U+FFFD for unpaired surrogates; an invalid name prints the error text), "/" for a directory, a line feed.
   The printer stops quietly at 32 levels and after len/8 entries (F16 repair). *)
From PV.Model Require Export Machine Mapping Views Resources.

(* error.rs Error::to_str (hand-copied; every message the resources API can produce is reached by the generator) *)
Definition err_text (e : error) : list N :=
  match e with
  | ENull => (* null address reference *) [110; 117; 108; 108; 32; 97; 100; 100; 114; 101; 115; 115; 32; 114; 101; 102; 101; 114; 101; 110; 99; 101]
  | EBounds => (* bounds check failed *) [98; 111; 117; 110; 100; 115; 32; 99; 104; 101; 99; 107; 32; 102; 97; 105; 108; 101; 100]
  | EZeroFill => (* zero filled data reference *) [122; 101; 114; 111; 32; 102; 105; 108; 108; 101; 100; 32; 100; 97; 116; 97; 32; 114; 101; 102; 101; 114; 101; 110; 99; 101]
  | EUnmapped => (* overlay data reference *) [111; 118; 101; 114; 108; 97; 121; 32; 100; 97; 116; 97; 32; 114; 101; 102; 101; 114; 101; 110; 99; 101]
  | EMisaligned => (* address misaligned *) [97; 100; 100; 114; 101; 115; 115; 32; 109; 105; 115; 97; 108; 105; 103; 110; 101; 100]
  | EBadMagic => (* unknown magic number *) [117; 110; 107; 110; 111; 119; 110; 32; 109; 97; 103; 105; 99; 32; 110; 117; 109; 98; 101; 114]
  | EPeMagic => (* try again with correct parser *) [116; 114; 121; 32; 97; 103; 97; 105; 110; 32; 119; 105; 116; 104; 32; 99; 111; 114; 114; 101; 99; 116; 32; 112; 97; 114; 115; 101; 114]
  | EInsanity => (* data insanity *) [100; 97; 116; 97; 32; 105; 110; 115; 97; 110; 105; 116; 121]
  | EInvalid => (* invalid data *) [105; 110; 118; 97; 108; 105; 100; 32; 100; 97; 116; 97]
  | EOverflow => (* overflow error *) [111; 118; 101; 114; 102; 108; 111; 119; 32; 101; 114; 114; 111; 114]
  | EEncoding => (* encoding error *) [101; 110; 99; 111; 100; 105; 110; 103; 32; 101; 114; 114; 111; 114]
  | EAliasing => (* aliasing error *) [97; 108; 105; 97; 115; 105; 110; 103; 32; 101; 114; 114; 111; 114]
  end.

(* mod.rs Display for Name, Name::rename_id(RSRC_TYPES) *)
Definition display_name (n : name) : list N :=
  match n with
  | NId id => display_id id
  | NWide ws => map (fun c => match c with Some x => x | None => 65533 end) (decode_utf16 ws)
  | NStr cs => cs
  end.
Definition rename_id (root : bool) (n : name) : name :=
  match n with
  | NId id => if root then match rsrc_type id with Some nm => NStr nm | None => n end else n
  | _ => n
  end.

Definition T_MARGIN_DRAW : list N := [124; 32; 32; 32].   (* "|   " *)
Definition T_MARGIN_OPEN : list N := [32; 32; 32; 32].
Definition T_ENTRY : list N := [43; 45; 45; 32].          (* "+-- " *)
Definition T_TAIL : list N := [96; 45; 45; 32].           (* "`-- " *)
Definition T_HEADING : list N := [82; 101; 115; 111; 117; 114; 99; 101; 115; 47; 10].   (* "Resources/\n" *)
(* [margin]: one flag per enclosing level, true = that level's entry was the last one (bit i of TreeFmt::margin) *)
Definition margin_text (margin : list bool) : list N :=
  flat_map (fun open : bool => if open then T_MARGIN_OPEN else T_MARGIN_DRAW) margin.
Definition entry_line (s : rsec) (root : bool) (margin : list bool) (tail : bool) (e : N) : list N :=
  margin_text margin ++ (if tail then T_TAIL else T_ENTRY) ++
  (match e_name s e with Ok n => display_name (rename_id root n) | Err x => err_text x | Fault _ => [] end) ++
  (if e_is_dir s e then [47; 10] else [10]).

Section DrawText.
  Variable s : rsec.
  Variable below : N -> list bool -> N -> list (list N) * N.
  Variable root : bool.
  Variable margin : list bool.
  Fixpoint draw_text_loop (es : list N) (b : N) {struct es} : list (list N) * N :=
    match es with
    | [] => ([], b)
    | e :: r =>
      if b =? 0 then ([], 0) else
      let tail := match r with [] => true | _ => false end in
      let sub := match e_entry s e with Ok (EDir o) => below o (margin ++ [tail]) (b - 1) | _ => ([], b - 1) end in
      let rest := draw_text_loop r (snd sub) in
      (entry_line s root margin tail e :: fst sub ++ fst rest, snd rest)
    end.
End DrawText.
Fixpoint draw_text (d : nat) (s : rsec) (off : N) (root : bool) (margin : list bool) (b : N) {struct d} : list (list N) * N :=
  match d with
  | O => ([], b)
  | S d' => draw_text_loop s (fun o m b' => draw_text d' s o false m b') root margin (entries s off) b
  end.
(* Display for Resources: the lines; the text written is their concatenation *)
Definition display_text (s : rsec) : list (list N) :=
  match root s with
  | Ok r => T_HEADING :: fst (draw_text 32 s r true [] (fsck_budget s))
  | Err e => [T_HEADING ++ err_text e]
  | Fault _ => []
  end.
