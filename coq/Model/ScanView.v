(* The Scan trait implemented for a Pe view (scanner.rs:93): how the interpreter touches the image. *)
From PV.Model Require Export Machine Mapping Views Pattern Exec.

Definition scan_of_view (v : view) : scan := {|
  sc_read := fun n rva =>                                  (* derva_copy(rva).ok() *)
    match slice v rva n 1 with Ok r => Some (le_value (v_get v) (r_off r) (N.to_nat n)) | _ => None end;
  sc_pointer := fun va => match va_to_rva v va with Ok r => Some r | _ => None end;
  sc_slice_len := fun rva => match slice v rva 0 1 with Ok r => Some (r_len r) | _ => None end;   (* slice_bytes(rva).ok() *)
  sc_slice_byte := fun rva i => match slice v rva 0 1 with Ok r => v_get v (r_off r + i) | _ => 0 end;
  sc_va_bytes := if v_w v =? W32 then 4 else 8
|}.

(* Scanner::exec on a view *)
Definition view_exec (v : view) (pat : list atom) (cursor : N) (save : list N) : res (bool * list N) :=
  run_exec (scan_of_view v) pat cursor save.
