(* Model of src/strings.rs: is_printable_ascii, Enumerator::next, and iteration to exhaustion. *)
From PV.Model Require Export Machine.

(* strings.rs:63, after the F18 repair (0x7F is not printable) *)
Definition is_printable (b : N) : bool :=
  if 32 <=? b then b <? 127 else (b =? 9) || (b =? 10) || (b =? 13).
Definition is_printable_orig (b : N) : bool :=
  if 32 <=? b then b <? 128 else (b =? 9) || (b =? 10) || (b =? 13).

Record cfg := { min_len : N; min_len_nul : N; strict : bool }.
Record found := { f_start : N; f_len : N; f_addr : N; f_nul : bool }.

(* the address computation, after the F27 repair (wrapping add in RVA space) *)
Definition mk (base start i : N) (nul : bool) : found :=
  {| f_start := start; f_len := i - start; f_addr := wadd32 base start; f_nul := nul |}.

(* the while loop and the tail test of Enumerator::next; [rest] = bytes[i..] *)
Fixpoint scan (c : cfg) (base : N) (rest : list N) (start i : N) : option (found * N) :=
  match rest with
  | [] =>
    if negb (start =? i) && negb (strict c) && (min_len c <=? i - start) then Some (mk base start i false, i) else None
  | b :: rest' =>
    if is_printable b then scan c base rest' start (i + 1)
    else if b =? 0 then
      if min_len_nul c <=? i - start then Some (mk base start i true, i + 1)
      else scan c base rest' (i + 1) (i + 1)
    else if negb (strict c) then
      if min_len c <=? i - start then Some (mk base start i false, i + 1)
      else scan c base rest' (i + 1) (i + 1)
    else scan c base rest' (i + 1) (i + 1)
  end.

(* Enumerator::next: returns the item and the new self.offset *)
Definition next (c : cfg) (base : N) (bytes : list N) (offset : N) : option (found * N) :=
  scan c base (skipn (N.to_nat offset) bytes) offset offset.

(* for x in enumerator { .. } *)
Fixpoint enumerate_fuel (fuel : nat) (c : cfg) (base : N) (bytes : list N) (offset : N) : res (list found) :=
  match fuel with
  | O => Fault OutOfFuel
  | S fuel' =>
    match next c base bytes offset with
    | None => Ok []
    | Some (x, off') => r <- enumerate_fuel fuel' c base bytes off' ;; Ok (x :: r)
    end
  end.
Definition enumerate (c : cfg) (base : N) (bytes : list N) : res (list found) :=
  enumerate_fuel (S (length bytes)) c base bytes 0.
