(* Model of src/proc-macros/lib.rs: parse_str_literal (lines 33-60) and the part of `pattern` (lines 9-31)
   that is ordinary code: macro = parse . unescape.

   (in the comments of this file DQ stands for the double quote character U+0022)
   A literal is the list of the `char`s (Unicode scalar values, as N) of `Literal::to_string()`, i.e. the
   token as written in the source (after rustc's CRLF normalisation), including the quotes and a suffix.
   `String::push` is UTF-8 encoding; `pattern::parse` works on the bytes of that String (Model/Pattern.v).

   What is NOT modelled (it runs inside rustc, see DESIGN.md section 7 C17): formatting the atom vector with
   the derived Debug, re-parsing that text as a TokenStream, and name resolution of the expansion. *)
From PV.Model Require Export Machine Pattern.

(* every way parse_str_literal refuses a literal is an explicit panic!(..) = a compile error of the macro call *)
Inductive lit_reject :=
| RNoQuote                 (* :37 the first char is not 'DQ' (raw rDQ..DQ/r#DQ..DQ#, byte, C strings, numbers, chars) *)
| RUnicodeEscape           (* :49 `\u`: "unicode escape sequence not supported" *)
| RUnknownEscape (c : N)   (* :50 any other char after a backslash: \0 \x.. \<newline> and the non-escapes *)
| RTrailingBackslash       (* :51 the text ends right after a backslash: panic!("") *)
| RUnterminated            (* :55 no closing 'DQ' *)
| RSuffix.                 (* F36 repair: something follows the closing 'DQ' *)

(* lib.rs:42-52 the inner match on the char after a backslash, in source order *)
Definition escape (e : N) : lit_reject + N :=
  if e =? 92 then inr 92            (* \\ *)
  else if e =? 39 then inr 39       (* \' *)
  else if e =? 34 then inr 34       (* \DQ *)
  else if e =? 116 then inr 9       (* t *)
  else if e =? 114 then inr 13      (* r *)
  else if e =? 110 then inr 10      (* n *)
  else if e =? 117 then inl RUnicodeEscape
  else inl (RUnknownEscape e).

(* lib.rs:40-58 the loop; [cs] = what `chars` still holds, [acc] = `string`.
   Returns the string and what `chars` still holds after the closing quote. *)
Fixpoint unescape_loop (cs : list N) (acc : list N) : lit_reject + (list N * list N) :=
  match cs with
  | [] => inl RUnterminated
  | c :: t =>
    if c =? 92 then
      match t with
      | [] => inl RTrailingBackslash
      | e :: t' => match escape e with
                   | inl r => inl r
                   | inr v => unescape_loop t' (acc ++ [v])
                   end
      end
    else if c =? 34 then inr (acc, t)
    else unescape_loop t (acc ++ [c])
  end.

(* the code as it stood: whatever follows the closing quote is never looked at *)
Definition parse_str_literal_orig (lit : list N) : lit_reject + list N :=
  match lit with
  | q :: t => if q =? 34 then match unescape_loop t [] with inl r => inl r | inr (s, _) => inr s end
              else inl RNoQuote
  | [] => inl RNoQuote
  end.

(* the repaired code (fix: F36): the closing quote must end the token *)
Definition parse_str_literal (lit : list N) : lit_reject + list N :=
  match lit with
  | q :: t => if q =? 34 then
                match unescape_loop t [] with
                | inl r => inl r
                | inr (s, []) => inr s
                | inr (_, _ :: _) => inl RSuffix
                end
              else inl RNoQuote
  | [] => inl RNoQuote
  end.

(* ---- String <-> chars: UTF-8 ---- *)
(* String::push / char::encode_utf8 *)
Definition utf8_encode_char (c : N) : list N :=
  if c <? 128 then [c]
  else if c <? 2048 then [192 + c / 64; 128 + c mod 64]
  else if c <? 65536 then [224 + c / 4096; 128 + (c / 64) mod 64; 128 + c mod 64]
  else [240 + c / 262144; 128 + (c / 4096) mod 64; 128 + (c / 64) mod 64; 128 + c mod 64].
Definition utf8_encode (cs : list N) : list N := flat_map utf8_encode_char cs.

(* str::chars on the bytes of a String (valid UTF-8 by construction; None = not UTF-8, cannot happen for a String) *)
Definition is_cont (b : N) : bool := (128 <=? b) && (b <? 192).
Fixpoint utf8_decode (bs : list N) : option (list N) :=
  match bs with
  | [] => Some []
  | b0 :: t =>
    if b0 <? 128 then option_map (cons b0) (utf8_decode t)
    else if b0 <? 192 then None
    else if b0 <? 224 then
      match t with
      | b1 :: t1 => if is_cont b1 then option_map (cons ((b0 - 192) * 64 + (b1 - 128))) (utf8_decode t1) else None
      | _ => None
      end
    else if b0 <? 240 then
      match t with
      | b1 :: b2 :: t2 =>
        if is_cont b1 && is_cont b2
        then option_map (cons ((b0 - 224) * 4096 + (b1 - 128) * 64 + (b2 - 128))) (utf8_decode t2) else None
      | _ => None
      end
    else if b0 <? 248 then
      match t with
      | b1 :: b2 :: b3 :: t3 =>
        if is_cont b1 && is_cont b2 && is_cont b3
        then option_map (cons ((b0 - 240) * 262144 + (b1 - 128) * 4096 + (b2 - 128) * 64 + (b3 - 128))) (utf8_decode t3) else None
      | _ => None
      end
    else None
  end.

(* ---- the macro up to code generation (lib.rs:20-28) ---- *)
Inductive macro_result :=
| MExpands (atoms : list atom)        (* the vector handed to format!("{:?}") *)
| MLiteral (r : lit_reject)           (* panic in parse_str_literal: the call does not compile *)
| MPattern (e : paterr) (pos : nat)   (* panic!("invalid pattern syntax: {}", err): the call does not compile *)
| MFault (f : fault).                 (* an unintended panic inside the parser (excluded by theorem) *)

Definition of_parse (r : res ((paterr * nat) + list atom)) : macro_result :=
  match r with
  | Ok (inr atoms) => MExpands atoms
  | Ok (inl (e, pos)) => MPattern e pos
  | Err _ => MFault PAssert
  | Fault f => MFault f
  end.

Definition macro_with (unescape : list N -> lit_reject + list N) (lit : list N) : macro_result :=
  match unescape lit with
  | inl r => MLiteral r
  | inr s => of_parse (parse (utf8_encode s))
  end.
Definition macro_model : list N -> macro_result := macro_with parse_str_literal.
Definition macro_model_orig : list N -> macro_result := macro_with parse_str_literal_orig.
