(* Model of src/proc-macros/pattern.rs: Atom, save_len, parse / parse_helper, byte by byte.
   The input is the list of bytes of the pattern string. *)
From PV.Model Require Export Machine.

Inductive atom :=
| Byte (b : N) | Save (s : N) | Push (k : N) | Pop | Fuzzy (m : N) | Skip (k : N) | Back (k : N)
| Rangext (k : N) | Many (k : N) | Jump1 | Jump4 | Ptr | Pir (s : N) | VTypeName | Check (s : N)
| Aligned (k : N) | ReadI8 (s : N) | ReadU8 (s : N) | ReadI16 (s : N) | ReadU16 (s : N)
| ReadI32 (s : N) | ReadU32 (s : N) | Zero (s : N) | Case (k : N) | Break (k : N) | Nop.

Inductive paterr :=
| UnpairedHexDigit | UnknownChar | ManyOverflow | ManyRange | ManyInvalid | SaveOverflow | StackError
| StackInvalid | UnclosedQuote | AlignedOperand | ReadOperand | SubPattern | SubOverflow.

(* pattern.rs:185 save_len *)
Definition atom_slot (a : atom) : option N :=
  match a with
  | Save s | Pir s | Check s | Zero s | ReadI8 s | ReadI16 s | ReadI32 s | ReadU8 s | ReadU16 s | ReadU32 s => Some s
  | _ => None
  end.
Definition save_len (pat : list atom) : N :=
  fold_left (fun acc a => match atom_slot a with Some s => N.max acc (s + 1) | None => acc end) pat 0.

(* ---- the parser state ---- *)
Record sub := { sb_case : nat; sb_brks : list nat; sb_save : N; sb_save_next : N; sb_depth : N }.
Record pstate := {
  p_res : list atom;     (* result *)
  p_save : N;            (* save: u8 *)
  p_depth : N;           (* depth (usize after the F10 repair) *)
  p_subs : list sub;     (* subs, innermost first *)
  p_pos : nat;           (* how far *pat has been advanced: bytes consumed at the last completed iteration *)
  p_barrier : nat        (* F19 repair: atoms before this index are break targets, wildcards are not merged into them *)
}.

Fixpoint upd {A} (l : list A) (i : nat) (x : A) : list A :=
  match l, i with
  | [], _ => []
  | _ :: t, O => x :: t
  | h :: t, S j => h :: upd t j x
  end.
Definition last_atom (l : list atom) : option atom := match rev l with a :: _ => Some a | [] => None end.
Definition set_last (l : list atom) (x : atom) : list atom := upd l (length l - 1)%nat x.

Definition is_digit (c : N) : bool := (48 <=? c) && (c <=? 57).
Definition hexval (c : N) : option N :=
  if (48 <=? c) && (c <=? 57) then Some (c - 48)
  else if (65 <=? c) && (c <=? 70) then Some (c - 65 + 10)
  else if (97 <=? c) && (c <=? 102) then Some (c - 97 + 10)
  else None.

(* the digit loops of '[': returns (value, any_digit, terminator, rest) *)
Fixpoint parse_num (rest : list N) (acc : N) (any : bool) (allow_dash : bool) : paterr + (N * bool * N * list N) :=
  match rest with
  | [] => inl ManyInvalid
  | c :: t =>
    if (c =? 93) || (allow_dash && (c =? 45)) then inr (acc, any, c, t)           (* ']' or '-' *)
    else if is_digit c then
      let acc := acc * 10 + (c - 48) in
      if 16384 <=? acc then inl ManyOverflow else parse_num t acc true allow_dash
    else inl ManyInvalid
  end.

(* the string loop of the double quote: pushes bytes until the closing quote *)
Fixpoint parse_quote (rest : list N) (res : list atom) : paterr + (list atom * list N) :=
  match rest with
  | [] => inl UnclosedQuote
  | c :: t => if c =? 34 then inr (res, t) else parse_quote t (res ++ [Byte c])
  end.

Definition fill_breaks (res : list atom) (brks : list nat) : paterr + list atom :=
  fold_left (fun acc brk =>
    match acc with
    | inl e => inl e
    | inr r => let off := (length res - brk - 1)%nat in
               if Nat.leb 256 off then inl SubOverflow else inr (upd r brk (Break (N.of_nat off)))
    end) brks (inr res).

(* one iteration of the while loop: the character [chr] has been taken, [rest] follows.
   Returns the new state, the remaining input, and whether *pat is updated (false = `continue`). *)
Definition pstep (st : pstate) (chr : N) (rest : list N) : paterr + (pstate * list N * bool) :=
  let res := p_res st in
  let keep r := inr ({| p_res := r; p_save := p_save st; p_depth := p_depth st; p_subs := p_subs st; p_pos := p_pos st; p_barrier := p_barrier st |}, rest, true) in
  if chr =? 37 then keep (res ++ [Jump1])                       (* % *)
  else if chr =? 36 then keep (res ++ [Jump4])                  (* $ *)
  else if chr =? 42 then keep (res ++ [Ptr])                    (* * *)
  else if chr =? 123 then                                       (* { *)
    if negb (Nat.ltb (p_barrier st) (length res)) then inl StackInvalid else   (* F42 repair: the jump belongs to a closed group or already has its brace *)
    match last_atom res with
    | Some Jump1 => let r := set_last res (Push 1) ++ [Jump1] in inr ({| p_res := r; p_save := p_save st; p_depth := p_depth st + 1; p_subs := p_subs st; p_pos := p_pos st; p_barrier := length r |}, rest, true)
    | Some Jump4 => let r := set_last res (Push 4) ++ [Jump4] in inr ({| p_res := r; p_save := p_save st; p_depth := p_depth st + 1; p_subs := p_subs st; p_pos := p_pos st; p_barrier := length r |}, rest, true)
    | Some Ptr => let r := set_last res (Push 0) ++ [Ptr] in inr ({| p_res := r; p_save := p_save st; p_depth := p_depth st + 1; p_subs := p_subs st; p_pos := p_pos st; p_barrier := length r |}, rest, true)
    | _ => inl StackInvalid
    end
  else if chr =? 125 then                                       (* } *)
    (* F43 repair: an alternative can only close what it opened: the floor is the depth at the '(' of the innermost open group *)
    if p_depth st <=? (match p_subs st with sb :: _ => sb_depth sb | [] => 0 end) then inl StackError
    else inr ({| p_res := res ++ [Pop]; p_save := p_save st; p_depth := p_depth st - 1; p_subs := p_subs st; p_pos := p_pos st; p_barrier := p_barrier st |}, rest, true)
  else if chr =? 40 then                                        (* ( *)
    let sb := {| sb_case := length res; sb_brks := []; sb_save := p_save st; sb_save_next := 0; sb_depth := p_depth st |} in
    inr ({| p_res := res ++ [Case 0]; p_save := p_save st; p_depth := p_depth st; p_subs := sb :: p_subs st; p_pos := p_pos st; p_barrier := p_barrier st |}, rest, true)
  else if chr =? 124 then                                       (* | *)
    match p_subs st with
    | [] => inl SubPattern
    | sb :: subs =>
      if negb (p_depth st =? sb_depth sb) then inl StackError else     (* F40 repair: a brace is still open (or one too many was closed) in this alternative *)
      let save_next := N.max (sb_save_next sb) (p_save st) in
      let brks := sb_brks sb ++ [length res] in
      let res1 := res ++ [Break 0] in
      let case_offset := (length res1 - sb_case sb - 1)%nat in
      if Nat.leb 256 case_offset then inl SubOverflow
      else
        let res2 := upd res1 (sb_case sb) (Case (N.of_nat case_offset)) in
        let sb' := {| sb_case := length res2; sb_brks := brks; sb_save := sb_save sb; sb_save_next := save_next; sb_depth := sb_depth sb |} in
        inr ({| p_res := res2 ++ [Case 0]; p_save := sb_save sb; p_depth := sb_depth sb; p_subs := sb' :: subs; p_pos := p_pos st; p_barrier := p_barrier st |}, rest, true)
    end
  else if chr =? 41 then                                        (* ) *)
    match p_subs st with
    | [] => inl SubPattern
    | sb :: subs =>
      if negb (p_depth st =? sb_depth sb) then inl StackError else     (* F40 repair *)
      let res1 := upd res (sb_case sb) Nop in
      match fill_breaks res1 (sb_brks sb) with
      | inl e => inl e
      | inr res2 => inr ({| p_res := res2; p_save := N.max (sb_save_next sb) (p_save st); p_depth := sb_depth sb; p_subs := subs; p_pos := p_pos st; p_barrier := length res2 |}, rest, true)
      end
    end
  else if chr =? 91 then                                        (* [ *)
    match parse_num rest 0 false true with
    | inl e => inl e
    | inr (lower, any, term, rest1) =>
      if negb any then inl ManyInvalid
      else
        let res1 := if 0 <? lower then (if 256 <=? lower then res ++ [Rangext (lower / 256)] else res) ++ [Skip (lower mod 256)] else res in
        if term =? 93 then
          inr ({| p_res := res1; p_save := p_save st; p_depth := p_depth st; p_subs := p_subs st; p_pos := p_pos st; p_barrier := p_barrier st |}, rest1, false)   (* continue *)
        else
          match parse_num rest1 0 false false with
          | inl e => inl e
          | inr (upper, _, _, rest2) =>
            if lower <? upper then
              let many := upper - lower in
              let res2 := (if 256 <=? many then res1 ++ [Rangext (many / 256)] else res1) ++ [Many (many mod 256)] in
              inr ({| p_res := res2; p_save := p_save st; p_depth := p_depth st; p_subs := p_subs st; p_pos := p_pos st; p_barrier := p_barrier st |}, rest2, true)
            else inl ManyRange
          end
    end
  else if (is_digit chr) || ((65 <=? chr) && (chr <=? 70)) || ((97 <=? chr) && (chr <=? 102)) then   (* hex byte *)
    let hi := if 97 <=? chr then chr - 97 + 10 else if 65 <=? chr then chr - 65 + 10 else chr - 48 in
    match rest with
    | [] => inl UnpairedHexDigit
    | c :: rest1 =>
      match hexval c with
      | None => inl UnpairedHexDigit
      | Some lo => inr ({| p_res := res ++ [Byte (hi * 16 + lo)]; p_save := p_save st; p_depth := p_depth st; p_subs := p_subs st; p_pos := p_pos st; p_barrier := p_barrier st |}, rest1, true)
      end
    end
  else if chr =? 34 then                                        (* double quote *)
    match parse_quote rest res with
    | inl e => inl e
    | inr (res1, rest1) => inr ({| p_res := res1; p_save := p_save st; p_depth := p_depth st; p_subs := p_subs st; p_pos := p_pos st; p_barrier := p_barrier st |}, rest1, true)
    end
  else if chr =? 39 then                                        (* ' *)
    if 255 <=? p_save st then inl SaveOverflow
    else inr ({| p_res := res ++ [Save (p_save st)]; p_save := p_save st + 1; p_depth := p_depth st; p_subs := p_subs st; p_pos := p_pos st; p_barrier := p_barrier st |}, rest, true)
  else if chr =? 63 then                                        (* ? *)
    match last_atom res with
    | Some (Skip k) =>
      if Nat.ltb (p_barrier st) (length res) && negb (k =? 0) && (k <? 255) then
        inr ({| p_res := set_last res (Skip (k + 1)); p_save := p_save st; p_depth := p_depth st; p_subs := p_subs st; p_pos := p_pos st; p_barrier := p_barrier st |}, rest, false)   (* continue *)
      else keep (res ++ [Skip 1])
    | _ => keep (res ++ [Skip 1])
    end
  else if chr =? 64 then                                        (* @ *)
    match rest with
    | [] => inl AlignedOperand
    | op :: rest1 =>
      let mk k := inr ({| p_res := res ++ [Aligned k]; p_save := p_save st; p_depth := p_depth st; p_subs := p_subs st; p_pos := p_pos st; p_barrier := p_barrier st |}, rest1, true) in
      if (48 <=? op) && (op <=? 57) then mk (op - 48)
      else if (65 <=? op) && (op <=? 90) then mk (10 + (op - 65))
      else if (97 <=? op) && (op <=? 122) then mk (10 + (op - 97))
      else inl AlignedOperand
    end
  else if (chr =? 105) || (chr =? 117) then                     (* i / u *)
    let signed := chr =? 105 in
    match rest with
    | c :: rest1 =>
      let mk a := if 255 <=? p_save st then inl SaveOverflow
                  else inr ({| p_res := res ++ [a]; p_save := p_save st + 1; p_depth := p_depth st; p_subs := p_subs st; p_pos := p_pos st; p_barrier := p_barrier st |}, rest1, true) in
      if c =? 49 then mk (if signed then ReadI8 (p_save st) else ReadU8 (p_save st))
      else if c =? 50 then mk (if signed then ReadI16 (p_save st) else ReadU16 (p_save st))
      else if c =? 52 then mk (if signed then ReadI32 (p_save st) else ReadU32 (p_save st))
      else inl ReadOperand
    | [] => inl ReadOperand
    end
  else if chr =? 122 then                                       (* z *)
    if 255 <=? p_save st then inl SaveOverflow
    else inr ({| p_res := res ++ [Zero (p_save st)]; p_save := p_save st + 1; p_depth := p_depth st; p_subs := p_subs st; p_pos := p_pos st; p_barrier := p_barrier st |}, rest, true)
  else if (chr =? 32) || (chr =? 10) || (chr =? 13) || (chr =? 9) then keep res
  else inl UnknownChar.

(* F42 / F43: the '{' and '}' arms as they stood (repo 2b5fc2c, before cc9193c and a8f7b6c).  '{' looked at the last atom
   only - no comparison with the barrier, the barrier stayed where it was - and '}' compared the depth with zero. *)
Definition pstep_orig42 (st : pstate) (chr : N) (rest : list N) : paterr + (pstate * list N * bool) :=
  let res := p_res st in
  if chr =? 123 then                                            (* { *)
    match last_atom res with
    | Some Jump1 => inr ({| p_res := set_last res (Push 1) ++ [Jump1]; p_save := p_save st; p_depth := p_depth st + 1; p_subs := p_subs st; p_pos := p_pos st; p_barrier := p_barrier st |}, rest, true)
    | Some Jump4 => inr ({| p_res := set_last res (Push 4) ++ [Jump4]; p_save := p_save st; p_depth := p_depth st + 1; p_subs := p_subs st; p_pos := p_pos st; p_barrier := p_barrier st |}, rest, true)
    | Some Ptr => inr ({| p_res := set_last res (Push 0) ++ [Ptr]; p_save := p_save st; p_depth := p_depth st + 1; p_subs := p_subs st; p_pos := p_pos st; p_barrier := p_barrier st |}, rest, true)
    | _ => inl StackInvalid
    end
  else if chr =? 125 then                                       (* } *)
    if p_depth st =? 0 then inl StackError
    else inr ({| p_res := res ++ [Pop]; p_save := p_save st; p_depth := p_depth st - 1; p_subs := p_subs st; p_pos := p_pos st; p_barrier := p_barrier st |}, rest, true)
  else pstep st chr rest.                                       (* every other character: unchanged *)

(* F40: the code as it stood (before cc1bd48).  At '|' and ')' the brace depth was reset to the depth at the '(' of the group
   (`depth = sub.depth;`) without comparing the two, so a '{' still open at the end of an alternative was accepted. *)
Definition pstep_orig (st : pstate) (chr : N) (rest : list N) : paterr + (pstate * list N * bool) :=
  let res := p_res st in
  if chr =? 124 then                                            (* | *)
    match p_subs st with
    | [] => inl SubPattern
    | sb :: subs =>
      let save_next := N.max (sb_save_next sb) (p_save st) in
      let brks := sb_brks sb ++ [length res] in
      let res1 := res ++ [Break 0] in
      let case_offset := (length res1 - sb_case sb - 1)%nat in
      if Nat.leb 256 case_offset then inl SubOverflow
      else
        let res2 := upd res1 (sb_case sb) (Case (N.of_nat case_offset)) in
        let sb' := {| sb_case := length res2; sb_brks := brks; sb_save := sb_save sb; sb_save_next := save_next; sb_depth := sb_depth sb |} in
        inr ({| p_res := res2 ++ [Case 0]; p_save := sb_save sb; p_depth := sb_depth sb; p_subs := sb' :: subs; p_pos := p_pos st; p_barrier := p_barrier st |}, rest, true)
    end
  else if chr =? 41 then                                        (* ) *)
    match p_subs st with
    | [] => inl SubPattern
    | sb :: subs =>
      let res1 := upd res (sb_case sb) Nop in
      match fill_breaks res1 (sb_brks sb) with
      | inl e => inl e
      | inr res2 => inr ({| p_res := res2; p_save := N.max (sb_save_next sb) (p_save st); p_depth := sb_depth sb; p_subs := subs; p_pos := p_pos st; p_barrier := length res2 |}, rest, true)
      end
    end
  else pstep_orig42 st chr rest.                                (* every other character: as it stood then *)

Definition is_redundant (a : atom) : bool :=
  match a with Skip _ | Rangext _ | Pop | Many _ => true | _ => false end.
Fixpoint trim_rev (l : list atom) : list atom :=      (* on the reversed list *)
  match l with a :: t => if is_redundant a then trim_rev t else l | [] => [] end.
Definition trim (l : list atom) : list atom := rev (trim_rev (rev l)).

(* the while loop; [total] = length of the whole input *)
Fixpoint ploop (fuel : nat) (total : nat) (st : pstate) (rest : list N) : res ((paterr * nat) + list atom) :=
  match fuel with
  | O => Fault OutOfFuel
  | S f =>
    match rest with
    | [] =>
      if negb (p_depth st =? 0) then Ok (inl (StackError, p_pos st))
      else match p_subs st with
           | _ :: _ => Ok (inl (SubPattern, p_pos st))
           | [] => Ok (inr (trim (p_res st)))
           end
    | chr :: rest1 =>
      match pstep st chr rest1 with
      | inl e => Ok (inl (e, p_pos st))
      | inr (st', rest2, update) =>
        let st'' := if update
                    then {| p_res := p_res st'; p_save := p_save st'; p_depth := p_depth st'; p_subs := p_subs st'; p_pos := (total - length rest2)%nat; p_barrier := p_barrier st' |}
                    else st' in
        ploop f total st'' rest2
      end
    end
  end.

Definition parse (input : list N) : res ((paterr * nat) + list atom) :=
  ploop (S (length input)) (length input)
        {| p_res := [Save 0]; p_save := 1; p_depth := 0; p_subs := []; p_pos := 0; p_barrier := 0 |} input.

(* the same loop around an earlier version of the step function *)
Fixpoint ploop_with (step : pstate -> N -> list N -> paterr + (pstate * list N * bool))
    (fuel : nat) (total : nat) (st : pstate) (rest : list N) : res ((paterr * nat) + list atom) :=
  match fuel with
  | O => Fault OutOfFuel
  | S f =>
    match rest with
    | [] =>
      if negb (p_depth st =? 0) then Ok (inl (StackError, p_pos st))
      else match p_subs st with
           | _ :: _ => Ok (inl (SubPattern, p_pos st))
           | [] => Ok (inr (trim (p_res st)))
           end
    | chr :: rest1 =>
      match step st chr rest1 with
      | inl e => Ok (inl (e, p_pos st))
      | inr (st', rest2, update) =>
        let st'' := if update
                    then {| p_res := p_res st'; p_save := p_save st'; p_depth := p_depth st'; p_subs := p_subs st'; p_pos := (total - length rest2)%nat; p_barrier := p_barrier st' |}
                    else st' in
        ploop_with step f total st'' rest2
      end
    end
  end.
Definition pinit : pstate := {| p_res := [Save 0]; p_save := 1; p_depth := 0; p_subs := []; p_pos := 0; p_barrier := 0 |}.
(* F40: the parser before the repair *)
Definition ploop_orig := ploop_with pstep_orig.
Definition parse_orig (input : list N) : res ((paterr * nat) + list atom) :=
  ploop_orig (S (length input)) (length input) pinit input.
(* F42 / F43: the parser before the two repairs *)
Definition parse_orig42 (input : list N) : res ((paterr * nat) + list atom) :=
  ploop_with pstep_orig42 (S (length input)) (length input) pinit input.
