(* Model of the code generation step of the `pattern` proc macro, src/proc-macros/lib.rs:31

       format!("{{ use ::pelite::pattern::Atom::*; &{:?} }}", pattern).parse().unwrap()

   i.e. of the TEXT the macro hands to rustc: the atom vector formatted with the derived Debug
   (src/proc-macros/pattern.rs:112 `#[derive(Copy, Clone, Debug, Eq, PartialEq)] pub enum Atom`), wrapped by the format
   string.  What rustc then does with the text (`str::parse::<TokenStream>`, parsing the block expression, resolving the
   names) is not code of the crate; its reading is Spec/RustTokens.v.

   The atom type is the one of the parser model (Model/Pattern.v): it has the same 26 variants as the Rust enum, in the
   same order, and every field of the Rust enum is a `u8` (20 one-field tuple variants, 6 unit variants; no signed field,
   no field wider than a byte, no struct variant) - so no minus sign and no other integer width is ever printed.

   Text is a list of bytes (N).  The constant pieces are written as Coq strings and converted to byte lists when the
   definition is elaborated ([txt "Byte"] IS the term [66; 121; 116; 101]), so that no Coq string reaches the
   extracted code. *)
From Coq Require Import String Ascii.
From PV.Model Require Export Machine Pattern Unescape.

Fixpoint bytes_of_string (s : string) : list N :=
  match s with EmptyString => [] | String c t => N_of_ascii c :: bytes_of_string t end.
Notation "'txt' s" := (ltac:(let v := eval vm_compute in (bytes_of_string s%string) in exact v)) (at level 10, only parsing).

(* ---- core::fmt for the integer fields ----
   `{:?}` without the `x?`/`X?` flags on an unsigned integer is its Display: decimal, most significant digit first,
   no padding, no sign, "0" for zero.  The digits are produced from the least significant one and prepended (as
   core::fmt::num fills its buffer from the end).  Fuel: one step per binary digit of n is more than enough. *)
Fixpoint dec_loop (fuel : nat) (n : N) (acc : list N) : list N :=
  match fuel with
  | O => acc
  | S f => let acc' := (48 + n mod 10) :: acc in
           if n / 10 =? 0 then acc' else dec_loop f (n / 10) acc'
  end.
Definition fmt_dec (n : N) : list N := dec_loop (S (N.to_nat (N.log2 n))) n [].

(* ---- #[derive(Debug)] on enum Atom ----
   unit variant  `Atom::Pop`      => f.write_str("Pop")
   tuple variant `Atom::Byte(x)`  => f.debug_tuple("Byte").field(&x).finish()
   DebugTuple without the alternate flag `#`: the name, "(" before the first field, ", " before every later one,
   ")" at finish if there was a field. *)
Definition debug_unit (name : list N) : list N := name.
Definition debug_tuple1 (name : list N) (x : N) : list N := name ++ [40] ++ fmt_dec x ++ [41].

Definition debug_atom (a : atom) : list N :=
  match a with
  | Byte b => debug_tuple1 (txt "Byte") b
  | Save s => debug_tuple1 (txt "Save") s
  | Push k => debug_tuple1 (txt "Push") k
  | Pop => debug_unit (txt "Pop")
  | Fuzzy m => debug_tuple1 (txt "Fuzzy") m
  | Skip k => debug_tuple1 (txt "Skip") k
  | Back k => debug_tuple1 (txt "Back") k
  | Rangext k => debug_tuple1 (txt "Rangext") k
  | Many k => debug_tuple1 (txt "Many") k
  | Jump1 => debug_unit (txt "Jump1")
  | Jump4 => debug_unit (txt "Jump4")
  | Ptr => debug_unit (txt "Ptr")
  | Pir s => debug_tuple1 (txt "Pir") s
  | VTypeName => debug_unit (txt "VTypeName")
  | Check s => debug_tuple1 (txt "Check") s
  | Aligned k => debug_tuple1 (txt "Aligned") k
  | ReadI8 s => debug_tuple1 (txt "ReadI8") s
  | ReadU8 s => debug_tuple1 (txt "ReadU8") s
  | ReadI16 s => debug_tuple1 (txt "ReadI16") s
  | ReadU16 s => debug_tuple1 (txt "ReadU16") s
  | ReadI32 s => debug_tuple1 (txt "ReadI32") s
  | ReadU32 s => debug_tuple1 (txt "ReadU32") s
  | Zero s => debug_tuple1 (txt "Zero") s
  | Case k => debug_tuple1 (txt "Case") k
  | Break k => debug_tuple1 (txt "Break") k
  | Nop => debug_unit (txt "Nop")
  end.

(* ---- <Vec<Atom> as Debug>::fmt = f.debug_list().entries(self.iter()).finish() ----
   DebugList without the alternate flag: "[", then for every entry ", " if an entry was already written and the
   entry's own Debug, then "]". *)
Fixpoint debug_entries (l : list atom) (has_fields : bool) : list N :=
  match l with
  | [] => []
  | a :: t => (if has_fields then [44; 32] else []) ++ debug_atom a ++ debug_entries t true
  end.
Definition debug_atoms (l : list atom) : list N := [91] ++ debug_entries l false ++ [93].

(* ---- format!(..) with one argument formatted by `{:?}` ----
   The format string of lib.rs:31, as the contents of the literal in the source.  format_args! reads it at the
   macro crate's compile time: "{{" and "}}" are the escaped braces, "{:?}" is the next positional argument with
   Debug; any other brace makes the macro crate itself not compile (None). *)
Definition format_string : list N := txt "{{ use ::pelite::pattern::Atom::*; &{:?} }}".

Fixpoint rust_format (fmt : list N) (arg : list N) : option (list N) :=
  match fmt with
  | [] => Some []
  | c :: t =>
    if c =? 123 then                                 (* { *)
      match t with
      | c1 :: t1 =>
        if c1 =? 123 then option_map (cons 123) (rust_format t1 arg)
        else match t1 with
             | c2 :: c3 :: t3 =>
               if (c1 =? 58) && (c2 =? 63) && (c3 =? 125)              (* :?} *)
               then option_map (app arg) (rust_format t3 arg) else None
             | _ => None
             end
      | [] => None
      end
    else if c =? 125 then                            (* } *)
      match t with
      | c1 :: t1 => if c1 =? 125 then option_map (cons 125) (rust_format t1 arg) else None
      | [] => None
      end
    else option_map (cons c) (rust_format t arg)
  end.

(* the text of the expansion for an atom vector ([] only if the format string were malformed: it is not, see
   CodegenProofs.expansion_eq) *)
Definition expansion (atoms : list atom) : list N :=
  match rust_format format_string (debug_atoms atoms) with Some s => s | None => [] end.

(* ---- the macro up to the text it returns (lib.rs:9-31) ---- *)
Inductive macro_text :=
| TExpands (text : list N)            (* the string that is parsed into the returned TokenStream *)
| TLiteral (r : lit_reject)
| TPattern (e : paterr) (pos : nat)
| TFault (f : fault).

Definition macro_expansion (lit : list N) : macro_text :=
  match macro_model lit with
  | MExpands atoms => TExpands (expansion atoms)
  | MLiteral r => TLiteral r
  | MPattern e pos => TPattern e pos
  | MFault f => TFault f
  end.

(* ---- the value range of the Rust field type: every field is a u8 ---- *)
Definition atom_field (a : atom) : option N :=
  match a with
  | Byte x | Save x | Push x | Fuzzy x | Skip x | Back x | Rangext x | Many x | Pir x | Check x | Aligned x
  | ReadI8 x | ReadU8 x | ReadI16 x | ReadU16 x | ReadI32 x | ReadU32 x | Zero x | Case x | Break x => Some x
  | Pop | Jump1 | Jump4 | Ptr | VTypeName | Nop => None
  end.
Definition atom_u8 (a : atom) : Prop := match atom_field a with Some x => x < 256 | None => True end.
