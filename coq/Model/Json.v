(* Abstract JSON values, the compact printer of serde_json (`serde_json::to_string`), and a
   parser / validator of the compact RFC 8259 grammar.

   A JSON string is the list of the bytes of its UTF-8 text (every string pelite serializes is a
   Rust &str, i.e. UTF-8); numbers are the unsigned integers (pelite serializes u8..u64 / usize
   only); an object is the ORDERED list of its members (serde_json's struct / map serializers
   write the members in the order they are given, duplicate keys included).

   [print_json] mirrors serde_json's CompactFormatter: no white space, `,` and `:` separators,
   strings between quotes with the escapes of serde_json::ser::format_escaped_str_contents
   (backslash-quote, \\ \b \f \n \r \t, \u00XX with lower-case hex for the other bytes below 0x20, every other
   byte - 0x7F and the UTF-8 multi-byte sequences included - as it is), integers in decimal
   without sign or leading zeros.

   [parse_json] accepts exactly the white-space-free texts of the RFC 8259 grammar whose numbers
   are unsigned integers (`0` or a non-zero digit followed by digits): every escape of the RFC
   (backslash-quote, \\ \/ \b \f \n \r \t \uXXXX) is accepted, a raw byte below 0x20 inside a string is
   rejected, a leading zero is rejected.  Strings are handled as bytes: UTF-8 validity of the
   text between the quotes is the separate predicate [utf8_valid].  [well_formed] is
   "parse_json succeeds".  It is a validator of a SUBSET of JSON (no white space, no sign,
   fraction or exponent): what it accepts is well-formed JSON. *)
From PV.Model Require Export Machine.

Inductive json :=
| JNull
| JBool (b : bool)
| JNum (n : N)
| JStr (s : list N)
| JArr (l : list json)
| JObj (l : list (list N * json)).

(* ------------------------------------------------------------------ printer *)

(* serde_json: HEX_DIGITS = b"0123456789abcdef" *)
Definition hexd (d : N) : N := if d <? 10 then 48 + d else 87 + d.
Definition esc_byte (b : N) : list N :=
  if b =? 34 then [92; 34]                       (* backslash, quote *)
  else if b =? 92 then [92; 92]                  (* \\ *)
  else if b =? 8 then [92; 98]                   (* \b *)
  else if b =? 12 then [92; 102]                 (* \f *)
  else if b =? 10 then [92; 110]                 (* \n *)
  else if b =? 13 then [92; 114]                 (* \r *)
  else if b =? 9 then [92; 116]                  (* \t *)
  else if b <? 32 then [92; 117; 48; 48; hexd (b / 16); hexd (b mod 16)]    (* \u00XX *)
  else [b].
Definition print_str (s : list N) : list N := 34 :: flat_map esc_byte s ++ [34].

(* itoa: most significant digit first; fuel = number of bits + 1 *)
Fixpoint dec (fuel : nat) (n : N) : list N :=
  match fuel with
  | O => []
  | S k => if n <? 10 then [48 + n] else dec k (n / 10) ++ [48 + n mod 10]
  end.
Definition print_num (n : N) : list N := dec (S (N.to_nat (N.size n))) n.

Definition lit_null : list N := [110; 117; 108; 108].
Definition lit_true : list N := [116; 114; 117; 101].
Definition lit_false : list N := [102; 97; 108; 115; 101].

Section Sep.
  Context {A : Type} (pr : A -> list N).
  (* x1,x2,...,xn *)
  Fixpoint print_sep (l : list A) : list N :=
    match l with
    | [] => []
    | [x] => pr x
    | x :: t => pr x ++ 44 :: print_sep t
    end.
End Sep.

Fixpoint print_json (j : json) : list N :=
  match j with
  | JNull => lit_null
  | JBool true => lit_true
  | JBool false => lit_false
  | JNum n => print_num n
  | JStr s => print_str s
  | JArr l => 91 :: print_sep print_json l ++ [93]
  | JObj l => 123 :: print_sep (fun kv => match kv with (k, v) => print_str k ++ 58 :: print_json v end) l ++ [125]
  end.

(* ------------------------------------------------------------------ parser *)

Definition is_digit (c : N) : bool := (48 <=? c) && (c <=? 57).
Fixpoint take_digits (s : list N) : list N * list N :=
  match s with
  | [] => ([], [])
  | c :: t => if is_digit c then let (d, r) := take_digits t in (c :: d, r) else ([], s)
  end.
Definition dvalue (ds : list N) : N := fold_left (fun a d => 10 * a + (d - 48)) ds 0.
Definition parse_num (s : list N) : option (N * list N) :=
  let (ds, rest) := take_digits s in
  match ds with
  | [] => None
  | d :: t => if (d =? 48) && negb (match t with [] => true | _ => false end) then None else Some (dvalue ds, rest)
  end.

Fixpoint strip_prefix (p s : list N) : option (list N) :=
  match p with
  | [] => Some s
  | a :: p' => match s with b :: s' => if a =? b then strip_prefix p' s' else None | [] => None end
  end.

Definition hexv (c : N) : option N :=
  if (48 <=? c) && (c <=? 57) then Some (c - 48)
  else if (97 <=? c) && (c <=? 102) then Some (c - 87)
  else if (65 <=? c) && (c <=? 70) then Some (c - 55)
  else None.
(* the UTF-8 bytes of a code point below 2^16 *)
Definition utf8_enc (cp : N) : list N :=
  if cp <? 128 then [cp]
  else if cp <? 2048 then [192 + cp / 64; 128 + cp mod 64]
  else [224 + cp / 4096; 128 + (cp / 64) mod 64; 128 + cp mod 64].
Definition unesc (e : N) : option N :=
  if e =? 34 then Some 34 else if e =? 92 then Some 92 else if e =? 47 then Some 47
  else if e =? 98 then Some 8 else if e =? 102 then Some 12 else if e =? 110 then Some 10
  else if e =? 114 then Some 13 else if e =? 116 then Some 9 else None.

(* after the opening quote: the decoded bytes and what follows the closing quote *)
Fixpoint parse_str_body (s : list N) : option (list N * list N) :=
  match s with
  | [] => None
  | c :: t =>
    if c =? 34 then Some ([], t)
    else if c =? 92 then
      match t with
      | [] => None
      | e :: t1 =>
        if e =? 117 then
          match t1 with
          | h1 :: h2 :: h3 :: h4 :: t2 =>
            match hexv h1, hexv h2, hexv h3, hexv h4 with
            | Some a, Some b, Some c', Some d =>
              match parse_str_body t2 with
              | Some (r, rest) => Some (utf8_enc (4096 * a + 256 * b + 16 * c' + d) ++ r, rest)
              | None => None
              end
            | _, _, _, _ => None
            end
          | _ => None
          end
        else
          match unesc e with
          | Some b => match parse_str_body t1 with Some (r, rest) => Some (b :: r, rest) | None => None end
          | None => None
          end
      end
    else if c <? 32 then None
    else match parse_str_body t with Some (r, rest) => Some (c :: r, rest) | None => None end
  end.
Definition parse_str (s : list N) : option (list N * list N) :=
  match s with c :: t => if c =? 34 then parse_str_body t else None | [] => None end.

(* value / elements up to `]` / members up to `}` ; one unit of fuel per call *)
Fixpoint parse_value (fuel : nat) (s : list N) : option (json * list N) :=
  match fuel with
  | O => None
  | S k =>
    match s with
    | [] => None
    | c :: t =>
      if c =? 110 then match strip_prefix lit_null s with Some r => Some (JNull, r) | None => None end
      else if c =? 116 then match strip_prefix lit_true s with Some r => Some (JBool true, r) | None => None end
      else if c =? 102 then match strip_prefix lit_false s with Some r => Some (JBool false, r) | None => None end
      else if c =? 34 then match parse_str_body t with Some (x, r) => Some (JStr x, r) | None => None end
      else if c =? 91 then
        match t with
        | [] => None
        | c2 :: r => if c2 =? 93 then Some (JArr [], r)
                     else match parse_elems k t with Some (l, r') => Some (JArr l, r') | None => None end
        end
      else if c =? 123 then
        match t with
        | [] => None
        | c2 :: r => if c2 =? 125 then Some (JObj [], r)
                     else match parse_members k t with Some (l, r') => Some (JObj l, r') | None => None end
        end
      else match parse_num s with Some (n, r) => Some (JNum n, r) | None => None end
    end
  end
with parse_elems (fuel : nat) (s : list N) : option (list json * list N) :=
  match fuel with
  | O => None
  | S k =>
    match parse_value k s with
    | None => None
    | Some (v, r) =>
      match r with
      | [] => None
      | c :: r' =>
        if c =? 93 then Some ([v], r')
        else if c =? 44 then match parse_elems k r' with Some (l, r'') => Some (v :: l, r'') | None => None end
        else None
      end
    end
  end
with parse_members (fuel : nat) (s : list N) : option (list (list N * json) * list N) :=
  match fuel with
  | O => None
  | S k =>
    match parse_str s with
    | None => None
    | Some (key, r0) =>
      match r0 with
      | [] => None
      | c0 :: r1 =>
        if c0 =? 58 then
          match parse_value k r1 with
          | None => None
          | Some (v, r) =>
            match r with
            | [] => None
            | c :: r' =>
              if c =? 125 then Some ([(key, v)], r')
              else if c =? 44 then match parse_members k r' with Some (l, r'') => Some ((key, v) :: l, r'') | None => None end
              else None
            end
          end
        else None
      end
    end
  end.

Definition parse_json (s : list N) : option json :=
  match parse_value (S (length s)) s with
  | Some (j, []) => Some j
  | _ => None
  end.
Definition well_formed (s : list N) : bool := match parse_json s with Some _ => true | None => false end.

(* ------------------------------------------------------------------ UTF-8 (RFC 3629), the check of str::from_utf8 *)
Definition cont (b : N) : bool := (128 <=? b) && (b <=? 191).
Fixpoint utf8_valid_fuel (fuel : nat) (s : list N) : bool :=
  match fuel with
  | O => false
  | S k =>
    match s with
    | [] => true
    | b0 :: t =>
      if b0 <? 128 then utf8_valid_fuel k t
      else if (194 <=? b0) && (b0 <=? 223) then
        match t with b1 :: t' => cont b1 && utf8_valid_fuel k t' | _ => false end
      else if (224 <=? b0) && (b0 <=? 239) then
        match t with
        | b1 :: b2 :: t' =>
          cont b1 && cont b2
          && (if b0 =? 224 then 160 <=? b1 else true)        (* no overlong *)
          && (if b0 =? 237 then b1 <=? 159 else true)        (* no surrogates *)
          && utf8_valid_fuel k t'
        | _ => false
        end
      else if (240 <=? b0) && (b0 <=? 244) then
        match t with
        | b1 :: b2 :: b3 :: t' =>
          cont b1 && cont b2 && cont b3
          && (if b0 =? 240 then 144 <=? b1 else true)        (* no overlong *)
          && (if b0 =? 244 then b1 <=? 143 else true)        (* at most U+10FFFF *)
          && utf8_valid_fuel k t'
        | _ => false
        end
      else false
    end
  end.
Definition utf8_valid (s : list N) : bool := utf8_valid_fuel (S (length s)) s.

(* ------------------------------------------------------------------ lookups *)
Fixpoint list_eqb (a b : list N) : bool :=
  match a, b with
  | [], [] => true
  | x :: a', y :: b' => (x =? y) && list_eqb a' b'
  | _, _ => false
  end.
Fixpoint assoc (k : list N) (l : list (list N * json)) : option json :=
  match l with
  | [] => None
  | (k', v) :: t => if list_eqb k k' then Some v else assoc k t
  end.
(* object member by key (the first one) *)
Definition jfield (k : list N) (j : json) : option json :=
  match j with JObj l => assoc k l | _ => None end.
(* array element by position *)
Definition jindex (i : nat) (j : json) : option json :=
  match j with JArr l => nth_error l i | _ => None end.
Inductive jstep := Key (k : list N) | Idx (i : nat).
Fixpoint json_get (p : list jstep) (j : json) : option json :=
  match p with
  | [] => Some j
  | Key k :: p' => match jfield k j with Some x => json_get p' x | None => None end
  | Idx i :: p' => match jindex i j with Some x => json_get p' x | None => None end
  end.
Definition jkeys (j : json) : list (list N) := match j with JObj l => map fst l | _ => [] end.

(* Serialize for Option<T> *)
Definition jopt {A} (to : A -> json) (o : option A) : json := match o with Some x => to x | None => JNull end.
