(* Model of the tenth member of `serialize_pe` (src/pe64/pe.rs:621), "resources":

     pe.resources().ok()                      src/pe64/pe.rs:564 (Pe::resources: data directory 2, slice_bytes, clamp to Size)
     Serialize for Resources                  src/resources/mod.rs `mod serde`:  root() Ok -> Walk { depth 0, toplevel }, Err -> null
     Serialize for Walk                       dir.entries().take_while(budget).map(WalkEntry) collected as a sequence
     Serialize for WalkEntry                  { "name": .., "directory": [..] | "data": {..} | "directory"/"data": null }
     Serialize for Name, for DataEntry

   built on the resource model of C12 (Model/Resources.v: Directory::try_from, DirectoryEntry::name / entry / is_dir,
   entries(), fsck_budget, RSRC_TYPES) and on the lossy UTF-16 formatter of Model/Util.v ([Util.fmt_display] =
   decode_utf16(..).map(|r| r.unwrap_or(REPLACEMENT_CHARACTER)) collected into UTF-8 = String::from_utf16_lossy).

   The budget is the shared `Cell<usize>`: it is threaded through the walk as a value (in, out).  The order of the
   operations is the order of the code: the closure of take_while runs first (reads the budget, stores
   budget.saturating_sub(1), answers budget > 0 - the entry that finds 0 ends the sequence and leaves 0), then the name is
   serialized (no budget), then the entry: a sub-directory is walked with the budget as it is then, and the next sibling
   sees what the sub-walk left.

   Depth: `Walk.depth` counts from 0; WalkEntry follows a sub-directory only `if self.depth + 1 < FSCK_MAX_DEPTH`.  The
   fuel [d] of [jwalk] is FSCK_MAX_DEPTH - 1 - depth: at fuel 0 (depth 31) no sub-directory is followed ([below = None]) and
   the arm `_ =>` writes the key named by is_dir() with null.  No fuel runs out: the recursion ends by construction. *)
From Coq Require Import Strings.String.
From PV.Model Require Import JsonStr.
From PV.Model Require Export Machine Mapping Views Headers Wrap WrapDirs Json WrapJson.
From PV.Model Require Resources Util.
From PV.gen Require Import Layout.

Definition k_name : list N := S_"name".
Definition k_directory : list N := S_"directory".
Definition k_data : list N := S_"data".
Definition k_address : list N := S_"address".
Definition k_size : list N := S_"size".
Definition k_code_page : list N := S_"code_page".
Definition k_res_member : list N := S_"resources".

(* mod.rs:596 Serialize for Name: Id -> number, Wide -> String::from_utf16_lossy, Str -> the str *)
Definition json_name (n : Resources.name) : res json :=
  match n with
  | Resources.NId id => Ok (JNum id)
  | Resources.NWide ws => s <- Util.fmt_display ws ;; Ok (JStr s)
  | Resources.NStr cs => Ok (JStr cs)
  end.
(* mod.rs:263 Name::rename_id(&RSRC_TYPES): names.get(id as usize) is Some(&Some(name)) *)
Definition rename_id (n : Resources.name) : Resources.name :=
  match n with
  | Resources.NId id => match Resources.rsrc_type id with Some nm => Resources.NStr nm | None => n end
  | _ => n
  end.
(* mod.rs:610 Serialize for DataEntry: image().OffsetToData, size(), code_page() *)
Definition json_data_entry (s : Resources.rsec) (o : N) : json :=
  JObj [ (k_address, JNum (Resources.rd32 s o)); (k_size, JNum (Resources.data_size s o)); (k_code_page, JNum (Resources.data_cp s o)) ].

Section JWalkLoop.
  Variable s : Resources.rsec.
  (* the walk of a sub-directory (offset, budget) when `depth + 1 < FSCK_MAX_DEPTH`, None at the depth limit *)
  Variable below : option (N -> N -> res (list json * N)).
  Variable toplevel : bool.
  (* mod.rs:557 Serialize for Walk over the remaining entries, :567 Serialize for WalkEntry for each: (items, budget left) *)
  Fixpoint jwalk_loop (es : list N) (b : N) {struct es} : res (list json * N) :=
    match es with
    | [] => Ok ([], b)
    | e :: r =>
      (* take_while: budget.set(budget.saturating_sub(1)); budget > 0 *)
      if b =? 0 then Ok ([], 0) else
      let b1 := b - 1 in
      (* "name": entry.name().ok(), renamed at the top level *)
      on <- ok_ (Resources.e_name s e) ;;
      jn <- jopt_res json_name (if toplevel then option_map rename_id on else on) ;;
      en <- ok_ (Resources.e_entry s e) ;;
      mb <- match en, below with
            | Some (Resources.EDir o), Some walk_below =>
              sub <- walk_below o b1 ;; Ok ((k_directory, JArr (fst sub)), snd sub)
            | Some (Resources.EData o), _ => Ok ((k_data, json_data_entry s o), b1)
            | _, _ => Ok ((if Resources.e_is_dir s e then k_directory else k_data, JNull), b1)
            end ;;
      rest <- jwalk_loop r (snd mb) ;;
      Ok (JObj [ (k_name, jn); fst mb ] :: fst rest, snd rest)
    end.
End JWalkLoop.

(* Walk { dir: off, depth: FSCK_MAX_DEPTH - 1 - d, toplevel } with the budget cell holding [b] *)
Fixpoint jwalk (d : nat) (s : Resources.rsec) (off : N) (toplevel : bool) (b : N) {struct d} : res (list json * N) :=
  jwalk_loop s (match d with O => None | S d' => Some (fun o b' => jwalk d' s o false b') end) toplevel (Resources.entries s off) b.

(* the fuel of the root walk: depth 0 *)
Definition JRES_DEPTH : nat := pred Resources.FSCK_DEPTH.

(* mod.rs:583 Serialize for Resources *)
Definition json_resources (s : Resources.rsec) : res json :=
  match Resources.root s with
  | Ok r => w <- jwalk JRES_DEPTH s r true (Resources.fsck_budget s) ;; Ok (JArr (fst w))
  | Err _ => Ok JNull
  | Fault x => Fault x
  end.

(* mod.rs:591 Serialize for Directory: Walk { dir, budget: fsck_budget(resources), depth: 0, toplevel: false } *)
Definition json_directory (s : Resources.rsec) (off : N) : res json :=
  w <- jwalk JRES_DEPTH s off false (Resources.fsck_budget s) ;; Ok (JArr (fst w)).
(* mod.rs:605 Serialize for DirectoryEntry: WalkEntry { entry, budget: fsck_budget(resources), depth: 0, toplevel: false }:
   the entry itself is not counted against the budget (take_while sits in Walk), a sub-directory is the Walk of depth 1 *)
Definition json_dir_entry (s : Resources.rsec) (e : N) : res json :=
  w <- jwalk_loop s (match JRES_DEPTH with O => None | S d' => Some (fun o b' => jwalk d' s o false b') end) false [e]
         (Resources.fsck_budget s + 1) ;;
  match fst w with j :: _ => Ok j | [] => Ok JNull end.

(* pe.rs:564 Pe::resources on a file or a mapped view *)
Definition acc_resources (f : fmt) (file : bool) (m : mem) : res Resources.rsec :=
  d <- dir_entry f m IMAGE_DIRECTORY_ENTRY_RESOURCE ;;
  r <- op_slice_bytes f file m (fst d) ;;
  Ok {| Resources.rs_addr := m_addr m + r_off r; Resources.rs_len := N.min (snd d) (r_len r);
        Resources.rs_get := fun i => m_get m (r_off r + i); Resources.rs_va := fst d |}.

(* pe.rs:621 the member: pe.resources().ok() *)
Definition json_resources_member (f : fmt) (file : bool) (m : mem) : res json :=
  ors <- ok_ (acc_resources f file m) ;; jopt_res json_resources ors.

(* pe.rs:608 serialize_pe, all ten members *)
Definition json_of_image_full (f : fmt) (file : bool) (m : mem) : res json :=
  jh <- json_headers f m ;;
  jr <- json_rich m ;;
  je <- json_exports f file m ;;
  ji <- json_imports f file m ;;
  jb <- json_base_relocs f file m ;;
  jd <- json_debug f file m ;;
  jt <- json_tls f file m ;;
  jl <- json_load_config f file m ;;
  js <- json_security f file m ;;
  jres <- json_resources_member f file m ;;
  Ok (JObj [ (k_headers, jh); (k_rich_structure, jr); (k_exports, je); (k_imports, ji); (k_base_relocs, jb);
             (k_debug, jd); (k_tls, jt); (k_load_config, jl); (k_security, js); (k_res_member, jres) ]).

Definition wrap_json_full (w : wrapped) (file : bool) (m : mem) : res json := dispatch w (fun f => json_of_image_full f file m).
Definition wrap_json_full_text (w : wrapped) (file : bool) (m : mem) : res (list N) :=
  j <- wrap_json_full w file m ;; Ok (print_json j).
