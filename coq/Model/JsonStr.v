(* String literals as byte lists: [S_ "abc"] is the list [97; 98; 99], computed when the
   definition is elaborated (no Coq string survives into the model or the extraction). *)
From Coq Require Import Strings.String Strings.Ascii NArith List.

Fixpoint str (s : string) : list N :=
  match s with
  | EmptyString => nil
  | String a r => cons (N_of_ascii a) (str r)
  end.

Notation S_ x := (ltac:(let v := eval vm_compute in (str x%string) in exact v)) (only parsing).
