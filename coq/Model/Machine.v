(* Machine.v — shared vocabulary of every model file.

   Numbers are [N].  A Rust integer operation is modelled by its kind:
   wrapping ops are [mod 2^w]; a plain [+ - *] is a checked op whose overflow is
   the distinguished outcome [Fault POverflow] (debug-build semantics);
   unchecked memory accesses fault with [UBOob]/[UBAlign]; loops that are not
   structurally recursive run on explicit fuel and return [Fault OutOfFuel]
   when it is exhausted.  No proofs live in Model/ files beyond trivial
   computation lemmas, so the model still extracts when a proof breaks. *)

From Coq Require Export List Bool NArith Lia ZArith ZifyN ZifyBool.
Export ListNotations.
Open Scope N_scope.
Open Scope bool_scope.

(* pelite::Error *)
Inductive error :=
| ENull | EBounds | EZeroFill | EUnmapped | EMisaligned | EBadMagic | EPeMagic
| EInsanity | EInvalid | EOverflow | EEncoding | EAliasing.

Inductive fault :=
| POverflow | PIndex | PSliceOrder | PCopyLen | PUnwrap | PAssert   (* panics *)
| UBOob | UBAlign                                                  (* undefined behaviour *)
| OutOfFuel.                                                       (* non-termination *)

Inductive res (A : Type) :=
| Ok (a : A)
| Err (e : error)
| Fault (f : fault).
Arguments Ok {A} a.
Arguments Err {A} e.
Arguments Fault {A} f.

Definition bind {A B} (r : res A) (k : A -> res B) : res B :=
  match r with Ok a => k a | Err e => Err e | Fault f => Fault f end.
Notation "x <- r ;; k" := (bind r (fun x => k)) (at level 61, r at next level, right associativity).

Definition is_panic (f : fault) : bool :=
  match f with POverflow | PIndex | PSliceOrder | PCopyLen | PUnwrap | PAssert => true | _ => false end.
Definition is_ub (f : fault) : bool :=
  match f with UBOob | UBAlign => true | _ => false end.

Definition no_fault {A} (r : res A) : Prop := forall f, r <> Fault f.

Definition error_eqb (a b : error) : bool :=
  match a, b with
  | ENull, ENull | EBounds, EBounds | EZeroFill, EZeroFill | EUnmapped, EUnmapped
  | EMisaligned, EMisaligned | EBadMagic, EBadMagic | EPeMagic, EPeMagic
  | EInsanity, EInsanity | EInvalid, EInvalid | EOverflow, EOverflow
  | EEncoding, EEncoding | EAliasing, EAliasing => true
  | _, _ => false
  end.

(* ---- machine words ---- *)
Definition W8  : N := 256.
Definition W16 : N := 65536.
Definition W32 : N := 4294967296.
Definition W64 : N := 18446744073709551616.

Definition wrap32 (x : N) : N := x mod W32.
Definition wrap64 (x : N) : N := x mod W64.
Definition wadd32 (a b : N) : N := (a + b) mod W32.
Definition wsub32 (a b : N) : N := (a + W32 - b mod W32) mod W32.
Definition wadd64 (a b : N) : N := (a + b) mod W64.
Definition wsub64 (a b : N) : N := (a + W64 - b mod W64) mod W64.
Definition satsub (a b : N) : N := a - b.        (* N subtraction already saturates *)

Definition chk_add (w a b : N) : res N := if a + b <? w then Ok (a + b) else Fault POverflow.
Definition chk_sub (a b : N) : res N := if b <=? a then Ok (a - b) else Fault POverflow.
Definition chk_mul (w a b : N) : res N := if a * b <? w then Ok (a * b) else Fault POverflow.
Definition checked_add (w a b : N) : option N := if a + b <? w then Some (a + b) else None.
Definition checked_mul (w a b : N) : option N := if a * b <? w then Some (a * b) else None.

(* x.align_to(a) for a power of two a on a w-wide unsigned: (x + a-1) wrapping, then mask *)
Definition align_to (w a x : N) : N := (((x + (a - 1)) mod w) / a) * a.
Definition aligned_to (a x : N) : bool := x mod a =? 0.

(* ---- little-endian byte lists ---- *)
Definition byte_at (l : list N) (i : N) : N := nth (N.to_nat i) l 0.
Definition u16_at (l : list N) (i : N) : N := byte_at l i + 256 * byte_at l (i + 1).
Definition u32_at (l : list N) (i : N) : N :=
  byte_at l i + 256 * byte_at l (i + 1) + 65536 * byte_at l (i + 2) + 16777216 * byte_at l (i + 3).
Definition le16 (x : N) : list N := [x mod 256; (x / 256) mod 256].
Definition le32 (x : N) : list N :=
  [x mod 256; (x / 256) mod 256; (x / 65536) mod 256; (x / 16777216) mod 256].
Definition lenN {A} (l : list A) : N := N.of_nat (length l).
Definition bytes_ok (l : list N) : Prop := Forall (fun b => b < 256) l.

#[global] Arguments N.add : simpl never.
#[global] Arguments N.sub : simpl never.
#[global] Arguments N.mul : simpl never.
#[global] Arguments N.ltb : simpl never.
#[global] Arguments N.leb : simpl never.
#[global] Arguments N.eqb : simpl never.
#[global] Arguments N.modulo : simpl never.
#[global] Arguments N.div : simpl never.
#[global] Arguments N.max : simpl never.
#[global] Arguments N.min : simpl never.
#[global] Arguments N.pow : simpl never.
#[global] Arguments N.to_nat : simpl never.
#[global] Arguments N.of_nat : simpl never.
