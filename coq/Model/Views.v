(* Model of the view layer of src/pe64/pe.rs: rva<->va conversion, mapped-view
   slicing/reading, the File/Section dispatch, and the typed read family
   (the derva and deref families), CStr::from_bytes.  A [view] is what a PeFile/PeView value
   holds after validation: the buffer (address, length, contents), the align kind,
   and the header fields the functions consult. *)
From PV.Model Require Export Machine Mapping.

Record view := {
  v_file : bool;          (* Align::File (PeFile) or Align::Section (PeView) *)
  v_addr : N;             (* machine address of image[0] *)
  v_len : N;              (* image.len() *)
  v_get : N -> N;         (* image[i] *)
  v_w : N;                (* 2^32 for PE32, 2^64 for PE32+ : width of Va *)
  v_base : N;             (* image_base(): ImageBase for files, base_address for views *)
  v_soh : N;              (* SizeOfHeaders *)
  v_soi : N;              (* SizeOfImage *)
  v_secs : list section
}.

(* pe.rs:179 rva_to_va, after the F25 repair (checked_add -> Overflow) *)
Definition rva_to_va (v : view) (rva : N) : res N :=
  if rva =? 0 then Err ENull
  else if rva <? v_soi v then
    match checked_add (v_w v) (v_base v) rva with Some va => Ok va | None => Err EOverflow end
  else Err EBounds.
Definition rva_to_va_orig (v : view) (rva : N) : res N :=
  if rva =? 0 then Err ENull
  else if rva <? v_soi v then chk_add (v_w v) (v_base v) rva
  else Err EBounds.

(* pe.rs:204 va_to_rva *)
Definition va_to_rva (v : view) (va : N) : res N :=
  if va =? 0 then Err ENull
  else if (va <? v_base v) || (v_soi v <? va - v_base v) then Err EBounds
  else Ok ((va - v_base v) mod W32).

(* pe.rs:655 slice_section *)
Definition slice_section (addr len rva min_size align : N) : res region :=
  if rva =? 0 then Err ENull
  else if negb (aligned_to align (wadd64 addr rva)) then Err EMisaligned
  else match get_from len rva with
       | Some b => if min_size <=? r_len b then Ok b else Err EBounds
       | None => Err EBounds
       end.

(* pe.rs:670 read_section *)
Definition read_section (v : view) (va min_size align : N) : res region :=
  if va =? 0 then Err ENull
  else if (va <? v_base v) || (v_soi v <? va - v_base v) then Err EBounds
  else
    let start := va - v_base v in
    if negb (aligned_to align (wadd64 (v_addr v) start)) then Err EMisaligned
    else match get_from (v_len v) start with
         | Some b => if min_size <=? r_len b then Ok b else Err EBounds
         | None => Err EBounds
         end.

(* pe.rs:730 read_file (with the F3 re-check of the returned pointer) *)
Definition read_file (v : view) (va min_size align : N) : res region :=
  if va =? 0 then Err ENull
  else if (va <? v_base v) || (v_soi v <? va - v_base v) then Err EBounds
  else
    let rva := (va - v_base v) mod W32 in
    if negb (aligned_to align (wadd64 (v_addr v) rva)) then Err EMisaligned
    else
      r <- range_file (v_len v) (v_secs v) rva min_size ;;
      if negb (aligned_to align (v_addr v + r_off r)) then Err EMisaligned else Ok r.

(* pe.rs:236 slice, :280 read *)
Definition slice (v : view) (rva min_size align : N) : res region :=
  if v_file v then slice_file (v_addr v) (v_len v) (v_secs v) rva min_size align
  else slice_section (v_addr v) (v_len v) rva min_size align.
Definition read (v : view) (va min_size align : N) : res region :=
  if v_file v then read_file v va min_size align else read_section v va min_size align.

(* ---- typed reads; [sl] is [slice v] for the derva family and [read v] for the deref family ---- *)
Section Typed.
  Variable get : N -> N.                       (* buffer contents *)
  Variable sl : N -> N -> N -> res region.     (* address -> min_size -> align -> bytes *)

  (* little-endian value of the [size] bytes at [off] *)
  Fixpoint le_value (off : N) (size : nat) : N :=
    match size with O => 0 | S k => get off + 256 * le_value (off + 1) k end.

  Definition rd (a size align : N) : res region :=                 (* derva / deref *)
    r <- sl a size align ;; Ok {| r_off := r_off r; r_len := size |}.
  Definition rd_copy (a size : N) : res region :=                  (* derva_copy, derva_into *)
    r <- sl a size 1 ;; Ok {| r_off := r_off r; r_len := size |}.
  Definition rd_slice (a size align len : N) : res region :=       (* derva_slice *)
    match checked_mul W64 size len with
    | None => Err EOverflow
    | Some m => r <- sl a m align ;; Ok {| r_off := r_off r; r_len := m |}
    end.

  (* the loop of derva_slice_f: n counts elements already accepted *)
  Fixpoint scan_f (fuel : nat) (p : N -> bool) (off blen size n : N) : res N :=
    match fuel with
    | O => Fault OutOfFuel
    | S fuel' =>
      let o := n * size in
      if blen <? o + size then Err EBounds
      else if p (le_value (off + o) (N.to_nat size)) then Ok n
      else scan_f fuel' p off blen size (n + 1)
    end.
  Definition rd_slice_f (a size align : N) (p : N -> bool) : res region :=
    r <- sl a 0 align ;;
    n <- scan_f (S (N.to_nat (r_len r / size))) p (r_off r) (r_len r) size 0 ;;
    Ok {| r_off := r_off r; r_len := n * size |}.
  Definition rd_slice_s (a size align sentinel : N) : res region :=
    rd_slice_f a size align (fun x => x =? sentinel).

  (* CStr::from_bytes: position of the first NUL among [n] bytes starting at [off] *)
  Fixpoint find_nul (off : N) (n : nat) : option N :=
    match n with
    | O => None
    | S k => if get off =? 0 then Some 0
             else match find_nul (off + 1) k with Some i => Some (i + 1) | None => None end
    end.
  Definition rd_c_str (a : N) : res region :=
    r <- sl a 0 1 ;;
    match find_nul (r_off r) (N.to_nat (r_len r)) with
    | Some i => Ok {| r_off := r_off r; r_len := i + 1 |}       (* includes the NUL *)
    | None => Err EEncoding
    end.
End Typed.
