(* Field reads through the references that the directory accessors return (C15):
   Security::image() : &WIN_CERTIFICATE, CodeView::{format, age} and the Cv20 / Cv70 image fields,
   Dbg::image() : &IMAGE_DEBUG_MISC.  A field read of a #[repr(C)] struct reference is the
   little-endian value at (offset of the struct) + (offset of the field, gen/Layout.v, regenerated
   from src/image.rs on every run).  These are the functions the driver prints; Proofs/DirsShape.v
   states each of them over the bytes at literal offsets. *)
From PV.Model Require Export Machine Mapping Views Dirs.
From PV.gen Require Import Layout.

Definition raw_bytes (g : N -> N) (off : N) (n : nat) : list N := map (fun k => g (off + N.of_nat k)) (seq 0 n).

(* src/security.rs: image().dwLength, image().wRevision (certificate_type is in Model/Dirs.v) and the bytes of certificate_data() *)
Definition sec_length (g : N -> N) (r : region) : N := u32at g (r_off r + WIN_CERTIFICATE_dwLength_off).
Definition sec_revision (g : N -> N) (r : region) : N := u16at g (r_off r + WIN_CERTIFICATE_wRevision_off).
Definition certificate_bytes (g : N -> N) (r : region) : res (list N) :=
  d <- certificate_data r ;; Ok (raw_bytes g (r_off d) (N.to_nat (r_len d))).

(* the decoded fields of a debug entry *)
Inductive efields :=
| FCv20 (format : list N) (offset stamp age : N)      (* CvSignature, Offset, TimeDateStamp, Age *)
| FCv70 (format guid : list N) (age : N)              (* CvSignature, Signature (GUID, 16 bytes in storage order), Age *)
| FMisc (data_type length unicode : N)                (* DataType, Length, Unicode *)
| FOther.

(* wrap/debug.rs:142 CodeView::format, :149 CodeView::age; image.TimeDateStamp / image.Offset / image.Signature; Dbg::image() *)
Definition entry_fields (g : N -> N) (e : entry) : efields :=
  match e with
  | ECv20 i _ =>
    FCv20 (raw_bytes g (i + IMAGE_DEBUG_CV_INFO_PDB20_CvSignature_off) 4)
          (u32at g (i + IMAGE_DEBUG_CV_INFO_PDB20_Offset_off))
          (u32at g (i + IMAGE_DEBUG_CV_INFO_PDB20_TimeDateStamp_off))
          (u32at g (i + IMAGE_DEBUG_CV_INFO_PDB20_Age_off))
  | ECv70 i _ =>
    FCv70 (raw_bytes g (i + IMAGE_DEBUG_CV_INFO_PDB70_CvSignature_off) 4)
          (raw_bytes g (i + IMAGE_DEBUG_CV_INFO_PDB70_Signature_off) 16)
          (u32at g (i + IMAGE_DEBUG_CV_INFO_PDB70_Age_off))
  | EDbg i =>
    FMisc (u32at g (i + IMAGE_DEBUG_MISC_DataType_off)) (u32at g (i + IMAGE_DEBUG_MISC_Length_off))
          (u8at g (i + IMAGE_DEBUG_MISC_Unicode_off))
  | _ => FOther
  end.
