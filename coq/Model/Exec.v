(* Model of the pattern interpreter of src/pe64/scanner.rs: Exec::exec and exec_many.
   [scan] is the Scan trait: the three ways the interpreter touches the image. *)
From PV.Model Require Export Machine Pattern.

Record scan := {
  sc_read : N -> N -> option N;      (* read::<T>(rva) for size_of T = n : little-endian unsigned value *)
  sc_pointer : N -> option N;        (* pointer(va) *)
  sc_slice_len : N -> option N;      (* slice(rva).len() *)
  sc_slice_byte : N -> N -> N;       (* slice(rva)[i] *)
  sc_va_bytes : N                    (* size_of::<Va>() : 4 or 8 *)
}.

Definition sext (bits v : N) : N :=          (* sign extension of a bits-wide value to u32 *)
  if v <? 2 ^ (bits - 1) then v else (v + W32 - 2 ^ bits) mod W32.
Definition wsubw32 (a b : N) : N := (a + W32 - b mod W32) mod W32.

Definition set_slot (save : list N) (slot v : N) : list N :=
  if slot <? lenN save then upd save (N.to_nat slot) v else save.
Definition get_slot (save : list N) (slot : N) : option N := nth_error save (N.to_nat slot).

(* (result, self.pc, self.cursor, save) after the call *)
Definition xres := (bool * nat * N * list N)%type.

Fixpoint peek_byte (pat : list atom) : option N :=
  match pat with
  | Byte b :: _ => Some b
  | Save _ :: t => peek_byte t
  | _ => None
  end.

(* the retry loop of exec_many: for i in 0..cnt, [run i save] executes the rest of the pattern at cursor+i *)
Fixpoint many_loop (run : N -> list N -> res xres) (peek : option N) (byte_at : N -> N)
         (cnt : nat) (i : N) (save : list N) (last : nat * N) : res xres :=
  match cnt with
  | O => Ok (false, fst last, snd last, save)
  | S cnt' =>
    let try_it := match peek with Some b => byte_at i =? b | None => true end in
    if try_it then
      r <- run i save ;;
      let '(ok, pc', cur', save') := r in
      if ok then Ok r else many_loop run peek byte_at cnt' (i + 1) save' (pc', cur')
    else many_loop run peek byte_at cnt' (i + 1) save last
  end.

Section Exec.
  Variable sc : scan.
  Variable pat : list atom.

  Definition skip_amount (ext k : N) : N := let s := ext + k in if s =? 0 then sc_va_bytes sc else s.

  (* VTypeName, pe32 and pe64 variants *)
  Definition vtypename (cursor : N) : option N :=
    if sc_va_bytes sc =? 4 then
      if negb (N.land cursor 3 =? 0) then None else
      match sc_read sc 4 (wsubw32 cursor 4) with None => None | Some col_ptr =>
      match sc_pointer sc col_ptr with None => None | Some col_rva =>
      match sc_read sc 4 (wadd32 col_rva 12) with None => None | Some type_ptr =>
      match sc_pointer sc type_ptr with None => None | Some type_rva => Some (wadd32 type_rva 8) end end end end
    else
      if negb (N.land cursor 7 =? 0) then None else
      match sc_read sc 8 (wsubw32 cursor 8) with None => None | Some col_ptr =>
      match sc_pointer sc col_ptr with None => None | Some col_rva =>
      match sc_read sc 4 (wadd32 col_rva 12) with None => None | Some type_rva => Some (wadd32 type_rva 16) end end end.

  (* the while loop of exec: [mask] and [ext] are its locals; a nested call starts with 255, 0 *)
  Fixpoint exec (fuel : nat) (pc : nat) (cur : N) (mask ext : N) (save : list N) {struct fuel} : res xres :=
    match fuel with
    | O => Fault OutOfFuel
    | S f =>
      match nth_error pat pc with
      | None => Ok (true, pc, cur, save)
      | Some a =>
        let pc := S pc in
        let fail := Ok (false, pc, cur, save) in
        match a with
        | Byte b =>
          match sc_read sc 1 cur with
          | Some x => if N.land x mask =? N.land b mask
                      then c <- chk_add W32 cur 1 ;; exec f pc c 255 ext save
                      else fail
          | None => fail
          end
        | Save s => exec f pc cur mask ext (set_slot save s cur)
        | Push k =>
          let cursor := wadd32 cur (skip_amount ext k) in
          r <- exec f pc cur 255 0 save ;;
          let '(ok, pc', cur', save') := r in
          if ok then exec f pc' cursor 255 0 save' else Ok (false, pc', cur', save')
        | Pop => Ok (true, pc, cur, save)
        | Fuzzy m => exec f pc cur m ext save
        | Skip k => exec f pc (wadd32 cur (skip_amount ext k)) mask 0 save
        | Back k => exec f pc (wsubw32 cur (skip_amount ext k)) mask 0 save
        | Rangext e => exec f pc cur mask (e * 256) save
        | Many lim =>
          let limit := ext + lim in
          match sc_slice_len sc cur with
          | None => fail
          | Some slen =>
            let n := if limit =? 0 then slen else N.min limit slen in
            let peek := peek_byte (skipn pc pat) in
            many_loop (fun i s => exec f pc (wadd32 cur i) 255 0 s) peek (sc_slice_byte sc cur)
                      (N.to_nat n) 0 save (pc, cur)
          end
        | Jump1 =>
          match sc_read sc 1 cur with
          | Some x => exec f pc (wadd32 (wadd32 cur (sext 8 x)) 1) mask ext save
          | None => fail
          end
        | Jump4 =>
          match sc_read sc 4 cur with
          | Some x => exec f pc (wadd32 (wadd32 cur x) 4) mask ext save
          | None => fail
          end
        | Ptr =>
          match sc_read sc (sc_va_bytes sc) cur with
          | Some va => match sc_pointer sc va with Some rva => exec f pc rva mask ext save | None => fail end
          | None => fail
          end
        | Pir s =>
          match sc_read sc 4 cur with
          | Some x => let base := match get_slot save s with Some b => b | None => cur end in
                      exec f pc (wadd32 base x) mask ext save
          | None => fail
          end
        | VTypeName =>
          match vtypename cur with Some c => exec f pc c mask ext save | None => fail end
        | Check s =>
          match get_slot save s with
          | Some rva => if rva =? cur then exec f pc cur mask ext save else fail
          | None => exec f pc cur mask ext save
          end
        | Aligned k =>
          (* after the F11 repair: 1 << k does not overflow; 2^32 and up only divides 0 *)
          let m := if k <? 32 then 2 ^ k - 1 else W32 - 1 in
          if N.land cur m =? 0 then exec f pc cur mask ext save else fail
        | ReadU8 s =>
          match sc_read sc 1 cur with Some x => exec f pc (wadd32 cur 1) mask ext (set_slot save s x) | None => fail end
        | ReadI8 s =>
          match sc_read sc 1 cur with Some x => exec f pc (wadd32 cur 1) mask ext (set_slot save s (sext 8 x)) | None => fail end
        | ReadU16 s =>
          match sc_read sc 2 cur with Some x => exec f pc (wadd32 cur 2) mask ext (set_slot save s x) | None => fail end
        | ReadI16 s =>
          match sc_read sc 2 cur with Some x => exec f pc (wadd32 cur 2) mask ext (set_slot save s (sext 16 x)) | None => fail end
        | ReadU32 s | ReadI32 s =>
          match sc_read sc 4 cur with Some x => exec f pc (wadd32 cur 4) mask ext (set_slot save s x) | None => fail end
        | Zero s => exec f pc cur mask ext (set_slot save s 0)
        | Case next =>
          r <- exec f pc cur 255 0 save ;;
          let '(ok, pc', cur', save') := r in
          if ok then exec f pc' cur' mask ext save'
          else exec f (pc + N.to_nat next) cur mask ext save'
        | Break next => Ok (true, (pc + N.to_nat next)%nat, cur, save)
        | Nop => exec f pc cur mask ext save
        end
      end
    end.

  (* Scanner::exec(cursor, pat, save) *)
  Definition run_exec (cursor : N) (save : list N) : res (bool * list N) :=
    r <- exec (S (length pat)) 0 cursor 255 0 save ;;
    let '(ok, _, _, save') := r in Ok (ok, save').
End Exec.
