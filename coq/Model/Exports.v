(* Model of src/pe64/exports.rs (shared by pe32 through #[path]) and of Export / Import in
   src/wrap: Exports::try_from, functions / names / name_indices, by (Null-as-empty),
   is_forwarded, symbol_from_rva, every By<> lookup, check_sorted, the three iterators and
   GetProcAddress.

   Two layers.  The lookups are functions of the decoded tables ([tables]: the three slices a
   [By] value holds, image.Base and the data directory entry) and of [cstr], the result of
   derva_c_str at an rva (the bytes without the NUL).  The image layer decodes those tables
   from a [view] with the typed reads of Model/Views.v, exactly as the code does, and
   instantiates [cstr] with [rd_c_str].

   usize is 64 bits.  Indices are [N]; no function converts a caller-supplied index to [nat]. *)
From PV.Model Require Export Machine Mapping Views.
From PV.gen Require Import Layout.

Inductive export := Symbol (rva : N) | Forward (s : list N).
Inductive import := ByName (hint : N) (name : list N) | ByOrdinal (ord : N).

Record tables := {
  t_funcs : list N;      (* By::functions     : &[Rva] *)
  t_names : list N;      (* By::names         : &[Rva] *)
  t_idxs : list N;       (* By::name_indices  : &[u16] *)
  t_base : N;            (* image.Base (u32)  *)
  t_dva : N;             (* datadir.VirtualAddress *)
  t_dsize : N            (* datadir.Size *)
}.

(* slice.get(i) for i : usize *)
Fixpoint nthN {A} (l : list A) (i : N) : option A :=
  match l with
  | [] => None
  | x :: r => if i =? 0 then Some x else nthN r (i - 1)
  end.

(* <[u8] as Ord>::cmp : lexicographic on unsigned bytes *)
Fixpoint lex_cmp (a b : list N) : comparison :=
  match a, b with
  | [], [] => Eq
  | [], _ :: _ => Lt
  | _ :: _, [] => Gt
  | x :: a', y :: b' => match x ?= y with Eq => lex_cmp a' b' | c => c end
  end.
(* <[u8] as PartialEq>::eq *)
Fixpoint bytes_eqb (a b : list N) : bool :=
  match a, b with
  | [], [] => true
  | x :: a', y :: b' => (x =? y) && bytes_eqb a' b'
  | _, _ => false
  end.

(* iter().position(|&i| i as usize == index), counting from k *)
Fixpoint position (l : list N) (k x : N) : option N :=
  match l with
  | [] => None
  | y :: r => if y =? x then Some k else position r (k + 1) x
  end.

Section By.
  Variable cstr : N -> res (list N).       (* self.exp.pe.derva_c_str(rva) *)
  Variable t : tables.

  (* exports.rs:146 is_forwarded, after the F6 repair (no VirtualAddress + Size) *)
  Definition is_forwarded (rva : N) : bool :=
    (t_dva t <=? rva) && (rva - t_dva t <? t_dsize t).
  (* the code as it stood: rva >= VA && rva < VA + Size, a plain u32 add *)
  Definition is_forwarded_orig (rva : N) : res bool :=
    if t_dva t <=? rva then e <- chk_add W32 (t_dva t) (t_dsize t) ;; Ok (rva <? e) else Ok false.

  (* exports.rs:150 symbol_from_rva *)
  Definition symbol_from_rva (rva : N) : res export :=
    if rva =? 0 then Err ENull
    else if is_forwarded rva then s <- cstr rva ;; Ok (Forward s)
    else Ok (Symbol rva).
  Definition symbol_from_rva_orig (rva : N) : res export :=
    if rva =? 0 then Err ENull
    else f <- is_forwarded_orig rva ;;
         if f then s <- cstr rva ;; Ok (Forward s) else Ok (Symbol rva).

  (* :288 index(index : usize) *)
  Definition index (i : N) : res export :=
    match nthN (t_funcs t) i with None => Err EBounds | Some rva => symbol_from_rva rva end.
  (* :293 hint(hint : usize) *)
  Definition hint (h : N) : res export :=
    match nthN (t_idxs t) h with None => Err EBounds | Some i => index i end.
  (* :225 ordinal(ordinal : u16) *)
  Definition ordinal (o : N) : res export :=
    if o <? t_base t then Err EBounds else index (o - t_base t).
  (* :315 name_of_hint *)
  Definition name_of_hint (h : N) : res (list N) :=
    match nthN (t_names t) h with None => Err EBounds | Some rva => cstr rva end.

  (* :244 name_linear_ : for hint in 0..names.len(); [ns] = names[h..] *)
  Fixpoint name_linear_from (ns : list N) (h : N) (name : list N) : res export :=
    match ns with
    | [] => Err ENull
    | rva :: rest =>
      match cstr rva with
      | Ok s => if bytes_eqb s name then hint h else name_linear_from rest (h + 1) name
      | Err _ => name_linear_from rest (h + 1) name
      | Fault f => Fault f
      end
    end.
  Definition name_linear (name : list N) : res export := name_linear_from (t_names t) 0 name.

  (* :259 name_ : the binary search loop; lower_bound, upper_bound : usize *)
  Fixpoint bsearch (fuel : nat) (lo hi : N) (name : list N) : res export :=
    match fuel with
    | O => Fault OutOfFuel
    | S fuel' =>
      if lo =? hi then Err ENull
      else
        d <- chk_sub hi lo ;;
        i <- chk_add W64 lo (d / 2) ;;
        match nthN (t_names t) i with
        | None => Fault PIndex                              (* self.names[i] *)
        | Some name_rva =>
          s <- cstr name_rva ;;
          match lex_cmp name s with
          | Lt => bsearch fuel' lo i name
          | Gt => i1 <- chk_add W64 i 1 ;; bsearch fuel' i1 hi name
          | Eq => match nthN (t_idxs t) i with None => Err EBounds | Some ix => index ix end
          end
        end
    end.
  Definition name (n : list N) : res export :=
    bsearch (S (length (t_names t))) 0 (lenN (t_names t)) n.

  (* :301 hint_name_ *)
  Definition hint_name (h : N) (n : list N) : res export :=
    match hint h with
    | Ok e =>
      match name_of_hint h with
      | Ok s => if bytes_eqb s n then Ok e else name n
      | Err _ => name n
      | Fault f => Fault f
      end
    | Err _ => name n
    | Fault f => Fault f
    end.
  (* :281 import *)
  Definition import_ (i : import) : res export :=
    match i with ByName h n => hint_name h n | ByOrdinal o => ordinal o end.

  (* :325 name_lookup(index : usize), after the F7 repairs: names.get(hint) and a wrapping add.
     [index as u32] truncates, [as Ordinal] truncates to 16 bits. *)
  Definition name_lookup (i : N) : res import :=
    match position (t_idxs t) 0 i with
    | Some h =>
      match nthN (t_names t) h with
      | None => Err EBounds
      | Some rva => s <- cstr rva ;; Ok (ByName h s)
      end
    | None => Ok (ByOrdinal (wadd32 (i mod W32) (t_base t) mod W16))
    end.
  Definition name_lookup_orig (i : N) : res import :=
    match position (t_idxs t) 0 i with
    | Some h =>
      match nthN (t_names t) h with
      | None => Fault PIndex                                 (* self.names[hint] *)
      | Some rva => s <- cstr rva ;; Ok (ByName h s)
      end
    | None => o <- chk_add W32 (i mod W32) (t_base t) ;; Ok (ByOrdinal (o mod W16))
    end.

  (* :346 iter *)
  Definition iter : list (res export) := map symbol_from_rva (t_funcs t).
  (* :350 iter_names : (0..names.len() as u32).map(|hint| (name_of_hint(hint), hint(hint)));
     names.len() = NumberOfNames or 0, so the cast is the identity.  [ns] = names[h..] *)
  Fixpoint iter_names_from (ns : list N) (h : N) : list (res (list N) * res export) :=
    match ns with
    | [] => []
    | rva :: rest => (cstr rva, hint h) :: iter_names_from rest (h + 1)
    end.
  Definition iter_names := iter_names_from (t_names t) 0.
  (* :354 iter_name_indices, after the F7 repair: (0..names.len()).zip(name_indices.iter()) - the two
     tables are walked in step; name_of_hint(hint) for hint < names.len() is derva_c_str(names[hint]) *)
  Fixpoint iter_name_indices_from (ns ixs : list N) : list (res (list N) * N) :=
    match ns, ixs with
    | rva :: ns', ix :: ixs' => (cstr rva, ix) :: iter_name_indices_from ns' ixs'
    | _, _ => []
    end.
  Definition iter_name_indices := iter_name_indices_from (t_names t) (t_idxs t).
  (* the code as it stood: walks names and indexes name_indices[hint]; the first missing index panics *)
  Fixpoint iter_name_indices_orig_from (ns : list N) (h : N) : res (list (res (list N) * N)) :=
    match ns with
    | [] => Ok []
    | rva :: rest =>
      match nthN (t_idxs t) h with
      | None => Fault PIndex
      | Some ix => r <- iter_name_indices_orig_from rest (h + 1) ;; Ok ((cstr rva, ix) :: r)
      end
    end.
  Definition iter_name_indices_orig := iter_name_indices_orig_from (t_names t) 0.

  (* :213 check_sorted : for (name, _export) in iter_names() { let name = name?; if last > name .. } *)
  Fixpoint check_sorted_from (ns : list N) (h : N) (last : list N) : res bool :=
    match ns with
    | [] => Ok true
    | rva :: rest =>
      let nm := cstr rva in
      match hint h with
      | Fault f => Fault f                                   (* the export half of the item is evaluated too *)
      | _ =>
        s <- nm ;;
        match lex_cmp last s with
        | Gt => Ok false
        | _ => check_sorted_from rest (h + 1) s
        end
      end
    end.
  Definition check_sorted : res bool := check_sorted_from (t_names t) 0 [].
End By.

(* :385 get_proc_address = rva_to_va(get_export(name)?.symbol().ok_or(Null)?) *)
Definition proc_address (to_va : N -> res N) (r : res export) : res N :=
  e <- r ;; match e with Symbol rva => to_va rva | Forward _ => Err ENull end.

(* ---------------------------------------------------------------------------------------
   The image layer: how a By value is obtained from a PeFile / PeView. *)
Section Image.
  Variable sl : N -> N -> N -> res region.   (* self.pe.slice(rva, min_size, align) *)
  Variable get : N -> N.                     (* image[i] *)

  Definition rd_u32 (off : N) : N := le_value get off 4.
  Definition rd_u16 (off : N) : N := le_value get off 2.
  (* the elements of a &[T] of [n] elements of [size] bytes at buffer offset [off] *)
  Definition elems (size : N) (off n : N) : list N :=
    map (fun k => le_value get (off + size * N.of_nat k) (N.to_nat size)) (seq 0 (N.to_nat n)).
  (* the bytes of a region *)
  Definition bytes_of (off n : N) : list N := map (fun k => get (off + N.of_nat k)) (seq 0 (N.to_nat n)).

  (* derva_c_str as a byte string without the NUL *)
  Definition cstr_of (a : N) : res (list N) :=
    r <- rd_c_str get sl a ;; Ok (bytes_of (r_off r) (r_len r - 1)).

  (* Exports::try_from; [dd] = data_directory().get(IMAGE_DIRECTORY_ENTRY_EXPORT) as (VirtualAddress, Size).
     The result is the buffer offset of the IMAGE_EXPORT_DIRECTORY. *)
  Definition try_from (dd : option (N * N)) : res N :=
    match dd with
    | None => Err EBounds
    | Some (va, _) => r <- rd sl va IMAGE_EXPORT_DIRECTORY_size IMAGE_EXPORT_DIRECTORY_align ;; Ok (r_off r)
    end.

  Definition x_field (x fo : N) : N := rd_u32 (x + fo).
  (* functions / names / name_indices *)
  Definition functions (x : N) : res (list N) :=
    let n := x_field x IMAGE_EXPORT_DIRECTORY_NumberOfFunctions_off in
    r <- rd_slice sl (x_field x IMAGE_EXPORT_DIRECTORY_AddressOfFunctions_off) 4 4 n ;; Ok (elems 4 (r_off r) n).
  Definition names (x : N) : res (list N) :=
    let n := x_field x IMAGE_EXPORT_DIRECTORY_NumberOfNames_off in
    r <- rd_slice sl (x_field x IMAGE_EXPORT_DIRECTORY_AddressOfNames_off) 4 4 n ;; Ok (elems 4 (r_off r) n).
  Definition name_indices (x : N) : res (list N) :=
    let n := x_field x IMAGE_EXPORT_DIRECTORY_NumberOfNames_off in
    r <- rd_slice sl (x_field x IMAGE_EXPORT_DIRECTORY_AddressOfNameOrdinals_off) 2 2 n ;; Ok (elems 2 (r_off r) n).

  Definition null_as_empty (r : res (list N)) : res (list N) :=
    match r with Err ENull => Ok [] | _ => r end.

  (* exports.rs:123 by *)
  Definition by_ (dd : option (N * N)) (x : N) : res tables :=
    f <- null_as_empty (functions x) ;;
    n <- null_as_empty (names x) ;;
    i <- null_as_empty (name_indices x) ;;
    Ok {| t_funcs := f; t_names := n; t_idxs := i;
          t_base := x_field x IMAGE_EXPORT_DIRECTORY_Base_off;
          t_dva := match dd with Some (va, _) => va | None => 0 end;
          t_dsize := match dd with Some (_, sz) => sz | None => 0 end |}.

  (* pe.exports()?.by()? *)
  Definition exports_by (dd : option (N * N)) : res tables := x <- try_from dd ;; by_ dd x.
End Image.

(* GetProcAddress on a view: the three key kinds *)
Definition view_cstr (v : view) : N -> res (list N) := cstr_of (slice v) (v_get v).
Definition view_by (v : view) (dd : option (N * N)) : res tables := exports_by (slice v) (v_get v) dd.
Definition get_export_ordinal (v : view) dd (o : N) : res export :=
  t <- view_by v dd ;; ordinal (view_cstr v) t o.
Definition get_export_name (v : view) dd (n : list N) : res export :=
  t <- view_by v dd ;; name (view_cstr v) t n.
Definition get_export_import (v : view) dd (i : import) : res export :=
  t <- view_by v dd ;; import_ (view_cstr v) t i.
Definition get_proc_address (v : view) (r : res export) : res N := proc_address (rva_to_va v) r.
