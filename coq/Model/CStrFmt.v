(* Model of the formatting loops of src/util/c_str.rs (Debug and Display for CStr) and of
   util::split_f.  The loops are `while bytes.len() > 0` loops whose progress depends on the
   byte classes of the arms; they run on fuel here and the theorems show that fuel
   length+1 suffices for every byte string (C03) - which was false of the code as it stood (F15). *)
From PV.Model Require Export Machine.

(* util/mod.rs:37 split_f: (prefix before the first element satisfying f, rest) *)
Fixpoint split_f (p : N -> bool) (l : list N) : list N * list N :=
  match l with
  | [] => ([], [])
  | b :: t => if p b then ([], l) else let (s, r) := split_f p t in (b :: s, r)
  end.

Definition hexdig (d : N) : N := if d <? 10 then 48 + d else 55 + d.
Definition esc_hex (b : N) : list N := [92; 120; hexdig (b / 16); hexdig (b mod 16)].   (* \xHH *)

(* the two closures of the Debug impl, after the F15 repair (0x7F belongs to the escaped class) *)
Definition stop_print (b : N) : bool := (b <? 32) || (127 <=? b) || (b =? 34) || (b =? 92).
Definition stop_esc (b : N) : bool := (32 <=? b) && (b <? 127).
(* as the code stood *)
Definition stop_print_orig (b : N) : bool := (b <? 32) || (128 <=? b) || (b =? 34) || (b =? 92).
Definition stop_esc_orig (b : N) : bool := (32 <=? b) && (b <? 128).

Section Debug.
  Variable sp se : N -> bool.
  (* c_str.rs:104 the while loop of <CStr as Debug>::fmt *)
  Fixpoint debug_loop (fuel : nat) (bytes : list N) : res (list N) :=
    match fuel with
    | O => Fault OutOfFuel
    | S k =>
      match bytes with
      | [] => Ok []
      | b :: t =>
        if b =? 0 then r <- debug_loop k t ;; Ok ([92; 48] ++ r)
        else if b =? 10 then r <- debug_loop k t ;; Ok ([92; 110] ++ r)
        else if b =? 13 then r <- debug_loop k t ;; Ok ([92; 114] ++ r)
        else if b =? 9 then r <- debug_loop k t ;; Ok ([92; 116] ++ r)
        else if b =? 34 then r <- debug_loop k t ;; Ok ([92; 34] ++ r)
        else if b =? 92 then r <- debug_loop k t ;; Ok ([92; 92] ++ r)
        else if (32 <=? b) && (b <=? 126) then
          let (s, tail) := split_f sp bytes in
          r <- debug_loop k tail ;; Ok (s ++ r)
        else
          let (s, tail) := split_f se bytes in
          r <- debug_loop k tail ;; Ok (flat_map esc_hex s ++ r)
      end
    end.
End Debug.

Definition cstr_debug (bytes : list N) : res (list N) :=
  r <- debug_loop stop_print stop_esc (S (length bytes)) bytes ;; Ok ([34] ++ r ++ [34]).
Definition cstr_debug_orig (fuel : nat) (bytes : list N) : res (list N) :=
  r <- debug_loop stop_print_orig stop_esc_orig fuel bytes ;; Ok ([34] ++ r ++ [34]).

(* c_str.rs:150 <CStr as Display>::fmt *)
Fixpoint display_loop (fuel : nat) (bytes : list N) : res (list N) :=
  match fuel with
  | O => Fault OutOfFuel
  | S k =>
    match bytes with
    | [] => Ok []
    | b :: _ =>
      if b <? 128 then
        let (s, tail) := split_f (fun x => 128 <=? x) bytes in
        r <- display_loop k tail ;; Ok (s ++ r)
      else
        let (s, tail) := split_f (fun x => x <? 128) bytes in
        r <- display_loop k tail ;; Ok (flat_map esc_hex s ++ r)
    end
  end.
Definition cstr_display (bytes : list N) : res (list N) := display_loop (S (length bytes)) bytes.
