(* Model of src/resources/version_info.rs: VersionInfo::try_from, parse_tlv, Parser (Iterator::next),
   VersionInfo::visit, Language::{parse, from_slice}, the six built-in visitors
   (QueryFixed, QueryTranslation, QueryValue, QueryStrings, FileInfo, String = source_code)
   and a recording visitor (the harness's own Visit implementation).

   The resource is a list of u16 words ([list N]); [base] is the machine address of the first byte
   (only its residue mod 4 matters).  A Rust [String] is represented by its UTF-16 code units
   (an injective representation); [from_utf16_lossy] is [lossy].  A [HashMap] is an association
   list with replace-on-insert; it is observed sorted. *)
From PV.Model Require Export Machine.
From Coq Require Import DecimalN HexadecimalN Decimal Hexadecimal.

(* ---- small slice vocabulary ---- *)
Definition take (n : N) (ws : list N) : list N := firstn (N.to_nat n) ws.
Definition drop (n : N) (ws : list N) : list N := skipn (N.to_nat n) ws.
Definition word (ws : list N) (i : nat) : N := nth i ws 0.
(* usize.align_to(2): wrapping_add(1) & !1 *)
Definition align2 (x : N) : N := align_to W64 2 x.
(* &ws[i..] : panics when i > len *)
Definition slice_from (ws : list N) (i : N) : res (list N) :=
  if i <=? lenN ws then Ok (drop i ws) else Fault PIndex.

Fixpoint list_eqb (a b : list N) : bool :=
  match a, b with
  | [], [] => true
  | x :: a', y :: b' => (x =? y) && list_eqb a' b'
  | _, _ => false
  end.

(* util::wstrn: the words before the first NUL, all of them if there is none *)
Fixpoint wstrn (ws : list N) : list N :=
  match ws with [] => [] | w :: r => if w =? 0 then [] else w :: wstrn r end.

(* slice::from_raw_parts(bytes.as_ptr() as *const u16, bytes.len() / 2), little endian *)
Fixpoint words_of (bs : list N) : list N :=
  match bs with a :: b :: r => (a + 256 * b) :: words_of r | _ => [] end.

(* VersionInfo::try_from *)
Definition try_from (base : N) (bytes : list N) : res (list N) :=
  if negb (aligned_to 4 base) then Err EMisaligned else Ok (words_of bytes).

(* ---- TLV ---- *)
Inductive vlt := VZero | VBytes | VWords.
(* t_voff: word offset of [value] from the start of the TLV (value.as_ptr() - words.as_ptr()) *)
Record tlv := { t_key : list N; t_value : list N; t_children : list N; t_voff : N }.

(* parse_tlv; [orig = true] is the code before the F12 repair (line 611 sliced without the clamp) *)
Definition parse_tlv_gen (orig : bool) (vl : vlt) (ws : list N) : res (tlv * list N) :=
  if lenN ws <? 4 then Err EInvalid else
  let length := N.max 4 (word ws 0 / 2) in
  match (match vl with
         | VZero => if word ws 1 =? 0 then Some 0 else None
         | VBytes => Some (word ws 1 / 2)
         | VWords => Some (word ws 1)
         end) with
  | None => Err EInvalid
  | Some value_length =>
    if lenN ws <? length then Err EInvalid else
    let rest := drop (N.min (align2 length) (lenN ws)) ws in
    let ws1 := take length ws in
    let tail := skipn 3 ws1 in
    let key := wstrn tail in
    if lenN tail =? lenN key then Err EInvalid else
    off <- chk_add W64 (align2 (lenN key)) 4 ;;
    let voff := if orig then off else N.min off (lenN ws1) in
    ws2 <- slice_from ws1 voff ;;
    if lenN ws2 <? value_length then Err EInvalid else
    let value := take value_length ws2 in
    let children := drop (N.min (align2 (lenN value)) (lenN ws2)) ws2 in
    Ok ({| t_key := key; t_value := value; t_children := children; t_voff := voff |}, rest)
  end.
Definition parse_tlv := parse_tlv_gen false.
Definition parse_tlv_orig := parse_tlv_gen true.

(* <Parser as Iterator>::next: the item and the parser's remaining words *)
Definition parser_next_gen (orig : bool) (vl : vlt) (ws : list N) : option (res tlv * list N) :=
  match ws with
  | [] => None
  | _ =>
    match parse_tlv_gen orig vl ws with
    | Ok (t, rest) => Some (Ok t, rest)
    | Err e => Some (Err e, [])
    | Fault f => Some (Fault f, [])
    end
  end.
Definition parser_next := parser_next_gen false.

(* for x in Parser::new_*(ws).filter_map(Result::ok) { s = body(s, x)? }
   [body] returns the new state and whether the loop is left by [return] *)
Fixpoint for_each {St : Type} (orig : bool) (fuel : nat) (vl : vlt) (ws : list N)
         (body : St -> tlv -> res (St * bool)) (s : St) : res St :=
  match fuel with
  | O => Fault OutOfFuel
  | S f =>
    match parser_next_gen orig vl ws with
    | None => Ok s
    | Some (Fault x, _) => Fault x
    | Some (Err _, rest) => for_each orig f vl rest body s
    | Some (Ok t, rest) =>
      r <- body s t ;;
      if snd r then Ok (fst r) else for_each orig f vl rest body (fst r)
    end
  end.
Definition each {St : Type} (orig : bool) (vl : vlt) (ws : list N) (body : St -> tlv -> res (St * bool)) (s : St) : res St :=
  for_each orig (S (length ws)) vl ws body s.

(* ---- the Visit trait ---- *)
Record visitor (St : Type) := {
  v_version_info : St -> list N -> option (list N) -> St * bool;
  v_file_info : St -> list N -> St * bool;
  v_string_table : St -> list N -> St * bool;
  v_string : St -> list N -> list N -> St;
  v_var : St -> list N -> list N -> St;
  v_enter : St -> N -> St;
  v_exit : St -> N -> St }.
Arguments v_version_info {St}. Arguments v_file_info {St}. Arguments v_string_table {St}.
Arguments v_string {St}. Arguments v_var {St}. Arguments v_enter {St}. Arguments v_exit {St}.

Definition StringFileInfo : list N := [83; 116; 114; 105; 110; 103; 70; 105; 108; 101; 73; 110; 102; 111].
Definition VarFileInfo : list N := [86; 97; 114; 70; 105; 108; 101; 73; 110; 102; 111].
Definition Translation : list N := [84; 114; 97; 110; 115; 108; 97; 116; 105; 111; 110].

(* Strip the nul terminator *)
Definition strip_nul (v : list N) : list N := if last v 1 =? 0 then removelast v else v.

(* match size_of_val(value) { 0 => None, 52 => Some(&*(value.as_ptr() as *const VS_FIXEDFILEINFO)), _ => None }
   the cast needs a 4-aligned address; the 26 words are inside [value], so no out-of-bounds case exists *)
Definition fixed_ref (base : N) (t : tlv) : res (option (list N)) :=
  if 2 * lenN (t_value t) =? 52 then
    if aligned_to 4 (base + 2 * t_voff t) then Ok (Some (t_value t)) else Fault UBAlign
  else Ok None.

Section Visit.
  Context {St : Type} (V : visitor St) (orig : bool) (base : N).

  Definition string_body (s : St) (t : tlv) : res (St * bool) :=
    Ok (v_string V s (t_key t) (strip_nul (t_value t)), false).
  Definition table_body (s : St) (t : tlv) : res (St * bool) :=
    let (s, go) := v_string_table V s (t_key t) in
    if negb go then Ok (s, false) else
    let s := v_enter V s 2 in
    s <- each orig VWords (t_children t) string_body s ;;
    Ok (v_exit V s 2, false).
  Definition var_body (s : St) (t : tlv) : res (St * bool) :=
    Ok (v_var V s (t_key t) (t_value t), false).
  Definition file_body (s : St) (t : tlv) : res (St * bool) :=
    let (s, go) := v_file_info V s (t_key t) in
    if negb go then Ok (s, false) else
    let s := v_enter V s 1 in
    s <- (if list_eqb (t_key t) StringFileInfo then each orig VZero (t_children t) table_body s
          else if list_eqb (t_key t) VarFileInfo then each orig VBytes (t_children t) var_body s
          else Ok s) ;;
    Ok (v_exit V s 1, false).
  Definition version_body (s : St) (t : tlv) : res (St * bool) :=
    fixed <- fixed_ref base t ;;
    let (s, go) := v_version_info V s (t_key t) fixed in
    if negb go then Ok (s, false) else
    let s := v_enter V s 0 in
    s <- each orig VZero (t_children t) file_body s ;;
    Ok (v_exit V s 0, true).          (* Ignore any additional version infos: return *)
  (* VersionInfo::visit *)
  Definition visit (ws : list N) (s : St) : res St := each orig VBytes ws version_body s.
End Visit.

(* ---- Language ---- *)
Definition W16sub (a b : N) : N := (a + W16 - b) mod W16.
Definition digit (w : N) : N :=
  let num := W16sub w 48 in
  let upper := (W16sub w 65 + 10) mod W16 in
  let lower := (W16sub w 97 + 10) mod W16 in
  if 97 <=? w then lower else if 65 <=? w then upper else num.
Definition shl16 (x k : N) : N := (N.shiftl x k) mod W16.
Definition lang_parse (l : list N) : option (N * N) :=
  if negb (lenN l =? 8) then None else
  let d i := digit (word l i) in
  Some (N.lor (N.lor (N.lor (shl16 (d 0%nat) 12) (shl16 (d 1%nat) 8)) (shl16 (d 2%nat) 4)) (d 3%nat),
        N.lor (N.lor (N.lor (shl16 (d 4%nat) 12) (shl16 (d 5%nat) 8)) (shl16 (d 6%nat) 4)) (d 7%nat)).
(* Language::from_slice: len/2 pairs (alignment of Language is 2, that of the words) *)
Fixpoint lang_from_slice (ws : list N) : list (N * N) :=
  match ws with a :: b :: r => (a, b) :: lang_from_slice r | _ => [] end.
Definition lang_eqb (a b : N * N) : bool := (fst a =? fst b) && (snd a =? snd b).

(* ---- UTF-16 ---- *)
Definition is_high (w : N) : bool := (55296 <=? w) && (w <? 56320).
Definition is_low (w : N) : bool := (56320 <=? w) && (w <? 57344).
(* String::from_utf16_lossy followed by encode_utf16: unpaired surrogates become U+FFFD *)
Fixpoint lossy (ws : list N) : list N :=
  match ws with
  | [] => []
  | w :: r =>
    if is_high w then
      match r with
      | lo :: r' => if is_low lo then w :: lo :: lossy r' else 65533 :: lossy r
      | [] => [65533]
      end
    else if is_low w then 65533 :: lossy r
    else w :: lossy r
  end.
Fixpoint wf_utf16 (ws : list N) : bool :=
  match ws with
  | [] => true
  | w :: r =>
    if is_high w then
      match r with
      | lo :: r' => is_low lo && wf_utf16 r'
      | [] => false
      end
    else negb (is_low w) && wf_utf16 r
  end.
(* Iterator::eq(key.chars().map(Ok), char::decode_utf16(words)) for a query [q] that is a &str *)
Definition str_eq_utf16 (q ws : list N) : bool := wf_utf16 ws && list_eqb q ws.

(* ---- the built-in visitors ---- *)
Definition default_visitor {St} : visitor St :=
  {| v_version_info := fun s _ _ => (s, true); v_file_info := fun s _ => (s, true);
     v_string_table := fun s _ => (s, true); v_string := fun s _ _ => s; v_var := fun s _ _ => s;
     v_enter := fun s _ => s; v_exit := fun s _ => s |}.

Definition QueryFixed : visitor (option (list N)) :=
  {| v_version_info := fun _ _ fixed => (fixed, true); v_file_info := fun s _ => (s, false);
     v_string_table := fun s _ => (s, true); v_string := fun s _ _ => s; v_var := fun s _ _ => s;
     v_enter := fun s _ => s; v_exit := fun s _ => s |}.

Definition QueryTranslation : visitor (list (N * N)) :=
  {| v_version_info := fun s _ _ => (s, true);
     v_file_info := fun s key => (s, list_eqb key VarFileInfo);
     v_string_table := fun s _ => (s, true); v_string := fun s _ _ => s;
     v_var := fun s key value => if list_eqb key Translation then lang_from_slice value else s;
     v_enter := fun s _ => s; v_exit := fun s _ => s |}.

Definition lang_matches (want : N * N) (l : list N) : bool :=
  match lang_parse l with Some x => lang_eqb x want | None => false end.

Definition QueryValue (lang : N * N) (key : list N) : visitor (option (list N)) :=
  {| v_version_info := fun s _ _ => (s, true);
     v_file_info := fun s k => (s, list_eqb k StringFileInfo);
     v_string_table := fun s l => (s, lang_matches lang l);
     v_string := fun s k v => if str_eq_utf16 key k then Some (lossy v) else s;
     v_var := fun s _ _ => s; v_enter := fun s _ => s; v_exit := fun s _ => s |}.

(* the closure of strings() collects its arguments *)
Definition QueryStrings (lang : N * N) : visitor (list (list N * list N)) :=
  {| v_version_info := fun s _ _ => (s, true); v_file_info := fun s _ => (s, true);
     v_string_table := fun s l => (s, lang_matches lang l);
     v_string := fun s k v => s ++ [(lossy k, lossy v)];
     v_var := fun s _ _ => s; v_enter := fun s _ => s; v_exit := fun s _ => s |}.

(* HashMap insert / entry().or_default() / get_mut on association lists *)
Section Assoc.
  Context {K V : Type} (eqb : K -> K -> bool).
  Fixpoint hm_insert (k : K) (v : V) (m : list (K * V)) : list (K * V) :=
    match m with
    | [] => [(k, v)]
    | (k', v') :: r => if eqb k k' then (k, v) :: r else (k', v') :: hm_insert k v r
    end.
  Fixpoint hm_get (k : K) (m : list (K * V)) : option V :=
    match m with [] => None | (k', v') :: r => if eqb k k' then Some v' else hm_get k r end.
  Definition hm_or_default (d : V) (k : K) (m : list (K * V)) : list (K * V) :=
    match hm_get k m with Some _ => m | None => m ++ [(k, d)] end.
End Assoc.

Record file_info := {
  fi_fixed : option (list N);
  fi_strings : list ((N * N) * list (list N * list N));
  fi_langs : list (N * N);
  fi_lang : N * N }.
Definition fi_default : file_info := {| fi_fixed := None; fi_strings := []; fi_langs := []; fi_lang := (0, 0) |}.

(* impl Visit for FileInfo; [orig = true]: strings.insert(lang, HashMap::new()) as before the F32 repair *)
Definition FileInfoV (orig : bool) : visitor file_info :=
  {| v_version_info := fun s _ fixed =>
       ({| fi_fixed := fixed; fi_strings := fi_strings s; fi_langs := fi_langs s; fi_lang := fi_lang s |}, true);
     v_file_info := fun s _ => (s, true);
     v_string_table := fun s l =>
       match lang_parse l with
       | Some lang =>
         ({| fi_fixed := fi_fixed s;
             fi_strings := if orig then hm_insert lang_eqb lang [] (fi_strings s)
                           else hm_or_default lang_eqb [] lang (fi_strings s);
             fi_langs := fi_langs s; fi_lang := lang |}, true)
       | None => (s, false)
       end;
     v_string := fun s k v =>
       match hm_get lang_eqb (fi_lang s) (fi_strings s) with
       | Some entry =>
         {| fi_fixed := fi_fixed s;
            fi_strings := hm_insert lang_eqb (fi_lang s) (hm_insert list_eqb (lossy k) (lossy v) entry) (fi_strings s);
            fi_langs := fi_langs s; fi_lang := fi_lang s |}
       | None => s
       end;
     v_var := fun s k v =>
       if list_eqb k Translation then
         {| fi_fixed := fi_fixed s; fi_strings := fi_strings s; fi_langs := lang_from_slice v; fi_lang := fi_lang s |}
       else s;
     v_enter := fun s _ => s; v_exit := fun s _ => s |}.

(* ---- source_code: impl Visit for String (the text as UTF-16 code units) ---- *)
Fixpoint dec_digits (u : Decimal.uint) : list N :=
  match u with
  | Decimal.Nil => []
  | Decimal.D0 r => 48 :: dec_digits r | Decimal.D1 r => 49 :: dec_digits r | Decimal.D2 r => 50 :: dec_digits r
  | Decimal.D3 r => 51 :: dec_digits r | Decimal.D4 r => 52 :: dec_digits r | Decimal.D5 r => 53 :: dec_digits r
  | Decimal.D6 r => 54 :: dec_digits r | Decimal.D7 r => 55 :: dec_digits r | Decimal.D8 r => 56 :: dec_digits r
  | Decimal.D9 r => 57 :: dec_digits r
  end.
Definition fmt_dec (n : N) : list N := dec_digits (N.to_uint n).
Fixpoint hex_digits (u : Hexadecimal.uint) : list N :=
  match u with
  | Hexadecimal.Nil => []
  | Hexadecimal.D0 r => 48 :: hex_digits r | Hexadecimal.D1 r => 49 :: hex_digits r | Hexadecimal.D2 r => 50 :: hex_digits r
  | Hexadecimal.D3 r => 51 :: hex_digits r | Hexadecimal.D4 r => 52 :: hex_digits r | Hexadecimal.D5 r => 53 :: hex_digits r
  | Hexadecimal.D6 r => 54 :: hex_digits r | Hexadecimal.D7 r => 55 :: hex_digits r | Hexadecimal.D8 r => 56 :: hex_digits r
  | Hexadecimal.D9 r => 57 :: hex_digits r
  | Hexadecimal.Da r => 97 :: hex_digits r | Hexadecimal.Db r => 98 :: hex_digits r | Hexadecimal.Dc r => 99 :: hex_digits r
  | Hexadecimal.Dd r => 100 :: hex_digits r | Hexadecimal.De r => 101 :: hex_digits r | Hexadecimal.Df r => 102 :: hex_digits r
  end.
Definition fmt_hex (n : N) : list N := hex_digits (N.to_hex_uint n).
(* {:04x} *)
Definition fmt_hex4 (n : N) : list N :=
  let d := fmt_hex n in repeat 48 (4 - length d) ++ d.

(* <FmtUtf16 as Debug>::fmt *)
Definition esc_char (w : N) : list N :=
  if w =? 0 then [92; 48] else if w =? 10 then [92; 110] else if w =? 13 then [92; 114]
  else if w =? 9 then [92; 116] else if w =? 34 then [92; 34] else if w =? 92 then [92; 92] else [w].
Definition esc_unpaired (w : N) : list N := [92; 117] ++ fmt_hex4 w.
Fixpoint fmt_body (ws : list N) : list N :=
  match ws with
  | [] => []
  | w :: r =>
    if is_high w then
      match r with
      | lo :: r' => if is_low lo then w :: lo :: fmt_body r' else esc_unpaired w ++ fmt_body r
      | [] => esc_unpaired w
      end
    else if is_low w then esc_unpaired w ++ fmt_body r
    else esc_char w ++ fmt_body r
  end.
Definition fmt_utf16_debug (ws : list N) : list N := [76; 34] ++ fmt_body ws ++ [34].

Definition ascii (s : list N) := s.
Definition NL : list N := [10].
Definition dword (f : list N) (i : nat) : N := word f i + 65536 * word f (S i).
Definition sep4 (a b c d : N) : list N :=
  fmt_dec a ++ [44; 32] ++ fmt_dec b ++ [44; 32] ++ fmt_dec c ++ [44; 32] ++ fmt_dec d.
Definition src_fixed (f : list N) : list N :=
  (* "1 VERSIONINFO" *)
  [49;32;86;69;82;83;73;79;78;73;78;70;79] ++ NL ++
  (* "FILEVERSION " Major, Minor, Patch, Build *)
  [70;73;76;69;86;69;82;83;73;79;78;32] ++ sep4 (word f 5) (word f 4) (word f 7) (word f 6) ++ NL ++
  (* "PRODUCTVERSION " *)
  [80;82;79;68;85;67;84;86;69;82;83;73;79;78;32] ++ sep4 (word f 9) (word f 8) (word f 11) (word f 10) ++ NL ++
  (* "FILEFLAGSMASK 0x" *)
  [70;73;76;69;70;76;65;71;83;77;65;83;75;32;48;120] ++ fmt_hex (dword f 12) ++ NL ++
  (* "FILEFLAGS 0x" *)
  [70;73;76;69;70;76;65;71;83;32;48;120] ++ fmt_hex (dword f 14) ++ NL ++
  (* "FILEOS (" hi " << 16) | " lo *)
  [70;73;76;69;79;83;32;40] ++ fmt_dec (dword f 16 / 65536) ++ [32;60;60;32;49;54;41;32;124;32] ++ fmt_dec (N.land (dword f 16) 65535) ++ NL ++
  (* "FILETYPE " *)
  [70;73;76;69;84;89;80;69;32] ++ fmt_dec (dword f 18) ++ NL ++
  (* "FILESUBTYPE " *)
  [70;73;76;69;83;85;66;84;89;80;69;32] ++ fmt_dec (dword f 20) ++ NL.
Definition spaces (n : N) : list N := repeat 32 (N.to_nat n).
Definition print_langs (l : list (N * N)) : list N :=
  flat_map (fun p => [44; 32] ++ fmt_dec (fst p) ++ [44; 32] ++ fmt_dec (snd p)) l.
Definition SourceCode : visitor (list N) :=
  {| v_version_info := fun s _ fixed => (match fixed with Some f => s ++ src_fixed f | None => s end, true);
     (* "  BLOCK " *)
     v_file_info := fun s key => (s ++ [32;32;66;76;79;67;75;32] ++ fmt_utf16_debug key ++ NL, true);
     (* "    BLOCK " *)
     v_string_table := fun s l => (s ++ [32;32;32;32;66;76;79;67;75;32] ++ fmt_utf16_debug l ++ NL, true);
     (* "      VALUE " key ", " value *)
     v_string := fun s k v => s ++ [32;32;32;32;32;32;86;65;76;85;69;32] ++ fmt_utf16_debug k ++ [44; 32] ++ fmt_utf16_debug v ++ NL;
     (* "    VALUE " key langs *)
     v_var := fun s k v =>
       if negb (list_eqb k Translation) then s
       else s ++ [32;32;32;32;86;65;76;85;69;32] ++ fmt_utf16_debug k ++ print_langs (lang_from_slice v) ++ NL;
     v_enter := fun s d => s ++ spaces (d * 2) ++ [123] ++ NL;
     v_exit := fun s d => s ++ spaces (d * 2) ++ [125] ++ NL |}.

(* ---- the recording visitor of the harness: every callback is an event; the i-th
   bool-returning callback answers bit (i mod 32) of [mask] = 0 ---- *)
Inductive event :=
| EvVersion (key : list N) (fixed : option (list N))
| EvFile (key : list N)
| EvTable (key : list N)
| EvString (key value : list N)
| EvVar (key value : list N)
| EvEnter (d : N)
| EvExit (d : N).
Record recorder := { rc_events : list event; rc_count : N }.
Definition rc_answer (mask : N) (s : recorder) (e : event) : recorder * bool :=
  ({| rc_events := rc_events s ++ [e]; rc_count := rc_count s + 1 |},
   negb (N.testbit mask (rc_count s mod 32))).
Definition rc_note (s : recorder) (e : event) : recorder :=
  {| rc_events := rc_events s ++ [e]; rc_count := rc_count s |}.
Definition Recorder (mask : N) : visitor recorder :=
  {| v_version_info := fun s k f => rc_answer mask s (EvVersion k f);
     v_file_info := fun s k => rc_answer mask s (EvFile k);
     v_string_table := fun s k => rc_answer mask s (EvTable k);
     v_string := fun s k v => rc_note s (EvString k v);
     v_var := fun s k v => rc_note s (EvVar k v);
     v_enter := fun s d => rc_note s (EvEnter d);
     v_exit := fun s d => rc_note s (EvExit d) |}.
Definition rc_init : recorder := {| rc_events := []; rc_count := 0 |}.

(* ---- the public API on a byte buffer at address [base] ---- *)
Definition api {St A} (V : visitor St) (orig : bool) (init : St) (proj : St -> A) (base : N) (bytes : list N) : res A :=
  ws <- try_from base bytes ;; s <- visit V orig base ws init ;; Ok (proj s).
Definition api_events (orig : bool) (mask : N) := api (Recorder mask) orig rc_init rc_events.
Definition api_fixed (orig : bool) := api QueryFixed orig None (fun x => x).
Definition api_translation (orig : bool) := api QueryTranslation orig [] (fun x => x).
Definition api_value (orig : bool) (lang : N * N) (key : list N) := api (QueryValue lang key) orig None (fun x => x).
Definition api_strings (orig : bool) (lang : N * N) := api (QueryStrings lang) orig [] (fun x => x).
(* [orig12]: parser before the F12 repair; [orig32]: FileInfo visitor before the F32 repair *)
Definition api_file_info (orig12 orig32 : bool) := api (FileInfoV orig32) orig12 fi_default (fun x => x).
Definition api_source_code (orig : bool) := api SourceCode orig [] (fun x => x).
