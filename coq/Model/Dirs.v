(* Model of the debug, TLS, load-config, exception and security directories:
   src/pe64/{exception,security,debug,tls,load_config}.rs (shared by pe32 through #[path]),
   src/security.rs and the PGO iterator of src/wrap/debug.rs.

   Every function works on a [view] (Model/Views.v) and on the result of
   [pe.data_directory().get(IMAGE_DIRECTORY_ENTRY_x)] : option (VirtualAddress, Size).
   Returned borrows are regions of the buffer; decoded fields are little-endian
   values of the buffer bytes ([le_value]).  usize is 64 bits. *)
From PV.Model Require Export Machine Mapping Views.

(* pe.rs:643 data_directory(): the first min(NumberOfRvaAndSizes, 16) entries; .get(i) *)
Definition data_dir (nrva : N) (dirs : list (N * N)) (i : N) : option (N * N) :=
  if i <? N.min nrva 16 then nth_error dirs (N.to_nat i) else None.

Definition u8at (g : N -> N) (o : N) : N := g o.
Definition u16at (g : N -> N) (o : N) : N := le_value g o 2%nat.
Definition u32at (g : N -> N) (o : N) : N := le_value g o 4%nat.
Definition u64at (g : N -> N) (o : N) : N := le_value g o 8%nat.

(* ================================================================ exception.rs *)

Record rfun := { rf_begin : N; rf_end : N; rf_unwind : N }.

(* exception.rs:24 Exception::try_from *)
Definition exception_try_from (v : view) (dd : option (N * N)) : res region :=
  match dd with
  | None => Err EBounds
  | Some (va, size) =>
    let len := size / 12 in
    let rem := size mod 12 in
    if negb (rem =? 0) then Err EInvalid
    else rd_slice (slice v) va 12 4 len
  end.

(* the decoded slice &[RUNTIME_FUNCTION]: n records starting at off *)
Fixpoint rf_table (g : N -> N) (off : N) (n : nat) : list rfun :=
  match n with
  | O => []
  | S k => {| rf_begin := u32at g off; rf_end := u32at g (off + 4); rf_unwind := u32at g (off + 8) |}
           :: rf_table g (off + 12) k
  end.
Definition exception_functions (v : view) (r : region) : list rfun :=
  rf_table (v_get v) (r_off r) (N.to_nat (r_len r / 12)).

(* exception.rs:46 check_sorted: image.windows(2).all(..) *)
Fixpoint check_sorted (t : list rfun) : bool :=
  match t with
  | a :: rest =>
    match rest with
    | b :: _ => (rf_begin a <=? rf_end a) && (rf_end a <=? rf_begin b) && (rf_begin b <=? rf_end b) && check_sorted rest
    | [] => true
    end
  | [] => true
  end.

Inductive ordering := Less | Equal | Greater.
(* the closure handed to binary_search_by: the ordering of the ELEMENT relative to the target.
   After the F17 repair: an element that starts after pc is Greater, one that ends at or before pc is Less *)
Definition cmp_rf (pc : N) (f : rfun) : ordering :=
  if pc <? rf_begin f then Greater
  else if rf_end f <=? pc then Less
  else Equal.
(* the closure as it stood (inverted, and pc = EndAddress counted as inside) *)
Definition cmp_rf_orig (pc : N) (f : rfun) : ordering :=
  if pc <? rf_begin f then Less
  else if rf_end f <? pc then Greater
  else Equal.

(* Result<usize, usize> of binary_search_by *)
Inductive found := Found (i : N) | Insert (k : N).

(* A plain binary search over [lo, hi).  std's binary_search_by is characterised by its
   contract only (see Spec/DirSpec.v bsearch_contract and the trusted base); this is one
   implementation of that contract.  [nth_error = None] cannot happen (std uses
   get_unchecked there), hence UBOob. *)
Fixpoint bsearch (fuel : nat) (c : rfun -> ordering) (t : list rfun) (lo hi : N) : res found :=
  match fuel with
  | O => Fault OutOfFuel
  | S k =>
    if hi <=? lo then Ok (Insert lo)
    else
      let mid := lo + (hi - lo) / 2 in
      match nth_error t (N.to_nat mid) with
      | None => Fault UBOob
      | Some f =>
        match c f with
        | Equal => Ok (Found mid)
        | Less => bsearch k c t (mid + 1) hi
        | Greater => bsearch k c t lo mid
        end
      end
  end.

(* exception.rs:62 index_of *)
Definition index_of (t : list rfun) (pc : N) : res found :=
  bsearch (S (length t)) (cmp_rf pc) t 0 (lenN t).
Definition index_of_orig (t : list rfun) (pc : N) : res found :=
  bsearch (S (length t)) (cmp_rf_orig pc) t 0 (lenN t).

(* exception.rs:79 lookup_function_entry: &self.image[index] is a checked index *)
Definition lookup_function_entry (t : list rfun) (pc : N) : res (option (N * rfun)) :=
  r <- index_of t pc ;;
  match r with
  | Found i => match nth_error t (N.to_nat i) with Some f => Ok (Some (i, f)) | None => Fault PIndex end
  | Insert _ => Ok None
  end.

(* exception.rs:114 Function::bytes *)
Definition function_bytes (v : view) (f : rfun) : res region :=
  if rf_end f <? rf_begin f then Err EOverflow
  else rd_slice (slice v) (rf_begin f) 1 1 (rf_end f - rf_begin f).

(* exception.rs:124 Function::unwind_info.  The result is the UNWIND_INFO header (4 bytes) together
   with its CountOfCodes UNWIND_CODE slots: region of 4 + 2*CountOfCodes bytes. *)
Definition unwind_info (v : view) (f : rfun) : res region :=
  bytes <- slice v (rf_unwind f) 4 1 ;;
  let count := u8at (v_get v) (r_off bytes + 2) in
  m <- chk_mul W64 2 count ;;
  min_size_of <- chk_add W64 4 m ;;
  if r_len bytes <? min_size_of then Err EBounds
  else Ok {| r_off := r_off bytes; r_len := min_size_of |}.

(* UnwindInfo accessors over the region returned above *)
Definition uw_version (g : N -> N) (r : region) : N := N.land (u8at g (r_off r)) 7.
Definition uw_flags (g : N -> N) (r : region) : N := u8at g (r_off r) / 8.
Definition uw_size_of_prolog (g : N -> N) (r : region) : N := u8at g (r_off r + 1).
Definition uw_count (g : N -> N) (r : region) : N := u8at g (r_off r + 2).
Definition uw_frame_register (g : N -> N) (r : region) : N := N.land (u8at g (r_off r + 3)) 15.
Definition uw_frame_offset (g : N -> N) (r : region) : N := u8at g (r_off r + 3) / 16.
(* unwind_codes(): from_raw_parts(UnwindCode.as_ptr(), CountOfCodes) *)
Definition uw_codes (g : N -> N) (r : region) : region :=
  {| r_off := r_off r + 4; r_len := 2 * uw_count g r |}.

(* ================================================================ security.rs *)

(* src/security.rs:35 Security::new: two debug assertions *)
Definition security_new (v : view) (r : region) : res region :=
  if negb (aligned_to 4 (v_addr v + r_off r)) then Fault PAssert
  else if r_len r <? 8 then Fault PAssert
  else Ok r.

(* pe64/security.rs:8 try_from, after the F8 repair (the end is computed in usize with checked_add) *)
Definition security_try_from (v : view) (dd : option (N * N)) : res region :=
  if negb (v_file v) then Err EUnmapped
  else match dd with
  | None => Err EBounds
  | Some (va, size) =>
    if va =? 0 then Err ENull
    else if negb (aligned_to 8 va) || negb (aligned_to 8 size) then Err EMisaligned
    else if size =? 0 then Err EBounds
    else match checked_add W64 va size with
         | None => Err EOverflow
         | Some e =>
           match get_range (v_len v) va e with
           | None => Err EBounds
           | Some r => security_new v r
           end
         end
  end.
(* the code as it stood: VirtualAddress + Size is a u32 addition *)
Definition security_try_from_orig (v : view) (dd : option (N * N)) : res region :=
  if negb (v_file v) then Err EUnmapped
  else match dd with
  | None => Err EBounds
  | Some (va, size) =>
    if va =? 0 then Err ENull
    else if negb (aligned_to 8 va) || negb (aligned_to 8 size) then Err EMisaligned
    else if size =? 0 then Err EBounds
    else e <- chk_add W32 va size ;;
         match get_range (v_len v) va e with
         | None => Err EBounds
         | Some r => security_new v r
         end
  end.

Definition certificate_type (g : N -> N) (r : region) : N := u16at g (r_off r + 6).
(* get_unchecked(8..) *)
Definition certificate_data (r : region) : res region :=
  if r_len r <? 8 then Fault UBOob else Ok {| r_off := r_off r + 8; r_len := r_len r - 8 |}.

(* ================================================================ debug.rs *)

(* debug.rs:44 Debug::try_from *)
Definition debug_try_from (v : view) (dd : option (N * N)) : res region :=
  match dd with
  | None => Err EBounds
  | Some (va, size) =>
    let len := size / 28 in
    let rem := size mod 28 in
    if negb (rem =? 0) then Err EInvalid
    else rd_slice (slice v) va 28 4 len
  end.

(* one IMAGE_DEBUG_DIRECTORY at buffer offset [o] *)
Record ddir := { dd_off : N; dd_time : N; dd_type : N; dd_size : N; dd_addr : N; dd_ptr : N }.
Definition ddir_at (g : N -> N) (o : N) : ddir :=
  {| dd_off := o; dd_time := u32at g (o + 4); dd_type := u32at g (o + 12); dd_size := u32at g (o + 16);
     dd_addr := u32at g (o + 20); dd_ptr := u32at g (o + 24) |}.
Fixpoint ddir_table (g : N -> N) (off : N) (n : nat) : list ddir :=
  match n with O => [] | S k => ddir_at g off :: ddir_table g (off + 28) k end.
Definition debug_dirs (v : view) (r : region) : list ddir :=
  ddir_table (v_get v) (r_off r) (N.to_nat (r_len r / 28)).

(* debug.rs:140 Dir::data *)
Definition dir_data (v : view) (d : ddir) : option region :=
  let size := dd_size d in
  let offset := if v_file v then dd_ptr d else dd_addr d in
  get_range (v_len v) offset (wadd64 offset size).

(* CStr::from_bytes on the [len] bytes at [off]: up to and including the first NUL *)
Definition cstr_from_bytes (g : N -> N) (off len : N) : option region :=
  match find_nul g off (N.to_nat len) with
  | Some i => Some {| r_off := off; r_len := i + 1 |}
  | None => None
  end.

Definition SIG_NB10 : N := 808534606.    (* b"NB10" little endian: 0x3031424E *)
Definition SIG_RSDS : N := 1396986706.   (* b"RSDS" little endian: 0x53445352 *)

(* one PGO record: rva, size, name (region including the NUL) *)
Record pgo_item := { pg_rva : N; pg_size : N; pg_name : region }.

Inductive entry :=
| ECv20 (image : N) (name : region)       (* offset of the IMAGE_DEBUG_CV_INFO_PDB20, pdb_file_name incl. NUL *)
| ECv70 (image : N) (name : region)
| EDbg (image : N)
| EPgo (image : region)                   (* the dword slice: r_len is in BYTES (4 * count) *)
| EUnknown (data : option region).

(* debug.rs:176 code_view *)
Definition code_view (v : view) (d : ddir) : res entry :=
  match dir_data v d with
  | None => Err EBounds
  | Some b =>
    if r_len b <? 16 then Err EBounds
    else if negb (aligned_to 4 (v_addr v + r_off b)) then Err EMisaligned
    else
      let sig := u32at (v_get v) (r_off b) in
      if sig =? SIG_NB10 then
        if r_len b <? 16 then Err EBounds
        else match cstr_from_bytes (v_get v) (r_off b + 16) (r_len b - 16) with
             | Some n => Ok (ECv20 (r_off b) n)
             | None => Err EEncoding
             end
      else if sig =? SIG_RSDS then
        if r_len b <? 24 then Err EBounds
        else match cstr_from_bytes (v_get v) (r_off b + 24) (r_len b - 24) with
             | Some n => Ok (ECv70 (r_off b) n)
             | None => Err EEncoding
             end
      else Err EBadMagic
  end.

(* debug.rs:206 dbg *)
Definition dbg_entry (v : view) (d : ddir) : res entry :=
  match dir_data v d with
  | None => Err EBounds
  | Some b =>
    if r_len b <? 12 then Err EBounds
    else if negb (aligned_to 4 (v_addr v + r_off b)) then Err EMisaligned
    else Ok (EDbg (r_off b))
  end.

(* debug.rs:218 pgo *)
Definition pgo_entry (v : view) (d : ddir) : res entry :=
  match dir_data v d with
  | None => Err EBounds
  | Some b =>
    if r_len b <? 4 then Err EBounds
    else if negb (aligned_to 4 (v_addr v + r_off b)) then Err EMisaligned
    else Ok (EPgo {| r_off := r_off b; r_len := 4 * (r_len b / 4) |})
  end.

(* debug.rs:150 Dir::entry *)
Definition dir_entry (v : view) (d : ddir) : res entry :=
  if dd_type d =? 2 then code_view v d
  else if dd_type d =? 4 then dbg_entry v d
  else if dd_type d =? 13 then pgo_entry v d
  else Ok (EUnknown (dir_data v d)).

(* debug.rs:65 pdb_file_name: find_map over the entries *)
Fixpoint pdb_file_name (v : view) (ds : list ddir) : option region :=
  match ds with
  | [] => None
  | d :: rest =>
    match dir_entry v d with
    | Ok (ECv20 _ n) => Some n
    | Ok (ECv70 _ n) => Some n
    | _ => pdb_file_name v rest
    end
  end.

(* wrap/debug.rs:232 PgoIter::next iterated to exhaustion; [off] = byte offset of the remaining dword
   slice, [n] = its length in dwords.  `&self.image[2 + len + 1..]` is a checked slice. *)
Fixpoint pgo_items (fuel : nat) (g : N -> N) (off n : N) : res (list pgo_item) :=
  match fuel with
  | O => Fault OutOfFuel
  | S k =>
    if 3 <=? n then
      let rva := u32at g off in
      let size := u32at g (off + 4) in
      match cstr_from_bytes g (off + 8) (4 * (n - 2)) with
      | None => Ok []
      | Some name =>
        let len := (r_len name - 1) / 4 in          (* name.len() >> 2 *)
        if n <? 2 + len + 1 then Fault PSliceOrder
        else
          rest <- pgo_items k g (off + 4 * (2 + len + 1)) (n - (2 + len + 1)) ;;
          Ok ({| pg_rva := rva; pg_size := size; pg_name := name |} :: rest)
      end
    else Ok []
  end.
(* wrap/debug.rs:211 Pgo::iter: the first dword is skipped *)
Definition pgo_iter (g : N -> N) (image : region) : res (list pgo_item) :=
  let n := r_len image / 4 in
  if 1 <=? n then pgo_items (S (N.to_nat n)) g (r_off image + 4) (n - 1)
  else pgo_items (S (N.to_nat n)) g (r_off image) n.

(* ================================================================ tls.rs, load_config.rs *)

(* size of a Va / of a pointer-sized field *)
Definition va_size (v : view) : N := if v_w v =? W32 then 4 else 8.
Definition vaat (v : view) (o : N) : N := le_value (v_get v) o (N.to_nat (va_size v)).

Definition tls_dir_size (v : view) : N := if v_w v =? W32 then 24 else 40.
(* tls.rs:46 Tls::try_from: derva::<IMAGE_TLS_DIRECTORY> *)
Definition tls_try_from (v : view) (dd : option (N * N)) : res region :=
  match dd with
  | None => Err EBounds
  | Some (va, _) => rd (slice v) va (tls_dir_size v) (va_size v)
  end.
Definition tls_start (v : view) (t : region) : N := vaat v (r_off t).
Definition tls_end (v : view) (t : region) : N := vaat v (r_off t + va_size v).
Definition tls_index (v : view) (t : region) : N := vaat v (r_off t + 2 * va_size v).
Definition tls_cb (v : view) (t : region) : N := vaat v (r_off t + 3 * va_size v).
(* tls.rs:61 raw_data *)
Definition tls_raw_data (v : view) (t : region) : res region :=
  if tls_end v t <? tls_start v t then Err EInvalid
  else rd_slice (read v) (tls_start v t) 1 1 (tls_end v t - tls_start v t).
(* tls.rs:70 slot *)
Definition tls_slot (v : view) (t : region) : res region := rd (read v) (tls_index v t) 4 4.
(* tls.rs:74 callbacks: deref_slice_s(ptr, 0) over Va elements *)
Definition tls_callbacks (v : view) (t : region) : res region :=
  rd_slice_s (v_get v) (read v) (tls_cb v t) (va_size v) (va_size v) 0.

Definition lc_dir_size (v : view) : N := if v_w v =? W32 then 72 else 112.
Definition lc_cookie_off (v : view) : N := if v_w v =? W32 then 60 else 88.
Definition lc_table_off (v : view) : N := if v_w v =? W32 then 64 else 96.
Definition lc_count_off (v : view) : N := if v_w v =? W32 then 68 else 104.
(* load_config.rs:41 LoadConfig::try_from: derva::<IMAGE_LOAD_CONFIG_DIRECTORY> *)
Definition load_config_try_from (v : view) (dd : option (N * N)) : res region :=
  match dd with
  | None => Err EBounds
  | Some (va, _) => rd (slice v) va (lc_dir_size v) (va_size v)
  end.
Definition lc_cookie_ptr (v : view) (t : region) : N := vaat v (r_off t + lc_cookie_off v).
Definition lc_table_ptr (v : view) (t : region) : N := vaat v (r_off t + lc_table_off v).
Definition lc_count (v : view) (t : region) : N := vaat v (r_off t + lc_count_off v).
(* load_config.rs:54 security_cookie, :58 se_handler_table *)
Definition lc_security_cookie (v : view) (t : region) : res region := rd (read v) (lc_cookie_ptr v t) 4 4.
Definition lc_se_handler_table (v : view) (t : region) : res region :=
  rd_slice (read v) (lc_table_ptr v t) (va_size v) (va_size v) (lc_count v t).
