(* Model of the address-translation core of src/pe64/pe.rs (shared by pe32):
   rva_to_file_offset, file_offset_to_rva, range_file, slice_file, read_file,
   slice_section, read_section, rva_to_va, va_to_rva, and wrap::get_section_bytes.
   The section table is the decoded list of (VirtualAddress, VirtualSize,
   PointerToRawData, SizeOfRawData); every field is a u32. [len] is image.len(),
   [base] the machine address of image[0] (only used for alignment tests). *)
From PV.Model Require Export Machine.

Record section := { s_va : N; s_vs : N; s_prd : N; s_srd : N }.
Definition section_ok (s : section) : Prop :=
  s_va s < W32 /\ s_vs s < W32 /\ s_prd s < W32 /\ s_srd s < W32.

(* a returned borrow: where it starts in the buffer and how long it is *)
Record region := { r_off : N; r_len : N }.

(* image.get(a..b) *)
Definition get_range (len a b : N) : option region :=
  if (a <=? b) && (b <=? len) then Some {| r_off := a; r_len := b - a |} else None.
(* image.get(a..) *)
Definition get_from (len a : N) : option region :=
  if a <=? len then Some {| r_off := a; r_len := len - a |} else None.

(* ---- pe.rs:85 rva_to_file_offset ---- *)
Fixpoint rva_to_file_offset_secs (secs : list section) (rva : N) : res N :=
  match secs with
  | [] => Err EBounds
  | it :: rest =>
    let vend := wadd32 (s_va it) (N.max (s_vs it) (s_srd it)) in
    if (s_va it <=? rva) && (rva <? vend) then
      match checked_add W32 (s_prd it) (s_srd it) with
      | None => Err EOverflow
      | Some _ =>
        let so := rva - s_va it in
        if so <? s_srd it then Ok (so + s_prd it)
        else if so <? s_vs it then Err EZeroFill
        else Err EBounds
      end
    else rva_to_file_offset_secs rest rva
  end.
Definition rva_to_file_offset (soh : N) (secs : list section) (rva : N) : res N :=
  if rva <? soh then Ok rva else rva_to_file_offset_secs secs rva.

(* ---- pe.rs:133 file_offset_to_rva (file_offset : usize) ---- *)
Fixpoint file_offset_to_rva_secs (secs : list section) (fo : N) : res N :=
  match secs with
  | [] => Err EBounds
  | it :: rest =>
    let eord := wadd32 (s_prd it) (s_srd it) in
    if (s_prd it <=? fo) && (fo <? eord) then
      match checked_add W32 (s_va it) (s_vs it) with
      | None => Err EOverflow
      | Some _ =>
        let so := fo mod W32 - s_prd it in           (* file_offset as Rva - PointerToRawData *)
        if so <? s_vs it then Ok (so + s_va it)
        else if so <? s_srd it then Err EUnmapped
        else Err EBounds
      end
    else file_offset_to_rva_secs rest fo
  end.
Definition file_offset_to_rva (soh : N) (secs : list section) (fo : N) : res N :=
  if fo <? soh then Ok (fo mod W32) else file_offset_to_rva_secs secs fo.

(* ---- pe.rs:693 range_file ---- *)
Fixpoint range_file (len : N) (secs : list section) (rva min_size : N) : res region :=
  match secs with
  | [] => Err EBounds
  | it :: rest =>
    let vend := wadd32 (s_va it) (N.max (s_vs it) (s_srd it)) in
    if (s_va it <=? rva) && (rva <? vend) then
      match get_range len (s_prd it) (wadd32 (s_prd it) (s_srd it)) with
      | None => Err EInvalid
      | Some sb =>
        let so := rva - s_va it in
        match get_from (r_len sb) so with
        | Some b =>
          if min_size <=? r_len b then Ok {| r_off := r_off sb + r_off b; r_len := r_len b |}
          else Err (if vend - rva <? min_size then EBounds else EZeroFill)
        | None => Err (if vend - rva <? min_size then EBounds else EZeroFill)
        end
      end
    else range_file len rest rva min_size
  end.

(* ---- pe.rs:718 slice_file (after the F3 repair: the returned pointer is re-checked) ---- *)
Definition slice_file (base len : N) (secs : list section) (rva min_size align : N) : res region :=
  if rva =? 0 then Err ENull
  else if negb (aligned_to align (wadd64 base rva)) then Err EMisaligned
  else
    r <- range_file len secs rva min_size ;;
    if negb (aligned_to align (base + r_off r)) then Err EMisaligned else Ok r.

(* the code as it stood before the repair *)
Definition slice_file_orig (base len : N) (secs : list section) (rva min_size align : N) : res region :=
  if rva =? 0 then Err ENull
  else if negb (aligned_to align (wadd64 base rva)) then Err EMisaligned
  else range_file len secs rva min_size.

(* ---- wrap/pe.rs:17 get_section_bytes ---- *)
Definition get_section_bytes (len address size : N) : res region :=
  if address =? 0 then Err ENull
  else match get_range len address (wadd32 address size) with
       | Some r => Ok r | None => Err EBounds end.
