(* Model of the directory part of the wrapper layer: src/wrap/{exports,imports,debug,tls,
   load_config,scanner}.rs and the generic items of src/wrap/mod.rs (Iterator for Wrap,
   transpose, into), over the existing fmt-parametrised models of the format-specific API
   (Model/Exports.v, Imports.v, Dirs.v), which are imported qualified.

   A wrapper value over a directory object is the variant tag together with the object the
   variant holds; the format-specific object of format [f] over an accepted buffer is what the
   models compute on [pe_view f file m].  Most wrapper methods are the two-armed match
   ([dispatch], see the table in docs/notes-C19.md); the methods below have code of their own:
     Wrap<By>::iter / iter_names / iter_name_indices   (wrap/exports.rs:268-283)
     Wrap<Exports>::by, Wrap<Desc>::iat, Wrap<Tls>::callbacks, Wrap<LoadConfig>::se_handler_table
                                                       (Wrap::T32(..).transpose())
     Wrap<Desc>::int                                   (Wrap::T32(desc.int()?).map(Wrap::into))
     Wrap<Imports>::iter / into_iter, Wrap<Debug>::iter / into_iter, Wrap<IAT>::iter
                                                       (through `impl Iterator for Wrap`)
     Wrap<Pe>::get_section_bytes                       (Model/Wrap.v)                      *)
From PV.Model Require Export Machine Mapping Views Headers Wrap.
From PV.Model Require Exports Imports Dirs.
From PV.gen Require Import Layout.

(* ---- wrap/mod.rs: a value tagged by the variant ---- *)
Inductive wrapv (A : Type) := WT32 (a : A) | WT64 (a : A).
Arguments WT32 {A} a.
Arguments WT64 {A} a.
Definition tag {A} (w : wrapped) (a : A) : wrapv A := match w with T32 => WT32 a | T64 => WT64 a end.
(* mod.rs:49 Wrap<T, T>::into *)
Definition winto {A} (x : wrapv A) : A := match x with WT32 a => a | WT64 a => a end.
(* mod.rs:23 Wrap<Result<A>, Result<B>>::transpose *)
Definition wtranspose {A} (x : wrapv (res A)) : res (wrapv A) :=
  match x with
  | WT32 (Ok a) => Ok (WT32 a) | WT32 (Err e) => Err e | WT32 (Fault f) => Fault f
  | WT64 (Ok a) => Ok (WT64 a) | WT64 (Err e) => Err e | WT64 (Fault f) => Fault f
  end.
(* mod.rs:36 Wrap<Option<A>, Option<B>>::transpose *)
Definition wtranspose_opt {A} (x : wrapv (option A)) : option (wrapv A) :=
  match x with
  | WT32 (Some a) => Some (WT32 a) | WT32 None => None
  | WT64 (Some a) => Some (WT64 a) | WT64 None => None
  end.
(* mod.rs:11 impl Iterator for Wrap<I32, I64>: an iterator is the list of the items it still yields *)
Definition wnext {A} (x : wrapv (list A)) : option (wrapv A) * wrapv (list A) :=
  match x with
  | WT32 [] => (None, WT32 []) | WT32 (a :: t) => (Some (WT32 a), WT32 t)
  | WT64 [] => (None, WT64 []) | WT64 (a :: t) => (Some (WT64 a), WT64 t)
  end.
(* the iterator run to exhaustion (for x in iter) *)
Fixpoint wdrain {A} (fuel : nat) (x : wrapv (list A)) : list (wrapv A) :=
  match fuel with
  | O => []
  | S k => match wnext x with (Some a, x') => a :: wdrain k x' | (None, _) => [] end
  end.
Definition wlen {A} (x : wrapv (list A)) : nat := length (winto x).
Definition wcollect {A} (x : wrapv (list A)) : list (wrapv A) := wdrain (S (wlen x)) x.

(* ---- the format-specific object over an accepted buffer ---- *)
Definition pe_of (f : fmt) (file : bool) (m : mem) : Imports.pe :=
  {| Imports.p_f := f; Imports.p_v := pe_view f file m |}.
Definition dd_of (f : fmt) (m : mem) (i : N) : option (N * N) := data_dir f m i.

(* start .. start+n-1 ; 0 .. n-1 *)
Fixpoint range_from (start : N) (n : nat) : list N :=
  match n with O => [] | S k => start :: range_from (start + 1) k end.
Definition range (n : N) : list N := range_from 0 (N.to_nat n).

(* ================================================================ exports *)
(* pe.exports()?.by()? of format f, and the derva_c_str of that format's pe *)
Definition op_exports_by (f : fmt) (file : bool) (m : mem) : res Exports.tables :=
  Exports.view_by (pe_view f file m) (dd_of f m IMAGE_DIRECTORY_ENTRY_EXPORT).
Definition op_cstr (f : fmt) (file : bool) (m : mem) : N -> res (list N) := Exports.view_cstr (pe_view f file m).

(* wrap/exports.rs:104 Wrap<Exports>::by  =  Wrap::T32(exports.by()).transpose() *)
Definition wrap_exports_by (w : wrapped) (file : bool) (m : mem) : res (wrapv Exports.tables) :=
  dispatch w (fun f => wtranspose (tag w (op_exports_by f file m))).

Section WrapBy.
  Variable w : wrapped.
  Variable cstr : fmt -> N -> res (list N).     (* derva_c_str of the pe the held By refers to *)
  Variable t : Exports.tables.                  (* the three slices, Base and the data directory the held By holds *)

  (* delegating methods the three iterators are written with *)
  Definition wby_functions : list N := dispatch w (fun _ => Exports.t_funcs t).
  Definition wby_names : list N := dispatch w (fun _ => Exports.t_names t).
  Definition wby_name_indices : list N := dispatch w (fun _ => Exports.t_idxs t).
  Definition wby_symbol_from_rva (rva : N) : res Exports.export := dispatch w (fun f => Exports.symbol_from_rva (cstr f) t rva).
  Definition wby_name_of_hint (h : N) : res (list N) := dispatch w (fun f => Exports.name_of_hint (cstr f) t h).
  Definition wby_hint (h : N) : res Exports.export := dispatch w (fun f => Exports.hint (cstr f) t h).
  Definition wby_index (i : N) : res Exports.export := dispatch w (fun f => Exports.index (cstr f) t i).
  Definition wby_ordinal (o : N) : res Exports.export := dispatch w (fun f => Exports.ordinal (cstr f) t o).
  Definition wby_name (n : list N) : res Exports.export := dispatch w (fun f => Exports.name (cstr f) t n).
  Definition wby_name_linear (n : list N) : res Exports.export := dispatch w (fun f => Exports.name_linear (cstr f) t n).
  Definition wby_hint_name (h : N) (n : list N) : res Exports.export := dispatch w (fun f => Exports.hint_name (cstr f) t h n).
  Definition wby_import (i : Exports.import) : res Exports.export := dispatch w (fun f => Exports.import_ (cstr f) t i).
  Definition wby_name_lookup (i : N) : res Exports.import := dispatch w (fun f => Exports.name_lookup (cstr f) t i).
  Definition wby_check_sorted : res bool := dispatch w (fun f => Exports.check_sorted (cstr f) t).

  (* :268 iter = self.functions().iter().map(|rva| self.symbol_from_rva(rva)) *)
  Definition wby_iter : list (res Exports.export) := map wby_symbol_from_rva wby_functions.
  (* :273 iter_names = (0..self.names().len() as u32).map(|hint| (self.name_of_hint(hint as usize), self.hint(hint as usize))) *)
  Definition wby_iter_names : list (res (list N) * res Exports.export) :=
    map (fun h => (wby_name_of_hint h, wby_hint h)) (range (lenN wby_names mod W32)).
  (* :278 iter_name_indices = (0..names.len() as u32).zip(name_indices.iter()).map(|(hint, &index)| (name_of_hint(hint), index as usize)) *)
  Definition wby_iter_name_indices : list (res (list N) * N) :=
    map (fun hi => (wby_name_of_hint (fst hi), snd hi)) (combine (range (lenN wby_names mod W32)) wby_name_indices).
End WrapBy.

(* ================================================================ imports *)
Definition op_imports (f : fmt) (file : bool) (m : mem) : res region := Imports.imports (pe_of f file m).
Definition op_descs (f : fmt) (file : bool) (m : mem) (r : region) : list Imports.desc := Imports.descs (pe_of f file m) r.
Definition op_desc_dll_name (f : fmt) (file : bool) (m : mem) (d : Imports.desc) : res region := Imports.dll_name (pe_of f file m) d.
Definition op_desc_iat (f : fmt) (file : bool) (m : mem) (d : Imports.desc) : res (list N) :=
  r <- Imports.desc_iat (pe_of f file m) d ;; Ok (Imports.thunk_values (pe_of f file m) r).
Definition op_desc_int (f : fmt) (file : bool) (m : mem) (d : Imports.desc) : res (list (res Imports.import)) :=
  r <- Imports.desc_int (pe_of f file m) d ;; Ok (Imports.int_imports (pe_of f file m) r).
Definition op_iat (f : fmt) (file : bool) (m : mem) : res region := Imports.iat (pe_of f file m).
Definition op_iat_iter (f : fmt) (file : bool) (m : mem) (r : region) : list (N * res Imports.import) :=
  Imports.iat_iter (pe_of f file m) r.

(* wrap/imports.rs:38 Wrap<Imports>::iter, :48 into_iter: the wrapped iterator, drained through `impl Iterator for Wrap` *)
Definition wrap_imports_iter (w : wrapped) (file : bool) (m : mem) (r : region) : list (wrapv Imports.desc) :=
  wcollect (dispatch w (fun f => tag w (op_descs f file m r))).
(* :112 Wrap<Desc>::iat = Wrap::T32(desc.iat()).transpose(): the slice iterator over Va values (u32 or u64) *)
Definition wrap_desc_iat (w : wrapped) (file : bool) (m : mem) (d : Imports.desc) : res (wrapv (list N)) :=
  dispatch w (fun f => wtranspose (tag w (op_desc_iat f file m d))).
(* :120 Wrap<Desc>::int = Ok(Wrap::T32(desc.int()?).map(Wrap::into)): items of the common Import type *)
Definition wrap_desc_int (w : wrapped) (file : bool) (m : mem) (d : Imports.desc) : res (list (res Imports.import)) :=
  dispatch w (fun f => l <- op_desc_int f file m d ;; Ok (map winto (wcollect (tag w l)))).
(* :80 Wrap<IAT>::iter *)
Definition wrap_iat_iter (w : wrapped) (file : bool) (m : mem) (r : region) : list (wrapv (N * res Imports.import)) :=
  wcollect (dispatch w (fun f => tag w (op_iat_iter f file m r))).

(* ================================================================ debug *)
Definition op_debug (f : fmt) (file : bool) (m : mem) : res region :=
  Dirs.debug_try_from (pe_view f file m) (dd_of f m IMAGE_DIRECTORY_ENTRY_DEBUG).
Definition op_debug_dirs (f : fmt) (file : bool) (m : mem) (r : region) : list Dirs.ddir := Dirs.debug_dirs (pe_view f file m) r.
Definition op_dir_entry (f : fmt) (file : bool) (m : mem) (d : Dirs.ddir) : res Dirs.entry := Dirs.dir_entry (pe_view f file m) d.
Definition op_dir_data (f : fmt) (file : bool) (m : mem) (d : Dirs.ddir) : option region := Dirs.dir_data (pe_view f file m) d.
Definition op_pdb_file_name (f : fmt) (file : bool) (m : mem) (r : region) : option region :=
  Dirs.pdb_file_name (pe_view f file m) (op_debug_dirs f file m r).
(* wrap/debug.rs:36 Wrap<Debug>::iter, :50 into_iter = self.iter() *)
Definition wrap_debug_iter (w : wrapped) (file : bool) (m : mem) (r : region) : list (wrapv Dirs.ddir) :=
  wcollect (dispatch w (fun f => tag w (op_debug_dirs f file m r))).
Definition wrap_debug_into_iter := wrap_debug_iter.
(* wrap/debug.rs:99-127 Entry::as_code_view / as_dbg / as_pgo / as_unknown *)
Definition entry_as_code_view (e : Dirs.entry) : option Dirs.entry :=
  match e with Dirs.ECv20 _ _ | Dirs.ECv70 _ _ => Some e | _ => None end.
Definition entry_as_dbg (e : Dirs.entry) : option N := match e with Dirs.EDbg i => Some i | _ => None end.
Definition entry_as_pgo (e : Dirs.entry) : option region := match e with Dirs.EPgo i => Some i | _ => None end.
Definition entry_as_unknown (e : Dirs.entry) : option region := match e with Dirs.EUnknown d => d | _ => None end.

(* ================================================================ tls, load config *)
Definition op_tls (f : fmt) (file : bool) (m : mem) : res region :=
  Dirs.tls_try_from (pe_view f file m) (dd_of f m IMAGE_DIRECTORY_ENTRY_TLS).
Definition op_tls_raw_data (f : fmt) (file : bool) (m : mem) (t : region) : res region := Dirs.tls_raw_data (pe_view f file m) t.
Definition op_tls_slot (f : fmt) (file : bool) (m : mem) (t : region) : res region := Dirs.tls_slot (pe_view f file m) t.
Definition op_tls_callbacks (f : fmt) (file : bool) (m : mem) (t : region) : res region := Dirs.tls_callbacks (pe_view f file m) t.
(* wrap/tls.rs:40 callbacks = Wrap::T32(tls.callbacks()).transpose() *)
Definition wrap_tls_callbacks (w : wrapped) (file : bool) (m : mem) (t : region) : res (wrapv region) :=
  dispatch w (fun f => wtranspose (tag w (op_tls_callbacks f file m t))).

Definition op_load_config (f : fmt) (file : bool) (m : mem) : res region :=
  Dirs.load_config_try_from (pe_view f file m) (dd_of f m IMAGE_DIRECTORY_ENTRY_LOAD_CONFIG).
Definition op_lc_security_cookie (f : fmt) (file : bool) (m : mem) (t : region) : res region :=
  Dirs.lc_security_cookie (pe_view f file m) t.
Definition op_lc_se_handler_table (f : fmt) (file : bool) (m : mem) (t : region) : res region :=
  Dirs.lc_se_handler_table (pe_view f file m) t.
(* wrap/load_config.rs:33 se_handler_table = Wrap::T32(..).transpose() *)
Definition wrap_lc_se_handler_table (w : wrapped) (file : bool) (m : mem) (t : region) : res (wrapv region) :=
  dispatch w (fun f => wtranspose (tag w (op_lc_se_handler_table f file m t))).

(* ================================================================ security, exception, base relocs *)
Definition op_security (f : fmt) (file : bool) (m : mem) : res region :=
  Dirs.security_try_from (pe_view f file m) (dd_of f m IMAGE_DIRECTORY_ENTRY_SECURITY).
Definition op_exception (f : fmt) (file : bool) (m : mem) : res region :=
  Dirs.exception_try_from (pe_view f file m) (dd_of f m IMAGE_DIRECTORY_ENTRY_EXCEPTION).
Definition op_base_relocs (f : fmt) (file : bool) (m : mem) : res region := acc_base_relocs f file m.

(* ================================================================ wrap/sections.rs (format independent) *)
(* SectionHeader::virtual_range / file_range *)
Definition sec_virtual_range (s : section) : N * N := (s_va s, wadd32 (s_va s) (s_vs s)).
Definition sec_file_range (s : section) : N * N := (s_prd s, wadd32 (s_prd s) (s_srd s)).
(* util::trimn: `while len > 0 { if buf[len - 1] != 0 { break } len -= 1 }` *)
Fixpoint trim_len (buf : list N) (len : nat) : nat :=
  match len with
  | O => O
  | S k => if nth k buf 0 =? 0 then trim_len buf k else len
  end.
Definition trimn (buf : list N) : list N := firstn (trim_len buf (length buf)) buf.
(* SectionHeader::name_bytes *)
Definition sec_name_bytes (f : fmt) (m : mem) (i : N) : list N :=
  trimn (bytes_from m (sec_table_off f m + i * IMAGE_SECTION_HEADER_size) 8).
