(* Model of header validation and the header accessors of src/pe64/pe.rs
   (validate_headers, dos_header .. section_headers, Headers::image), the section
   lookups of src/wrap/sections.rs, the wrapper constructors of src/wrap/file.rs /
   view.rs, and Headers::check_sum of src/pe64/headers.rs.  Struct sizes and field
   offsets come from the regenerated gen/Layout.v. *)
From PV.Model Require Export Machine Mapping.
From PV.gen Require Import Layout.

Record mem := { m_addr : N; m_len : N; m_get : N -> N }.
Definition rd8 (m : mem) (o : N) : N := m_get m o.
Definition rd16 (m : mem) (o : N) : N := m_get m o + 256 * m_get m (o + 1).
Definition rd32 (m : mem) (o : N) : N := rd16 m o + 65536 * rd16 m (o + 2).
Definition rd64 (m : mem) (o : N) : N := rd32 m o + 4294967296 * rd32 m (o + 4).
Definition mem_ok (m : mem) : Prop := forall i, m_get m i < 256.

(* the two instantiations of the shared source: pe32 and pe64 *)
Record fmt := {
  f_64 : bool;
  f_magic : N;            (* IMAGE_NT_OPTIONAL_HDR_MAGIC *)
  f_nt_size : N;          (* size_of IMAGE_NT_HEADERS *)
  f_nt_align : N;         (* align_of IMAGE_NT_HEADERS *)
  f_opt_size : N;         (* size_of IMAGE_OPTIONAL_HEADER *)
  f_opt_off : N;          (* offset_of IMAGE_NT_HEADERS.OptionalHeader *)
  f_soi_off : N; f_soh_off : N; f_csum_off : N; f_nrva_off : N; f_base_off : N
}.
Definition fmt32 : fmt := {|
  f_64 := false; f_magic := IMAGE_NT_OPTIONAL_HDR32_MAGIC;
  f_nt_size := IMAGE_NT_HEADERS32_size; f_nt_align := IMAGE_NT_HEADERS32_align;
  f_opt_size := IMAGE_OPTIONAL_HEADER32_size; f_opt_off := IMAGE_NT_HEADERS32_OptionalHeader_off;
  f_soi_off := IMAGE_OPTIONAL_HEADER32_SizeOfImage_off; f_soh_off := IMAGE_OPTIONAL_HEADER32_SizeOfHeaders_off;
  f_csum_off := IMAGE_OPTIONAL_HEADER32_CheckSum_off; f_nrva_off := IMAGE_OPTIONAL_HEADER32_NumberOfRvaAndSizes_off;
  f_base_off := IMAGE_OPTIONAL_HEADER32_ImageBase_off |}.
Definition fmt64 : fmt := {|
  f_64 := true; f_magic := IMAGE_NT_OPTIONAL_HDR64_MAGIC;
  f_nt_size := IMAGE_NT_HEADERS64_size; f_nt_align := IMAGE_NT_HEADERS64_align;
  f_opt_size := IMAGE_OPTIONAL_HEADER64_size; f_opt_off := IMAGE_NT_HEADERS64_OptionalHeader_off;
  f_soi_off := IMAGE_OPTIONAL_HEADER64_SizeOfImage_off; f_soh_off := IMAGE_OPTIONAL_HEADER64_SizeOfHeaders_off;
  f_csum_off := IMAGE_OPTIONAL_HEADER64_CheckSum_off; f_nrva_off := IMAGE_OPTIONAL_HEADER64_NumberOfRvaAndSizes_off;
  f_base_off := IMAGE_OPTIONAL_HEADER64_ImageBase_off |}.

(* field reads relative to the NT headers at e_lfanew *)
Definition e_lfanew (m : mem) : N := rd32 m IMAGE_DOS_HEADER_e_lfanew_off.
Definition opt_at (f : fmt) (m : mem) : N := e_lfanew m + f_opt_off f.
Definition h_magic (f : fmt) (m : mem) : N := rd16 m (opt_at f m + IMAGE_OPTIONAL_HEADER32_Magic_off).
Definition h_soi (f : fmt) (m : mem) : N := rd32 m (opt_at f m + f_soi_off f).
Definition h_soh (f : fmt) (m : mem) : N := rd32 m (opt_at f m + f_soh_off f).
Definition h_nrva (f : fmt) (m : mem) : N := rd32 m (opt_at f m + f_nrva_off f).
Definition h_base (f : fmt) (m : mem) : N :=
  if f_64 f then rd64 m (opt_at f m + f_base_off f) else rd32 m (opt_at f m + f_base_off f).
Definition h_nsec (f : fmt) (m : mem) : N :=
  rd16 m (e_lfanew m + IMAGE_NT_HEADERS32_FileHeader_off + IMAGE_FILE_HEADER_NumberOfSections_off).
Definition h_optsz (f : fmt) (m : mem) : N :=
  rd16 m (e_lfanew m + IMAGE_NT_HEADERS32_FileHeader_off + IMAGE_FILE_HEADER_SizeOfOptionalHeader_off).
Definition sec_table_off (f : fmt) (m : mem) : N := opt_at f m + h_optsz f m.

(* ---- pe.rs:754 validate_headers, in the order of the code ---- *)
Definition validate (f : fmt) (m : mem) : res N :=
  if m_len m <? IMAGE_DOS_HEADER_size then Err EBounds
  else if negb (aligned_to 4 (m_addr m)) then Err EMisaligned
  else if negb (rd16 m IMAGE_DOS_HEADER_e_magic_off =? IMAGE_DOS_SIGNATURE) then Err EBadMagic
  else if negb (aligned_to 4 (e_lfanew m)) then Err EMisaligned
  else if 16777216 <? e_lfanew m then Err EInsanity
  else
    let nt_end := e_lfanew m + f_nt_size f in
    if m_len m <? nt_end then Err EBounds
    else if negb (rd32 m (e_lfanew m) =? IMAGE_NT_HEADERS_SIGNATURE)
            || negb ((h_magic f m =? IMAGE_NT_OPTIONAL_HDR32_MAGIC) || (h_magic f m =? IMAGE_NT_OPTIONAL_HDR64_MAGIC))
         then Err EBadMagic
    else if m_len m <? h_soh f m then Err EBounds
    else if h_soi f m <? h_soh f m then Err EInsanity
    else if negb (h_magic f m =? f_magic f) then Err EPeMagic
    else
      let ndir := N.min (h_nrva f m) IMAGE_NUMBEROF_DIRECTORY_ENTRIES in
      if m_len m <? nt_end + ndir * IMAGE_DATA_DIRECTORY_size then Err EBounds
      else if 96 <? h_nsec f m then Err EInsanity
      else
        let size_of_sections := h_nsec f m * IMAGE_SECTION_HEADER_size in
        let start_of_sections := e_lfanew m + (f_nt_size f - f_opt_size f) + h_optsz f m in
        if m_len m <? size_of_sections + start_of_sections then Err EBounds
        (* F2 repair: the section table is accessed as dword aligned structs *)
        else if negb (aligned_to 4 start_of_sections) then Err EMisaligned
        else Ok (h_soi f m).

(* the code before the F2 repair *)
Definition validate_orig (f : fmt) (m : mem) : res N :=
  match validate f m with
  | Err EMisaligned =>
    if aligned_to 4 (m_addr m) && aligned_to 4 (e_lfanew m) then Ok (h_soi f m) else Err EMisaligned
  | r => r
  end.

(* ---- pe.rs:628-653 the unchecked accessors: where the returned borrow lies, and the alignment its type needs ---- *)
Record aregion := { a_off : N; a_len : N; a_align : N }.
Definition acc_dos_header (f : fmt) (m : mem) := {| a_off := 0; a_len := IMAGE_DOS_HEADER_size; a_align := IMAGE_DOS_HEADER_align |}.
Definition acc_dos_image (f : fmt) (m : mem) := {| a_off := 0; a_len := e_lfanew m; a_align := 1 |}.
Definition acc_nt_headers (f : fmt) (m : mem) := {| a_off := e_lfanew m; a_len := f_nt_size f; a_align := f_nt_align f |}.
Definition acc_file_header (f : fmt) (m : mem) :=
  {| a_off := e_lfanew m + IMAGE_NT_HEADERS32_FileHeader_off; a_len := IMAGE_FILE_HEADER_size; a_align := IMAGE_FILE_HEADER_align |}.
Definition acc_optional_header (f : fmt) (m : mem) := {| a_off := opt_at f m; a_len := f_opt_size f; a_align := f_nt_align f |}.
Definition acc_data_directory (f : fmt) (m : mem) :=
  {| a_off := opt_at f m + f_opt_size f;
     a_len := N.min (h_nrva f m) IMAGE_NUMBEROF_DIRECTORY_ENTRIES * IMAGE_DATA_DIRECTORY_size;
     a_align := IMAGE_DATA_DIRECTORY_align |}.
Definition acc_section_headers (f : fmt) (m : mem) :=
  {| a_off := sec_table_off f m; a_len := h_nsec f m * IMAGE_SECTION_HEADER_size; a_align := IMAGE_SECTION_HEADER_align |}.
Definition acc_headers_image (f : fmt) (m : mem) := {| a_off := 0; a_len := h_soh f m; a_align := 1 |}.

Definition accessors (f : fmt) (m : mem) : list aregion :=
  [acc_dos_header f m; acc_dos_image f m; acc_nt_headers f m; acc_file_header f m; acc_optional_header f m;
   acc_data_directory f m; acc_section_headers f m; acc_headers_image f m].

(* decoded tables *)
Definition data_dir (f : fmt) (m : mem) (i : N) : option (N * N) :=
  if i <? N.min (h_nrva f m) IMAGE_NUMBEROF_DIRECTORY_ENTRIES then
    let o := opt_at f m + f_opt_size f + i * IMAGE_DATA_DIRECTORY_size in
    Some (rd32 m o, rd32 m (o + 4))
  else None.
Definition section_at (m : mem) (o : N) : section :=
  {| s_va := rd32 m (o + IMAGE_SECTION_HEADER_VirtualAddress_off);
     s_vs := rd32 m (o + IMAGE_SECTION_HEADER_VirtualSize_off);
     s_prd := rd32 m (o + IMAGE_SECTION_HEADER_PointerToRawData_off);
     s_srd := rd32 m (o + IMAGE_SECTION_HEADER_SizeOfRawData_off) |}.
Fixpoint sections_from (m : mem) (o : N) (n : nat) : list section :=
  match n with O => [] | S k => section_at m o :: sections_from m (o + IMAGE_SECTION_HEADER_size) k end.
Definition sections (f : fmt) (m : mem) : list section :=
  sections_from m (sec_table_off f m) (N.to_nat (h_nsec f m)).

(* wrap/sections.rs:95 by_name, :113 by_rva : index of the section found *)
Fixpoint bytes_from (m : mem) (o : N) (n : nat) : list N :=
  match n with O => [] | S k => m_get m o :: bytes_from m (o + 1) k end.
Fixpoint pad8 (name : list N) (n : nat) : list N :=
  match n with O => [] | S k => match name with [] => 0 :: pad8 [] k | b :: t => b :: pad8 t k end end.
Fixpoint list_eqb (a b : list N) : bool :=
  match a, b with [] , [] => true | x :: a', y :: b' => (x =? y) && list_eqb a' b' | _, _ => false end.
Fixpoint by_name_from (m : mem) (o : N) (n : nat) (idx : N) (buf : list N) : option N :=
  match n with
  | O => None
  | S k => if list_eqb (bytes_from m o 8) buf then Some idx
           else by_name_from m (o + IMAGE_SECTION_HEADER_size) k (idx + 1) buf
  end.
Definition by_name (f : fmt) (m : mem) (name : list N) : option N :=
  if IMAGE_SIZEOF_SHORT_NAME <? lenN name then None
  else by_name_from m (sec_table_off f m) (N.to_nat (h_nsec f m)) 0 (pad8 name 8).
Fixpoint by_rva_secs (secs : list section) (idx rva : N) : option N :=
  match secs with
  | [] => None
  | s :: rest => if (s_va s <=? rva) && (rva <? wadd32 (s_va s) (s_vs s)) then Some idx else by_rva_secs rest (idx + 1) rva
  end.
Definition by_rva (f : fmt) (m : mem) (rva : N) : option N := by_rva_secs (sections f m) 0 rva.

(* ---- wrap/file.rs:12, wrap/view.rs:10 (after the F22 repair) ---- *)
Inductive wrapped := T32 | T64.
Definition wrap_from_bytes (m : mem) : res wrapped :=
  match validate fmt64 m with
  | Ok _ => Ok T64
  | Err EPeMagic => match validate fmt32 m with Ok _ => Ok T32 | Err e => Err e | Fault x => Fault x end
  | Err EBounds => match validate fmt32 m with Ok _ => Ok T32 | _ => Err EBounds end
  | Err e => Err e
  | Fault x => Fault x
  end.
Definition wrap_from_bytes_orig (m : mem) : res wrapped :=
  match validate fmt64 m with
  | Ok _ => Ok T64
  | Err EPeMagic => match validate fmt32 m with Ok _ => Ok T32 | Err e => Err e | Fault x => Fault x end
  | Err e => Err e
  | Fault x => Fault x
  end.

(* ---- headers.rs:32 check_sum (after the F21 repair: the trailing len mod 4 bytes are summed zero-padded) ---- *)
Definition step32 (acc dw : N) : N :=
  let c := (acc mod 4294967296) + dw + acc / 4294967296 in
  if 4294967295 <? c then (c mod 4294967296) + c / 4294967296 else c.
Definition fin16 (acc : N) : N :=
  let c1 := (acc mod 65536) + acc / 65536 in
  let c2 := c1 + c1 / 65536 in
  c2 mod 65536.
(* the dword loop over indices i = start .. start+n-1 *)
Fixpoint sum_dwords (m : mem) (skip : N) (i : N) (n : nat) (acc : N) : N :=
  match n with
  | O => acc
  | S k => sum_dwords m skip (i + 1) k (if i =? skip then acc else step32 acc (rd32 m (4 * i)))
  end.
(* the zero-padded trailing bytes as one dword *)
Definition tail_dword (m : mem) : N :=
  let o := (m_len m / 4) * 4 in
  let r := m_len m mod 4 in
  (if 0 <? r then rd8 m o else 0) + (if 1 <? r then 256 * rd8 m (o + 1) else 0) + (if 2 <? r then 65536 * rd8 m (o + 2) else 0).
Definition check_sum_pos (f : fmt) (m : mem) : N := (e_lfanew m + f_opt_off f + f_csum_off f) / 4.
Definition check_sum (f : fmt) (m : mem) : N :=
  let acc := sum_dwords m (check_sum_pos f m) 0 (N.to_nat (m_len m / 4)) 0 in
  let acc := if m_len m mod 4 =? 0 then acc else step32 acc (tail_dword m) in
  (fin16 acc + m_len m) mod W32.
Definition check_sum_orig (f : fmt) (m : mem) : N :=
  let acc := sum_dwords m (check_sum_pos f m) 0 (N.to_nat (m_len m / 4)) 0 in
  (fin16 acc + m_len m) mod W32.
