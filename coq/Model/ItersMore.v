(* Model of the iterators pelite hands out as compositions of std adaptors (C18, second part).

   The iterator-returning functions that contain no hand-written Iterator impl build their
   result from std::slice::Iter, std::ops::Range<u32>, Iterator::zip, Iterator::map and the
   crate's own Wrap<I32, I64>.  Each adaptor is modelled as std composes it: which methods
   it overrides (and passes to the iterator it wraps) and which it inherits from Iterator
   (the provided loops over its own next, [fwd_nth] / [fwd_count] of Model/Iters.v).

   - [slice_impl]     std::slice::Iter itself (Desc::iat hands it out as is): trusted ([sl_*])
   - [range_impl]     core::ops::Range<u32> as an iterator: next, next_back, nth, nth_back, size_hint and count
                      as core::iter::range writes them (forward_checked for nth, backward_checked for nth_back)
   - [zip_impl a b]   core::iter::Zip, the general implementation: next = a.next()? then b.next()?,
                      size_hint = the minimum of the two; nth = the loop over next (super_nth)
   - [map_impl i f]   core::iter::Map: next, next_back, size_hint (and len) pass to the inner iterator;
                      nth and count are NOT overridden: the provided loops over Map::next; nor is nth_back:
                      the provided loop over Map::next_back
   - [erase impl]     the same iterator behind `impl Clone + Iterator`: next_back and len are no longer callable

   and the shapes the library builds from them:

   - [exp_iter_impl]   exports::By::iter               functions.iter().map(symbol_from_rva)
   - [exp_names_impl]  exports::By::iter_names         (0..names.len() as u32).map(|hint| ..)
   - [exp_nidx_impl]   exports::By::iter_name_indices  (0..names.len() as u32).zip(name_indices.iter()).map(..)
     (Wrap<By32, By64>::iter / iter_names / iter_name_indices are the same three compositions over the
      wrapper's own accessors, not a Wrap<Iter32, Iter64>)
   - [entries_impl]    resources::Directory::entries / named_entries / id_entries (Entries = Map<slice::Iter, F>)
                       over the three slices [res_all] / [res_named] / [res_id] of the entry array
   - [entries_impl]    also IAT::iter and Desc::int (Map<slice::Iter<Va>, F>); Desc::iat is [slice_impl]
   - [wrap_impl (map_impl ..)]              Wrap<IAT32, IAT64>::iter
   - [wrap_impl slice_impl]                 Wrap<Desc32, Desc64>::iat
   - [map_impl (wrap_impl (map_impl ..))]   Wrap<Desc32, Desc64>::int  (Wrap::Tnn(desc.int()?).map(Wrap::into))
   - [icons_impl] = [flat_impl (entries_impl ..)]   Resources::icons / cursors: FlatMap over result::IntoIter of Entries
   - [exc_functions_impl]   Exception::functions    image.iter().map(|image| Function { pe, image }) (the Map itself: full)
   - [sections_iter_impl]   SectionHeaders::iter / IntoIterator for &SectionHeaders   as_slice().iter()
   - [to_strs_impl] = [filter_map_impl range_impl ..]   flags!::to_strs  (0..bits).filter_map(..) behind `impl Clone + Iterator`

   [prim_ok] is what an adaptor needs of the iterator it wraps: next / next_back step the sequence and
   size_hint bounds (exact = true: equals) its length.  Nothing else of the inner iterator is called. *)
From PV.Model Require Export Machine.
From PV.Model Require Import Iters.
From PV.Spec Require Export Deque.

(* ================= std::slice::Iter, handed out as is ================= *)
(* every method is slice::Iter's own, nth_back included (slice::Iter overrides it: [sl_nth_back]) *)
Definition slice_impl {B} : iter_impl (list B) B :=
  {| m_full := true;
     m_next := fun l => Ok (sl_next l);
     m_next_back := fun l => Ok (sl_next_back l);
     m_nth := fun l n => Ok (sl_nth l n);
     m_size_hint := fun l => Ok (sl_size_hint l);
     m_count := fun l => Ok (sl_count l);
     m_nth_back := fun l n => Ok (sl_nth_back l n) |}.

(* ================= core::ops::Range<u32> (core::iter::range) ================= *)
Definition range_st : Type := N * N.        (* start, end *)

(* if self.start < self.end { let n = forward_unchecked(start, 1); Some(mem::replace(&mut self.start, n)) } else { None } *)
Definition range_next (s : range_st) : res (option N * range_st) :=
  let '(a, e) := s in if a <? e then Ok (Some a, (a + 1, e)) else Ok (None, s).
(* if self.start < self.end { self.end = backward_unchecked(end, 1); Some(self.end) } else { None } *)
Definition range_next_back (s : range_st) : res (option N * range_st) :=
  let '(a, e) := s in if a <? e then Ok (Some (e - 1), (a, e - 1)) else Ok (None, s).
(* Step::forward_checked(start: u32, n: usize): u32::try_from(n).ok().and_then(|n| start.checked_add(n)) *)
Definition forward_checked32 (a n : N) : option N :=
  if n <? W32 then checked_add W32 a n else None.
(* if let Some(plus_n) = forward_checked(start, n) { if plus_n < self.end { self.start = plus_n + 1; return Some(plus_n) } }
   self.start = self.end; None *)
Definition range_nth (s : range_st) (n : N) : res (option N * range_st) :=
  let '(a, e) := s in
  match forward_checked32 a n with
  | Some p => if p <? e then Ok (Some p, (p + 1, e)) else Ok (None, (e, e))
  | None => Ok (None, (e, e))
  end.
(* if self.start < self.end { steps_between(&start, &end) } else { (0, Some(0)) } *)
Definition range_size_hint (s : range_st) : res (N * option N) :=
  let '(a, e) := s in if a <? e then Ok (e - a, Some (e - a)) else Ok (0, Some 0).
Definition range_count (s : range_st) : res N :=
  let '(a, e) := s in if a <? e then Ok (e - a) else Ok 0.
(* Step::backward_checked(start: u32, n: usize): match u32::try_from(n) { Ok(n) => start.checked_sub(n), Err(_) => None } *)
Definition backward_checked32 (e n : N) : option N :=
  if n <? W32 then (if n <=? e then Some (e - n) else None) else None.
(* if let Some(minus_n) = backward_checked(end, n) { if minus_n > self.start { self.end = minus_n - 1; return Some(self.end) } }
   self.end = self.start; None *)
Definition range_nth_back (s : range_st) (n : N) : res (option N * range_st) :=
  let '(a, e) := s in
  match backward_checked32 e n with
  | Some m => if a <? m then Ok (Some (m - 1), (a, m - 1)) else Ok (None, (a, a))
  | None => Ok (None, (a, a))
  end.
Definition range_impl : iter_impl range_st N :=
  {| m_full := true; m_next := range_next; m_next_back := range_next_back; m_nth := range_nth;
     m_size_hint := range_size_hint; m_count := range_count; m_nth_back := range_nth_back |}.

(* the plain sequence of a range: start, start+1, ... *)
Fixpoint nseq (a : N) (n : nat) : list N :=
  match n with O => [] | Datatypes.S n' => a :: nseq (a + 1) n' end.
Definition range_abs (s : range_st) : list N := nseq (fst s) (N.to_nat (snd s - fst s)).

(* ================= core::iter::Map ================= *)
Section MapImpl.
  Context {S B A : Type}.
  Variables (inner : iter_impl S B) (f : B -> A) (measure : S -> nat).
  Definition map_next (s : S) : res (option A * S) :=
    r <- m_next inner s ;; Ok (option_map f (fst r), snd r).          (* self.iter.next().map(&mut self.f) *)
  Definition map_next_back (s : S) : res (option A * S) :=
    r <- m_next_back inner s ;; Ok (option_map f (fst r), snd r).     (* self.iter.next_back().map(&mut self.f) *)
  Definition map_impl : iter_impl S A :=
    {| m_full := m_full inner;                                          (* DoubleEnded / ExactSize iff the inner iterator is *)
       m_next := map_next;
       m_next_back := map_next_back;
       m_nth := fun s k => fwd_nth map_next (Datatypes.S (measure s)) s k;       (* not overridden: Iterator::nth *)
       m_size_hint := m_size_hint inner;                                (* self.iter.size_hint() *)
       m_count := fun s => fwd_count map_next (Datatypes.S (measure s)) s 0;     (* not overridden: Iterator::count *)
       m_nth_back := fun s k => prov_nth_back map_next_back (Datatypes.S (measure s)) s k |}.  (* not overridden: DoubleEndedIterator::nth_back *)
End MapImpl.

(* ================= core::iter::Zip (general implementation) ================= *)
Section ZipImpl.
  Context {SA SB A B : Type}.
  Variables (a : iter_impl SA A) (b : iter_impl SB B) (measure : SA * SB -> nat).
  (* let x = self.a.next()?; let y = self.b.next()?; Some((x, y)) *)
  Definition zip_next (s : SA * SB) : res (option (A * B) * (SA * SB)) :=
    ra <- m_next a (fst s) ;;
    match fst ra with
    | None => Ok (None, (snd ra, snd s))
    | Some x =>
      rb <- m_next b (snd s) ;;
      match fst rb with
      | None => Ok (None, (snd ra, snd rb))
      | Some y => Ok (Some (x, y), (snd ra, snd rb))
      end
    end.
  Definition zip_upper (ha hb : option N) : option N :=
    match ha, hb with
    | Some x, Some y => Some (N.min x y) | Some x, None => Some x | None, Some y => Some y | None, None => None
    end.
  Definition zip_size_hint (s : SA * SB) : res (N * option N) :=
    ha <- m_size_hint a (fst s) ;; hb <- m_size_hint b (snd s) ;;
    Ok (N.min (fst ha) (fst hb), zip_upper (snd ha) (snd hb)).
  Definition zip_impl : iter_impl (SA * SB) (A * B) :=
    {| m_full := false;                                (* only ever seen behind `impl Iterator`: next_back is not modelled *)
       m_next := zip_next;
       m_next_back := fun s => Ok (None, s);
       m_nth := fun s k => fwd_nth zip_next (Datatypes.S (measure s)) s k;        (* ZipImpl::nth = super_nth: the loop over next *)
       m_size_hint := zip_size_hint;
       m_count := fun s => fwd_count zip_next (Datatypes.S (measure s)) s 0;
       m_nth_back := fun s _ => Ok (None, s) |}.        (* never callable behind `impl Iterator` *)
End ZipImpl.

(* the value behind `impl Clone + Iterator<Item = ..>`: only the Iterator methods remain callable *)
Definition erase {S A} (impl : iter_impl S A) : iter_impl S A :=
  {| m_full := false; m_next := m_next impl; m_next_back := m_next_back impl; m_nth := m_nth impl;
     m_size_hint := m_size_hint impl; m_count := m_count impl; m_nth_back := m_nth_back impl |}.

(* what an adaptor calls of the iterator it wraps, and what it needs of it *)
Record prim_ok {S A} (exact : bool) (impl : iter_impl S A) (abs : S -> list A) (Inv : S -> Prop) : Prop := {
  p_next : forall s, Inv s -> exists o s', m_next impl s = Ok (o, s') /\ Inv s' /\
             opt_out o = snd (dq_next (abs s)) /\ abs s' = fst (dq_next (abs s));
  p_next_back : m_full impl = true -> forall s, Inv s -> exists o s', m_next_back impl s = Ok (o, s') /\ Inv s' /\
             opt_out o = snd (dq_next_back (abs s)) /\ abs s' = fst (dq_next_back (abs s));
  p_size_hint : forall s, Inv s -> exists lo hi, m_size_hint impl s = Ok (lo, hi) /\
             lo <= lenN (abs s) /\ match hi with Some h => lenN (abs s) <= h | None => True end /\
             (exact = true -> lo = lenN (abs s) /\ hi = Some (lenN (abs s)));
  p_full_exact : m_full impl = true -> exact = true;
}.
(* nth and count are Iterator's provided methods over the iterator's own next, and - where the iterator is
   double-ended - nth_back is DoubleEndedIterator's provided method over its own next_back *)
Definition provided_nth_count {S A} (impl : iter_impl S A) (measure : S -> nat) : Prop :=
  (forall s k, m_nth impl s k = fwd_nth (m_next impl) (Datatypes.S (measure s)) s k) /\
  (forall s, m_count impl s = fwd_count (m_next impl) (Datatypes.S (measure s)) s 0) /\
  (m_full impl = true -> forall s k, m_nth_back impl s k = prov_nth_back (m_next_back impl) (Datatypes.S (measure s)) s k).

(* ================= the shapes the library builds ================= *)

(* exports::By::iter:  self.functions.iter().map(move |rva| self.symbol_from_rva(rva)) *)
Definition exp_iter_impl {B A} (f : B -> A) : iter_impl (list B) A :=
  erase (map_impl slice_impl f (fun l => length l)).

(* exports::By::iter_names:  (0..self.names().len() as u32).map(move |hint| (self.name_of_hint(hint), self.hint(hint))) *)
Definition exp_names_start {R} (names : list R) : range_st := (0, lenN names mod W32).     (* len() as u32 *)
Definition range_measure (s : range_st) : nat := N.to_nat (snd s - fst s).
Definition exp_names_impl {A} (g : N -> A) : iter_impl range_st A :=
  erase (map_impl range_impl g range_measure).

(* exports::By::iter_name_indices:
   (0..self.names().len() as u32).zip(self.name_indices.iter()).map(move |(hint, &index)| (self.name_of_hint(hint), index)) *)
Definition exp_nidx_start {R I} (names : list R) (idx : list I) : range_st * list I := (exp_names_start names, idx).
Definition nidx_measure {I} (s : range_st * list I) : nat := length (snd s).
Definition exp_nidx_impl {I A} (g : N * I -> A) : iter_impl (range_st * list I) A :=
  erase (map_impl (zip_impl range_impl slice_impl nidx_measure) g nidx_measure).

(* iter_name_indices as it stood before 7b788bc (F7):
   (0..self.names().len() as u32).map(move |hint| (self.name_of_hint(hint), self.name_indices[hint] as usize)) *)
Definition exp_nidx_next_orig {I A} (d : I) (g : N * I -> A) (indices : list I) (s : range_st) : res (option A * range_st) :=
  r <- range_next s ;;
  match fst r with
  | None => Ok (None, snd r)
  | Some h => x <- idx d indices h ;; Ok (Some (g (h, x)), snd r)
  end.

(* resources::Directory: the entry array follows the directory header; NumberOfNamedEntries named entries come first,
   NumberOfIdEntries id entries after them (from_raw_parts(p, len) / p.offset(named)) *)
Definition res_all {B} (nn ni : N) (arr : list B) : list B := firstn (N.to_nat (nn + ni)) arr.
Definition res_named {B} (nn ni : N) (arr : list B) : list B := firstn (N.to_nat nn) arr.
Definition res_id {B} (nn ni : N) (arr : list B) : list B := firstn (N.to_nat ni) (skipn (N.to_nat nn) arr).
(* Entries<'a, F> = Map<slice::Iter<'a, _>, F>: double-ended and exact-size; also IAT::iter and Desc::int *)
Definition entries_impl {B A} (f : B -> A) : iter_impl (list B) A :=
  map_impl slice_impl f (fun l => length l).

(* Wrap<IAT32, IAT64>::iter: Wrap::Tnn(iat.iter()); Wrap<Desc32, Desc64>::iat: Wrap::Tnn(desc.iat()?) *)
Definition wrap_entries_impl {B A W} (f : B -> A) (tag : A -> W) : iter_impl (list B) W :=
  wrap_impl (entries_impl f) tag (fun l => length l).
Definition wrap_slice_impl {B W} (tag : B -> W) : iter_impl (list B) W :=
  wrap_impl slice_impl tag (fun l => length l).
(* Wrap<Desc32, Desc64>::int:  Wrap::Tnn(desc.int()?).map(Wrap::into) *)
Definition wrap_int_impl {B A W X} (f : B -> A) (tag : A -> W) (into : W -> X) : iter_impl (list B) X :=
  map_impl (wrap_entries_impl f tag) into (fun l => length l).

(* ================= core::iter::FlatMap over an outer iterator of at most one item ================= *)
(* Resources::icons / cursors (resources/find.rs):
     icons.into_iter().flat_map(move |icons| icons.entries().map(move |de| ..))
   where icons : Result<Directory, FindError>: the outer iterator is result::IntoIter (none or one directory), the inner
   one is Entries.  FlattenCompat { iter: Fuse<outer>, frontiter, backiter }; behind `impl Iterator` nothing is ever
   taken from the back, so backiter stays None and is left out of the state: (frontiter, the directory not yet taken).
   FlatMap overrides next and size_hint (modelled) and advance_by / count / fold (NOT modelled: nth and count are
   written as the loops over next, which those overrides are trusted to agree with). *)
Section FlatImpl.
  Context {S X A : Type}.
  Variables (inner : iter_impl S A) (mk : X -> S) (measure : option S * option X -> nat).
  Definition flat_st : Type := option S * option X.
  (* match self.iter.next() { None => return and_then_or_clear(&mut self.backiter, ..), Some(inner) => self.frontiter = Some(inner.into_iter()) }
     and once round the loop: and_then_or_clear(&mut self.frontiter, Iterator::next) *)
  Definition flat_from_outer (outer : option X) : res (option A * flat_st) :=
    match outer with
    | None => Ok (None, (None, None))
    | Some x =>
      r <- m_next inner (mk x) ;;
      match fst r with
      | Some a => Ok (Some a, (Some (snd r), None))
      | None => Ok (None, (None, None))
      end
    end.
  Definition flat_next (s : flat_st) : res (option A * flat_st) :=
    match fst s with
    | Some si =>
      r <- m_next inner si ;;
      match fst r with
      | Some a => Ok (Some a, (Some (snd r), snd s))
      | None => flat_from_outer (snd s)                 (* and_then_or_clear: frontiter = None *)
      end
    | None => flat_from_outer (snd s)
    end.
  (* let (flo, fhi) = frontiter.map_or((0, Some(0)), size_hint); (blo, bhi) = (0, Some(0));
     match (self.iter.size_hint(), fhi, bhi) { ((0, Some(0)), Some(a), Some(b)) => (lo, a.checked_add(b)), _ => (lo, None) } *)
  Definition flat_size_hint (s : flat_st) : res (N * option N) :=
    fh <- match fst s with Some si => m_size_hint inner si | None => Ok (0, Some 0) end ;;
    match snd s with
    | None => Ok (fst fh, snd fh)
    | Some _ => Ok (fst fh, None)
    end.
  Definition flat_impl : iter_impl flat_st A :=
    {| m_full := false; m_next := flat_next; m_next_back := fun s => Ok (None, s);
       m_nth := fun s k => fwd_nth flat_next (Datatypes.S (measure s)) s k;
       m_size_hint := flat_size_hint;
       m_count := fun s => fwd_count flat_next (Datatypes.S (measure s)) s 0;
       m_nth_back := fun s _ => Ok (None, s) |}.        (* never callable behind `impl Iterator` *)
End FlatImpl.

(* Resources::icons / cursors over the entries of the group directory (None: no such directory - an empty iterator) *)
Definition icons_measure {B} (s : option (list B) * option (list B)) : nat :=
  (match fst s with Some l => length l | None => 0 end + match snd s with Some l => length l | None => 0 end)%nat.
Definition icons_impl {B A} (f : B -> A) : iter_impl (option (list B) * option (list B)) A :=
  flat_impl (entries_impl f) (fun l : list B => l) icons_measure.
Definition icons_start {B} (group_dir : option (list B)) : option (list B) * option (list B) := (None, group_dir).

(* ================= Exception::functions ================= *)
(* pe64/exception.rs:57:  self.image.iter().map(move |image| Function { pe, image })
   handed out under its own type iter::Map<slice::Iter<RUNTIME_FUNCTION>, impl Clone + FnMut(..)>: the Map itself, so
   double-ended and exact-size; next / next_back / size_hint / len are Map's (they pass to slice::Iter), nth / count /
   nth_back are the provided loops Map inherits *)
Definition exc_functions_impl {B A} (f : B -> A) : iter_impl (list B) A :=
  map_impl slice_impl f (fun l => length l).

(* ================= SectionHeaders::iter / IntoIterator for &SectionHeaders ================= *)
(* wrap/sections.rs:88, 128:  self.as_slice().iter()  - the slice::Iter over the section headers, handed out as is *)
Definition sections_iter_impl {B} : iter_impl (list B) B := slice_impl.

(* ================= core::iter::FilterMap ================= *)
Section FilterMapImpl.
  Context {S B A : Type}.
  Variables (inner : iter_impl S B) (f : B -> option A) (measure : S -> nat).
  (* FilterMap::next = self.iter.find_map(&mut self.f); Iterator::find_map (provided) takes items of the inner iterator
     until f answers Some (a try_fold over next) *)
  Fixpoint fm_find (fuel : nat) (s : S) : res (option A * S) :=
    match fuel with
    | O => Fault OutOfFuel
    | Datatypes.S fu =>
      r <- m_next inner s ;;
      match fst r with
      | None => Ok (None, snd r)
      | Some x => match f x with Some y => Ok (Some y, snd r) | None => fm_find fu (snd r) end
      end
    end.
  Definition filter_map_next (s : S) : res (option A * S) := fm_find (Datatypes.S (measure s)) s.
  (* let (_, upper) = self.iter.size_hint(); (0, upper)   - "can't know a lower bound, due to the predicate" *)
  Definition filter_map_size_hint (s : S) : res (N * option N) :=
    h <- m_size_hint inner s ;; Ok (0, snd h).
  (* FilterMap is double-ended over a double-ended iterator, but the only one the library builds (to_strs) is handed out
     as `impl Clone + Iterator`: next_back is never callable and is not modelled.  FilterMap overrides next, size_hint
     (modelled) and fold / try_fold (behind the provided count: trusted to visit what next would); nth is Iterator's *)
  Definition filter_map_impl : iter_impl S A :=
    {| m_full := false; m_next := filter_map_next; m_next_back := fun s => Ok (None, s);
       m_nth := fun s k => fwd_nth filter_map_next (Datatypes.S (measure s)) s k;
       m_size_hint := filter_map_size_hint;
       m_count := fun s => fwd_count filter_map_next (Datatypes.S (measure s)) s 0;
       m_nth_back := fun s _ => Ok (None, s) |}.
End FilterMapImpl.
(* the plain sequence of a filter_map *)
Fixpoint fm_list {B A} (f : B -> option A) (l : list B) : list A :=
  match l with
  | [] => []
  | x :: t => match f x with Some y => y :: fm_list f t | None => fm_list f t end
  end.

(* flags!::to_strs (stringify.rs:81), for FileChars / DllChars (u16) and SectionChars (u32):
     (0..mem::size_of::<$ty>() as u32 * 8).filter_map(move |i| if self.0 & (1 << i) != 0 { Self::flag_str(i) } else { None })
   [bits] = size_of::<$ty>() * 8; [flag_str] is the macro's table (bit index -> identifier), a parameter: i < bits inside
   the range, so 1 << i does not overflow *)
Definition to_strs_f {A} (flag_str : N -> option A) (value : N) (i : N) : option A :=
  if N.land value (N.shiftl 1 i) =? 0 then None else flag_str i.
Definition to_strs_start (bits : N) : range_st := (0, bits).
Definition to_strs_impl {A} (flag_str : N -> option A) (value : N) : iter_impl range_st A :=
  filter_map_impl range_impl (to_strs_f flag_str value) range_measure.

(* literal comparison of two output lists (the oracle of the iterators whose size hint is exact) *)
Section OutEq.
  Context {A : Type}.
  Variable eqb : A -> A -> bool.
  Definition out_eqb (x y : out A) : bool :=
    match x, y with
    | ONone, ONone => true
    | OItem a, OItem b => eqb a b
    | ONum a, ONum b => a =? b
    | OHint lo hi, OHint lo' hi' =>
      (lo =? lo') && match hi, hi' with Some h, Some h' => h =? h' | None, None => true | _, _ => false end
    | OCloned, OCloned => true
    | ONoIter, ONoIter => true
    | OUnsupported, OUnsupported => true
    | _, _ => false
    end.
  Fixpoint outs_eqb (x y : list (out A)) : bool :=
    match x, y with
    | [], [] => true
    | a :: x', b :: y' => out_eqb a b && outs_eqb x' y'
    | _, _ => false
    end.
End OutEq.
