(* Model of the iterators pelite hands out (C18).

   An iterator implementation is a record of its methods over a state type; a history of
   calls over a pool of iterators (slot 0 = the iterator handed out; clone appends a copy)
   is run by [m_run].  Instances:

   - [rich_impl]        src/rich_structure.rs RichIter: hand-written next / size_hint / count /
                        nth / next_back over the remaining xor-encoded dwords, mirrored
                        operation by operation ([rich_impl_orig]: nth as it stood before F23)
   - [fwd_impl next]    an iterator that only defines next (IterBlocks, Enumerator, PgoIter,
                        Wrap<I32,I64>): nth, count, size_hint are std's provided methods,
                        written here as the loops over next they are
   - [blk_next]         src/base_relocs.rs IterBlocks::next   (peek/advance of Model/Relocs.v)
   - [str_next]         src/strings.rs Enumerator::next       (Model/Strings.v next)
   - [pgo_next]         src/wrap/debug.rs PgoIter::next
   - [deleg_impl f]     src/pe64/imports.rs Iter, src/pe64/debug.rs Iter: every method they define passes
                        the call to the slice::Iter it wraps and maps the item through f; nth_back,
                        which they do not define, is the provided loop over their next_back
   - [wrap_next]        src/wrap/mod.rs  impl Iterator for Wrap<Iter32, Iter64>: next only

   std's slice::Iter is not modelled from its source: [sl_*] state what it is trusted to do. *)
From PV.Model Require Export Machine.
From PV.Model Require Import Rich Relocs Strings.
From PV.Spec Require Export Deque.

Record iter_impl (S A : Type) := {
  m_full : bool;                                  (* DoubleEndedIterator + ExactSizeIterator *)
  m_next : S -> res (option A * S);
  m_next_back : S -> res (option A * S);
  m_nth : S -> N -> res (option A * S);
  m_size_hint : S -> res (N * option N);
  m_count : S -> res N;
  m_nth_back : S -> N -> res (option A * S);      (* DoubleEndedIterator::nth_back; only callable when m_full *)
}.
Arguments m_full {S A}. Arguments m_next {S A}. Arguments m_next_back {S A}.
Arguments m_nth {S A}. Arguments m_size_hint {S A}. Arguments m_count {S A}. Arguments m_nth_back {S A}.

Definition opt_out {A} (o : option A) : out A := match o with Some a => OItem a | None => ONone end.

(* ExactSizeIterator::len (provided): let (lo, hi) = self.size_hint(); assert_eq!(hi, Some(lo)); lo *)
Definition m_len {S A} (impl : iter_impl S A) (s : S) : res N :=
  h <- m_size_hint impl s ;;
  match snd h with
  | Some hi => if hi =? fst h then Ok (fst h) else Fault PAssert
  | None => Fault PAssert
  end.

Definition m_step1 {S A} (impl : iter_impl S A) (s : S) (o : op) : res (S * out A) :=
  match o with
  | Next => r <- m_next impl s ;; Ok (snd r, opt_out (fst r))
  | NextBack => if m_full impl then r <- m_next_back impl s ;; Ok (snd r, opt_out (fst r)) else Ok (s, OUnsupported)
  | Nth k => r <- m_nth impl s k ;; Ok (snd r, opt_out (fst r))
  | Len => if m_full impl then n <- m_len impl s ;; Ok (s, ONum n) else Ok (s, OUnsupported)
  | SizeHint => h <- m_size_hint impl s ;; Ok (s, OHint (fst h) (snd h))
  | Count => n <- m_count impl s ;; Ok (s, ONum n)          (* it.clone().count() *)
  | Clone => Ok (s, OCloned)
  | NthBack k => if m_full impl then r <- m_nth_back impl s k ;; Ok (snd r, opt_out (fst r)) else Ok (s, OUnsupported)
  end.

Definition m_step {S A} (impl : iter_impl S A) (pool : list S) (c : nat * op) : res (list S * out A) :=
  match nth_error pool (fst c) with
  | None => Ok (pool, ONoIter)
  | Some s =>
    if is_clone (snd c) then Ok (pool ++ [s], OCloned)
    else r <- m_step1 impl s (snd c) ;; Ok (set_nth (fst c) (fst r) pool, snd r)
  end.

Fixpoint m_run {S A} (impl : iter_impl S A) (pool : list S) (hist : list (nat * op)) : res (list (out A)) :=
  match hist with
  | [] => Ok []
  | c :: h => r <- m_step impl pool c ;; rest <- m_run impl (fst r) h ;; Ok (snd r :: rest)
  end.

(* ---- slice indexing ---- *)
Definition idx {A} (d : A) (l : list A) (i : N) : res A :=
  if i <? lenN l then Ok (nth (N.to_nat i) l d) else Fault PIndex.
Definition slice_from {A} (l : list A) (i : N) : res (list A) :=
  if i <=? lenN l then Ok (skipn (N.to_nat i) l) else Fault PIndex.
Definition slice_to {A} (l : list A) (i : N) : res (list A) :=
  if i <=? lenN l then Ok (firstn (N.to_nat i) l) else Fault PIndex.

(* ================= RichIter (rich_structure.rs:246-295) ================= *)
Definition rich_st : Type := list N * N.      (* self.iter, self.key *)

Definition rich_next (s : rich_st) : res (option rec * rich_st) :=
  let '(l, key) := s in
  if 2 <=? lenN l then
    a <- idx 0 l 0 ;; b <- idx 0 l 1 ;;
    t <- slice_from l 2 ;;
    Ok (Some (rdecode key a b), (t, key))
  else Ok (None, s).

Definition rich_size_hint (s : rich_st) : res (N * option N) :=
  let len := lenN (fst s) / 2 in Ok (len, Some len).

Definition rich_count (s : rich_st) : res N := h <- rich_size_hint s ;; Ok (fst h).

(* the body shared by both versions of nth, after the guard *)
Definition rich_nth_take (s : rich_st) (n : N) : res (option rec * rich_st) :=
  let '(l, key) := s in
  i0 <- chk_mul W64 n 2 ;; a <- idx 0 l i0 ;;
  i1 <- chk_mul W64 n 2 ;; i1 <- chk_add W64 i1 1 ;; b <- idx 0 l i1 ;;
  j <- chk_mul W64 n 2 ;; j <- chk_add W64 j 2 ;; t <- slice_from l j ;;
  Ok (Some (rdecode key a b), (t, key)).
Definition rich_nth_none (s : rich_st) : res (option rec * rich_st) :=
  e <- slice_to (fst s) 0 ;; Ok (None, (e, snd s)).

(* nth after the F23 repair:  if n < self.iter.len() / 2 *)
Definition rich_nth (s : rich_st) (n : N) : res (option rec * rich_st) :=
  if n <? lenN (fst s) / 2 then rich_nth_take s n else rich_nth_none s.
(* nth as it stood:  if self.iter.len() >= n * 2 + 2 *)
Definition rich_nth_orig (s : rich_st) (n : N) : res (option rec * rich_st) :=
  m <- chk_mul W64 n 2 ;; m2 <- chk_add W64 m 2 ;;
  if m2 <=? lenN (fst s) then rich_nth_take s n else rich_nth_none s.

Definition rich_next_back (s : rich_st) : res (option rec * rich_st) :=
  let '(l, key) := s in
  let len := lenN l in
  if 2 <=? len then
    i2 <- chk_sub len 2 ;; a <- idx 0 l i2 ;;
    i1 <- chk_sub len 1 ;; b <- idx 0 l i1 ;;
    j <- chk_sub len 2 ;; t <- slice_to l j ;;
    Ok (Some (rdecode key a b), (t, key))
  else Ok (None, s).

(* [rich_impl] and [rich_impl_orig] are put together below, after the provided loops ([fwd_nth]) they inherit *)

(* RichStructure::records(): the iterator handed out for an accepted DOS area *)
Definition rich_records_iter (image : list N) (se : nat * nat) : rich_st :=
  (body image se, xor_key image se).

(* ================= iterators that only define next ================= *)
Section Fwd.
  Context {S A : Type}.
  Variable next : S -> res (option A * S).

  (* Iterator::nth (provided): advance_by(n) calls next up to n times and stops at the first
     None; then one more next *)
  Fixpoint fwd_nth (fuel : nat) (s : S) (k : N) : res (option A * S) :=
    match fuel with
    | O => Fault OutOfFuel
    | Datatypes.S f =>
      r <- next s ;;
      match fst r with
      | None => Ok (None, snd r)
      | Some x => if k =? 0 then Ok (Some x, snd r) else fwd_nth f (snd r) (k - 1)
      end
    end.
  (* Iterator::count (provided): fold(0, |n, _| n + 1) *)
  Fixpoint fwd_count (fuel : nat) (s : S) (acc : N) : res N :=
    match fuel with
    | O => Fault OutOfFuel
    | Datatypes.S f =>
      r <- next s ;;
      match fst r with
      | None => Ok acc
      | Some _ => acc' <- chk_add W64 acc 1 ;; fwd_count f (snd r) acc'
      end
    end.
  (* for x in it { .. } *)
  Fixpoint collect (fuel : nat) (s : S) : res (list A) :=
    match fuel with
    | O => Fault OutOfFuel
    | Datatypes.S f =>
      r <- next s ;;
      match fst r with
      | None => Ok []
      | Some x => t <- collect f (snd r) ;; Ok (x :: t)
      end
    end.

  Variable measure : S -> nat.      (* the fuel: an upper bound of the number of items left *)
  Definition fwd_impl : iter_impl S A :=
    {| m_full := false; m_next := next;
       m_next_back := fun s => Ok (None, s);                         (* not implemented; never called *)
       m_nth := fun s k => fwd_nth (Datatypes.S (measure s)) s k;
       m_size_hint := fun _ => Ok (0, None);                          (* Iterator::size_hint (provided) *)
       m_count := fun s => fwd_count (Datatypes.S (measure s)) s 0;
       m_nth_back := fun s _ => Ok (None, s) |}.                      (* not implemented; never called *)
  Definition items (s : S) : list A :=
    match collect (Datatypes.S (measure s)) s with Ok l => l | _ => [] end.
End Fwd.

(* DoubleEndedIterator::nth_back (provided):  if self.advance_back_by(n).is_err() { return None } self.next_back()
   where advance_back_by(n) is  for i in 0..n { if self.next_back().is_none() { return Err(..) } } Ok(())
   - the loop of the provided Iterator::nth with next_back in the place of next: at most n calls of next_back that
   stop at the first None, then one more.  [prov_nth_back next_back fuel] is that loop. *)
Definition prov_nth_back {S A} (next_back : S -> res (option A * S)) (fuel : nat) (s : S) (k : N) : res (option A * S) :=
  fwd_nth next_back fuel s k.

(* RichIter implements DoubleEndedIterator with next_back only: nth_back is the provided loop over RichIter::next_back
   (fuel: one call per remaining dword is more than enough) *)
Definition rich_nth_back (s : rich_st) (k : N) : res (option rec * rich_st) :=
  prov_nth_back rich_next_back (Datatypes.S (length (fst s))) s k.
Definition rich_impl : iter_impl rich_st rec :=
  {| m_full := true; m_next := rich_next; m_next_back := rich_next_back; m_nth := rich_nth;
     m_size_hint := rich_size_hint; m_count := rich_count; m_nth_back := rich_nth_back |}.
Definition rich_impl_orig : iter_impl rich_st rec :=
  {| m_full := true; m_next := rich_next; m_next_back := rich_next_back; m_nth := rich_nth_orig;
     m_size_hint := rich_size_hint; m_count := rich_count; m_nth_back := rich_nth_back |}.

(* ---- IterBlocks (base_relocs.rs:121-140); state = (offset of the slice in the directory, slice) ---- *)
Definition blk_st : Type := N * list N.
Definition blk_next (s : blk_st) : res (option block * blk_st) :=
  let '(off, data) := s in
  match peek off data with
  | None => Ok (None, s)
  | Some b =>
    let a := advance (b_sob b) (lenN data) in
    t <- slice_from data a ;;
    Ok (Some b, (off + a, t))
  end.
Definition blk_measure (s : blk_st) : nat := length (snd s).
Definition blk_impl : iter_impl blk_st block := fwd_impl blk_next blk_measure.

(* ---- strings::Enumerator; state = self.offset (config, base, bytes are fixed) ---- *)
Section Str.
  Variables (c : cfg) (base : N) (bytes : list N).
  Definition str_next (offset : N) : res (option found * N) :=
    match Strings.next c base bytes offset with
    | Some (f, off') => Ok (Some f, off')
    | None => Ok (None, offset)
    end.
  Definition str_measure (offset : N) : nat := length bytes - N.to_nat offset.
  Definition str_impl : iter_impl N found := fwd_impl str_next str_measure.
End Str.

(* ---- PgoIter (wrap/debug.rs:232-250); state = self.image (dwords) ---- *)
Record pgo_item := { pg_rva : N; pg_size : N; pg_name : list N }.
(* bytes.iter().position(|&b| b == 0) over the little-endian bytes of the dwords *)
Fixpoint nul_pos (bs : list N) (i : N) : option N :=
  match bs with [] => None | b :: t => if b =? 0 then Some i else nul_pos t (i + 1) end.
Definition pgo_next (l : list N) : res (option pgo_item * list N) :=
  if 3 <=? lenN l then
    rva <- idx 0 l 0 ;; size <- idx 0 l 1 ;;
    tail <- slice_from l 2 ;;
    let bytes := flat_map le32 tail in
    match nul_pos bytes 0 with
    | None => Ok (None, l)                                            (* CStr::from_bytes(..)? *)
    | Some p =>
      let len := p / 4 in                                             (* name.len() >> 2 *)
      j <- chk_add W64 2 len ;; j <- chk_add W64 j 1 ;;
      t <- slice_from l j ;;
      Ok (Some {| pg_rva := rva; pg_size := size; pg_name := firstn (N.to_nat p) bytes |}, t)
    end
  else Ok (None, l).
Definition pgo_measure (l : list N) : nat := length l.
Definition pgo_impl : iter_impl (list N) pgo_item := fwd_impl pgo_next pgo_measure.

(* ================= std::slice::Iter — trusted, not modelled from source ================= *)
Definition sl_next {B} (l : list B) : option B * list B :=
  match l with [] => (None, []) | x :: t => (Some x, t) end.
Definition sl_next_back {B} (l : list B) : option B * list B :=
  match rev l with [] => (None, []) | x :: t => (Some x, rev t) end.
Definition sl_nth {B} (l : list B) (k : N) : option B * list B :=
  if lenN l <=? k then (None, []) else sl_next (skipn (N.to_nat k) l).
(* slice::Iter overrides nth_back: if n >= len { exhaust; None } else { drop n from the back; next_back } *)
Definition sl_nth_back {B} (l : list B) (k : N) : option B * list B :=
  if lenN l <=? k then (None, []) else sl_next_back (firstn (length l - N.to_nat k) l).
Definition sl_size_hint {B} (l : list B) : N * option N := (lenN l, Some (lenN l)).
Definition sl_count {B} (l : list B) : N := lenN l.

(* imports::Iter / debug::Iter: self.iter.<method>(args).map(|image| Item { pe, image }) for next, size_hint, count,
   nth and next_back.  nth_back is NOT overridden (impl DoubleEndedIterator defines next_back only): it is the provided
   loop over the iterator's own next_back, not slice::Iter::nth_back *)
Definition deleg_next_back {B A} (f : B -> A) (l : list B) : res (option A * list B) :=
  Ok (option_map f (fst (sl_next_back l)), snd (sl_next_back l)).
Definition deleg_impl {B A} (f : B -> A) : iter_impl (list B) A :=
  {| m_full := true;
     m_next := fun l => Ok (option_map f (fst (sl_next l)), snd (sl_next l));
     m_next_back := deleg_next_back f;
     m_nth := fun l n => Ok (option_map f (fst (sl_nth l n)), snd (sl_nth l n));
     m_size_hint := fun l => Ok (sl_size_hint l);
     m_count := fun l => Ok (sl_count l);
     m_nth_back := fun l k => prov_nth_back (deleg_next_back f) (Datatypes.S (length l)) l k |}.

(* Wrap<Iter32, Iter64>: match self { T32(it) => it.next().map(Wrap::T32), T64(it) => it.next().map(Wrap::T64) };
   [tag] is the constructor of the variant the wrapper holds *)
Definition wrap_next {S A W} (inner : iter_impl S A) (tag : A -> W) (s : S) : res (option W * S) :=
  r <- m_next inner s ;; Ok (option_map tag (fst r), snd r).
Definition wrap_impl {S A W} (inner : iter_impl S A) (tag : A -> W) (measure : S -> nat) : iter_impl S W :=
  fwd_impl (wrap_next inner tag) measure.
