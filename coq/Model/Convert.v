(* Model of PeFile::to_view (src/pe64/file.rs:43) and PeView::to_file (src/pe64/view.rs:92),
   shared by pe32.  Buffers are byte lists ([list N]); [image.get(a..b)] is [get_slice],
   [vec.get_mut(a..b)] is [Mapping.get_range] on the vector's length (only the position of the
   destination matters), writing a slice into the vector is [splice].
   Both functions exist twice: as repaired (F5: the section copy moves
   min(dest.len(), src.len()) bytes) and [_orig], the code as it stood, whose
   [copy_from_slice] panics (Fault PCopyLen) when the two lengths differ. *)
From PV.Model Require Export Machine Mapping Headers.

(* l[a .. a+n] (as much of it as exists) *)
Definition sub (l : list N) (a n : N) : list N := firstn (N.to_nat n) (skipn (N.to_nat a) l).

(* image.get(a as usize .. b as usize) *)
Definition get_slice (l : list N) (a b : N) : option (list N) :=
  if (a <=? b) && (b <=? lenN l) then Some (sub l a (b - a)) else None.

(* vec[a .. a + src.len()] <- src ; callers guarantee a + src.len() <= vec.len() *)
Definition splice (l : list N) (a : N) (src : list N) : list N :=
  firstn (N.to_nat a) l ++ src ++ skipn (N.to_nat a + length src) l.

(* vec![0u8; n] *)
Definition zeros (n : N) : list N := repeat 0 (N.to_nat n).

(* file.rs:54-59 / view.rs:111-116: the unchecked header copy.
   get_unchecked(..soh) outside either buffer is undefined behaviour. *)
Definition copy_headers (vec img : list N) (soh : N) : res (list N) :=
  if (lenN vec <? soh) || (lenN img <? soh) then Fault UBOob
  else Ok (splice vec 0 (sub img 0 soh)).

(* one iteration of the section loop: dest = vec.get_mut(da..db), src = image.get(sa..sb);
   "Skip invalid sections..." when either is None *)
Definition copy_sec (vec img : list N) (da db sa sb : N) : list N :=
  match get_range (lenN vec) da db, get_slice img sa sb with
  | Some d, Some src =>
    let n := N.min (r_len d) (lenN src) in            (* F5 repair *)
    splice vec da (sub src 0 n)
  | _, _ => vec
  end.
Definition copy_sec_orig (vec img : list N) (da db sa sb : N) : res (list N) :=
  match get_range (lenN vec) da db, get_slice img sa sb with
  | Some d, Some src =>
    if r_len d =? lenN src then Ok (splice vec da src) else Fault PCopyLen   (* copy_from_slice *)
  | _, _ => Ok vec
  end.

(* ---- file.rs:43 to_view ---- *)
Fixpoint view_sections (vec img : list N) (secs : list section) : list N :=
  match secs with
  | [] => vec
  | s :: rest =>
    view_sections (copy_sec vec img (s_va s) (wadd32 (s_va s) (s_vs s)) (s_prd s) (wadd32 (s_prd s) (s_srd s))) img rest
  end.
Definition to_view (img : list N) (soh soi : N) (secs : list section) : res (list N) :=
  vec <- copy_headers (zeros soi) img soh ;;
  Ok (view_sections vec img secs).

Fixpoint view_sections_orig (vec img : list N) (secs : list section) : res (list N) :=
  match secs with
  | [] => Ok vec
  | s :: rest =>
    v <- copy_sec_orig vec img (s_va s) (wadd32 (s_va s) (s_vs s)) (s_prd s) (wadd32 (s_prd s) (s_srd s)) ;;
    view_sections_orig v img rest
  end.
Definition to_view_orig (img : list N) (soh soi : N) (secs : list section) : res (list N) :=
  vec <- copy_headers (zeros soi) img soh ;;
  view_sections_orig vec img secs.

(* ---- view.rs:92 to_file ---- *)
(* "Figure out the size of the file image" and "Clamp to the actual image size..." *)
Definition file_extent (soh : N) (secs : list section) : N :=
  fold_left (fun a s => N.max a (wadd32 (s_prd s) (s_srd s))) secs soh.
Definition file_size (soh soi : N) (secs : list section) : N := N.min (file_extent soh secs) soi.

Fixpoint file_sections (vec img : list N) (secs : list section) : list N :=
  match secs with
  | [] => vec
  | s :: rest =>
    file_sections (copy_sec vec img (s_prd s) (wadd32 (s_prd s) (s_srd s)) (s_va s) (wadd32 (s_va s) (s_vs s))) img rest
  end.
Definition to_file (img : list N) (soh soi : N) (secs : list section) : res (list N) :=
  vec <- copy_headers (zeros (file_size soh soi secs)) img soh ;;
  Ok (file_sections vec img secs).

Fixpoint file_sections_orig (vec img : list N) (secs : list section) : res (list N) :=
  match secs with
  | [] => Ok vec
  | s :: rest =>
    v <- copy_sec_orig vec img (s_prd s) (wadd32 (s_prd s) (s_srd s)) (s_va s) (wadd32 (s_va s) (s_vs s)) ;;
    file_sections_orig v img rest
  end.
Definition to_file_orig (img : list N) (soh soi : N) (secs : list section) : res (list N) :=
  vec <- copy_headers (zeros (file_size soh soi secs)) img soh ;;
  file_sections_orig vec img secs.

(* ---- the public entry points: from_bytes (validate_headers), then the conversion with the
   header fields and the section table the accessors decode from the buffer itself ---- *)
Definition image_bytes (m : mem) : list N := bytes_from m 0 (N.to_nat (m_len m)).
Definition pe_to_view (f : fmt) (m : mem) : res (list N) :=
  _ <- validate f m ;; to_view (image_bytes m) (h_soh f m) (h_soi f m) (sections f m).
Definition pe_to_file (f : fmt) (m : mem) : res (list N) :=
  _ <- validate f m ;; to_file (image_bytes m) (h_soh f m) (h_soi f m) (sections f m).
Definition pe_to_view_orig (f : fmt) (m : mem) : res (list N) :=
  _ <- validate f m ;; to_view_orig (image_bytes m) (h_soh f m) (h_soi f m) (sections f m).
Definition pe_to_file_orig (f : fmt) (m : mem) : res (list N) :=
  _ <- validate f m ;; to_file_orig (image_bytes m) (h_soh f m) (h_soi f m) (sections f m).

(* a buffer seen as the [mem] of Model/Headers.v ([addr] only matters for the alignment test) *)
Definition mem_of (addr : N) (l : list N) : mem := {| m_addr := addr; m_len := lenN l; m_get := byte_at l |}.
