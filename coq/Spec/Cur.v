(* Spec for C12: the .cur FILE format and the way a resource compiler stores a .cur file in a resource section.
   Independent of the model and of Spec/Ico.v; written from the format descriptions referenced at the top of
   src/resources/group.rs (MSDN "Icons in Win32", Raymond Chen "The format of icon resources", the NIco wiki).
   Use qualified: Cur.file, Cur.encode_file, Cur.to_resources.

   .cur file        ICONDIR { idReserved = 0, idType = 2, idCount = n }
                    n CURSORDIRENTRY { BYTE bWidth; BYTE bHeight; BYTE bColorCount; BYTE bReserved;
                                       WORD wXHotspot; WORD wYHotspot; DWORD dwBytesInRes; DWORD dwImageOffset }
                    the n images (DIBs) back to back, the first at 6 + 16 n; a size of 256 is stored as 0
   RT_GROUP_CURSOR  { 0, 2, n }, n entries { WORD wWidth; WORD wHeight; WORD wPlanes; WORD wBitCount; DWORD dwBytesInRes; WORD nId }
                    wHeight counts the XOR and the AND mask: twice the height; wPlanes / wBitCount are those of the
                    BITMAPINFOHEADER; dwBytesInRes is the size of the RT_CURSOR resource, hotspot included
   RT_CURSOR nId    { WORD wXHotspot; WORD wYHotspot } followed by the DIB

   The file entry has no field that survives compilation for bColorCount / bReserved (and the group entry's planes and
   bit count are not in the file entry): the file model is what both formats keep - sizes, hotspot, image - and
   [encode_file] writes the canonical file (bColorCount = bReserved = 0). *)
From PV.Model Require Import Machine.

(* one image of a cursor file: width and height in pixels (1..256), the hotspot, the DIB *)
Record image := { cur_w : N; cur_h : N; cur_hx : N; cur_hy : N; cur_dib : list N }.
Definition file := list image.

(* ---- the .cur file ---- *)
Definition file_entry (i : image) (off : N) : list N :=
  [cur_w i mod 256; cur_h i mod 256; 0; 0] ++ le16 (cur_hx i) ++ le16 (cur_hy i) ++ le32 (lenN (cur_dib i)) ++ le32 off.
Fixpoint file_entries (c : file) (off : N) : list N :=
  match c with
  | [] => []
  | i :: r => file_entry i off ++ file_entries r (off + lenN (cur_dib i))
  end.
Definition file_data (c : file) : list N := concat (map cur_dib c).
Definition encode_file (c : file) : list N :=
  le16 0 ++ le16 2 ++ le16 (lenN c) ++ file_entries c (6 + 16 * lenN c) ++ file_data c.
Definition file_size (c : file) : N := 6 + 16 * lenN c + lenN (file_data c).

(* ---- the resource compiler: [ids] are the resource ids it gives to the images ---- *)
Definition group_entry (i : image) (id : N) : list N :=
  le16 (cur_w i) ++ le16 (2 * cur_h i) ++ le16 (u16_at (cur_dib i) 12) ++ le16 (u16_at (cur_dib i) 14) ++
  le32 (4 + lenN (cur_dib i)) ++ le16 id.
Definition payload (i : image) : list N := le16 (cur_hx i) ++ le16 (cur_hy i) ++ cur_dib i.
Definition group_entries (c : file) (ids : list N) : list (list N) := map (fun p => group_entry (fst p) (snd p)) (combine c ids).
Definition group_bytes (c : file) (ids : list N) : list N := le16 0 ++ le16 2 ++ le16 (lenN c) ++ concat (group_entries c ids).
Definition payloads (c : file) : list (list N) := map payload c.
(* the RT_GROUP_CURSOR resource and the RT_CURSOR resources (id, bytes) *)
Definition to_resources (c : file) (ids : list N) : list N * list (N * list N) := (group_bytes c ids, combine ids (payloads c)).

(* ---- reading the stored pieces back: the cursor image a 14-byte group entry and its RT_CURSOR resource denote ---- *)
Definition of_entry (e p : list N) : image :=
  {| cur_w := u16_at e 0; cur_h := u16_at e 2 / 2; cur_hx := u16_at p 0; cur_hy := u16_at p 2; cur_dib := skipn 4 p |}.
Definition of_resources (es ps : list (list N)) : file := map (fun x => of_entry (fst x) (snd x)) (combine es ps).

(* the ranges of the fields: 16-bit sizes (the height doubled) and hotspots *)
Definition image_ok (i : image) : Prop := cur_w i < 65536 /\ 2 * cur_h i < 65536 /\ cur_hx i < 65536 /\ cur_hy i < 65536.
