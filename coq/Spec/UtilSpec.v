(* Specification of the utility / formatting layer: independent, declarative or position-wise readings of what
   the functions of Model/Util.v are for.  The executable ones are extracted and evaluated on the IMPLEMENTATION's
   observations by ocaml/util_driver.ml. *)
From PV.Model Require Import Machine Util.

(* ------------------------------------------------------------------------------------------------ UTF-16 *)
(* Unicode 3.9 D91: a code unit sequence is read position by position.  What a unit contributes depends only on the
   unit itself and its two neighbours (a leading surrogate can never be the second half of a pair, a trailing
   surrogate never the first):
     - not a surrogate: the scalar value itself
     - leading surrogate followed by a trailing one: the supplementary scalar value of the pair
     - trailing surrogate preceded by a leading one: nothing (consumed by the pair)
     - any other surrogate: ill-formed, reported with its value *)
Definition is_high (u : N) : bool := (55296 <=? u) && (u <=? 56319).     (* D800..DBFF *)
Definition is_low (u : N) : bool := (56320 <=? u) && (u <=? 57343).      (* DC00..DFFF *)
Definition pair_value (h l : N) : N := 65536 + (h - 55296) * 1024 + (l - 56320).

Definition unit_items (prev : option N) (u : N) (next : option N) : list item :=
  if is_high u then
    match next with
    | Some l => if is_low l then [IChar (pair_value u l)] else [IBad u]
    | None => [IBad u]
    end
  else if is_low u then
    match prev with
    | Some h => if is_high h then [] else [IBad u]
    | None => [IBad u]
    end
  else [IChar u].

Fixpoint spec_units (prev : option N) (ws : list N) : list item :=
  match ws with
  | [] => []
  | u :: t => unit_items prev u (hd_error t) ++ spec_units (Some u) t
  end.
Definition utf16_decode_spec (ws : list N) : list item := spec_units None ws.

(* lossy decoding: U+FFFD for every ill-formed unit *)
Definition lossy (its : list item) : list N := map (fun it => match it with IChar c => c | IBad _ => 65533 end) its.

Definition is_scalar (c : N) : bool := (c <? 55296) || ((57343 <? c) && (c <? 1114112)).
Definition item_wf (it : item) : bool :=
  match it with IChar c => is_scalar c | IBad u => (55296 <=? u) && (u <=? 57343) end.
Definition units_ok (ws : list N) : Prop := Forall (fun u => u < 65536) ws.

(* ------------------------------------------------------------------------------------------------ UTF-8 *)
(* Unicode Table 3-7, well-formed UTF-8 byte sequences: a strict decoder.  None = ill-formed. *)
Definition is_cont (b : N) : bool := (128 <=? b) && (b <=? 191).
Definition consopt (c : N) (r : option (list N)) : option (list N) := match r with Some l => Some (c :: l) | None => None end.
Fixpoint utf8_decode (bs : list N) : option (list N) :=
  match bs with
  | [] => Some []
  | b0 :: t =>
    if b0 <? 128 then consopt b0 (utf8_decode t)
    else if (194 <=? b0) && (b0 <=? 223) then
      match t with
      | b1 :: t1 => if is_cont b1 then consopt ((b0 - 192) * 64 + (b1 - 128)) (utf8_decode t1) else None
      | _ => None
      end
    else if (224 <=? b0) && (b0 <=? 239) then
      match t with
      | b1 :: b2 :: t2 =>
        if ((if b0 =? 224 then 160 else 128) <=? b1) && (b1 <=? (if b0 =? 237 then 159 else 191)) && is_cont b2
        then consopt ((b0 - 224) * 4096 + (b1 - 128) * 64 + (b2 - 128)) (utf8_decode t2) else None
      | _ => None
      end
    else if (240 <=? b0) && (b0 <=? 244) then
      match t with
      | b1 :: b2 :: b3 :: t3 =>
        if ((if b0 =? 240 then 144 else 128) <=? b1) && (b1 <=? (if b0 =? 244 then 143 else 191)) && is_cont b2 && is_cont b3
        then consopt ((b0 - 240) * 262144 + (b1 - 128) * 4096 + (b2 - 128) * 64 + (b3 - 128)) (utf8_decode t3) else None
      | _ => None
      end
    else None
  end.
Definition utf8_valid (bs : list N) : bool := match utf8_decode bs with Some _ => true | None => false end.
Definition utf8_encode_all (cs : list N) : list N := flat_map utf8_encode cs.

(* ------------------------------------------------------------------------------------------------ reading Debug output back *)
(* The grammar of <FmtUtf16 as Debug>: L" body " where body is a sequence of
     \0 \n \r \t \" \\      the six escaped characters
     \uXXXX                 an unpaired surrogate, four lower-case hex digits
     any other character    itself (never " or \) *)
Definition hexval (c : N) : option N :=
  if (48 <=? c) && (c <=? 57) then Some (c - 48) else if (97 <=? c) && (c <=? 102) then Some (c - 87) else None.
Definition consitem (it : item) (r : option (list item)) : option (list item) :=
  match r with Some l => Some (it :: l) | None => None end.
Fixpoint unescape_body (cs : list N) : option (list item) :=
  match cs with
  | [] => None                                   (* no closing quote *)
  | c :: t =>
    if c =? 34 then match t with [] => Some [] | _ => None end
    else if c =? 92 then
      match t with
      | e :: t1 =>
        if e =? 48 then consitem (IChar 0) (unescape_body t1)
        else if e =? 110 then consitem (IChar 10) (unescape_body t1)
        else if e =? 114 then consitem (IChar 13) (unescape_body t1)
        else if e =? 116 then consitem (IChar 9) (unescape_body t1)
        else if e =? 34 then consitem (IChar 34) (unescape_body t1)
        else if e =? 92 then consitem (IChar 92) (unescape_body t1)
        else if e =? 117 then
          match t1 with
          | h1 :: h2 :: h3 :: h4 :: t5 =>
            match hexval h1, hexval h2, hexval h3, hexval h4 with
            | Some a, Some b, Some c', Some d => consitem (IBad (a * 4096 + b * 256 + c' * 16 + d)) (unescape_body t5)
            | _, _, _, _ => None
            end
          | _ => None
          end
        else None
      | [] => None
      end
    else consitem (IChar c) (unescape_body t)
  end.
Definition unescape_debug (bytes : list N) : option (list item) :=
  match utf8_decode bytes with
  | Some (76 :: 34 :: body) => unescape_body body
  | _ => None
  end.

Definition item_eqb (a b : item) : bool :=
  match a, b with IChar x, IChar y => x =? y | IBad x, IBad y => x =? y | _, _ => false end.
Fixpoint items_eqb (a b : list item) : bool :=
  match a, b with
  | [], [] => true
  | x :: a', y :: b' => item_eqb x y && items_eqb a' b'
  | _, _ => false
  end.
Fixpoint nlist_eqb (a b : list N) : bool :=
  match a, b with
  | [], [] => true
  | x :: a', y :: b' => (x =? y) && nlist_eqb a' b'
  | _, _ => false
  end.

(* oracles for the two formatters: what the implementation wrote, read back, is the specified decoding *)
Definition display_ok (ws out : list N) : bool :=
  match utf8_decode out with Some cs => nlist_eqb cs (lossy (utf16_decode_spec ws)) | None => false end.
Definition debug_ok (ws out : list N) : bool :=
  match unescape_debug out with Some its => items_eqb its (utf16_decode_spec ws) | None => false end.
(* bounds on the number of bytes written *)
Definition display_bound (ws out : list N) : bool := lenN out <=? 3 * lenN ws.
Definition debug_bound (ws out : list N) : bool := lenN out <=? 6 * lenN ws + 3.

(* ------------------------------------------------------------------------------------------------ WideStr *)
(* the invariant from_words_unchecked asks for: first word + 1 = number of words *)
Definition wide_inv (words : list N) : Prop := exists w0 t, words = w0 :: t /\ w0 + 1 = lenN words.
Definition wide_invb (words : list N) : bool := match words with [] => false | w0 :: _ => w0 + 1 =? lenN words end.

(* from_words: Some exactly when the slice is non-empty and holds first word + 1 words; then that prefix *)
Definition from_words_spec (words : list N) : option (N * list N) :=
  match words with
  | [] => None
  | w0 :: _ => if w0 + 1 <=? lenN words then Some (0, firstn (N.to_nat (w0 + 1)) words) else None
  end.
Definition words_of_bytes (bytes : list N) (n : N) : list N :=
  map (fun i => u16_at bytes (2 * N.of_nat i)) (seq 0 (N.to_nat n)).
Definition from_bytes_spec (bytes : list N) : option (N * list N) :=
  let w0 := u16_at bytes 0 in
  if 2 * (w0 + 1) <=? lenN bytes then Some (0, words_of_bytes bytes (w0 + 1)) else None.

(* from_str: the first min(|buffer| - 1, |units|) code units after the count; the rest of the buffer is untouched *)
Definition from_str_spec (checks : bool) (s buffer : list N) : list N :=
  let units := flat_map utf16_encode s in
  let k := N.min (lenN buffer - 1) (lenN units) in
  (if checks then k else k mod 65536) :: firstn (N.to_nat k) units ++ skipn (N.to_nat (k + 1)) buffer.
Definition from_str_faults (checks : bool) (s buffer : list N) : bool :=
  (lenN buffer =? 0) || (checks && (65536 <=? N.min (lenN buffer - 1) (lenN (flat_map utf16_encode s)))).

(* to_string: the UTF-8 of the decoding, or the first ill-formed unit *)
Fixpoint first_bad (its : list item) : option N :=
  match its with [] => None | IBad u :: _ => Some u | IChar _ :: t => first_bad t end.
Definition to_string_spec (ws : list N) : list N + N :=
  let its := utf16_decode_spec ws in
  match first_bad its with Some u => inr u | None => inl (utf8_encode_all (lossy its)) end.
(* == str: the string decodes without error to exactly these characters *)
Definition eq_str_spec (ws cs : list N) : bool := items_eqb (utf16_decode_spec ws) (map IChar cs).

(* ------------------------------------------------------------------------------------------------ strn, wstrn, trimn *)
Definition is_strn (buf r : list N) : Prop :=
  Forall (fun b => b <> 0) r /\ exists rest, buf = r ++ rest /\ (rest = [] \/ exists t, rest = 0 :: t).
Fixpoint take_nonzero (l : list N) : list N :=
  match l with [] => [] | b :: t => if b =? 0 then [] else b :: take_nonzero t end.

Definition is_trimn (buf r : list N) : Prop :=
  (exists k, buf = r ++ repeat 0 k) /\ (r = [] \/ last r 0 <> 0).
Fixpoint drop_zeros (l : list N) : list N :=
  match l with [] => [] | b :: t => if b =? 0 then drop_zeros t else l end.
Definition trim_spec (buf : list N) : list N := rev (drop_zeros (rev buf)).
Definition parsen_spec (buf : list N) : list N + list N :=
  if utf8_valid (trim_spec buf) then inl (trim_spec buf) else inr buf.

(* ------------------------------------------------------------------------------------------------ hex *)
(* positional notation: [w] digits, most significant first; the i-th has weight 16^(w-1-i) *)
Definition hex_fixed (upper : bool) (w : nat) (x : N) : list N :=
  map (fun i => hexdigit upper ((x / 16 ^ N.of_nat (w - 1 - i)) mod 16)) (seq 0 w).
Definition hex_bytes (upper : bool) (bs : list N) : list N := flat_map (hex_fixed upper 2) bs.

(* {8-4-4-4-12}: Data1, Data2, Data3 are little-endian fields (their bytes appear reversed), Data4 in order *)
Definition guid_spec (upper dashed : bool) (b : list N) : list N :=
  let B i := nth i b 0 in
  let dash := if dashed then [45] else [] in
  (if dashed then [123] else []) ++
  hex_bytes upper [B 3%nat; B 2%nat; B 1%nat; B 0%nat] ++ dash ++
  hex_bytes upper [B 5%nat; B 4%nat] ++ dash ++
  hex_bytes upper [B 7%nat; B 6%nat] ++ dash ++
  hex_bytes upper [B 8%nat; B 9%nat] ++ dash ++
  hex_bytes upper [B 10%nat; B 11%nat; B 12%nat; B 13%nat; B 14%nat; B 15%nat] ++
  (if dashed then [125] else []).

(* ------------------------------------------------------------------------------------------------ Ptr, Pir *)
Definition ptr_member_faults (checks : bool) (bits va offset : N) : bool := checks && (2 ^ bits <=? va + offset).
Definition ptr_at_faults (checks : bool) (bits va i size : N) : bool :=
  checks && ((W64 <=? i * size) || (2 ^ bits <=? va + (i * size) mod 2 ^ bits)).
Definition ptr_member_spec (checks : bool) (bits va offset : N) : option N :=
  if ptr_member_faults checks bits va offset then None else Some ((va + offset) mod 2 ^ bits).
Definition ptr_at_spec (checks : bool) (bits va i size : N) : option N :=
  if ptr_at_faults checks bits va i size then None else Some ((va + i * size) mod 2 ^ bits).
(* signed value of the two's complement image *)
Definition signed (bits so : N) : Z := if so <? 2 ^ (bits - 1) then Z.of_N so else (Z.of_N so - Z.of_N (2 ^ bits))%Z.
Definition ptr_display_spec (bits va : N) : list N := [48; 120] ++ hex_fixed false (N.to_nat (bits / 4)) va.
(* minimal number of hex digits, at least one *)
Definition ndigits (x : N) : nat := S (N.to_nat (N.log2 x / 4)).
Definition hex_min_spec (upper : bool) (x : N) : list N := hex_fixed upper (ndigits x) x.
Definition fmt_hex_spec (upper alt : bool) (width : N) (x : N) : list N :=
  let ds := hex_min_spec upper x in
  let prefix := if alt then [48; 120] else [] in
  prefix ++ repeat 48 (N.to_nat (width - (lenN prefix + lenN ds))) ++ ds.

(* ------------------------------------------------------------------------------------------------ flags, enums *)
Definition lookup_flag (t : flag_table) (i : N) : list name :=
  match find (fun r => fst (fst r) =? i) t with Some r => [snd (fst r)] | None => [] end.
(* the names of the set bits that have a table entry, in ascending bit order *)
Definition to_strs_spec (bits : nat) (t : flag_table) (x : N) : list name :=
  flat_map (fun i => if N.testbit x (N.of_nat i) then lookup_flag t (N.of_nat i) else []) (seq 0 bits).

Definition enum_to_str_spec (t : enum_table) (v : N) : option name :=
  match find (fun r => fst r =? v) t with Some r => Some (snd r) | None => None end.
Definition enum_from_str_spec (t : enum_table) (s : name) : option N :=
  match find (fun r => name_eqb (snd r) s) t with Some r => Some (fst r) | None => None end.
Definition parse_flag_spec (t : flag_table) (s : name) : option N :=
  match find (fun r => name_eqb (snd (fst r)) s) t with Some r => Some (snd r) | None => None end.

Fixpoint names_eqb (a b : list name) : bool :=
  match a, b with
  | [], [] => true
  | x :: a', y :: b' => name_eqb x y && names_eqb a' b'
  | _, _ => false
  end.
Fixpoint name_in (s : name) (l : list name) : bool :=
  match l with [] => false | x :: r => name_eqb x s || name_in s r end.
Fixpoint names_distinct (l : list name) : bool :=
  match l with [] => true | x :: r => negb (name_in x r) && names_distinct r end.
Fixpoint n_in (v : N) (l : list N) : bool := match l with [] => false | x :: r => (x =? v) || n_in v r end.
Fixpoint ns_distinct (l : list N) : bool := match l with [] => true | x :: r => negb (n_in x r) && ns_distinct r end.
(* a flag table is well formed: one row per bit index, distinct names, every constant is the single bit of its row *)
Definition flag_table_wf (bits : N) (t : flag_table) : bool :=
  ns_distinct (map (fun r => fst (fst r)) t) && names_distinct (map (fun r => snd (fst r)) t) &&
  forallb (fun r => (fst (fst r) <? bits) && (snd r =? 2 ^ fst (fst r))) t.
Definition enum_table_wf (t : enum_table) : bool :=
  ns_distinct (map fst t) && names_distinct (map snd t).
