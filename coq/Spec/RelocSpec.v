(* Spec for C14: what the property text says about a relocation directory, stated
   over absolute offsets into the directory with unbounded arithmetic (no wrap),
   independently of how the iterator walks. *)
From PV.Model Require Import Machine.
From PV.Model Require Import Relocs.   (* only for the [block] record, the observation type *)

Definition align4 (x : N) : N := ((x + 3) / 4) * 4.

(* the n u16 words stored at data[off + 2i] *)
Definition words_spec (data : list N) (off : N) (n : N) : list N :=
  map (fun i => u16_at data (off + 2 * N.of_nat i)) (seq 0 (N.to_nat n)).

Definition listN_eqb (a b : list N) : bool :=
  (Nat.eqb (length a) (length b)) && forallb (fun p => fst p =? snd p) (combine a b).

(* "consecutive blocks - an 8-byte header followed by (SizeOfBlock-8)/2 entries,
   clamped to the directory - that neither overlap nor skip" *)
Fixpoint chainb (data : list N) (off : N) (bs : list block) : bool :=
  let rem := lenN data - off in
  match bs with
  | [] => rem <? 8
  | b :: bs' =>
    let nw := (N.min (b_sob b) rem - 8) / 2 in
    let next := off + N.min (align4 (N.max (b_sob b) 8)) rem in
    (8 <=? rem) && (b_off b =? off)
    && (b_va b =? u32_at data off) && (b_sob b =? u32_at data (off + 4))
    && listN_eqb (b_words b) (words_spec data (off + 8) nw)
    && (off + 8 + 2 * nw <=? next) && (off <? next) && (next <=? lenN data)
    && chainb data next bs'
  end.

(* "(block address + low 12 bits, high 4 bits) in stored order", padding (type 0) skipped *)
Definition decode_word (va w : N) : list (N * N) :=
  if w / 4096 =? 0 then [] else [((va + w mod 4096) mod W32, w / 4096)].
Definition flat_spec (bs : list block) : list (N * N) :=
  flat_map (fun b => flat_map (decode_word (b_va b)) (b_words b)) bs.

Definition pair_eqb (p q : N * N) : bool := (fst p =? fst q) && (snd p =? snd q).
Definition pairs_eqb (a b : list (N * N)) : bool :=
  (Nat.eqb (length a) (length b)) && forallb (fun p => pair_eqb (fst p) (snd p)) (combine a b).

(* oracle for parsing: the observed block list and both flattened streams *)
Definition parse_ok (data : list N) (bs : list block) (flat_iter flat_fold : list (N * N)) : bool :=
  chainb data 0 bs && pairs_eqb flat_iter (flat_spec bs) && pairs_eqb flat_fold (flat_spec bs).

(* oracle for build: the output re-parses to the input pairs, in page-aligned
   blocks whose size is a multiple of four *)
Definition build_pre (rvas types : list N) : bool :=
  Nat.eqb (length rvas) (length types)
  && forallb (fun r => r <? W32) rvas && forallb (fun t => (1 <=? t) && (t <=? 15)) types.
Definition build_ok (rvas types out : list N) (bs : list block) (flat : list (N * N)) : bool :=
  chainb out 0 bs && pairs_eqb flat (flat_spec bs) && pairs_eqb flat (combine rvas types)
  && forallb (fun b => (b_va b mod 4096 =? 0) && (b_sob b mod 4 =? 0)) bs
  && forallb (fun x => x <? 256) out.
