(* C15, shape of the decoded directory contents: which bytes are decoded how, at the literal offsets of the
   PE/COFF specification (WIN_CERTIFICATE, CodeView NB10 / RSDS records, IMAGE_DEBUG_MISC, UNWIND_INFO).
   No model decoder appears on the right-hand sides. *)
From PV.Model Require Import Machine Mapping Views Dirs DirsFields.
From PV.Spec Require Export LeBytes.

(* WIN_CERTIFICATE: dwLength at 0, wRevision at 4, wCertificateType at 6, bCertificate from 8 *)
Record sec_shape := { ss_length : N; ss_revision : N; ss_type : N; ss_payload : list N }.
Definition security_fields_shape (g : N -> N) (va size : N) : sec_shape :=
  {| ss_length := dword_at g va; ss_revision := word_at g (va + 4); ss_type := word_at g (va + 6);
     ss_payload := bytes_at g (va + 8) (N.to_nat (size - 8)) |}.

(* CodeView NB10: 'N' 'B' '1' '0', Offset at 4, TimeDateStamp at 8, Age at 12, path from 16
   CodeView RSDS: 'R' 'S' 'D' 'S', GUID = the 16 bytes at 4, Age at 20, path from 24
   IMAGE_DEBUG_MISC: DataType at 0, Length at 4, Unicode = the byte at 8 *)
Definition entry_fields_shape (g : N -> N) (e : entry) : efields :=
  match e with
  | ECv20 i _ => FCv20 [g i; g (i + 1); g (i + 2); g (i + 3)] (dword_at g (i + 4)) (dword_at g (i + 8)) (dword_at g (i + 12))
  | ECv70 i _ => FCv70 [g i; g (i + 1); g (i + 2); g (i + 3)] (bytes_at g (i + 4) 16) (dword_at g (i + 20))
  | EDbg i => FMisc (dword_at g i) (dword_at g (i + 4)) (g (i + 8))
  | _ => FOther
  end.

(* a NUL-terminated path: [nm] starts at [start], ends with the first NUL at or after start, inside [room] bytes *)
Definition is_path (g : N -> N) (start room : N) (nm : region) : Prop :=
  r_off nm = start /\ 0 < r_len nm /\ r_len nm <= room /\ g (start + r_len nm - 1) = 0 /\
  forall k, k < r_len nm - 1 -> g (start + k) <> 0.

(* where the payload of a debug directory entry lies: SizeOfData bytes at PointerToRawData (file) / AddressOfRawData (mapped) *)
Definition payload_off (v : view) (d : ddir) : N := if v_file v then dd_ptr d else dd_addr d.

(* what a successfully decoded entry is, over the bytes *)
Definition entry_shape (v : view) (d : ddir) (e : entry) : Prop :=
  let g := v_get v in
  let o := payload_off v d in
  match e with
  | ECv20 i nm =>
    dd_type d = 2 /\ i = o /\ o + dd_size d <= v_len v /\ 16 <= dd_size d /\ (v_addr v + o) mod 4 = 0 /\
    entry_fields g e = FCv20 [78; 66; 49; 48] (dword_at g (o + 4)) (dword_at g (o + 8)) (dword_at g (o + 12)) /\
    is_path g (o + 16) (dd_size d - 16) nm
  | ECv70 i nm =>
    dd_type d = 2 /\ i = o /\ o + dd_size d <= v_len v /\ 24 <= dd_size d /\ (v_addr v + o) mod 4 = 0 /\
    entry_fields g e = FCv70 [82; 83; 68; 83] (bytes_at g (o + 4) 16) (dword_at g (o + 20)) /\
    is_path g (o + 24) (dd_size d - 24) nm
  | EDbg i =>
    dd_type d = 4 /\ i = o /\ o + dd_size d <= v_len v /\ 12 <= dd_size d /\ (v_addr v + o) mod 4 = 0 /\
    entry_fields g e = FMisc (dword_at g o) (dword_at g (o + 4)) (g (o + 8))
  | EPgo r =>
    dd_type d = 13 /\ r_off r = o /\ o + dd_size d <= v_len v /\ 4 <= dd_size d /\ (v_addr v + o) mod 4 = 0 /\
    r_len r = 4 * (dd_size d / 4)
  | EUnknown data =>
    dd_type d <> 2 /\ dd_type d <> 4 /\ dd_type d <> 13 /\
    data = if o + dd_size d <=? v_len v then Some {| r_off := o; r_len := dd_size d |} else None
  end.

(* UNWIND_INFO: Version = bits 0..2 and Flags = bits 3..7 of byte 0, SizeOfProlog = byte 1, CountOfCodes = byte 2,
   FrameRegister = bits 0..3 and FrameOffset = bits 4..7 of byte 3, the codes are the 2*CountOfCodes bytes from offset 4 *)
Record uw_shape := { us_version : N; us_flags : N; us_prolog : N; us_count : N; us_reg : N; us_offset : N; us_codes : region }.
Definition unwind_fields_shape (g : N -> N) (o : N) : uw_shape :=
  {| us_version := g o mod 8; us_flags := g o / 8; us_prolog := g (o + 1); us_count := g (o + 2);
     us_reg := g (o + 3) mod 16; us_offset := g (o + 3) / 16; us_codes := {| r_off := o + 4; r_len := 2 * g (o + 2) |} |}.
