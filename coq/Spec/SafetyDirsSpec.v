(* Vocabulary of the memory-safety statements (C01) about the directory modules: what it means for the
   borrows a parser hands out - a struct reference, an array, an element of an array, a string, the
   payload variants of a debug entry, a borrow inside a resource section - to lie inside the buffer of the
   view and to be aligned for the Rust type the code casts them to.  Alignments and sizes are those of
   gen/Layout.v (regenerated from src/image.rs) and gen/LayoutExtra.v (the three types defined outside image.rs). *)
From PV.Model Require Import Machine Mapping Views.
From PV.Model Require Exports Imports Dirs Resources VersionInfo Rich.
From PV.gen Require Import Layout.
From PV.gen Require Export LayoutExtra.
From PV.Spec Require Import SafetySpec.

(* a borrow of the buffer of [v], aligned for a type of alignment [align] *)
Definition vsafe (v : view) (align : N) (r : region) : Prop := typed_safe (v_addr v) (v_len v) align r.
(* a &[T] of [n] elements of [size] bytes *)
Definition array_safe (v : view) (size align n : N) (r : region) : Prop := vsafe v align r /\ r_len r = size * n.
(* element [k] of such an array: what slice::Iter / Index hand out *)
Definition elem (r : region) (size k : N) : region := {| r_off := r_off r + size * k; r_len := size |}.
(* a CStr: inside the buffer, not empty (it contains its NUL) *)
Definition cstr_safe (v : view) (r : region) : Prop := region_in (v_len v) r /\ 0 < r_len r.

(* alignments of the primitive element types the code slices: u8, u16, u32 = Rva, Va *)
Definition u8_align : N := 1.
Definition u16_align : N := 2.
Definition u32_align : N := 4.

(* ---- exports: a decoded table (&[Rva], &[u16]) is the static empty slice (Null-as-empty) or was read by
   derva_slice from a region that is inside the buffer and aligned for the element type *)
Definition table_src (v : view) (size align a n : N) (l : list N) : Prop :=
  l = [] \/
  exists r, rd_slice (slice v) a size align n = Ok r /\ array_safe v size align n r /\
            l = Exports.elems (v_get v) size (r_off r) n.
(* a dword field of the IMAGE_EXPORT_DIRECTORY at buffer offset [x] *)
Definition x_fn (v : view) (x fo : N) : N := Exports.x_field (v_get v) x fo.
(* the IMAGE_EXPORT_DIRECTORY at buffer offset [x] *)
Definition export_dir (x : N) : region := {| r_off := x; r_len := IMAGE_EXPORT_DIRECTORY_size |}.

(* ---- imports ---- *)
Definition va_align (p : Imports.pe) : N := Imports.va_bytes p.      (* align_of::<Va>() = size_of::<Va>() *)
Definition import_safe (p : Imports.pe) (i : Imports.import) : Prop :=
  match i with
  | Imports.ByName _ name => cstr_safe (Imports.p_v p) name
  | Imports.ByOrdinal _ => True
  end.

(* ---- debug: the borrows of an interpreted directory entry ---- *)
Definition entry_safe (v : view) (e : Dirs.entry) : Prop :=
  match e with
  | Dirs.ECv20 image name =>
      vsafe v IMAGE_DEBUG_CV_INFO_PDB20_align {| r_off := image; r_len := IMAGE_DEBUG_CV_INFO_PDB20_size |} /\ cstr_safe v name
  | Dirs.ECv70 image name =>
      vsafe v IMAGE_DEBUG_CV_INFO_PDB70_align {| r_off := image; r_len := IMAGE_DEBUG_CV_INFO_PDB70_size |} /\ cstr_safe v name
  | Dirs.EDbg image => vsafe v IMAGE_DEBUG_MISC_align {| r_off := image; r_len := IMAGE_DEBUG_MISC_size |}
  | Dirs.EPgo image => vsafe v u32_align image /\ r_len image mod 4 = 0
  | Dirs.EUnknown (Some b) => region_in (v_len v) b
  | Dirs.EUnknown None => True
  end.

(* ---- TLS / load config: the struct the view's format selects ---- *)
Definition is32 (v : view) : bool := v_w v =? W32.
Definition tls_align (v : view) : N := if is32 v then IMAGE_TLS_DIRECTORY32_align else IMAGE_TLS_DIRECTORY64_align.
Definition tls_size (v : view) : N := if is32 v then IMAGE_TLS_DIRECTORY32_size else IMAGE_TLS_DIRECTORY64_size.
Definition lc_align (v : view) : N := if is32 v then IMAGE_LOAD_CONFIG_DIRECTORY32_align else IMAGE_LOAD_CONFIG_DIRECTORY64_align.
Definition lc_size (v : view) : N := if is32 v then IMAGE_LOAD_CONFIG_DIRECTORY32_size else IMAGE_LOAD_CONFIG_DIRECTORY64_size.
Definition va_align_v (v : view) : N := Dirs.va_size v.               (* align_of::<Va>() = size_of::<Va>() *)

(* ---- resources: borrows are offsets into the section [s]; the section itself is a borrow of the image ---- *)
Definition splaced (s : Resources.rsec) : Prop := placed (Resources.rs_addr s) (Resources.rs_len s).
(* [size] bytes at section offset [o], aligned for [align] *)
Definition sec_safe (s : Resources.rsec) (align o size : N) : Prop :=
  o + size <= Resources.rs_len s /\ (Resources.rs_addr s + o) mod align = 0.
(* the section is the [rs_len] bytes of the view's buffer at offset [off] *)
Definition sec_of_view (v : view) (s : Resources.rsec) (off : N) : Prop :=
  Resources.rs_addr s = v_addr v + off /\ off + Resources.rs_len s <= v_len v /\
  forall i, Resources.rs_get s i = v_get v (off + i).
(* GRPICONDIR / GRPICONDIRENTRY (src/resources/group.rs) and Language (src/resources/version_info.rs) are not part of
   image.rs: their sizes and alignments come from gen/LayoutExtra.v (tools/gen_layout_extra.py) *)
(* the borrows of a directory entry's target *)
Definition ent_safe (s : Resources.rsec) (x : Resources.ent) : Prop :=
  match x with
  | Resources.EDir o =>
      sec_safe s IMAGE_RESOURCE_DIRECTORY_align o IMAGE_RESOURCE_DIRECTORY_size /\
      sec_safe s IMAGE_RESOURCE_DIRECTORY_ENTRY_align (o + IMAGE_RESOURCE_DIRECTORY_size)
               (IMAGE_RESOURCE_DIRECTORY_ENTRY_size * (Resources.n_named s o + Resources.n_ids s o))
  | Resources.EData o => sec_safe s IMAGE_RESOURCE_DATA_ENTRY_align o IMAGE_RESOURCE_DATA_ENTRY_size
  end.
(* the resource is shorter than the address space (in words) *)
Definition vi_len_ok (ws : list N) : Prop := lenN ws + 8 < W64.
