(* Spec for C10: what "the scanner reports exactly the matching positions" means, stated without the search loops.

   E c            : executing the pattern at rva c succeeds (Scanner::exec on the view)
   must_report    : the positions the property obliges the scanner to report: inside the range, stored and mapped
                    bytes of the first section that contains them, at least W = max 1 |prefix| bytes before the end
                    of the range and of the section's stored bytes (a mapped view: of the image)
   sections_not_sorted : the documented limitation (scanner.rs "Plz fix"), a decidable known class (F28)
   scan_oracle    : the boolean reading of the property on an observed run (extracted and evaluated on the
                    implementation's observations) *)
From PV.Model Require Import Machine Mapping Views Pattern Exec ScanView.
From PV.Spec Require Import MappingSpec.

(* ---- E ---- *)
Definition E (v : view) (pat : list atom) (c : N) (save : list N) : Prop :=
  exists save', view_exec v pat c save = Ok (true, save').

(* the literal prefix of a pattern, declaratively: the bytes of the leading Byte atoms, looking through
   Save / Aligned / Nop, at most 16 of them *)
Fixpoint literal_prefix (pat : list atom) (room : nat) : list N :=
  match pat, room with
  | Byte b :: t, S r => b :: literal_prefix t r
  | (Save _ | Aligned _ | Nop) :: t, _ => literal_prefix t room
  | _, _ => []
  end.
Definition window (pat : list atom) : N := N.max 1 (lenN (literal_prefix pat 16)).

(* ---- the known class ---- *)
Fixpoint sorted_by_va (secs : list section) : bool :=
  match secs with
  | a :: (b :: _) as t => (s_va a <=? s_va b) && sorted_by_va t
  | _ => true
  end.
Definition sections_not_sorted (v : view) : bool := v_file v && negb (sorted_by_va (v_secs v)).

(* every section's virtual extent ends below 2^32 (otherwise the interpreter ignores the section while the
   scanner may still walk it) *)
Definition sections_sane (secs : list section) : bool :=
  forallb (fun s => (s_va s + vext s <? W32)) secs.

(* ---- the obligation ---- *)
Definition must_report (v : view) (W rstart rend c : N) : bool :=
  (rstart <=? c) &&
  if v_file v then
    sections_sane (v_secs v) &&
    match first_v (v_secs v) c with
    | Some s =>
      (s_prd s + s_srd s <=? v_len v)                       (* the raw data lies inside the file *)
      && (c - s_va s <? s_vs s)                             (* mapped *)
      && (c + W <=? N.min rend (s_va s + s_srd s))          (* stored, and W bytes before both ends *)
    | None => false
    end
  else c + W <=? N.min rend (v_len v).

(* ---- oracle over an observed run ----
   reported : the positions returned by successive Matches::next calls, in the order of the calls
   after    : range.start after each of those calls
   wins     : the windows [lo, hi) of positions at which Scanner::exec was evaluated
   xs       : the ascending list {c in [rstart, rend), inside a window | Scanner::exec(c) succeeded}
   complete : the iteration was observed until next returned false *)
Fixpoint ascending (l : list N) : bool :=
  match l with
  | a :: (b :: _) as t => (a <? b) && ascending t
  | _ => true
  end.
Definition memN (x : N) (l : list N) : bool := existsb (N.eqb x) l.

Fixpoint advances (reported after : list N) : bool :=
  match reported, after with
  | c :: r, a :: t => (c <? a) && advances r t
  | [], _ => true
  | _ :: _, [] => false
  end.

Definition last_or (d : N) (l : list N) : N := last l d.

Definition in_wins (wins : list (N * N)) (c : N) : bool := existsb (fun w => (fst w <=? c) && (c <? snd w)) wins.

Definition scan_oracle (v : view) (W rstart rend : N) (wins : list (N * N)) (reported after xs : list N) (complete : bool) : bool :=
  (* soundness: inside the range, in ascending order (hence once), a position where exec succeeds, range.start beyond it *)
  ascending reported
  && forallb (fun c => (rstart <=? c) && (c <? rend) && (negb (in_wins wins c) || memN c xs)) reported
  && advances reported after
  (* completeness: every obliged position is reported (up to where the observation stopped) *)
  && forallb (fun c => negb (must_report v W rstart rend c)
                       || memN c reported
                       || (negb complete && (last_or 0 after <=? c))) xs.

(* finds: true precisely when exactly one position is reported, and then the save array is that match's *)
Definition finds_oracle (nreported : N) (complete : bool) (finds_result : bool) (first_save finds_save : list N) : bool :=
  if finds_result then (nreported =? 1) && complete && (if list_eq_dec N.eq_dec first_save finds_save then true else false)
  else negb ((nreported =? 1) && complete).

(* captures: every slot the execution at the match writes (differs from the fill value) is reported with that value *)
Fixpoint captures_ok (fill : N) (reported fresh : list N) : bool :=
  match reported, fresh with
  | r :: rt, f :: ft => ((f =? fill) || (r =? f)) && captures_ok fill rt ft
  | [], [] => true
  | _, _ => false
  end.
