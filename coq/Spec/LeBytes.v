(* Little-endian readings of a byte buffer at explicit offsets, written out byte by byte
   (no recursion, no model function): used by the SHAPE theorems of C08 / C09 / C15. *)
From PV.Model Require Import Machine.

Definition word_at (g : N -> N) (o : N) : N := g o + 256 * g (o + 1).
Definition dword_at (g : N -> N) (o : N) : N := g o + 256 * g (o + 1) + 65536 * g (o + 2) + 16777216 * g (o + 3).
Definition qword_at (g : N -> N) (o : N) : N := dword_at g o + 4294967296 * dword_at g (o + 4).
(* the n bytes from offset o *)
Definition bytes_at (g : N -> N) (o : N) (n : nat) : list N := map (fun k => g (o + N.of_nat k)) (seq 0 n).
