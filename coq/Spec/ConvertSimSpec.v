(* Spec for the simulation layer of C06: the two views of one image (the file view over F and the
   mapped view over V = to_view F, same header fields, same base), the decidable provisos of the
   typed-read simulation, "same bytes" on two regions, and the value projections of the directory
   parsers that are compared (everything a parser decodes except the buffer offsets of its borrows). *)
From PV.Model Require Import Machine Mapping Views Headers Convert.
From PV.Model Require Dirs Relocs Rich Exports Imports Resources.
From PV.Spec Require Import MappingSpec ConvertSpec.

(* what PeFile::from_bytes(F) and PeView::from_bytes(to_view F) hold: the same decoded header fields
   (SizeOfHeaders, SizeOfImage, ImageBase - view.rs:61 takes base_address from the optional header -
   and the section table); only the buffer, its machine address and the align kind differ *)
Definition file_view (addr w base soh soi : N) (secs : list section) (img : list N) : view :=
  {| v_file := true; v_addr := addr; v_len := lenN img; v_get := byte_at img; v_w := w; v_base := base;
     v_soh := soh; v_soi := soi; v_secs := secs |}.
Definition mapped_view (addr w base soh soi : N) (secs : list section) (V : list N) : view :=
  {| v_file := false; v_addr := addr; v_len := lenN V; v_get := byte_at V; v_w := w; v_base := base;
     v_soh := soh; v_soi := soi; v_secs := secs |}.

(* the two families of typed reads: derva_* go through slice (the argument is an RVA), deref_* through read (a VA) *)
Inductive path := RvaPath | VaPath.
Definition sl_of (p : path) (v : view) : N -> N -> N -> res region :=
  match p with RvaPath => slice v | VaPath => read v end.
(* the RVA an address of that family denotes *)
Definition rva_of (p : path) (base a : N) : N := match p with RvaPath => a | VaPath => a - base end.

(* the standing hypotheses of every simulation statement: a well-formed table and V = to_view F *)
Definition conv_setting (img : list N) (soh soi : N) (secs : list section) (V : list N) : Prop :=
  Forall section_ok secs /\ soh <= lenN img /\ soh <= soi /\
  wf_sections (lenN img) soh soi secs = true /\ to_view img soh soi secs = Ok V.

(* the two buffers sit at addresses that are congruent modulo the alignment asked for (and the alignment
   divides 2^64, as every power of two does): then "aligned in F" implies "aligned in V" *)
Definition align_compat (align addrF addrV : N) : bool :=
  (W64 mod align =? 0) && (addrV mod align =? addrF mod align).

(* how many bytes from rva on are guaranteed equal in both representations: up to the end of the
   stored-and-mapped part min(VS,SRD) of the section - and up to the end of the raw data when the raw tail
   beyond VirtualSize is zero padding (then it is the whole file slice) *)
Definition agree_len (F : N -> N) (secs : list section) (rva : N) : N :=
  match first_v secs rva with
  | Some s => (if raw_tail_zero F s then s_srd s else mapped_len s) - (rva - s_va s)
  | None => 0
  end.
(* the proviso of a typed read of n bytes at rva (for the sentinel readers n includes the terminator) *)
Definition inside_agree (F : N -> N) (secs : list section) (rva n : N) : bool := n <=? agree_len F secs rva.

(* region r of buffer gF and region r' of buffer gV have the same length and hold the same bytes *)
Definition region_sim (gF gV : N -> N) (r r' : region) : Prop :=
  r_len r' = r_len r /\ forall i, i < r_len r -> gF (r_off r + i) = gV (r_off r' + i).

(* the bytes of a region *)
Definition region_bytes (g : N -> N) (r : region) : list N :=
  map (fun k => g (r_off r + N.of_nat k)) (seq 0 (N.to_nat (r_len r))).

(* ---- directory parsers that have no image-level model elsewhere ---- *)

(* pe64/base_relocs.rs:7 try_from: pe.slice(VirtualAddress, Size, 4), then the first Size bytes *)
Definition relocs_try_from (v : view) (dd : option (N * N)) : res region :=
  match dd with
  | None => Err EBounds
  | Some (va, size) => rd (slice v) va size 4
  end.
(* what BaseRelocs then iterates over (Model/Relocs.v works on this list) *)
Definition relocs_data (v : view) (r : region) : list N := region_bytes (v_get v) r.

(* pe.rs:564 resources() on either view: slice_bytes(VirtualAddress) clamped to Size *)
Definition view_resources (v : view) (dd : option (N * N)) : res Resources.rsec :=
  match dd with
  | None => Err EBounds
  | Some (rva, size) =>
    r <- slice v rva 0 1 ;;
    Ok {| Resources.rs_addr := v_addr v + r_off r; Resources.rs_len := N.min size (r_len r);
          Resources.rs_get := fun i => v_get v (r_off r + i); Resources.rs_va := rva |}
  end.

(* pe.rs:471 rich_structure(): the image as dwords, image.len() / 4 of them *)
Definition dwords_of (g : N -> N) (len : N) : list N :=
  map (fun k => le_value g (4 * N.of_nat k) 4) (seq 0 (N.to_nat (len / 4))).
Definition view_rich (g : N -> N) (len : N) : res (nat * nat) := Rich.try_from (dwords_of g len).

(* ---- value projections: what is compared ---- *)
(* an IMAGE_DEBUG_DIRECTORY without the buffer offset it was read at *)
Definition ddir_vals (d : Dirs.ddir) : N * N * N * N * N :=
  (Dirs.dd_time d, Dirs.dd_type d, Dirs.dd_size d, Dirs.dd_addr d, Dirs.dd_ptr d).

(* an import with the bytes of its name instead of the region *)
Inductive import_val := VByName (hint : N) (name : list N) | VByOrdinal (ord : N).
Definition import_vals (g : N -> N) (i : Imports.import) : import_val :=
  match i with
  | Imports.ByName h n => VByName h (region_bytes g n)
  | Imports.ByOrdinal o => VByOrdinal o
  end.

(* the headers of the file lie inside SizeOfHeaders (validate_headers checks them against the length of the
   buffer only): DOS header, NT headers with the data directory, section table *)
Definition headers_within (f : fmt) (m : mem) : bool :=
  (64 <=? h_soh f m) &&
  (e_lfanew m + f_nt_size f + N.min (h_nrva f m) 16 * 8 <=? h_soh f m) &&
  (sec_table_off f m + h_nsec f m * 40 <=? h_soh f m).

(* ====================================================================================================
   Third layer (second deepening round): the resource tree walkers, the debug entry payloads, the export
   lookups that swallow read errors, the export iterators, unwind_info / function_bytes. *)

(* ---- resources: two resource sections are THE SAME for every parser of Model/Resources.v: same length, same
        directory RVA, same bytes below the length, addresses congruent modulo 4 (the parsers test alignments 2
        and 4 of address + offset only).  Nothing is said about rs_get at or beyond rs_len. ---- *)
Definition rsec_same (s s' : Resources.rsec) : Prop :=
  Resources.rs_len s' = Resources.rs_len s /\ Resources.rs_va s' = Resources.rs_va s /\
  Resources.rs_addr s' mod 4 = Resources.rs_addr s mod 4 /\
  forall i, i < Resources.rs_len s -> Resources.rs_get s' i = Resources.rs_get s i.

(* every query of the resources API: offsets are relative to the section, so the results are literally equal *)
Definition res_queries_equal (s s' : Resources.rsec) : Prop :=
  (* Resources::root, the traversal (every entry: name, kind, directory / data entry, DataEntry::bytes, size,
     code page), fsck, the number of lines of the tree printer *)
  Resources.root s' = Resources.root s /\
  (forall d r lvl b, Resources.root s = Ok r -> Resources.walk d s' r lvl b = Resources.walk d s r lvl b) /\
  Resources.fsck s' = Resources.fsck s /\
  Resources.display_lines s' = Resources.display_lines s /\
  (* the find API *)
  (forall lo a b, Resources.find_resources lo s' a b = Resources.find_resources lo s a b) /\
  (forall lo a b, Resources.find_resource lo s' a b = Resources.find_resource lo s a b) /\
  (forall lo a b c, Resources.find_resource_ex lo s' a b c = Resources.find_resource_ex lo s a b c) /\
  (forall lo rooted parts, Resources.find_path lo s' rooted parts = Resources.find_path lo s rooted parts) /\
  Resources.manifest s' = Resources.manifest s /\
  Resources.version_info s' = Resources.version_info s /\
  (* group resources: the listing, the image lookup and the .ico/.cur writer of every listed group *)
  (forall ty, Resources.group_list s' ty = Resources.group_list s ty) /\
  (forall rg g, r_off rg + r_len rg <= Resources.rs_len s -> Resources.group_new s rg = Ok g ->
     Resources.group_new s' rg = Ok g /\ Resources.g_type s' g = Resources.g_type s g /\
     Resources.g_entries s' g = Resources.g_entries s g /\
     (forall id, Resources.g_image s' g id = Resources.g_image s g id) /\
     Resources.group_write s' g = Resources.group_write s g) /\
  (* the bytes of every region inside the section (data entry bytes, version info, manifest, images) *)
  (forall o n, o + n <= Resources.rs_len s -> Resources.sec_bytes s' o n = Resources.sec_bytes s o n).

(* the section that serves [rva] is stored at a file offset congruent to its VirtualAddress modulo [al]
   (true of every linker output: both are multiples of FileAlignment >= 512; pelite does not check it) *)
Definition prd_va_congruent (al : N) (secs : list section) (rva : N) : bool :=
  match first_v secs rva with
  | Some s => s_prd s mod al =? s_va s mod al
  | None => true
  end.

(* ---- debug entry payloads (debug.rs:140 Dir::data): a file addresses the payload by PointerToRawData, a
        mapped image by AddressOfRawData.  The two are the same bytes when the entry is CONSISTENT: the file
        pointer is the file offset of the RVA and the payload lies in bytes that are stored and mapped (inside the
        headers, or inside the agreeing part of its section: min(VS,SRD), the whole raw data when the raw tail is
        zero padding).  Decidable. ---- *)
Definition debug_entry_consistent (F : N -> N) (soh : N) (secs : list section) (d : Dirs.ddir) : bool :=
  match rva_to_file_offset soh secs (Dirs.dd_addr d) with
  | Ok p => (p =? Dirs.dd_ptr d) &&
            (if Dirs.dd_addr d <? soh then Dirs.dd_addr d + Dirs.dd_size d <=? soh
             else Dirs.dd_size d <=? agree_len F secs (Dirs.dd_addr d))
  | _ => false
  end.

Definition res_map {A B} (f : A -> B) (r : res A) : res B :=
  match r with Ok a => Ok (f a) | Err e => Err e | Fault x => Fault x end.

(* what a decoded debug entry says, without buffer offsets: the bytes of the structures and strings it borrows *)
Definition bytes_at (g : N -> N) (off n : N) : list N := region_bytes g {| r_off := off; r_len := n |}.
Definition pgo_vals (g : N -> N) (l : list Dirs.pgo_item) : list (N * N * list N) :=
  map (fun it => (Dirs.pg_rva it, Dirs.pg_size it, region_bytes g (Dirs.pg_name it))) l.
Inductive entry_val :=
| VCv20 (hdr name : list N)                        (* IMAGE_DEBUG_CV_INFO_PDB20 (16 bytes), pdb_file_name incl. NUL *)
| VCv70 (hdr name : list N)                        (* IMAGE_DEBUG_CV_INFO_PDB70 (24 bytes), pdb_file_name incl. NUL *)
| VDbg (hdr : list N)                              (* IMAGE_DEBUG_MISC (12 bytes) *)
| VPgo (image : list N) (items : res (list (N * N * list N)))   (* the dword slice and Pgo::iter() to exhaustion *)
| VUnknown (data : option (list N)).
Definition entry_vals (g : N -> N) (e : Dirs.entry) : entry_val :=
  match e with
  | Dirs.ECv20 i n => VCv20 (bytes_at g i 16) (region_bytes g n)
  | Dirs.ECv70 i n => VCv70 (bytes_at g i 24) (region_bytes g n)
  | Dirs.EDbg i => VDbg (bytes_at g i 12)
  | Dirs.EPgo r => VPgo (region_bytes g r) (res_map (pgo_vals g) (Dirs.pgo_iter g r))
  | Dirs.EUnknown d => VUnknown (option_map (region_bytes g) d)
  end.

(* ---- exports: lookups that swallow read errors.  [names_readable c t]: derva_c_str succeeds on every entry of
        the name table (decidable).  [res_le r r']: whatever r returns, r' returns the same. ---- *)
Definition names_readable (c : N -> res (list N)) (t : Exports.tables) : bool :=
  forallb (fun rva => match c rva with Ok _ => true | _ => false end) (Exports.t_names t).
Definition res_le {A} (r r' : res A) : Prop := forall x, r = Ok x -> r' = Ok x.

(* the UNWIND_INFO accessors *)
Definition unwind_vals (g : N -> N) (r : region) : N * N * N * N * N * N * list N :=
  (Dirs.uw_version g r, Dirs.uw_flags g r, Dirs.uw_size_of_prolog g r, Dirs.uw_count g r,
   Dirs.uw_frame_register g r, Dirs.uw_frame_offset g r, region_bytes g (Dirs.uw_codes g r)).

(* ---- (a) the converse direction.  [stored_at secs rva ms]: rva lies in a section and ms bytes from it on are
        STORED (section offset + ms <= SizeOfRawData): exactly the slices a file view can serve. ---- *)
Definition stored_at (secs : list section) (rva ms : N) : bool :=
  match first_v secs rva with
  | Some s => (rva - s_va s <=? s_srd s) && (ms <=? s_srd s - (rva - s_va s))
  | None => false
  end.

(* Exports hint_name (import by name with a hint) falls back to the name search when hint(h) or name_of_hint(h) FAILS; it is
   monotone when both succeed on the file view (decidable); an import by ordinal needs nothing *)
Definition import_readable (c : N -> res (list N)) (t : Exports.tables) (i : Exports.import) : bool :=
  match i with
  | Exports.ByName h _ =>
    match Exports.hint c t h, Exports.name_of_hint c t h with Ok _, Ok _ => true | _, _ => false end
  | Exports.ByOrdinal _ => true
  end.
