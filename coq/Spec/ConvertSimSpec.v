(* Spec for the simulation layer of C06: the two views of one image (the file view over F and the
   mapped view over V = to_view F, same header fields, same base), the decidable provisos of the
   typed-read simulation, "same bytes" on two regions, and the value projections of the directory
   parsers that are compared (everything a parser decodes except the buffer offsets of its borrows). *)
From PV.Model Require Import Machine Mapping Views Headers Convert.
From PV.Model Require Dirs Relocs Rich Exports Imports Resources.
From PV.Spec Require Import MappingSpec ConvertSpec.

(* what PeFile::from_bytes(F) and PeView::from_bytes(to_view F) hold: the same decoded header fields
   (SizeOfHeaders, SizeOfImage, ImageBase - view.rs:61 takes base_address from the optional header -
   and the section table); only the buffer, its machine address and the align kind differ *)
Definition file_view (addr w base soh soi : N) (secs : list section) (img : list N) : view :=
  {| v_file := true; v_addr := addr; v_len := lenN img; v_get := byte_at img; v_w := w; v_base := base;
     v_soh := soh; v_soi := soi; v_secs := secs |}.
Definition mapped_view (addr w base soh soi : N) (secs : list section) (V : list N) : view :=
  {| v_file := false; v_addr := addr; v_len := lenN V; v_get := byte_at V; v_w := w; v_base := base;
     v_soh := soh; v_soi := soi; v_secs := secs |}.

(* the two families of typed reads: derva_* go through slice (the argument is an RVA), deref_* through read (a VA) *)
Inductive path := RvaPath | VaPath.
Definition sl_of (p : path) (v : view) : N -> N -> N -> res region :=
  match p with RvaPath => slice v | VaPath => read v end.
(* the RVA an address of that family denotes *)
Definition rva_of (p : path) (base a : N) : N := match p with RvaPath => a | VaPath => a - base end.

(* the standing hypotheses of every simulation statement: a well-formed table and V = to_view F *)
Definition conv_setting (img : list N) (soh soi : N) (secs : list section) (V : list N) : Prop :=
  Forall section_ok secs /\ soh <= lenN img /\ soh <= soi /\
  wf_sections (lenN img) soh soi secs = true /\ to_view img soh soi secs = Ok V.

(* the two buffers sit at addresses that are congruent modulo the alignment asked for (and the alignment
   divides 2^64, as every power of two does): then "aligned in F" implies "aligned in V" *)
Definition align_compat (align addrF addrV : N) : bool :=
  (W64 mod align =? 0) && (addrV mod align =? addrF mod align).

(* how many bytes from rva on are guaranteed equal in both representations: up to the end of the
   stored-and-mapped part min(VS,SRD) of the section - and up to the end of the raw data when the raw tail
   beyond VirtualSize is zero padding (then it is the whole file slice) *)
Definition agree_len (F : N -> N) (secs : list section) (rva : N) : N :=
  match first_v secs rva with
  | Some s => (if raw_tail_zero F s then s_srd s else mapped_len s) - (rva - s_va s)
  | None => 0
  end.
(* the proviso of a typed read of n bytes at rva (for the sentinel readers n includes the terminator) *)
Definition inside_agree (F : N -> N) (secs : list section) (rva n : N) : bool := n <=? agree_len F secs rva.

(* region r of buffer gF and region r' of buffer gV have the same length and hold the same bytes *)
Definition region_sim (gF gV : N -> N) (r r' : region) : Prop :=
  r_len r' = r_len r /\ forall i, i < r_len r -> gF (r_off r + i) = gV (r_off r' + i).

(* the bytes of a region *)
Definition region_bytes (g : N -> N) (r : region) : list N :=
  map (fun k => g (r_off r + N.of_nat k)) (seq 0 (N.to_nat (r_len r))).

(* ---- directory parsers that have no image-level model elsewhere ---- *)

(* pe64/base_relocs.rs:7 try_from: pe.slice(VirtualAddress, Size, 4), then the first Size bytes *)
Definition relocs_try_from (v : view) (dd : option (N * N)) : res region :=
  match dd with
  | None => Err EBounds
  | Some (va, size) => rd (slice v) va size 4
  end.
(* what BaseRelocs then iterates over (Model/Relocs.v works on this list) *)
Definition relocs_data (v : view) (r : region) : list N := region_bytes (v_get v) r.

(* pe.rs:564 resources() on either view: slice_bytes(VirtualAddress) clamped to Size *)
Definition view_resources (v : view) (dd : option (N * N)) : res Resources.rsec :=
  match dd with
  | None => Err EBounds
  | Some (rva, size) =>
    r <- slice v rva 0 1 ;;
    Ok {| Resources.rs_addr := v_addr v + r_off r; Resources.rs_len := N.min size (r_len r);
          Resources.rs_get := fun i => v_get v (r_off r + i); Resources.rs_va := rva |}
  end.

(* pe.rs:471 rich_structure(): the image as dwords, image.len() / 4 of them *)
Definition dwords_of (g : N -> N) (len : N) : list N :=
  map (fun k => le_value g (4 * N.of_nat k) 4) (seq 0 (N.to_nat (len / 4))).
Definition view_rich (g : N -> N) (len : N) : res (nat * nat) := Rich.try_from (dwords_of g len).

(* ---- value projections: what is compared ---- *)
(* an IMAGE_DEBUG_DIRECTORY without the buffer offset it was read at *)
Definition ddir_vals (d : Dirs.ddir) : N * N * N * N * N :=
  (Dirs.dd_time d, Dirs.dd_type d, Dirs.dd_size d, Dirs.dd_addr d, Dirs.dd_ptr d).

(* an import with the bytes of its name instead of the region *)
Inductive import_val := VByName (hint : N) (name : list N) | VByOrdinal (ord : N).
Definition import_vals (g : N -> N) (i : Imports.import) : import_val :=
  match i with
  | Imports.ByName h n => VByName h (region_bytes g n)
  | Imports.ByOrdinal o => VByOrdinal o
  end.

(* the headers of the file lie inside SizeOfHeaders (validate_headers checks them against the length of the
   buffer only): DOS header, NT headers with the data directory, section table *)
Definition headers_within (f : fmt) (m : mem) : bool :=
  (64 <=? h_soh f m) &&
  (e_lfanew m + f_nt_size f + N.min (h_nrva f m) 16 * 8 <=? h_soh f m) &&
  (sec_table_off f m + h_nsec f m * 40 <=? h_soh f m).
