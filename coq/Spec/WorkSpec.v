(* C03, work bounds: ghost step counters for the traversals whose cost is not the number of items.
   [exec_steps] is Model/Exec.v's [exec] / [many_loop] with one more component in the result: the number
   of atoms executed plus the number of retry-loop iterations, summed over all nested invocations.
   Nothing here is extracted into a correspondence; Proofs/WorkProofs.v proves that erasing the counter
   gives back the model function (so the counter observes the model, it does not change it). *)
From PV.Model Require Import Machine Pattern Exec.

Definition sres := (xres * N)%type.

Definition tick (r : res sres) : res sres :=
  match r with Ok (x, n) => Ok (x, 1 + n) | Err e => Err e | Fault f => Fault f end.
Definition erase {A} (r : res (A * N)) : res A :=
  match r with Ok (x, _) => Ok x | Err e => Err e | Fault f => Fault f end.
Definition steps_of {A} (r : res (A * N)) : N := match r with Ok (_, n) => n | _ => 0 end.

(* one unit per loop iteration (the byte comparison of the memchr path, or the attempt), plus the attempt's own steps *)
Fixpoint many_loop_steps (run : N -> list N -> res sres) (peek : option N) (byte_at : N -> N)
         (cnt : nat) (i : N) (save : list N) (last : nat * N) : res sres :=
  match cnt with
  | O => Ok ((false, fst last, snd last, save), 0)
  | S cnt' =>
    let try_it := match peek with Some b => byte_at i =? b | None => true end in
    if try_it then
      r <- run i save ;;
      let '((ok, pc', cur', save'), n) := r in
      if ok then Ok ((ok, pc', cur', save'), 1 + n)
      else r2 <- many_loop_steps run peek byte_at cnt' (i + 1) save' (pc', cur') ;;
           Ok (fst r2, 1 + n + snd r2)
    else tick (many_loop_steps run peek byte_at cnt' (i + 1) save last)
  end.

Section ExecSteps.
  Variable sc : scan.
  Variable pat : list atom.

  Fixpoint exec_steps (fuel : nat) (pc : nat) (cur : N) (mask ext : N) (save : list N) {struct fuel} : res sres :=
    match fuel with
    | O => Fault OutOfFuel
    | S f =>
      match nth_error pat pc with
      | None => Ok ((true, pc, cur, save), 0)
      | Some a =>
        let pc := S pc in
        let fail := Ok ((false, pc, cur, save), 1) in
        match a with
        | Byte b =>
          match sc_read sc 1 cur with
          | Some x => if N.land x mask =? N.land b mask
                      then c <- chk_add W32 cur 1 ;; tick (exec_steps f pc c 255 ext save)
                      else fail
          | None => fail
          end
        | Save s => tick (exec_steps f pc cur mask ext (set_slot save s cur))
        | Push k =>
          let cursor := wadd32 cur (skip_amount sc ext k) in
          r <- exec_steps f pc cur 255 0 save ;;
          let '((ok, pc', cur', save'), n) := r in
          if ok then r2 <- exec_steps f pc' cursor 255 0 save' ;; Ok (fst r2, 1 + n + snd r2)
          else Ok ((false, pc', cur', save'), 1 + n)
        | Pop => Ok ((true, pc, cur, save), 1)
        | Fuzzy m => tick (exec_steps f pc cur m ext save)
        | Skip k => tick (exec_steps f pc (wadd32 cur (skip_amount sc ext k)) mask 0 save)
        | Back k => tick (exec_steps f pc (wsubw32 cur (skip_amount sc ext k)) mask 0 save)
        | Rangext e => tick (exec_steps f pc cur mask (e * 256) save)
        | Many lim =>
          let limit := ext + lim in
          match sc_slice_len sc cur with
          | None => fail
          | Some slen =>
            let n := if limit =? 0 then slen else N.min limit slen in
            let peek := peek_byte (skipn pc pat) in
            tick (many_loop_steps (fun i s => exec_steps f pc (wadd32 cur i) 255 0 s) peek (sc_slice_byte sc cur)
                      (N.to_nat n) 0 save (pc, cur))
          end
        | Jump1 =>
          match sc_read sc 1 cur with
          | Some x => tick (exec_steps f pc (wadd32 (wadd32 cur (sext 8 x)) 1) mask ext save)
          | None => fail
          end
        | Jump4 =>
          match sc_read sc 4 cur with
          | Some x => tick (exec_steps f pc (wadd32 (wadd32 cur x) 4) mask ext save)
          | None => fail
          end
        | Ptr =>
          match sc_read sc (sc_va_bytes sc) cur with
          | Some va => match sc_pointer sc va with Some rva => tick (exec_steps f pc rva mask ext save) | None => fail end
          | None => fail
          end
        | Pir s =>
          match sc_read sc 4 cur with
          | Some x => let base := match get_slot save s with Some b => b | None => cur end in
                      tick (exec_steps f pc (wadd32 base x) mask ext save)
          | None => fail
          end
        | VTypeName =>
          match vtypename sc cur with Some c => tick (exec_steps f pc c mask ext save) | None => fail end
        | Check s =>
          match get_slot save s with
          | Some rva => if rva =? cur then tick (exec_steps f pc cur mask ext save) else fail
          | None => tick (exec_steps f pc cur mask ext save)
          end
        | Aligned k =>
          let m := if k <? 32 then 2 ^ k - 1 else W32 - 1 in
          if N.land cur m =? 0 then tick (exec_steps f pc cur mask ext save) else fail
        | ReadU8 s =>
          match sc_read sc 1 cur with Some x => tick (exec_steps f pc (wadd32 cur 1) mask ext (set_slot save s x)) | None => fail end
        | ReadI8 s =>
          match sc_read sc 1 cur with Some x => tick (exec_steps f pc (wadd32 cur 1) mask ext (set_slot save s (sext 8 x))) | None => fail end
        | ReadU16 s =>
          match sc_read sc 2 cur with Some x => tick (exec_steps f pc (wadd32 cur 2) mask ext (set_slot save s x)) | None => fail end
        | ReadI16 s =>
          match sc_read sc 2 cur with Some x => tick (exec_steps f pc (wadd32 cur 2) mask ext (set_slot save s (sext 16 x))) | None => fail end
        | ReadU32 s | ReadI32 s =>
          match sc_read sc 4 cur with Some x => tick (exec_steps f pc (wadd32 cur 4) mask ext (set_slot save s x)) | None => fail end
        | Zero s => tick (exec_steps f pc cur mask ext (set_slot save s 0))
        | Case next =>
          r <- exec_steps f pc cur 255 0 save ;;
          let '((ok, pc', cur', save'), n) := r in
          r2 <- (if ok then exec_steps f pc' cur' mask ext save'
                 else exec_steps f (pc + N.to_nat next) cur mask ext save') ;;
          Ok (fst r2, 1 + n + snd r2)
        | Break next => Ok ((true, (pc + N.to_nat next)%nat, cur, save), 1)
        | Nop => tick (exec_steps f pc cur mask ext save)
        end
      end
    end.

  (* Scanner::exec(cursor, pat, save) with its total step count *)
  Definition run_exec_steps (cursor : N) (save : list N) : res (bool * list N * N) :=
    r <- exec_steps (S (length pat)) 0 cursor 255 0 save ;;
    let '((ok, _, _, save'), n) := r in Ok (ok, save', n).
End ExecSteps.

(* ---- the static bound ---- *)

(* ext_range is 0 or 256 * the operand of a Rangext atom executed earlier; the program counter only moves
   forward, so at position i it is at most the largest such operand among the atoms before i *)
Definition ext_next (a : atom) (x : N) : N := match a with Rangext e => N.max x (e * 256) | _ => x end.

(* number of cursor positions a Many atom can try: limit = ext_range + operand, 0 meaning "to the end of the
   slice"; never more than the longest slice the scan can return ([smax]) *)
Definition many_factor (smax x lim : N) : N := if lim =? 0 then smax else N.min smax (x + lim).

(* [cf] = 1 for patterns whose Case blocks are properly nested (every parser output without a brace left open
   inside an alternative), 2 for arbitrary atom lists *)
Fixpoint wcost (cf smax : N) (l : list atom) (x : N) : N :=
  match l with
  | [] => 0
  | a :: t =>
    match a with
    | Many lim => (many_factor smax x lim + 1) * (1 + wcost cf smax t x)
    | Case _ => 1 + cf * wcost cf smax t x
    | _ => 1 + wcost cf smax t (ext_next a x)
    end
  end.

(* closed form: one factor (limit_i + 1) per Many atom, [cf] per Case atom *)
Fixpoint wprod (cf smax : N) (l : list atom) (x : N) : N :=
  match l with
  | [] => 1
  | a :: t =>
    match a with
    | Many lim => (many_factor smax x lim + 1) * wprod cf smax t x
    | Case _ => cf * wprod cf smax t x
    | _ => wprod cf smax t (ext_next a x)
    end
  end.

(* ---- proper nesting of Case blocks: a static check ----
   [nest q fuel p d]: an invocation of exec that starts at p < q with d invocations of Push / Case suspended
   above it inside the block ending at q can only fail at a position <= q, and control never reaches q or
   beyond except by returning true to the invocation that owns the block. *)
Section Nest.
  Variable pat : list atom.
  Fixpoint nest (q : nat) (fuel : nat) (p : nat) (d : nat) : bool :=
    match fuel with
    | O => false
    | S f =>
      match nth_error pat p with
      | None => true
      | Some a =>
        if Nat.leb q p then false else
        match a with
        | Pop => match d with O => true | S d' => nest q f (S p) d' end
        | Break k => match d with O => true | S d' => nest q f (S p + N.to_nat k) d' end
        | Push _ => nest q f (S p) (S d)
        | Case k => nest q f (S p) (S d) && nest q f (S p + N.to_nat k) d
        | _ => nest q f (S p) d
        end
      end
    end.

  Definition case_nested_at (pc : nat) : bool :=
    match nth_error pat pc with
    | Some (Case k) => nest (S pc + N.to_nat k) (S (length pat)) (S pc) 0
    | _ => true
    end.
  Definition cases_nested : bool := forallb case_nested_at (seq 0 (length pat)).
End Nest.

(* ================= item counts and visit counters of the directory traversals ================= *)
From PV.Model Require VersionInfo Resources.

(* every item a TLV Parser yields until it is exhausted, errors included; None = out of fuel *)
Fixpoint parser_run (fuel : nat) (vl : VersionInfo.vlt) (ws : list N) : option (list (res VersionInfo.tlv)) :=
  match fuel with
  | O => None
  | S f =>
    match VersionInfo.parser_next vl ws with
    | None => Some []
    | Some (x, rest) => match parser_run f vl rest with Some l => Some (x :: l) | None => None end
    end
  end.
Definition is_ok {A} (r : res A) : bool := match r with Ok _ => true | _ => false end.

(* Resources::fsck with a visit counter: (result, number of directory entries looked at).  The counter is
   returned on the error paths too. *)
Section FsckCount.
  Variable s : Resources.rsec.
  Variable below : N -> N -> res N * N.
  Fixpoint fsck_loop_c (es : list N) (b : N) {struct es} : res N * N :=
    match es with
    | [] => (Ok b, 0)
    | e :: r =>
      if b =? 0 then (Err EInsanity, 0) else
      match Resources.e_name s e with
      | Err x => (Err x, 1) | Fault x => (Fault x, 1)
      | Ok _ =>
        match Resources.e_entry s e with
        | Err x => (Err x, 1) | Fault x => (Fault x, 1)
        | Ok en =>
          let sub := match en with
                     | Resources.EDir o => below o (b - 1)
                     | Resources.EData o => (_ <- Resources.data_bytes s o ;; Ok (b - 1), 0)
                     end in
          match fst sub with
          | Err x => (Err x, 1 + snd sub) | Fault x => (Fault x, 1 + snd sub)
          | Ok b1 => let rest := fsck_loop_c r b1 in (fst rest, 1 + snd sub + snd rest)
          end
        end
      end
    end.
End FsckCount.
Fixpoint fsck_dir_c (d : nat) (s : Resources.rsec) (off b : N) {struct d} : res N * N :=
  match d with
  | O => (Err EInsanity, 0)
  | S d' => fsck_loop_c s (fsck_dir_c d' s) (Resources.entries s off) b
  end.
Definition fsck_c (s : Resources.rsec) : res unit * N :=
  match Resources.root s with
  | Ok r => let x := fsck_dir_c Resources.FSCK_DEPTH s r (Resources.fsck_budget s) in
            (_ <- fst x ;; Ok tt, snd x)
  | Err e => (Err e, 0)
  | Fault f => (Fault f, 0)
  end.

Definition witem_count (l : list Resources.witem) : N :=
  lenN (filter (fun w => match w with Resources.WItem _ => true | _ => false end) l).

(* ================= string enumerator: bytes examined ================= *)
From PV.Model Require Strings.
(* Model/Strings.v [scan] with the number of bytes it looks at (one per loop iteration) *)
Fixpoint scan_c (c : Strings.cfg) (base : N) (rest : list N) (start i : N) : option (Strings.found * N) * N :=
  match rest with
  | [] =>
    (if negb (start =? i) && negb (Strings.strict c) && (Strings.min_len c <=? i - start)
     then Some (Strings.mk base start i false, i) else None, 0)
  | b :: rest' =>
    let more (r : option (Strings.found * N) * N) := (fst r, 1 + snd r) in
    if Strings.is_printable b then more (scan_c c base rest' start (i + 1))
    else if b =? 0 then
      if Strings.min_len_nul c <=? i - start then (Some (Strings.mk base start i true, i + 1), 1)
      else more (scan_c c base rest' (i + 1) (i + 1))
    else if negb (Strings.strict c) then
      if Strings.min_len c <=? i - start then (Some (Strings.mk base start i false, i + 1), 1)
      else more (scan_c c base rest' (i + 1) (i + 1))
    else more (scan_c c base rest' (i + 1) (i + 1))
  end.
Definition next_c (c : Strings.cfg) (base : N) (bytes : list N) (offset : N) : option (Strings.found * N) * N :=
  scan_c c base (skipn (N.to_nat offset) bytes) offset offset.
Fixpoint enumerate_fuel_c (fuel : nat) (c : Strings.cfg) (base : N) (bytes : list N) (offset : N) : res (list Strings.found * N) :=
  match fuel with
  | O => Fault OutOfFuel
  | S fuel' =>
    match next_c c base bytes offset with
    | (None, n) => Ok ([], n)
    | (Some (x, off'), n) => r <- enumerate_fuel_c fuel' c base bytes off' ;; Ok (x :: fst r, n + snd r)
    end
  end.
Definition enumerate_c (c : Strings.cfg) (base : N) (bytes : list N) : res (list Strings.found * N) :=
  enumerate_fuel_c (S (length bytes)) c base bytes 0.
