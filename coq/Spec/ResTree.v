(* Spec for C12: what a resource section denotes.

   1. One-step format facts as booleans over the section bytes ([dir_at], [name_at], [data_at]):
      the PE/COFF layout of IMAGE_RESOURCE_DIRECTORY, its entry array, name strings and data entries.
   2. [rtree] / [repr]: "the directory at [off] represents tree [t]" - counts in the header, entries at
      off+16+8i in stored order, names, sub-directories and data entries at their stored offsets,
      data = Size bytes at OffsetToData - VA.  [flatten] is the depth-first listing of a tree.
   3. The documented name-matching rule ([name_matches]): '#<id>', predefined '#TYPE', exact UTF-16.
   4. Lookups read off a depth-first listing ([t_get], [t_find_resource], ...): "the first entry of the
      traversal whose name matches"; consistency ([items_clean]).
   The functions of part 1, 3, 4 are extracted and evaluated on the implementation's observations. *)
From PV.Model Require Import Machine Mapping Resources.

(* ------------------------------------------------------------------ 1. one-step format facts *)
Definition in_sec (s : rsec) (off size align : N) : bool :=
  (off + size <=? rs_len s) && ((rs_addr s + off) mod align =? 0).

(* a directory header at [off] whose entry array fits *)
Definition dir_at (s : rsec) (off : N) : bool :=
  in_sec s off 16 4 && (off + 16 + 8 * (rd16 s (off + 12) + rd16 s (off + 14)) <=? rs_len s).
Definition dir_count (s : rsec) (off : N) : N := rd16 s (off + 12) + rd16 s (off + 14).
Definition entry_pos (off : N) (i : nat) : N := off + 16 + 8 * N.of_nat i.

(* the Name field of the entry at [e] denotes [n] *)
Definition name_at (s : rsec) (e : N) (n : name) : bool :=
  let v := rd32 s e in
  match n with
  | NId id => (v <? B31) && (id =? v)
  | NWide ws =>
    (B31 <=? v) &&
    let o := v - B31 in
    in_sec s o 2 2 && (o + 2 + 2 * rd16 s o <=? rs_len s) && list_eqb ws (words s (o + 2) (rd16 s o))
  | NStr _ => false
  end.
(* a data entry at [o] describing [size] bytes at section offset [start] with code page [cp] *)
Definition data_at (s : rsec) (o start size cp : N) : bool :=
  in_sec s o 16 4 && (rd32 s o =? rs_va s + start) && (size =? rd32 s (o + 4)) && (cp =? rd32 s (o + 8))
  && (start + size <=? rs_len s) && (start + size <? W32).

(* ------------------------------------------------------------------ 2. trees *)
Inductive rtree :=
| RData (o start size cp : N)
| RDir (o : N) (kids : list (name * rtree)).

Definition rt_off (t : rtree) : N := match t with RData o _ _ _ => o | RDir o _ => o end.
Definition rt_isdir (t : rtree) : bool := match t with RData _ _ _ _ => false | RDir _ _ => true end.

(* the Offset field of an entry: high bit = directory *)
Definition link_at (s : rsec) (e : N) (t : rtree) : bool :=
  let v := rd32 s (e + 4) in
  if rt_isdir t then (B31 <=? v) && (rt_off t =? v - B31) else (v <? B31) && (rt_off t =? v).

Section Kids.
  Variable s : rsec.
  Variable rep : rtree -> bool.
  (* the entry array starting at [e] denotes the children [l] *)
  Fixpoint repr_kids (e : N) (l : list (name * rtree)) {struct l} : bool :=
    match l with
    | [] => true
    | nk :: r => name_at s e (fst nk) && link_at s e (snd nk) && rep (snd nk) && repr_kids (e + 8) r
    end.
End Kids.
Fixpoint repr (s : rsec) (t : rtree) {struct t} : bool :=
  match t with
  | RData o start size cp => data_at s o start size cp
  | RDir o kids => dir_at s o && (lenN kids =? dir_count s o) && repr_kids s (fun k => repr s k) (o + 16) kids
  end.

Fixpoint height (t : rtree) : nat :=
  match t with
  | RData _ _ _ _ => 0
  | RDir _ kids => S (fold_right (fun nk m => Nat.max (height (snd nk)) m) 0%nat kids)
  end.
Definition size_kids (sz : rtree -> N) (kids : list (name * rtree)) : N :=
  fold_right (fun nk m => 1 + sz (snd nk) + m) 0 kids.
(* number of directory entries in the unfolding of the tree *)
Fixpoint size (t : rtree) : N :=
  match t with
  | RData _ _ _ _ => 0
  | RDir _ kids => size_kids size kids
  end.

(* depth-first listing: the entry, then what is below it, then its later siblings *)
Definition item_of (lvl e : N) (named : bool) (n : name) (k : rtree) : item :=
  {| i_lvl := lvl; i_eoff := e; i_named := named; i_name := Ok n; i_isdir := rt_isdir k;
     i_tgt := match k with
              | RData o start sz cp => TData o (Ok {| r_off := start; r_len := sz |}) sz cp
              | RDir o _ => TDir o
              end |}.
Section FlattenKids.
  Variable fl : rtree -> list witem.
  Variable lvl named : N.
  Fixpoint flatten_kids (e idx : N) (l : list (name * rtree)) {struct l} : list witem :=
    match l with
    | [] => []
    | nk :: r => WItem (item_of lvl e (idx <? named) (fst nk) (snd nk)) :: fl (snd nk) ++ flatten_kids (e + 8) (idx + 1) r
    end.
End FlattenKids.
Fixpoint flatten (s : rsec) (lvl : N) (t : rtree) {struct t} : list witem :=
  match t with
  | RData _ _ _ _ => []
  | RDir o kids => flatten_kids (fun k => flatten s (lvl + 1) k) lvl (rd16 s (o + 12)) (o + 16) 0 kids
  end.

(* a tree laid out without sharing: the 8-byte entry records of its unfolding are pairwise disjoint
   (no directory is referenced twice, no two entry arrays overlap) *)
Definition entry_offsets (l : list witem) : list N :=
  flat_map (fun w => match w with WItem i => [i_eoff i] | _ => [] end) l.
Definition disjoint_records (offs : list N) : Prop := ForallOrdPairs (fun a b => a + 8 <= b \/ b + 8 <= a) offs.

(* reachability among directories, read off the bytes: an entry of the directory at [o] with the directory bit refers to [o'] *)
Definition child_dir (s : rsec) (o o' : N) : Prop :=
  exists i, (i < N.to_nat (dir_count s o))%nat /\ B31 <= rd32 s (entry_pos o i + 4) /\ o' = rd32 s (entry_pos o i + 4) - B31.
Inductive dir_path (s : rsec) : nat -> N -> N -> Prop :=
| dp_nil o : dir_path s 0 o o
| dp_step n o o1 o' : child_dir s o o1 -> dir_path s n o1 o' -> dir_path s (S n) o o'.
(* some directory reachable from the root contains itself, directly or through descendants *)
Definition cyclic (s : rsec) : Prop := exists o n m, dir_path s n 0 o /\ dir_path s (S m) o o.

(* ------------------------------------------------------------------ 3. name matching *)
Definition scalar (c : N) : bool := (c <? 55296) || ((57343 <? c) && (c <? 1114112)).
Fixpoint utf16_encode (cs : list N) : list N :=
  match cs with
  | [] => []
  | c :: r => if c <? 65536 then c :: utf16_encode r
              else (55296 + (c - 65536) / 1024) :: (56320 + (c - 65536) mod 1024) :: utf16_encode r
  end.
Definition digit (c : N) : bool := (48 <=? c) && (c <=? 57).
Fixpoint decimal_value (ds : list N) (acc : N) : N :=
  match ds with [] => acc | d :: r => decimal_value r (acc * 10 + (d - 48)) end.
(* '#' followed by a decimal number equal to the id, or the predefined name of the id *)
Definition str_matches_id (id : N) (cs : list N) : bool :=
  match cs with
  | h :: d :: r =>
    (h =? 35) &&
    (if digit d then forallb digit r && (decimal_value (d :: r) 0 =? id)
     else match rsrc_type id with Some nm => list_eqb cs nm | None => false end)
  | _ => false
  end.
(* [n] a stored name (id or UTF-16), [q] what the caller asks for *)
Definition name_matches (n q : name) : bool :=
  match q, n with
  | NId x, NId y => y =? x
  | NWide a, NWide b => list_eqb b a
  | NStr cs, NId id => str_matches_id id cs
  | NStr cs, NWide ws => list_eqb ws (utf16_encode cs)
  | _, _ => false
  end.

(* ------------------------------------------------------------------ 4. lookups on a listing *)
Fixpoint take_sub (lvl : N) (l : list witem) : list witem :=
  match l with
  | [] => []
  | WItem i :: r => if lvl <? i_lvl i then WItem i :: take_sub lvl r else []
  | x :: r => x :: take_sub lvl r
  end.
(* the entries of one directory (level [lvl]) with the listing below each *)
Fixpoint kids_of (lvl : N) (l : list witem) : list (item * list witem) :=
  match l with
  | [] => []
  | WItem i :: r => if i_lvl i =? lvl then (i, take_sub lvl r) :: kids_of lvl r else kids_of lvl r
  | _ :: r => kids_of lvl r
  end.
Definition complete (l : list witem) : bool :=
  forallb (fun w => match w with WItem _ => true | _ => false end) l.

Definition res_name_matches (rn : res name) (q : name) : bool :=
  match rn with Ok n => name_matches n q | _ => false end.
Definition tgt_ent (t : target) : fres ent :=
  match t with
  | TDir o => FOk (EDir o)
  | TData o _ _ _ => FOk (EData o)
  | TBad (Err e) => FErr (FPe e)
  | TBad (Fault f) => FFault f
  | TBad (Ok _) => FFault PAssert
  end.
Definition t_get (lvl : N) (sub : list witem) (q : name) : option (item * list witem) :=
  find (fun k => res_name_matches (i_name (fst k)) q) (kids_of lvl sub).
Definition t_get_ent (lvl : N) (sub : list witem) (q : name) : fres ent :=
  match t_get lvl sub q with None => FErr FNotFound | Some k => tgt_ent (i_tgt (fst k)) end.
Definition as_dir_l (k : item * list witem) : fres (list witem) :=
  match i_tgt (fst k) with
  | TDir _ => FOk (snd k)
  | TData _ _ _ _ => FErr FUnDataEntry
  | TBad (Err e) => FErr (FPe e)
  | TBad (Fault f) => FFault f
  | TBad (Ok _) => FFault PAssert
  end.
Definition as_bytes_l (k : item * list witem) : fres region :=
  match i_tgt (fst k) with
  | TData _ b _ _ => lift b
  | TDir _ => FErr FUnDirectory
  | TBad (Err e) => FErr (FPe e)
  | TBad (Fault f) => FFault f
  | TBad (Ok _) => FFault PAssert
  end.
Definition t_get_dir (lvl : N) (sub : list witem) (q : name) : fres (list witem) :=
  match t_get lvl sub q with None => FErr FNotFound | Some k => as_dir_l k end.
Definition t_first (lvl : N) (sub : list witem) : fres (item * list witem) :=
  match kids_of lvl sub with [] => FErr FNotFound | k :: _ => FOk k end.

(* [type, name] -> first language; [type, name, language] *)
Definition t_find_resource (items : list witem) (a b : name) : fres region :=
  d1 <-- t_get_dir 0 items a ;; d2 <-- t_get_dir 1 d1 b ;; k <-- t_first 2 d2 ;; as_bytes_l k.
Definition t_find_resource_ex (items : list witem) (a b c : name) : fres region :=
  d1 <-- t_get_dir 0 items a ;; d2 <-- t_get_dir 1 d1 b ;;
  match t_get 2 d2 c with None => FErr FNotFound | Some k => as_bytes_l k end.
(* a path of components below the root *)
Fixpoint t_find_parts (lvl : N) (cur : fres ent) (sub : option (list witem)) (parts : list (list N)) : fres ent :=
  match parts with
  | [] => cur
  | p :: r =>
    match sub with
    | None => match cur with FOk _ => FErr FUnDataEntry | e => e end
    | Some l =>
      match t_get lvl l (NStr p) with
      | None => FErr FNotFound
      | Some k =>
        match tgt_ent (i_tgt (fst k)) with
        | FOk (EDir o) => t_find_parts (lvl + 1) (FOk (EDir o)) (Some (snd k)) r
        | FOk (EData o) => t_find_parts (lvl + 1) (FOk (EData o)) None r
        | e => e
        end
      end
    end
  end.

(* manifest(): type 24 -> first name -> first language *)
Definition t_manifest (items : list witem) : fres region :=
  d1 <-- t_get_dir 0 items (NId 24) ;; k1 <-- t_first 1 d1 ;; d2 <-- as_dir_l k1 ;; k2 <-- t_first 2 d2 ;; as_bytes_l k2.
(* icons() / cursors(): every entry below the group type [ty], each with the bytes of its first language *)
Definition t_groups (items : list witem) (ty : N) : list (fres (name * region)) :=
  match t_get_dir 0 items (NId ty) with
  | FOk d1 =>
    map (fun k => nm <-- lift (i_name (fst k)) ;; d2 <-- as_dir_l k ;; rg <-- (k2 <-- t_first 2 d2 ;; as_bytes_l k2) ;; FOk (nm, rg))
        (kids_of 1 d1)
  | _ => []
  end.

(* the consistency check must succeed exactly when the whole tree could be listed and every
   name, reference and data range in it is valid *)
Definition item_clean (w : witem) : bool :=
  match w with
  | WItem i =>
    match i_name i, i_tgt i with
    | Ok _, TDir _ => true
    | Ok _, TData _ (Ok _) _ _ => true
    | _, _ => false
    end
  | _ => false
  end.
Definition items_clean (l : list witem) : bool := forallb item_clean l.

(* every reported item is what the bytes say (soundness of a reported listing) *)
Definition item_sound (s : rsec) (i : item) : bool :=
  let e := i_eoff i in
  (e + 8 <=? rs_len s) &&
  Bool.eqb (i_isdir i) (B31 <=? rd32 s (e + 4)) &&
  match i_name i with
  | Ok n => name_at s e n
  | Err _ => (B31 <=? rd32 s e) &&
             negb (in_sec s (rd32 s e - B31) 2 2 && (rd32 s e - B31 + 2 + 2 * rd16 s (rd32 s e - B31) <=? rs_len s))
  | Fault _ => false
  end &&
  match i_tgt i with
  | TDir o => (B31 <=? rd32 s (e + 4)) && (o =? rd32 s (e + 4) - B31) && dir_at s o
  | TData o b sz cp =>
    (rd32 s (e + 4) <? B31) && (o =? rd32 s (e + 4)) && in_sec s o 16 4 && (sz =? rd32 s (o + 4)) && (cp =? rd32 s (o + 8)) &&
    match b with
    | Ok rg => data_at s o (r_off rg) (r_len rg) cp && (r_len rg =? sz)
    | Err _ => negb ((rs_va s <=? rd32 s o) && (rd32 s o - rs_va s + sz <=? rs_len s) && (rd32 s o - rs_va s + sz <? W32))
    | Fault _ => false
    end
  | TBad (Err _) =>
    if B31 <=? rd32 s (e + 4) then negb (dir_at s (rd32 s (e + 4) - B31)) else negb (in_sec s (rd32 s (e + 4)) 16 4)
  | TBad _ => false
  end.
Fixpoint is_prefix (a b : list N) : bool :=
  match a, b with
  | [], _ => true
  | x :: a', y :: b' => (x =? y) && is_prefix a' b'
  | _, _ => false
  end.
Fixpoint named_flags_ok (named : N) (idx : N) (l : list item) : bool :=
  match l with [] => true | i :: r => Bool.eqb (i_named i) (idx <? named) && named_flags_ok named (idx + 1) r end.
(* the entries listed for the directory at [off] are its stored entries, in stored order, named ones first *)
Definition listing_ok (s : rsec) (off lvl : N) (sub : list witem) (full : bool) : bool :=
  let ks := map fst (kids_of lvl sub) in
  let want := map (entry_pos off) (seq 0 (N.to_nat (dir_count s off))) in
  (if full then list_eqb (map i_eoff ks) want else is_prefix (map i_eoff ks) want) &&
  named_flags_ok (rd16 s (off + 12)) 0 ks.
Fixpoint listings_ok (s : rsec) (full : bool) (l : list witem) : bool :=
  match l with
  | [] => true
  | WItem i :: r =>
    item_sound s i &&
    match i_tgt i with TDir o => listing_ok s o (i_lvl i + 1) (take_sub (i_lvl i) r) full | _ => true end &&
    listings_ok s full r
  | _ :: r => listings_ok s full r
  end.
Definition walk_sound (s : rsec) (items : list witem) : bool :=
  let full := complete items in
  dir_at s 0 && listing_ok s 0 0 items full && listings_ok s full items.
