(* Spec/PatSem.v - what a pattern of the documented syntax MEANS, as a structural semantics over the AST of
   Spec/PatSyntax.v, with no program counter and no atoms: [den items slot cursor] is [Some log] when the byte layout at
   [cursor] satisfies the items, where [log] lists the captures (slot, value) in order of appearance, and [None] otherwise.
   This file covers the fragment without braces and alternatives (theorem 3a); for those [den] answers None.

   Conventions (DESIGN.md section 7, C11): a range skip [a-b] skips a <= k < b bytes (F35), the least k for which the
   REST of the pattern matches, and never beyond the end of the readable bytes at the cursor; cursors are u32 and wrap;
   @k tests divisibility by 2^k (k >= 32: by 2^32); slots are numbered in order of appearance. *)
From PV.Model Require Export Machine Pattern Exec.
From PV.Spec Require Export PatSyntax.

Definition wlog := list (N * N).
(* the save array after the captures of a log have been stored (slots beyond the array are dropped) *)
Definition apply_log (lg : wlog) (save : list N) : list N := fold_left (fun sv p => set_slot sv (fst p) (snd p)) lg save.

Section Den.
  Variable sc : scan.

  Fixpoint match_bytes (bs : list N) (cur : N) : option N :=
    match bs with
    | [] => Some cur
    | b :: t => match sc_read sc 1 cur with Some x => if x =? b then match_bytes t (cur + 1) else None | None => None end
    end.
  Definition jump_target (j : jkind) (cur : N) : option N :=
    match j with
    | J1 => match sc_read sc 1 cur with Some x => Some (wadd32 (wadd32 cur (sext 8 x)) 1) | None => None end
    | J4 => match sc_read sc 4 cur with Some x => Some (wadd32 (wadd32 cur x) 4) | None => None end
    | JP => match sc_read sc (sc_va_bytes sc) cur with Some va => sc_pointer sc va | None => None end
    end.
  Definition read_size (r : rkind) : N := match r with RI8 | RU8 => 1 | RI16 | RU16 => 2 | RI32 | RU32 => 4 end.
  Definition read_value (r : rkind) (x : N) : N := match r with RI8 => sext 8 x | RI16 => sext 16 x | _ => x end.
  (* the least k in [k0, k0 + n) for which the rest matches at base + k *)
  Fixpoint first_match (D : N -> option wlog) (base : N) (n : nat) (k : N) : option wlog :=
    match n with
    | O => None
    | S n' => match D (wadd32 base k) with Some lg => Some lg | None => first_match D base n' (k + 1) end
    end.
  Definition slots_of (it : item) : N := match it with ISave | IRead _ | IZero => 1 | _ => 0 end.

  (* one item, [D] = the meaning of what follows it *)
  Definition den_step (it : item) (s : N) (D : N -> option wlog) (cur : N) : option wlog :=
    match it with
    | IByte b => match match_bytes [b] cur with Some c => D c | None => None end
    | IStr bs => match match_bytes bs cur with Some c => D c | None => None end
    | IWild n => D (wadd32 cur (N.of_nat n))
    | ISkip n => D (wadd32 cur n)
    | IRange a b =>
      let c := wadd32 cur a in
      match sc_slice_len sc c with
      | None => None
      | Some slen => first_match D c (N.to_nat (N.min (b - a) slen)) 0
      end
    | ISave => option_map (cons (s, cur)) (D cur)
    | IRead r =>
      match sc_read sc (read_size r) cur with
      | Some x => option_map (cons (s, read_value r x)) (D (wadd32 cur (read_size r)))
      | None => None
      end
    | IZero => option_map (cons (s, 0)) (D cur)
    | IAlign k => if cur mod 2 ^ (N.min k 32) =? 0 then D cur else None
    | IJump j => match jump_target j cur with Some c => D c | None => None end
    | ISub _ _ | IAlt _ _ => None
    end.
  Fixpoint den (l : list item) (s : N) : N -> option wlog :=
    match l with
    | [] => fun _ => Some []
    | it :: t => den_step it s (den t (s + slots_of it))
    end.
  (* the whole pattern: slot 0 is the cursor where the match was attempted *)
  Definition den_top (l : list item) (cur : N) : option wlog := option_map (cons (0, cur)) (den l 1 cur).
End Den.

(* what is assumed of a Scan implementation: reads of n bytes are n-byte values, a readable byte does not sit at the last
   address (so the cursor does not overflow), pointers translate to u32 rvas, and the slice at a cursor shows the same bytes as byte reads *)
Definition scan_wf (sc : scan) : Prop :=
  (forall rva x, sc_read sc 1 rva = Some x -> x < 256 /\ rva + 1 < W32) /\
  (forall va rva, sc_pointer sc va = Some rva -> rva < W32) /\
  (forall c slen i x, sc_slice_len sc c = Some slen -> i < slen -> sc_read sc 1 (wadd32 c i) = Some x -> sc_slice_byte sc c i = x).

(* the last item constrains something (otherwise the parser trims it and the pattern says less than it is written) *)
Definition solid_item (it : item) : bool :=
  match it with IByte _ | ISave | IRead _ | IZero | IAlign _ | IJump _ => true | IStr (_ :: _) => true | _ => false end.
Definition ends_solid (l : list item) : bool := match rev l with [] => true | it :: _ => solid_item it end.
