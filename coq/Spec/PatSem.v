(* Spec/PatSem.v - what a pattern of the documented syntax MEANS, as a structural semantics over the AST of
   Spec/PatSyntax.v, with no program counter and no atoms: [den items slot D cursor] is [Some (log, c)] when the byte layout
   at [cursor] satisfies the items and then [D] (the meaning of what follows them in the enclosing group) is satisfied;
   [log] lists the captures (slot, value) in order of appearance, [c] is the cursor where the enclosing group ended.

   Conventions (DESIGN.md section 7, C11): a range skip [a-b] skips a <= k < b bytes (F35), the least k for which the
   REST OF THE ENCLOSING GROUP matches, and never beyond the end of the readable bytes at the cursor; cursors are u32 and
   wrap; @k tests divisibility by 2^k (k >= 32: by 2^32). GROUPS ARE ATOMIC: a brace sub-pattern and every alternative
   match on their own (continuation [dend]) and are not re-entered if what follows fails. A brace sub-pattern is matched
   at the jump target and matching resumes at the byte after the jump operand; alternatives are tried left to right and
   matching resumes where the chosen alternative ended. Slots are numbered in order of appearance; every alternative
   starts numbering where the group started, numbering continues after the group from the maximum. *)
From PV.Model Require Export Machine Pattern Exec.
From PV.Spec Require Export PatSyntax.

Definition wlog := list (N * N).
(* the save array after the captures of a log have been stored (slots beyond the array are dropped) *)
Definition apply_log (lg : wlog) (save : list N) : list N := fold_left (fun sv p => set_slot sv (fst p) (snd p)) lg save.

(* the number of save slots an item takes: a group takes what its largest alternative takes *)
Fixpoint slots_of (it : item) : N :=
  match it with
  | ISave | IRead _ | IZero => 1
  | ISub _ sub => fold_right (fun x n => slots_of x + n) 0 sub
  | IAlt a more => fold_right N.max 0 (map (fun l => fold_right (fun x n => slots_of x + n) 0 l) (a :: more))
  | _ => 0
  end.
Definition nslots (l : list item) : N := fold_right (fun x n => slots_of x + n) 0 l.

(* the answer of the semantics: the write log and the cursor where the enclosing group ended *)
Definition dres := option (wlog * N).
Definition dend : N -> dres := fun c => Some ([], c).
Definition dpre (lg1 : wlog) (r : dres) : dres := match r with Some (lg, c) => Some (lg1 ++ lg, c) | None => None end.

Section Den.
  Variable sc : scan.

  Fixpoint match_bytes (bs : list N) (cur : N) : option N :=
    match bs with
    | [] => Some cur
    | b :: t => match sc_read sc 1 cur with Some x => if x =? b then match_bytes t (cur + 1) else None | None => None end
    end.
  Definition jump_target (j : jkind) (cur : N) : option N :=
    match j with
    | J1 => match sc_read sc 1 cur with Some x => Some (wadd32 (wadd32 cur (sext 8 x)) 1) | None => None end
    | J4 => match sc_read sc 4 cur with Some x => Some (wadd32 (wadd32 cur x) 4) | None => None end
    | JP => match sc_read sc (sc_va_bytes sc) cur with Some va => sc_pointer sc va | None => None end
    end.
  Definition read_size (r : rkind) : N := match r with RI8 | RU8 => 1 | RI16 | RU16 => 2 | RI32 | RU32 => 4 end.
  Definition read_value (r : rkind) (x : N) : N := match r with RI8 => sext 8 x | RI16 => sext 16 x | _ => x end.
  (* the least k in [k0, k0 + n) for which the rest matches at base + k *)
  Fixpoint first_match {A} (D : N -> option A) (base : N) (n : nat) (k : N) : option A :=
    match n with
    | O => None
    | S n' => match D (wadd32 base k) with Some lg => Some lg | None => first_match D base n' (k + 1) end
    end.
  Definition jump_size (j : jkind) : N := match j with J1 => 1 | J4 => 4 | JP => sc_va_bytes sc end.

  (* the first alternative that matches on its own *)
  Definition first_alt {A B} (f : A -> option B) : list A -> option B :=
    fix go (ls : list A) : option B :=
      match ls with [] => None | l :: t => match f l with Some r => Some r | None => go t end end.

  (* one item at slot [s]; [D] = the meaning of what follows it in the enclosing group *)
  Fixpoint den_item (it : item) (s : N) (D : N -> dres) (cur : N) {struct it} : dres :=
    let seq := fix seq (l : list item) (s : N) (D : N -> dres) {struct l} : N -> dres :=
      match l with [] => D | x :: t => den_item x s (seq t (s + slots_of x) D) end in
    match it with
    | IByte b => match match_bytes [b] cur with Some c => D c | None => None end
    | IStr bs => match match_bytes bs cur with Some c => D c | None => None end
    | IWild n => D (wadd32 cur (N.of_nat n))
    | ISkip n => D (wadd32 cur n)
    | IRange a b =>
      let c := wadd32 cur a in
      match sc_slice_len sc c with
      | None => None
      | Some slen => first_match D c (N.to_nat (N.min (b - a) slen)) 0
      end
    | ISave => dpre [(s, cur)] (D cur)
    | IRead r =>
      match sc_read sc (read_size r) cur with
      | Some x => dpre [(s, read_value r x)] (D (wadd32 cur (read_size r)))
      | None => None
      end
    | IZero => dpre [(s, 0)] (D cur)
    | IAlign k => if cur mod 2 ^ (N.min k 32) =? 0 then D cur else None
    | IJump j => match jump_target j cur with Some c => D c | None => None end
    | ISub j sub =>
      match jump_target j cur with
      | Some t => match seq sub s dend t with
                  | Some (lg1, _) => dpre lg1 (D (wadd32 cur (jump_size j)))
                  | None => None
                  end
      | None => None
      end
    | IAlt a more =>
      match first_alt (fun l => seq l s dend cur) (a :: more) with
      | Some (lg1, c1) => dpre lg1 (D c1)
      | None => None
      end
    end.
  Definition den : list item -> N -> (N -> dres) -> N -> dres :=
    fix seq (l : list item) (s : N) (D : N -> dres) {struct l} : N -> dres :=
      match l with [] => D | x :: t => den_item x s (seq t (s + slots_of x) D) end.
  (* the whole pattern: slot 0 is the cursor where the match was attempted *)
  Definition den_top (l : list item) (cur : N) : option wlog :=
    match den l 1 dend cur with Some (lg, _) => Some ((0, cur) :: lg) | None => None end.
End Den.

(* what is assumed of a Scan implementation: reads of n bytes are n-byte values, a readable byte does not sit at the last
   address (so the cursor does not overflow), pointers translate to u32 rvas, and the slice at a cursor shows the same bytes as byte reads *)
Definition scan_wf (sc : scan) : Prop :=
  (forall rva x, sc_read sc 1 rva = Some x -> x < 256 /\ rva + 1 < W32) /\
  (forall va rva, sc_pointer sc va = Some rva -> rva < W32) /\
  (forall c slen i x, sc_slice_len sc c = Some slen -> i < slen -> sc_read sc 1 (wadd32 c i) = Some x -> sc_slice_byte sc c i = x).

(* the last item constrains something (otherwise the parser trims it and the pattern says less than it is written) *)
Definition solid_item (it : item) : bool :=
  match it with IByte _ | ISave | IRead _ | IZero | IAlign _ | IJump _ => true | IStr (_ :: _) => true | _ => false end.
Definition ends_solid (l : list item) : bool := match rev l with [] => true | it :: _ => solid_item it end.

(* ---------------------------------------------------------------- the known class F34
   The implementation compiles the LAST alternative of a group inline (no Case/Break around it), so a range skip directly
   in it (or in the last alternative of a group that ends it, and so on) retries against what follows the closing
   parenthesis - the one place where groups are not atomic. [tl] = nothing follows the sequence in its invocation
   (top level, brace sub-pattern, every alternative but the last): there inline and atomic coincide. *)
Definition direct_range (l : list item) : bool := existsb (fun it => match it with IRange _ _ => true | _ => false end) l.
Fixpoint pick_last (x : bool * bool) (t : list (bool * bool)) : bool :=
  match t with [] => snd x | y :: t' => fst x || pick_last y t' end.
Fixpoint f34_item (tl : bool) (it : item) {struct it} : bool :=
  let seq := fix seq (tl : bool) (l : list item) {struct l} : bool :=
    match l with [] => false | x :: t => f34_item (tl && match t with [] => true | _ :: _ => false end) x || seq tl t end in
  match it with
  | ISub _ sub => seq true sub
  | IAlt a more =>
    let f := fun l => (seq true l, seq tl l || (negb tl && direct_range l)) in
    pick_last (f a) (map f more)
  | _ => false
  end.
Definition f34_seq : bool -> list item -> bool :=
  fix seq (tl : bool) (l : list item) {struct l} : bool :=
    match l with [] => false | x :: t => f34_item (tl && match t with [] => true | _ :: _ => false end) x || seq tl t end.
Definition range_skip_in_last_alternative_with_suffix (a : list item) : bool := f34_seq true a.

(* the fragment "flat + braces": no alternatives at any depth (never in the class) *)
Fixpoint noalt_item (it : item) : bool :=
  match it with IAlt _ _ => false | ISub _ sub => forallb noalt_item sub | _ => true end.
Definition noalt (l : list item) : bool := forallb noalt_item l.

(* the save-array statement of theorem 3b: the array keeps its length and every slot the log writes holds what the log
   applied to the given array holds there (its last value for that slot); slots the successful path does not write are
   unconstrained - failed alternatives and failed skip candidates leave their writes behind *)
Definition log_ok (lg : wlog) (save save' : list N) : Prop :=
  length save' = length save /\
  forall i, In i (map fst lg) -> nth_error save' (N.to_nat i) = nth_error (apply_log lg save) (N.to_nat i).

(* the compiler output is not trimmed: its last atom constrains something *)
Definition untrimmed (a : list item) : bool :=
  match last_atom (c_res (comp_seq a cinit)) with Some x => negb (is_redundant x) | None => true end.

(* ... or the only atoms the parser trims are the returns of closing braces (a pattern that ends in one or more '}' whose
   innermost sub-pattern ends in an atom that constrains something); weaker than [untrimmed] *)
Fixpoint strip_pops_rev (l : list atom) : list atom := match l with Pop :: t => strip_pops_rev t | _ => l end.
Definition trims_only_braces (a : list item) : bool :=
  match strip_pops_rev (rev (c_res (comp_seq a cinit))) with x :: _ => negb (is_redundant x) | [] => true end.
