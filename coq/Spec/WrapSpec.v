(* Spec for C19: the reading of the property text that does not go through the
   wrapper code, and the boolean oracles evaluated on the implementation's
   observations.

   - variant selection: "select PE32 or PE32+ according to the optional-header magic":
     the variant is decided by the PE/COFF acceptance predicate of Spec/HeaderSpec.v
     (which contains `magic = 0x20b` resp. `0x10b`); nothing else may be returned.
   - "every method returns exactly what the selected format-specific API returns":
     the expected result of a wrapper method is the format-specific operation applied
     with the fmt selected by the magic read at e_lfanew+24.
   - JSON: a serialized computed detail equals the accessor SectionHeaders::by_rva;
     an `.ok()` field is null exactly when the accessor returns an error. *)
From PV.Model Require Import Machine Mapping Views Headers Wrap.
From PV.Spec Require Import HeaderSpec.

(* the variant the property text prescribes; None = the constructor must fail *)
Definition select_spec (m : mem) : option wrapped :=
  if acceptb true m then Some T64 else if acceptb false m then Some T32 else None.

(* the fmt named by the magic in the optional header (independent of the wrapper) *)
Definition fmt_by_magic (m : mem) : option fmt :=
  if s_magic m =? 523 then Some fmt64 else if s_magic m =? 267 then Some fmt32 else None.

Definition wrapped_eqb (a b : wrapped) : bool :=
  match a, b with T32, T32 | T64, T64 => true | _, _ => false end.
Definition select_ok (m : mem) (obs : option wrapped) : bool :=
  match select_spec m, obs with
  | Some a, Some b => wrapped_eqb a b
  | None, None => true
  | _, _ => false
  end.

(* "DataDirectory.Sections": for each data directory the index of the section
   SectionHeaders::by_rva(dd.VirtualAddress) finds *)
Definition optN_eqb (a b : option N) : bool :=
  match a, b with Some x, Some y => x =? y | None, None => true | _, _ => false end.
Fixpoint optN_list_eqb (a b : list (option N)) : bool :=
  match a, b with
  | [], [] => true
  | x :: a', y :: b' => optN_eqb x y && optN_list_eqb a' b'
  | _, _ => false
  end.
Definition details_spec (f : fmt) (m : mem) : list (option N) :=
  map (fun d => by_rva f m (fst d)) (op_data_directory f m).
Definition details_ok (f : fmt) (m : mem) (obs : list (option N)) : bool :=
  optN_list_eqb obs (details_spec f m).

(* an `.ok()`-wrapped field: null exactly when the accessor errs *)
Definition null_ok {A} (accessor : res A) (json_null : bool) : bool :=
  match accessor with
  | Ok _ => negb json_null
  | Err _ => json_null
  | Fault _ => false
  end.
