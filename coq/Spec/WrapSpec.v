(* Spec for C19: the reading of the property text that does not go through the
   wrapper code, and the boolean oracles evaluated on the implementation's
   observations.

   - variant selection: "select PE32 or PE32+ according to the optional-header magic":
     the variant is decided by the PE/COFF acceptance predicate of Spec/HeaderSpec.v
     (which contains `magic = 0x20b` resp. `0x10b`); nothing else may be returned.
   - "every method returns exactly what the selected format-specific API returns":
     the expected result of a wrapper method is the format-specific operation applied
     with the fmt selected by the magic read at e_lfanew+24.
   - JSON: a serialized computed detail equals the accessor SectionHeaders::by_rva;
     an `.ok()` field is null exactly when the accessor returns an error. *)
From PV.Model Require Import Machine Mapping Views Headers Wrap Json.
From PV.Spec Require Import HeaderSpec.

(* the variant the property text prescribes; None = the constructor must fail *)
Definition select_spec (m : mem) : option wrapped :=
  if acceptb true m then Some T64 else if acceptb false m then Some T32 else None.

(* the fmt named by the magic in the optional header (independent of the wrapper) *)
Definition fmt_by_magic (m : mem) : option fmt :=
  if s_magic m =? 523 then Some fmt64 else if s_magic m =? 267 then Some fmt32 else None.

Definition wrapped_eqb (a b : wrapped) : bool :=
  match a, b with T32, T32 | T64, T64 => true | _, _ => false end.
Definition select_ok (m : mem) (obs : option wrapped) : bool :=
  match select_spec m, obs with
  | Some a, Some b => wrapped_eqb a b
  | None, None => true
  | _, _ => false
  end.

(* "DataDirectory.Sections": for each data directory the index of the section
   SectionHeaders::by_rva(dd.VirtualAddress) finds *)
Definition optN_eqb (a b : option N) : bool :=
  match a, b with Some x, Some y => x =? y | None, None => true | _, _ => false end.
Fixpoint optN_list_eqb (a b : list (option N)) : bool :=
  match a, b with
  | [], [] => true
  | x :: a', y :: b' => optN_eqb x y && optN_list_eqb a' b'
  | _, _ => false
  end.
Definition details_spec (f : fmt) (m : mem) : list (option N) :=
  map (fun d => by_rva f m (fst d)) (op_data_directory f m).
Definition details_ok (f : fmt) (m : mem) (obs : list (option N)) : bool :=
  optN_list_eqb obs (details_spec f m).

(* an `.ok()`-wrapped field: null exactly when the accessor errs *)
Definition null_ok {A} (accessor : res A) (json_null : bool) : bool :=
  match accessor with
  | Ok _ => negb json_null
  | Err _ => json_null
  | Fault _ => false
  end.

(* ---- the serialized text (second round) ----
   "Serializing any accepted image succeeds, produces well-formed JSON, and each serialized field
   equals the value the corresponding accessor returns": the oracle evaluated on the text the
   implementation produced.  [text] must be accepted by the validator of Model/Json.v, it must be
   the canonical compact print of the tree it denotes (so the tree loses nothing), and that tree
   without the one member the model does not cover ("resources") must be the model's tree, which
   is built from the accessors (Model/WrapJson.v). *)
Definition k_resources : list N := [114; 101; 115; 111; 117; 114; 99; 101; 115].
Definition drop_member (k : list N) (j : json) : json :=
  match j with
  | JObj l => JObj (filter (fun kv => negb (list_eqb (fst kv) k)) l)
  | _ => j
  end.
Definition json_text_ok (model : res json) (text : list N) : bool :=
  match parse_json text, model with
  | Some j, Ok jm => list_eqb (print_json j) text && list_eqb (print_json (drop_member k_resources j)) (print_json jm)
  | _, _ => false
  end.

(* ---- UTF-8 (RFC 3629), declaratively: a sequence of well-formed 1..4 byte encodings - no overlong forms, no
   surrogates, nothing above U+10FFFF.  RFC 8259 section 8.1 requires JSON text to be UTF-8. ---- *)
Inductive utf8 : list N -> Prop :=
| u_nil : utf8 []
| u_1 b t : b < 128 -> utf8 t -> utf8 (b :: t)
| u_2 b0 b1 t : 194 <= b0 <= 223 -> cont b1 = true -> utf8 t -> utf8 (b0 :: b1 :: t)
| u_3 b0 b1 b2 t : 224 <= b0 <= 239 -> cont b1 = true -> cont b2 = true ->
    (b0 = 224 -> 160 <= b1) -> (b0 = 237 -> b1 <= 159) -> utf8 t -> utf8 (b0 :: b1 :: b2 :: t)
| u_4 b0 b1 b2 b3 t : 240 <= b0 <= 244 -> cont b1 = true -> cont b2 = true -> cont b3 = true ->
    (b0 = 240 -> 144 <= b1) -> (b0 = 244 -> b1 <= 143) -> utf8 t -> utf8 (b0 :: b1 :: b2 :: b3 :: t).


(* every string and every key of a value is valid UTF-8 *)
Fixpoint json_utf8 (j : json) : Prop :=
  match j with
  | JStr s => utf8 s
  | JArr l => (fix go (l : list json) : Prop := match l with [] => True | x :: t => json_utf8 x /\ go t end) l
  | JObj l => (fix go (l : list (list N * json)) : Prop :=
                 match l with [] => True | (k, v) :: t => utf8 k /\ json_utf8 v /\ go t end) l
  | _ => True
  end.
