(* Spec for C04: the PE mapping rule, stated without loops and without wrapping
   arithmetic, over the decoded section table. *)
From PV.Model Require Import Machine Mapping.

Definition vext (s : section) : N := N.max (s_vs s) (s_srd s).

(* rva lies in the virtual extent of s (a section whose extent does not fit below 2^32 is corrupt and skipped) *)
Definition in_virtual (rva : N) (s : section) : bool :=
  (s_va s <=? rva) && (rva <? s_va s + vext s) && (s_va s + vext s <? W32).
(* file offset lies in the raw data of s *)
Definition in_raw (fo : N) (s : section) : bool :=
  (s_prd s <=? fo) && (fo <? s_prd s + s_srd s) && (s_prd s + s_srd s <? W32).

Definition first_v (secs : list section) (rva : N) : option section := find (in_virtual rva) secs.
Definition first_r (secs : list section) (fo : N) : option section := find (in_raw fo) secs.

(* RVA -> file offset: below SizeOfHeaders the identity; otherwise through the first
   containing section: stored bytes map to PointerToRawData + (rva - VirtualAddress),
   the virtual-only tail is zero fill, everything else is out of bounds. *)
Definition rva_to_file_offset_spec (soh : N) (secs : list section) (rva : N) : res N :=
  if rva <? soh then Ok rva else
  match first_v secs rva with
  | None => Err EBounds
  | Some s =>
    if W32 <=? s_prd s + s_srd s then Err EOverflow
    else if rva - s_va s <? s_srd s then Ok (s_prd s + (rva - s_va s))
    else Err EZeroFill
  end.

Definition file_offset_to_rva_spec (soh : N) (secs : list section) (fo : N) : res N :=
  if fo <? soh then Ok fo else
  match first_r secs fo with
  | None => Err EBounds
  | Some s =>
    if W32 <=? s_va s + s_vs s then Err EOverflow
    else if fo - s_prd s <? s_vs s then Ok (s_va s + (fo - s_prd s))
    else Err EUnmapped
  end.

(* Slicing a file view: the bytes start at PointerToRawData + (rva - VirtualAddress)
   and end where the section's raw data ends; the raw data must lie inside the
   buffer; a request for more bytes than that never succeeds. *)
Definition slice_file_spec (base len : N) (secs : list section) (rva min_size align : N) : res region :=
  if rva =? 0 then Err ENull
  else if negb (((base + rva) mod W64) mod align =? 0) then Err EMisaligned
  else match first_v secs rva with
  | None => Err EBounds
  | Some s =>
    if (W32 <=? s_prd s + s_srd s) || (len <? s_prd s + s_srd s) then Err EInvalid
    else
      let so := rva - s_va s in
      if (so <=? s_srd s) && (min_size <=? s_srd s - so) then
        if (base + s_prd s + so) mod align =? 0
        then Ok {| r_off := s_prd s + so; r_len := s_srd s - so |}
        else Err EMisaligned
      else Err (if s_va s + vext s - rva <? min_size then EBounds else EZeroFill)
  end.

Definition get_section_bytes_spec (len address size : N) : res region :=
  if address =? 0 then Err ENull
  else if (address + size <? W32) && (address + size <=? len)
       then Ok {| r_off := address; r_len := size |} else Err EBounds.

(* --- comparison helpers for the extracted oracle --- *)
Definition resN_eqb (a b : res N) : bool :=
  match a, b with
  | Ok x, Ok y => x =? y
  | Err e, Err f => error_eqb e f
  | _, _ => false
  end.
Definition region_eqb (a b : region) : bool := (r_off a =? r_off b) && (r_len a =? r_len b).
Definition resR_eqb (a b : res region) : bool :=
  match a, b with
  | Ok x, Ok y => region_eqb x y
  | Err e, Err f => error_eqb e f
  | _, _ => false
  end.

(* the inversion clause of the property, as a check on observed results:
   whenever rva->offset succeeded on a byte that is stored, mapped and not aliased,
   offset->rva of the result must give the rva back *)
Definition unaliased (soh : N) (secs : list section) (rva fo : N) : bool :=
  (soh <=? rva) && (soh <=? fo) &&
  match first_v secs rva, first_r secs fo with
  | Some s, Some t =>
    (s_va s =? s_va t) && (s_vs s =? s_vs t) && (s_prd s =? s_prd t) && (s_srd s =? s_srd t)
    && (rva - s_va s <? s_vs s) && (s_va s + s_vs s <? W32)
  | _, _ => false
  end.
Definition inversion_ok (soh : N) (secs : list section) (rva : N) (r2f : res N) (f2r_of_result : res N) : bool :=
  match r2f with
  | Ok fo => if unaliased soh secs rva fo then resN_eqb f2r_of_result (Ok rva) else true
  | _ => true
  end.
