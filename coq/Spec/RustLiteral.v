(* The Rust Reference's meaning of a (cooked) string literal token, for the fragment the pattern macro can meet.
   Independent of Model/Unescape.v.  Sources: The Rust Reference, "Tokens" (String literals, Quote escapes,
   ASCII escapes, Unicode escapes, Suffixes) and "Input format" (CRLF normalisation).
   In the comments of this file DQ stands for the double quote character U+0022.

     STRING_LITERAL : DQ ( ~[DQ \ IsolatedCR] | QUOTE_ESCAPE | ASCII_ESCAPE | UNICODE_ESCAPE | STRING_CONTINUE )* DQ SUFFIX?
     QUOTE_ESCAPE   : \' | \DQ
     ASCII_ESCAPE   : \x OCT_DIGIT HEX_DIGIT | \n | \r | \t | \\ | \0
     UNICODE_ESCAPE : \u{ ( HEX_DIGIT _* ){1,6} }         value a Unicode scalar value
     STRING_CONTINUE: \ followed by LF; the LF and all immediately following U+0020, U+0009, U+000A, U+000D are ignored

   A literal is a list of chars (code points as N), the token text including its quotes.  After CRLF
   normalisation every remaining CR is an isolated CR.  Raw strings (rDQ..DQ r#DQ..DQ#), byte strings and C strings
   are different tokens: they do not start with 'DQ' and have no meaning here ([None]).
   Limitation: the suffix is recognised for ASCII identifiers only (the reference allows XID characters). *)
From Coq Require Import List Bool NArith.
From PV.Model Require Import Pattern.   (* only for the [atom] type of the observations *)
Import ListNotations.
Open Scope N_scope.

(* "Input format": each CR LF pair is replaced by a single LF before tokenisation *)
Fixpoint normalize_crlf (src : list N) : list N :=
  match src with
  | c :: t => match t with
              | d :: _ => if (c =? 13) && (d =? 10) then normalize_crlf t else c :: normalize_crlf t
              | [] => [c]
              end
  | [] => []
  end.

Definition hex_digit (c : N) : option N :=
  if (48 <=? c) && (c <=? 57) then Some (c - 48)
  else if (97 <=? c) && (c <=? 102) then Some (c - 87)
  else if (65 <=? c) && (c <=? 70) then Some (c - 55)
  else None.

(* \\ \' \DQ \n \r \t \0 *)
Definition simple_escape (e : N) : option N :=
  if e =? 92 then Some 92 else if e =? 39 then Some 39 else if e =? 34 then Some 34
  else if e =? 110 then Some 10 else if e =? 114 then Some 13 else if e =? 116 then Some 9
  else if e =? 48 then Some 0 else None.

Definition is_scalar (v : N) : bool := (v <=? 1114111) && negb ((55296 <=? v) && (v <=? 57343)).

(* after `\u{`: hex digits, each optionally followed by underscores, then `}`; returns value, digit count, rest *)
Fixpoint unicode_digits (cs : list N) (acc ndig : N) : option (N * N * list N) :=
  match cs with
  | [] => None
  | c :: t =>
    if c =? 125 then Some (acc, ndig, t)
    else if c =? 95 then (if ndig =? 0 then None else unicode_digits t acc ndig)
    else match hex_digit c with
         | Some d => unicode_digits t (acc * 16 + d) (ndig + 1)
         | None => None
         end
  end.
Definition unicode_escape (cs : list N) : option (N * list N) :=   (* cs = what follows `\u` *)
  match cs with
  | c :: t =>
    if c =? 123 then
      match unicode_digits t 0 0 with
      | Some (v, n, rest) => if (1 <=? n) && (n <=? 6) && is_scalar v then Some (v, rest) else None
      | None => None
      end
    else None
  | [] => None
  end.
(* \xHH with value at most 0x7F *)
Definition hex_escape (cs : list N) : option (N * list N) :=       (* cs = what follows `\x` *)
  match cs with
  | h :: l :: rest =>
    match hex_digit h, hex_digit l with
    | Some a, Some b => if a <? 8 then Some (a * 16 + b, rest) else None
    | _, _ => None
    end
  | _ => None
  end.
Fixpoint skip_ws (cs : list N) : list N :=
  match cs with
  | c :: t => if (c =? 32) || (c =? 9) || (c =? 10) || (c =? 13) then skip_ws t else cs
  | [] => []
  end.

Definition push (v : N) (r : option (list N * list N)) : option (list N * list N) :=
  match r with Some (s, rest) => Some (v :: s, rest) | None => None end.

(* the body after the opening quote: its value and what follows the closing quote.
   Every step consumes at least one char, so [fuel] = length suffices ([None] also when it runs out). *)
Fixpoint body (fuel : nat) (cs : list N) : option (list N * list N) :=
  match fuel with
  | O => None
  | S f =>
    match cs with
    | [] => None                                            (* no closing quote *)
    | c :: t =>
      if c =? 34 then Some ([], t)
      else if c =? 13 then None                             (* isolated CR *)
      else if c =? 92 then
        match t with
        | [] => None
        | e :: t1 =>
          if e =? 10 then body f (skip_ws t1)               (* string continuation *)
          else if e =? 120 then match hex_escape t1 with Some (v, t2) => push v (body f t2) | None => None end
          else if e =? 117 then match unicode_escape t1 with Some (v, t2) => push v (body f t2) | None => None end
          else match simple_escape e with Some v => push v (body f t1) | None => None end
        end
      else push c (body f t)
    end
  end.

(* the token: value and suffix *)
Definition rust_token (lit : list N) : option (list N * list N) :=
  match lit with
  | q :: t => if q =? 34 then body (length t) t else None
  | [] => None
  end.

Definition ident_start (c : N) : bool := ((97 <=? c) && (c <=? 122)) || ((65 <=? c) && (c <=? 90)) || (c =? 95).
Definition ident_continue (c : N) : bool := ident_start c || ((48 <=? c) && (c <=? 57)).
Definition is_suffix (s : list N) : bool :=
  match s with [] => true | c :: t => ident_start c && forallb ident_continue t end.

(* the token is lexically a string literal (this is what a macro may receive) *)
Definition rust_lex_ok (lit : list N) : bool :=
  match rust_token lit with Some (_, sfx) => is_suffix sfx | None => false end.

(* the value of the literal as an expression of type &str: "a string literal with a suffix is rejected" *)
Definition rust_unescape (lit : list N) : option (list N) :=
  match rust_token lit with Some (s, []) => Some s | _ => None end.

(* ---- known class: escapes that Rust gives a meaning and the macro refuses to read ---- *)
(* the body uses a backslash followed by something other than \ ' DQ t r n  (i.e. \0, \x.., \u{..}, \<LF>) *)
Fixpoint other_escape (cs : list N) : bool :=
  match cs with
  | [] => false
  | c :: t =>
    if c =? 34 then false
    else if c =? 92 then
      match t with
      | [] => false
      | e :: t1 =>
        if (e =? 92) || (e =? 39) || (e =? 34) || (e =? 116) || (e =? 114) || (e =? 110) then other_escape t1 else true
      end
    else other_escape t
  end.
Definition escape_not_supported_by_macro (lit : list N) : bool :=
  match rust_unescape lit with Some _ => other_escape (tl lit) | None => false end.

(* ---- the oracle: evaluated on what the generated crate shows ----
   [str]   : the same literal compiled as a plain &str (its bytes), None if rustc refuses it
   [parsed]: pelite::pattern::parse of that &str at run time: Some atoms / None = error
   [macro] : the const produced by pattern!(literal): Some atoms / None = the call does not compile *)
Definition macro_agrees {atom : Type} (eqb : atom -> atom -> bool)
           (str : option (list N)) (parsed macro : option (list atom)) : bool :=
  match str with
  | None => match macro with None => true | Some _ => false end   (* not a Rust string: must not compile *)
  | Some _ =>
    match parsed, macro with
    | Some a, Some b => (length a =? length b)%nat && forallb (fun p => eqb (fst p) (snd p)) (combine a b)
    | None, None => true                                         (* rejected at run time: does not compile *)
    | _, _ => false
    end
  end.

Definition atom_eqb (a b : atom) : bool :=
  match a, b with
  | Byte x, Byte y | Save x, Save y | Push x, Push y | Fuzzy x, Fuzzy y | Skip x, Skip y | Back x, Back y
  | Rangext x, Rangext y | Many x, Many y | Pir x, Pir y | Check x, Check y | Aligned x, Aligned y
  | ReadI8 x, ReadI8 y | ReadU8 x, ReadU8 y | ReadI16 x, ReadI16 y | ReadU16 x, ReadU16 y
  | ReadI32 x, ReadI32 y | ReadU32 x, ReadU32 y | Zero x, Zero y | Case x, Case y | Break x, Break y => x =? y
  | Pop, Pop | Jump1, Jump1 | Jump4, Jump4 | Ptr, Ptr | VTypeName, VTypeName | Nop, Nop => true
  | _, _ => false
  end.
Definition c17_oracle : option (list N) -> option (list atom) -> option (list atom) -> bool := macro_agrees atom_eqb.
