(* Spec for the code generation step of C17: an independent reader for the fragment of Rust the expansion of
   `pattern!` is written in.  It does not mention the printer (Model/Codegen.v); it says what a Rust compiler makes of
   a text of the shape

       { use ::pelite::pattern::Atom::*; & [ e1, e2, ... ] }          e ::= Ident | Ident ( int, ... )

   namely: the tokens (Rust Reference, "Tokens": identifiers, decimal integer literals, punctuation, whitespace), the
   block expression with one glob import and one borrowed array expression, every element resolved against the
   variants of `pelite::pattern::Atom` (src/proc-macros/pattern.rs:113-175: name, arity, field type) and evaluated.

   [None] = the text is outside this fragment OR does not compile.  Inside the fragment's vocabulary the compile errors
   are: an unknown variant name; a unit variant called like a function / a tuple variant not called or called with
   the wrong number of arguments (type errors); an integer literal that does not fit the field type (the
   deny-by-default lint overflowing_literals).  Not in the fragment (so None although Rust may accept it): integer
   literals with `_`, a suffix, or a radix prefix; a minus sign (no field of Atom is signed); comments; raw
   identifiers; any other expression.  A trailing comma in the array or in an argument list is accepted, as Rust does.

   That rustc's lexer, parser and name resolution agree with this reading on the macro's output is the residual
   trusted statement of C17 (checked by compiling the expansions: harness/src/bin/macrogen.rs). *)
From Coq Require Import String Ascii.
From PV.Model Require Import Machine Pattern.

(* names are written as strings and converted to byte lists when the definition is elaborated: [txt "use"] IS the term
   [117; 115; 101] (no Coq string reaches the extracted code) *)
Fixpoint text_of (s : string) : list N :=
  match s with EmptyString => [] | String c t => N_of_ascii c :: text_of t end.
Notation "'txt' s" := (ltac:(let v := eval vm_compute in (text_of s%string) in exact v)) (at level 10, only parsing).

(* ---------------------------------------------------------------- tokens *)
Inductive token :=
| TIdent (name : list N)     (* IDENTIFIER_OR_KEYWORD, ASCII only: [A-Za-z_][A-Za-z0-9_]* *)
| TInt (v : N)               (* DEC_LITERAL without `_`: [0-9]+, its value *)
| TPunct (c : N)             (* one of { } [ ] ( ) , ; & * *)
| TPathSep.                  (* :: *)

Definition tk_ws (c : N) : bool := (c =? 32) || (c =? 9) || (c =? 10) || (c =? 13).
Definition tk_digit (c : N) : bool := (48 <=? c) && (c <=? 57).
Definition tk_ident_start (c : N) : bool := ((65 <=? c) && (c <=? 90)) || ((97 <=? c) && (c <=? 122)) || (c =? 95).
Definition tk_punct (c : N) : bool :=
  (c =? 123) || (c =? 125) || (c =? 91) || (c =? 93) || (c =? 40) || (c =? 41) || (c =? 44) || (c =? 59) || (c =? 38) || (c =? 42).

(* the token under construction (maximal munch: it ends at the first char that cannot continue it) *)
Inductive lex_state := LNone | LIdent (name : list N) | LInt (v : N).
Definition finish_token (st : lex_state) : list token :=
  match st with LNone => [] | LIdent name => [TIdent name] | LInt v => [TInt v] end.
Definition with_tokens (ts : list token) (r : option (list token)) : option (list token) := option_map (app ts) r.

Fixpoint lex (cs : list N) (st : lex_state) : option (list token) :=
  match cs with
  | [] => Some (finish_token st)
  | c :: t =>
    if tk_ident_start c then
      match st with
      | LNone => lex t (LIdent [c])
      | LIdent name => lex t (LIdent (name ++ [c]))
      | LInt _ => None                                        (* a literal suffix: not in the fragment *)
      end
    else if tk_digit c then
      match st with
      | LNone => lex t (LInt (c - 48))
      | LIdent name => lex t (LIdent (name ++ [c]))
      | LInt v => lex t (LInt (v * 10 + (c - 48)))
      end
    else if tk_ws c then with_tokens (finish_token st) (lex t LNone)
    else if tk_punct c then with_tokens (finish_token st ++ [TPunct c]) (lex t LNone)
    else if c =? 58 then                                      (* `:` only as part of `::` *)
      match t with
      | c1 :: t1 => if c1 =? 58 then with_tokens (finish_token st ++ [TPathSep]) (lex t1 LNone) else None
      | [] => None
      end
    else None
  end.
Definition tokenize (cs : list N) : option (list token) := lex cs LNone.

(* ---------------------------------------------------------------- the items in scope after `use ..::Atom::*` *)
Inductive int_ty := U8 | U16 | U32.        (* the unsigned field types; every field of Atom is a U8 *)
Definition int_max (ty : int_ty) : N := match ty with U8 => 255 | U16 => 65535 | U32 => 4294967295 end.

Inductive variant :=
| VUnit (a : atom)                           (* `Name` is a value of type Atom *)
| VTuple1 (ty : int_ty) (mk : N -> atom).    (* `Name` is a function  fn(ty) -> Atom *)

(* pattern.rs:113-175, in source order *)
Definition variants : list (list N * variant) :=
  [ (txt "Byte", VTuple1 U8 Byte); (txt "Save", VTuple1 U8 Save); (txt "Push", VTuple1 U8 Push); (txt "Pop", VUnit Pop);
    (txt "Fuzzy", VTuple1 U8 Fuzzy); (txt "Skip", VTuple1 U8 Skip); (txt "Back", VTuple1 U8 Back); (txt "Rangext", VTuple1 U8 Rangext);
    (txt "Many", VTuple1 U8 Many); (txt "Jump1", VUnit Jump1); (txt "Jump4", VUnit Jump4); (txt "Ptr", VUnit Ptr); (txt "Pir", VTuple1 U8 Pir);
    (txt "VTypeName", VUnit VTypeName); (txt "Check", VTuple1 U8 Check); (txt "Aligned", VTuple1 U8 Aligned);
    (txt "ReadI8", VTuple1 U8 ReadI8); (txt "ReadU8", VTuple1 U8 ReadU8); (txt "ReadI16", VTuple1 U8 ReadI16);
    (txt "ReadU16", VTuple1 U8 ReadU16); (txt "ReadI32", VTuple1 U8 ReadI32); (txt "ReadU32", VTuple1 U8 ReadU32);
    (txt "Zero", VTuple1 U8 Zero); (txt "Case", VTuple1 U8 Case); (txt "Break", VTuple1 U8 Break); (txt "Nop", VUnit Nop) ].

Fixpoint text_eqb (a b : list N) : bool :=
  match a, b with
  | [], [] => true
  | x :: a', y :: b' => (x =? y) && text_eqb a' b'
  | _, _ => false
  end.
Fixpoint lookup_variant (name : list N) (tbl : list (list N * variant)) : option variant :=
  match tbl with
  | [] => None
  | (n, v) :: t => if text_eqb name n then Some v else lookup_variant name t
  end.

(* an element expression: a path [name] alone ([args] = None) or a call [name(args)] with integer literal arguments *)
Definition resolve (name : list N) (args : option (list N)) : option atom :=
  match lookup_variant name variants, args with
  | Some (VUnit a), None => Some a
  | Some (VTuple1 ty mk), Some [v] => if v <=? int_max ty then Some (mk v) else None
  | _, _ => None
  end.

(* ---------------------------------------------------------------- the array expression, token by token *)
Inductive estate :=
| SElem                                   (* after `[` or `,`            : an element, or `]` *)
| SName (name : list N)                   (* after an identifier         : `(`, `,` or `]` *)
| SArg (name : list N) (vs : list N)      (* after `(` or `,` in a call  : an integer literal, or `)` *)
| SArgSep (name : list N) (vs : list N)   (* after a literal in a call   : `,` or `)` *)
| SSep.                                   (* after a complete call       : `,` or `]` *)

(* after the `]` of the array: the `}` of the block, and nothing else *)
Definition close_block (rest : list token) (acc : list atom) : option (list atom) :=
  match rest with [TPunct c] => if c =? 125 then Some acc else None | _ => None end.
Definition with_atom (a : option atom) (k : atom -> option (list atom)) : option (list atom) :=
  match a with Some x => k x | None => None end.

Fixpoint eval_array (ts : list token) (st : estate) (acc : list atom) : option (list atom) :=
  match ts with
  | [] => None
  | t :: rest =>
    match st, t with
    | SElem, TIdent n => eval_array rest (SName n) acc
    | SElem, TPunct c => if c =? 93 then close_block rest acc else None
    | SName n, TPunct c =>
      if c =? 40 then eval_array rest (SArg n []) acc
      else if c =? 44 then with_atom (resolve n None) (fun a => eval_array rest SElem (acc ++ [a]))
      else if c =? 93 then with_atom (resolve n None) (fun a => close_block rest (acc ++ [a]))
      else None
    | SArg n vs, TInt v => eval_array rest (SArgSep n (vs ++ [v])) acc
    | SArg n vs, TPunct c =>
      if c =? 41 then with_atom (resolve n (Some vs)) (fun a => eval_array rest SSep (acc ++ [a])) else None
    | SArgSep n vs, TPunct c =>
      if c =? 44 then eval_array rest (SArg n vs) acc
      else if c =? 41 then with_atom (resolve n (Some vs)) (fun a => eval_array rest SSep (acc ++ [a]))
      else None
    | SSep, TPunct c =>
      if c =? 44 then eval_array rest SElem acc
      else if c =? 93 then close_block rest acc
      else None
    | _, _ => None
    end
  end.

(* ---------------------------------------------------------------- the block *)
Definition token_eqb (a b : token) : bool :=
  match a, b with
  | TIdent x, TIdent y => text_eqb x y
  | TInt x, TInt y => x =? y
  | TPunct x, TPunct y => x =? y
  | TPathSep, TPathSep => true
  | _, _ => false
  end.
(* [ts] starts with the tokens [pre]: what follows them *)
Fixpoint expect_tokens (pre ts : list token) : option (list token) :=
  match pre, ts with
  | [], _ => Some ts
  | p :: pre', t :: ts' => if token_eqb p t then expect_tokens pre' ts' else None
  | _ :: _, [] => None
  end.

(* `{ use ::pelite::pattern::Atom::*; & [`  - the only thing between the import and the array is the borrow *)
Definition block_head : list token :=
  [TPunct 123; TIdent (txt "use"); TPathSep; TIdent (txt "pelite"); TPathSep; TIdent (txt "pattern"); TPathSep;
   TIdent (txt "Atom"); TPathSep; TPunct 42; TPunct 59; TPunct 38; TPunct 91].

Definition eval_tokens (ts : list token) : option (list atom) :=
  match expect_tokens block_head ts with
  | Some rest => eval_array rest SElem []
  | None => None
  end.

(* the value of the expansion text as a Rust expression of type &[Atom]; None = outside the fragment / compile error *)
Definition eval_expansion (text : list N) : option (list atom) :=
  match tokenize text with
  | Some ts => eval_tokens ts
  | None => None
  end.

(* ---------------------------------------------------------------- the oracle evaluated on the implementation's text *)
Fixpoint atoms_eqb (eqb : atom -> atom -> bool) (a b : list atom) : bool :=
  match a, b with
  | [], [] => true
  | x :: a', y :: b' => eqb x y && atoms_eqb eqb a' b'
  | _, _ => false
  end.
(* [text]: an expansion text; [atoms]: the vector it was printed from.  The text, read as Rust, is that vector. *)
Definition codegen_oracle (eqb : atom -> atom -> bool) (text : list N) (atoms : list atom) : bool :=
  match eval_expansion text with Some a => atoms_eqb eqb a atoms | None => false end.
