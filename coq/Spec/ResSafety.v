(* Spec for C12 in the vocabulary of C01 (Spec/SafetySpec.v): where the borrows of the resources API lie.
   A [Directory], [DirectoryEntry], [DataEntry] holds a reference into the section; a name is a &[u16], data a &[u8]. *)
From PV.Model Require Import Machine Mapping Views Resources.
From PV.Spec Require Import SafetySpec.

Definition reg (o n : N) : region := {| r_off := o; r_len := n |}.
(* a typed borrow of the section [s]: inside its bytes and its address aligned *)
Definition sec_typed (s : rsec) (align : N) (r : region) : Prop := typed_safe (rs_addr s) (rs_len s) align r.

(* Directory::try_from: the &IMAGE_RESOURCE_DIRECTORY and the entry array behind it (what entries(), named_entries(),
   id_entries() build with from_raw_parts) *)
Definition dir_safe (s : rsec) (o : N) : Prop :=
  sec_typed s 4 (reg o 16) /\ sec_typed s 4 (reg (o + 16) (8 * (n_named s o + n_ids s o))) /\
  sec_typed s 4 (reg (o + 16) (8 * n_named s o)) /\ sec_typed s 4 (reg (o + 16 + 8 * n_named s o) (8 * n_ids s o)).

(* every reference an item of a traversal carries: the entry, its string name, its target, its data *)
Definition item_safe (s : rsec) (i : item) : Prop :=
  sec_typed s 4 (reg (i_eoff i) 8) /\
  match i_name i with
  | Ok (NWide ws) => exists o n, sec_typed s 2 (reg o (2 * n)) /\ ws = words s o n
  | _ => True
  end /\
  match i_tgt i with
  | TDir o => dir_safe s o
  | TData o b _ _ => sec_typed s 4 (reg o 16) /\ match b with Ok rg => region_in (rs_len s) rg | _ => True end
  | TBad _ => True
  end.
Definition witem_safe (s : rsec) (w : witem) : Prop := match w with WItem i => item_safe s i | _ => True end.
