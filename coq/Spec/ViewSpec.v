(* Spec for C05: closed forms of the view-level operations and of the scanning reads. *)
From PV.Model Require Import Machine Mapping Views.
From PV.Spec Require Import MappingSpec.

(* a mapped view slices the buffer at offset rva *)
Definition slice_section_spec (addr len rva min_size align : N) : res region :=
  if rva =? 0 then Err ENull
  else if negb (((addr + rva) mod W64) mod align =? 0) then Err EMisaligned
  else if (rva <=? len) && (min_size <=? len - rva) then Ok {| r_off := rva; r_len := len - rva |}
  else Err EBounds.

Definition slice_spec (v : view) (rva min_size align : N) : res region :=
  if v_file v then slice_file_spec (v_addr v) (v_len v) (v_secs v) rva min_size align
  else slice_section_spec (v_addr v) (v_len v) rva min_size align.

(* reading at a virtual address: translate, then slice.  [None] = the property does
   not constrain the result (va = base, i.e. rva 0 reached through a non-zero va,
   which lies outside the open interval (0, SizeOfImage)). *)
Definition read_spec (v : view) (va min_size align : N) : option (res region) :=
  if va =? 0 then Some (Err ENull)
  else if (va <? v_base v) || (v_soi v <? va - v_base v) then Some (Err EBounds)
  else if va =? v_base v then None
  else Some (slice_spec v (va - v_base v) min_size align).

Definition rva_to_va_spec (v : view) (rva : N) : res N :=
  if rva =? 0 then Err ENull
  else if v_soi v <=? rva then Err EBounds
  else if v_w v <=? v_base v + rva then Err EOverflow
  else Ok (v_base v + rva).
Definition va_to_rva_spec (v : view) (va : N) : res N :=
  if va =? 0 then Err ENull
  else if (va <? v_base v) || (v_base v + v_soi v <? va) then Err EBounds
  else Ok (va - v_base v).

(* element k of an array of [size]-byte little-endian values starting at [off] *)
Definition elem (get : N -> N) (off size k : N) : N := le_value get (off + k * size) (N.to_nat size).

(* the count returned by a predicate-terminated read: the least k whose element
   satisfies p, provided elements 0..k all lie inside the blen bytes *)
Definition is_first (get : N -> N) (p : N -> bool) (off blen size n : N) : Prop :=
  (n + 1) * size <= blen /\ p (elem get off size n) = true /\
  forall k, k < n -> p (elem get off size k) = false.
Definition none_in (get : N -> N) (p : N -> bool) (off blen size : N) : Prop :=
  forall k, (k + 1) * size <= blen -> p (elem get off size k) = false.

(* executable forms for the oracle *)
Fixpoint first_idx (get : N -> N) (p : N -> bool) (off size : N) (k : N) (n : nat) : option N :=
  match n with
  | O => None
  | S m => if p (elem get off size k) then Some k else first_idx get p off size (k + 1) m
  end.
Definition slice_f_spec (get : N -> N) (sl : N -> N -> N -> res region) (a size align : N) (p : N -> bool) : res region :=
  match sl a 0 align with
  | Ok r => match first_idx get p (r_off r) size 0 (N.to_nat (r_len r / size)) with
            | Some n => Ok {| r_off := r_off r; r_len := n * size |}
            | None => Err EBounds
            end
  | Err e => Err e
  | Fault f => Fault f
  end.
Definition c_str_spec (get : N -> N) (sl : N -> N -> N -> res region) (a : N) : res region :=
  match sl a 0 1 with
  | Ok r => match first_idx get (fun b => b =? 0) (r_off r) 1 0 (N.to_nat (r_len r)) with
            | Some n => Ok {| r_off := r_off r; r_len := n + 1 |}
            | None => Err EEncoding
            end
  | Err e => Err e
  | Fault f => Fault f
  end.
