(* Spec for the `resources` member of the serialized image (C19, third round).

   1. [json_text_full_ok]: the oracle on the text the implementation produced, with NO member dropped: the text is
      accepted by the validator of Model/Json.v, is the canonical compact print of the tree it denotes, and that tree
      is the model's tree of all ten members.
   2. What the member must be, read off the tree a section denotes (Spec/ResTree.v [rtree] / [repr], the notions of
      C12) and NOT off the walk of the serializer: [tree_json].  A directory is the array of its entries in stored
      order; an entry is { "name", "directory" | "data" }; a name is the id as a number or the UTF-16 string decoded
      with U+FFFD for every unpaired surrogate ([Util.lossy] of the declarative decoder of Spec/UtilSpec.v), except that
      on the first level an id with a predefined type name is that name; a data entry is
      { "address": VirtualAddress of the section + offset of the data in the section, "size", "code_page" }.
   3. The same value read off the depth-first LISTING of the tree (what traversal, C12, reports: [ResTree.flatten]):
      [listing_json].
   4. Ghost measures of a value: the number of entry objects (objects with a "name" member) and the nesting of arrays. *)
From Coq Require Import Strings.String.
From PV.Model Require Import JsonStr.
From PV.Model Require Import Machine Mapping Json.
From PV.Model Require Resources Util.
From PV.Spec Require ResTree UtilSpec.

(* ------------------------------------------------------------------ 1. the full-text oracle *)
Definition json_text_full_ok (model : res json) (text : list N) : bool :=
  match parse_json text, model with
  | Some j, Ok jm => list_eqb (print_json j) text && list_eqb (print_json j) (print_json jm)
  | _, _ => false
  end.

(* ------------------------------------------------------------------ 2. the member as a function of the tree *)
Definition sk_name : list N := S_"name".
Definition sk_directory : list N := S_"directory".
Definition sk_data : list N := S_"data".
Definition sk_address : list N := S_"address".
Definition sk_size : list N := S_"size".
Definition sk_code_page : list N := S_"code_page".

Definition lossy_utf8 (ws : list N) : list N := UtilSpec.utf8_encode_all (UtilSpec.lossy (UtilSpec.utf16_decode_spec ws)).
Definition name_json (top : bool) (n : Resources.name) : json :=
  match n with
  | Resources.NId id =>
    if top then match Resources.rsrc_type id with Some nm => JStr nm | None => JNum id end else JNum id
  | Resources.NWide ws => JStr (lossy_utf8 ws)
  | Resources.NStr cs => JStr cs
  end.

Section KidsJson.
  Variable tj : ResTree.rtree -> json.
  Variable top : bool.
  Fixpoint kids_json (l : list (Resources.name * ResTree.rtree)) {struct l} : list json :=
    match l with
    | [] => []
    | nk :: r =>
      JObj [ (sk_name, name_json top (fst nk));
             (if ResTree.rt_isdir (snd nk) then sk_directory else sk_data, tj (snd nk)) ] :: kids_json r
    end.
End KidsJson.
Fixpoint tree_json (va : N) (top : bool) (t : ResTree.rtree) {struct t} : json :=
  match t with
  | ResTree.RData _ start size cp => JObj [ (sk_address, JNum (va + start)); (sk_size, JNum size); (sk_code_page, JNum cp) ]
  | ResTree.RDir _ kids => JArr (kids_json (fun k => tree_json va false k) top kids)
  end.

(* ------------------------------------------------------------------ 3. the member as a function of the listing *)
Definition item_name_json (top : bool) (i : Resources.item) : json :=
  match Resources.i_name i with Ok n => name_json top n | _ => JNull end.
(* one unit of fuel per level *)
Fixpoint listing_json (fuel : nat) (va lvl : N) (l : list Resources.witem) {struct fuel} : list json :=
  match fuel with
  | O => []
  | S k =>
    map (fun isub : Resources.item * list Resources.witem =>
           let i := fst isub in
           JObj [ (sk_name, item_name_json (lvl =? 0) i);
                  match Resources.i_tgt i with
                  | Resources.TDir _ => (sk_directory, JArr (listing_json k va (lvl + 1) (snd isub)))
                  | Resources.TData _ (Ok rg) size cp =>
                    (sk_data, JObj [ (sk_address, JNum (va + r_off rg)); (sk_size, JNum size); (sk_code_page, JNum cp) ])
                  | _ => (if Resources.i_isdir i then sk_directory else sk_data, JNull)
                  end ])
        (ResTree.kids_of lvl l)
  end.

(* ------------------------------------------------------------------ 4. measures *)
(* objects that have a "name" member: the entries *)
Fixpoint jentries (j : json) : N :=
  match j with
  | JArr l => fold_right N.add 0 (map jentries l)
  | JObj l => (match assoc sk_name l with Some _ => 1 | None => 0 end) + fold_right N.add 0 (map (fun kv => jentries (snd kv)) l)
  | _ => 0
  end.
(* nesting of arrays *)
Fixpoint jdepth (j : json) : nat :=
  match j with
  | JArr l => S (fold_right Nat.max O (map jdepth l))
  | JObj l => fold_right Nat.max O (map (fun kv => jdepth (snd kv)) l)
  | _ => O
  end.
